import SpecVerif.Model.C05Ov
import SpecVerif.Proofs.C05
/-!
# C05 — helper lemmas about `Model/C05Ov.lean` (the statements are in `Props/C05.lean`)

* the memo of `_get_function_args` never changes an answer (`MemoOK` is the invariant);
* the overflow-aware knot coincides with the knot of `Model/C05.lean` when no class has an overflow attribute.
-/
set_option linter.unusedSectionVars false
set_option linter.unusedSimpArgs false
set_option linter.unusedVariables false
namespace SpecVerif.C05.Ov.Proofs
open SpecVerif.Py SpecVerif.C05 SpecVerif.C05.Proofs

/-! ## the memo of `_get_function_args` -/

/-- the invariant of `function.__spec_class_args__`: an entry exists only for a signature without `**kwargs`
and holds exactly that signature's parameter names -/
def MemoOK (sigs : Nat → Sig) (memo : Memo) : Prop :=
  ∀ f ps, memo.get? f = some ps → sigs f = .fixed ps

theorem memoOK_nil (sigs : Nat → Sig) : MemoOK sigs [] := by
  intro f ps h
  simp [Memo.get?] at h

theorem getFunctionArgs_fst (sigs : Nat → Sig) (memo : Memo) (f : Nat) (attrs : List Nat) (h : MemoOK sigs memo) :
    (getFunctionArgs sigs memo f attrs).1 = argsOf (sigs f) attrs := by
  unfold getFunctionArgs
  cases hs : sigs f with
  | builtin => rfl
  | objectInit => rfl
  | varkw ps =>
    cases hm : memo.get? f with
    | none => rfl
    | some qs => have := h f qs hm; rw [hs] at this; cases this
  | fixed ps =>
    cases hm : memo.get? f with
    | none => rfl
    | some qs =>
      have := h f qs hm
      rw [hs] at this
      cases this
      rfl

theorem getFunctionArgs_snd (sigs : Nat → Sig) (memo : Memo) (f : Nat) (attrs : List Nat) (h : MemoOK sigs memo) :
    MemoOK sigs (getFunctionArgs sigs memo f attrs).2 := by
  unfold getFunctionArgs
  cases hs : sigs f with
  | builtin => exact h
  | objectInit => exact h
  | varkw ps => cases hm : memo.get? f <;> exact h
  | fixed ps =>
    cases hm : memo.get? f with
    | some qs => exact h
    | none =>
      intro g qs hg
      simp only [Memo.get?, List.find?_cons] at hg
      by_cases hfg : (f == g) = true
      · simp only [hfg] at hg
        have : f = g := by simpa using hfg
        subst this
        simp only [Option.map_some, Option.some.injEq] at hg
        subst hg
        exact hs
      · simp only [hfg] at hg
        exact h g qs hg

theorem runArgs_eq (sigs : Nat → Sig) (calls : List (Nat × List Nat)) :
    ∀ memo, MemoOK sigs memo → runArgs sigs memo calls = calls.map (fun c => argsOf (sigs c.1) c.2) := by
  induction calls with
  | nil => intro memo _; rfl
  | cons c rest ih =>
    intro memo h
    obtain ⟨f, attrs⟩ := c
    simp only [runArgs, List.map_cons]
    rw [getFunctionArgs_fst sigs memo f attrs h, ih _ (getFunctionArgs_snd sigs memo f attrs h)]

/-! ## without overflow classes the two knots coincide -/

section conservative
variable (E : Env) (ov : OvMap) (hov : ∀ c, ov c = none)
include hov

theorem mvConstruct_eq (ctor : Nat → Kw → Except Err Val) (p : MV) (v : Val) :
    Ov.mvConstruct E ov ctor p v = SpecVerif.C05.mvConstruct E ctor p v := by
  unfold Ov.mvConstruct
  cases p.ty with
  | none => rfl
  | some ty =>
    simp only []
    cases ty.ctor <;> simp [hov]

theorem isExtra_none (cs : ClassSpec) (c : Nat) (kv : Nat × Val) : isExtra cs (ov c) kv = false := by
  rw [hov c]; rfl

/-- all four functions of the knot at once, by induction on the fuel -/
theorem knot_eq : ∀ n,
    (∀ old p, Ov.mutateValue E ov n old p = SpecVerif.C05.mutateValue E n old p) ∧
    (∀ skip obj a v, Ov.setAttrV E ov n skip obj a v = SpecVerif.C05.setAttrV E n skip obj a v) ∧
    (∀ inst sp v kw, Ov.prepareAttrValue E ov n inst sp v kw = SpecVerif.C05.prepareAttrValue E n inst sp v kw) ∧
    (∀ c kw, Ov.construct E ov n c kw = SpecVerif.C05.construct E n c kw) := by
  intro n
  induction n with
  | zero =>
    refine ⟨?_, ?_, ?_, ?_⟩
    · intro old p; rw [Ov.mutateValue, SpecVerif.C05.mutateValue]
    · intro skip obj a v; rw [Ov.setAttrV, SpecVerif.C05.setAttrV]
    · intro inst sp v kw; rw [Ov.prepareAttrValue, SpecVerif.C05.prepareAttrValue]
    · intro c kw; rw [Ov.construct, SpecVerif.C05.construct]
  | succ n ih =>
    obtain ⟨ihM, ihS, ihP, ihC⟩ := ih
    have hC : Ov.construct E ov n = SpecVerif.C05.construct E n := by
      funext c kw; exact ihC c kw
    have hS : ∀ skip, Ov.setAttrV E ov n skip = SpecVerif.C05.setAttrV E n skip := by
      intro skip; funext obj a v; exact ihS skip obj a v
    refine ⟨?_, ?_, ?_, ?_⟩
    · intro old p
      rw [Ov.mutateValue, SpecVerif.C05.mutateValue, hC, hS, mvConstruct_eq E ov hov]
      rfl
    · intro skip obj a v
      cases obj with
      | inst c fs =>
        rw [Ov.setAttrV, SpecVerif.C05.setAttrV]
        cases E.attr? c a with
        | none => rfl
        | some sp => simp only [ihP]; rfl
      | sc s => rw [Ov.setAttrV, SpecVerif.C05.setAttrV] <;> simp
      | list xs => rw [Ov.setAttrV, SpecVerif.C05.setAttrV] <;> simp
      | set xs => rw [Ov.setAttrV, SpecVerif.C05.setAttrV] <;> simp
      | dict kvs => rw [Ov.setAttrV, SpecVerif.C05.setAttrV] <;> simp
    · intro inst sp v kw
      rw [Ov.prepareAttrValue, SpecVerif.C05.prepareAttrValue]
      simp only [ihM]
      rfl
    · intro c kw
      rw [Ov.construct, SpecVerif.C05.construct]
      cases E.cls? c with
      | none => rfl
      | some cs =>
        simp only [hov c, isExtra, Bool.not_false, Bool.and_true, hS]
        split
        · rfl
        · split
          · rfl
          · have : ∀ a : Nat, (some a == (none : Option Nat)) = false := by intro a; rfl
            simp only [this, Bool.false_eq_true, if_false]
            have hid : ∀ x : Except Err Val,
                (match x with | .error e => (Except.error e : Except Err Val) | .ok o => .ok o) = x := by
              intro x; cases x <;> rfl
            exact (hid _).trans rfl

theorem setAttrV_succ_eq (n : Nat) (skip : Bool) (obj : Val) (a : Nat) (v : Val) :
    Ov.setAttrV E ov n skip obj a v = SpecVerif.C05.setAttrV E n skip obj a v :=
  (knot_eq E ov hov n).2.1 skip obj a v

theorem kwOk_eq (ty : Ty) (names : List Nat) : Ov.kwOk E ov ty names = SpecVerif.C05.kwOk E ty names := by
  unfold Ov.kwOk
  cases ty.kwClass <;> simp [hov]

theorem kwTopOk_eq (recv : Val) (names : List Nat) :
    Ov.kwTopOk E ov recv names = SpecVerif.C05.kwTopOk E recv names := by
  unfold Ov.kwTopOk SpecVerif.C05.kwTopOk
  cases classOf recv with
  | none => rfl
  | some c => exact kwOk_eq E ov hov _ _

theorem withAttr_eq (n : Nat) (recv : Val) (sp : AttrSpec) (v : Val) (kw : Kw) (i cnd : Bool) :
    Ov.withAttr E ov n recv sp v kw i cnd = SpecVerif.C05.withAttr E n recv sp v kw i cnd := by
  unfold Ov.withAttr SpecVerif.C05.withAttr
  rw [kwOk_eq E ov hov, (knot_eq E ov hov n).2.2.1]
  rfl

theorem delAttrV_eq (n : Nat) (obj : Val) (sp : AttrSpec) :
    Ov.delAttrV E ov n obj sp = SpecVerif.C05.delAttrV E n obj sp := by
  unfold Ov.delAttrV SpecVerif.C05.delAttrV
  rw [(knot_eq E ov hov n).2.2.1]
  rfl

theorem resetAllV_eq (n : Nat) (attrs : List AttrSpec) :
    ∀ obj, Ov.resetAllV E ov n obj attrs = SpecVerif.C05.resetAllV E n obj attrs := by
  induction attrs with
  | nil => intro obj; rfl
  | cons sp rest ih =>
    intro obj
    simp only [Ov.resetAllV, SpecVerif.C05.resetAllV, delAttrV_eq E ov hov]
    cases SpecVerif.C05.delAttrV E n obj sp with
    | ok v => exact ih v
    | error e => cases e <;> first | exact ih obj | rfl

theorem run_eq (n : Nat) (recv : Val) (c : Call) : Ov.run E ov n recv c = SpecVerif.C05.run E n recv c := by
  unfold Ov.run SpecVerif.C05.run
  cases c.op with
  | withA a v kw => simp only [withAttr_eq E ov hov]; rfl
  | updateA a v kw =>
    simp only [Ov.updateAttr, SpecVerif.C05.updateAttr, kwOk_eq E ov hov, withAttr_eq E ov hov,
      (knot_eq E ov hov n).1]
    rfl
  | transformA a f kt =>
    simp only [Ov.transformAttr, SpecVerif.C05.transformAttr, kwOk_eq E ov hov, withAttr_eq E ov hov,
      (knot_eq E ov hov n).1]
    rfl
  | resetA a => simp only [Ov.resetAttr, SpecVerif.C05.resetAttr, delAttrV_eq E ov hov]; rfl
  | setattr a v => simp only [(knot_eq E ov hov (n+1)).2.1]; rfl
  | delattr a => simp only [delAttrV_eq E ov hov]; rfl
  | update v kw =>
    simp only [Ov.updateTop, SpecVerif.C05.updateTop, kwTopOk_eq E ov hov, (knot_eq E ov hov n).1]
    rfl
  | transform f kt =>
    simp only [Ov.transformTop, SpecVerif.C05.transformTop, kwTopOk_eq E ov hov, (knot_eq E ov hov n).1]
    rfl
  | reset =>
    simp only [Ov.resetTop, SpecVerif.C05.resetTop, resetAllV_eq E ov hov]
    rfl

end conservative

/-! ## the constructor keywords are a function of the signature and of the keywords of the call -/

section args
variable (E : Env) (ov : OvMap)

theorem attr?_isSome_iff (cs : ClassSpec) (a : Nat) :
    (cs.attr? a).isSome = (cs.attrs.map (·.name)).contains a := by
  unfold ClassSpec.attr?
  rw [Bool.eq_iff_iff]
  simp only [List.find?_isSome, List.contains_iff_mem, List.mem_map, beq_iff_eq]

theorem filter_contains_self (kw : Kw) :
    kw.filter (fun kv => (kw.map (·.1)).contains kv.1 && kv.2 != MISSING) = kw.filter (fun kv => kv.2 != MISSING) := by
  apply List.filter_congr
  intro kv hkv
  have : (kw.map (·.1)).contains kv.1 = true := by
    simp only [List.contains_iff_mem, List.mem_map]
    exact ⟨kv, hkv, rfl⟩
  rw [this, Bool.true_and]

theorem filter_self_contains (l : List Nat) : l.filter (fun a => l.contains a) = l := by
  apply List.filter_eq_self.2
  intro a ha
  simpa using ha

/-- step 4 of `mutate_value` for a spec-class annotation: `used_attrs` are the keywords of the call that
`argsOf` — the memo-free reading of the constructor's signature — names, and exactly those (minus MISSING
values) are passed to the constructor. -/
theorem mvConstruct_missing_args (ctor : Nat → Kw → Except Err Val) (p : MV) (ty : Ty) (c : Nat) (cs : ClassSpec)
    (hty : p.ty = some ty) (hc : ty.ctor = .spec c) (hcs : E.cls? c = some cs) :
    Ov.mvConstruct E ov ctor p MISSING =
      (ctor c (p.attrs.filter (fun kv =>
          ((p.attrs.map (·.1)).filter (fun a => (argsOf (ctorSig E ov c) (p.attrs.map (·.1))).contains a)).contains kv.1
            && kv.2 != MISSING))).map
        (·, (p.attrs.map (·.1)).filter (fun a => (argsOf (ctorSig E ov c) (p.attrs.map (·.1))).contains a)) := by
  unfold Ov.mvConstruct ctorSig
  rw [hty]
  simp only [hc, hcs]
  cases ho : ov c with
  | some o =>
    simp only [Option.isSome_some, if_true, argsOf, filter_self_contains, filter_contains_self]
  | none =>
    simp only [Option.isSome_none, Bool.false_eq_true, if_false, argsOf]
    unfold SpecVerif.C05.mvConstruct
    rw [hty]
    simp only [hc, hcs, if_true]
    have h1 : (p.attrs.filter (fun kv => (cs.attr? kv.1).isSome)).map (·.1)
        = (p.attrs.map (·.1)).filter (fun a => (cs.attrs.map (·.name)).contains a) := by
      rw [List.filter_map]
      congr 1
      apply List.filter_congr
      intro kv _
      exact attr?_isSome_iff cs kv.1
    rw [h1]

end args

/-! ## instances stay instances (overflow-aware knot) -/

section inst
variable (E : Env) (ov : OvMap)

theorem setAttrV_isInst {n c : Nat} {obj r : Val} {a : Nat} {v : Val} {skip : Bool} (h : IsInst c obj)
    (hr : Ov.setAttrV E ov n skip obj a v = .ok r) : IsInst c r := by
  obtain ⟨fs, rfl⟩ := h
  cases n with
  | zero => rw [Ov.setAttrV] at hr; cases hr
  | succ n =>
    rw [Ov.setAttrV] at hr
    split at hr
    · cases hr; split
      · exact ⟨fs, rfl⟩
      · exact ⟨_, rfl⟩
    · split at hr
      · cases hr
      · exact mutateAttrV_isInst E ⟨fs, rfl⟩ hr

theorem construct_isInst {n c : Nat} {kw : Kw} {r : Val} (hr : Ov.construct E ov n c kw = .ok r) : IsInst c r := by
  cases n with
  | zero => rw [Ov.construct] at hr; cases hr
  | succ n =>
    rw [Ov.construct] at hr
    split at hr
    · cases hr
    · split at hr
      · cases hr
      · split at hr
        · cases hr
        · split at hr
          · cases hr
          · rename_i obj hfold
            have hobj : IsInst c obj := by
              refine foldlM_inv (IsInst c) _ _ _ obj ⟨_, rfl⟩ ?_ hfold
              intro acc a r' hacc hstep
              split at hstep
              · cases hstep; exact hacc
              · split at hstep
                · cases hstep; exact hacc
                · split at hstep
                  · cases hstep; exact hacc
                  · exact setAttrV_isInst E ov hacc hstep
            split at hr
            · cases hr; exact hobj
            · exact setAttrV_isInst E ov hobj hr

/-- keywords only, for a class whose constructor takes `**kwargs`: the freshly built instance, built from
EVERY keyword of the call -/
theorem prepareAttrValue_build_overflow (m : Nat) (obj : Val) (sp : AttrSpec) (v : Val) (kw : Kw) (c o : Nat)
    (hty : sp.ty = .spec c) (ho : ov c = some o) (hv : v = MISSING ∨ v = EMPTY) :
    Ov.prepareAttrValue E ov (m+2) obj sp v kw = Ov.construct E ov m c (kw.filter (fun kv => kv.2 != MISSING)) := by
  have hU : v ≠ UNCHANGED := by rcases hv with h | h <;> (rw [h]; decide)
  rw [Ov.prepareAttrValue]
  simp only [hU, if_false]
  rw [Ov.mutateValue]
  simp only [hU, if_false]
  rw [mvValue_old _ _ hv rfl]
  unfold Ov.mvConstruct
  simp only [hty, Ty.ctor, ho, Option.isSome_some, if_true]
  cases hb : Ov.construct E ov m c (kw.filter (fun kv => kv.2 != MISSING)) with
  | error e => simp [Except.map]
  | ok r =>
    have hi := construct_isInst E ov hb
    obtain ⟨hn1, hn2⟩ := isInst_ne_none hi
    simp only [Except.map]
    rw [mvAttrs_used _ _ _ _ hn1 hn2]
    · simp [mvTransform, applyOpt, mvAttrTransforms, hty, Ty.isCollection, pure, Except.pure]
    · intro kv hkv
      simp only [List.contains_iff_mem, List.mem_map]
      exact ⟨kv, hkv, rfl⟩

end inst

/-! ## what the constructor of an overflow class stores in the overflow attribute -/

section collect
variable (E : Env) (ov : OvMap)

theorem conforms_any (v : Val) : conforms E .any v = true := by
  cases v <;> simp [conforms]

theorem kvs_all_kwDict (kw : Kw) :
    (kwDict kw).all (fun k' v' => conforms E .str k' && conforms E .any v') = true := by
  induction kw with
  | nil => rfl
  | cons kv r ih =>
    obtain ⟨a, v⟩ := kv
    simp only [kwDict, KVs.all]
    rw [ih]
    simp [conforms, conforms_any]

theorem conforms_kwDict (kw : Kw) : conforms E (.dict .str .any) (.dict (kwDict kw)) = true := by
  simp only [conforms]
  exact kvs_all_kwDict E kw

/-- a dict handed to a `Dict[str, Any]` attribute without preparers passes `mutate_value` untouched -/
theorem mutateValue_dict (k : Nat) (d : KVs) :
    Ov.mutateValue E ov (k+1) MISSING { new := .dict d, prepare := none, ty := some (.dict .str .any), attrs := [] }
      = .ok (.dict d) := by
  rw [Ov.mutateValue]
  simp [mvValue, applyOpt, Ov.mvConstruct, Ty.ctor, SpecVerif.C05.mvConstruct, conforms, KVs.all, mvAttrs,
    mvTransform, mvAttrTransforms, pure, Except.pure]

/-- storing the collected keywords: the overflow attribute holds exactly that dict afterwards -/
theorem setOverflow (n c o : Nat) (fs : Flds) (spo : AttrSpec) (D : Kw) (r : Val)
    (hattr : E.attr? c o = some spo) (hname : spo.name = o)
    (hty : spo.ty = .dict .str .any) (hp : spo.prep = none) (hip : spo.itemPrep = none)
    (hr : Ov.setAttrV E ov n true (.inst c fs) o (.dict (kwDict D)) = .ok r) :
    r.getAttr o = .dict (kwDict D) := by
  cases n with
  | zero => rw [Ov.setAttrV] at hr; cases hr
  | succ n1 =>
    rw [Ov.setAttrV] at hr
    simp only [hattr] at hr
    cases n1 with
    | zero => rw [Ov.prepareAttrValue] at hr; cases hr
    | succ n2 =>
      rw [Ov.prepareAttrValue] at hr
      have hU : (Val.dict (kwDict D)) ≠ UNCHANGED := by intro h; cases h
      simp only [hU, if_false, hp, Option.map_none, hty] at hr
      cases n2 with
      | zero => rw [Ov.mutateValue] at hr; cases hr
      | succ n3 =>
        rw [mutateValue_dict E ov n3] at hr
        simp only [Ty.isCollection, if_true] at hr
        unfold collPrepare at hr
        have hN : (Val.dict (kwDict D) = NONE) = False := by simp
        have hM : (Val.dict (kwDict D) = MISSING) = False := by simp
        simp only [hty, Ty.isAbstract, Bool.false_eq_true, if_false, normNone, hN, hM, decide_false, Bool.or_self,
          conforms_kwDict, hip, Option.isSome_none, Bool.and_false, Bool.not_true] at hr
        unfold mutateAttrV at hr
        simp only [Val.isSent, Bool.false_eq_true, if_false, hty, conforms_kwDict, Bool.not_true, if_true] at hr
        cases hr
        simp [Val.setField, Val.getAttr, hname, flds_get_set_eq]

/-- the generated `__init__` of a class with `init_overflow_attr=<o>` (a `Dict[str, Any]` attribute without
preparers): on success the overflow attribute holds exactly the extra keywords — the keywords that name no managed
attribute, or `<o>` itself — as a dict, in call order -/
theorem construct_overflow_attr (n c o : Nat) (cs : ClassSpec) (spo : AttrSpec) (kw : Kw) (r : Val)
    (hcs : E.cls? c = some cs) (ho : ov c = some o) (hspo : cs.attr? o = some spo)
    (hty : spo.ty = .dict .str .any) (hp : spo.prep = none) (hip : spo.itemPrep = none)
    (hr : Ov.construct E ov n c kw = .ok r) :
    r.getAttr o = .dict (kwDict (kw.filter (isExtra cs (some o)))) := by
  have hname : spo.name = o := by
    unfold ClassSpec.attr? at hspo
    have := List.find?_some hspo
    simpa using this
  have hattr : E.attr? c o = some spo := by
    unfold Env.attr?
    rw [hcs]
    exact hspo
  cases n with
  | zero => rw [Ov.construct] at hr; cases hr
  | succ n =>
    rw [Ov.construct] at hr
    simp only [hcs] at hr
    split at hr
    · cases hr
    · split at hr
      · cases hr
      · split at hr
        · cases hr
        · rename_i obj hfold
          have hobj : IsInst c obj := by
            refine foldlM_inv (IsInst c) _ _ _ obj ⟨_, rfl⟩ ?_ hfold
            intro acc a r' hacc hstep
            split at hstep
            · cases hstep; exact hacc
            · split at hstep
              · cases hstep; exact hacc
              · split at hstep
                · cases hstep; exact hacc
                · exact setAttrV_isInst E ov hacc hstep
          obtain ⟨fs, rfl⟩ := hobj
          simp only [ho] at hr
          exact setOverflow E ov n c o fs spo _ r hattr hname hty hp hip hr

end collect

end SpecVerif.C05.Ov.Proofs
