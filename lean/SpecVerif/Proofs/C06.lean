import SpecVerif.Model.C06
set_option linter.unusedSectionVars false
set_option linter.unusedSimpArgs false
namespace SpecVerif.C06
open SpecVerif.Py

theorem pyIdx_ofNat {n k : Nat} (h : k < n) : pyIdx n (k : Int) = some k := by
  simp [pyIdx, h]

theorem firstIdx_some {xs : List Val} {v : Val} {k : Nat} (h : firstIdx xs v = some k) :
    k < xs.length ∧ xs[k]? = some v := by
  unfold firstIdx at h
  rw [List.findIdx?_eq_some_iff_getElem] at h
  obtain ⟨hk, hv, _⟩ := h
  refine ⟨hk, ?_⟩
  simp at hv
  simp [hk, hv]

theorem firstIdx_none {xs : List Val} {v : Val} : firstIdx xs v = none ↔ v ∉ xs := by
  unfold firstIdx
  rw [List.findIdx?_eq_none_iff]
  constructor
  · intro h hm; have := h v hm; simp at this
  · intro h x hx; simp; intro hxv; exact h (hxv ▸ hx)

theorem firstIdx_erase {xs : List Val} {v : Val} {k : Nat} (h : firstIdx xs v = some k) :
    xs.eraseIdx k = xs.erase v := by
  rw [List.erase_eq_eraseIdx]
  have : List.idxOf? v xs = some k := by
    unfold firstIdx at h
    simpa [List.idxOf?] using h
  rw [this]

def pyGet (xs : List Val) (i : Int) : Option Val := (pyIdx xs.length i).bind (fun k => xs[k]?)

theorem seqGet_plain_int (xs : List Val) (i : Int) :
    seqGet (.plain xs) (.int i) =
      match pyGet xs i with
      | some x => .ok x
      | none => .error .indexError := by
  unfold seqGet pyGet
  simp only []
  cases h : pyIdx xs.length i with
  | none => simp
  | some k =>
    have hk := pyIdx_lt h
    simp [hk]

theorem pyGet_some {xs : List Val} {i : Int} {k : Nat} (h : pyIdx xs.length i = some k) :
    pyGet xs i = xs[k]? := by simp [pyGet, h]

theorem pyGet_none {xs : List Val} {i : Int} (h : pyIdx xs.length i = none) :
    pyGet xs i = none := by simp [pyGet, h]

theorem seqExtractor_plain_index (c : AttrCfg) (xs : List Val) (i : Int) (r : Bool) (bi : Option Bool)
    (h : byIndexOf c bi (.int i) = true) :
    seqExtractor c (.plain xs) (some (.int i)) r bi =
      match pyGet xs i with
      | some x => .ok (some (.int i), some x)
      | none => if r then .error .indexError else .ok (some (.int i), none) := by
  unfold seqExtractor
  simp only [h, if_true]
  rw [seqGet_plain_int]
  cases pyGet xs i <;> simp

theorem seqExtractor_plain_value (c : AttrCfg) (xs : List Val) (v : Val) (r : Bool) (bi : Option Bool)
    (h : byIndexOf c bi v = false) :
    seqExtractor c (.plain xs) (some v) r bi =
      match firstIdx xs v with
      | some k => .ok (some (.int (Int.ofNat k)), some v)
      | none => if r then .error .valueError else .ok (none, some v) := by
  unfold seqExtractor
  simp only [h, seqIndexOf, SeqC.items]
  cases firstIdx xs v <;> simp

/-- what `_inserter` does with the prepared element on a plain list, replace mode -/
theorem seqInserter_plain_set (c : AttrCfg) (xs : List Val) (i : Int) (k : Nat) (y : Val)
    (h : pyIdx xs.length i = some k) :
    seqInserter c (.plain xs) (some (.int i)) y false =
      if okItem c.item y then .ok (.plain (xs.set k y)) else .error .valueError := by
  simp only [seqInserter, seqSet, h]
  cases okItem c.item y <;> simp

/-- the common tail of add_item / transform_item: `mutate_value` then `_inserter` -/
def storeAt (c : AttrCfg) (xs : List Val) (k : Nat) (r : Except Err Val) : Except Err SeqC :=
  match r with
  | .error e => .error e
  | .ok y => if okItem c.item y then .ok (.plain (xs.set k y)) else .error .valueError

theorem with_append (c : AttrCfg) (xs : List Val) (item : Option Val) (at_ : Attrs) :
    seqAddItem c (.plain xs) item at_ none (some true) false true =
      match mutateItem c none item true at_ none {} with
      | .error e => .error e
      | .ok y => if okItem c.item y then .ok (.plain (xs ++ [y])) else .error .valueError := by
  unfold seqAddItem seqExtractor
  simp only []
  cases mutateItem c none item true at_ none {} with
  | error e => rfl
  | ok y =>
    simp only [seqInserter, seqAppend]
    cases okItem c.item y <;> simp

theorem with_replace_idx (c : AttrCfg) (xs : List Val) (item : Option Val) (at_ : Attrs) (i : Int) :
    seqAddItem c (.plain xs) item at_ (some (.int i)) (some true) false true =
      match pyIdx xs.length i with
      | none => .error .indexError
      | some k => storeAt c xs k (mutateItem c xs[k]? item true at_ none {}) := by
  unfold seqAddItem
  rw [seqExtractor_plain_index c xs i _ _ rfl]
  cases h : pyIdx xs.length i with
  | none => simp [pyGet_none h]
  | some k =>
    have hk := pyIdx_lt h
    rw [pyGet_some h]
    simp only [List.getElem?_eq_getElem hk, storeAt]
    cases mutateItem c (some xs[k]) item true at_ none {} with
    | error e => rfl
    | ok y => simp only [seqInserter_plain_set c xs i k y h]

theorem with_insert (c : AttrCfg) (xs : List Val) (item : Option Val) (at_ : Attrs) (i : Int) :
    seqAddItem c (.plain xs) item at_ (some (.int i)) (some true) true true =
      match mutateItem c (pyGet xs i) item true at_ none {} with
      | .error e => .error e
      | .ok y => if okItem c.item y then .ok (.plain (pyInsert xs i y)) else .error .valueError := by
  unfold seqAddItem
  rw [seqExtractor_plain_index c xs i _ _ rfl]
  cases hg : pyGet xs i with
  | none =>
    simp only [Option.isSome_some, Bool.not_true, Bool.and_false, Bool.false_eq_true, if_false]
    cases mutateItem c none item true at_ none {} with
    | error e => rfl
    | ok y =>
      simp only [seqInserter, seqInsert]
      cases okItem c.item y <;> simp
  | some x =>
    simp only []
    cases mutateItem c (some x) item true at_ none {} with
    | error e => rfl
    | ok y =>
      simp only [seqInserter, seqInsert]
      cases okItem c.item y <;> simp

theorem update_by_index (c : AttrCfg) (xs : List Val) (new : Option Val) (at_ : Attrs) (i : Int)
    (bi : Option Bool) (h : byIndexOf c bi (.int i) = true) :
    seqAddItem c (.plain xs) new at_ (some (.int i)) bi false false =
      match pyIdx xs.length i with
      | none => .error .indexError
      | some k => storeAt c xs k (mutateItem c xs[k]? new false at_ none {}) := by
  unfold seqAddItem
  rw [seqExtractor_plain_index c xs i _ _ h]
  cases hp : pyIdx xs.length i with
  | none => simp [pyGet_none hp]
  | some k =>
    have hk := pyIdx_lt hp
    rw [pyGet_some hp]
    simp only [List.getElem?_eq_getElem hk, storeAt]
    cases mutateItem c (some xs[k]) new false at_ none {} with
    | error e => rfl
    | ok y => simp only [seqInserter_plain_set c xs i k y hp]

theorem update_by_value (c : AttrCfg) (xs : List Val) (new : Option Val) (at_ : Attrs) (v : Val)
    (bi : Option Bool) (h : byIndexOf c bi v = false) :
    seqAddItem c (.plain xs) new at_ (some v) bi false false =
      match firstIdx xs v with
      | none => .error .valueError
      | some k => storeAt c xs k (mutateItem c (some v) new false at_ none {}) := by
  unfold seqAddItem
  rw [seqExtractor_plain_value c xs v _ _ h]
  cases hf : firstIdx xs v with
  | none => simp
  | some k =>
    have hk := (firstIdx_some hf).1
    simp only [storeAt]
    cases mutateItem c (some v) new false at_ none {} with
    | error e => rfl
    | ok y => exact seqInserter_plain_set c xs _ k y (pyIdx_ofNat hk)

theorem transform_by_index (c : AttrCfg) (xs : List Val) (tf : Option (Val → Val)) (atf : AttrTfs)
    (i : Int) (bi : Option Bool) (h : byIndexOf c bi (.int i) = true) :
    seqTransformItem c (.plain xs) (.int i) tf bi atf =
      match pyIdx xs.length i with
      | none => .error .indexError
      | some k => storeAt c xs k (mutateItem c xs[k]? none false {} tf atf) := by
  unfold seqTransformItem
  rw [seqExtractor_plain_index c xs i _ _ h]
  cases hp : pyIdx xs.length i with
  | none => simp [pyGet_none hp]
  | some k =>
    have hk := pyIdx_lt hp
    rw [pyGet_some hp]
    simp only [List.getElem?_eq_getElem hk, storeAt]
    cases mutateItem c (some xs[k]) none false {} tf atf with
    | error e => rfl
    | ok y => simp only [seqInserter_plain_set c xs i k y hp]

theorem transform_by_value (c : AttrCfg) (xs : List Val) (tf : Option (Val → Val)) (atf : AttrTfs)
    (v : Val) (bi : Option Bool) (h : byIndexOf c bi v = false) :
    seqTransformItem c (.plain xs) v tf bi atf =
      match firstIdx xs v with
      | none => .error .valueError
      | some k => storeAt c xs k (mutateItem c (some v) none false {} tf atf) := by
  unfold seqTransformItem
  rw [seqExtractor_plain_value c xs v _ _ h]
  cases hf : firstIdx xs v with
  | none => simp
  | some k =>
    have hk := (firstIdx_some hf).1
    simp only [storeAt]
    cases mutateItem c (some v) none false {} tf atf with
    | error e => rfl
    | ok y => exact seqInserter_plain_set c xs _ k y (pyIdx_ofNat hk)

theorem without_by_index (c : AttrCfg) (xs : List Val) (i : Int) (bi : Option Bool)
    (h : byIndexOf c bi (.int i) = true) :
    seqRemoveItem c (.plain xs) (.int i) bi =
      match pyIdx xs.length i with
      | none => .error .indexError
      | some k => .ok (.plain (xs.eraseIdx k)) := by
  unfold seqRemoveItem
  rw [seqExtractor_plain_index c xs i _ _ h]
  cases hp : pyIdx xs.length i with
  | none => simp [pyGet_none hp]
  | some k =>
    have hk := pyIdx_lt hp
    rw [pyGet_some hp]
    simp [List.getElem?_eq_getElem hk, seqDel, hp]

theorem without_by_value (c : AttrCfg) (xs : List Val) (v : Val) (bi : Option Bool)
    (h : byIndexOf c bi v = false) :
    seqRemoveItem c (.plain xs) v bi =
      if v ∈ xs then .ok (.plain (xs.erase v)) else .error .valueError := by
  unfold seqRemoveItem
  rw [seqExtractor_plain_value c xs v _ _ h]
  cases hf : firstIdx xs v with
  | none => simp [firstIdx_none.1 hf]
  | some k =>
    have hk := (firstIdx_some hf).1
    have hm : v ∈ xs := by
      apply Classical.byContradiction; intro hn
      rw [firstIdx_none.2 hn] at hf; cases hf
    simp [seqDel, pyIdx_ofNat hk, hm, firstIdx_erase hf]


/-! dict -/

/-- `_inserter` of the mapping mutator after `mutate_value` -/
def storeKey (c : AttrCfg) (d : PyDict) (k : Val) (r : Except Err Val) : Except Err PyDict :=
  match r with
  | .error e => .error e
  | .ok y =>
    if okItem c.item y = false then .error .valueError
    else if keyBad c k then .error .valueError
    else .ok (pyDictSet d k y)

theorem dict_assign (c : AttrCfg) (d : PyDict) (k : Val) (value : Option Val) (at_ : Attrs) :
    mapAddItem c d k value at_ true false =
      storeKey c d k (mutateItem c (pyDictGet d k) value true at_ none {}) := by
  unfold mapAddItem mapExtractor storeKey
  simp only [Bool.false_and, Bool.false_eq_true, if_false]
  cases mutateItem c (pyDictGet d k) value true at_ none {} with
  | error e => rfl
  | ok y => simp only [mapInserter]; cases okItem c.item y <;> simp

theorem dict_update (c : AttrCfg) (d : PyDict) (k : Val) (new : Option Val) (at_ : Attrs) :
    mapAddItem c d k new at_ false true =
      if pyDictHas d k then storeKey c d k (mutateItem c (pyDictGet d k) new false at_ none {})
      else .error .keyError := by
  unfold mapAddItem mapExtractor storeKey
  cases hh : pyDictHas d k with
  | false => simp
  | true =>
    simp only [Bool.true_and, Bool.not_true, Bool.false_eq_true, if_false, if_true]
    cases mutateItem c (pyDictGet d k) new false at_ none {} with
    | error e => rfl
    | ok y => simp only [mapInserter]; cases okItem c.item y <;> simp

theorem dict_transform (c : AttrCfg) (d : PyDict) (k : Val) (tf : Option (Val → Val)) (atf : AttrTfs) :
    mapTransformItem c d k tf atf =
      if pyDictHas d k then storeKey c d k (mutateItem c (pyDictGet d k) none false {} tf atf)
      else .error .keyError := by
  unfold mapTransformItem mapExtractor storeKey
  cases hh : pyDictHas d k with
  | false => simp
  | true =>
    simp only [Bool.true_and, Bool.not_true, Bool.false_eq_true, if_false, if_true]
    cases mutateItem c (pyDictGet d k) none false {} tf atf with
    | error e => rfl
    | ok y => simp only [mapInserter]; cases okItem c.item y <;> simp

theorem dict_delete (d : PyDict) (k : Val) :
    mapRemoveItem d k = if pyDictHas d k then .ok (pyDictDel d k) else .error .keyError := by
  unfold mapRemoveItem mapExtractor
  cases hh : pyDictHas d k <;> simp

/-! the plain dict operations really are dict assignment / deletion -/

theorem pyDictGet_set (d : PyDict) (k k' v : Val) :
    pyDictGet (pyDictSet d k v) k' = if k' = k then some v else pyDictGet d k' := by
  induction d with
  | nil =>
    simp only [pyDictSet, pyDictGet, List.find?]
    by_cases h : k' = k
    · subst h; simp
    · have : (k == k') = false := by simp; exact fun e => h e.symm
      simp [this, h]
  | cons p d ih =>
    obtain ⟨k0, v0⟩ := p
    simp only [pyDictSet]
    by_cases h0 : k0 = k
    · subst h0
      simp only [beq_self_eq_true, if_true]
      by_cases h : k' = k0
      · subst h; simp [pyDictGet]
      · have : (k0 == k') = false := by simp; exact fun e => h e.symm
        simp [pyDictGet, List.find?, this, h]
    · have hne : (k0 == k) = false := by simp [h0]
      simp only [hne, Bool.false_eq_true, if_false]
      by_cases h : k0 = k'
      · subst h
        have : ¬ k0 = k := h0
        simp [pyDictGet, List.find?, this]
      · have hk : (k0 == k') = false := by simp [h]
        have ih' := ih
        simp only [pyDictGet] at ih' ⊢
        simp only [List.find?, hk]
        exact ih'

theorem pyDictKeys_set (d : PyDict) (k v : Val) :
    (pyDictSet d k v).map (·.1) =
      if pyDictHas d k then d.map (·.1) else d.map (·.1) ++ [k] := by
  induction d with
  | nil => simp [pyDictSet, pyDictHas]
  | cons p d ih =>
    obtain ⟨k0, v0⟩ := p
    simp only [pyDictSet]
    by_cases h0 : k0 = k
    · subst h0; simp [pyDictHas]
    · have hne : (k0 == k) = false := by simp [h0]
      simp only [hne, Bool.false_eq_true, if_false, List.map_cons, ih]
      simp only [pyDictHas, List.any_cons, hne, Bool.false_or]
      split <;> rename_i h <;> simp [h]

theorem pyDictGet_del (d : PyDict) (k k' : Val) :
    pyDictGet (pyDictDel d k) k' = if k' = k then none else pyDictGet d k' := by
  induction d with
  | nil => simp [pyDictDel, pyDictGet]
  | cons p d ih =>
    obtain ⟨k0, v0⟩ := p
    simp only [pyDictDel, pyDictGet] at ih ⊢
    by_cases h0 : k0 = k
    · subst h0
      simp only [List.filter, beq_self_eq_true, Bool.not_true]
      rw [ih]
      by_cases h : k' = k0
      · simp [h]
      · have : (k0 == k') = false := by simp; exact fun e => h e.symm
        simp [h, List.find?, this]
    · have hne : (k0 == k) = false := by simp [h0]
      simp only [List.filter, hne, Bool.not_false]
      by_cases h : k0 = k'
      · subst h; simp [List.find?, h0]
      · have hk : (k0 == k') = false := by simp [h]
        simp only [List.find?, hk]
        exact ih

theorem pyDictKeys_del (d : PyDict) (k : Val) :
    (pyDictDel d k).map (·.1) = (d.map (·.1)).filter (fun k' => !(k' == k)) := by
  induction d with
  | nil => simp [pyDictDel]
  | cons p d ih =>
    obtain ⟨k0, v0⟩ := p
    simp only [pyDictDel] at ih ⊢
    simp only [List.filter, List.map_cons]
    cases h : (k0 == k) <;> simp [ih]

theorem pyDictHas_iff_get (d : PyDict) (k : Val) : pyDictHas d k = (pyDictGet d k).isSome := by
  induction d with
  | nil => simp [pyDictHas, pyDictGet]
  | cons p d ih =>
    obtain ⟨k0, v0⟩ := p
    simp only [pyDictHas, pyDictGet] at ih ⊢
    simp only [List.any_cons, List.find?]
    cases h : (k0 == k) <;> simp [ih]

/-! sets -/

def storeIn (c : AttrCfg) (xs : List Val) (r : Except Err Val) : Except Err SetC :=
  match r with
  | .error e => .error e
  | .ok y => if okItem c.item y then .ok (.plain (pySetAdd xs y)) else .error .valueError

theorem set_add (c : AttrCfg) (xs : List Val) (item : Option Val) (at_ : Attrs) :
    setAddItem c (.plain xs) item none true at_ =
      storeIn c xs (mutateItem c none item true at_ none {}) := by
  unfold setAddItem setExtractor storeIn
  simp only [Option.isSome_none, Bool.false_eq_true, if_false]
  cases mutateItem c none item true at_ none {} with
  | error e => rfl
  | ok y => simp only [setInserter, setAdd]; cases okItem c.item y <;> simp

theorem setExtractor_plain (xs : List Val) (v : Val) :
    setExtractor (.plain xs) (some v) true =
      if v ∈ xs then .ok (some v, some v) else .error .valueError := by
  unfold setExtractor
  by_cases h : v ∈ xs <;> simp [setContains, h]

theorem set_replace (c : AttrCfg) (xs : List Val) (v : Val) (new : Option Val) (at_ : Attrs) :
    setAddItem c (.plain xs) new (some v) false at_ =
      if v ∈ xs then storeIn c (xs.erase v) (mutateItem c (some v) new false at_ none {})
      else .error .valueError := by
  unfold setAddItem
  simp only [Option.isSome_some]
  rw [setExtractor_plain]
  by_cases h : v ∈ xs
  · simp only [h, if_true, storeIn]
    cases mutateItem c (some v) new false at_ none {} with
    | error e => rfl
    | ok y => simp only [setInserter, setAdd, setDiscard]; cases okItem c.item y <;> simp
  · simp [h]

theorem set_transform (c : AttrCfg) (xs : List Val) (v : Val) (tf : Option (Val → Val)) (atf : AttrTfs) :
    setTransformItem c (.plain xs) v tf atf =
      if v ∈ xs then storeIn c (xs.erase v) (mutateItem c (some v) none false {} tf atf)
      else .error .valueError := by
  unfold setTransformItem
  rw [setExtractor_plain]
  by_cases h : v ∈ xs
  · simp only [h, if_true, storeIn]
    cases mutateItem c (some v) none false {} tf atf with
    | error e => rfl
    | ok y => simp only [setInserter, setAdd, setDiscard]; cases okItem c.item y <;> simp
  · simp [h]

theorem set_remove (xs : List Val) (v : Val) :
    setRemoveItem (.plain xs) v = if v ∈ xs then .ok (.plain (xs.erase v)) else .error .valueError := by
  unfold setRemoveItem
  rw [setExtractor_plain]
  by_cases h : v ∈ xs <;> simp [h, setRemove, setContains, setDiscard]

theorem set_others_untouched (xs : List Val) (hn : xs.Nodup) (y v : Val) :
    ((pySetAdd xs y).Nodup ∧ ∀ z, z ∈ pySetAdd xs y ↔ z = y ∨ z ∈ xs) ∧
    ((xs.erase v).Nodup ∧ ∀ z, z ∈ xs.erase v ↔ z ≠ v ∧ z ∈ xs) := by
  refine ⟨⟨?_, ?_⟩, hn.sublist List.erase_sublist, fun z => hn.mem_erase_iff⟩
  · unfold pySetAdd
    by_cases h : y ∈ xs
    · simp [h, hn]
    · simp only [List.contains_iff_mem, h, if_false]
      rw [List.nodup_append]
      refine ⟨hn, by simp, ?_⟩
      intro a ha b hb
      simp at hb; subst hb
      intro e; subst e; exact h ha
  · intro z
    unfold pySetAdd
    by_cases h : y ∈ xs
    · simp only [List.contains_iff_mem, h, if_true]
      constructor
      · exact Or.inr
      · rintro (e | e)
        · exact e ▸ h
        · exact e
    · simp [h, or_comm]

/-- `ys` is `xs` after editing at most one position: nothing, one element
replaced, one element inserted, or one element removed. -/
inductive Edit (xs : List Val) : List Val → Prop
  | same : Edit xs xs
  | set (k : Nat) (y : Val) (h : k < xs.length) : Edit xs (xs.set k y)
  | ins (p : Nat) (y : Val) (h : p ≤ xs.length) : Edit xs (xs.take p ++ y :: xs.drop p)
  | del (k : Nat) (h : k < xs.length) : Edit xs (xs.eraseIdx k)

theorem Edit.pyInsert (xs : List Val) (i : Int) (y : Val) : Edit xs (pyInsert xs i y) :=
  Edit.ins _ y (pyInsPos_le _ _)

theorem Edit.append (xs : List Val) (y : Val) : Edit xs (xs ++ [y]) := by
  have := Edit.ins (xs := xs) xs.length y (Nat.le_refl _)
  simpa using this

theorem kl_setIdx_list {l l' : C13.KL Val Val} {n : Int} {x : Val}
    (h : C13.setIdx klCfg l n x = .ok l') :
    ∃ k, pyIdx l.list.length n = some k ∧ l'.list = l.list.set k x := by
  unfold C13.setIdx at h
  split at h
  · cases h
  · rename_i k hk
    split at h
    · cases h
    · split at h
      · cases h
      · split at h
        · cases h
        · cases h; exact ⟨k, hk, rfl⟩

theorem kl_indexForKey_lt {l : C13.KL Val Val} {k : Val} {i : Nat}
    (h : C13.indexForKey klCfg l k = .ok i) :
    l.list.findIdx? (fun x => klCfg.key x == k) = some i ∧ i < l.list.length := by
  unfold C13.indexForKey at h
  split at h
  · split at h
    · rename_i j hj
      cases h
      refine ⟨hj, ?_⟩
      rw [List.findIdx?_eq_some_iff_getElem] at hj
      exact hj.1
    · cases h
  · cases h

theorem kl_setKey_list {l l' : C13.KL Val Val} {k x : Val}
    (h : C13.setKey klCfg l k x = .ok l') :
    ∃ i, l.list.findIdx? (fun z => klCfg.key z == k) = some i ∧ i < l.list.length ∧
      l'.list = l.list.set i x := by
  unfold C13.setKey at h
  split at h
  · cases h
  · rename_i i hi
    obtain ⟨hf, hlt⟩ := kl_indexForKey_lt hi
    obtain ⟨j, hj, hl⟩ := kl_setIdx_list h
    have : pyIdx l.list.length (Int.ofNat i) = some i := pyIdx_ofNat' hlt
    rw [this] at hj; cases hj
    exact ⟨i, hf, hlt, hl⟩
where
  pyIdx_ofNat' {n k : Nat} (h : k < n) : pyIdx n (Int.ofNat k) = some k := by
    simp [pyIdx, h]

theorem kl_delIdx_list {l l' : C13.KL Val Val} {n : Int}
    (h : C13.delIdx klCfg l n = .ok l') :
    ∃ k, pyIdx l.list.length n = some k ∧ l'.list = l.list.eraseIdx k := by
  unfold C13.delIdx at h
  split at h
  · cases h
  · rename_i k hk
    split at h
    · cases h
    · cases h; exact ⟨k, hk, rfl⟩

theorem kl_delKey_list {l l' : C13.KL Val Val} {k : Val}
    (h : C13.delKey klCfg l k = .ok l') :
    ∃ i, l.list.findIdx? (fun z => klCfg.key z == k) = some i ∧ i < l.list.length ∧
      l'.list = l.list.eraseIdx i := by
  unfold C13.delKey at h
  split at h
  · cases h
  · rename_i i hi
    obtain ⟨hf, hlt⟩ := kl_indexForKey_lt hi
    obtain ⟨j, hj, hl⟩ := kl_delIdx_list h
    have : pyIdx l.list.length (Int.ofNat i) = some i := by simp [pyIdx, hlt]
    rw [this] at hj; cases hj
    exact ⟨i, hf, hlt, hl⟩

theorem kl_insertAt_list {l l' : C13.KL Val Val} {n : Int} {x : Val}
    (h : C13.insertAt klCfg l n x = .ok l') : l'.list = pyInsert l.list n x := by
  unfold C13.insertAt at h
  split at h
  · cases h
  · cases h; rfl

theorem pyInsert_len (xs : List Val) (x : Val) : pyInsert xs (Int.ofNat xs.length) x = xs ++ [x] := by
  simp [pyInsert, pyInsPos]

theorem kl_append_list {l l' : C13.KL Val Val} {x : Val}
    (h : C13.append klCfg l x = .ok l') : l'.list = l.list ++ [x] := by
  unfold C13.append at h
  rw [kl_insertAt_list h, pyInsert_len]

theorem seqSet_edit {s s' : SeqC} {i y : Val} (h : seqSet s i y = .ok s') : Edit s.items s'.items := by
  unfold seqSet at h
  split at h
  · split at h
    · cases h
    · rename_i k hk; cases h; exact Edit.set k y (pyIdx_lt hk)
  · cases h
  · split at h
    · cases h
    · rename_i l' hl; cases h
      obtain ⟨k, hk, e⟩ := kl_setIdx_list hl
      simp only [SeqC.items, e]; exact Edit.set k y (pyIdx_lt hk)
  · split at h
    · cases h
    · rename_i l' hl; cases h
      obtain ⟨k, _, hk, e⟩ := kl_setKey_list hl
      simp only [SeqC.items, e]; exact Edit.set k y hk

theorem seqDel_edit {s s' : SeqC} {i : Val} (h : seqDel s i = .ok s') : Edit s.items s'.items := by
  unfold seqDel at h
  split at h
  · split at h
    · cases h
    · rename_i k hk; cases h; exact Edit.del k (pyIdx_lt hk)
  · cases h
  · split at h
    · cases h
    · rename_i l' hl; cases h
      obtain ⟨k, hk, e⟩ := kl_delIdx_list hl
      simp only [SeqC.items, e]; exact Edit.del k (pyIdx_lt hk)
  · split at h
    · cases h
    · rename_i l' hl; cases h
      obtain ⟨k, _, hk, e⟩ := kl_delKey_list hl
      simp only [SeqC.items, e]; exact Edit.del k hk

theorem seqInsert_edit {s s' : SeqC} {i y : Val} (h : seqInsert s i y = .ok s') : Edit s.items s'.items := by
  unfold seqInsert at h
  split at h
  · cases h; exact Edit.pyInsert _ _ _
  · cases h
  · split at h
    · cases h
    · rename_i l' hl; cases h
      simp only [SeqC.items, kl_insertAt_list hl]; exact Edit.pyInsert _ _ _
  · split at h <;> cases h

theorem seqAppend_edit {s s' : SeqC} {y : Val} (h : seqAppend s y = .ok s') : Edit s.items s'.items := by
  unfold seqAppend at h
  split at h
  · cases h; exact Edit.append _ _
  · split at h
    · cases h
    · rename_i l' hl; cases h
      simp only [SeqC.items, kl_append_list hl]; exact Edit.append _ _

theorem seqInserter_edit {c : AttrCfg} {s s' : SeqC} {idx : Option Val} {y : Val} {ins : Bool}
    (h : seqInserter c s idx y ins = .ok s') : Edit s.items s'.items := by
  unfold seqInserter at h
  split at h
  · cases h
  · split at h
    · exact seqAppend_edit h
    · split at h
      · exact seqInsert_edit h
      · exact seqSet_edit h

theorem seqAddItem_edit {c : AttrCfg} {s s' : SeqC} {item : Option Val} {at_ : Attrs} {voi : Option Val}
    {bi : Option Bool} {ins rep : Bool}
    (h : seqAddItem c s item at_ voi bi ins rep = .ok s') : Edit s.items s'.items := by
  unfold seqAddItem at h
  split at h
  · cases h
  · split at h
    · cases h
    · exact seqInserter_edit h

theorem seqTransformItem_edit {c : AttrCfg} {s s' : SeqC} {voi : Val} {tf : Option (Val → Val)}
    {bi : Option Bool} {atf : AttrTfs}
    (h : seqTransformItem c s voi tf bi atf = .ok s') : Edit s.items s'.items := by
  unfold seqTransformItem at h
  split at h
  · cases h
  · split at h
    · cases h
    · exact seqInserter_edit h

theorem seqRemoveItem_edit {c : AttrCfg} {s s' : SeqC} {voi : Val} {bi : Option Bool}
    (h : seqRemoveItem c s voi bi = .ok s') : Edit s.items s'.items := by
  unfold seqRemoveItem at h
  split at h
  · cases h
  · cases h; exact Edit.same
  · exact seqDel_edit h

/-- Every element helper on a sequence attribute (list or KeyedList), whatever its
arguments and addressing mode, edits at most one position. -/
theorem others_untouched (c : AttrCfg) (s : SeqC) (op : Op) (coll' : Coll)
    (h : stepColl c (.seq s) op = .ok coll') : ∃ s', coll' = .seq s' ∧ Edit s.items s'.items := by
  cases op with
  | with_ item index insert at_ =>
    simp only [stepColl] at h
    cases hr : seqAddItem c s item at_ index (some true) insert true with
    | error e => rw [hr] at h; cases h
    | ok s' => rw [hr] at h; cases h; exact ⟨s', rfl, seqAddItem_edit hr⟩
  | update voi new bi at_ =>
    simp only [stepColl] at h
    cases hr : seqAddItem c s new at_ (some voi) bi false false with
    | error e => rw [hr] at h; cases h
    | ok s' => rw [hr] at h; cases h; exact ⟨s', rfl, seqAddItem_edit hr⟩
  | transform voi tf bi atf =>
    simp only [stepColl] at h
    cases hr : seqTransformItem c s voi tf bi atf with
    | error e => rw [hr] at h; cases h
    | ok s' => rw [hr] at h; cases h; exact ⟨s', rfl, seqTransformItem_edit hr⟩
  | without voi bi =>
    simp only [stepColl] at h
    cases hr : seqRemoveItem c s voi bi with
    | error e => rw [hr] at h; cases h
    | ok s' => rw [hr] at h; cases h; exact ⟨s', rfl, seqRemoveItem_edit hr⟩

/-- What a single-position edit means position by position: every other element
keeps its value and its relative order. -/
theorem others_untouched_positions {xs ys : List Val} (h : Edit xs ys) :
    ys = xs ∨
    (∃ k : Nat, ys.length = xs.length ∧ ∀ j : Nat, j ≠ k → ys[j]? = xs[j]?) ∨
    (∃ p : Nat, ys.length = xs.length + 1 ∧ (∀ j : Nat, j < p → ys[j]? = xs[j]?) ∧ (∀ j : Nat, p ≤ j → ys[j + 1]? = xs[j]?)) ∨
    (∃ k : Nat, ys.length + 1 = xs.length ∧ (∀ j : Nat, j < k → ys[j]? = xs[j]?) ∧ (∀ j : Nat, k ≤ j → ys[j]? = xs[j + 1]?)) := by
  cases h with
  | same => exact Or.inl rfl
  | set k y hk =>
    refine Or.inr (Or.inl ⟨k, by simp, fun j hj => ?_⟩)
    exact List.getElem?_set_ne (Ne.symm hj)
  | ins p y hp =>
    refine Or.inr (Or.inr (Or.inl ⟨p, ?_, ?_, ?_⟩))
    · simp; omega
    · intro j hj
      rw [List.getElem?_append_left (by simp; omega)]
      simp [List.getElem?_take, hj]
    · intro j hj
      rw [List.getElem?_append_right (by simp; omega)]
      have : j + 1 - (List.take p xs).length = (j - p) + 1 := by simp; omega
      rw [this]
      simp
      congr 1; omega
  | del k hk =>
    refine Or.inr (Or.inr (Or.inr ⟨k, ?_, ?_, ?_⟩))
    · rw [List.length_eraseIdx]; simp [hk]; omega
    · intro j hj; rw [List.getElem?_eraseIdx]; simp [hj]
    · intro j hj; rw [List.getElem?_eraseIdx]; simp; omega

theorem applyAttrs_err {v : Val} {at_ : Attrs} {e : Err} (h : applyAttrs v at_ = .error e) :
    e = .attributeError ∨ e = .typeError := by
  unfold applyAttrs at h
  split at h
  · cases h
  · split at h
    · split at h
      · split at h <;> cases h; exact Or.inr rfl
      · cases h
    · cases h; exact Or.inl rfl

theorem construct_err {t : ItemTy} {at_ : Attrs} {e : Err} (h : construct t at_ = .error e) :
    e = .attributeError ∨ e = .typeError := by
  unfold construct at h
  split at h
  · exact applyAttrs_err h
  · exact applyAttrs_err h
  · split at h
    · cases h
    · split at h <;> cases h; exact Or.inr rfl
  · split at h
    · cases h; exact Or.inr rfl
    · split at h <;> cases h; exact Or.inr rfl
  · split at h
    · cases h; exact Or.inr rfl
    · split at h <;> cases h; exact Or.inr rfl

theorem applyAttrTfs_err {v : Val} {tf : AttrTfs} {e : Err} (h : applyAttrTfs v tf = .error e) :
    e = .attributeError := by
  unfold applyAttrTfs at h
  split at h
  · cases h
  · split at h <;> cases h; rfl

/-- `mutate_value` on an element never raises IndexError / KeyError / ValueError. -/
theorem mutateItem_err {c : AttrCfg} {old new : Option Val} {r : Bool} {at_ : Attrs}
    {tf : Option (Val → Val)} {atf : AttrTfs} {e : Err}
    (h : mutateItem c old new r at_ tf atf = .error e) : e = .attributeError ∨ e = .typeError := by
  unfold mutateItem at h
  simp only [] at h
  split at h
  · rename_i e' he
    cases h
    split at he
    · exact applyAttrs_err he
    · exact construct_err he
  · exact Or.inl (applyAttrTfs_err h)

/-- the position/key/value an element helper addresses -/
def Op.addr : Op → Option Val
  | .with_ _ index _ _ => index
  | .update voi _ _ _ => some voi
  | .transform voi _ _ _ => some voi
  | .without voi _ => some voi

theorem seqGet_plain_err {xs : List Val} {v : Val} {e : Err} (h : seqGet (.plain xs) v = .error e) :
    (e = .indexError ∧ ∃ i, v = .int i ∧ pyIdx xs.length i = none) ∨ e = .typeError := by
  cases v with
  | int n =>
    rw [seqGet_plain_int] at h
    cases hg : pyGet xs n with
    | some x => rw [hg] at h; cases h
    | none =>
      rw [hg] at h; cases h
      refine Or.inl ⟨rfl, n, rfl, ?_⟩
      cases hp : pyIdx xs.length n with
      | none => rfl
      | some k =>
        have := pyIdx_lt hp
        rw [pyGet_some hp, List.getElem?_eq_getElem this] at hg; cases hg
  | str s => simp [seqGet] at h; exact Or.inr h.symm
  | obj kd k a => simp [seqGet] at h; exact Or.inr h.symm

theorem seqGet_plain_ok {xs : List Val} {v x : Val} (h : seqGet (.plain xs) v = .ok x) :
    ∃ i k, v = .int i ∧ pyIdx xs.length i = some k := by
  cases v with
  | int n =>
    rw [seqGet_plain_int] at h
    cases hp : pyIdx xs.length n with
    | none => rw [pyGet_none hp] at h; cases h
    | some k => exact ⟨n, k, rfl, hp⟩
  | str s => simp [seqGet] at h
  | obj kd k a => simp [seqGet] at h

theorem seqExtractor_plain_err {c : AttrCfg} {xs : List Val} {voi : Option Val} {r : Bool}
    {bi : Option Bool} {e : Err} (h : seqExtractor c (.plain xs) voi r bi = .error e) :
    (e = .indexError ∧ ∃ i, voi = some (.int i) ∧ pyIdx xs.length i = none) ∨
    (e = .valueError ∧ ∃ v, voi = some v ∧ v ∉ xs) ∨ e = .typeError := by
  unfold seqExtractor at h
  split at h
  · cases h
  · rename_i v
    split at h
    · split at h
      · cases h
      · rename_i hg
        split at h
        · cases h
          rcases seqGet_plain_err hg with ⟨_, i, hv, hi⟩ | ht
          · exact Or.inl ⟨rfl, i, by rw [hv], hi⟩
          · cases ht
        · cases h
      · rename_i e' hne hg
        cases h
        rcases seqGet_plain_err hg with ⟨he, _⟩ | ht
        · exact absurd he hne
        · exact Or.inr (Or.inr ht)
    · split at h
      · cases h
      · rename_i hn
        split at h
        · cases h
          exact Or.inr (Or.inl ⟨rfl, v, rfl, firstIdx_none'.1 hn⟩)
        · cases h
where
  firstIdx_none' {xs : List Val} {v : Val} : seqIndexOf (.plain xs) v = none ↔ v ∉ xs := by
    unfold seqIndexOf firstIdx SeqC.items
    rw [List.findIdx?_eq_none_iff]
    constructor
    · intro h hm; have := h v hm; simp at this
    · intro h x hx; simp; intro hxv; exact h (hxv ▸ hx)

/-- a successful raising extractor hands the inserter `None` or an in-range integer -/
theorem seqExtractor_plain_ok {c : AttrCfg} {xs : List Val} {voi : Option Val}
    {bi : Option Bool} {idx old : Option Val}
    (h : seqExtractor c (.plain xs) voi true bi = .ok (idx, old)) :
    idx = none ∨ ∃ i k, idx = some (.int i) ∧ pyIdx xs.length i = some k := by
  unfold seqExtractor at h
  split at h
  · cases h; exact Or.inl rfl
  · rename_i v
    split at h
    · split at h
      · rename_i x hg
        cases h
        obtain ⟨i, k, hv, hk⟩ := seqGet_plain_ok hg
        exact Or.inr ⟨i, k, by rw [hv], hk⟩
      · simp at h
      · cases h
    · split at h
      · rename_i k hk
        cases h
        have hlt : k < xs.length := by
          unfold seqIndexOf firstIdx SeqC.items at hk
          rw [List.findIdx?_eq_some_iff_getElem] at hk
          exact hk.1
        exact Or.inr ⟨Int.ofNat k, k, rfl, by simp [pyIdx, hlt]⟩
      · simp at h

theorem seqInserter_plain_err {c : AttrCfg} {xs : List Val} {idx : Option Val} {y : Val} {ins : Bool}
    {e : Err} (h : seqInserter c (.plain xs) idx y ins = .error e) :
    e = .valueError ∨ e = .typeError ∨
      (e = .indexError ∧ ins = false ∧ ∃ i, idx = some (.int i) ∧ pyIdx xs.length i = none) := by
  unfold seqInserter at h
  split at h
  · cases h; exact Or.inl rfl
  · split at h
    · simp [seqAppend] at h
    · rename_i i
      cases ins with
      | true =>
        simp only [if_true] at h
        cases i with
        | int n => simp [seqInsert] at h
        | str s => simp [seqInsert] at h; exact Or.inr (Or.inl h.symm)
        | obj kd k a => simp [seqInsert] at h; exact Or.inr (Or.inl h.symm)
      | false =>
        simp only [Bool.false_eq_true, if_false] at h
        cases i with
        | int n =>
          simp only [seqSet] at h
          cases hp : pyIdx xs.length n with
          | none => rw [hp] at h; cases h; exact Or.inr (Or.inr ⟨rfl, rfl, n, rfl, hp⟩)
          | some k => rw [hp] at h; cases h
        | str s => simp [seqSet] at h; exact Or.inr (Or.inl h.symm)
        | obj kd k a => simp [seqSet] at h; exact Or.inr (Or.inl h.symm)
theorem notMiss {e : Err} {P : Prop}
    (h : e = .valueError ∨ e = .typeError ∨ e = .attributeError) :
    (e = .indexError → P) ∧ e ≠ .keyError := by
  rcases h with h | h | h <;> subst h <;> exact ⟨fun h' => (nomatch h'), fun h' => (nomatch h')⟩

/-- On a plain list: an element helper raises IndexError only if it addresses an
integer position that is out of range, and never raises KeyError. -/
theorem seq_error_classes (c : AttrCfg) (xs : List Val) (op : Op) (e : Err)
    (h : stepColl c (.seq (.plain xs)) op = .error e) :
    (e = .indexError → ∃ i, op.addr = some (.int i) ∧ pyIdx xs.length i = none) ∧ e ≠ .keyError := by
  have addItem : ∀ item at_ voi bi ins rep,
      seqAddItem c (.plain xs) item at_ voi bi ins rep = .error e →
      (e = .indexError → ∃ i, voi = some (.int i) ∧ pyIdx xs.length i = none) ∧ e ≠ .keyError := by
    intro item at_ voi bi ins rep h
    unfold seqAddItem at h
    split at h
    · rename_i e' he
      cases h
      rcases seqExtractor_plain_err he with ⟨h1, h2⟩ | ⟨h1, _⟩ | h1
      · exact ⟨fun _ => h2, by rw [h1]; simp⟩
      · exact notMiss (Or.inl h1)
      · exact notMiss (Or.inr (Or.inl h1))
    · rename_i idx old hx
      split at h
      · rename_i e' hm
        cases h
        rcases mutateItem_err hm with h1 | h1
        · exact notMiss (Or.inr (Or.inr h1))
        · exact notMiss (Or.inr (Or.inl h1))
      · rename_i y hm
        rcases seqInserter_plain_err h with h1 | h1 | ⟨h1, hins, i, hi, hp⟩
        · exact notMiss (Or.inl h1)
        · exact notMiss (Or.inr (Or.inl h1))
        · -- replace mode: the extractor was raising, so the index is in range
          subst hins
          cases voi with
          | none =>
            simp [seqExtractor] at hx
            rw [hi] at hx; cases hx.1
          | some v =>
            simp only [Option.isSome_some, Bool.not_false, Bool.and_self] at hx
            rcases seqExtractor_plain_ok hx with h0 | ⟨i', k, hi', hk⟩
            · rw [hi] at h0; cases h0
            · rw [hi] at hi'; cases hi'; rw [hp] at hk; cases hk
  cases op with
  | with_ item index insert at_ =>
    simp only [stepColl] at h
    cases hr : seqAddItem c (.plain xs) item at_ index (some true) insert true with
    | ok s' => rw [hr] at h; cases h
    | error e' => rw [hr] at h; cases h; exact addItem _ _ _ _ _ _ hr
  | update voi new bi at_ =>
    simp only [stepColl] at h
    cases hr : seqAddItem c (.plain xs) new at_ (some voi) bi false false with
    | ok s' => rw [hr] at h; cases h
    | error e' => rw [hr] at h; cases h; exact addItem _ _ _ _ _ _ hr
  | transform voi tf bi atf =>
    simp only [stepColl] at h
    cases hr : seqTransformItem c (.plain xs) voi tf bi atf with
    | ok s' => rw [hr] at h; cases h
    | error e' =>
      rw [hr] at h; cases h
      unfold seqTransformItem at hr
      split at hr
      · rename_i e' he
        cases hr
        rcases seqExtractor_plain_err he with ⟨h1, h2⟩ | ⟨h1, _⟩ | h1
        · exact ⟨fun _ => h2, by rw [h1]; simp⟩
        · exact notMiss (Or.inl h1)
        · exact notMiss (Or.inr (Or.inl h1))
      · rename_i idx old hx
        split at hr
        · rename_i e' hm
          cases hr
          rcases mutateItem_err hm with h1 | h1
          · exact notMiss (Or.inr (Or.inr h1))
          · exact notMiss (Or.inr (Or.inl h1))
        · rcases seqInserter_plain_err hr with h1 | h1 | ⟨h1, _, i, hi, hp⟩
          · exact notMiss (Or.inl h1)
          · exact notMiss (Or.inr (Or.inl h1))
          · rcases seqExtractor_plain_ok hx with h0 | ⟨i', k, hi', hk⟩
            · rw [hi] at h0; cases h0
            · rw [hi] at hi'; cases hi'; rw [hp] at hk; cases hk
  | without voi bi =>
    simp only [stepColl] at h
    cases hr : seqRemoveItem c (.plain xs) voi bi with
    | ok s' => rw [hr] at h; cases h
    | error e' =>
      rw [hr] at h; cases h
      unfold seqRemoveItem at hr
      split at hr
      · rename_i e' he
        cases hr
        rcases seqExtractor_plain_err he with ⟨h1, h2⟩ | ⟨h1, _⟩ | h1
        · exact ⟨fun _ => h2, by rw [h1]; simp⟩
        · exact notMiss (Or.inl h1)
        · exact notMiss (Or.inr (Or.inl h1))
      · cases hr
      · rename_i i old hx
        rcases seqExtractor_plain_ok hx with h0 | ⟨i', k, hi', hk⟩
        · cases h0
        · cases hi'
          simp [seqDel, hk] at hr

theorem notMiss' {e : Err}
    (h : e = .valueError ∨ e = .typeError ∨ e = .attributeError) :
    e ≠ .indexError ∧ e ≠ .keyError := by
  rcases h with h | h | h <;> subst h <;> exact ⟨fun h' => (nomatch h'), fun h' => (nomatch h')⟩

theorem mapInserter_err {c : AttrCfg} {d : PyDict} {k y : Val} {e : Err}
    (h : mapInserter c d k y = .error e) : e = .valueError := by
  unfold mapInserter at h
  split at h
  · cases h; rfl
  · split at h <;> cases h; rfl

/-- On a dict: KeyError only from update_/transform_/without_ of an absent key;
never IndexError. -/
theorem map_error_classes (c : AttrCfg) (d : PyDict) (op : Op) (e : Err)
    (h : stepColl c (.map d) op = .error e) :
    (e = .keyError → ∃ k, op.addr = some k ∧ pyDictHas d k = false ∧ (∀ i x ins a, op ≠ .with_ i x ins a)) ∧
    e ≠ .indexError := by
  have tail : ∀ (r : Except Err Val) (k : Val),
      (match r with | .error e => (.error e : Except Err PyDict) | .ok y => mapInserter c d k y) = .error e →
      (∀ e', r = .error e' → e' = .attributeError ∨ e' = .typeError) →
      e ≠ .keyError ∧ e ≠ .indexError := by
    intro r k h hr
    cases r with
    | error e' =>
      cases h
      rcases hr _ rfl with h1 | h1 <;> subst h1 <;> exact ⟨fun h' => (nomatch h'), fun h' => (nomatch h')⟩
    | ok y =>
      have := mapInserter_err h; subst this
      exact ⟨fun h' => (nomatch h'), fun h' => (nomatch h')⟩
  cases op with
  | with_ item index insert at_ =>
    cases index with
    | none => simp [stepColl] at h; subst h; exact ⟨fun h' => (nomatch h'), fun h' => (nomatch h')⟩
    | some k =>
      simp only [stepColl] at h
      cases hr : mapAddItem c d k item at_ true false with
      | ok s' => rw [hr] at h; cases h
      | error e' =>
        rw [hr] at h; cases h
        unfold mapAddItem mapExtractor at hr
        simp only [Bool.false_and, Bool.false_eq_true, if_false] at hr
        have := tail _ k hr (fun e' he => mutateItem_err he)
        exact ⟨fun h' => absurd h' this.1, this.2⟩
  | update k new bi at_ =>
    simp only [stepColl] at h
    cases hr : mapAddItem c d k new at_ false true with
    | ok s' => rw [hr] at h; cases h
    | error e' =>
      rw [hr] at h; cases h
      unfold mapAddItem mapExtractor at hr
      cases hh : pyDictHas d k with
      | false =>
        simp [hh] at hr; subst hr
        exact ⟨fun _ => ⟨k, rfl, hh, fun _ _ _ _ h' => (nomatch h')⟩, fun h' => (nomatch h')⟩
      | true =>
        simp only [hh, Bool.not_true, Bool.and_false, Bool.false_eq_true, if_false] at hr
        have := tail _ k hr (fun e' he => mutateItem_err he)
        exact ⟨fun h' => absurd h' this.1, this.2⟩
  | transform k tf bi atf =>
    simp only [stepColl] at h
    cases hr : mapTransformItem c d k tf atf with
    | ok s' => rw [hr] at h; cases h
    | error e' =>
      rw [hr] at h; cases h
      unfold mapTransformItem mapExtractor at hr
      cases hh : pyDictHas d k with
      | false =>
        simp [hh] at hr; subst hr
        exact ⟨fun _ => ⟨k, rfl, hh, fun _ _ _ _ h' => (nomatch h')⟩, fun h' => (nomatch h')⟩
      | true =>
        simp only [hh, Bool.not_true, Bool.and_false, Bool.false_eq_true, if_false] at hr
        have := tail _ k hr (fun e' he => mutateItem_err he)
        exact ⟨fun h' => absurd h' this.1, this.2⟩
  | without k bi =>
    simp only [stepColl] at h
    rw [dict_delete] at h
    cases hh : pyDictHas d k with
    | false =>
      simp [hh, liftMap] at h; subst h
      exact ⟨fun _ => ⟨k, rfl, hh, fun _ _ _ _ h' => (nomatch h')⟩, fun h' => (nomatch h')⟩
    | true => simp [hh, liftMap] at h

/-- the exact miss conditions of the three raising extractors and of `without_` -/
theorem missing_target_iff :
    (∀ (c : AttrCfg) (xs : List Val) (i : Int) (bi : Option Bool), byIndexOf c bi (.int i) = true →
      ((∃ e, seqExtractor c (.plain xs) (some (.int i)) true bi = .error e) ↔ pyIdx xs.length i = none) ∧
      (pyIdx xs.length i = none → seqExtractor c (.plain xs) (some (.int i)) true bi = .error .indexError)) ∧
    (∀ (c : AttrCfg) (xs : List Val) (v : Val) (bi : Option Bool), byIndexOf c bi v = false →
      ((∃ e, seqExtractor c (.plain xs) (some v) true bi = .error e) ↔ v ∉ xs) ∧
      (v ∉ xs → seqExtractor c (.plain xs) (some v) true bi = .error .valueError)) ∧
    (∀ (d : PyDict) (k : Val),
      ((∃ e, mapExtractor d k true = .error e) ↔ pyDictHas d k = false) ∧
      (pyDictHas d k = false → mapExtractor d k true = .error .keyError)) ∧
    (∀ (xs : List Val) (v : Val),
      ((∃ e, setExtractor (.plain xs) (some v) true = .error e) ↔ v ∉ xs) ∧
      (v ∉ xs → setExtractor (.plain xs) (some v) true = .error .valueError)) := by
  refine ⟨?_, ?_, ?_, ?_⟩
  · intro c xs i bi h
    rw [seqExtractor_plain_index c xs i true bi h]
    cases hp : pyIdx xs.length i with
    | none => simp [pyGet_none hp]
    | some k =>
      have hk := pyIdx_lt hp
      simp [pyGet_some hp, List.getElem?_eq_getElem hk]
  · intro c xs v bi h
    rw [seqExtractor_plain_value c xs v true bi h]
    cases hf : firstIdx xs v with
    | none => simp [firstIdx_none.1 hf]
    | some k =>
      have : v ∈ xs := by
        apply Classical.byContradiction; intro hn
        rw [firstIdx_none.2 hn] at hf; cases hf
      simp [this]
  · intro d k
    unfold mapExtractor
    cases pyDictHas d k <;> simp
  · intro xs v
    rw [setExtractor_plain]
    by_cases h : v ∈ xs <;> simp [h]

theorem create_empty (c : AttrCfg) :
    (create c = .seq (.plain []) ∨ create c = .seq (.keyed C13.KL.empty) ∨ create c = .map [] ∨
      create c = .set (.plain []) ∨ create c = .set (.keyed [])) := by
  unfold create
  cases c.fam <;> simp

theorem prepareItem_typed (c : AttrCfg) (hp : c.prep = none) (v : Val) (h : okItem c.item v = true) :
    prepareItem c (some v) = some v := by
  unfold prepareItem
  simp only [hp]
  cases v with
  | int n =>
    have : c.item ≠ .ikspec := by
      intro hc; rw [hc] at h; simp [okItem] at h
    simp [this]
  | obj kd k a => rfl
  | str s =>
    have : c.item ≠ .kspec := by
      intro hc; rw [hc] at h; simp [okItem] at h
    simp [this]

theorem mutateItem_given (c : AttrCfg) (old : Option Val) (v : Val) (r : Bool) :
    mutateItem c old (some v) r {} none {} =
      match prepareItem c (some v) with
      | some y => .ok y
      | none => construct c.item {} := by
  unfold mutateItem
  simp only []
  cases prepareItem c (some v) with
  | none => simp [applyAttrTfs]; cases construct c.item {} <;> rfl
  | some y => simp [applyAttrs, Attrs.isEmpty, applyAttrTfs]

/-! KeyedList as the sequence container -/

theorem seqGet_keyed_int (l : C13.KL Val Val) (i : Int) :
    seqGet (.keyed l) (.int i) = seqGet (.plain l.list) (.int i) := by
  simp only [seqGet, C13.getIdx]
  cases pyIdx l.list.length i with
  | none => rfl
  | some k => simp only []; cases l.list[k]? <;> rfl

theorem keyOf_str (k : String) : keyOf (.str k) = .str k := rfl

/-- Whenever a KeyedList primitive addressed by position succeeds, the list of
elements is what the plain-list primitive produces. -/
theorem klist_refines_list (l : C13.KL Val Val) (i : Int) (y : Val) (s' : SeqC) :
    (seqSet (.keyed l) (.int i) y = .ok s' → seqSet (.plain l.list) (.int i) y = .ok (.plain s'.items)) ∧
    (seqDel (.keyed l) (.int i) = .ok s' → seqDel (.plain l.list) (.int i) = .ok (.plain s'.items)) ∧
    (seqInsert (.keyed l) (.int i) y = .ok s' → seqInsert (.plain l.list) (.int i) y = .ok (.plain s'.items)) ∧
    (seqAppend (.keyed l) y = .ok s' → seqAppend (.plain l.list) y = .ok (.plain s'.items)) := by
  refine ⟨?_, ?_, ?_, ?_⟩
  · intro h
    simp only [seqSet] at h ⊢
    cases hr : C13.setIdx klCfg l i y with
    | error e => rw [hr] at h; cases h
    | ok l' =>
      rw [hr] at h; cases h
      obtain ⟨k, hk, e⟩ := kl_setIdx_list hr
      simp [hk, SeqC.items, e]
  · intro h
    simp only [seqDel] at h ⊢
    cases hr : C13.delIdx klCfg l i with
    | error e => rw [hr] at h; cases h
    | ok l' =>
      rw [hr] at h; cases h
      obtain ⟨k, hk, e⟩ := kl_delIdx_list hr
      simp [hk, SeqC.items, e]
  · intro h
    simp only [seqInsert] at h ⊢
    cases hr : C13.insertAt klCfg l i y with
    | error e => rw [hr] at h; cases h
    | ok l' =>
      rw [hr] at h; cases h
      simp [SeqC.items, kl_insertAt_list hr]
  · intro h
    simp only [seqAppend] at h ⊢
    cases hr : C13.append klCfg l y with
    | error e => rw [hr] at h; cases h
    | ok l' =>
      rw [hr] at h; cases h
      simp [SeqC.items, kl_append_list hr]

theorem dictGet_none_iff (d : List (Val × Val)) (k : Val) :
    C13.dictGet d k = none ↔ C13.hasKey d k = false := by
  induction d with
  | nil => simp [C13.dictGet, C13.hasKey]
  | cons p d ih =>
    simp only [C13.dictGet, C13.hasKey] at ih ⊢
    simp only [List.find?, List.any_cons]
    cases h : (p.1 == k) <;> simp [ih]

/-- the key index answers membership like a scan of the list (C13's coherence
invariant implies this: `Props.C13.hasKey_iff_scan`) -/
def KeysAgree (l : C13.KL Val Val) : Prop :=
  ∀ k, C13.hasKey l.dict k = true ↔ ∃ x ∈ l.list, keyOf x = k

/-- Addressing a KeyedList element by key is a linear scan for the first element
with that key: replace / delete act on that position, and a key no element has
raises KeyError. -/
theorem klist_by_key (l : C13.KL Val Val) (k : String) :
    (∀ y s', seqSet (.keyed l) (.str k) y = .ok s' →
      ∃ i, l.list.findIdx? (fun z => keyOf z == .str k) = some i ∧ i < l.list.length ∧
        s'.items = l.list.set i y) ∧
    (∀ s', seqDel (.keyed l) (.str k) = .ok s' →
      ∃ i, l.list.findIdx? (fun z => keyOf z == .str k) = some i ∧ i < l.list.length ∧
        s'.items = l.list.eraseIdx i) ∧
    (KeysAgree l → (¬ ∃ x ∈ l.list, keyOf x = .str k) →
      seqGet (.keyed l) (.str k) = .error .keyError ∧
      (∀ c r bi, byIndexOf c bi (.str k) = true →
        seqExtractor c (.keyed l) (some (.str k)) r bi = .error .keyError)) := by
  refine ⟨?_, ?_, ?_⟩
  · intro y s' h
    simp only [seqSet] at h
    cases hr : C13.setKey klCfg l (.str k) y with
    | error e => rw [hr] at h; cases h
    | ok l' =>
      rw [hr] at h; cases h
      obtain ⟨i, hf, hlt, e⟩ := kl_setKey_list hr
      exact ⟨i, hf, hlt, by simp [SeqC.items, e]⟩
  · intro s' h
    simp only [seqDel] at h
    cases hr : C13.delKey klCfg l (.str k) with
    | error e => rw [hr] at h; cases h
    | ok l' =>
      rw [hr] at h; cases h
      obtain ⟨i, hf, hlt, e⟩ := kl_delKey_list hr
      exact ⟨i, hf, hlt, by simp [SeqC.items, e]⟩
  · intro ha hno
    have hk : C13.hasKey l.dict (.str k) = false := by
      cases hh : C13.hasKey l.dict (.str k) with
      | false => rfl
      | true => exact absurd ((ha _).1 hh) hno
    have hg : seqGet (.keyed l) (.str k) = .error .keyError := by
      simp only [seqGet, C13.getKey]
      rw [(dictGet_none_iff _ _).2 hk]
    refine ⟨hg, ?_⟩
    intro c r bi hb
    unfold seqExtractor
    simp only [hb, if_true, hg]

/-! KeyedSet as the set container: a dict key → item -/

theorem kset_add (c : AttrCfg) (d : PyDict) (item : Option Val) (at_ : Attrs) :
    setAddItem c (.keyed d) item none true at_ =
      match mutateItem c none item true at_ none {} with
      | .error e => .error e
      | .ok y =>
        if okItem c.item y = false then .error .valueError
        else if keyedOk y = false then .error .typeError
        else .ok (.keyed (pyDictSet d (keyOf y) y)) := by
  unfold setAddItem setExtractor
  simp only [Option.isSome_none, Bool.false_eq_true, if_false]
  cases mutateItem c none item true at_ none {} with
  | error e => rfl
  | ok y =>
    simp only [setInserter, setAdd]
    cases okItem c.item y <;> cases keyedOk y <;> simp

/-- update_/transform_/without_ addressed by key on a KeyedSet -/
theorem kset_by_key (c : AttrCfg) (d : PyDict) (k : String) :
    (∀ new at_, setAddItem c (.keyed d) new (some (.str k)) false at_ =
      if pyDictHas d (.str k) then
        match mutateItem c (pyDictGet d (.str k)) new false at_ none {} with
        | .error e => .error e
        | .ok y =>
          if okItem c.item y = false then .error .valueError
          else if keyedOk y = false then .error .typeError
          else .ok (.keyed (pyDictSet (pyDictDel d (.str k)) (keyOf y) y))
      else .error .valueError) ∧
    (setRemoveItem (.keyed d) (.str k) =
      if pyDictHas d (.str k) then .ok (.keyed (pyDictDel d (.str k))) else .error .valueError) := by
  have hget : pyDictHas d (.str k) = true → ∃ x, pyDictGet d (.str k) = some x := by
    intro h
    rw [pyDictHas_iff_get] at h
    cases hg : pyDictGet d (.str k) with
    | none => rw [hg] at h; cases h
    | some x => exact ⟨x, rfl⟩
  refine ⟨?_, ?_⟩
  · intro new at_
    unfold setAddItem setExtractor
    simp only [Option.isSome_some, setContains, keyOf_str, Bool.or_self]
    cases hh : pyDictHas d (.str k) with
    | false => simp
    | true =>
      obtain ⟨x, hx⟩ := hget hh
      simp only [Bool.not_true, Bool.false_eq_true, if_false, if_true, ksetLookup, hx]
      cases mutateItem c (some x) new false at_ none {} with
      | error e => rfl
      | ok y =>
        simp only [setInserter, setDiscard, hh, if_true, setAdd]
        cases okItem c.item y <;> cases keyedOk y <;> simp
  · unfold setRemoveItem setExtractor
    simp only [setContains, keyOf_str, Bool.or_self]
    cases hh : pyDictHas d (.str k) with
    | false => simp
    | true =>
      obtain ⟨x, hx⟩ := hget hh
      simp [ksetLookup, hx, setRemove, setContains, keyOf_str, hh, setDiscard]

/-! ## Legacy counter-models: the code before the `fix:` commits (DESIGN §6) -/
namespace Legacy

/-- Python truthiness of an element -/
def truthy : Val → Bool
  | .int n => n != 0
  | .str s => s != ""
  | .obj _ _ _ => true

/-- `SetMutator._inserter` before 00e2b54 (D7): `if index and replace` -/
def setInserter (c : AttrCfg) (s : SetC) (index : Option Val) (item : Val) (replace : Bool) :
    Except Err SetC :=
  if !okItem c.item item then .error .valueError
  else match index with
    | some i => if truthy i && replace then setAdd (setDiscard s i) item else setAdd s item
    | none => setAdd s item

/-- `transform_item` of a set with that inserter -/
def setTransformItem (c : AttrCfg) (s : SetC) (voi : Val) (tf : Option (Val → Val))
    (atf : AttrTfs) : Except Err SetC :=
  match setExtractor s (some voi) true with
  | .error e => .error e
  | .ok (idx, old) =>
    match mutateItem c old none false {} tf atf with
    | .error e => .error e
    | .ok y => setInserter c s idx y true

/-- `without_<s>` on a never-assigned attribute before c2ec7e5: the sequence
extractor answered `(None, MISSING)` (silent no-op, attribute stays missing);
the dict / set extractors evaluated `x in MISSING` (TypeError). -/
def withoutOnMissing (c : AttrCfg) : Except Err (Option Coll) :=
  match c.fam with
  | .list | .klist => .ok none
  | .dict | .set | .kset => .error .typeError

end Legacy

end SpecVerif.C06
