import SpecVerif.Model.C06H
import SpecVerif.Proofs.C06
set_option linter.unusedSectionVars false
set_option linter.unusedSimpArgs false
set_option linter.unusedVariables false
namespace SpecVerif.C06
open SpecVerif.Py

/-! ## cells and views -/

theorem cell_append_lt (hp ext : Heap) {r : Nat} (h : r < hp.length) : cell (hp ++ ext) r = cell hp r := by
  unfold cell
  simp [List.getD, List.getElem?_append_left h]

theorem cell_append_new (hp : Heap) (v : Val) : cell (hp ++ [v]) hp.length = v := by
  unfold cell
  simp [List.getD]

theorem cell_set_same (hp : Heap) {r : Nat} (v : Val) (h : r < hp.length) : cell (hp.set r v) r = v := by
  unfold cell
  simp [List.getD, h]

/-- every reference is an allocated object -/
def Bounded (n : Nat) (refs : List Nat) : Prop := ∀ r ∈ refs, r < n

theorem view_append (hp ext : Heap) {refs : List Nat} (h : Bounded hp.length refs) :
    view (hp ++ ext) refs = view hp refs := by
  unfold view
  apply List.map_congr_left
  intro r hr
  exact cell_append_lt hp ext (h r hr)

theorem Bounded.mono {n m : Nat} {refs : List Nat} (h : Bounded n refs) (hnm : n ≤ m) : Bounded m refs :=
  fun r hr => Nat.lt_of_lt_of_le (h r hr) hnm

theorem view_length (hp : Heap) (refs : List Nat) : (view hp refs).length = refs.length := by
  simp [view]

/-! ## deep copy -/

/-- what `dcGo` maintains about its memo: old object ↦ its copy, already allocated,
holding the old object's value -/
def MemoOk (hp acc : Heap) (memo : List (Nat × Nat)) : Prop :=
  ∀ r r', memo.lookup r = some r' → r' < acc.length ∧ cell acc r' = cell hp r

theorem dcGo_spec (hp : Heap) : ∀ (refs : List Nat) (memo : List (Nat × Nat)) (acc : Heap),
    MemoOk hp acc memo →
    (∃ ext, (dcGo hp refs memo acc).1 = acc ++ ext) ∧
    Bounded (dcGo hp refs memo acc).1.length (dcGo hp refs memo acc).2 ∧
    view (dcGo hp refs memo acc).1 (dcGo hp refs memo acc).2 = view hp refs := by
  intro refs
  induction refs with
  | nil => intro memo acc _; exact ⟨⟨[], by simp [dcGo]⟩, by simp [dcGo, Bounded], by simp [dcGo, view]⟩
  | cons r rs ih =>
    intro memo acc hm
    unfold dcGo
    cases hl : memo.lookup r with
    | some r' =>
      simp only
      obtain ⟨⟨ext, he⟩, hb, hv⟩ := ih memo acc hm
      obtain ⟨hlt, hc⟩ := hm r r' hl
      refine ⟨⟨ext, he⟩, ?_, ?_⟩
      · intro x hx
        rcases List.mem_cons.mp hx with rfl | hx
        · rw [he]; simp; omega
        · exact hb x hx
      · simp only [view, List.map_cons] at hv ⊢
        rw [hv, he, cell_append_lt _ _ hlt, hc]
    | none =>
      simp only
      have hm' : MemoOk hp (acc ++ [cell hp r]) ((r, acc.length) :: memo) := by
        intro x x' hx
        simp only [List.lookup_cons] at hx
        split at hx
        · cases hx
          have : x = r := by simpa using (by assumption : (x == r) = true)
          subst this
          refine ⟨by simp, ?_⟩
          exact cell_append_new acc _
        · obtain ⟨h1, h2⟩ := hm x x' hx
          refine ⟨by simp; omega, ?_⟩
          rw [cell_append_lt _ _ h1, h2]
      obtain ⟨⟨ext, he⟩, hb, hv⟩ := ih _ _ hm'
      refine ⟨⟨cell hp r :: ext, by rw [he]; simp⟩, ?_, ?_⟩
      · intro x hx
        rcases List.mem_cons.mp hx with rfl | hx
        · rw [he]; simp
        · exact hb x hx
      · simp only [view, List.map_cons] at hv ⊢
        rw [hv, he]
        congr 1
        have : cell ((acc ++ [cell hp r]) ++ ext) acc.length = cell (acc ++ [cell hp r]) acc.length :=
          cell_append_lt _ _ (by simp)
        rw [this, cell_append_new]

theorem deepcopy_spec (hp : Heap) (refs : List Nat) :
    (∃ ext, (deepcopyRefs hp refs).1 = hp ++ ext) ∧
    Bounded (deepcopyRefs hp refs).1.length (deepcopyRefs hp refs).2 ∧
    view (deepcopyRefs hp refs).1 (deepcopyRefs hp refs).2 = view hp refs := by
  unfold deepcopyRefs
  exact dcGo_spec hp refs [] hp (by intro r r' h; simp at h)

/-! ## `mutate_value` on objects -/

/-- the objects that existed before (`i < n`) still hold their value, none was dropped -/
def Extends (n : Nat) (hp hp' : Heap) : Prop := hp.length ≤ hp'.length ∧ ∀ i < n, cell hp' i = cell hp i

theorem Extends.refl (n : Nat) (hp : Heap) : Extends n hp hp := ⟨Nat.le_refl _, fun _ _ => rfl⟩

theorem Extends.trans {n : Nat} {a b d : Heap} (h1 : Extends n a b) (h2 : Extends n b d) : Extends n a d :=
  ⟨Nat.le_trans h1.1 h2.1, fun i hi => by rw [h2.2 i hi, h1.2 i hi]⟩

theorem Extends.append (n : Nat) (hp ext : Heap) (h : n ≤ hp.length) : Extends n hp (hp ++ ext) :=
  ⟨by simp, fun i hi => cell_append_lt hp ext (Nat.lt_of_lt_of_le hi h)⟩

theorem Extends.view {n : Nat} {hp hp' : Heap} (h : Extends n hp hp') {refs : List Nat} (hb : Bounded n refs) :
    view hp' refs = view hp refs := by
  unfold SpecVerif.C06.view
  apply List.map_congr_left
  intro r hr
  exact h.2 r (hb r hr)

theorem cell_set_ne (hp : Heap) {r i : Nat} (v : Val) (h : i ≠ r) : cell (hp.set r v) i = cell hp i := by
  unfold cell
  simp [List.getD, List.getElem?_set, Ne.symm h]

theorem prepareItem_isSome (c : AttrCfg) (x : Val) : ∃ y, prepareItem c (some x) = some y := by
  unfold prepareItem
  simp only
  split <;> (try split) <;> exact ⟨_, rfl⟩

theorem hPrepare_spec (c : AttrCfg) (hp : Heap) {r : Nat} (hr : r < hp.length) :
    prepareItem c (some (cell hp r)) = some (cell (hPrepare c hp r).1 (hPrepare c hp r).2) ∧
    (hPrepare c hp r).2 < (hPrepare c hp r).1.length ∧
    Extends hp.length hp (hPrepare c hp r).1 := by
  unfold hPrepare
  obtain ⟨y, hy⟩ := prepareItem_isSome c (cell hp r)
  rw [hy]
  simp only
  split
  · next h => exact ⟨by rw [h], hr, Extends.refl _ _⟩
  · exact ⟨by rw [cell_append_new], by simp, Extends.append _ _ _ (Nat.le_refl _)⟩

/-- steps 1–5 of `mutate_value` on values (the first half of `mutateItem`) -/
def baseV (c : AttrCfg) (old new : Option Val) (replace : Bool) (at_ : Attrs) : Except Err Val :=
  match (match new with
         | some v => prepareItem c (some v)
         | none => if replace then prepareItem c none else old) with
  | some v => applyAttrs v at_
  | none => construct c.item at_

theorem mutateItem_eq (c : AttrCfg) (old new : Option Val) (replace : Bool) (at_ : Attrs)
    (tf : Option (Val → Val)) (atf : AttrTfs) :
    mutateItem c old new replace at_ tf atf =
      match baseV c old new replace at_ with
      | .error e => .error e
      | .ok v => applyAttrTfs (match tf with | some f => f v | none => v) atf := rfl

theorem applyAttrs_empty (v : Val) (at_ : Attrs) (h : at_.isEmpty = true) : applyAttrs v at_ = .ok v := by
  simp [applyAttrs, h]

theorem hBase_spec (c : AttrCfg) (hp : Heap) (old new : Option Nat) (replace : Bool) (at_ : Attrs) (ip : Bool)
    (hold : ∀ r, old = some r → r < hp.length) (hnew : ∀ r, new = some r → r < hp.length) :
    match hBase c hp old new replace at_ ip with
    | .error e => baseV c (old.map (cell hp)) (new.map (cell hp)) replace at_ = .error e
    | .ok (hp', r, safe) =>
      baseV c (old.map (cell hp)) (new.map (cell hp)) replace at_ = .ok (cell hp' r) ∧
      r < hp'.length ∧ hp.length ≤ hp'.length ∧
      (ip = false → Extends hp.length hp hp' ∧ (safe = true → hp.length ≤ r)) := by
  unfold hBase baseV
  cases new with
  | some rn =>
    have hrn := hnew rn rfl
    obtain ⟨hv, hlt, hext⟩ := hPrepare_spec c hp hrn
    simp only [Option.map_some, hv]
    by_cases hemp : at_.isEmpty = true
    · simp only [hemp, if_true, applyAttrs_empty _ _ hemp]
      refine ⟨trivial, hlt, hext.1, fun hip => ⟨hext, fun hs => ?_⟩⟩
      subst hip; cases hs
    · simp only [hemp]
      cases ha : applyAttrs (cell (hPrepare c hp rn).1 (hPrepare c hp rn).2) at_ with
      | error e => simp
      | ok v =>
        cases ip with
        | true =>
          simp only [if_true, Bool.false_eq_true, if_false]
          refine ⟨by rw [cell_set_same _ _ hlt], by simpa using hlt, by simpa using hext.1, fun h => by cases h⟩
        | false =>
          simp only [Bool.false_eq_true, if_false]
          refine ⟨by rw [cell_append_new], by simp, by simp; have := hext.1; omega, fun _ => ⟨?_, fun _ => hext.1⟩⟩
          exact hext.trans (Extends.append _ _ _ hext.1)
  | none =>
    simp only [Option.map_none]
    cases replace with
    | true =>
      simp only [if_true, prepareItem]
      cases hc : construct c.item at_ with
      | error e => simp
      | ok v =>
        simp only
        exact ⟨by rw [cell_append_new], by simp, by simp, fun _ => ⟨Extends.append _ _ _ (Nat.le_refl _), fun _ => Nat.le_refl _⟩⟩
    | false =>
      simp only [Bool.false_eq_true, if_false]
      cases old with
      | none =>
        simp only [Option.map_none]
        cases hc : construct c.item at_ with
        | error e => simp
        | ok v =>
          simp only
          exact ⟨by rw [cell_append_new], by simp, by simp, fun _ => ⟨Extends.append _ _ _ (Nat.le_refl _), fun _ => Nat.le_refl _⟩⟩
      | some ro =>
        have hro := hold ro rfl
        simp only [Option.map_some]
        by_cases hemp : at_.isEmpty = true
        · simp only [hemp, if_true, applyAttrs_empty _ _ hemp]
          refine ⟨trivial, hro, Nat.le_refl _, fun hip => ⟨Extends.refl _ _, fun hs => ?_⟩⟩
          subst hip; cases hs
        · simp only [hemp]
          cases ha : applyAttrs (cell hp ro) at_ with
          | error e => simp
          | ok v =>
            cases ip with
            | true =>
              simp only [if_true, Bool.false_eq_true, if_false]
              exact ⟨by rw [cell_set_same _ _ hro], by simpa using hro, by simp, fun h => by cases h⟩
            | false =>
              simp only [Bool.false_eq_true, if_false]
              exact ⟨by rw [cell_append_new], by simp, by simp,
                fun _ => ⟨Extends.append _ _ _ (Nat.le_refl _), fun _ => Nat.le_refl _⟩⟩

theorem hCallback_spec (hp : Heap) (r : Nat) (tf : Option (Val → Val)) (n : Nat)
    (hr : r < hp.length) (hn : n ≤ hp.length) :
    cell (hCallback hp r tf).1 (hCallback hp r tf).2 = (match tf with | some f => f (cell hp r) | none => cell hp r) ∧
    (hCallback hp r tf).2 < (hCallback hp r tf).1.length ∧ hp.length ≤ (hCallback hp r tf).1.length ∧
    Extends n hp (hCallback hp r tf).1 ∧ (n ≤ r → n ≤ (hCallback hp r tf).2) := by
  unfold hCallback
  cases tf with
  | none => exact ⟨rfl, hr, Nat.le_refl _, Extends.refl _ _, fun h => h⟩
  | some f => exact ⟨cell_append_new _ _, by simp, by simp, Extends.append _ _ _ hn, fun _ => hn⟩

theorem hAttrTfs_spec (hp : Heap) (r : Nat) (safe : Bool) (atf : AttrTfs) (n : Nat)
    (hr : r < hp.length) (hn : n ≤ hp.length) :
    match hAttrTfs hp r safe atf with
    | .error e => applyAttrTfs (cell hp r) atf = .error e
    | .ok (hp', r') =>
      applyAttrTfs (cell hp r) atf = .ok (cell hp' r') ∧
      r' < hp'.length ∧ hp.length ≤ hp'.length ∧ ((safe = true → n ≤ r) → Extends n hp hp') := by
  unfold hAttrTfs
  cases hk : atf.k <;> cases ha : atf.a
  · simp only [applyAttrTfs, hk, ha]
    exact ⟨trivial, hr, Nat.le_refl _, fun _ => Extends.refl _ _⟩
  all_goals
    simp only
    cases hx : applyAttrTfs (cell hp r) atf with
    | error e => simp
    | ok v =>
      cases safe with
      | true =>
        simp only [if_true]
        refine ⟨by rw [cell_set_same _ _ hr], by simpa using hr, by simp, fun hs => ⟨by simp, ?_⟩⟩
        intro i hi
        have := hs trivial
        exact cell_set_ne _ _ (by omega)
      | false =>
        simp only [Bool.false_eq_true, if_false]
        exact ⟨by rw [cell_append_new], by simp, by simp, fun _ => Extends.append _ _ _ hn⟩

theorem hFinish_spec (hp : Heap) (r : Nat) (safe : Bool) (tf : Option (Val → Val)) (atf : AttrTfs) (n : Nat)
    (hr : r < hp.length) (hn : n ≤ hp.length) :
    match hFinish hp r safe tf atf with
    | .error e => applyAttrTfs (match tf with | some f => f (cell hp r) | none => cell hp r) atf = .error e
    | .ok (hp', r') =>
      applyAttrTfs (match tf with | some f => f (cell hp r) | none => cell hp r) atf = .ok (cell hp' r') ∧
      r' < hp'.length ∧ hp.length ≤ hp'.length ∧ ((safe = true → n ≤ r) → Extends n hp hp') := by
  unfold hFinish
  obtain ⟨h1, h2, h3, h4, h5⟩ := hCallback_spec hp r tf n hr hn
  have := hAttrTfs_spec (hCallback hp r tf).1 (hCallback hp r tf).2 safe atf n h2 (Nat.le_trans hn h3)
  rw [h1] at this
  cases hA : hAttrTfs (hCallback hp r tf).1 (hCallback hp r tf).2 safe atf with
  | error e => rw [hA] at this; exact this
  | ok y =>
    obtain ⟨hp2, r2⟩ := y
    rw [hA] at this
    simp only at this ⊢
    obtain ⟨g1, g2, g3, g4⟩ := this
    exact ⟨g1, g2, Nat.le_trans h3 g3, fun hs => h4.trans (g4 (fun s => h5 (hs s)))⟩

/-- `mutate_value` on objects computes the element `mutateItem` computes on values,
whatever `inplace` is; and with `inplace=False` (what `_mutate_collection` passes) no
object that existed before is edited. -/
theorem mutateItemH_spec (c : AttrCfg) (hp : Heap) (old new : Option Nat) (replace : Bool) (at_ : Attrs)
    (tf : Option (Val → Val)) (atf : AttrTfs) (ip : Bool)
    (hold : ∀ r, old = some r → r < hp.length) (hnew : ∀ r, new = some r → r < hp.length) :
    match mutateItemH c hp old new replace at_ tf atf ip with
    | .error e => mutateItem c (old.map (cell hp)) (new.map (cell hp)) replace at_ tf atf = .error e
    | .ok (hp', r) =>
      mutateItem c (old.map (cell hp)) (new.map (cell hp)) replace at_ tf atf = .ok (cell hp' r) ∧
      r < hp'.length ∧ hp.length ≤ hp'.length ∧ (ip = false → Extends hp.length hp hp') := by
  unfold mutateItemH
  rw [mutateItem_eq]
  have hb := hBase_spec c hp old new replace at_ ip hold hnew
  cases hB : hBase c hp old new replace at_ ip with
  | error e => rw [hB] at hb; simp only at hb ⊢; rw [hb]
  | ok x =>
    obtain ⟨hp1, r1, safe⟩ := x
    rw [hB] at hb
    simp only at hb ⊢
    obtain ⟨hv, hlt, hle, hfr⟩ := hb
    rw [hv]
    simp only
    have hf := hFinish_spec hp1 r1 safe tf atf hp.length hlt hle
    cases hF : hFinish hp1 r1 safe tf atf with
    | error e => rw [hF] at hf; simpa using hf
    | ok y =>
      obtain ⟨hp2, r2⟩ := y
      rw [hF] at hf
      simp only at hf ⊢
      obtain ⟨hv2, hlt2, hle2, hfr2⟩ := hf
      refine ⟨hv2, hlt2, Nat.le_trans hle hle2, fun hip => ?_⟩
      obtain ⟨he1, hs1⟩ := hfr hip
      exact he1.trans (hfr2 hs1)

/-! ## the sequence mutator on references refines the one on values -/

theorem view_getElem? (hp : Heap) (refs : List Nat) (k : Nat) :
    (view hp refs)[k]? = (refs[k]?).map (cell hp) := by
  simp [view]

theorem hSeqGet_spec (hp : Heap) (refs : List Nat) (v : Val) (hb : Bounded hp.length refs) :
    match hSeqGet refs v with
    | .ok r => seqGet (.plain (view hp refs)) v = .ok (cell hp r) ∧ r < hp.length
    | .error e => seqGet (.plain (view hp refs)) v = .error e := by
  cases v with
  | int n =>
    simp only [hSeqGet, seqGet, view_length]
    cases hk : pyIdx refs.length n with
    | none => simp
    | some k =>
      simp only [view_getElem?]
      cases hr : refs[k]? with
      | none => simp
      | some r =>
        simp only [Option.map_some]
        exact ⟨trivial, hb r (List.mem_of_getElem? hr)⟩
  | str s => simp [hSeqGet, seqGet]
  | obj kd k a => simp [hSeqGet, seqGet]

theorem hSeqExtractor_spec (c : AttrCfg) (hp : Heap) (refs : List Nat) (voi : Option Nat) (raise : Bool)
    (bi : Option Bool) (hb : Bounded hp.length refs) (hv : ∀ r, voi = some r → r < hp.length) :
    match hSeqExtractor c hp refs voi raise bi with
    | .ok (idx, old) =>
      seqExtractor c (.plain (view hp refs)) (voi.map (cell hp)) raise bi = .ok (idx, old.map (cell hp)) ∧
      (∀ r, old = some r → r < hp.length)
    | .error e => seqExtractor c (.plain (view hp refs)) (voi.map (cell hp)) raise bi = .error e := by
  cases voi with
  | none => simp [hSeqExtractor, seqExtractor]
  | some a =>
    have ha := hv a rfl
    simp only [hSeqExtractor, seqExtractor, Option.map_some]
    by_cases hbi : byIndexOf c bi (cell hp a) = true
    · simp only [hbi, if_true]
      have hg := hSeqGet_spec hp refs (cell hp a) hb
      cases hG : hSeqGet refs (cell hp a) with
      | ok r =>
        rw [hG] at hg
        simp only at hg ⊢
        rw [hg.1]
        simp only [Option.map_some]
        exact ⟨trivial, fun r' h => by cases h; exact hg.2⟩
      | error e =>
        rw [hG] at hg
        simp only at hg ⊢
        rw [hg]
        cases e <;> simp <;> cases raise <;> simp
    · simp only [hbi]
      simp only [Bool.false_eq_true, if_false, seqIndexOf, SeqC.items]
      cases hf : firstIdx (view hp refs) (cell hp a) with
      | some k => simp only [Option.map_some]; exact ⟨trivial, fun r' h => by cases h; exact ha⟩
      | none =>
        cases raise
        · simp only [Bool.false_eq_true, if_false, Option.map_some]
          exact ⟨trivial, fun r' h => by cases h; exact ha⟩
        · simp

theorem view_pyInsert (hp : Heap) (refs : List Nat) (n : Int) (r : Nat) :
    view hp (pyInsert refs n r) = pyInsert (view hp refs) n (cell hp r) := by
  simp [view, pyInsert, List.map_take, List.map_drop]

theorem Bounded.pyInsert {m : Nat} {refs : List Nat} (hb : Bounded m refs) (n : Int) {r : Nat} (hr : r < m) :
    Bounded m (pyInsert refs n r) := by
  intro x hx
  simp only [SpecVerif.Py.pyInsert, List.mem_append, List.mem_cons] at hx
  rcases hx with hx | rfl | hx
  · exact hb x (List.mem_of_mem_take hx)
  · exact hr
  · exact hb x (List.mem_of_mem_drop hx)

theorem hSeqInserter_spec (c : AttrCfg) (hp : Heap) (refs : List Nat) (idx : Option Val) (r : Nat)
    (insert : Bool) (hb : Bounded hp.length refs) (hr : r < hp.length) :
    match hSeqInserter c hp refs idx r insert with
    | .ok refs' =>
      seqInserter c (.plain (view hp refs)) idx (cell hp r) insert = .ok (.plain (view hp refs')) ∧
      Bounded hp.length refs'
    | .error e => seqInserter c (.plain (view hp refs)) idx (cell hp r) insert = .error e := by
  unfold hSeqInserter seqInserter
  by_cases hok : okItem c.item (cell hp r) = true
  · simp only [hok, Bool.not_true, Bool.false_eq_true, if_false]
    cases idx with
    | none =>
      simp only [seqAppend]
      refine ⟨by simp [view], ?_⟩
      intro x hx
      rcases List.mem_append.mp hx with hx | hx
      · exact hb x hx
      · simp at hx; subst hx; exact hr
    | some i =>
      cases i with
      | int n =>
        cases insert with
        | true =>
          simp only [if_true, seqInsert]
          exact ⟨by rw [view_pyInsert], hb.pyInsert n hr⟩
        | false =>
          simp only [Bool.false_eq_true, if_false, seqSet, view_length]
          cases hk : pyIdx refs.length n with
          | none => simp
          | some k =>
            simp only
            refine ⟨by simp [view, List.map_set], ?_⟩
            intro x hx
            rcases List.mem_or_eq_of_mem_set hx with hx | rfl
            · exact hb x hx
            · exact hr
      | str s => cases insert <;> simp [seqInsert, seqSet]
      | obj kd k a => cases insert <;> simp [seqInsert, seqSet]
  · simp [hok]

/-- the shape every "edit" lemma has: the call on references (with `inplace=False` handed to
`mutate_value`) succeeds / fails as the call on the values does, the resulting references show the
resulting content, and no object that existed before was edited -/
def RefinesSeq (hp : Heap) (res : Except Err (Heap × List Nat)) (val : Except Err SeqC) : Prop :=
  match res with
  | .ok (hp', refs') =>
    val = .ok (.plain (view hp' refs')) ∧ Bounded hp'.length refs' ∧ Extends hp.length hp hp'
  | .error e => val = .error e

/-- `_mutate_collection` with the sequence extractor / inserter, on values -/
def mutateSeqV (c : AttrCfg) (s : SeqC) (voi : Option Val) (requirePre : Bool) (bi : Option Bool)
    (item : Option Val) (replace : Bool) (at_ : Attrs) (tf : Option (Val → Val)) (atf : AttrTfs)
    (insert : Bool) : Except Err SeqC :=
  match seqExtractor c s voi requirePre bi with
  | .error e => .error e
  | .ok (idx, old) =>
    match mutateItem c old item replace at_ tf atf with
    | .error e => .error e
    | .ok y => seqInserter c s idx y insert

theorem seqAddItem_eq (c : AttrCfg) (s : SeqC) (item : Option Val) (at_ : Attrs) (voi : Option Val)
    (bi : Option Bool) (insert replace : Bool) :
    seqAddItem c s item at_ voi bi insert replace =
      mutateSeqV c s voi (voi.isSome && !insert) bi item replace at_ none {} insert := rfl

theorem seqTransformItem_eq (c : AttrCfg) (s : SeqC) (voi : Val) (tf : Option (Val → Val))
    (bi : Option Bool) (atf : AttrTfs) :
    seqTransformItem c s voi tf bi atf = mutateSeqV c s (some voi) true bi none false {} tf atf false := rfl

theorem edit_spec (c : AttrCfg) (hp : Heap) (refs : List Nat) (voi : Option Nat) (raise : Bool)
    (bi : Option Bool) (item : Option Nat) (replace : Bool) (at_ : Attrs) (tf : Option (Val → Val))
    (atf : AttrTfs) (insert : Bool)
    (hb : Bounded hp.length refs) (hv : ∀ r, voi = some r → r < hp.length)
    (hi : ∀ r, item = some r → r < hp.length) :
    RefinesSeq hp
      (hMutateSeq c hp refs voi raise bi item replace at_ tf atf insert false)
      (mutateSeqV c (.plain (view hp refs)) (voi.map (cell hp)) raise bi (item.map (cell hp)) replace at_ tf
        atf insert) := by
  unfold hMutateSeq mutateSeqV
  have hx := hSeqExtractor_spec c hp refs voi raise bi hb hv
  cases hX : hSeqExtractor c hp refs voi raise bi with
  | error e => rw [hX] at hx; simp only at hx; simp only [RefinesSeq, hx]
  | ok p =>
    obtain ⟨idx, old⟩ := p
    rw [hX] at hx
    simp only at hx
    obtain ⟨hx1, hx2⟩ := hx
    simp only [hx1]
    have hm := mutateItemH_spec c hp old item replace at_ tf atf false hx2 hi
    cases hM : mutateItemH c hp old item replace at_ tf atf false with
    | error e => rw [hM] at hm; simp only at hm; simp only [RefinesSeq, hm]
    | ok q =>
      obtain ⟨hp', r⟩ := q
      rw [hM] at hm
      simp only at hm
      obtain ⟨hm1, hm2, hm3, hm4⟩ := hm
      have hext := hm4 trivial
      simp only [hm1]
      have hb' : Bounded hp'.length refs := hb.mono hm3
      have hins := hSeqInserter_spec c hp' refs idx r insert hb' hm2
      rw [hext.view hb] at hins
      cases hI : hSeqInserter c hp' refs idx r insert with
      | error e => rw [hI] at hins; simp only at hins; simp only [RefinesSeq, hins]
      | ok refs' =>
        rw [hI] at hins
        simp only at hins
        simp only [RefinesSeq]
        exact ⟨hins.1, hins.2, hext⟩

theorem hSeqAddItem_spec (c : AttrCfg) (hp : Heap) (refs : List Nat) (item : Option Nat) (at_ : Attrs)
    (voi : Option Nat) (bi : Option Bool) (insert replace : Bool)
    (hb : Bounded hp.length refs) (hv : ∀ r, voi = some r → r < hp.length)
    (hi : ∀ r, item = some r → r < hp.length) :
    RefinesSeq hp (hSeqAddItem c hp refs item at_ voi bi insert replace false)
      (seqAddItem c (.plain (view hp refs)) (item.map (cell hp)) at_ (voi.map (cell hp)) bi insert replace) := by
  rw [seqAddItem_eq]
  have := edit_spec c hp refs voi (voi.isSome && !insert) bi item replace at_ none {} insert hb hv hi
  unfold hSeqAddItem
  simpa using this

theorem hSeqTransformItem_spec (c : AttrCfg) (hp : Heap) (refs : List Nat) (voi : Nat)
    (tf : Option (Val → Val)) (bi : Option Bool) (atf : AttrTfs)
    (hb : Bounded hp.length refs) (hv : voi < hp.length) :
    RefinesSeq hp (hSeqTransformItem c hp refs voi tf bi atf false)
      (seqTransformItem c (.plain (view hp refs)) (cell hp voi) tf bi atf) := by
  rw [seqTransformItem_eq]
  have := edit_spec c hp refs (some voi) true bi none false {} tf atf false hb
    (fun r h => by cases h; exact hv) (fun r h => by cases h)
  unfold hSeqTransformItem
  simpa using this

theorem map_eraseIdx' {α β : Type} (f : α → β) : ∀ (xs : List α) (k : Nat),
    (xs.eraseIdx k).map f = (xs.map f).eraseIdx k
  | [], _ => by simp
  | x :: xs, 0 => by simp
  | x :: xs, k + 1 => by simp [map_eraseIdx' f xs k]

theorem hSeqRemoveItem_spec (c : AttrCfg) (hp : Heap) (refs : List Nat) (voi : Nat) (bi : Option Bool)
    (hb : Bounded hp.length refs) (hv : voi < hp.length) :
    match hSeqRemoveItem c hp refs voi bi with
    | .ok refs' =>
      seqRemoveItem c (.plain (view hp refs)) (cell hp voi) bi = .ok (.plain (view hp refs')) ∧
      Bounded hp.length refs'
    | .error e => seqRemoveItem c (.plain (view hp refs)) (cell hp voi) bi = .error e := by
  have hx := hSeqExtractor_spec c hp refs (some voi) true bi hb (fun r h => by cases h; exact hv)
  unfold hSeqRemoveItem seqRemoveItem
  cases hX : hSeqExtractor c hp refs (some voi) true bi with
  | error e => rw [hX] at hx; simp only [Option.map_some] at hx; simp only [hx]
  | ok p =>
    obtain ⟨idx, old⟩ := p
    rw [hX] at hx
    simp only [Option.map_some] at hx
    simp only [hx.1]
    cases idx with
    | none => exact ⟨rfl, hb⟩
    | some i =>
      cases i with
      | int n =>
        simp only [seqDel, view_length]
        cases hk : pyIdx refs.length n with
        | none => simp
        | some k =>
          simp only
          refine ⟨by simp [view, map_eraseIdx'], ?_⟩
          intro x hx'
          exact hb x (List.mem_of_mem_eraseIdx hx')
      | str s => simp [seqDel]
      | obj kd k a => simp [seqDel]

/-! ## the generated helper -/

theorem Extends.weaken {n m : Nat} {hp hp' : Heap} (h : Extends n hp hp') (hm : m ≤ n) : Extends m hp hp' :=
  ⟨h.1, fun i hi => h.2 i (Nat.lt_of_lt_of_le hi hm)⟩

theorem HOp.inBounds_mono {n m : Nat} {op : HOp} (h : op.inBounds n) (hnm : n ≤ m) : op.inBounds m := by
  cases op <;> simp only [HOp.inBounds] at h ⊢
  · exact ⟨fun r hr => Nat.lt_of_lt_of_le (h.1 r hr) hnm, fun r hr => Nat.lt_of_lt_of_le (h.2 r hr) hnm⟩
  · exact ⟨Nat.lt_of_lt_of_le h.1 hnm, fun r hr => Nat.lt_of_lt_of_le (h.2 r hr) hnm⟩
  · exact Nat.lt_of_lt_of_le h hnm
  · exact Nat.lt_of_lt_of_le h hnm

theorem optmap_cell_extends {n : Nat} {hp hp' : Heap} (h : Extends n hp hp') (o : Option Nat)
    (ho : ∀ r, o = some r → r < n) : o.map (cell hp') = o.map (cell hp) := by
  cases o with
  | none => rfl
  | some r => simp [h.2 r (ho r rfl)]

theorem HOp.toOp_extends {n : Nat} {hp hp' : Heap} (h : Extends n hp hp') {op : HOp} (ho : op.inBounds n) :
    op.toOp hp' = op.toOp hp := by
  cases op <;> simp only [HOp.inBounds] at ho <;> simp only [HOp.toOp]
  · rw [optmap_cell_extends h _ ho.1, optmap_cell_extends h _ ho.2]
  · rw [optmap_cell_extends h _ ho.2, h.2 _ ho.1]
  · rw [h.2 _ ho]
  · rw [h.2 _ ho]

/-- like `RefinesSeq`, for a result of the generated helper (a `Coll`); `hp` = the heap at call time -/
def RefinesColl (hp : Heap) (res : Except Err (Heap × List Nat)) (val : Except Err Coll) : Prop :=
  match res with
  | .ok (hp', refs') =>
    val = .ok (.seq (.plain (view hp' refs'))) ∧ Bounded hp'.length refs' ∧ Extends hp.length hp hp'
  | .error e => val = .error e

theorem RefinesSeq.lift {hp : Heap} {res : Except Err (Heap × List Nat)} {val : Except Err SeqC}
    (h : RefinesSeq hp res val) : RefinesColl hp res (liftSeq val) := by
  cases res with
  | error e => simp only [RefinesSeq] at h; simp [RefinesColl, h, liftSeq]
  | ok p => obtain ⟨hp', refs'⟩ := p; simp only [RefinesSeq] at h; simp [RefinesColl, h.1, h.2, liftSeq]

theorem hSeqStep_spec (c : AttrCfg) (hp : Heap) (refs : List Nat) (op : HOp)
    (hb : Bounded hp.length refs) (ho : op.inBounds hp.length) :
    RefinesColl hp (hSeqStep c hp refs false op) (stepColl c (.seq (.plain (view hp refs))) (op.toOp hp)) := by
  cases op with
  | with_ item index insert at_ =>
    simp only [HOp.inBounds] at ho
    exact (hSeqAddItem_spec c hp refs item at_ index (some true) insert true hb ho.2 ho.1).lift
  | update voi new bi at_ =>
    simp only [HOp.inBounds] at ho
    exact (hSeqAddItem_spec c hp refs new at_ (some voi) bi false false hb
      (fun r h => by cases h; exact ho.1) ho.2).lift
  | transform voi tf bi atf =>
    simp only [HOp.inBounds] at ho
    exact (hSeqTransformItem_spec c hp refs voi tf bi atf hb ho).lift
  | without voi bi =>
    simp only [HOp.inBounds] at ho
    have h := hSeqRemoveItem_spec c hp refs voi bi hb ho
    simp only [hSeqStep, HOp.toOp, stepColl]
    cases hR : hSeqRemoveItem c hp refs voi bi with
    | error e => rw [hR] at h; simp only at h; simp [RefinesColl, h, liftSeq]
    | ok refs' =>
      rw [hR] at h
      simp only at h
      simp only [RefinesColl]
      exact ⟨by simp [h.1, liftSeq], h.2, Extends.refl _ _⟩

/-- the edit, started from a container `(hp1, refs1)` that shows what the attribute shows -/
theorem from_start (c : AttrCfg) (hp hp1 : Heap) (refs1 : List Nat) (op : HOp) (cur : Option Coll)
    (h1 : Extends hp.length hp hp1) (h2 : Bounded hp1.length refs1) (ho : op.inBounds hp.length)
    (h3 : cur.getD (create c) = .seq (.plain (view hp1 refs1))) :
    RefinesColl hp (hSeqStep c hp1 refs1 false op) (step c cur (op.toOp hp)) := by
  have hs := hSeqStep_spec c hp1 refs1 op h2 (HOp.inBounds_mono ho h1.1)
  rw [HOp.toOp_extends h1 ho] at hs
  simp only [step, h3]
  cases hS : hSeqStep c hp1 refs1 false op with
  | error e => rw [hS] at hs; simpa [RefinesColl] using hs
  | ok p =>
    obtain ⟨hp', refs'⟩ := p
    rw [hS] at hs
    simp only [RefinesColl] at hs ⊢
    exact ⟨hs.1, hs.2.1, h1.trans (hs.2.2.weaken h1.1)⟩

/-- what a list attribute holding references shows -/
def shown (hp : Heap) (st : Option (List Nat)) : Option Coll := st.map fun refs => Coll.seq (.plain (view hp refs))

theorem hSeqHelper_true (c : AttrCfg) (hc : c.fam = .list) (hp : Heap) (st : Option (List Nat)) (op : HOp)
    (inplace : Bool) (hb : ∀ refs, st = some refs → Bounded hp.length refs) (ho : op.inBounds hp.length) :
    ∃ hp1 refs1, hSeqHelper c hp st op true inplace false = someRefs (hSeqStep c hp1 refs1 false op) ∧
      RefinesColl hp (hSeqStep c hp1 refs1 false op) (step c (shown hp st) (op.toOp hp)) := by
  cases st with
  | none =>
    refine ⟨hp, [], by simp [hSeqHelper], ?_⟩
    exact from_start c hp hp [] op _ (Extends.refl _ _) (by simp [Bounded]) ho (by simp [shown, create, hc, view])
  | some refs =>
    have hbr := hb refs rfl
    cases inplace with
    | true =>
      refine ⟨hp, refs, by simp [hSeqHelper], ?_⟩
      exact from_start c hp hp refs op _ (Extends.refl _ _) hbr ho (by simp [shown])
    | false =>
      refine ⟨(deepcopyRefs hp refs).1, (deepcopyRefs hp refs).2, by simp [hSeqHelper], ?_⟩
      obtain ⟨⟨ext, he⟩, hbd, hv⟩ := deepcopy_spec hp refs
      refine from_start c hp _ _ op _ ?_ hbd ho (by simp [shown, hv])
      rw [he]; exact Extends.append _ _ _ (Nat.le_refl _)

theorem hSeqHelper_spec (c : AttrCfg) (hc : c.fam = .list) (hp : Heap) (st : Option (List Nat)) (op : HOp)
    (if_ inplace : Bool) (hb : ∀ refs, st = some refs → Bounded hp.length refs) (ho : op.inBounds hp.length) :
    (∀ hp' st', hSeqHelper c hp st op if_ inplace false = .ok (hp', st') →
      helper c (shown hp st) (op.toOp hp) if_ = .ok (shown hp' st') ∧
      (∀ refs, st' = some refs → Bounded hp'.length refs) ∧ Extends hp.length hp hp') ∧
    (∀ e, hSeqHelper c hp st op if_ inplace false = .error e →
      helper c (shown hp st) (op.toOp hp) if_ = .error e) := by
  cases if_ with
  | false =>
    refine ⟨fun hp' st' h => ?_, fun e h => ?_⟩
    · simp only [hSeqHelper, Bool.not_false, if_true] at h
      cases h
      exact ⟨by simp [helper], hb, Extends.refl _ _⟩
    · simp [hSeqHelper] at h
  | true =>
    obtain ⟨hp1, refs1, heq, hr⟩ := hSeqHelper_true c hc hp st op inplace hb ho
    rw [heq]
    simp only [helper, Bool.not_true, Bool.false_eq_true, if_false]
    cases hS : hSeqStep c hp1 refs1 false op with
    | error e =>
      rw [hS] at hr
      simp only [RefinesColl] at hr
      refine ⟨fun hp' st' h => by simp [someRefs] at h, fun e' h => ?_⟩
      simp only [someRefs] at h
      cases h
      simp [hr]
    | ok p =>
      obtain ⟨hp', refs'⟩ := p
      rw [hS] at hr
      simp only [RefinesColl] at hr
      refine ⟨fun hp'' st'' h => ?_, fun e' h => by simp [someRefs] at h⟩
      simp only [someRefs] at h
      cases h
      exact ⟨by rw [hr.1]; simp [shown], fun refs h => by cases h; exact hr.2.1, hr.2.2⟩

/-- "all other elements untouched" for a list whose elements are shared objects: whatever positions
share an object, a successful call with `if_ = true` is a single-position `Edit` of what the list shows,
and the receiver's own references show what they showed. -/
theorem hSeqHelper_edit (c : AttrCfg) (hc : c.fam = .list) (hp : Heap) (refs : List Nat) (op : HOp)
    (inplace : Bool) (hb : Bounded hp.length refs) (ho : op.inBounds hp.length) (hp' : Heap) (st' : Option (List Nat))
    (h : hSeqHelper c hp (some refs) op true inplace false = .ok (hp', st')) :
    (∃ refs', st' = some refs' ∧ Edit (view hp refs) (view hp' refs')) ∧ view hp' refs = view hp refs := by
  obtain ⟨h1, h2, h3⟩ := (hSeqHelper_spec c hc hp (some refs) op true inplace
    (fun r hr => by cases hr; exact hb) ho).1 hp' st' h
  refine ⟨?_, h3.view hb⟩
  simp only [helper, Bool.not_true, Bool.false_eq_true, if_false, shown, Option.map_some, step,
    Option.getD_some] at h1
  cases hS : stepColl c (.seq (.plain (view hp refs))) (op.toOp hp) with
  | error e => rw [hS] at h1; simp at h1
  | ok coll' =>
    rw [hS] at h1
    simp only [Except.ok.injEq] at h1
    obtain ⟨s', hs', he⟩ := others_untouched c (.plain (view hp refs)) (op.toOp hp) coll' hS
    cases st' with
    | none => simp at h1
    | some refs' =>
      simp only [Option.map_some, Option.some.injEq] at h1
      refine ⟨refs', rfl, ?_⟩
      rw [hs'] at h1
      cases h1
      simpa [SeqC.items] using he

/-! ## dict attributes whose values are shared objects -/

/-- every value reference is an allocated object -/
def BoundedD (n : Nat) (d : RDict) : Prop := ∀ p ∈ d, p.2 < n

theorem BoundedD.mono {n m : Nat} {d : RDict} (h : BoundedD n d) (hnm : n ≤ m) : BoundedD m d :=
  fun p hp => Nat.lt_of_lt_of_le (h p hp) hnm

theorem Extends.viewD {n : Nat} {hp hp' : Heap} (h : Extends n hp hp') {d : RDict} (hb : BoundedD n d) :
    viewD hp' d = viewD hp d := by
  unfold SpecVerif.C06.viewD
  apply List.map_congr_left
  intro p hp
  rw [h.2 p.2 (hb p hp)]

theorem viewD_has (hp : Heap) (d : RDict) (k : Val) : pyDictHas (viewD hp d) k = d.any (fun p => p.1 == k) := by
  simp [viewD, pyDictHas, List.any_map, Function.comp_def]

theorem viewD_get (hp : Heap) (d : RDict) (k : Val) :
    pyDictGet (viewD hp d) k = (rDictGet d k).map (cell hp) := by
  unfold pyDictGet rDictGet viewD
  induction d with
  | nil => simp
  | cons p d ih =>
    simp only [List.map_cons, List.find?_cons]
    by_cases h : (p.1 == k) = true
    · simp [h]
    · simp only [h]; exact ih

theorem rDictGet_mem {d : RDict} {k : Val} {r : Nat} (h : rDictGet d k = some r) : ∃ p ∈ d, p.2 = r := by
  unfold rDictGet at h
  cases hf : d.find? (fun p => p.1 == k) with
  | none => rw [hf] at h; simp at h
  | some p =>
    rw [hf] at h
    simp only [Option.map_some, Option.some.injEq] at h
    exact ⟨p, List.mem_of_find?_eq_some hf, h⟩

theorem viewD_set (hp : Heap) (d : RDict) (k : Val) (r : Nat) :
    viewD hp (rDictSet d k r) = pyDictSet (viewD hp d) k (cell hp r) := by
  induction d with
  | nil => simp [rDictSet, pyDictSet, viewD]
  | cons p d ih =>
    obtain ⟨k', r'⟩ := p
    simp only [rDictSet, viewD, List.map_cons, pyDictSet]
    by_cases h : (k' == k) = true
    · simp [h]
    · simp only [h, Bool.false_eq_true, if_false, List.map_cons]
      congr 1

theorem BoundedD.set {n : Nat} {d : RDict} (hb : BoundedD n d) (k : Val) {r : Nat} (hr : r < n) :
    BoundedD n (rDictSet d k r) := by
  induction d with
  | nil => intro p hp; simp [rDictSet] at hp; subst hp; exact hr
  | cons q d ih =>
    obtain ⟨k', r'⟩ := q
    have hq : r' < n := hb (k', r') (by simp)
    have hd : BoundedD n d := fun p hp => hb p (List.mem_cons_of_mem _ hp)
    simp only [rDictSet]
    by_cases h : (k' == k) = true
    · simp only [h, if_true]
      intro p hp
      rcases List.mem_cons.mp hp with rfl | hp
      · exact hr
      · exact hd p hp
    · simp only [h, Bool.false_eq_true, if_false]
      intro p hp
      rcases List.mem_cons.mp hp with rfl | hp
      · exact hq
      · exact ih hd p hp

theorem viewD_del (hp : Heap) (d : RDict) (k : Val) : viewD hp (rDictDel d k) = pyDictDel (viewD hp d) k := by
  simp [viewD, rDictDel, pyDictDel, List.filter_map, Function.comp_def]

theorem hMapExtractor_spec (hp : Heap) (d : RDict) (k : Val) (raise : Bool) (hb : BoundedD hp.length d) :
    match hMapExtractor d k raise with
    | .ok (idx, old) =>
      mapExtractor (viewD hp d) k raise = .ok (idx, old.map (cell hp)) ∧ (∀ r, old = some r → r < hp.length)
    | .error e => mapExtractor (viewD hp d) k raise = .error e := by
  unfold hMapExtractor mapExtractor
  rw [viewD_has, viewD_get]
  by_cases h : (raise && !(d.any fun p => p.1 == k)) = true
  · simp only [h, if_true]
  · simp only [h, Bool.false_eq_true, if_false]
    refine ⟨trivial, ?_⟩
    intro r hr
    obtain ⟨p, hp1, hp2⟩ := rDictGet_mem hr
    exact hp2 ▸ hb p hp1

theorem hMapInserter_spec (c : AttrCfg) (hp : Heap) (d : RDict) (k : Val) (r : Nat)
    (hb : BoundedD hp.length d) (hr : r < hp.length) :
    match hMapInserter c hp d k r with
    | .ok d' => mapInserter c (viewD hp d) k (cell hp r) = .ok (viewD hp d') ∧ BoundedD hp.length d'
    | .error e => mapInserter c (viewD hp d) k (cell hp r) = .error e := by
  unfold hMapInserter mapInserter
  by_cases h1 : okItem c.item (cell hp r) = true
  · by_cases h2 : keyBad c k = true
    · simp [h1, h2]
    · simp only [h1, h2, Bool.not_true, Bool.false_eq_true, if_false]
      exact ⟨by rw [viewD_set], hb.set k hr⟩
  · simp [h1]

/-- `_mutate_collection` with the mapping extractor / inserter, on values -/
def mutateMapV (c : AttrCfg) (d : PyDict) (k : Val) (requirePre : Bool) (item : Option Val) (replace : Bool)
    (at_ : Attrs) (tf : Option (Val → Val)) (atf : AttrTfs) : Except Err PyDict :=
  match mapExtractor d k requirePre with
  | .error e => .error e
  | .ok (idx, old) =>
    match mutateItem c old item replace at_ tf atf with
    | .error e => .error e
    | .ok y => mapInserter c d idx y

theorem mapAddItem_eq (c : AttrCfg) (d : PyDict) (k : Val) (value : Option Val) (at_ : Attrs)
    (replace requirePre : Bool) :
    mapAddItem c d k value at_ replace requirePre = mutateMapV c d k requirePre value replace at_ none {} := rfl

theorem mapTransformItem_eq (c : AttrCfg) (d : PyDict) (k : Val) (tf : Option (Val → Val)) (atf : AttrTfs) :
    mapTransformItem c d k tf atf = mutateMapV c d k true none false {} tf atf := rfl

/-- like `RefinesColl`, for a dict -/
def RefinesMap (hp : Heap) (res : Except Err (Heap × RDict)) (val : Except Err Coll) : Prop :=
  match res with
  | .ok (hp', d') => val = .ok (.map (viewD hp' d')) ∧ BoundedD hp'.length d' ∧ Extends hp.length hp hp'
  | .error e => val = .error e

theorem hMutateMap_spec (c : AttrCfg) (hp : Heap) (d : RDict) (k : Val) (raise : Bool) (item : Option Nat)
    (replace : Bool) (at_ : Attrs) (tf : Option (Val → Val)) (atf : AttrTfs)
    (hb : BoundedD hp.length d) (hi : ∀ r, item = some r → r < hp.length) :
    RefinesMap hp (hMutateMap c hp d k raise item replace at_ tf atf false)
      (liftMap (mutateMapV c (viewD hp d) k raise (item.map (cell hp)) replace at_ tf atf)) := by
  unfold hMutateMap mutateMapV
  have hx := hMapExtractor_spec hp d k raise hb
  cases hX : hMapExtractor d k raise with
  | error e => rw [hX] at hx; simp only at hx; simp only [RefinesMap, hx, liftMap]
  | ok p =>
    obtain ⟨idx, old⟩ := p
    rw [hX] at hx
    simp only at hx
    obtain ⟨hx1, hx2⟩ := hx
    simp only [hx1]
    have hm := mutateItemH_spec c hp old item replace at_ tf atf false hx2 hi
    cases hM : mutateItemH c hp old item replace at_ tf atf false with
    | error e => rw [hM] at hm; simp only at hm; simp only [RefinesMap, hm, liftMap]
    | ok q =>
      obtain ⟨hp', r⟩ := q
      rw [hM] at hm
      simp only at hm
      obtain ⟨hm1, hm2, hm3, hm4⟩ := hm
      have hext := hm4 trivial
      simp only [hm1]
      have hb' : BoundedD hp'.length d := hb.mono hm3
      have hins := hMapInserter_spec c hp' d idx r hb' hm2
      rw [hext.viewD hb] at hins
      cases hI : hMapInserter c hp' d idx r with
      | error e => rw [hI] at hins; simp only at hins; simp only [RefinesMap, hins, liftMap]
      | ok d' =>
        rw [hI] at hins
        simp only at hins
        simp only [RefinesMap, hins.1, liftMap]
        exact ⟨trivial, hins.2, hext⟩

theorem hMapStep_spec (c : AttrCfg) (hp : Heap) (d : RDict) (op : HOp)
    (hb : BoundedD hp.length d) (ho : op.inBounds hp.length) :
    RefinesMap hp (hMapStep c hp d false op) (stepColl c (.map (viewD hp d)) (op.toOp hp)) := by
  cases op with
  | with_ item index insert at_ =>
    simp only [HOp.inBounds] at ho
    cases index with
    | none => simp [hMapStep, HOp.toOp, stepColl, RefinesMap]
    | some k =>
      simp only [hMapStep, HOp.toOp, stepColl, Option.map_some, mapAddItem_eq]
      exact hMutateMap_spec c hp d (cell hp k) false item true at_ none {} hb ho.1
  | update voi new bi at_ =>
    simp only [HOp.inBounds] at ho
    simp only [hMapStep, HOp.toOp, stepColl, mapAddItem_eq]
    exact hMutateMap_spec c hp d (cell hp voi) true new false at_ none {} hb ho.2
  | transform voi tf bi atf =>
    simp only [hMapStep, HOp.toOp, stepColl, mapTransformItem_eq]
    exact hMutateMap_spec c hp d (cell hp voi) true none false {} tf atf hb (fun r h => by cases h)
  | without voi bi =>
    simp only [hMapStep, HOp.toOp, stepColl, hMapRemoveItem, mapRemoveItem]
    have hx := hMapExtractor_spec hp d (cell hp voi) true hb
    cases hX : hMapExtractor d (cell hp voi) true with
    | error e => rw [hX] at hx; simp only at hx; simp [RefinesMap, hx, liftMap]
    | ok p =>
      obtain ⟨idx, old⟩ := p
      rw [hX] at hx
      simp only at hx
      simp only [RefinesMap, hx.1, liftMap, viewD_del]
      refine ⟨trivial, ?_, Extends.refl _ _⟩
      intro q hq
      exact hb q (List.mem_filter.mp hq).1

theorem deepcopyD_spec (hp : Heap) (d : RDict) :
    Extends hp.length hp (deepcopyD hp d).1 ∧ BoundedD (deepcopyD hp d).1.length (deepcopyD hp d).2 ∧
    viewD (deepcopyD hp d).1 (deepcopyD hp d).2 = viewD hp d := by
  obtain ⟨⟨ext, he⟩, hbd, hv⟩ := deepcopy_spec hp (d.map (·.2))
  unfold deepcopyD
  generalize (deepcopyRefs hp (d.map (·.2))).1 = hp' at *
  generalize (deepcopyRefs hp (d.map (·.2))).2 = refs' at *
  have hlen : refs'.length = d.length := by
    have := congrArg List.length hv
    simpa [view] using this
  refine ⟨by rw [he]; exact Extends.append _ _ _ (Nat.le_refl _), ?_, ?_⟩
  · intro p hp
    exact hbd p.2 (List.of_mem_zip hp).2
  · simp only [viewD]
    apply List.ext_getElem
    · simp [hlen]
    · intro i h1 h2
      simp only [List.getElem_map, List.getElem_zip]
      have hv' : (view hp' refs')[i]? = (view hp (d.map (·.2)))[i]? := by rw [hv]
      simp only [view, List.getElem?_map, List.map_map] at hv'
      have hi1 : i < refs'.length := by simp at h1; omega
      have hi2 : i < d.length := by simp at h2; omega
      simp only [List.getElem?_eq_getElem hi1, List.getElem?_eq_getElem hi2, Option.map_some,
        Option.some.injEq, Function.comp] at hv'
      rw [hv']

/-- what a dict attribute holding references shows -/
def shownD (hp : Heap) (st : Option RDict) : Option Coll := st.map fun d => Coll.map (viewD hp d)

theorem from_startD (c : AttrCfg) (hp hp1 : Heap) (d1 : RDict) (op : HOp) (cur : Option Coll)
    (h1 : Extends hp.length hp hp1) (h2 : BoundedD hp1.length d1) (ho : op.inBounds hp.length)
    (h3 : cur.getD (create c) = .map (viewD hp1 d1)) :
    RefinesMap hp (hMapStep c hp1 d1 false op) (step c cur (op.toOp hp)) := by
  have hs := hMapStep_spec c hp1 d1 op h2 (HOp.inBounds_mono ho h1.1)
  rw [HOp.toOp_extends h1 ho] at hs
  simp only [step, h3]
  cases hS : hMapStep c hp1 d1 false op with
  | error e => rw [hS] at hs; simpa [RefinesMap] using hs
  | ok p =>
    obtain ⟨hp', d'⟩ := p
    rw [hS] at hs
    simp only [RefinesMap] at hs ⊢
    exact ⟨hs.1, hs.2.1, h1.trans (hs.2.2.weaken h1.1)⟩

theorem hMapHelper_true (c : AttrCfg) (hc : c.fam = .dict) (hp : Heap) (st : Option RDict) (op : HOp)
    (inplace : Bool) (hb : ∀ d, st = some d → BoundedD hp.length d) (ho : op.inBounds hp.length) :
    ∃ hp1 d1, hMapHelper c hp st op true inplace false = someDict (hMapStep c hp1 d1 false op) ∧
      RefinesMap hp (hMapStep c hp1 d1 false op) (step c (shownD hp st) (op.toOp hp)) := by
  cases st with
  | none =>
    refine ⟨hp, [], by simp [hMapHelper], ?_⟩
    exact from_startD c hp hp [] op _ (Extends.refl _ _) (by simp [BoundedD]) ho (by simp [shownD, create, hc, viewD])
  | some d =>
    have hbd := hb d rfl
    cases inplace with
    | true =>
      refine ⟨hp, d, by simp [hMapHelper], ?_⟩
      exact from_startD c hp hp d op _ (Extends.refl _ _) hbd ho (by simp [shownD])
    | false =>
      refine ⟨(deepcopyD hp d).1, (deepcopyD hp d).2, by simp [hMapHelper], ?_⟩
      obtain ⟨he, hbd', hv⟩ := deepcopyD_spec hp d
      exact from_startD c hp _ _ op _ he hbd' ho (by simp [shownD, hv])

theorem hMapHelper_spec (c : AttrCfg) (hc : c.fam = .dict) (hp : Heap) (st : Option RDict) (op : HOp)
    (if_ inplace : Bool) (hb : ∀ d, st = some d → BoundedD hp.length d) (ho : op.inBounds hp.length) :
    (∀ hp' st', hMapHelper c hp st op if_ inplace false = .ok (hp', st') →
      helper c (shownD hp st) (op.toOp hp) if_ = .ok (shownD hp' st') ∧
      (∀ d, st' = some d → BoundedD hp'.length d) ∧ Extends hp.length hp hp') ∧
    (∀ e, hMapHelper c hp st op if_ inplace false = .error e →
      helper c (shownD hp st) (op.toOp hp) if_ = .error e) := by
  cases if_ with
  | false =>
    refine ⟨fun hp' st' h => ?_, fun e h => ?_⟩
    · simp only [hMapHelper, Bool.not_false, if_true] at h
      cases h
      exact ⟨by simp [helper], hb, Extends.refl _ _⟩
    · simp [hMapHelper] at h
  | true =>
    obtain ⟨hp1, d1, heq, hr⟩ := hMapHelper_true c hc hp st op inplace hb ho
    rw [heq]
    simp only [helper, Bool.not_true, Bool.false_eq_true, if_false]
    cases hS : hMapStep c hp1 d1 false op with
    | error e =>
      rw [hS] at hr
      simp only [RefinesMap] at hr
      refine ⟨fun hp' st' h => by simp [someDict] at h, fun e' h => ?_⟩
      simp only [someDict] at h
      cases h
      simp [hr]
    | ok p =>
      obtain ⟨hp', d'⟩ := p
      rw [hS] at hr
      simp only [RefinesMap] at hr
      refine ⟨fun hp'' st'' h => ?_, fun e' h => by simp [someDict] at h⟩
      simp only [someDict] at h
      cases h
      exact ⟨by rw [hr.1]; simp [shownD], fun d h => by cases h; exact hr.2.1, hr.2.2⟩

/-! ## where the instance keeps the attribute -/

theorem Inst.observe_write {κ : Type} (i : Inst κ) (v : κ) : (i.write v).observe = some v := by
  unfold Inst.observe Inst.read Inst.write
  cases i.store <;> simp

theorem Inst.observe_read {κ : Type} (i : Inst κ) : i.read.2.observe = i.observe := by
  unfold Inst.observe Inst.read
  cases hs : i.store with
  | dict => simp [hs]
  | slot => simp [hs]
  | computed cache =>
    simp only
    cases ho : i.own with
    | some v => simp [hs, ho]
    | none =>
      cases cache with
      | false => simp [hs, ho]
      | true =>
        simp only [if_true, hs]
        cases i.dflt <;> simp

theorem Inst.write_read_store {κ : Type} (i : Inst κ) (v : κ) : (i.read.2.write v).observe = some v :=
  Inst.observe_write _ v

theorem helperI_spec (c : AttrCfg) (i : Inst Coll) (op : Op) (if_ : Bool) :
    (∀ i', helperI c i op if_ = .ok i' → helper c i.observe op if_ = .ok i'.observe) ∧
    (∀ e, helperI c i op if_ = .error e → helper c i.observe op if_ = .error e) := by
  unfold helperI helper
  cases if_ with
  | false => simp
  | true =>
    simp only [Bool.not_true, Bool.false_eq_true, if_false, Inst.observe]
    cases hS : step c i.read.1 op with
    | error e => simp
    | ok coll =>
      refine ⟨fun i' h => ?_, fun e h => by simp at h⟩
      simp only [Except.ok.injEq] at h
      subst h
      have := Inst.observe_write i.read.2 coll
      simp only [Inst.observe] at this
      simp [this]

end SpecVerif.C06
