import SpecVerif.Model.C09
/-!
# Helper lemmas for C09 (generated constructor). Property theorems live in `Props/C09.lean`.

The central device is a *closed form* of a successful run of `InitMethod.init`:
`ownPlan` lists the assignments one pass of the own-attribute loop performs,
`parentsFold` replays the parents loop without error handling, and
`initOwner_ok` shows that a successful `initOwner` is exactly that replay.
-/
set_option linter.unusedSectionVars false
set_option linter.unusedSimpArgs false
set_option linter.unusedVariables false
namespace SpecVerif.C09
open SpecVerif.Py

/-! ### association lists -/

theorem assoc_dictSet {β : Type} (d : List (Name × β)) (a b : Name) (v : β) :
    assoc (dictSet d a v) b = if a = b then some v else assoc d b := by
  induction d with
  | nil => simp [dictSet, assoc]
  | cons p r ih =>
    obtain ⟨k, w⟩ := p
    simp only [dictSet, assoc]
    by_cases hk : k = a <;> by_cases hb : a = b <;> by_cases hkb : k = b <;> simp_all [assoc]

theorem assoc_dictErase {β : Type} (d : List (Name × β)) (a b : Name) :
    assoc (dictErase d a) b = if a = b then none else assoc d b := by
  induction d with
  | nil => simp [dictErase, assoc]
  | cons p r ih =>
    obtain ⟨k, w⟩ := p
    simp only [dictErase, assoc]
    by_cases hk : k = a <;> by_cases hb : a = b <;> by_cases hkb : k = b <;> simp_all [assoc]

theorem assoc_eq_some_of_mem {β : Type} {d : List (Name × β)} {a : Name} {v : β}
    (hn : (d.map (·.1)).Nodup) (hm : (a, v) ∈ d) : assoc d a = some v := by
  induction d with
  | nil => cases hm
  | cons p r ih =>
    obtain ⟨k, w⟩ := p
    simp only [List.map_cons, List.nodup_cons] at hn
    rcases List.mem_cons.1 hm with h | h
    · cases h; simp [assoc]
    · have hk : k ≠ a := by
        intro hka; subst hka
        exact hn.1 (List.mem_map.2 ⟨(k, v), h, rfl⟩)
      simp [assoc, hk, ih hn.2 h]

theorem mem_of_assoc_eq_some {β : Type} {d : List (Name × β)} {a : Name} {v : β}
    (h : assoc d a = some v) : (a, v) ∈ d := by
  induction d with
  | nil => simp [assoc] at h
  | cons p r ih =>
    obtain ⟨k, w⟩ := p
    simp only [assoc] at h
    split at h
    · rename_i hk; cases h; subst hk; exact List.mem_cons_self
    · exact List.mem_cons_of_mem _ (ih h)

theorem assoc_eq_none_iff {β : Type} {d : List (Name × β)} {a : Name} :
    assoc d a = none ↔ a ∉ d.map (·.1) := by
  induction d with
  | nil => simp [assoc]
  | cons p r ih =>
    obtain ⟨k, w⟩ := p
    simp only [assoc, List.map_cons, List.mem_cons, not_or]
    by_cases hk : k = a
    · subst hk; simp
    · simp only [hk, if_false, ih]
      constructor
      · intro h; exact ⟨fun e => hk e.symm, h⟩
      · intro h; exact h.2

theorem hasName_iff {β : Type} {d : List (Name × β)} {a : Name} :
    hasName d a = true ↔ a ∈ d.map (·.1) := by
  unfold hasName
  cases h : assoc d a with
  | none => simp [assoc_eq_none_iff.1 h]
  | some v =>
    simp only [Option.isSome_some, true_iff]
    exact List.mem_map.2 ⟨(a, v), mem_of_assoc_eq_some h, rfl⟩

theorem applyPrep_eq_missing (c : Nat) (v : Val) : applyPrep c v = .missing ↔ v = .missing := by
  unfold applyPrep
  split
  · rfl
  · simp
  · split <;> simp
  · rfl

theorem applyItemPrep_eq_missing (ty : Ty) (n : Nat) (v : Val) : applyItemPrep ty n v = .missing ↔ v = .missing := by
  unfold applyItemPrep
  split
  · simp
  · split <;> simp
  · rfl

theorem prepareVal_eq_missing (env : Env) (im : Meta) (a : Name) (v : Val) :
    prepareVal env im a v = .missing ↔ v = .missing := by
  unfold prepareVal
  split
  · rfl
  · rw [applyItemPrep_eq_missing, applyPrep_eq_missing]

/-! ### plans: the assignments of one pass of the own-attribute loop -/

abbrev Plan := List (Name × Val)

def applyFields (d : List (Name × Val)) (plan : Plan) : List (Name × Val) :=
  plan.foldl (fun d p => dictSet d p.1 p.2) d

def applyPlan (s : St) (plan : Plan) : St :=
  { s with fields := applyFields s.fields plan, trace := s.trace ++ plan.map (fun p => Ev.set p.1 p.2) }

theorem applyPlan_nil (s : St) : applyPlan s [] = s := by
  simp [applyPlan, applyFields]

theorem applyPlan_append (s : St) (p q : Plan) : applyPlan (applyPlan s p) q = applyPlan s (p ++ q) := by
  simp [applyPlan, applyFields, List.foldl_append, List.append_assoc]

theorem applyFields_append (d : List (Name × Val)) (p q : Plan) :
    applyFields (applyFields d p) q = applyFields d (p ++ q) := by
  simp [applyFields, List.foldl_append]

theorem assoc_applyFields_not_mem (d : List (Name × Val)) (plan : Plan) (a : Name)
    (h : a ∉ plan.map (·.1)) : assoc (applyFields d plan) a = assoc d a := by
  induction plan generalizing d with
  | nil => rfl
  | cons p r ih =>
    simp only [List.map_cons, List.mem_cons, not_or] at h
    simp only [applyFields, List.foldl_cons] at ih ⊢
    rw [ih _ h.2, assoc_dictSet]
    have hne : p.1 ≠ a := fun e => h.1 e.symm
    simp [hne]

theorem assoc_applyFields_unique (d : List (Name × Val)) (plan : Plan) (a : Name) (v : Val)
    (hm : (a, v) ∈ plan) (hu : ∀ w, (a, w) ∈ plan → w = v) : assoc (applyFields d plan) a = some v := by
  induction plan generalizing d with
  | nil => cases hm
  | cons p r ih =>
    simp only [applyFields, List.foldl_cons] at ih ⊢
    by_cases hr : a ∈ r.map (·.1)
    · obtain ⟨⟨a', w⟩, hw, ha'⟩ := List.mem_map.1 hr
      simp only at ha'; subst ha'
      have hwv : w = v := hu w (List.mem_cons_of_mem _ hw)
      subst hwv
      exact ih _ hw (fun w' hw' => hu w' (List.mem_cons_of_mem _ hw'))
    · have hp : p = (a, v) := by
        rcases List.mem_cons.1 hm with h | h
        · exact h.symm
        · exact absurd (List.mem_map.2 ⟨(a, v), h, rfl⟩) hr
      subst hp
      have := assoc_applyFields_not_mem (dictSet d a v) r a hr
      simp only [applyFields] at this
      rw [this, assoc_dictSet]; simp

/-- The value the own-attribute loop resolves for `(a, sp)`: keyword, else default lookup. -/
def resolveVal (env : Env) (mroC : List Cls) (kw : Kw) (a : Name) (sp : AttrSpec) : Val :=
  if kwGet kw a = .missing then lookupDefault env.classes sp a mroC else kwGet kw a

/-- Does the loop for `spec_cls = k` consider `(a, sp)`? -/
def qualifies (im : Meta) (k : Cls) (a : Name) (sp : AttrSpec) : Bool :=
  sp.init && sp.owner == k && !(some a == im.ovf)

def ownPlan (env : Env) (im : Meta) (mroC : List Cls) (k : Cls) (kw : Kw) :
    List (Name × AttrSpec) → Plan
  | [] => []
  | (a, sp) :: r =>
    if qualifies im k a sp && resolveVal env mroC kw a sp != .missing then
      (a, prepareVal env im a (resolveVal env mroC kw a sp)) :: ownPlan env im mroC k kw r
    else ownPlan env im mroC k kw r

theorem mem_ownPlan {env : Env} {im : Meta} {mroC : List Cls} {k : Cls} {kw : Kw}
    {attrs : List (Name × AttrSpec)} {a : Name} {v : Val} :
    (a, v) ∈ ownPlan env im mroC k kw attrs ↔
      ∃ sp, (a, sp) ∈ attrs ∧ qualifies im k a sp = true ∧ resolveVal env mroC kw a sp ≠ .missing ∧
        v = prepareVal env im a (resolveVal env mroC kw a sp) := by
  induction attrs with
  | nil => simp [ownPlan]
  | cons p r ih =>
    obtain ⟨b, sq⟩ := p
    simp only [ownPlan]
    split
    · rename_i hc
      simp only [Bool.and_eq_true, bne_iff_ne, ne_eq] at hc
      simp only [List.mem_cons, ih, Prod.mk.injEq]
      constructor
      · rintro (⟨rfl, rfl⟩ | ⟨sp, hm, hq, hr, hv⟩)
        · exact ⟨sq, Or.inl ⟨rfl, rfl⟩, hc.1, hc.2, rfl⟩
        · exact ⟨sp, Or.inr hm, hq, hr, hv⟩
      · rintro ⟨sp, (⟨rfl, rfl⟩ | hm), hq, hr, hv⟩
        · exact Or.inl ⟨rfl, hv⟩
        · exact Or.inr ⟨sp, hm, hq, hr, hv⟩
    · rename_i hc
      simp only [Bool.and_eq_true, bne_iff_ne, ne_eq, not_and, Decidable.not_not] at hc
      simp only [List.mem_cons, ih, Prod.mk.injEq]
      constructor
      · rintro ⟨sp, hm, hq, hr, hv⟩; exact ⟨sp, Or.inr hm, hq, hr, hv⟩
      · rintro ⟨sp, (⟨rfl, rfl⟩ | hm), hq, hr, hv⟩
        · exact absurd (hc hq) hr
        · exact ⟨sp, hm, hq, hr, hv⟩

/-- A plan depends on the keywords only through the values resolved for the names its class owns. -/
theorem ownPlan_congr (env : Env) (im : Meta) (mroC : List Cls) (k : Cls) (kw1 kw2 : Kw)
    (attrs : List (Name × AttrSpec))
    (h : ∀ a sp, (a, sp) ∈ attrs → qualifies im k a sp = true →
      resolveVal env mroC kw1 a sp = resolveVal env mroC kw2 a sp) :
    ownPlan env im mroC k kw1 attrs = ownPlan env im mroC k kw2 attrs := by
  induction attrs with
  | nil => rfl
  | cons p r ih =>
    obtain ⟨b, sq⟩ := p
    have ih' := ih (fun a sp hm hq => h a sp (List.mem_cons_of_mem _ hm) hq)
    simp only [ownPlan]
    by_cases hq : qualifies im k b sq = true
    · rw [h b sq List.mem_cons_self hq, ih']
    · simp only [Bool.not_eq_true] at hq
      simp [hq, ih']

theorem setAttr_ok (env : Env) (im : Meta) (s s1 : St) (a : Name) (v : Val)
    (h : setAttr env im s a v = (s1, none)) (hv : v ≠ .missing) :
    s1 = { fields := dictSet s.fields a (prepareVal env im a v), ovf := s.ovf,
           trace := s.trace ++ [Ev.set a (prepareVal env im a v)] } := by
  unfold setAttr at h
  have hp : prepareVal env im a v ≠ .missing := by rw [Ne, prepareVal_eq_missing]; exact hv
  simp only [hp, if_false] at h
  split at h
  · simp at h
  · split at h
    · rename_i hc
      simp only [Bool.and_eq_true, Option.isSome_iff_ne_none] at hc
      simp only [Prod.mk.injEq] at h
      exact absurd h.2 hc.2
    · split at h
      · simp only [Prod.mk.injEq, and_true] at h
        rw [← h]; simp [St.emit]
      · simp at h

/-- A successful pass of the own-attribute loop is the application of its plan. -/
theorem ownLoop_ok (env : Env) (im : Meta) (mroC : List Cls) (k : Cls) (kw : Kw)
    (attrs : List (Name × AttrSpec)) (s s' : St)
    (h : ownLoop env im mroC k kw attrs s = (s', none)) :
    s' = applyPlan s (ownPlan env im mroC k kw attrs) := by
  induction attrs generalizing s with
  | nil => simp [ownLoop] at h; simp [ownPlan, applyPlan_nil, h]
  | cons p r ih =>
    obtain ⟨a, sp⟩ := p
    simp only [ownLoop] at h
    split at h
    · -- not considered
      rename_i hc
      have hq : qualifies im k a sp = false := by
        unfold qualifies
        simp only [Bool.or_eq_true, Bool.not_eq_true', bne_iff_ne, ne_eq, beq_iff_eq] at hc
        rcases hc with (hc | hc) | hc
        · simp [hc]
        · simp [hc]
        · simp [hc]
      simp only [ownPlan, hq, Bool.false_and]
      exact ih s h
    · rename_i hc
      have hq : qualifies im k a sp = true := by
        unfold qualifies
        simp only [Bool.or_eq_true, Bool.not_eq_true', bne_iff_ne, ne_eq, beq_iff_eq, not_or,
          Bool.not_eq_false, Decidable.not_not] at hc
        simp [hc.1.1, hc.1.2, hc.2]
      have hres : (if kwGet kw a = Val.missing then lookupDefault env.classes sp a mroC else kwGet kw a)
          = resolveVal env mroC kw a sp := rfl
      simp only [hres] at h
      split at h
      · rename_i hv
        simp only [ownPlan, hq, hv, Bool.true_and, bne_self_eq_false]
        exact ih s h
      · rename_i hv
        have hv' : (resolveVal env mroC kw a sp != Val.missing) = true := by simpa using hv
        simp only [ownPlan, hq, hv', Bool.and_self, if_true]
        -- the write itself
        cases hset : setAttr env im s a (resolveVal env mroC kw a sp) with
        | mk s1 o =>
          rw [hset] at h
          cases o with
          | some e => simp at h
          | none =>
            simp only at h
            have hs1 := setAttr_ok env im s s1 a _ hset hv
            rw [ih _ h, hs1]
            simp [applyPlan, applyFields, List.append_assoc]


/-! ### signature binding -/

theorem dictErase_eq_filter {β : Type} (d : List (Name × β)) (a : Name) :
    dictErase d a = d.filter (fun q => q.1 != a) := by
  induction d with
  | nil => rfl
  | cons p r ih =>
    obtain ⟨k, w⟩ := p
    simp only [dictErase, List.filter_cons, ih]
    by_cases hk : k = a <;> simp [hk]

def givenVal (m : Meta) (pos : List Val) (kw : Kw) (a : Name) : Val :=
  if some a = m.key then (match pos with | v :: _ => v | [] => kwGet kw a) else kwGet kw a

def boundKw (m : Meta) (pos : List Val) (kw : Kw) : Kw :=
  match m.key with
  | none => kw
  | some kn => (kn, givenVal m pos kw kn) :: dictErase kw kn

theorem keyValue_ok {m : Meta} {kn : Name} {pos : List Val} {kw : Kw} {v : Val}
    (h : keyValue m kn pos kw = .ok v) (hk : m.key = some kn) : v = givenVal m pos kw kn := by
  unfold keyValue at h
  unfold givenVal
  simp only [hk, if_true]
  cases pos with
  | cons w ws =>
    simp only at h ⊢
    split at h
    · cases h
    · cases h; rfl
  | nil =>
    simp only at h ⊢
    cases hw : assoc kw kn with
    | some w => simp only [hw] at h; cases h; simp [kwGet, hw]
    | none =>
      simp only [hw] at h
      split at h
      · cases h; simp [kwGet, hw]
      · cases h

theorem keyValue_error {m : Meta} {kn : Name} {pos : List Val} {kw : Kw} {e : Err}
    (h : keyValue m kn pos kw = .error e) : e = .typeError := by
  unfold keyValue at h
  cases pos with
  | cons w ws => simp only at h; split at h <;> cases h; rfl
  | nil =>
    simp only at h
    split at h
    · cases h
    · split at h <;> cases h; rfl

/-- The keywords that `validate_attrs` inspects. -/
def restKw (m : Meta) (kw : Kw) : Kw :=
  match m.key with
  | none => kw
  | some kn => dictErase kw kn

theorem bindGenerated_ok {m : Meta} {pos : List Val} {kw kwargs : Kw}
    (h : bindGenerated m pos kw = .ok kwargs) : kwargs = boundKw m pos kw := by
  unfold bindGenerated at h
  unfold boundKw
  cases hk : m.key with
  | none =>
    simp only [hk] at h
    split at h
    · cases h
    · split at h
      · cases h
      · cases h; rfl
  | some kn =>
    simp only [hk] at h
    split at h
    · cases h
    · cases hv : keyValue m kn pos kw with
      | error e => simp [hv] at h
      | ok v =>
        simp only [hv] at h
        split at h
        · cases h
        · cases h; rw [keyValue_ok hv hk]

theorem bindGenerated_ok_valid {m : Meta} {pos : List Val} {kw kwargs : Kw}
    (h : bindGenerated m pos kw = .ok kwargs) : invalidKw m (restKw m kw) = false := by
  unfold bindGenerated at h
  unfold restKw
  cases hk : m.key with
  | none =>
    simp only [hk] at h ⊢
    split at h
    · cases h
    · split at h
      · cases h
      · rename_i hv; simpa using hv
  | some kn =>
    simp only [hk] at h ⊢
    split at h
    · cases h
    · cases hv : keyValue m kn pos kw with
      | error e => simp [hv] at h
      | ok v =>
        simp only [hv] at h
        split at h
        · cases h
        · rename_i hi; simpa using hi

theorem bindGenerated_error {m : Meta} {pos : List Val} {kw : Kw} {e : Err}
    (h : bindGenerated m pos kw = .error e) : e = .typeError := by
  unfold bindGenerated at h
  cases hk : m.key with
  | none =>
    simp only [hk] at h
    split at h
    · cases h; rfl
    · split at h <;> cases h; rfl
  | some kn =>
    simp only [hk] at h
    split at h
    · cases h; rfl
    · cases hv : keyValue m kn pos kw with
      | error e' => simp only [hv] at h; cases h; exact keyValue_error hv
      | ok v =>
        simp only [hv] at h
        split at h <;> cases h; rfl

theorem kwGet_boundKw (m : Meta) (pos : List Val) (kw : Kw) (a : Name) :
    kwGet (boundKw m pos kw) a = givenVal m pos kw a := by
  unfold boundKw
  cases hk : m.key with
  | none => simp [givenVal, hk]
  | some kn =>
    by_cases ha : kn = a
    · subst ha; simp [kwGet, assoc, givenVal, hk]
    · have hne : ¬ (some a = some kn) := by intro e; cases e; exact ha rfl
      simp only [kwGet, assoc, ha, if_false, assoc_dictErase, givenVal, hk, hne]

theorem givenVal_nil (m : Meta) (kw : Kw) (a : Name) : givenVal m [] kw a = kwGet kw a := by
  unfold givenVal; split <;> rfl

/-! ### the parents loop -/

/-- Is attribute `b` forwarded to the constructor of parent `p`? -/
def qualP (im : Meta) (p : Cls) (b : Name) : Bool :=
  match assoc im.attrs b with
  | some isp => isp.owner == p && isp.init && !(some b == im.ovf)
  | none => false

def inNames {β : Type} (attrs : List (Name × β)) (b : Name) : Bool := attrs.any (fun x => x.1 == b)

theorem inNames_iff {β : Type} {attrs : List (Name × β)} {b : Name} :
    inNames attrs b = true ↔ b ∈ attrs.map (·.1) := by
  simp only [inNames, List.any_eq_true, List.mem_map, beq_iff_eq]

theorem inNames_cons {β : Type} (x : Name × β) (r : List (Name × β)) (b : Name) :
    inNames (x :: r) b = (x.1 == b || inNames r b) := by
  simp [inNames]

theorem buildPk_kw (cs : List ClsInfo) (im : Meta) (mroC : List Cls) (p : Cls)
    (attrs : List (Name × AttrSpec)) (kw pk kw' pk' : Kw)
    (h : buildPk cs im mroC p attrs kw pk = .ok (kw', pk')) :
    kw' = kw.filter (fun q => !(inNames attrs q.1 && qualP im p q.1)) := by
  induction attrs generalizing kw pk with
  | nil =>
    simp only [buildPk] at h; cases h
    have : (fun q : Name × Val => !(inNames ([] : List (Name × AttrSpec)) q.1 && qualP im p q.1)) = fun _ => true := by
      funext q; simp [inNames]
    rw [this]; exact (List.filter_eq_self.2 (fun _ _ => rfl)).symm
  | cons x r ih =>
    obtain ⟨a, sx⟩ := x
    simp only [buildPk] at h
    cases hi : assoc im.attrs a with
    | none => simp [hi] at h
    | some isp =>
      simp only [hi] at h
      have hq : qualP im p a = (isp.owner == p && isp.init && !(some a == im.ovf)) := by
        simp [qualP, hi]
      have step : ∀ kw1 pk1, qualP im p a = false → buildPk cs im mroC p r kw1 pk1 = .ok (kw', pk') →
          kw' = kw1.filter (fun q => !(inNames ((a, sx) :: r) q.1 && qualP im p q.1)) := by
        intro kw1 pk1 hqf hb
        rw [ih kw1 pk1 hb]
        apply List.filter_congr
        intro q _
        rw [inNames_cons]
        by_cases hqa : a = q.1
        · rw [← hqa]; simp [hqf]
        · have hbf : (a == q.1) = false := beq_eq_false_iff_ne.2 hqa
          simp [hbf]
      split at h
      · rename_i ho
        exact step kw pk (by rw [hq]; simp at ho; simp [ho]) h
      · rename_i ho
        split at h
        · rename_i hin
          exact step kw pk (by rw [hq]; simp at hin; simp [hin]) h
        · rename_i hin
          split at h
          · rename_i hov
            exact step kw pk (by rw [hq]; simp at hov; simp [hov]) h
          · rename_i hov
            have hqt : qualP im p a = true := by
              rw [hq]; simp at ho hin hov; simp [ho, hin, hov]
            split at h
            · rename_i v hv
              rw [ih _ _ h, dictErase_eq_filter, List.filter_filter]
              apply List.filter_congr
              intro q _
              rw [inNames_cons]
              by_cases hqa : a = q.1
              · rw [← hqa]; simp [hqt]
              · have hqa' : ¬ q.1 = a := fun e => hqa e.symm
                have hbf : (a == q.1) = false := beq_eq_false_iff_ne.2 hqa
                simp [hbf, hqa']
            · rename_i hv
              have hnot : ∀ q ∈ kw, a ≠ q.1 := by
                intro q hqm e
                have : a ∈ kw.map (·.1) := List.mem_map.2 ⟨q, hqm, e.symm⟩
                exact (assoc_eq_none_iff.1 hv) this
              have fin : ∀ pk1, buildPk cs im mroC p r kw pk1 = .ok (kw', pk') →
                  kw' = kw.filter (fun q => !(inNames ((a, sx) :: r) q.1 && qualP im p q.1)) := by
                intro pk1 hb
                rw [ih kw pk1 hb]
                apply List.filter_congr
                intro q hqm
                rw [inNames_cons]
                have hbf : (a == q.1) = false := beq_eq_false_iff_ne.2 (hnot q hqm)
                simp [hbf]
              split at h
              · exact fin _ h
              · exact fin _ h

theorem buildPk_pk (cs : List ClsInfo) (im : Meta) (mroC : List Cls) (p : Cls)
    (attrs : List (Name × AttrSpec)) (kw pk kw' pk' : Kw)
    (hn : (attrs.map (·.1)).Nodup)
    (hpk : ∀ b, b ∈ attrs.map (·.1) → assoc pk b = none)
    (h : buildPk cs im mroC p attrs kw pk = .ok (kw', pk')) :
    ∀ b isp, b ∈ attrs.map (·.1) → assoc im.attrs b = some isp → qualP im p b = true →
      kwGet pk' b = (match assoc kw b with
        | some v => v
        | none => lookupDefault cs isp b mroC) := by
  induction attrs generalizing kw pk with
  | nil => intro b isp hb; cases hb
  | cons x r ih =>
    obtain ⟨a, sx⟩ := x
    simp only [List.map_cons, List.nodup_cons] at hn
    intro b isp hb hisp hqb
    simp only [buildPk] at h
    cases hi : assoc im.attrs a with
    | none => simp [hi] at h
    | some isa =>
      simp only [hi] at h
      have hq : qualP im p a = (isa.owner == p && isa.init && !(some a == im.ovf)) := by
        simp [qualP, hi]
      have hpk_r : ∀ pk1 : Kw, (∀ b, b ≠ a → assoc pk1 b = assoc pk b) →
          ∀ b, b ∈ r.map (·.1) → assoc pk1 b = none := by
        intro pk1 hsame b hbr
        have : b ≠ a := by intro e; subst e; exact hn.1 hbr
        rw [hsame b this]; exact hpk b (by simp [hbr])
      -- skipping `a`: then `b ≠ a`
      have skip : qualP im p a = false → buildPk cs im mroC p r kw pk = .ok (kw', pk') →
          kwGet pk' b = (match assoc kw b with | some v => v | none => lookupDefault cs isp b mroC) := by
        intro hqf hb'
        have hba : b ≠ a := by intro e; subst e; rw [hqf] at hqb; cases hqb
        have hbr : b ∈ r.map (·.1) := by
          simp only [List.map_cons, List.mem_cons] at hb
          rcases hb with e | e
          · exact absurd e hba
          · exact e
        exact ih kw pk hn.2 (hpk_r pk (fun _ _ => rfl)) hb' b isp hbr hisp hqb
      split at h
      · rename_i ho
        exact skip (by rw [hq]; simp at ho; simp [ho]) h
      · rename_i ho
        split at h
        · rename_i hin
          exact skip (by rw [hq]; simp at hin; simp [hin]) h
        · rename_i hin
          split at h
          · rename_i hov
            exact skip (by rw [hq]; simp at hov; simp [hov]) h
          · rename_i hov
            -- `a` is forwarded
            have tail : ∀ kw1 pk1 : Kw, (∀ c, c ≠ a → assoc kw1 c = assoc kw c) →
                (∀ c, c ≠ a → assoc pk1 c = assoc pk c) →
                buildPk cs im mroC p r kw1 pk1 = .ok (kw', pk') → b ≠ a →
                kwGet pk' b = (match assoc kw b with | some v => v | none => lookupDefault cs isp b mroC) := by
              intro kw1 pk1 hkw1 hpk1 hb' hba
              have hbr : b ∈ r.map (·.1) := by
                simp only [List.map_cons, List.mem_cons] at hb
                rcases hb with e | e
                · exact absurd e hba
                · exact e
              have := ih kw1 pk1 hn.2 (hpk_r pk1 hpk1) hb' b isp hbr hisp hqb
              rw [this, hkw1 b hba]
            -- the final dict keeps the entry of `a` (no later attribute is named `a`)
            have keep : ∀ (r' : List (Name × AttrSpec)) (kw1 pk1 kw2 pk2 : Kw), a ∉ r'.map (·.1) →
                buildPk cs im mroC p r' kw1 pk1 = .ok (kw2, pk2) → assoc pk2 a = assoc pk1 a := by
              intro r'
              induction r' with
              | nil => intro kw1 pk1 kw2 pk2 _ hb'; simp only [buildPk] at hb'; cases hb'; rfl
              | cons y r'' ih' =>
                obtain ⟨c, sy⟩ := y
                intro kw1 pk1 kw2 pk2 hnot hb'
                simp only [List.map_cons, List.mem_cons, not_or] at hnot
                simp only [buildPk] at hb'
                split at hb'
                · cases hb'
                · split at hb'
                  · exact ih' _ _ _ _ hnot.2 hb'
                  · split at hb'
                    · exact ih' _ _ _ _ hnot.2 hb'
                    · split at hb'
                      · exact ih' _ _ _ _ hnot.2 hb'
                      · split at hb'
                        · have hca : ¬ c = a := fun e => hnot.1 e.symm
                          rw [ih' _ _ _ _ hnot.2 hb', assoc_dictSet]
                          simp [hca]
                        · split at hb'
                          · have hca : ¬ c = a := fun e => hnot.1 e.symm
                            rw [ih' _ _ _ _ hnot.2 hb', assoc_dictSet]
                            simp [hca]
                          · exact ih' _ _ _ _ hnot.2 hb'
            by_cases hba : b = a
            · subst hba
              have hisp' : isa = isp := by rw [hi] at hisp; cases hisp; rfl
              subst hisp'
              split at h
              · rename_i v hv
                have := keep r _ _ _ _ hn.1 h
                rw [assoc_dictSet] at this
                simp only [if_true] at this
                simp [kwGet, this, hv]
              · rename_i hv
                split at h
                · rename_i hd
                  have := keep r _ _ _ _ hn.1 h
                  rw [assoc_dictSet] at this
                  simp only [if_true] at this
                  simp [kwGet, this, hv]
                · rename_i hd
                  have := keep r _ _ _ _ hn.1 h
                  rw [hpk b (by simp)] at this
                  simp only [bne_iff_ne, ne_eq, Decidable.not_not] at hd
                  simp [kwGet, this, hv, hd]
            · split at h
              · rename_i v hv
                exact tail _ _ (fun c hc => by
                    have hac : ¬ a = c := fun e => hc e.symm
                    rw [assoc_dictErase]; simp [hac])
                  (fun c hc => by
                    have hac : ¬ a = c := fun e => hc e.symm
                    rw [assoc_dictSet]; simp [hac]) h hba
              · rename_i hv
                split at h
                · exact tail _ _ (fun _ _ => rfl)
                    (fun c hc => by
                      have hac : ¬ a = c := fun e => hc e.symm
                      rw [assoc_dictSet]; simp [hac]) h hba
                · exact tail _ _ (fun _ _ => rfl) (fun _ _ => rfl) h hba



/-- What the parents loop needs to know about a decorated parent `p` with a generated constructor. -/
structure GenParent (env : Env) (im : Meta) (p : Cls) (pm : Meta) : Prop where
  info : ∃ i, firstSpecCls env.classes (mroOf env.classes p) = some i ∧ i.cdef.name = p ∧
          i.«meta» = some pm ∧ i.cdef.hand = none
  notOwner : im.owner ≠ p
  nodup : (pm.attrs.map (·.1)).Nodup
  lists : ∀ a sp, (a, sp) ∈ im.attrs → sp.owner = p → a ∈ pm.attrs.map (·.1)

theorem callParent_ok (env : Env) (im : Meta) (mroC : List Cls) (p : Cls) (pm : Meta) (pk : Kw) (s s' : St)
    (hg : GenParent env im p pm)
    (h : callParent env im mroC p pk s = (s', none)) :
    s' = applyPlan (s.emit (.ctor p)) (ownPlan env im mroC p (boundKw pm [] pk) im.attrs) := by
  obtain ⟨i, hfs, hname, hmeta, hhand⟩ := hg.info
  unfold callParent at h
  simp only [hfs, hhand, hmeta] at h
  cases hb : bindGenerated pm [] pk with
  | error e => simp [hb] at h
  | ok kwargs =>
    simp only [hb, hname] at h
    have hno : ¬ im.owner = p := hg.notOwner
    simp only [hno, if_false] at h
    rw [bindGenerated_ok hb] at h
    exact ownLoop_ok _ _ _ _ _ _ _ _ h

/-- The parents loop without error handling. -/
def parentsFold (env : Env) (im : Meta) (mroC : List Cls) : List Cls → Kw → St → Kw × St
  | [], kw, s => (kw, s)
  | p :: ps, kw, s =>
    match metaOf env.classes p with
    | none => parentsFold env im mroC ps kw s
    | some pm =>
      parentsFold env im mroC ps (kw.filter (fun q => !(inNames pm.attrs q.1 && qualP im p q.1)))
        (applyPlan (s.emit (.ctor p)) (ownPlan env im mroC p kw im.attrs))

theorem kwGet_dictSet_missing (pk : Kw) (kn a : Name) (h : hasName pk kn = false) :
    kwGet (dictSet pk kn .missing) a = kwGet pk a := by
  unfold kwGet
  rw [assoc_dictSet]
  by_cases e : kn = a
  · subst e
    unfold hasName at h
    cases hh : assoc pk kn with
    | none => simp
    | some v => simp [hh] at h
  · simp [e]

theorem parentsLoop_ok (env : Env) (im : Meta) (mroC : List Cls) (ps : List Cls) (kw kw' : Kw) (s s' : St)
    (hn : (im.attrs.map (·.1)).Nodup)
    (hg : ∀ p ∈ ps, ∀ pm, metaOf env.classes p = some pm → GenParent env im p pm)
    (h : parentsLoop env im mroC ps kw s = (kw', (s', none))) :
    (kw', s') = parentsFold env im mroC ps kw s := by
  induction ps generalizing kw s with
  | nil => simp only [parentsLoop] at h; cases h; rfl
  | cons p ps ih =>
    have hg' : ∀ q ∈ ps, ∀ pm, metaOf env.classes q = some pm → GenParent env im q pm :=
      fun q hq => hg q (List.mem_cons_of_mem _ hq)
    simp only [parentsLoop] at h
    cases hm : metaOf env.classes p with
    | none =>
      simp only [hm] at h
      simp only [parentsFold, hm]
      exact ih kw s hg' h
    | some pm =>
      simp only [hm] at h
      have gp := hg p List.mem_cons_self pm hm
      cases hb : buildPk env.classes im mroC p pm.attrs kw [] with
      | error e => simp [hb] at h
      | ok r =>
        obtain ⟨kw1, pk⟩ := r
        simp only [hb] at h
        have hkw1 := buildPk_kw _ _ _ _ _ _ _ _ _ hb
        have hpk := buildPk_pk _ _ _ _ _ _ _ _ _ gp.nodup (fun b _ => rfl) hb
        -- the key clause does not change any lookup
        generalize hpkf : addKeyMissing pk pm.key = pkf at h
        have hget : ∀ a, kwGet pkf a = kwGet pk a := by
          intro a
          rw [← hpkf]
          unfold addKeyMissing
          cases pm.key with
          | none => rfl
          | some kn =>
            simp only
            split
            · rfl
            · rename_i hh
              exact kwGet_dictSet_missing pk kn a (by simpa using hh)
        cases hc : callParent env im mroC p pkf s with
        | mk s1 o =>
          rw [hc] at h
          cases o with
          | some e => simp at h
          | none =>
            simp only at h
            have hs1 := callParent_ok env im mroC p pm pkf s s1 gp hc
            have hplan : ownPlan env im mroC p (boundKw pm [] pkf) im.attrs =
                ownPlan env im mroC p kw im.attrs := by
              apply ownPlan_congr
              intro a sp hmem hq
              have hassoc : assoc im.attrs a = some sp := assoc_eq_some_of_mem hn hmem
              have hq' : sp.init = true ∧ sp.owner = p ∧ ¬ (some a = im.ovf) := by
                unfold qualifies at hq
                simp only [Bool.and_eq_true, beq_iff_eq, Bool.not_eq_true', beq_eq_false_iff_ne, ne_eq] at hq
                exact ⟨hq.1.1, hq.1.2, hq.2⟩
              have hqp : qualP im p a = true := by
                unfold qualP; rw [hassoc]
                simp [hq'.1, hq'.2.1, hq'.2.2]
              have hin := gp.lists a sp hmem hq'.2.1
              have := hpk a sp hin hassoc hqp
              unfold resolveVal
              rw [kwGet_boundKw, givenVal_nil, hget, this]
              cases hk : assoc kw a with
              | some v => simp [kwGet, hk]
              | none =>
                simp only [kwGet, hk, Option.getD_none]
                split <;> simp_all
            rw [hplan] at hs1
            simp only [parentsFold, hm]
            rw [← hkw1, ← hs1]
            exact ih kw1 s1 hg' h

def ovfFilter (im : Meta) (o : Name) (q : Name × Val) : Bool :=
  match assoc im.attrs q.1 with
  | none => true
  | some sp => !sp.init || q.1 == o

def withOvf (im : Meta) (kw' : Kw) (s : St) : St :=
  match im.ovf with
  | some o => { (s.emit (.setOvf o)) with ovf := some (kw'.filter (ovfFilter im o)) }
  | none => s

def withPost (post : Option Cls) (s : St) : St :=
  match post with
  | some pc => s.emit (.post pc)
  | none => s

theorem withOvf_fields (im : Meta) (kw' : Kw) (s : St) : (withOvf im kw' s).fields = s.fields := by
  unfold withOvf; cases im.ovf <;> rfl
theorem withPost_fields (post : Option Cls) (s : St) : (withPost post s).fields = s.fields := by
  unfold withPost; cases post <;> rfl
theorem withPost_ovf (post : Option Cls) (s : St) : (withPost post s).ovf = s.ovf := by
  unfold withPost; cases post <;> rfl

/-- Closed form of a successful `InitMethod.init` in the instance's own spec class. -/
def finalState (env : Env) (im : Meta) (mroC : List Cls) (k : ClsInfo) (kwargs : Kw) : St :=
  let r := parentsFold env im mroC k.cdef.mro.tail.reverse kwargs (St.empty.emit (.ctor k.cdef.name))
  withPost (postOf env mroC) (withOvf im r.1 (applyPlan r.2 (ownPlan env im mroC k.cdef.name r.1 im.attrs)))

theorem initOwner_ok (env : Env) (im : Meta) (mroC : List Cls) (k : ClsInfo) (kwargs : Kw) (s : St)
    (hn : (im.attrs.map (·.1)).Nodup)
    (hg : ∀ p ∈ k.cdef.mro.tail.reverse, ∀ pm, metaOf env.classes p = some pm → GenParent env im p pm)
    (h : initOwner env im mroC k kwargs St.empty = (s, none)) :
    s = finalState env im mroC k kwargs := by
  unfold initOwner at h
  simp only at h
  cases hp : parentsLoop env im mroC k.cdef.mro.tail.reverse kwargs (St.empty.emit (.ctor k.cdef.name)) with
  | mk kw' r =>
    obtain ⟨s1, o⟩ := r
    rw [hp] at h
    cases o with
    | some e => simp at h
    | none =>
      simp only at h
      have hpf := parentsLoop_ok env im mroC _ _ _ _ _ hn hg hp
      cases ho : ownLoop env im mroC k.cdef.name kw' im.attrs s1 with
      | mk s2 o2 =>
        rw [ho] at h
        cases o2 with
        | some e => simp at h
        | none =>
          simp only [Prod.mk.injEq, and_true] at h
          have hs2 := ownLoop_ok _ _ _ _ _ _ _ _ ho
          unfold finalState withPost withOvf
          rw [← hpf]
          simp only
          rw [← hs2, ← h]
          rfl

theorem assoc_filter_keep {β : Type} (d : List (Name × β)) (f : Name × β → Bool) (a : Name)
    (h : ∀ q ∈ d, q.1 = a → f q = true) : assoc (d.filter f) a = assoc d a := by
  induction d with
  | nil => rfl
  | cons x r ih =>
    obtain ⟨k, w⟩ := x
    have ih' := ih (fun q hq => h q (List.mem_cons_of_mem _ hq))
    by_cases hk : k = a
    · have := h (k, w) List.mem_cons_self hk
      subst hk
      simp [List.filter_cons, this, assoc]
    · cases hf : f (k, w) <;> simp [List.filter_cons, hf, assoc, hk, ih']

theorem flatMap_congr' {α β : Type} (l : List α) (f g : α → List β) (h : ∀ x ∈ l, f x = g x) :
    l.flatMap f = l.flatMap g := by
  induction l with
  | nil => rfl
  | cons x r ih =>
    simp only [List.flatMap_cons]
    rw [h x List.mem_cons_self, ih (fun y hy => h y (List.mem_cons_of_mem _ hy))]

def isSpec (env : Env) (p : Cls) : Bool := (metaOf env.classes p).isSome

def parentsPlan (env : Env) (im : Meta) (mroC : List Cls) (kw : Kw) (ps : List Cls) : Plan :=
  ps.flatMap (fun p => if isSpec env p then ownPlan env im mroC p kw im.attrs else [])

def parentsTrace (env : Env) (im : Meta) (mroC : List Cls) (kw : Kw) (ps : List Cls) : List Ev :=
  ps.flatMap (fun p => if isSpec env p then
    Ev.ctor p :: (ownPlan env im mroC p kw im.attrs).map (fun q => Ev.set q.1 q.2) else [])

def poppedBy (env : Env) (im : Meta) (ps : List Cls) (b : Name) : Bool :=
  ps.any (fun p => match metaOf env.classes p with
    | some pm => inNames pm.attrs b && qualP im p b
    | none => false)

theorem qualifies_qualP {im : Meta} {k : Cls} {a : Name} {sp : AttrSpec}
    (hassoc : assoc im.attrs a = some sp) : qualP im k a = qualifies im k a sp := by
  unfold qualP qualifies; rw [hassoc]
  cases h1 : sp.init <;> cases h2 : (sp.owner == k) <;> simp [h1, h2]

/-- Keywords for names another class owns do not matter to the plan of `k`. -/
theorem ownPlan_filter (env : Env) (im : Meta) (mroC : List Cls) (k : Cls) (kw : Kw) (f : Name × Val → Bool)
    (hn : (im.attrs.map (·.1)).Nodup)
    (hf : ∀ q ∈ kw, qualP im k q.1 = true → f q = true) :
    ownPlan env im mroC k (kw.filter f) im.attrs = ownPlan env im mroC k kw im.attrs := by
  apply ownPlan_congr
  intro a sp hm hq
  have hassoc := assoc_eq_some_of_mem hn hm
  unfold resolveVal kwGet
  rw [assoc_filter_keep]
  intro q hqm hqa
  apply hf q hqm
  rw [hqa, qualifies_qualP hassoc]; exact hq

theorem qualP_owner {im : Meta} {p p' : Cls} {a : Name} (h : qualP im p a = true) (h' : qualP im p' a = true) :
    p = p' := by
  unfold qualP at h h'
  cases ha : assoc im.attrs a with
  | none => simp [ha] at h
  | some sp =>
    simp only [ha, Bool.and_eq_true, beq_iff_eq] at h h'
    rw [← h.1.1, ← h'.1.1]

theorem parentsFold_spec (env : Env) (im : Meta) (mroC : List Cls) (ps : List Cls) (kw : Kw) (s : St)
    (hn : (im.attrs.map (·.1)).Nodup) (hps : ps.Nodup) :
    parentsFold env im mroC ps kw s =
      (kw.filter (fun q => !poppedBy env im ps q.1),
       { fields := applyFields s.fields (parentsPlan env im mroC kw ps), ovf := s.ovf,
         trace := s.trace ++ parentsTrace env im mroC kw ps }) := by
  induction ps generalizing kw s with
  | nil =>
    simp only [parentsFold, parentsPlan, parentsTrace, poppedBy, List.flatMap_nil, List.any_nil,
      Bool.not_false, applyFields, List.foldl_nil, List.append_nil]
    rw [List.filter_eq_self.2 (fun _ _ => rfl)]
  | cons p ps ih =>
    simp only [List.nodup_cons] at hps
    simp only [parentsFold]
    cases hm : metaOf env.classes p with
    | none =>
      simp only
      rw [ih kw s hps.2]
      have h1 : parentsPlan env im mroC kw (p :: ps) = parentsPlan env im mroC kw ps := by
        simp [parentsPlan, isSpec, hm]
      have h2 : parentsTrace env im mroC kw (p :: ps) = parentsTrace env im mroC kw ps := by
        simp [parentsTrace, isSpec, hm]
      have h3 : ∀ b, poppedBy env im (p :: ps) b = poppedBy env im ps b := by
        intro b; simp [poppedBy, hm]
      simp only [h1, h2, h3]
    | some pm =>
      simp only
      rw [ih _ _ hps.2]
      -- later parents do not see what `p` popped
      have hplan : ∀ q ∈ ps, ownPlan env im mroC q
          (kw.filter (fun x => !(inNames pm.attrs x.1 && qualP im p x.1))) im.attrs =
          ownPlan env im mroC q kw im.attrs := by
        intro q hq
        apply ownPlan_filter _ _ _ _ _ _ hn
        intro x _ hx
        have hne : ¬ qualP im p x.1 = true := by
          intro hp'
          have := qualP_owner hp' hx
          subst this
          exact hps.1 hq
        simp [hne]
      have h1 : parentsPlan env im mroC (kw.filter (fun x => !(inNames pm.attrs x.1 && qualP im p x.1))) ps =
          parentsPlan env im mroC kw ps := by
        unfold parentsPlan
        apply flatMap_congr'
        intro q hq; rw [hplan q hq]
      have h2 : parentsTrace env im mroC (kw.filter (fun x => !(inNames pm.attrs x.1 && qualP im p x.1))) ps =
          parentsTrace env im mroC kw ps := by
        unfold parentsTrace
        apply flatMap_congr'
        intro q hq; rw [hplan q hq]
      rw [h1, h2]
      have h3 : parentsPlan env im mroC kw (p :: ps) =
          ownPlan env im mroC p kw im.attrs ++ parentsPlan env im mroC kw ps := by
        simp [parentsPlan, isSpec, hm]
      have h4 : parentsTrace env im mroC kw (p :: ps) =
          Ev.ctor p :: (ownPlan env im mroC p kw im.attrs).map (fun q => Ev.set q.1 q.2) ++
            parentsTrace env im mroC kw ps := by
        simp [parentsTrace, isSpec, hm]
      rw [h3, h4, List.filter_filter]
      congr 1
      · apply List.filter_congr
        intro x _
        simp [poppedBy, hm, Bool.and_comm]
      · simp [applyPlan, St.emit, applyFields_append, List.append_assoc]

/-! ### well-formedness, unpacked -/


/-- `wfCall` unpacked into propositions. -/
structure WFP (env : Env) (c : Cls) (k : ClsInfo) (im : Meta) : Prop where
  hinst : instInfo env c = some k
  hmeta : k.«meta» = some im
  owner : im.owner = k.cdef.name
  head : k.cdef.mro.head? = some k.cdef.name
  nodupK : k.cdef.mro.Nodup
  nodupC : (mroOf env.classes c).Nodup
  nodupA : (im.attrs.map (·.1)).Nodup
  nodupCls : (env.classes.map (·.cdef.name)).Nodup
  dicts : ∀ kk ∈ mroOf env.classes c ++ k.cdef.mro, ∃ i, findCls env.classes kk = some i ∧
            i.dict = (bodyDict i.cdef).map (fun q => (q.1, q.2.lift))
  parents : ∀ p ∈ k.cdef.mro.tail, ∀ pm, metaOf env.classes p = some pm →
      pm.owner = p ∧ (∀ q ∈ pm.attrs, hasName im.attrs q.1 = true) ∧
      (pm.attrs.map (·.1)).Nodup ∧ (mroOf env.classes p).head? = some p
  attrs : ∀ q ∈ im.attrs,
      wfAttr true env.classes (mroOf env.classes c) k.cdef.mro k.cdef.name q = true
  key : ∀ kn, im.key = some kn → ∃ sp, assoc im.attrs kn = some sp ∧ sp.init = true ∧ im.ovf ≠ some kn ∧
      (sp.hasDefault = (nearestDefault env.classes (mroOf env.classes c) kn != .missing))
  preps : ∀ q ∈ im.attrs, q.2.init = true → wfPrep env.classes (mroOf env.classes c) q = true

theorem wfCall_spec {env : Env} {c : Cls} (h : wfCall env c = true) : ∃ k im, WFP env c k im := by
  unfold wfCall wfCallG at h
  simp only at h
  cases hi : instInfo env c with
  | none => simp [hi] at h
  | some k =>
    simp only [hi] at h
    cases hm : k.«meta» with
    | none => simp [hm] at h
    | some im =>
      simp only [hm, Bool.and_eq_true, beq_iff_eq, decide_eq_true_eq, List.all_eq_true] at h
      obtain ⟨⟨⟨⟨⟨⟨⟨⟨⟨⟨h1, h2⟩, h3⟩, h4⟩, h5⟩, h6⟩, h7⟩, h8⟩, h9⟩, h10⟩, h11⟩ := h
      refine ⟨k, im, ⟨hi, hm, h1, h2, h3, h4, h5, h6, ?_, ?_, h9, ?_, ?_⟩⟩
      · intro kk hkk
        have := h7 kk hkk
        cases hf : findCls env.classes kk with
        | none => simp [hf] at this
        | some i => simp only [hf, beq_iff_eq] at this; exact ⟨i, rfl, this⟩
      · intro p hp pm hpm
        have := h8 p hp
        simp only [hpm, Bool.and_eq_true, beq_iff_eq, decide_eq_true_eq, List.all_eq_true] at this
        exact ⟨this.1.1.1, this.1.1.2, this.1.2, this.2⟩
      · intro kn hkn
        simp only [hkn] at h10
        cases ha : assoc im.attrs kn with
        | none => simp [ha] at h10
        | some sp =>
          simp only [ha, Bool.and_eq_true, beq_iff_eq, bne_iff_ne, ne_eq, Bool.not_true, Bool.false_or] at h10
          exact ⟨sp, rfl, h10.1.1, h10.1.2, h10.2⟩
      · intro q hq hinit
        simp only [Bool.not_true, Bool.false_or, List.all_eq_true] at h11
        have := h11 q hq
        simpa [hinit] using this



theorem findCls_name {cs : List ClsInfo} {p : Cls} {i : ClsInfo} (h : findCls cs p = some i) :
    i.cdef.name = p := by
  unfold findCls at h
  have := List.find?_some h
  simpa using this

theorem metaOf_some {cs : List ClsInfo} {p : Cls} {pm : Meta} (h : metaOf cs p = some pm) :
    ∃ i, findCls cs p = some i ∧ i.«meta» = some pm := by
  unfold metaOf at h
  cases hf : findCls cs p with
  | none => simp [hf] at h
  | some i => simp only [hf, Option.bind_some] at h; exact ⟨i, rfl, h⟩

theorem mro_eq_cons {l : List Cls} {x : Cls} (h : l.head? = some x) : l = x :: l.tail := by
  cases l with
  | nil => simp at h
  | cons y r => simp at h; subst h; rfl

theorem WFP.tail_ne {env : Env} {c : Cls} {k : ClsInfo} {im : Meta} (w : WFP env c k im)
    {p : Cls} (hp : p ∈ k.cdef.mro.tail) : p ≠ k.cdef.name := by
  have hm := mro_eq_cons w.head
  have hn := w.nodupK
  rw [hm] at hn
  simp only [List.nodup_cons] at hn
  intro e; subst e; exact hn.1 hp

theorem WFP.genParent {env : Env} {c : Cls} {k : ClsInfo} {im : Meta} (w : WFP env c k im)
    (hg : allGenerated env c = true) {p : Cls} (hp : p ∈ k.cdef.mro.tail) {pm : Meta}
    (hpm : metaOf env.classes p = some pm) : GenParent env im p pm := by
  obtain ⟨i, hfi, hmi⟩ := metaOf_some hpm
  obtain ⟨hown, hlists, hnd, hhead⟩ := w.parents p hp pm hpm
  have hmro : mroOf env.classes p = i.cdef.mro := by simp [mroOf, hfi]
  refine ⟨⟨i, ?_, findCls_name hfi, hmi, ?_⟩, ?_, hnd, ?_⟩
  · rw [mro_eq_cons hhead]
    simp [firstSpecCls, hfi, hmi]
  · unfold allGenerated at hg
    rw [w.hinst] at hg
    simp only [Bool.and_eq_true, List.all_eq_true] at hg
    have hpk : p ∈ k.cdef.mro := List.mem_of_mem_tail hp
    have := hg.2 p hpk
    simpa [hfi] using this
  · rw [w.owner]; exact fun e => w.tail_ne hp e.symm
  · intro a sp hmem hso
    have := w.attrs (a, sp) hmem
    unfold wfAttr at this
    simp only [Bool.and_eq_true, Bool.or_eq_true, beq_iff_eq] at this
    have h1 := this.1.1.1
    rcases h1 with h1 | h1
    · exact absurd (hso ▸ h1) (w.tail_ne hp)
    · have h2 := h1.2
      rw [hso, hpm] at h2
      exact hasName_iff.1 h2

/-- A successful generated construction in closed form. -/
theorem construct_ok {env : Env} {c : Cls} {k : ClsInfo} {im : Meta} (w : WFP env c k im)
    (hg : allGenerated env c = true) {pos : List Val} {kw : Kw} {s : St}
    (h : construct env c pos kw = (s, none)) :
    s = finalState env im (mroOf env.classes c) k (boundKw im pos kw) := by
  unfold construct at h
  have hi : firstSpecCls env.classes (mroOf env.classes c) = some k := w.hinst
  simp only [hi] at h
  have hhand : k.cdef.hand = none := by
    unfold allGenerated at hg
    rw [w.hinst] at hg
    simp only [Bool.and_eq_true, Option.isNone_iff_eq_none] at hg
    exact hg.1
  simp only [hhand, w.hmeta] at h
  cases hb : bindGenerated im pos kw with
  | error e => simp [hb] at h
  | ok kwargs =>
    simp only [hb] at h
    rw [bindGenerated_ok hb] at h
    apply initOwner_ok env im _ k _ s w.nodupA _ h
    intro p hp pm hpm
    exact w.genParent hg (List.mem_reverse.1 hp) hpm

/-! ### what a successful construction leaves behind -/

/-- All assignments of a successful construction, in execution order. -/
def allPlan (env : Env) (im : Meta) (mroC : List Cls) (k : ClsInfo) (kwargs : Kw) : Plan :=
  parentsPlan env im mroC kwargs k.cdef.mro.tail.reverse ++ ownPlan env im mroC k.cdef.name kwargs im.attrs

section
variable {env : Env} {c : Cls} {k : ClsInfo} {im : Meta} (w : WFP env c k im)
include w

theorem WFP.not_popped (kwargs : Kw) (x : Name × Val) (hx : qualP im k.cdef.name x.1 = true) :
    poppedBy env im k.cdef.mro.tail.reverse x.1 = false := by
  rw [Bool.eq_false_iff]
  intro hp
  unfold poppedBy at hp
  simp only [List.any_eq_true, List.mem_reverse] at hp
  obtain ⟨p, hp1, hp2⟩ := hp
  cases hm : metaOf env.classes p with
  | none => simp [hm] at hp2
  | some pm =>
    simp only [hm, Bool.and_eq_true] at hp2
    exact w.tail_ne hp1 (qualP_owner hp2.2 hx)

theorem WFP.ownPlan_own (kwargs : Kw) :
    ownPlan env im (mroOf env.classes c) k.cdef.name
      (kwargs.filter (fun q => !poppedBy env im k.cdef.mro.tail.reverse q.1)) im.attrs =
    ownPlan env im (mroOf env.classes c) k.cdef.name kwargs im.attrs := by
  apply ownPlan_filter _ _ _ _ _ _ w.nodupA
  intro x _ hx
  simp [w.not_popped kwargs x hx]

theorem WFP.revNodup : k.cdef.mro.tail.reverse.Nodup := by
  have := w.nodupK
  rw [mro_eq_cons w.head] at this
  simp only [List.nodup_cons] at this
  exact (List.reverse_perm _).nodup_iff.2 this.2

theorem WFP.final_fields (kwargs : Kw) :
    (finalState env im (mroOf env.classes c) k kwargs).fields =
      applyFields [] (allPlan env im (mroOf env.classes c) k kwargs) := by
  unfold finalState
  rw [parentsFold_spec env im _ _ _ _ w.nodupA w.revNodup]
  simp only [withPost_fields, withOvf_fields]
  rw [w.ownPlan_own]
  simp [applyPlan, allPlan, applyFields_append, St.emit, St.empty]

theorem WFP.mem_allPlan (kwargs : Kw) (a : Name) (v : Val) :
    (a, v) ∈ allPlan env im (mroOf env.classes c) k kwargs ↔
      ∃ sp, (a, sp) ∈ im.attrs ∧ sp.init = true ∧ some a ≠ im.ovf ∧
        resolveVal env (mroOf env.classes c) kwargs a sp ≠ .missing ∧
        v = prepareVal env im a (resolveVal env (mroOf env.classes c) kwargs a sp) := by
  unfold allPlan parentsPlan
  simp only [List.mem_append, List.mem_flatMap, List.mem_reverse]
  constructor
  · rintro (⟨p, hp, hm⟩ | hm)
    · split at hm
      · obtain ⟨sp, h1, h2, h3, h4⟩ := mem_ownPlan.1 hm
        unfold qualifies at h2
        simp only [Bool.and_eq_true, beq_iff_eq, Bool.not_eq_true', beq_eq_false_iff_ne, ne_eq] at h2
        exact ⟨sp, h1, h2.1.1, h2.2, h3, h4⟩
      · cases hm
    · obtain ⟨sp, h1, h2, h3, h4⟩ := mem_ownPlan.1 hm
      unfold qualifies at h2
      simp only [Bool.and_eq_true, beq_iff_eq, Bool.not_eq_true', beq_eq_false_iff_ne, ne_eq] at h2
      exact ⟨sp, h1, h2.1.1, h2.2, h3, h4⟩
  · rintro ⟨sp, h1, h2, h3, h4, h5⟩
    have hwf := w.attrs (a, sp) h1
    unfold wfAttr at hwf
    simp only [Bool.and_eq_true, Bool.or_eq_true, beq_iff_eq] at hwf
    have hown := hwf.1.1.1
    have hq : ∀ kk, sp.owner = kk → qualifies im kk a sp = true := by
      intro kk e
      unfold qualifies
      simp [h2, e, h3]
    rcases hown with hown | hown
    · right
      exact mem_ownPlan.2 ⟨sp, h1, hq _ hown, h4, h5⟩
    · left
      have hin : sp.owner ∈ k.cdef.mro.tail := by simpa using hown.1
      refine ⟨sp.owner, hin, ?_⟩
      have hsome : isSpec env sp.owner = true := by
        unfold isSpec
        cases hm : metaOf env.classes sp.owner with
        | none => simp [hm] at hown
        | some _ => rfl
      simp only [hsome, if_true]
      exact mem_ownPlan.2 ⟨sp, h1, hq _ rfl, h4, h5⟩

/-- The field an init-enabled attribute ends up with. -/
theorem WFP.field_of (kwargs : Kw) (a : Name) (sp : AttrSpec) (hm : (a, sp) ∈ im.attrs)
    (hinit : sp.init = true) (hov : some a ≠ im.ovf) :
    assoc (finalState env im (mroOf env.classes c) k kwargs).fields a =
      if resolveVal env (mroOf env.classes c) kwargs a sp = .missing then none
      else some (prepareVal env im a (resolveVal env (mroOf env.classes c) kwargs a sp)) := by
  rw [w.final_fields]
  have huniq : ∀ sp', (a, sp') ∈ im.attrs → sp' = sp := by
    intro sp' h'
    have h1 := assoc_eq_some_of_mem w.nodupA h'
    have h2 := assoc_eq_some_of_mem w.nodupA hm
    rw [h1] at h2; cases h2; rfl
  split
  · rename_i hmiss
    rw [assoc_applyFields_not_mem]
    · rfl
    · intro hmem
      obtain ⟨⟨a', v⟩, hv, ha'⟩ := List.mem_map.1 hmem
      simp only at ha'; subst ha'
      obtain ⟨sp', h1, _, _, h4, _⟩ := (w.mem_allPlan kwargs _ v).1 hv
      rw [huniq sp' h1] at h4
      exact h4 hmiss
  · rename_i hne
    apply assoc_applyFields_unique
    · exact (w.mem_allPlan kwargs a _).2 ⟨sp, hm, hinit, hov, hne, rfl⟩
    · intro v' hv'
      obtain ⟨sp', h1, _, _, _, h5⟩ := (w.mem_allPlan kwargs a v').1 hv'
      rw [huniq sp' h1] at h5
      exact h5

/-- An attribute that is not init-enabled (or is the overflow attribute) is never written. -/
theorem WFP.field_untouched (kwargs : Kw) (a : Name)
    (h : ∀ sp, (a, sp) ∈ im.attrs → sp.init = false ∨ some a = im.ovf) :
    assoc (finalState env im (mroOf env.classes c) k kwargs).fields a = none := by
  rw [w.final_fields, assoc_applyFields_not_mem]
  · rfl
  · intro hmem
    obtain ⟨⟨a', v⟩, hv, ha'⟩ := List.mem_map.1 hmem
    simp only at ha'; subst ha'
    obtain ⟨sp', h1, h2, h3, _, _⟩ := (w.mem_allPlan kwargs _ v).1 hv
    rcases h sp' h1 with e | e
    · rw [h2] at e; cases e
    · exact h3 e
end

/-! ### default lookup = nearest declared default along the MRO -/

theorem nearestDefault_cons (cs : List ClsInfo) (k : Cls) (r : List Cls) (a : Name) :
    nearestDefault cs (k :: r) a =
      match declDefault (declSlot cs k a) with
      | some v => v
      | none => nearestDefault cs r a := by
  unfold nearestDefault
  rw [List.findSome?_cons]
  cases declDefault (declSlot cs k a) <;> rfl

theorem lookupDefault_eq_nearest (cs : List ClsInfo) (sp : AttrSpec) (a : Name) (l : List Cls)
    (h0 : sp.owner ∈ l)
    (hd : ∀ kk ∈ l, assoc (dictOf cs kk) a = (declSlot cs kk a).map Slot.lift)
    (h1 : (l.takeWhile (· != sp.owner)).all (fun kk =>
      match declSlot cs kk a with | some (.attrObj _ f _) => f == .missing | _ => true) = true)
    (h2 : (!(l.takeWhile (· != sp.owner)).all (fun kk => (declSlot cs kk a).isNone) ||
      ownerClause cs sp a (l.dropWhile (· != sp.owner)).tail) = true) :
    lookupDefault cs sp a l = nearestDefault cs l a := by
  induction l with
  | nil => cases h0
  | cons kk r ih =>
    rw [nearestDefault_cons]
    simp only [lookupDefault]
    by_cases hk : kk = sp.owner
    · subst hk
      simp only [if_true]
      have hb : (sp.owner != sp.owner) = false := by simp
      simp only [List.takeWhile_cons, hb, Bool.false_eq_true, ↓reduceIte, List.all_nil, Bool.not_true,
        Bool.false_or, List.dropWhile_cons, List.tail_cons] at h2
      unfold ownerClause at h2
      unfold AttrSpec.defaultValue
      cases hs : declSlot cs sp.owner a with
      | none =>
        simp only [hs, Bool.and_eq_true, beq_iff_eq] at h2
        simp [declDefault, h2.1, h2.2]
      | some slot =>
        cases slot with
        | lit v =>
          simp only [hs, Bool.and_eq_true, beq_iff_eq] at h2
          simp [declDefault, h2.1, h2.2]
        | attrObj d f i =>
          simp only [hs, Bool.and_eq_true, beq_iff_eq] at h2
          simp [declDefault, h2.1, h2.2]
    · simp only [hk, if_false]
      have hb : (kk != sp.owner) = true := by simpa using hk
      simp only [List.takeWhile_cons, hb, ↓reduceIte, List.all_cons, List.dropWhile_cons, Bool.and_eq_true] at h1 h2
      have hmem : sp.owner ∈ r := by
        rcases List.mem_cons.1 h0 with e | e
        · exact absurd e.symm hk
        · exact e
      rw [hd kk List.mem_cons_self]
      cases hs : declSlot cs kk a with
      | some slot =>
        cases slot with
        | lit v => simp [declDefault, Slot.lift]
        | attrObj d f i =>
          have := h1.1
          simp only [hs, beq_iff_eq] at this
          simp [declDefault, Slot.lift, this]
      | none =>
        simp only [Option.map_none, declDefault]
        apply ih hmem (fun x hx => hd x (List.mem_cons_of_mem _ hx)) h1.2
        simpa [hs] using h2

theorem WFP.lookup_eq_nearest {env : Env} {c : Cls} {k : ClsInfo} {im : Meta} (w : WFP env c k im)
    {a : Name} {sp : AttrSpec} (hm : (a, sp) ∈ im.attrs) (hinit : sp.init = true) :
    lookupDefault env.classes sp a (mroOf env.classes c) = nearestDefault env.classes (mroOf env.classes c) a := by
  have hwf := w.attrs (a, sp) hm
  unfold wfAttr at hwf
  simp only [Bool.and_eq_true, Bool.or_eq_true, hinit, Bool.not_true, Bool.false_eq_true, false_or,
    Bool.false_or] at hwf
  obtain ⟨_, ⟨hc, h1⟩, h2⟩ := hwf
  apply lookupDefault_eq_nearest
  · simpa using hc
  · intro kk hkk
    obtain ⟨i, hfi, hdict⟩ := w.dicts kk (List.mem_append_left _ hkk)
    unfold dictOf declSlot
    simp only [hfi, Option.map_some, Option.getD_some, Option.bind_some, hdict]
    generalize bodyDict i.cdef = bd
    induction bd with
    | nil => rfl
    | cons x r ih =>
      obtain ⟨n, sl⟩ := x
      simp only [List.map_cons, assoc]
      split
      · rfl
      · exact ih
  · exact h1
  · simpa [Bool.or_eq_true] using h2

/-! ### traces -/

def evCtor : Ev → Option Cls | .ctor c => some c | _ => none
def evSet : Ev → Option Name | .set a _ => some a | .setOvf a => some a | _ => none
def evPost : Ev → Option Cls | .post c => some c | _ => none

/-- Constructor bodies entered, in order. -/
def ctorCalls (tr : List Ev) : List Cls := tr.filterMap evCtor
/-- Attributes written (`mutate_attr` entered), in order. -/
def setNames (tr : List Ev) : List Name := tr.filterMap evSet
/-- `__post_init__` runs, in order. -/
def postCalls (tr : List Ev) : List Cls := tr.filterMap evPost

def ovfEvs (im : Meta) : List Ev := match im.ovf with | some o => [.setOvf o] | none => []
def postEvs (post : Option Cls) : List Ev := match post with | some pc => [.post pc] | none => []

theorem withOvf_trace (im : Meta) (kw' : Kw) (s : St) : (withOvf im kw' s).trace = s.trace ++ ovfEvs im := by
  unfold withOvf ovfEvs; cases im.ovf <;> simp [St.emit]
theorem withPost_trace (post : Option Cls) (s : St) : (withPost post s).trace = s.trace ++ postEvs post := by
  unfold withPost postEvs; cases post <;> simp [St.emit]

theorem WFP.final_trace {env : Env} {c : Cls} {k : ClsInfo} {im : Meta} (w : WFP env c k im) (kwargs : Kw) :
    (finalState env im (mroOf env.classes c) k kwargs).trace =
      Ev.ctor k.cdef.name :: parentsTrace env im (mroOf env.classes c) kwargs k.cdef.mro.tail.reverse ++
        (ownPlan env im (mroOf env.classes c) k.cdef.name kwargs im.attrs).map (fun q => Ev.set q.1 q.2) ++
        ovfEvs im ++ postEvs (postOf env (mroOf env.classes c)) := by
  unfold finalState
  rw [parentsFold_spec env im _ _ _ _ w.nodupA w.revNodup]
  simp only [withPost_trace, withOvf_trace]
  rw [w.ownPlan_own]
  simp [applyPlan, St.emit, St.empty, List.append_assoc]

theorem filterMap_set_ctor (pl : Plan) : (pl.map (fun q => Ev.set q.1 q.2)).filterMap evCtor = [] := by
  induction pl with
  | nil => rfl
  | cons x r ih => simp only [List.map_cons, List.filterMap_cons, evCtor]; exact ih

theorem filterMap_set_post (pl : Plan) : (pl.map (fun q => Ev.set q.1 q.2)).filterMap evPost = [] := by
  induction pl with
  | nil => rfl
  | cons x r ih => simp only [List.map_cons, List.filterMap_cons, evPost]; exact ih

theorem filterMap_set_set (pl : Plan) : (pl.map (fun q => Ev.set q.1 q.2)).filterMap evSet = pl.map (·.1) := by
  induction pl with
  | nil => rfl
  | cons x r ih => simp only [List.map_cons, List.filterMap_cons, evSet]; rw [ih]

theorem parentsTrace_ctor (env : Env) (im : Meta) (mroC : List Cls) (kw : Kw) (ps : List Cls) :
    (parentsTrace env im mroC kw ps).filterMap evCtor = ps.filter (isSpec env) := by
  induction ps with
  | nil => rfl
  | cons p r ih =>
    unfold parentsTrace at ih ⊢
    simp only [List.flatMap_cons, List.filterMap_append, ih, List.filter_cons]
    cases h : isSpec env p
    · simp only [Bool.false_eq_true, ↓reduceIte, List.filterMap_nil, List.nil_append]
    · simp only [↓reduceIte, List.filterMap_cons, evCtor, filterMap_set_ctor, List.cons_append, List.nil_append]

theorem parentsTrace_post (env : Env) (im : Meta) (mroC : List Cls) (kw : Kw) (ps : List Cls) :
    (parentsTrace env im mroC kw ps).filterMap evPost = [] := by
  induction ps with
  | nil => rfl
  | cons p r ih =>
    unfold parentsTrace at ih ⊢
    simp only [List.flatMap_cons, List.filterMap_append, ih]
    cases h : isSpec env p
    · simp only [Bool.false_eq_true, ↓reduceIte, List.filterMap_nil, List.append_nil]
    · simp only [↓reduceIte, List.filterMap_cons, evPost, filterMap_set_post, List.append_nil]

theorem parentsTrace_set (env : Env) (im : Meta) (mroC : List Cls) (kw : Kw) (ps : List Cls) :
    (parentsTrace env im mroC kw ps).filterMap evSet = (parentsPlan env im mroC kw ps).map (·.1) := by
  induction ps with
  | nil => rfl
  | cons p r ih =>
    unfold parentsTrace parentsPlan at ih ⊢
    simp only [List.flatMap_cons, List.filterMap_append, ih, List.map_append]
    cases h : isSpec env p
    · simp only [Bool.false_eq_true, ↓reduceIte, List.filterMap_nil, List.map_nil]
    · simp only [↓reduceIte, List.filterMap_cons, evSet, filterMap_set_set]

section
variable {env : Env} {c : Cls} {k : ClsInfo} {im : Meta} (w : WFP env c k im)
include w

theorem WFP.final_ctorCalls (kwargs : Kw) :
    ctorCalls (finalState env im (mroOf env.classes c) k kwargs).trace =
      k.cdef.name :: k.cdef.mro.tail.reverse.filter (isSpec env) := by
  unfold ctorCalls
  rw [w.final_trace]
  simp only [List.filterMap_cons, List.filterMap_append, evCtor, parentsTrace_ctor, filterMap_set_ctor]
  unfold ovfEvs postEvs
  cases im.ovf <;> cases postOf env (mroOf env.classes c) <;> simp [evCtor]

theorem WFP.final_postCalls (kwargs : Kw) :
    postCalls (finalState env im (mroOf env.classes c) k kwargs).trace =
      (postOf env (mroOf env.classes c)).toList := by
  unfold postCalls
  rw [w.final_trace]
  simp only [List.filterMap_cons, List.filterMap_append, evPost, parentsTrace_post, filterMap_set_post]
  unfold ovfEvs postEvs
  cases im.ovf <;> cases postOf env (mroOf env.classes c) <;> simp [evPost]

theorem WFP.final_setNames (kwargs : Kw) :
    setNames (finalState env im (mroOf env.classes c) k kwargs).trace =
      (allPlan env im (mroOf env.classes c) k kwargs).map (·.1) ++ im.ovf.toList := by
  unfold setNames
  rw [w.final_trace]
  simp only [List.filterMap_cons, List.filterMap_append, evSet, parentsTrace_set, filterMap_set_set]
  unfold ovfEvs postEvs allPlan
  cases im.ovf <;> cases postOf env (mroOf env.classes c) <;> simp [evSet]

theorem WFP.final_last_post (kwargs : Kw) (pc : Cls) (hp : postOf env (mroOf env.classes c) = some pc) :
    (finalState env im (mroOf env.classes c) k kwargs).trace.getLast? = some (.post pc) := by
  rw [w.final_trace]
  unfold postEvs
  simp only [hp]
  simp only [List.getLast?_append, List.getLast?_singleton, Option.some_or]
end

/-! ### every attribute is written at most once -/

theorem names_ownPlan_sublist (env : Env) (im : Meta) (mroC : List Cls) (k : Cls) (kw : Kw)
    (attrs : List (Name × AttrSpec)) :
    ((ownPlan env im mroC k kw attrs).map (·.1)).Sublist (attrs.map (·.1)) := by
  induction attrs with
  | nil => simp [ownPlan]
  | cons x r ih =>
    obtain ⟨a, sp⟩ := x
    simp only [ownPlan]
    split
    · simp only [List.map_cons]; exact List.Sublist.cons_cons _ ih
    · simp only [List.map_cons]; exact List.Sublist.cons _ ih

theorem mem_names_ownPlan {env : Env} {im : Meta} {mroC : List Cls} {k : Cls} {kw : Kw}
    {attrs : List (Name × AttrSpec)} {a : Name}
    (h : a ∈ (ownPlan env im mroC k kw attrs).map (·.1)) : ∃ sp, (a, sp) ∈ attrs ∧ sp.owner = k := by
  obtain ⟨⟨a', v⟩, hv, ha'⟩ := List.mem_map.1 h
  simp only at ha'; subst ha'
  obtain ⟨sp, h1, h2, _, _⟩ := mem_ownPlan.1 hv
  unfold qualifies at h2
  simp only [Bool.and_eq_true, beq_iff_eq] at h2
  exact ⟨sp, h1, h2.1.2⟩

theorem WFP.allPlan_names_nodup {env : Env} {c : Cls} {k : ClsInfo} {im : Meta} (w : WFP env c k im) (kwargs : Kw) :
    ((allPlan env im (mroOf env.classes c) k kwargs).map (·.1)).Nodup := by
  have huniq : ∀ a sp sp', (a, sp) ∈ im.attrs → (a, sp') ∈ im.attrs → sp = sp' := by
    intro a sp sp' h h'
    have h1 := assoc_eq_some_of_mem w.nodupA h
    have h2 := assoc_eq_some_of_mem w.nodupA h'
    rw [h1] at h2; cases h2; rfl
  have hown : ∀ kk, ((ownPlan env im (mroOf env.classes c) kk kwargs im.attrs).map (·.1)).Nodup :=
    fun kk => List.Nodup.sublist (names_ownPlan_sublist _ _ _ _ _ _) w.nodupA
  -- parents: by induction over a duplicate-free list of classes none of which is `k0`
  have hpar : ∀ ps : List Cls, ps.Nodup →
      ((parentsPlan env im (mroOf env.classes c) kwargs ps).map (·.1)).Nodup ∧
      ∀ a, a ∈ (parentsPlan env im (mroOf env.classes c) kwargs ps).map (·.1) →
        ∃ sp, (a, sp) ∈ im.attrs ∧ sp.owner ∈ ps := by
    intro ps
    induction ps with
    | nil => intro _; simp [parentsPlan]
    | cons p r ih =>
      intro hnd
      simp only [List.nodup_cons] at hnd
      obtain ⟨ih1, ih2⟩ := ih hnd.2
      have hcons : parentsPlan env im (mroOf env.classes c) kwargs (p :: r) =
          (if isSpec env p then ownPlan env im (mroOf env.classes c) p kwargs im.attrs else []) ++
            parentsPlan env im (mroOf env.classes c) kwargs r := by
        simp [parentsPlan]
      rw [hcons, List.map_append]
      constructor
      · rw [List.nodup_append]
        refine ⟨?_, ih1, ?_⟩
        · split
          · exact hown p
          · simp
        · intro a ha b hb e
          subst e
          obtain ⟨sp', h1', h2'⟩ := ih2 a hb
          split at ha
          · obtain ⟨sp, h1, h2⟩ := mem_names_ownPlan ha
            rw [huniq a sp sp' h1 h1'] at h2
            rw [h2] at h2'
            exact hnd.1 h2'
          · cases ha
      · intro a ha
        rcases List.mem_append.1 ha with ha | ha
        · split at ha
          · obtain ⟨sp, h1, h2⟩ := mem_names_ownPlan ha
            exact ⟨sp, h1, by rw [h2]; exact List.mem_cons_self⟩
          · cases ha
        · obtain ⟨sp, h1, h2⟩ := ih2 a ha
          exact ⟨sp, h1, List.mem_cons_of_mem _ h2⟩
  obtain ⟨hp1, hp2⟩ := hpar _ w.revNodup
  unfold allPlan
  rw [List.map_append, List.nodup_append]
  refine ⟨hp1, hown _, ?_⟩
  intro a ha b hb e
  subst e
  obtain ⟨sp, h1, h2⟩ := hp2 a ha
  obtain ⟨sp', h1', h2'⟩ := mem_names_ownPlan hb
  rw [huniq a sp sp' h1 h1', h2'] at h2
  exact w.tail_ne (List.mem_reverse.1 h2) rfl

/-! ### the overflow attribute -/

theorem withOvf_ovf (im : Meta) (kw' : Kw) (s : St) (hs : s.ovf = none) :
    (withOvf im kw' s).ovf = im.ovf.map (fun o => kw'.filter (ovfFilter im o)) := by
  unfold withOvf; cases im.ovf <;> simp [hs]

theorem WFP.final_ovf {env : Env} {c : Cls} {k : ClsInfo} {im : Meta} (w : WFP env c k im) (kwargs : Kw) :
    (finalState env im (mroOf env.classes c) k kwargs).ovf =
      im.ovf.map (fun o => kwargs.filter (ovfFilter im o)) := by
  unfold finalState
  rw [parentsFold_spec env im _ _ _ _ w.nodupA w.revNodup]
  simp only [withPost_ovf]
  rw [withOvf_ovf _ _ _ (by simp [applyPlan, St.emit, St.empty])]
  cases ho : im.ovf with
  | none => rfl
  | some o =>
    simp only [Option.map_some, Option.some.injEq, List.filter_filter]
    apply List.filter_congr
    intro x _
    cases hp : poppedBy env im k.cdef.mro.tail.reverse x.1 with
    | false => simp
    | true =>
      unfold poppedBy at hp
      simp only [List.any_eq_true] at hp
      obtain ⟨p, _, hp2⟩ := hp
      cases hm : metaOf env.classes p with
      | none => simp [hm] at hp2
      | some pm =>
        simp only [hm, Bool.and_eq_true] at hp2
        have hq := hp2.2
        unfold qualP at hq
        cases ha : assoc im.attrs x.1 with
        | none => simp [ha] at hq
        | some sp =>
          simp only [ha, Bool.and_eq_true, beq_iff_eq, Bool.not_eq_true', beq_eq_false_iff_ne, ne_eq, ho,
            Option.some.injEq] at hq
          simp [ovfFilter, ha, hq.1.2, hq.2]

/-! ### hierarchies with hand-written parent constructors: which constructors run, and `__post_init__` -/

/-- Events that are neither a constructor entry nor a `__post_init__` run. -/
def Quiet (evs : List Ev) : Prop := evs.filterMap evCtor = [] ∧ evs.filterMap evPost = []

theorem quiet_nil : Quiet [] := ⟨rfl, rfl⟩
theorem quiet_append {a b : List Ev} (ha : Quiet a) (hb : Quiet b) : Quiet (a ++ b) := by
  unfold Quiet at *
  simp [List.filterMap_append, ha.1, ha.2, hb.1, hb.2]
theorem quiet_sets (pl : Plan) : Quiet (pl.map (fun q => Ev.set q.1 q.2)) :=
  ⟨filterMap_set_ctor pl, filterMap_set_post pl⟩

theorem setAttr_trace (env : Env) (im : Meta) (s s1 : St) (a : Name) (v : Val) (h : setAttr env im s a v = (s1, none)) :
    ∃ evs, s1.trace = s.trace ++ evs ∧ Quiet evs := by
  by_cases hv : v = .missing
  · subst hv
    unfold setAttr at h
    have : prepareVal env im a Val.missing = .missing := by simp [prepareVal_eq_missing]
    simp [this] at h
    exact ⟨[], by simp [← h], quiet_nil⟩
  · have := setAttr_ok env im s s1 a v h hv
    refine ⟨[Ev.set a (prepareVal env im a v)], by rw [this], ?_⟩
    exact ⟨by simp [evCtor], by simp [evPost]⟩

theorem handBody_trace (env : Env) (im : Meta) : ∀ (bound : List (HandParam × Val)) (s s' : St),
    handBody env im bound s = (s', none) → ∃ evs, s'.trace = s.trace ++ evs ∧ Quiet evs := by
  intro bound
  induction bound with
  | nil => intro s s' h; simp [handBody] at h; exact ⟨[], by simp [h], quiet_nil⟩
  | cons x r ih =>
    intro s s' h
    obtain ⟨p, v⟩ := x
    simp only [handBody] at h
    cases hf : applyF p.f v with
    | error e => simp [hf] at h
    | ok w =>
      simp only [hf] at h
      cases hs : setAttr env im s p.name w with
      | mk s1 o =>
        rw [hs] at h
        cases o with
        | some e => simp at h
        | none =>
          simp only at h
          obtain ⟨e1, h1, q1⟩ := setAttr_trace env im s s1 p.name w hs
          obtain ⟨e2, h2, q2⟩ := ih s1 s' h
          exact ⟨e1 ++ e2, by rw [h2, h1, List.append_assoc], quiet_append q1 q2⟩

/-- What the parents loop needs to know about a decorated parent, whatever its constructor. -/
structure AnyParent (env : Env) (im : Meta) (p : Cls) : Prop where
  info : ∃ i, firstSpecCls env.classes (mroOf env.classes p) = some i ∧ i.cdef.name = p ∧ i.«meta».isSome
  notOwner : im.owner ≠ p

theorem callParent_trace (env : Env) (im : Meta) (mroC : List Cls) (p : Cls) (pk : Kw) (s s' : St)
    (hp : AnyParent env im p) (h : callParent env im mroC p pk s = (s', none)) :
    ∃ evs, s'.trace = s.trace ++ Ev.ctor p :: evs ∧ Quiet evs := by
  obtain ⟨i, hfs, hname, hmeta⟩ := hp.info
  unfold callParent at h
  simp only [hfs] at h
  cases hh : i.cdef.hand with
  | some params =>
    simp only [hh, hname] at h
    unfold callHand at h
    cases hb : bindHand params [] pk with
    | error e => simp [hb] at h
    | ok bound =>
      simp only [hb] at h
      obtain ⟨evs, h1, q⟩ := handBody_trace env im bound _ s' h
      exact ⟨evs, by rw [h1]; simp [St.emit], q⟩
  | none =>
    simp only [hh] at h
    cases hm : i.«meta» with
    | none => rw [hm] at hmeta; cases hmeta
    | some pm =>
      simp only [hm] at h
      cases hb : bindGenerated pm [] pk with
      | error e => simp [hb] at h
      | ok kwargs =>
        simp only [hb, hname] at h
        have hno : ¬ im.owner = p := hp.notOwner
        simp only [hno, if_false] at h
        have := ownLoop_ok _ _ _ _ _ _ _ _ h
        refine ⟨(ownPlan env im mroC p kwargs im.attrs).map (fun q => Ev.set q.1 q.2), ?_, quiet_sets _⟩
        rw [this]; simp [applyPlan, St.emit]

theorem parentsLoop_trace (env : Env) (im : Meta) (mroC : List Cls) : ∀ (ps : List Cls) (kw kw' : Kw) (s s' : St),
    (∀ p ∈ ps, isSpec env p = true → AnyParent env im p) →
    parentsLoop env im mroC ps kw s = (kw', (s', none)) →
    ctorCalls s'.trace = ctorCalls s.trace ++ ps.filter (isSpec env) ∧ postCalls s'.trace = postCalls s.trace := by
  intro ps
  induction ps with
  | nil => intro kw kw' s s' _ h; simp only [parentsLoop] at h; cases h; simp
  | cons p ps ih =>
    intro kw kw' s s' hg h
    have hg' : ∀ q ∈ ps, isSpec env q = true → AnyParent env im q := fun q hq => hg q (List.mem_cons_of_mem _ hq)
    simp only [parentsLoop] at h
    cases hm : metaOf env.classes p with
    | none =>
      simp only [hm] at h
      have := ih kw kw' s s' hg' h
      simpa [List.filter_cons, isSpec, hm] using this
    | some pm =>
      simp only [hm] at h
      have hsp : isSpec env p = true := by simp [isSpec, hm]
      cases hb : buildPk env.classes im mroC p pm.attrs kw [] with
      | error e => simp [hb] at h
      | ok r =>
        obtain ⟨kw1, pk⟩ := r
        simp only [hb] at h
        cases hc : callParent env im mroC p (addKeyMissing pk pm.key) s with
        | mk s1 o =>
          rw [hc] at h
          cases o with
          | some e => simp at h
          | none =>
            simp only at h
            obtain ⟨evs, h1, q⟩ := callParent_trace env im mroC p _ s s1 (hg p List.mem_cons_self hsp) hc
            obtain ⟨i1, i2⟩ := ih kw1 kw' s1 s' hg' h
            unfold ctorCalls postCalls at *
            refine ⟨?_, ?_⟩
            · rw [i1, h1]
              simp only [List.filterMap_append, List.filterMap_cons, evCtor, q.1, List.filter_cons, hsp, if_true,
                List.append_assoc, List.cons_append, List.nil_append, List.append_nil]
            · rw [i2, h1]
              simp only [List.filterMap_append, List.filterMap_cons, evPost, q.2, List.append_nil]

theorem WFP.anyParent {env : Env} {c : Cls} {k : ClsInfo} {im : Meta} (w : WFP env c k im)
    {p : Cls} (hp : p ∈ k.cdef.mro.tail) (hs : isSpec env p = true) : AnyParent env im p := by
  unfold isSpec at hs
  cases hpm : metaOf env.classes p with
  | none => simp [hpm] at hs
  | some pm =>
    obtain ⟨i, hfi, hmi⟩ := metaOf_some hpm
    obtain ⟨_, _, _, hhead⟩ := w.parents p hp pm hpm
    refine ⟨⟨i, ?_, findCls_name hfi, by simp [hmi]⟩, ?_⟩
    · rw [mro_eq_cons hhead]
      simp [firstSpecCls, hfi, hmi]
    · rw [w.owner]; exact fun e => w.tail_ne hp e.symm

/-- Constructor entries and `__post_init__` runs of a successful construction whose own constructor is
generated; the parents' constructors may be hand-written. -/
theorem construct_trace_any {env : Env} {c : Cls} {k : ClsInfo} {im : Meta} (w : WFP env c k im)
    (ht : topGenerated env c = true) {pos : List Val} {kw : Kw} {s : St}
    (h : construct env c pos kw = (s, none)) :
    ctorCalls s.trace = k.cdef.name :: k.cdef.mro.tail.reverse.filter (isSpec env) ∧
    postCalls s.trace = (postOf env (mroOf env.classes c)).toList ∧
    (∀ pc, postOf env (mroOf env.classes c) = some pc → s.trace.getLast? = some (.post pc)) := by
  unfold construct at h
  have hi : firstSpecCls env.classes (mroOf env.classes c) = some k := w.hinst
  have hhand : k.cdef.hand = none := by
    unfold topGenerated at ht
    rw [w.hinst] at ht
    simpa using ht
  simp only [hi, hhand, w.hmeta] at h
  cases hb : bindGenerated im pos kw with
  | error e => simp [hb] at h
  | ok kwargs =>
    simp only [hb] at h
    unfold initOwner at h
    simp only at h
    cases hp : parentsLoop env im (mroOf env.classes c) k.cdef.mro.tail.reverse kwargs
        (St.empty.emit (.ctor k.cdef.name)) with
    | mk kw' r =>
      obtain ⟨s1, o⟩ := r
      rw [hp] at h
      cases o with
      | some e => simp at h
      | none =>
        simp only at h
        obtain ⟨c1, p1⟩ := parentsLoop_trace env im _ _ _ _ _ _
          (fun p hp hs => w.anyParent (List.mem_reverse.1 hp) hs) hp
        cases ho : ownLoop env im (mroOf env.classes c) k.cdef.name kw' im.attrs s1 with
        | mk s2 o2 =>
          rw [ho] at h
          cases o2 with
          | some e => simp at h
          | none =>
            simp only [Prod.mk.injEq, and_true] at h
            have hs2 := ownLoop_ok _ _ _ _ _ _ _ _ ho
            have hq := quiet_sets (ownPlan env im (mroOf env.classes c) k.cdef.name kw' im.attrs)
            have htr : s.trace = s1.trace ++
                (ownPlan env im (mroOf env.classes c) k.cdef.name kw' im.attrs).map (fun q => Ev.set q.1 q.2) ++
                ovfEvs im ++ postEvs (postOf env (mroOf env.classes c)) := by
              rw [← h, hs2]
              unfold ovfEvs postEvs
              cases im.ovf <;> cases postOf env (mroOf env.classes c) <;> simp [applyPlan, St.emit]
            have hov : Quiet (ovfEvs im) := by
              unfold ovfEvs; cases im.ovf <;> exact ⟨by simp [evCtor], by simp [evPost]⟩
            have c0 : ctorCalls (St.empty.emit (Ev.ctor k.cdef.name)).trace = [k.cdef.name] := by
              simp [ctorCalls, St.emit, St.empty, evCtor]
            have p0 : postCalls (St.empty.emit (Ev.ctor k.cdef.name)).trace = [] := by
              simp [postCalls, St.emit, St.empty, evPost]
            rw [c0] at c1
            rw [p0] at p1
            refine ⟨?_, ?_, ?_⟩
            · unfold ctorCalls at c1 ⊢
              rw [htr]
              simp only [List.filterMap_append, c1, hq.1, hov.1, List.append_nil]
              unfold postEvs
              cases postOf env (mroOf env.classes c) <;> simp [evCtor]
            · unfold postCalls at p1 ⊢
              rw [htr]
              simp only [List.filterMap_append, p1, hq.2, hov.2, List.nil_append]
              unfold postEvs
              cases postOf env (mroOf env.classes c) <;> simp [evPost]
            · intro pc hpc
              rw [htr, hpc]
              simp only [postEvs, List.getLast?_append, List.getLast?_singleton, Option.some_or]

end SpecVerif.C09
