import SpecVerif.Proofs.C09
/-!
# C09 — the model has no state shared between classes (helper lemmas)

`bootstrapAll` is a left fold that only appends: the `ClsInfo` (class `__dict__` + metadata) of a class is fixed
once it has been bootstrapped, whatever is defined or bootstrapped later (`bootstrapAll_append`,
`bootstrapFrom_prefix`). Every function of the constructor model reads the class table through `findCls` only, and
only for names that occur in the MROs it walks; on a table that is closed under its MROs (`closedTable`) appending
further classes changes none of these lookups (`construct_append`).

The property theorems derived from these lemmas are in `Props/C09.lean`.
-/
set_option linter.unusedSectionVars false
set_option linter.unusedSimpArgs false
set_option linter.unusedVariables false
namespace SpecVerif.C09
open SpecVerif.Py

/-! ### bootstrapping only appends -/

/-- Bootstrap further classes on top of an already bootstrapped table. -/
def bootstrapFrom (cs : List ClsInfo) (defs : List ClassDef) : List ClsInfo :=
  defs.foldl (fun cs cd => cs ++ [bootstrapClass cs cd]) cs

theorem bootstrapAll_append (defs more : List ClassDef) :
    bootstrapAll (defs ++ more) = bootstrapFrom (bootstrapAll defs) more := by
  simp [bootstrapAll, bootstrapFrom, List.foldl_append]

theorem bootstrapFrom_prefix (cs : List ClsInfo) (defs : List ClassDef) :
    ∃ ex, bootstrapFrom cs defs = cs ++ ex := by
  induction defs generalizing cs with
  | nil => exact ⟨[], by simp [bootstrapFrom]⟩
  | cons d r ih =>
    obtain ⟨ex, h⟩ := ih (cs ++ [bootstrapClass cs d])
    refine ⟨bootstrapClass cs d :: ex, ?_⟩
    simp only [bootstrapFrom, List.foldl_cons] at h ⊢
    rw [h]; simp

/-! ### lookups in an extended table -/

theorem findCls_append_of_some {cs ex : List ClsInfo} {n : Cls} (h : (findCls cs n).isSome = true) :
    findCls (cs ++ ex) n = findCls cs n := by
  unfold findCls at *
  rw [List.find?_append]
  cases hf : cs.find? (fun i => decide (i.cdef.name = n)) with
  | none => simp [hf] at h
  | some i => simp

/-- Every class name that occurs in an MRO of the table is defined in the table. -/
def closedTable (cs : List ClsInfo) : Bool :=
  cs.all (fun i => i.cdef.mro.all (fun n => (findCls cs n).isSome))

theorem findCls_mem {cs : List ClsInfo} {n : Cls} {i : ClsInfo} (h : findCls cs n = some i) : i ∈ cs := by
  unfold findCls at h
  exact List.mem_of_find?_eq_some h

theorem closedTable_mro {cs : List ClsInfo} (hcl : closedTable cs = true) {n : Cls} {i : ClsInfo}
    (h : findCls cs n = some i) : ∀ x ∈ i.cdef.mro, (findCls cs x).isSome = true := by
  unfold closedTable at hcl
  simp only [List.all_eq_true] at hcl
  exact hcl i (findCls_mem h)

/-! ### congruence: the constructor model reads the table only through `findCls` on the MROs it walks -/

section
variable {cs cs' : List ClsInfo}

theorem dictOf_congr {k : Cls} (h : findCls cs' k = findCls cs k) : dictOf cs' k = dictOf cs k := by
  unfold dictOf; rw [h]

theorem mroOf_congr {k : Cls} (h : findCls cs' k = findCls cs k) : mroOf cs' k = mroOf cs k := by
  unfold mroOf; rw [h]

theorem metaOf_congr {k : Cls} (h : findCls cs' k = findCls cs k) : metaOf cs' k = metaOf cs k := by
  unfold metaOf; rw [h]

theorem lookupDefault_congr (sp : AttrSpec) (a : Name) (l : List Cls)
    (h : ∀ k ∈ l, findCls cs' k = findCls cs k) : lookupDefault cs' sp a l = lookupDefault cs sp a l := by
  induction l with
  | nil => rfl
  | cons k r ih =>
    simp only [lookupDefault]
    rw [dictOf_congr (h k List.mem_cons_self), ih (fun x hx => h x (List.mem_cons_of_mem _ hx))]

theorem firstSpecCls_congr (l : List Cls) (h : ∀ k ∈ l, findCls cs' k = findCls cs k) :
    firstSpecCls cs' l = firstSpecCls cs l := by
  induction l with
  | nil => rfl
  | cons k r ih =>
    simp only [firstSpecCls]
    rw [h k List.mem_cons_self, ih (fun x hx => h x (List.mem_cons_of_mem _ hx))]

theorem buildPk_congr (im : Meta) (mroC : List Cls) (p : Cls)
    (h : ∀ k ∈ mroC, findCls cs' k = findCls cs k) :
    ∀ (attrs : List (Name × AttrSpec)) (kw pk : Kw),
      buildPk cs' im mroC p attrs kw pk = buildPk cs im mroC p attrs kw pk := by
  intro attrs
  induction attrs with
  | nil => intro kw pk; rfl
  | cons x r ih =>
    intro kw pk
    obtain ⟨a, sp⟩ := x
    simp only [buildPk]
    cases assoc im.attrs a with
    | none => rfl
    | some isp =>
      simp only [lookupDefault_congr isp a mroC h, ih]
end

section
variable {env env' : Env}

theorem setAttr_congr (ht : env'.tys = env.tys) (im : Meta) (s : St) (a : Name) (v : Val) :
    setAttr env' im s a v = setAttr env im s a v := by
  unfold setAttr prepareVal Env.ty
  rw [ht]

theorem ownLoop_congr (ht : env'.tys = env.tys) (im : Meta) (mroC : List Cls) (k : Cls) (kw : Kw)
    (h : ∀ x ∈ mroC, findCls env'.classes x = findCls env.classes x) :
    ∀ (attrs : List (Name × AttrSpec)) (s : St),
      ownLoop env' im mroC k kw attrs s = ownLoop env im mroC k kw attrs s := by
  intro attrs
  induction attrs with
  | nil => intro s; rfl
  | cons x r ih =>
    intro s
    obtain ⟨a, sp⟩ := x
    simp only [ownLoop, lookupDefault_congr sp a mroC h, setAttr_congr ht, ih]

theorem handBody_congr (ht : env'.tys = env.tys) (im : Meta) :
    ∀ (bound : List (HandParam × Val)) (s : St), handBody env' im bound s = handBody env im bound s := by
  intro bound
  induction bound with
  | nil => intro s; rfl
  | cons x r ih =>
    intro s
    obtain ⟨p, v⟩ := x
    simp only [handBody, setAttr_congr ht, ih]

theorem callHand_congr (ht : env'.tys = env.tys) (im : Meta) (k : Cls) (params : List HandParam)
    (pos : List Val) (kw : Kw) (s : St) :
    callHand env' im k params pos kw s = callHand env im k params pos kw s := by
  unfold callHand
  simp only [handBody_congr ht]

theorem callParent_congr (ht : env'.tys = env.tys) (im : Meta) (mroC : List Cls) (p : Cls) (pk : Kw) (s : St)
    (hp : findCls env'.classes p = findCls env.classes p)
    (hm : ∀ x ∈ mroOf env.classes p, findCls env'.classes x = findCls env.classes x)
    (hc : ∀ x ∈ mroC, findCls env'.classes x = findCls env.classes x) :
    callParent env' im mroC p pk s = callParent env im mroC p pk s := by
  unfold callParent
  rw [mroOf_congr hp, firstSpecCls_congr _ hm]
  simp only [callHand_congr ht, ownLoop_congr ht im mroC _ _ hc]

theorem parentsLoop_congr (ht : env'.tys = env.tys) (im : Meta) (mroC : List Cls)
    (hc : ∀ x ∈ mroC, findCls env'.classes x = findCls env.classes x) :
    ∀ (ps : List Cls) (kw : Kw) (s : St),
      (∀ p ∈ ps, findCls env'.classes p = findCls env.classes p ∧
        ∀ x ∈ mroOf env.classes p, findCls env'.classes x = findCls env.classes x) →
      parentsLoop env' im mroC ps kw s = parentsLoop env im mroC ps kw s := by
  intro ps
  induction ps with
  | nil => intro kw s _; rfl
  | cons p r ih =>
    intro kw s h
    obtain ⟨hp, hm⟩ := h p List.mem_cons_self
    have hr := fun kw s => ih kw s (fun q hq => h q (List.mem_cons_of_mem _ hq))
    simp only [parentsLoop, metaOf_congr hp, buildPk_congr im mroC p hc,
      callParent_congr ht im mroC p _ _ hp hm hc, hr]

theorem postOf_congr (mroC : List Cls)
    (hc : ∀ x ∈ mroC, findCls env'.classes x = findCls env.classes x) :
    postOf env' mroC = postOf env mroC := by
  unfold postOf
  induction mroC with
  | nil => rfl
  | cons k r ih =>
    simp only [List.find?_cons]
    rw [hc k List.mem_cons_self, ih (fun x hx => hc x (List.mem_cons_of_mem _ hx))]

theorem initOwner_congr (ht : env'.tys = env.tys) (im : Meta) (mroC : List Cls) (k : ClsInfo) (kwargs : Kw) (s : St)
    (hc : ∀ x ∈ mroC, findCls env'.classes x = findCls env.classes x)
    (hk : ∀ p ∈ k.cdef.mro, findCls env'.classes p = findCls env.classes p ∧
        ∀ x ∈ mroOf env.classes p, findCls env'.classes x = findCls env.classes x) :
    initOwner env' im mroC k kwargs s = initOwner env im mroC k kwargs s := by
  unfold initOwner
  have hps : ∀ p ∈ k.cdef.mro.tail.reverse, findCls env'.classes p = findCls env.classes p ∧
      ∀ x ∈ mroOf env.classes p, findCls env'.classes x = findCls env.classes x := by
    intro p hp
    exact hk p (List.mem_of_mem_tail (List.mem_reverse.1 hp))
  simp only [parentsLoop_congr ht im mroC hc _ _ _ hps, ownLoop_congr ht im mroC _ _ hc, postOf_congr mroC hc]

/-- `construct` on two tables that agree on the target class, on the classes of its MRO and on the classes of
their MROs. -/
theorem construct_congr (ht : env'.tys = env.tys) (c : Cls) (pos : List Val) (kw : Kw)
    (h0 : findCls env'.classes c = findCls env.classes c)
    (h1 : ∀ x ∈ mroOf env.classes c, findCls env'.classes x = findCls env.classes x)
    (h2 : ∀ x ∈ mroOf env.classes c, ∀ i, findCls env.classes x = some i →
        ∀ p ∈ i.cdef.mro, findCls env'.classes p = findCls env.classes p ∧
          ∀ y ∈ mroOf env.classes p, findCls env'.classes y = findCls env.classes y) :
    construct env' c pos kw = construct env c pos kw := by
  unfold construct
  rw [mroOf_congr h0]
  simp only [firstSpecCls_congr _ h1]
  cases hf : firstSpecCls env.classes (mroOf env.classes c) with
  | none => rfl
  | some k =>
    simp only
    -- the instance's spec class is a class of the MRO
    have hk : ∃ x ∈ mroOf env.classes c, findCls env.classes x = some k := by
      generalize mroOf env.classes c = l at hf
      induction l with
      | nil => simp [firstSpecCls] at hf
      | cons x r ih =>
        simp only [firstSpecCls] at hf
        cases hx : findCls env.classes x with
        | none =>
          rw [hx] at hf
          obtain ⟨y, hy, hy2⟩ := ih hf
          exact ⟨y, List.mem_cons_of_mem _ hy, hy2⟩
        | some i =>
          rw [hx] at hf
          simp only at hf
          split at hf
          · cases hf; exact ⟨x, List.mem_cons_self, hx⟩
          · obtain ⟨y, hy, hy2⟩ := ih hf
            exact ⟨y, List.mem_cons_of_mem _ hy, hy2⟩
    obtain ⟨x, hx, hxk⟩ := hk
    have hkk := h2 x hx k hxk
    cases k.«meta» with
    | none => rfl
    | some im =>
      simp only [callHand_congr ht, initOwner_congr ht im _ k _ _ h1 hkk]
end

/-- Appending classes to a table that is closed under its MROs does not change what constructing an
instance of one of ITS classes does. -/
theorem construct_append (env : Env) (ex : List ClsInfo) (c : Cls) (pos : List Val) (kw : Kw)
    (hc : (findCls env.classes c).isSome = true) (hcl : closedTable env.classes = true) :
    construct { env with classes := env.classes ++ ex } c pos kw = construct env c pos kw := by
  have key : ∀ n, (findCls env.classes n).isSome = true →
      findCls (env.classes ++ ex) n = findCls env.classes n := fun n h => findCls_append_of_some h
  have hmro : ∀ n, (findCls env.classes n).isSome = true → ∀ x ∈ mroOf env.classes n,
      (findCls env.classes x).isSome = true := by
    intro n hn x hx
    cases hf : findCls env.classes n with
    | none => simp [hf] at hn
    | some i =>
      have : mroOf env.classes n = i.cdef.mro := by simp [mroOf, hf]
      rw [this] at hx
      exact closedTable_mro hcl hf x hx
  apply construct_congr (env := env) (env' := { env with classes := env.classes ++ ex }) rfl
  · exact key c hc
  · intro x hx
    exact key x (hmro c hc x hx)
  · intro x hx i hxi p hp
    have hpk : (findCls env.classes p).isSome = true := closedTable_mro hcl hxi p hp
    exact ⟨key p hpk, fun y hy => key y (hmro p hpk y hy)⟩

end SpecVerif.C09
