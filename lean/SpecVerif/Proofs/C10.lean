import SpecVerif.Model.C10
/-!
# Helper lemmas for C10 (equality, copying, repr). Property theorems live in `Props/C10.lean`.
-/
set_option linter.unusedSectionVars false
set_option linter.unusedSimpArgs false
set_option linter.unusedVariables false
namespace SpecVerif.C10

/-- Simultaneous structural induction over values, value lists and key/value lists. -/
theorem val_induction {P : Val → Prop} {Q : Vals → Prop} {R : KVs → Prop}
    (hnone : P .none) (hint : ∀ n, P (.int n)) (hstr : ∀ s, P (.str s)) (hflt : ∀ n, P (.flt n))
    (hlist : ∀ xs, Q xs → P (.list xs)) (hdict : ∀ kvs, R kvs → P (.dict kvs)) (hset : ∀ xs, Q xs → P (.set xs))
    (hinst : ∀ c fs, Q fs → P (.inst c fs)) (hbound : ∀ o f, P (.bound o f)) (hfunc : ∀ i, P (.func i))
    (hcls : ∀ i, P (.cls i)) (hmod : ∀ i, P (.mod i)) (hmissing : P .missing) (hself : P .selfRef)
    (hnil : Q .nil) (hcons : ∀ v r, P v → Q r → Q (.cons v r))
    (hknil : R .nil) (hkcons : ∀ k v r, P k → P v → R r → R (.cons k v r)) :
    (∀ v, P v) ∧ (∀ xs, Q xs) ∧ (∀ kvs, R kvs) :=
  ⟨fun v => @Val.rec P Q R hnone hint hstr hflt hlist hdict hset hinst hbound hfunc hcls hmod hmissing hself
      hnil hcons hknil hkcons v,
   fun xs => @Vals.rec P Q R hnone hint hstr hflt hlist hdict hset hinst hbound hfunc hcls hmod hmissing hself
      hnil hcons hknil hkcons xs,
   fun kvs => @KVs.rec P Q R hnone hint hstr hflt hlist hdict hset hinst hbound hfunc hcls hmod hmissing hself
      hnil hcons hknil hkcons kvs⟩

/-! ### the class lattice -/

theorem wfTable_parent {T : Table} (hT : wfTable T = true) {c p : Nat} {ci : ClassInfo}
    (hc : T[c]? = some ci) (hp : ci.parent = some p) : p < c := by
  unfold wfTable at hT
  rw [List.all_eq_true] at hT
  have hlt : c < T.length := by
    rcases Nat.lt_or_ge c T.length with h | h
    · exact h
    · rw [List.getElem?_eq_none h] at hc; cases hc
  have := hT c (List.mem_range.2 hlt)
  simpa [hc, hp] using this

theorem isSubFuel_le {T : Table} (hT : wfTable T = true) :
    ∀ fuel c d, isSubFuel T fuel c d = true → d ≤ c := by
  intro fuel
  induction fuel with
  | zero => intro c d h; simp [isSubFuel] at h; omega
  | succ n ih =>
    intro c d h
    simp only [isSubFuel, Bool.or_eq_true, beq_iff_eq] at h
    rcases h with h | h
    · omega
    · cases hc : T[c]? with
      | none => simp [hc] at h
      | some ci =>
        simp only [hc] at h
        cases hp : ci.parent with
        | none => simp [hp] at h
        | some p =>
          simp only [hp] at h
          have := ih p d h
          have := wfTable_parent hT hc hp
          omega

theorem isSub_refl (T : Table) (c : Nat) : isSub T c c = true := by
  unfold isSub
  cases T.length <;> simp [isSubFuel]

theorem isSub_antisymm {T : Table} (hT : wfTable T = true) {c d : Nat}
    (h1 : isSub T c d = true) (h2 : isSub T d c = true) : c = d := by
  have := isSubFuel_le hT _ _ _ h1
  have := isSubFuel_le hT _ _ _ h2
  omega

/-- Under CPython's dispatch two instances can only be equal when their classes are the same. -/
theorem vEq_inst {T : Table} (hT : wfTable T = true) (c1 c2 : Nat) (f1 f2 : Vals) :
    vEq T (.inst c1 f1) (.inst c2 f2) = (c1 == c2 && fieldsEq T (T.attrs c1) f1 f2) := by
  rw [vEq]
  by_cases hc : c1 = c2
  · subst hc
    simp [isProperSub, isSub_refl]
  · have hne : (c1 == c2) = false := by simpa using hc
    simp only [hne, Bool.false_and]
    split
    · rename_i hp
      unfold isProperSub at hp
      simp only [Bool.and_eq_true, bne_iff_ne, ne_eq] at hp
      have : isSub T c1 c2 = false := by
        rw [Bool.eq_false_iff]; intro h
        exact hc (isSub_antisymm hT h hp.2)
      simp [this]
    · rename_i hp
      unfold isProperSub at hp
      have : isSub T c2 c1 = false := by
        rw [Bool.eq_false_iff]; intro h
        apply hp
        simp only [Bool.and_eq_true, bne_iff_ne, ne_eq]
        exact ⟨fun e => hc e.symm, h⟩
      simp [this]

/-! ### the attribute loop -/

theorem fieldsEq_nil (T : Table) (xs ys : Vals) : fieldsEq T [] xs ys = true := by
  rw [fieldsEq]

theorem fieldsEq_cons (T : Table) (a : AttrInfo) (as : List AttrInfo) (v w : Val) (r s : Vals) :
    fieldsEq T (a :: as) (.cons v r) (.cons w s) = ((!a.compare || attrEq T v w) && fieldsEq T as r s) := by
  cases v <;> cases w <;> simp [fieldsEq, attrEq]

theorem fieldsEq_nil_left (T : Table) (a : AttrInfo) (as : List AttrInfo) (ys : Vals) :
    fieldsEq T (a :: as) .nil ys = true := by
  rw [fieldsEq]

theorem attrEq_of_not_bound (T : Table) {v : Val} (w : Val) (h : v.isBound = false) :
    attrEq T v w = vEq T v w := by
  cases v <;> cases w <;> simp_all [attrEq, Val.isBound]

theorem vEq_isBound {T : Table} {v w : Val} (h : vEq T v w = true) : v.isBound = w.isBound := by
  cases v <;> cases w <;> simp_all [vEq, Val.isBound]

theorem attrEq_bound_left {T : Table} {o : Option Nat} {f : Nat} {w : Val}
    (h : attrEq T (.bound o f) w = true) : ∃ p, w = .bound p f := by
  cases w <;> simp_all [attrEq, vEq]

theorem attrEq_symm_of {T : Table} {v w : Val} (h : vEq T v w = vEq T w v) : attrEq T v w = attrEq T w v := by
  cases v <;> cases w <;> simp_all [attrEq]
  exact Bool.eq_iff_iff.2 ⟨fun e => by simp at e; simp [e], fun e => by simp at e; simp [e]⟩

/-! ### reflexivity -/

theorem vEq_refl_all (T : Table) :
    (∀ v, vEq T v v = true) ∧
    (∀ xs, valsEq T xs xs = true ∧ ∀ as, fieldsEq T as xs xs = true) ∧
    (∀ kvs, kvsEq T kvs kvs = true) := by
  apply val_induction
  · simp [vEq]
  · intro n; simp [vEq]
  · intro s; simp [vEq]
  · intro n; simp [vEq]
  · intro xs h; simp [vEq, h.1]
  · intro kvs h; simp [vEq, h]
  · intro xs h; simp [vEq, h.1]
  · intro c fs h; simp [vEq, isProperSub, isSub_refl, h.2]
  · intro o f; simp [vEq]
  · intro i; simp [vEq]
  · intro i; simp [vEq]
  · intro i; simp [vEq]
  · simp [vEq]
  · simp [vEq]
  · refine ⟨by simp [valsEq], ?_⟩
    intro as; cases as <;> simp [fieldsEq]
  · intro v r hv hr
    refine ⟨by simp [valsEq, hv, hr.1], ?_⟩
    intro as
    cases as with
    | nil => simp [fieldsEq]
    | cons a as =>
      rw [fieldsEq_cons, hr.2]
      have : attrEq T v v = true := by
        cases v <;> simp_all [attrEq]
      simp [this]
  · simp [kvsEq]
  · intro k v r hk hv hr; simp [kvsEq, hk, hv, hr]

theorem vEq_refl (T : Table) (v : Val) : vEq T v v = true := (vEq_refl_all T).1 v

/-! ### symmetry -/

theorem beq_comm' {α : Type} [DecidableEq α] (a b : α) : (a == b) = (b == a) := by
  by_cases h : a = b
  · subst h; rfl
  · have h' : ¬ b = a := fun e => h e.symm
    rw [beq_eq_false_iff_ne.2 h, beq_eq_false_iff_ne.2 h']

theorem vEq_symm_all (T : Table) (hT : wfTable T = true) :
    (∀ v, wfVal T v = true → ∀ w, wfVal T w = true → vEq T v w = vEq T w v) ∧
    (∀ xs, wfVals T xs = true →
           (∀ ys, wfVals T ys = true → valsEq T xs ys = valsEq T ys xs) ∧
           (∀ as ys, wfVals T ys = true → lenV xs = lenV ys → fieldsEq T as xs ys = fieldsEq T as ys xs)) ∧
    (∀ kvs, wfKVs T kvs = true → ∀ l, wfKVs T l = true → kvsEq T kvs l = kvsEq T l kvs) := by
  apply val_induction
  · intro _ w _; cases w <;> simp [vEq]
  · intro n _ w _; cases w <;> simp [vEq]; exact beq_comm' _ _
  · intro s _ w _; cases w <;> simp [vEq]; exact beq_comm' _ _
  · intro n _ w _; cases w <;> simp [vEq]; exact beq_comm' _ _
  · intro xs h hw w hw'; cases w <;> simp [vEq]
    exact (h (by simpa [wfVal] using hw)).1 _ (by simpa [wfVal] using hw')
  · intro kvs h hw w hw'; cases w <;> simp [vEq]
    exact h (by simpa [wfVal] using hw) _ (by simpa [wfVal] using hw')
  · intro xs h hw w hw'; cases w <;> simp [vEq]
    exact (h (by simpa [wfVal] using hw)).1 _ (by simpa [wfVal] using hw')
  · intro c fs h hw w hw'
    cases w with
    | inst c2 f2 =>
      rw [vEq_inst hT, vEq_inst hT]
      simp only [wfVal, Bool.and_eq_true, beq_iff_eq] at hw hw'
      by_cases hc : c = c2
      · subst hc
        simp only [beq_self_eq_true, Bool.true_and]
        exact (h hw.2).2 _ _ hw'.2 (by rw [hw.1, hw'.1])
      · have h1 : (c == c2) = false := by simpa using hc
        have h2 : (c2 == c) = false := by simpa using fun e : c2 = c => hc e.symm
        simp [h1, h2]
    | _ => simp [vEq]
  · intro o f _ w _; cases w <;> simp [vEq]
    rw [Bool.eq_iff_iff]
    simp only [Bool.and_eq_true, beq_iff_eq]
    constructor <;> rintro ⟨a, b⟩ <;> exact ⟨a.symm, b.symm⟩
  · intro i _ w _; cases w <;> simp [vEq]; exact beq_comm' _ _
  · intro i _ w _; cases w <;> simp [vEq]; exact beq_comm' _ _
  · intro i _ w _; cases w <;> simp [vEq]; exact beq_comm' _ _
  · intro _ w _; cases w <;> simp [vEq]
  · intro _ w _; cases w <;> simp [vEq]
  · intro _
    refine ⟨fun ys _ => by cases ys <;> simp [valsEq], ?_⟩
    intro as ys _ hl
    cases ys with
    | nil => rfl
    | cons w s => simp [lenV] at hl
  · intro v r hv hr hw
    simp only [wfVals, Bool.and_eq_true] at hw
    refine ⟨fun ys hy => ?_, ?_⟩
    · cases ys with
      | nil => simp [valsEq]
      | cons w s =>
        simp only [wfVals, Bool.and_eq_true] at hy
        simp [valsEq, hv hw.1 w hy.1, (hr hw.2).1 s hy.2]
    · intro as ys hy hl
      cases ys with
      | nil => simp [lenV] at hl
      | cons w s =>
        simp only [wfVals, Bool.and_eq_true] at hy
        cases as with
        | nil => simp [fieldsEq]
        | cons a as =>
          rw [fieldsEq_cons, fieldsEq_cons, attrEq_symm_of (hv hw.1 w hy.1),
            (hr hw.2).2 as s hy.2 (by simpa [lenV] using hl)]
  · intro _ l _; cases l <;> simp [kvsEq]
  · intro k v r hk hv hr hw l hl
    simp only [wfKVs, Bool.and_eq_true] at hw
    cases l with
    | nil => simp [kvsEq]
    | cons k2 v2 r2 =>
      simp only [wfKVs, Bool.and_eq_true] at hl
      simp [kvsEq, hk hw.1.1 k2 hl.1.1, hv hw.1.2 v2 hl.1.2, hr hw.2 r2 hl.2]

theorem vEq_symm {T : Table} (hT : wfTable T = true) {v w : Val} (hv : wfVal T v = true) (hw : wfVal T w = true) :
    vEq T v w = vEq T w v := (vEq_symm_all T hT).1 v hv w hw

/-! ### transitivity -/

theorem attrEq_trans {T : Table} {v w u : Val}
    (h : vEq T v w = true → vEq T w u = true → vEq T v u = true)
    (h1 : attrEq T v w = true) (h2 : attrEq T w u = true) : attrEq T v u = true := by
  cases hb : v.isBound with
  | true =>
    cases v <;> simp [Val.isBound] at hb
    rename_i o f
    obtain ⟨p, rfl⟩ := attrEq_bound_left h1
    obtain ⟨q, rfl⟩ := attrEq_bound_left h2
    simp [attrEq]
  | false =>
    rw [attrEq_of_not_bound T w hb] at h1
    have hwb : w.isBound = false := by rw [← vEq_isBound h1]; exact hb
    rw [attrEq_of_not_bound T u hwb] at h2
    rw [attrEq_of_not_bound T u hb]
    exact h h1 h2

theorem vEq_trans_all (T : Table) (hT : wfTable T = true) :
    (∀ v, wfVal T v = true → ∀ w u, wfVal T w = true → wfVal T u = true →
        vEq T v w = true → vEq T w u = true → vEq T v u = true) ∧
    (∀ xs, wfVals T xs = true →
       (∀ ys zs, wfVals T ys = true → wfVals T zs = true →
          valsEq T xs ys = true → valsEq T ys zs = true → valsEq T xs zs = true) ∧
       (∀ as ys zs, wfVals T ys = true → wfVals T zs = true → lenV ys = lenV xs → lenV zs = lenV xs →
          fieldsEq T as xs ys = true → fieldsEq T as ys zs = true → fieldsEq T as xs zs = true)) ∧
    (∀ kvs, wfKVs T kvs = true → ∀ l m, wfKVs T l = true → wfKVs T m = true →
        kvsEq T kvs l = true → kvsEq T l m = true → kvsEq T kvs m = true) := by
  apply val_induction
  · intro _ w u _ _ h1 h2; cases w <;> cases u <;> simp_all [vEq]
  · intro n _ w u _ _ h1 h2; cases w <;> cases u <;> simp_all [vEq]
  · intro s _ w u _ _ h1 h2; cases w <;> cases u <;> simp_all [vEq]
  · intro n _ w u _ _ h1 h2; cases w <;> cases u <;> simp_all [vEq]
  · intro xs h hw w u hw' hu' h1 h2
    cases w <;> simp [vEq] at h1
    cases u <;> simp [vEq] at h2
    simp only [vEq]
    exact (h (by simpa [wfVal] using hw)).1 _ _ (by simpa [wfVal] using hw') (by simpa [wfVal] using hu') h1 h2
  · intro kvs h hw w u hw' hu' h1 h2
    cases w <;> simp [vEq] at h1
    cases u <;> simp [vEq] at h2
    simp only [vEq]
    exact h (by simpa [wfVal] using hw) _ _ (by simpa [wfVal] using hw') (by simpa [wfVal] using hu') h1 h2
  · intro xs h hw w u hw' hu' h1 h2
    cases w <;> simp [vEq] at h1
    cases u <;> simp [vEq] at h2
    simp only [vEq]
    exact (h (by simpa [wfVal] using hw)).1 _ _ (by simpa [wfVal] using hw') (by simpa [wfVal] using hu') h1 h2
  · intro c fs h hw w u hw' hu' h1 h2
    cases w with
    | inst c2 f2 =>
      cases u with
      | inst c3 f3 =>
        rw [vEq_inst hT] at h1 h2 ⊢
        simp only [Bool.and_eq_true, beq_iff_eq] at h1 h2 ⊢
        obtain ⟨rfl, h1⟩ := h1
        obtain ⟨rfl, h2⟩ := h2
        simp only [wfVal, Bool.and_eq_true, beq_iff_eq] at hw hw' hu'
        exact ⟨rfl, (h hw.2).2 _ _ _ hw'.2 hu'.2 (by rw [hw'.1, hw.1]) (by rw [hu'.1, hw.1]) h1 h2⟩
      | _ => simp [vEq] at h2
    | _ => simp [vEq] at h1
  · intro o f _ w u _ _ h1 h2; cases w <;> cases u <;> simp_all [vEq]
  · intro i _ w u _ _ h1 h2; cases w <;> cases u <;> simp_all [vEq]
  · intro i _ w u _ _ h1 h2; cases w <;> cases u <;> simp_all [vEq]
  · intro i _ w u _ _ h1 h2; cases w <;> cases u <;> simp_all [vEq]
  · intro _ w u _ _ h1 h2; cases w <;> cases u <;> simp_all [vEq]
  · intro _ w u _ _ h1 h2; cases w <;> cases u <;> simp_all [vEq]
  · intro _
    refine ⟨?_, ?_⟩
    · intro ys zs _ _ h1 h2; cases ys <;> cases zs <;> simp_all [valsEq]
    · intro as ys zs _ _ hl1 hl2 _ _
      cases as <;> simp [fieldsEq]
  · intro v r hv hr hw
    simp only [wfVals, Bool.and_eq_true] at hw
    refine ⟨?_, ?_⟩
    · intro ys zs hy hz h1 h2
      cases ys with
      | nil => simp [valsEq] at h1
      | cons w s =>
        cases zs with
        | nil => simp [valsEq] at h2
        | cons u t =>
          simp only [wfVals, Bool.and_eq_true] at hy hz
          simp only [valsEq, Bool.and_eq_true] at h1 h2 ⊢
          exact ⟨hv hw.1 w u hy.1 hz.1 h1.1 h2.1, (hr hw.2).1 s t hy.2 hz.2 h1.2 h2.2⟩
    · intro as ys zs hy hz hl1 hl2 h1 h2
      cases ys with
      | nil => simp [lenV] at hl1
      | cons w s =>
        cases zs with
        | nil => simp [lenV] at hl2
        | cons u t =>
          cases as with
          | nil => simp [fieldsEq]
          | cons a as =>
            simp only [wfVals, Bool.and_eq_true] at hy hz
            rw [fieldsEq_cons] at h1 h2 ⊢
            simp only [Bool.and_eq_true, Bool.or_eq_true, Bool.not_eq_true'] at h1 h2 ⊢
            refine ⟨?_, (hr hw.2).2 as s t hy.2 hz.2 (by simpa [lenV] using hl1) (by simpa [lenV] using hl2) h1.2 h2.2⟩
            rcases h1.1 with hc | h1'
            · exact Or.inl hc
            · rcases h2.1 with hc | h2'
              · exact Or.inl hc
              · exact Or.inr (attrEq_trans (hv hw.1 w u hy.1 hz.1) h1' h2')
  · intro _ l m _ _ h1 h2; cases l <;> cases m <;> simp_all [kvsEq]
  · intro k v r hk hv hr hw l m hl hm h1 h2
    simp only [wfKVs, Bool.and_eq_true] at hw
    cases l with
    | nil => simp [kvsEq] at h1
    | cons k2 v2 r2 =>
      cases m with
      | nil => simp [kvsEq] at h2
      | cons k3 v3 r3 =>
        simp only [wfKVs, Bool.and_eq_true] at hl hm
        simp only [kvsEq, Bool.and_eq_true] at h1 h2 ⊢
        exact ⟨⟨hk hw.1.1 k2 k3 hl.1.1 hm.1.1 h1.1.1 h2.1.1, hv hw.1.2 v2 v3 hl.1.2 hm.1.2 h1.1.2 h2.1.2⟩,
          hr hw.2 r2 r3 hl.2 hm.2 h1.2 h2.2⟩

theorem vEq_trans {T : Table} (hT : wfTable T = true) {v w u : Val}
    (hv : wfVal T v = true) (hw : wfVal T w = true) (hu : wfVal T u = true)
    (h1 : vEq T v w = true) (h2 : vEq T w u = true) : vEq T v u = true :=
  (vEq_trans_all T hT).1 v hv w u hw hu h1 h2

/-! ### equality, attribute by attribute -/

theorem fieldsEq_iff (T : Table) : ∀ (as : List AttrInfo) (xs ys : Vals),
    lenV xs = as.length → lenV ys = as.length →
    (fieldsEq T as xs ys = true ↔
      ∀ i (h : i < as.length), as[i].compare = true → attrEq T (nthVal xs i) (nthVal ys i) = true) := by
  intro as
  induction as with
  | nil => intro xs ys _ _; simp [fieldsEq_nil]
  | cons a as ih =>
    intro xs ys hx hy
    cases xs with
    | nil => simp [lenV] at hx
    | cons v r =>
      cases ys with
      | nil => simp [lenV] at hy
      | cons w s =>
        simp only [lenV, List.length_cons, Nat.add_right_cancel_iff] at hx hy
        rw [fieldsEq_cons, Bool.and_eq_true, ih r s hx hy]
        constructor
        · rintro ⟨h0, hrest⟩ i hi hc
          cases i with
          | zero =>
            simp only [List.getElem_cons_zero] at hc
            simpa [nthVal, hc] using h0
          | succ j =>
            simp only [List.getElem_cons_succ] at hc
            simpa [nthVal] using hrest j (by simpa using hi) hc
        · intro h
          refine ⟨?_, ?_⟩
          · cases hc : a.compare with
            | false => simp
            | true => simpa [nthVal, hc] using h 0 (by simp) (by simpa using hc)
          · intro j hj hc
            simpa [nthVal] using h (j + 1) (by simpa using hj) (by simpa using hc)

/-! ### deepcopy -/

theorem dc_eq_all (T : Table) :
    (∀ v, okVal v = true → (v.isBound = false → vEq T (dcVal v) v = true) ∧ attrEq T (dcVal v) v = true) ∧
    (∀ xs, (okElems xs = true → valsEq T (dcVals xs) xs = true) ∧
           (okFields xs = true → ∀ as, fieldsEq T as (dcVals xs) xs = true ∧
              fieldsEq T as (dcFields as xs) xs = true)) ∧
    (∀ kvs, okKVs kvs = true → kvsEq T (dcKVs kvs) kvs = true) := by
  apply val_induction
  · intro _; simp [dcVal, vEq, attrEq]
  · intro n _; simp [dcVal, vEq, attrEq]
  · intro s _; simp [dcVal, vEq, attrEq]
  · intro n _; simp [dcVal, vEq, attrEq]
  · intro xs h hok
    have := h.1 (by simpa [okVal] using hok)
    simp [dcVal, vEq, attrEq, this]
  · intro kvs h hok
    have := h (by simpa [okVal] using hok)
    simp [dcVal, vEq, attrEq, this]
  · intro xs h hok
    have := h.1 (by simpa [okVal] using hok)
    simp [dcVal, vEq, attrEq, this]
  · intro c fs h hok
    have := (h.2 (by simpa [okVal] using hok) (T.attrs c)).1
    simp [dcVal, vEq, attrEq, isProperSub, isSub_refl, this]
  · intro o f _
    cases o <;> simp [dcVal, attrEq, Val.isBound]
  · intro i _; simp [dcVal, vEq, attrEq]
  · intro i _; simp [dcVal, vEq, attrEq]
  · intro i _; simp [dcVal, vEq, attrEq]
  · intro _; simp [dcVal, vEq, attrEq]
  · intro h; simp [okVal] at h
  · refine ⟨fun _ => by simp [dcVals, valsEq], fun _ as => ?_⟩
    cases as <;> simp [dcVals, dcFields, fieldsEq]
  · intro v r hv hr
    refine ⟨?_, ?_⟩
    · intro hok
      simp only [okElems, Bool.and_eq_true, Bool.not_eq_true'] at hok
      simp [dcVals, valsEq, (hv hok.1.2).1 hok.1.1, hr.1 hok.2]
    · intro hok as
      simp only [okFields, Bool.and_eq_true] at hok
      cases as with
      | nil => simp [fieldsEq_nil]
      | cons a as =>
        have hr' := hr.2 hok.2 as
        have hat := (hv hok.1).2
        refine ⟨?_, ?_⟩
        · simp only [dcVals]
          rw [fieldsEq_cons, hr'.1, hat]; simp
        · have hrefl : attrEq T v v = true := by
            have := vEq_refl T v
            cases v <;> simp_all [attrEq]
          cases v with
          | bound o f =>
            cases o with
            | none => simp only [dcFields]; rw [fieldsEq_cons, hr'.2, hrefl]; simp
            | some o =>
              simp only [dcFields]
              split
              · rw [fieldsEq_cons, hr'.2, hrefl]; simp
              · rw [fieldsEq_cons, hr'.2, hat]; simp
          | _ =>
            simp only [dcFields]
            split
            all_goals first
              | (rw [fieldsEq_cons, hr'.2, hrefl]; simp)
              | (rw [fieldsEq_cons, hr'.2, hat]; simp)
  · intro _; simp [dcKVs, kvsEq]
  · intro k v r hk hv hr hok
    simp only [okKVs, Bool.and_eq_true, Bool.not_eq_true'] at hok
    simp [dcKVs, kvsEq, vEq_refl, (hv hok.1.2).1 hok.1.1.2, hr hok.2]

/-! ### the constructor refines its attribute-wise specification -/

@[simp] theorem hdV_cons (v : Val) (r : Vals) : hdV (.cons v r) = v := rfl
@[simp] theorem tlV_cons (v : Val) (r : Vals) : tlV (.cons v r) = r := rfl
@[simp] theorem hdV_nil : hdV .nil = .missing := rfl
@[simp] theorem tlV_nil : tlV .nil = .nil := rfl

@[simp] theorem isMissing_missing : Val.missing.isMissing = true := rfl

theorem isMissing_iff (v : Val) : v.isMissing = true ↔ v = .missing := by
  cases v <;> simp [Val.isMissing]

theorem dcVal_isMissing (v : Val) : (dcVal v).isMissing = v.isMissing := by
  cases v with
  | bound o f => cases o <;> rfl
  | _ => rfl

@[simp] theorem protect_isMissing (a : AttrInfo) (v : Val) : (protect a v).isMissing = v.isMissing := by
  unfold protect
  split
  · rfl
  · exact dcVal_isMissing v

/-- The value an init-enabled attribute is given by the constructor that owns it. -/
def assigned (a : AttrInfo) (kv : Val) : Val := if kv.isMissing then a.dflt else protect a kv

/-- `v` if it is a value, else what was there. -/
def orKeep (v cv : Val) : Val := if v.isMissing then cv else v

theorem orKeep_idem (v cv : Val) : orKeep v (orKeep v cv) = orKeep v cv := by
  unfold orKeep; split <;> simp_all

/-- One constructor (`spec_cls = p`) seen from one attribute slot. -/
def slotStep (p : Nat) (a : AttrInfo) (kv cv : Val) : Val :=
  if a.init && a.owner == p then orKeep (assigned a kv) cv else cv

/-- the slot of one attribute in `parentKwargs` -/
def slotPk (p : Nat) (a : AttrInfo) (kv : Val) : Val :=
  if a.owner != p then .missing
  else if !a.init then .missing
  else if kv.isMissing then a.dflt
  else protect a kv

/-- the slot of one attribute in `initOwn` -/
def slotOwn (p : Nat) (top : Bool) (a : AttrInfo) (kv cv : Val) : Val :=
  if !a.init || a.owner != p then cv
  else if kv.isMissing then (if a.dflt.isMissing then cv else a.dflt)
  else if top then protect a kv else kv

theorem parentKwargs_cons (p : Nat) (a : AttrInfo) (as : List AttrInfo) (kw : Vals) :
    parentKwargs p (a :: as) kw = .cons (slotPk p a (hdV kw)) (parentKwargs p as (tlV kw)) := rfl

theorem initOwn_cons (p : Nat) (top : Bool) (a : AttrInfo) (as : List AttrInfo) (kw cur : Vals) :
    initOwn p top (a :: as) kw cur =
      .cons (slotOwn p top a (hdV kw) (hdV cur)) (initOwn p top as (tlV kw) (tlV cur)) := rfl

/-- A parent constructor called with the forwarded keyword arguments: the slot gets the (copied) passed value,
else the default — WHATEVER the passed value is. -/
theorem slotOwn_parent (p : Nat) (a : AttrInfo) (kv cv : Val) :
    slotOwn p false a (slotPk p a kv) cv = slotStep p a kv cv := by
  unfold slotOwn slotPk slotStep assigned orKeep
  cases hi : a.init <;> cases ho : (a.owner == p) <;> simp [bne, ho]
  cases hk : kv.isMissing <;> simp [hk]
  cases hd : a.dflt.isMissing <;> simp [hd]

/-- The metadata owner's own constructor. -/
theorem slotOwn_top (m : Nat) (a : AttrInfo) (kv cv : Val) :
    slotOwn m true a kv cv = slotStep m a kv cv := by
  unfold slotOwn slotStep assigned orKeep
  cases hi : a.init <;> cases ho : (a.owner == m) <;> simp [bne, ho]
  cases hk : kv.isMissing <;> simp [hk]

/-- All parent constructors, seen from one attribute slot. -/
def slotParents : List Nat → AttrInfo → Val → Val → Val
  | [], _, _, cv => cv
  | p :: ps, a, kv, cv => slotParents ps a kv (slotStep p a kv cv)

theorem initParents_cons : ∀ (ps : List Nat) (a : AttrInfo) (as : List AttrInfo) (kw cur : Vals),
    hdV (initParents ps (a :: as) kw cur) = slotParents ps a (hdV kw) (hdV cur) ∧
    tlV (initParents ps (a :: as) kw cur) = initParents ps as (tlV kw) (tlV cur) := by
  intro ps
  induction ps with
  | nil => intro a as kw cur; simp [initParents, slotParents]
  | cons p ps ih =>
    intro a as kw cur
    simp only [initParents, parentKwargs_cons, initOwn_cons, ih, hdV_cons, tlV_cons, slotOwn_parent, slotParents]
    simp

theorem slotParents_eq (a : AttrInfo) (kv : Val) : ∀ (ps : List Nat) (cv : Val),
    slotParents ps a kv cv =
      if a.init && ps.contains a.owner then orKeep (assigned a kv) cv else cv := by
  intro ps
  induction ps with
  | nil => intro cv; simp [slotParents]
  | cons p ps ih =>
    intro cv
    simp only [slotParents, ih, slotStep]
    cases hi : a.init <;> cases ho : (a.owner == p) <;> cases hc : ps.contains a.owner <;>
      simp_all [List.contains_cons, orKeep_idem]

/-- **The constructor stores what its specification says**: run as Python runs it (parent constructors base-most
first, each assigning the attributes it owns from the forwarded keyword arguments, then the own attributes),
every attribute ends up holding `storedSpec` — the passed value (copied unless `do_not_copy`) or the default —
provided each init-enabled attribute is owned by one of the constructors that run. -/
theorem init_fields_eq (m : Nat) (ps : List Nat) : ∀ (as : List AttrInfo) (kw : Vals),
    (∀ a ∈ as, a.init = true → (a.owner == m || ps.contains a.owner) = true) →
    initOwn m true as kw (initParents ps as kw (allMissing as)) = storedSpec as kw := by
  intro as
  induction as with
  | nil => intro kw _; rfl
  | cons a as ih =>
    intro kw h
    have hcons := initParents_cons ps a as kw (allMissing (a :: as))
    simp only [initOwn_cons, storedSpec, storedSlot, hcons.1, hcons.2]
    have htl : tlV (allMissing (a :: as)) = allMissing as := rfl
    have hhd : hdV (allMissing (a :: as)) = .missing := rfl
    rw [htl, hhd, ih (tlV kw) (fun b hb => h b (List.mem_cons_of_mem _ hb))]
    congr 1
    rw [slotOwn_top, slotParents_eq]
    have ha := h a (List.mem_cons_self ..)
    unfold slotStep orKeep assigned
    cases hi : a.init
    · simp
    · have ha' := ha hi
      have hin : ((a.owner == m) = true ∨ ps.contains a.owner = true) := by simpa using ha'
      cases hk : (hdV kw).isMissing <;> cases hd : a.dflt.isMissing <;>
        cases ho : (a.owner == m) <;> cases hc : ps.contains a.owner <;>
        first
        | (exfalso; rcases hin with h | h <;> simp_all; done)
        | (have hdm := (isMissing_iff _).1 hd; simp [hk, hd, hdm])
        | simp [hk, hd]

/-! ### what `getattr` shows for a stored state -/

theorem showFrom_cons (as0 : List AttrInfo) (st0 : Vals) (a : AttrInfo) (as : List AttrInfo) (st : Vals) :
    showFrom as0 st0 (a :: as) st = .cons (shownAttr as0 st0 a (hdV st)) (showFrom as0 st0 as (tlV st)) := rfl

theorem nthVal_zero (kw : Vals) : nthVal kw 0 = hdV kw := by cases kw <;> rfl
theorem nthVal_succ (kw : Vals) (i : Nat) : nthVal kw (i + 1) = nthVal (tlV kw) i := by
  cases kw <;> simp [nthVal]

theorem nthVal_showFrom (as0 : List AttrInfo) (st0 : Vals) : ∀ (as : List AttrInfo) (st : Vals) (i : Nat)
    (h : i < as.length), nthVal (showFrom as0 st0 as st) i = shownAttr as0 st0 (as[i]) (nthVal st i) := by
  intro as
  induction as with
  | nil => intro st i h; simp at h
  | cons a as ih =>
    intro st i h
    cases i with
    | zero => simp [showFrom, nthVal, nthVal_zero]
    | succ i => simp [showFrom, nthVal, nthVal_succ, ih (tlV st) i (by simpa using h)]

theorem nthVal_storedSpec : ∀ (as : List AttrInfo) (kw : Vals) (i : Nat) (h : i < as.length),
    nthVal (storedSpec as kw) i =
      storedSlot (as[i]) (nthVal kw i) := by
  intro as
  induction as with
  | nil => intro kw i h; simp at h
  | cons a as ih =>
    intro kw i h
    cases i with
    | zero => simp [storedSpec, nthVal, nthVal_zero]
    | succ i => simp [storedSpec, nthVal, nthVal_succ, ih (tlV kw) i (by simpa using h)]

/-- A plain attribute shows its entry, else what the class shows. -/
theorem shownAttr_plain (as : List AttrInfo) (st : Vals) {a : AttrInfo} (h : a.prop = none) (sv : Val) :
    shownAttr as st a sv = if sv.isMissing then a.dflt else sv := by
  unfold shownAttr; rw [h]

/-- A stored value that the attribute honours is what is shown. -/
theorem shownAttr_stored (as : List AttrInfo) (st : Vals) {a : AttrInfo} (h : a.storable = true) {sv : Val}
    (hv : sv.isMissing = false) : shownAttr as st a sv = sv := by
  unfold shownAttr
  unfold AttrInfo.storable at h
  cases hp : a.prop with
  | none => simp [hv]
  | some p => rw [hp] at h; simp at h; simp [hv, h]

/-- Without property-backed attributes `getattr` shows the entry, else what the class shows (`viewFields`). -/
theorem showFrom_plain (as0 : List AttrInfo) (st0 : Vals) : ∀ (as : List AttrInfo) (st : Vals),
    (∀ a ∈ as, a.prop = none) → showFrom as0 st0 as st = viewFields as st := by
  intro as
  induction as with
  | nil => intro st _; rfl
  | cons a as ih =>
    intro st h
    rw [showFrom_cons, viewFields, shownAttr_plain _ _ (h a (List.mem_cons_self ..)),
      ih (tlV st) (fun b hb => h b (List.mem_cons_of_mem _ hb))]

/-- For a plain attribute the specification of the constructor is `shown a kv`. -/
theorem nthVal_specFields_plain (as : List AttrInfo) (kw : Vals) (i : Nat) (h : i < as.length)
    (hp : (as[i]).prop = none) : nthVal (specFields as kw) i = shown (as[i]) (nthVal kw i) := by
  unfold specFields showS
  rw [nthVal_showFrom _ _ _ _ _ h, nthVal_storedSpec _ _ _ h, shownAttr_plain _ _ hp]
  unfold shown storedSlot
  cases hi : (as[i]).init <;> cases hk : (nthVal kw i).isMissing <;> simp [hk]

/-! ### re-construction -/

theorem construct_eq_spec {T : Table} {c : Nat} (h : ownersOk T c = true) (kw : Vals) :
    construct T c kw = specFields (T.attrs c) kw := by
  unfold construct initFields specFields
  congr 1
  apply init_fields_eq
  intro a ha hi
  unfold ownersOk at h
  have := (List.all_eq_true.1 h) a ha
  simpa [hi] using this

theorem attrEq_refl (T : Table) (v : Val) : attrEq T v v = true := by
  have := vEq_refl T v
  cases v <;> simp_all [attrEq]

theorem ownValues_cons (a : AttrInfo) (as : List AttrInfo) (v : Val) (r : Vals) :
    ownValues (a :: as) (.cons v r) = .cons (ownValue a v) (ownValues as r) := rfl

theorem storedSpec_cons (a : AttrInfo) (as : List AttrInfo) (kw : Vals) :
    storedSpec (a :: as) kw = .cons (storedSlot a (hdV kw)) (storedSpec as (tlV kw)) := rfl

/-- One attribute of the re-constructed instance: what it shows is attribute-equal to what the original shows. -/
theorem rc_slot (T : Table) (as0 : List AttrInfo) (st0 : Vals) (a : AttrInfo) (v : Val) (hok : okVal v = true)
    (h : (a.init = true ∧ v.isMissing = false ∧ a.storable = true) ∨ (a.prop = none ∧ attrEq T a.dflt v = true)) :
    attrEq T (shownAttr as0 st0 a (storedSlot a (ownValue a v))) v = true := by
  have hdc := ((dc_eq_all T).1 v hok).2
  have hprot : attrEq T (protect a v) v = true := by
    unfold protect; split
    · exact attrEq_refl T v
    · exact hdc
  -- what is handed over and stored for a value that is there
  have hpass : a.init = true → v.isMissing = false →
      (storedSlot a (ownValue a v)).isMissing = false ∧ attrEq T (storedSlot a (ownValue a v)) v = true := by
    intro hi hv
    have h0 : (ownValue a v).isMissing = false ∧ attrEq T (protect a (ownValue a v)) v = true := by
      cases v with
      | missing => simp [Val.isMissing] at hv
      | bound o f =>
        cases o with
        | none =>
          have : ownValue a (.bound none f) = .bound (some origId) f := by simp [ownValue, hi]
          rw [this]
          refine ⟨rfl, ?_⟩
          cases hd : a.doNotCopy <;> simp [protect, hd, attrEq, dcVal]
        | some o =>
          have : ownValue a (.bound (some o) f) = .bound (some o) f := by simp [ownValue, hi]
          rw [this]; exact ⟨rfl, hprot⟩
      | _ => exact ⟨by simp [ownValue, hi, Val.isMissing], by simpa [ownValue, hi] using hprot⟩
    unfold storedSlot
    rw [if_pos hi, if_neg (by simp [h0.1])]
    exact ⟨by rw [protect_isMissing]; exact h0.1, h0.2⟩
  rcases h with ⟨hi, hv, hs⟩ | ⟨hp, hd⟩
  · obtain ⟨hm, he⟩ := hpass hi hv
    rw [shownAttr_stored _ _ hs hm]; exact he
  · rw [shownAttr_plain _ _ hp]
    cases hi : a.init with
    | false => simp [storedSlot, hi, hd]
    | true =>
      cases hv : v.isMissing with
      | true =>
        have : v = .missing := (isMissing_iff _).1 hv
        subst this
        simp [ownValue, storedSlot, hi, hd]
      | false =>
        obtain ⟨hm, he⟩ := hpass hi hv
        rw [if_neg (by simp [hm])]; exact he

theorem rc_fields_eq_gen (T : Table) (as0 : List AttrInfo) (st0 : Vals) : ∀ (as : List AttrInfo) (fs : Vals),
    okFields fs = true → reconstructible T as fs = true →
    fieldsEq T as (showFrom as0 st0 as (storedSpec as (ownValues as fs))) fs = true := by
  intro as
  induction as with
  | nil => intro fs _ _; exact fieldsEq_nil T _ _
  | cons a as ih =>
    intro fs hok hrc
    cases fs with
    | nil => simp [reconstructible] at hrc
    | cons v r =>
      simp only [okFields, Bool.and_eq_true] at hok
      simp only [reconstructible, Bool.and_eq_true, Bool.or_eq_true, Bool.not_eq_true',
        Option.isNone_iff_eq_none] at hrc
      have hr := ih r hok.2 hrc.2
      rw [ownValues_cons, storedSpec_cons, showFrom_cons]
      simp only [hdV_cons, tlV_cons]
      rw [fieldsEq_cons, hr, Bool.and_true]
      rcases hrc.1 with (h | h) | h
      · simp [h]
      · rw [rc_slot T as0 st0 a v hok.1 (Or.inl ⟨h.1.1, h.1.2, h.2⟩)]; simp
      · rw [rc_slot T as0 st0 a v hok.1 (Or.inr h)]; simp

theorem rc_fields_eq (T : Table) (as : List AttrInfo) (fs : Vals)
    (hok : okFields fs = true) (hrc : reconstructible T as fs = true) :
    fieldsEq T as (rcFields as fs) fs = true := by
  unfold rcFields specFields showS
  exact rc_fields_eq_gen T as _ as fs hok hrc

/-! ### deepcopy of the stored state, as `getattr` shows it (property-backed attributes included) -/

/-- `DeepCopyMethod.deepcopy` on one `__dict__` entry. -/
def dcSlot (a : AttrInfo) (v : Val) : Val :=
  match v with
  | .bound none f => .bound none f
  | v => if a.doNotCopy then v else dcVal v

theorem dcFields_cons (a : AttrInfo) (as : List AttrInfo) (v : Val) (r : Vals) :
    dcFields (a :: as) (.cons v r) = .cons (dcSlot a v) (dcFields as r) := by
  cases v with
  | bound o f => cases o <;> simp only [dcFields, dcSlot] <;> split <;> rfl
  | _ => simp only [dcFields, dcSlot] <;> split <;> rfl

theorem dcFields_nil (as : List AttrInfo) : dcFields as .nil = .nil := by
  cases as <;> rfl

theorem dcSlot_isMissing (a : AttrInfo) (v : Val) : (dcSlot a v).isMissing = v.isMissing := by
  cases v with
  | bound o f => cases o <;> simp only [dcSlot] <;> (try split) <;> rfl
  | _ => simp only [dcSlot] <;> split <;> rfl

theorem dcSlot_attrEq (T : Table) (a : AttrInfo) {v : Val} (hok : okVal v = true) :
    attrEq T (dcSlot a v) v = true := by
  have hdc := ((dc_eq_all T).1 v hok).2
  cases v with
  | bound o f =>
    cases o with
    | none => simp [dcSlot, attrEq]
    | some o => simp only [dcSlot]; split
                · exact attrEq_refl T _
                · exact hdc
  | _ =>
    simp only [dcSlot]; split
    · exact attrEq_refl T _
    · exact hdc

theorem okFields_nth : ∀ (st : Vals) (j : Nat), okFields st = true → okVal (nthVal st j) = true := by
  intro st j
  induction j generalizing st with
  | zero =>
    intro h
    cases st with
    | nil => rfl
    | cons v r => simp only [okFields, Bool.and_eq_true] at h; exact h.1
  | succ j ih =>
    intro h
    cases st with
    | nil => rfl
    | cons v r => simp only [okFields, Bool.and_eq_true] at h; exact ih r h.2

theorem nthVal_dcFields : ∀ (as : List AttrInfo) (st : Vals) (j : Nat) (a : AttrInfo), as[j]? = some a →
    nthVal (dcFields as st) j = dcSlot a (nthVal st j) := by
  intro as
  induction as with
  | nil => intro st j a h; simp at h
  | cons b as ih =>
    intro st j a h
    cases st with
    | nil =>
      rw [dcFields_nil]
      have : nthVal .nil j = .missing := by cases j <;> rfl
      rw [this]
      simp only [dcSlot]; split <;> rfl
    | cons v r =>
      rw [dcFields_cons]
      cases j with
      | zero => simp at h; subst h; rfl
      | succ j => simpa [nthVal] using ih r j a (by simpa using h)

/-- What a getter reads on the copy is attribute-equal to what it reads on the original. -/
theorem plainAt_dc (T : Table) (as : List AttrInfo) (st : Vals) (hok : okFields st = true) (j : Nat) :
    attrEq T (plainAt as (dcFields as st) j) (plainAt as st j) = true := by
  unfold plainAt
  cases h : as[j]? with
  | none => rfl
  | some a =>
    simp only
    rw [nthVal_dcFields as st j a h, dcSlot_isMissing]
    split
    · exact attrEq_refl T _
    · exact dcSlot_attrEq T a (okFields_nth st j hok)

/-- One attribute of the copy shows something attribute-equal to what the original shows. -/
theorem show_slot (T : Table) (as0 : List AttrInfo) (st0 st0' : Vals)
    (H : ∀ j, attrEq T (plainAt as0 st0' j) (plainAt as0 st0 j) = true)
    (a : AttrInfo) {v : Val} (hok : okVal v = true) :
    attrEq T (shownAttr as0 st0' a (dcSlot a v)) (shownAttr as0 st0 a v) = true := by
  unfold shownAttr
  cases hp : a.prop with
  | none =>
    simp only [dcSlot_isMissing]
    split
    · exact attrEq_refl T _
    · exact dcSlot_attrEq T a hok
  | some p =>
    simp only [dcSlot_isMissing]
    split
    · exact dcSlot_attrEq T a hok
    · cases p.getter with
      | const k => exact attrEq_refl T _
      | sameAs j => exact H j

theorem show_dc_gen (T : Table) (as0 : List AttrInfo) (st0 st0' : Vals)
    (H : ∀ j, attrEq T (plainAt as0 st0' j) (plainAt as0 st0 j) = true) :
    ∀ (as : List AttrInfo) (st : Vals), okFields st = true →
      fieldsEq T as (showFrom as0 st0' as (dcFields as st)) (showFrom as0 st0 as st) = true := by
  intro as
  induction as with
  | nil => intro st _; exact fieldsEq_nil T _ _
  | cons a as ih =>
    intro st hok
    cases st with
    | nil =>
      rw [dcFields_nil, showFrom_cons, showFrom_cons, fieldsEq_cons]
      have := ih .nil rfl
      rw [dcFields_nil] at this
      simp only [hdV_nil, tlV_nil]
      rw [this, Bool.and_true]
      have hs := show_slot T as0 st0 st0' H a (v := .missing) rfl
      have hm : dcSlot a .missing = .missing := by simp only [dcSlot]; split <;> rfl
      rw [hm] at hs
      simp [hs]
    | cons v r =>
      simp only [okFields, Bool.and_eq_true] at hok
      rw [dcFields_cons, showFrom_cons, showFrom_cons, fieldsEq_cons]
      simp only [hdV_cons, tlV_cons]
      rw [ih r hok.2, show_slot T as0 st0 st0' H a hok.1]
      simp

/-- **deepcopy of the stored state** — entry by entry (`dcFields`: self-bound methods re-bound, `do_not_copy`
entries shared, the rest deep-copied; entries that are not there stay absent) — shows, attribute by attribute,
something attribute-equal to what the original shows; also for attributes backed by a `spec_property`, whose value
is an assigned override or a memoised result (both are `__dict__` entries and copied as such) or else recomputed by
the getter on the copy (a constant, or another attribute of the copy). -/
theorem copyShows_fieldsEq (T : Table) (as : List AttrInfo) (st : Vals) (hok : okFields st = true) :
    fieldsEq T as (showS as (dcFields as st)) (showS as st) = true := by
  unfold showS
  exact show_dc_gen T as st (dcFields as st) (plainAt_dc T as st hok) as st hok

/-! ### `==` with one self-referential operand -/

/-- What `EqMethod.eq` compares for one attribute when one operand refers to itself. -/
def cAttr (T : Table) (flip : Bool) (self v w : Val) : Bool :=
  match v, w with
  | .bound _ f, .bound _ g => if flip then g == f else f == g
  | _, _ => cEq T flip self v w

theorem cFields_cons (T : Table) (flip : Bool) (self : Val) (a : AttrInfo) (as : List AttrInfo) (v w : Val)
    (r s : Vals) :
    cFields T flip self (a :: as) (.cons v r) (.cons w s) =
      ((!a.compare || cAttr T flip self v w) && cFields T flip self as r s) := by
  cases v <;> cases w <;> simp [cFields, cAttr]

theorem cFields_nil_attrs (T : Table) (flip : Bool) (self : Val) (xs ys : Vals) :
    cFields T flip self [] xs ys = true := by
  rw [cFields]

theorem cAttr_closed (T : Table) (self v w : Val)
    (h : cEq T false self v w = vEq T v w ∧ cEq T true self v w = vEq T w v) :
    cAttr T false self v w = attrEq T v w ∧ cAttr T true self v w = attrEq T w v := by
  cases v <;> cases w <;> simp_all [cAttr, attrEq]

/-- **`cEq` is `==` on finite trees**: when the "cyclic" operand does not refer to itself either, the comparison
through `cEq` is exactly Python's `==` (`vEq`), in both orientations. -/
theorem cEq_closed_all (T : Table) :
    (∀ w self v, closed v = true →
        cEq T false self v w = vEq T v w ∧ cEq T true self v w = vEq T w v) ∧
    (∀ ys self xs, closedVals xs = true →
        (cVals T false self xs ys = valsEq T xs ys ∧ cVals T true self xs ys = valsEq T ys xs) ∧
        (∀ as, cFields T false self as xs ys = fieldsEq T as xs ys ∧
               cFields T true self as xs ys = fieldsEq T as ys xs)) ∧
    (∀ ys self xs, closedKVs xs = true →
        cKVs T false self xs ys = kvsEq T xs ys ∧ cKVs T true self xs ys = kvsEq T ys xs) := by
  apply val_induction
  · intro self v _; simp [cEq]
  · intro n self v _; simp [cEq]
  · intro t self v _; simp [cEq]
  · intro n self v _; simp [cEq]
  · intro ys ih self v hv
    cases v with
    | list xs => simpa [cEq, vEq] using (ih self xs (by simpa [closed] using hv)).1
    | _ => simp [cEq, vEq]
  · intro ys ih self v hv
    cases v with
    | dict xs => simpa [cEq, vEq] using ih self xs (by simpa [closed] using hv)
    | _ => simp [cEq, vEq]
  · intro ys ih self v hv
    cases v with
    | set xs => simpa [cEq, vEq] using (ih self xs (by simpa [closed] using hv)).1
    | _ => simp [cEq, vEq]
  · intro c2 f2 ih self v hv
    cases v with
    | inst c1 f1 =>
      have h := fun as => (ih (.inst c1 f1) f1 (by simpa [closed] using hv)).2 as
      simp only [cEq, resolve, vEq, Bool.false_eq_true, if_false, if_true]
      refine ⟨?_, ?_⟩
      · split <;> simp [(h _).1]
      · split <;> simp [(h _).2]
    | selfRef => simp [closed] at hv
    | _ => simp [cEq, resolve, vEq]
  · intro o f self v _; simp [cEq]
  · intro i self v _; simp [cEq]
  · intro i self v _; simp [cEq]
  · intro i self v _; simp [cEq]
  · intro self v _; simp [cEq]
  · intro self v _; simp [cEq]
  · intro self xs _
    refine ⟨?_, ?_⟩
    · cases xs <;> simp [cVals, valsEq]
    · intro as
      cases as with
      | nil => simp [cFields_nil_attrs, fieldsEq_nil]
      | cons a as => cases xs <;> simp [cFields, fieldsEq]
  · intro w s hw hs self xs hx
    cases xs with
    | nil =>
      refine ⟨by simp [cVals, valsEq], ?_⟩
      intro as
      cases as with
      | nil => simp [cFields_nil_attrs, fieldsEq_nil]
      | cons a as => simp [cFields, fieldsEq]
    | cons v r =>
      simp only [closedVals, Bool.and_eq_true] at hx
      have hv := hw self v hx.1
      have hr := hs self r hx.2
      refine ⟨by simp [cVals, valsEq, hv.1, hv.2, hr.1.1, hr.1.2], ?_⟩
      intro as
      cases as with
      | nil => simp [cFields_nil_attrs, fieldsEq_nil]
      | cons a as =>
        have ha := cAttr_closed T self v w hv
        rw [cFields_cons, cFields_cons, fieldsEq_cons, fieldsEq_cons, ha.1, ha.2, (hr.2 as).1, (hr.2 as).2]
        exact ⟨rfl, rfl⟩
  · intro self xs _; cases xs <;> simp [cKVs, kvsEq]
  · intro l w s _ hw hs self xs hx
    cases xs with
    | nil => simp [cKVs, kvsEq]
    | cons k v r =>
      simp only [closedKVs, Bool.and_eq_true] at hx
      have hv := hw self v hx.1.2
      have hr := hs self r hx.2
      simp [cKVs, kvsEq, hv.1, hv.2, hr.1, hr.2]

theorem cEq_closed (T : Table) (flip : Bool) (self : Val) {v : Val} (w : Val) (hv : closed v = true) :
    cEq T flip self v w = if flip then vEq T w v else vEq T v w := by
  cases flip
  · simpa using ((cEq_closed_all T).1 w self v hv).1
  · simpa using ((cEq_closed_all T).1 w self v hv).2

/-- Under CPython's dispatch an instance that refers to itself can only equal an instance of the same class. -/
theorem cEq_inst {T : Table} (hT : wfTable T = true) (flip : Bool) (s : Val) (c1 c2 : Nat) (f1 f2 : Vals) :
    cEq T flip s (.inst c1 f1) (.inst c2 f2) =
      (c1 == c2 && cFields T flip (.inst c1 f1) (T.attrs c1) f1 f2) := by
  simp only [cEq, resolve]
  by_cases hc : c1 = c2
  · subst hc
    cases flip <;> simp [isProperSub, isSub_refl]
  · have hne : (c1 == c2) = false := by simpa using hc
    simp only [hne, Bool.false_and]
    have h12 : isSub T c1 c2 = true → isSub T c2 c1 = false := by
      intro h; rw [Bool.eq_false_iff]; intro h'; exact hc (isSub_antisymm hT h h')
    have h21 : isSub T c2 c1 = true → isSub T c1 c2 = false := by
      intro h; rw [Bool.eq_false_iff]; intro h'; exact hc (isSub_antisymm hT h' h)
    cases flip
    · simp only [Bool.false_eq_true, if_false]
      split
      · rename_i hp
        unfold isProperSub at hp
        simp only [Bool.and_eq_true] at hp
        simp [h21 hp.2]
      · rename_i hp
        cases h : isSub T c2 c1 with
        | false => simp
        | true =>
          exfalso; apply hp
          unfold isProperSub
          simp only [Bool.and_eq_true, bne_iff_ne, ne_eq]
          exact ⟨fun e => hc e.symm, h⟩
    · simp only [if_true]
      split
      · rename_i hp
        unfold isProperSub at hp
        simp only [Bool.and_eq_true] at hp
        simp [h12 hp.2]
      · rename_i hp
        cases h : isSub T c1 c2 with
        | false => simp
        | true =>
          exfalso; apply hp
          unfold isProperSub
          simp only [Bool.and_eq_true, bne_iff_ne, ne_eq]
          exact ⟨hc, h⟩

theorem cAttr_of_reaches (T : Table) (flip : Bool) (self : Val) {v : Val} (w : Val) (h : reaches v = true) :
    cAttr T flip self v w = cEq T flip self v w := by
  cases v <;> simp [reaches] at h <;> cases w <;> simp [cAttr]

theorem nthVal_nil (k : Nat) : nthVal .nil k = .missing := by cases k <;> rfl

/-- **An instance that holds itself under a compared attribute never equals a finite value** — directly
(`x.a = x`) or inside lists / sets / dict values (`x.a = [x]`, `{"k": x}`) — whichever operand comes first. The
comparison descends into the finite operand in step with the self-reference and runs out of structure. -/
theorem selfref_all {T : Table} (hT : wfTable T = true) (c : Nat) (fs : Vals) (i : Nat)
    (hi : i < (T.attrs c).length) (hcmp : ((T.attrs c)[i]).compare = true)
    (hreach : reaches (nthVal fs i) = true) :
    (∀ w, closed w = true → wfVal T w = true →
        (∀ flip s, cEq T flip s (.inst c fs) w = false) ∧
        (∀ flip v, reaches v = true → cEq T flip (.inst c fs) v w = false)) ∧
    (∀ ys, closedVals ys = true → wfVals T ys = true →
        (∀ flip xs, reachesVals xs = true → cVals T flip (.inst c fs) xs ys = false) ∧
        (∀ flip (as : List AttrInfo) xs (k : Nat) (hk : k < as.length), (as[k]).compare = true →
            reaches (nthVal xs k) = true → k < lenV ys → cFields T flip (.inst c fs) as xs ys = false)) ∧
    (∀ ys, closedKVs ys = true → wfKVs T ys = true →
        ∀ flip xs, reachesKVs xs = true → cKVs T flip (.inst c fs) xs ys = false) := by
  apply val_induction
  · intro _ _
    exact ⟨fun flip s => by cases flip <;> simp [cEq, vEq],
           fun flip v hv => by cases flip <;> cases v <;> simp_all [cEq, vEq, reaches]⟩
  · intro n _ _
    exact ⟨fun flip s => by cases flip <;> simp [cEq, vEq],
           fun flip v hv => by cases flip <;> cases v <;> simp_all [cEq, vEq, reaches]⟩
  · intro t _ _
    exact ⟨fun flip s => by cases flip <;> simp [cEq, vEq],
           fun flip v hv => by cases flip <;> cases v <;> simp_all [cEq, vEq, reaches]⟩
  · intro n _ _
    exact ⟨fun flip s => by cases flip <;> simp [cEq, vEq],
           fun flip v hv => by cases flip <;> cases v <;> simp_all [cEq, vEq, reaches]⟩
  · intro ys ih hcl hwf
    have ih := ih (by simpa [closed] using hcl) (by simpa [wfVal] using hwf)
    refine ⟨fun flip s => by simp [cEq], fun flip v hv => ?_⟩
    cases v with
    | list xs => simpa [cEq] using ih.1 flip xs (by simpa [reaches] using hv)
    | _ => simp [cEq]
  · intro ys ih hcl hwf
    have ih := ih (by simpa [closed] using hcl) (by simpa [wfVal] using hwf)
    refine ⟨fun flip s => by simp [cEq], fun flip v hv => ?_⟩
    cases v with
    | dict xs => simpa [cEq] using ih flip xs (by simpa [reaches] using hv)
    | _ => simp [cEq]
  · intro ys ih hcl hwf
    have ih := ih (by simpa [closed] using hcl) (by simpa [wfVal] using hwf)
    refine ⟨fun flip s => by simp [cEq], fun flip v hv => ?_⟩
    cases v with
    | set xs => simpa [cEq] using ih.1 flip xs (by simpa [reaches] using hv)
    | _ => simp [cEq]
  · intro c2 f2 ih hcl hwf
    simp only [wfVal, Bool.and_eq_true, beq_iff_eq] at hwf
    have ih := ih (by simpa [closed] using hcl) hwf.2
    have main : ∀ flip s, cEq T flip s (.inst c fs) (.inst c2 f2) = false := by
      intro flip s
      rw [cEq_inst hT]
      by_cases hc : c = c2
      · subst hc
        rw [ih.2 flip (T.attrs c) fs i hi hcmp hreach (by rw [hwf.1]; exact hi)]
        simp
      · have : (c == c2) = false := by simpa using hc
        simp [this]
    refine ⟨main, fun flip v hv => ?_⟩
    cases v with
    | selfRef =>
      have := main flip .none
      simpa [cEq, resolve] using this
    | _ => simp [reaches] at hv <;> simp [cEq, resolve]
  · intro o f _ _
    exact ⟨fun flip s => by cases flip <;> simp [cEq, vEq],
           fun flip v hv => by cases flip <;> cases v <;> simp_all [cEq, vEq, reaches]⟩
  · intro j _ _
    exact ⟨fun flip s => by cases flip <;> simp [cEq, vEq],
           fun flip v hv => by cases flip <;> cases v <;> simp_all [cEq, vEq, reaches]⟩
  · intro j _ _
    exact ⟨fun flip s => by cases flip <;> simp [cEq, vEq],
           fun flip v hv => by cases flip <;> cases v <;> simp_all [cEq, vEq, reaches]⟩
  · intro j _ _
    exact ⟨fun flip s => by cases flip <;> simp [cEq, vEq],
           fun flip v hv => by cases flip <;> cases v <;> simp_all [cEq, vEq, reaches]⟩
  · intro _ _
    exact ⟨fun flip s => by cases flip <;> simp [cEq, vEq],
           fun flip v hv => by cases flip <;> cases v <;> simp_all [cEq, vEq, reaches]⟩
  · intro hcl _; simp [closed] at hcl
  · intro _ _
    refine ⟨fun flip xs hx => ?_, fun flip as xs k hk _ _ hl => ?_⟩
    · cases xs <;> simp_all [cVals, reachesVals]
    · simp [lenV] at hl
  · intro w s hw hs hcl hwf
    simp only [closedVals, Bool.and_eq_true] at hcl
    simp only [wfVals, Bool.and_eq_true] at hwf
    have hw := hw hcl.1 hwf.1
    have hs := hs hcl.2 hwf.2
    refine ⟨fun flip xs hx => ?_, fun flip as xs k hk hc hr hl => ?_⟩
    · cases xs with
      | nil => simp [reachesVals] at hx
      | cons v r =>
        simp only [reachesVals, Bool.or_eq_true] at hx
        simp only [cVals]
        rcases hx with hx | hx
        · rw [hw.2 flip v hx]; simp
        · rw [hs.1 flip r hx]; simp
    · cases as with
      | nil => simp at hk
      | cons a as =>
        cases xs with
        | nil => rw [nthVal_nil] at hr; simp [reaches] at hr
        | cons v r =>
          rw [cFields_cons]
          cases k with
          | zero =>
            simp only [List.getElem_cons_zero] at hc
            simp only [nthVal] at hr
            rw [cAttr_of_reaches T flip _ w hr, hw.2 flip v hr, hc]; simp
          | succ k =>
            simp only [List.getElem_cons_succ] at hc
            simp only [nthVal] at hr
            rw [hs.2 flip as r k (by simpa using hk) hc hr (by simpa [lenV] using hl)]; simp
  · intro _ _ flip xs hx
    cases xs <;> simp_all [cKVs, reachesKVs]
  · intro l w s _ hw hs hcl hwf flip xs hx
    simp only [closedKVs, Bool.and_eq_true] at hcl
    simp only [wfKVs, Bool.and_eq_true] at hwf
    cases xs with
    | nil => simp [reachesKVs] at hx
    | cons k v r =>
      simp only [reachesKVs, Bool.or_eq_true] at hx
      simp only [cKVs]
      rcases hx with hx | hx
      · rw [(hw hcl.1.2 hwf.1.2).2 flip v hx]; simp
      · rw [hs hcl.2 hwf.2 flip r hx]; simp

theorem reaches_not_closed :
    (∀ v, reaches v = true → closed v = false) ∧
    (∀ xs, reachesVals xs = true → closedVals xs = false) ∧
    (∀ kvs, reachesKVs kvs = true → closedKVs kvs = false) := by
  apply val_induction <;> try (intros; simp_all [reaches, closed]; done)
  · simp [reachesVals]
  · intro v r hv hr h
    simp only [reachesVals, Bool.or_eq_true] at h
    simp only [closedVals]
    rcases h with h | h
    · rw [hv h]; simp
    · rw [hr h]; simp
  · simp [reachesKVs]
  · intro k v r _ hv hr h
    simp only [reachesKVs, Bool.or_eq_true] at h
    simp only [closedKVs]
    rcases h with h | h
    · rw [hv h]; simp
    · rw [hr h]; simp

theorem closedVals_nth : ∀ (i : Nat) (fs : Vals), closedVals fs = true → closed (nthVal fs i) = true := by
  intro i
  induction i with
  | zero =>
    intro fs h
    cases fs with
    | nil => rfl
    | cons v r => simp only [closedVals, Bool.and_eq_true] at h; exact h.1
  | succ i ih =>
    intro fs h
    cases fs with
    | nil => rfl
    | cons v r => simp only [closedVals, Bool.and_eq_true] at h; exact ih r h.2

/-- An instance that holds itself under some attribute is not a finite tree. -/
theorem not_closed_of_reaches {c : Nat} {fs : Vals} {i : Nat} (h : reaches (nthVal fs i) = true) :
    closed (.inst c fs) = false := by
  rw [Bool.eq_false_iff]
  intro hc
  have := closedVals_nth i fs (by simpa [closed] using hc)
  rw [reaches_not_closed.1 _ h] at this
  cases this

/-! ### repr -/

theorem reprEntries_names (T : Table) : ∀ (as : List AttrInfo) (fs : Vals),
    (reprEntries T as fs).map (·.1) = (as.filter (·.repr)).map (·.name) := by
  intro as
  induction as with
  | nil => intro fs; simp [reprEntries]
  | cons a as ih =>
    intro fs
    cases fs with
    | nil =>
      simp only [reprEntries, List.map_append, ih, List.filter_cons]
      cases a.repr <;> simp
    | cons v r =>
      simp only [reprEntries, List.map_append, ih, List.filter_cons]
      cases a.repr <;> simp

end SpecVerif.C10
