import SpecVerif.Model.C10
/-!
# Helper lemmas for C10 (equality, copying, repr). Property theorems live in `Props/C10.lean`.
-/
set_option linter.unusedSectionVars false
set_option linter.unusedSimpArgs false
set_option linter.unusedVariables false
namespace SpecVerif.C10

/-- Simultaneous structural induction over values, value lists and key/value lists. -/
theorem val_induction {P : Val → Prop} {Q : Vals → Prop} {R : KVs → Prop}
    (hnone : P .none) (hint : ∀ n, P (.int n)) (hstr : ∀ s, P (.str s)) (hflt : ∀ n, P (.flt n))
    (hlist : ∀ xs, Q xs → P (.list xs)) (hdict : ∀ kvs, R kvs → P (.dict kvs)) (hset : ∀ xs, Q xs → P (.set xs))
    (hinst : ∀ c fs, Q fs → P (.inst c fs)) (hbound : ∀ o f, P (.bound o f)) (hfunc : ∀ i, P (.func i))
    (hcls : ∀ i, P (.cls i)) (hmod : ∀ i, P (.mod i)) (hmissing : P .missing) (hself : P .selfRef)
    (hnil : Q .nil) (hcons : ∀ v r, P v → Q r → Q (.cons v r))
    (hknil : R .nil) (hkcons : ∀ k v r, P k → P v → R r → R (.cons k v r)) :
    (∀ v, P v) ∧ (∀ xs, Q xs) ∧ (∀ kvs, R kvs) :=
  ⟨fun v => @Val.rec P Q R hnone hint hstr hflt hlist hdict hset hinst hbound hfunc hcls hmod hmissing hself
      hnil hcons hknil hkcons v,
   fun xs => @Vals.rec P Q R hnone hint hstr hflt hlist hdict hset hinst hbound hfunc hcls hmod hmissing hself
      hnil hcons hknil hkcons xs,
   fun kvs => @KVs.rec P Q R hnone hint hstr hflt hlist hdict hset hinst hbound hfunc hcls hmod hmissing hself
      hnil hcons hknil hkcons kvs⟩

/-! ### the class lattice -/

theorem wfTable_parent {T : Table} (hT : wfTable T = true) {c p : Nat} {ci : ClassInfo}
    (hc : T[c]? = some ci) (hp : ci.parent = some p) : p < c := by
  unfold wfTable at hT
  rw [List.all_eq_true] at hT
  have hlt : c < T.length := by
    rcases Nat.lt_or_ge c T.length with h | h
    · exact h
    · rw [List.getElem?_eq_none h] at hc; cases hc
  have := hT c (List.mem_range.2 hlt)
  simpa [hc, hp] using this

theorem isSubFuel_le {T : Table} (hT : wfTable T = true) :
    ∀ fuel c d, isSubFuel T fuel c d = true → d ≤ c := by
  intro fuel
  induction fuel with
  | zero => intro c d h; simp [isSubFuel] at h; omega
  | succ n ih =>
    intro c d h
    simp only [isSubFuel, Bool.or_eq_true, beq_iff_eq] at h
    rcases h with h | h
    · omega
    · cases hc : T[c]? with
      | none => simp [hc] at h
      | some ci =>
        simp only [hc] at h
        cases hp : ci.parent with
        | none => simp [hp] at h
        | some p =>
          simp only [hp] at h
          have := ih p d h
          have := wfTable_parent hT hc hp
          omega

theorem isSub_refl (T : Table) (c : Nat) : isSub T c c = true := by
  unfold isSub
  cases T.length <;> simp [isSubFuel]

theorem isSub_antisymm {T : Table} (hT : wfTable T = true) {c d : Nat}
    (h1 : isSub T c d = true) (h2 : isSub T d c = true) : c = d := by
  have := isSubFuel_le hT _ _ _ h1
  have := isSubFuel_le hT _ _ _ h2
  omega

/-- Under CPython's dispatch two instances can only be equal when their classes are the same. -/
theorem vEq_inst {T : Table} (hT : wfTable T = true) (c1 c2 : Nat) (f1 f2 : Vals) :
    vEq T (.inst c1 f1) (.inst c2 f2) = (c1 == c2 && fieldsEq T (T.attrs c1) f1 f2) := by
  rw [vEq]
  by_cases hc : c1 = c2
  · subst hc
    simp [isProperSub, isSub_refl]
  · have hne : (c1 == c2) = false := by simpa using hc
    simp only [hne, Bool.false_and]
    split
    · rename_i hp
      unfold isProperSub at hp
      simp only [Bool.and_eq_true, bne_iff_ne, ne_eq] at hp
      have : isSub T c1 c2 = false := by
        rw [Bool.eq_false_iff]; intro h
        exact hc (isSub_antisymm hT h hp.2)
      simp [this]
    · rename_i hp
      unfold isProperSub at hp
      have : isSub T c2 c1 = false := by
        rw [Bool.eq_false_iff]; intro h
        apply hp
        simp only [Bool.and_eq_true, bne_iff_ne, ne_eq]
        exact ⟨fun e => hc e.symm, h⟩
      simp [this]

/-! ### the attribute loop -/

theorem fieldsEq_nil (T : Table) (xs ys : Vals) : fieldsEq T [] xs ys = true := by
  rw [fieldsEq]

theorem fieldsEq_cons (T : Table) (a : AttrInfo) (as : List AttrInfo) (v w : Val) (r s : Vals) :
    fieldsEq T (a :: as) (.cons v r) (.cons w s) = ((!a.compare || attrEq T v w) && fieldsEq T as r s) := by
  cases v <;> cases w <;> simp [fieldsEq, attrEq]

theorem fieldsEq_nil_left (T : Table) (a : AttrInfo) (as : List AttrInfo) (ys : Vals) :
    fieldsEq T (a :: as) .nil ys = true := by
  rw [fieldsEq]

theorem attrEq_of_not_bound (T : Table) {v : Val} (w : Val) (h : v.isBound = false) :
    attrEq T v w = vEq T v w := by
  cases v <;> cases w <;> simp_all [attrEq, Val.isBound]

theorem vEq_isBound {T : Table} {v w : Val} (h : vEq T v w = true) : v.isBound = w.isBound := by
  cases v <;> cases w <;> simp_all [vEq, Val.isBound]

theorem attrEq_bound_left {T : Table} {o : Option Nat} {f : Nat} {w : Val}
    (h : attrEq T (.bound o f) w = true) : ∃ p, w = .bound p f := by
  cases w <;> simp_all [attrEq, vEq]

theorem attrEq_symm_of {T : Table} {v w : Val} (h : vEq T v w = vEq T w v) : attrEq T v w = attrEq T w v := by
  cases v <;> cases w <;> simp_all [attrEq]
  exact Bool.eq_iff_iff.2 ⟨fun e => by simp at e; simp [e], fun e => by simp at e; simp [e]⟩

/-! ### reflexivity -/

theorem vEq_refl_all (T : Table) :
    (∀ v, vEq T v v = true) ∧
    (∀ xs, valsEq T xs xs = true ∧ ∀ as, fieldsEq T as xs xs = true) ∧
    (∀ kvs, kvsEq T kvs kvs = true) := by
  apply val_induction
  · simp [vEq]
  · intro n; simp [vEq]
  · intro s; simp [vEq]
  · intro n; simp [vEq]
  · intro xs h; simp [vEq, h.1]
  · intro kvs h; simp [vEq, h]
  · intro xs h; simp [vEq, h.1]
  · intro c fs h; simp [vEq, isProperSub, isSub_refl, h.2]
  · intro o f; simp [vEq]
  · intro i; simp [vEq]
  · intro i; simp [vEq]
  · intro i; simp [vEq]
  · simp [vEq]
  · simp [vEq]
  · refine ⟨by simp [valsEq], ?_⟩
    intro as; cases as <;> simp [fieldsEq]
  · intro v r hv hr
    refine ⟨by simp [valsEq, hv, hr.1], ?_⟩
    intro as
    cases as with
    | nil => simp [fieldsEq]
    | cons a as =>
      rw [fieldsEq_cons, hr.2]
      have : attrEq T v v = true := by
        cases v <;> simp_all [attrEq]
      simp [this]
  · simp [kvsEq]
  · intro k v r hk hv hr; simp [kvsEq, hk, hv, hr]

theorem vEq_refl (T : Table) (v : Val) : vEq T v v = true := (vEq_refl_all T).1 v

/-! ### symmetry -/

theorem beq_comm' {α : Type} [DecidableEq α] (a b : α) : (a == b) = (b == a) := by
  by_cases h : a = b
  · subst h; rfl
  · have h' : ¬ b = a := fun e => h e.symm
    rw [beq_eq_false_iff_ne.2 h, beq_eq_false_iff_ne.2 h']

theorem vEq_symm_all (T : Table) (hT : wfTable T = true) :
    (∀ v, wfVal T v = true → ∀ w, wfVal T w = true → vEq T v w = vEq T w v) ∧
    (∀ xs, wfVals T xs = true →
           (∀ ys, wfVals T ys = true → valsEq T xs ys = valsEq T ys xs) ∧
           (∀ as ys, wfVals T ys = true → lenV xs = lenV ys → fieldsEq T as xs ys = fieldsEq T as ys xs)) ∧
    (∀ kvs, wfKVs T kvs = true → ∀ l, wfKVs T l = true → kvsEq T kvs l = kvsEq T l kvs) := by
  apply val_induction
  · intro _ w _; cases w <;> simp [vEq]
  · intro n _ w _; cases w <;> simp [vEq]; exact beq_comm' _ _
  · intro s _ w _; cases w <;> simp [vEq]; exact beq_comm' _ _
  · intro n _ w _; cases w <;> simp [vEq]; exact beq_comm' _ _
  · intro xs h hw w hw'; cases w <;> simp [vEq]
    exact (h (by simpa [wfVal] using hw)).1 _ (by simpa [wfVal] using hw')
  · intro kvs h hw w hw'; cases w <;> simp [vEq]
    exact h (by simpa [wfVal] using hw) _ (by simpa [wfVal] using hw')
  · intro xs h hw w hw'; cases w <;> simp [vEq]
    exact (h (by simpa [wfVal] using hw)).1 _ (by simpa [wfVal] using hw')
  · intro c fs h hw w hw'
    cases w with
    | inst c2 f2 =>
      rw [vEq_inst hT, vEq_inst hT]
      simp only [wfVal, Bool.and_eq_true, beq_iff_eq] at hw hw'
      by_cases hc : c = c2
      · subst hc
        simp only [beq_self_eq_true, Bool.true_and]
        exact (h hw.2).2 _ _ hw'.2 (by rw [hw.1, hw'.1])
      · have h1 : (c == c2) = false := by simpa using hc
        have h2 : (c2 == c) = false := by simpa using fun e : c2 = c => hc e.symm
        simp [h1, h2]
    | _ => simp [vEq]
  · intro o f _ w _; cases w <;> simp [vEq]
    rw [Bool.eq_iff_iff]
    simp only [Bool.and_eq_true, beq_iff_eq]
    constructor <;> rintro ⟨a, b⟩ <;> exact ⟨a.symm, b.symm⟩
  · intro i _ w _; cases w <;> simp [vEq]; exact beq_comm' _ _
  · intro i _ w _; cases w <;> simp [vEq]; exact beq_comm' _ _
  · intro i _ w _; cases w <;> simp [vEq]; exact beq_comm' _ _
  · intro _ w _; cases w <;> simp [vEq]
  · intro _ w _; cases w <;> simp [vEq]
  · intro _
    refine ⟨fun ys _ => by cases ys <;> simp [valsEq], ?_⟩
    intro as ys _ hl
    cases ys with
    | nil => rfl
    | cons w s => simp [lenV] at hl
  · intro v r hv hr hw
    simp only [wfVals, Bool.and_eq_true] at hw
    refine ⟨fun ys hy => ?_, ?_⟩
    · cases ys with
      | nil => simp [valsEq]
      | cons w s =>
        simp only [wfVals, Bool.and_eq_true] at hy
        simp [valsEq, hv hw.1 w hy.1, (hr hw.2).1 s hy.2]
    · intro as ys hy hl
      cases ys with
      | nil => simp [lenV] at hl
      | cons w s =>
        simp only [wfVals, Bool.and_eq_true] at hy
        cases as with
        | nil => simp [fieldsEq]
        | cons a as =>
          rw [fieldsEq_cons, fieldsEq_cons, attrEq_symm_of (hv hw.1 w hy.1),
            (hr hw.2).2 as s hy.2 (by simpa [lenV] using hl)]
  · intro _ l _; cases l <;> simp [kvsEq]
  · intro k v r hk hv hr hw l hl
    simp only [wfKVs, Bool.and_eq_true] at hw
    cases l with
    | nil => simp [kvsEq]
    | cons k2 v2 r2 =>
      simp only [wfKVs, Bool.and_eq_true] at hl
      simp [kvsEq, hk hw.1.1 k2 hl.1.1, hv hw.1.2 v2 hl.1.2, hr hw.2 r2 hl.2]

theorem vEq_symm {T : Table} (hT : wfTable T = true) {v w : Val} (hv : wfVal T v = true) (hw : wfVal T w = true) :
    vEq T v w = vEq T w v := (vEq_symm_all T hT).1 v hv w hw

/-! ### transitivity -/

theorem attrEq_trans {T : Table} {v w u : Val}
    (h : vEq T v w = true → vEq T w u = true → vEq T v u = true)
    (h1 : attrEq T v w = true) (h2 : attrEq T w u = true) : attrEq T v u = true := by
  cases hb : v.isBound with
  | true =>
    cases v <;> simp [Val.isBound] at hb
    rename_i o f
    obtain ⟨p, rfl⟩ := attrEq_bound_left h1
    obtain ⟨q, rfl⟩ := attrEq_bound_left h2
    simp [attrEq]
  | false =>
    rw [attrEq_of_not_bound T w hb] at h1
    have hwb : w.isBound = false := by rw [← vEq_isBound h1]; exact hb
    rw [attrEq_of_not_bound T u hwb] at h2
    rw [attrEq_of_not_bound T u hb]
    exact h h1 h2

theorem vEq_trans_all (T : Table) (hT : wfTable T = true) :
    (∀ v, wfVal T v = true → ∀ w u, wfVal T w = true → wfVal T u = true →
        vEq T v w = true → vEq T w u = true → vEq T v u = true) ∧
    (∀ xs, wfVals T xs = true →
       (∀ ys zs, wfVals T ys = true → wfVals T zs = true →
          valsEq T xs ys = true → valsEq T ys zs = true → valsEq T xs zs = true) ∧
       (∀ as ys zs, wfVals T ys = true → wfVals T zs = true → lenV ys = lenV xs → lenV zs = lenV xs →
          fieldsEq T as xs ys = true → fieldsEq T as ys zs = true → fieldsEq T as xs zs = true)) ∧
    (∀ kvs, wfKVs T kvs = true → ∀ l m, wfKVs T l = true → wfKVs T m = true →
        kvsEq T kvs l = true → kvsEq T l m = true → kvsEq T kvs m = true) := by
  apply val_induction
  · intro _ w u _ _ h1 h2; cases w <;> cases u <;> simp_all [vEq]
  · intro n _ w u _ _ h1 h2; cases w <;> cases u <;> simp_all [vEq]
  · intro s _ w u _ _ h1 h2; cases w <;> cases u <;> simp_all [vEq]
  · intro n _ w u _ _ h1 h2; cases w <;> cases u <;> simp_all [vEq]
  · intro xs h hw w u hw' hu' h1 h2
    cases w <;> simp [vEq] at h1
    cases u <;> simp [vEq] at h2
    simp only [vEq]
    exact (h (by simpa [wfVal] using hw)).1 _ _ (by simpa [wfVal] using hw') (by simpa [wfVal] using hu') h1 h2
  · intro kvs h hw w u hw' hu' h1 h2
    cases w <;> simp [vEq] at h1
    cases u <;> simp [vEq] at h2
    simp only [vEq]
    exact h (by simpa [wfVal] using hw) _ _ (by simpa [wfVal] using hw') (by simpa [wfVal] using hu') h1 h2
  · intro xs h hw w u hw' hu' h1 h2
    cases w <;> simp [vEq] at h1
    cases u <;> simp [vEq] at h2
    simp only [vEq]
    exact (h (by simpa [wfVal] using hw)).1 _ _ (by simpa [wfVal] using hw') (by simpa [wfVal] using hu') h1 h2
  · intro c fs h hw w u hw' hu' h1 h2
    cases w with
    | inst c2 f2 =>
      cases u with
      | inst c3 f3 =>
        rw [vEq_inst hT] at h1 h2 ⊢
        simp only [Bool.and_eq_true, beq_iff_eq] at h1 h2 ⊢
        obtain ⟨rfl, h1⟩ := h1
        obtain ⟨rfl, h2⟩ := h2
        simp only [wfVal, Bool.and_eq_true, beq_iff_eq] at hw hw' hu'
        exact ⟨rfl, (h hw.2).2 _ _ _ hw'.2 hu'.2 (by rw [hw'.1, hw.1]) (by rw [hu'.1, hw.1]) h1 h2⟩
      | _ => simp [vEq] at h2
    | _ => simp [vEq] at h1
  · intro o f _ w u _ _ h1 h2; cases w <;> cases u <;> simp_all [vEq]
  · intro i _ w u _ _ h1 h2; cases w <;> cases u <;> simp_all [vEq]
  · intro i _ w u _ _ h1 h2; cases w <;> cases u <;> simp_all [vEq]
  · intro i _ w u _ _ h1 h2; cases w <;> cases u <;> simp_all [vEq]
  · intro _ w u _ _ h1 h2; cases w <;> cases u <;> simp_all [vEq]
  · intro _ w u _ _ h1 h2; cases w <;> cases u <;> simp_all [vEq]
  · intro _
    refine ⟨?_, ?_⟩
    · intro ys zs _ _ h1 h2; cases ys <;> cases zs <;> simp_all [valsEq]
    · intro as ys zs _ _ hl1 hl2 _ _
      cases as <;> simp [fieldsEq]
  · intro v r hv hr hw
    simp only [wfVals, Bool.and_eq_true] at hw
    refine ⟨?_, ?_⟩
    · intro ys zs hy hz h1 h2
      cases ys with
      | nil => simp [valsEq] at h1
      | cons w s =>
        cases zs with
        | nil => simp [valsEq] at h2
        | cons u t =>
          simp only [wfVals, Bool.and_eq_true] at hy hz
          simp only [valsEq, Bool.and_eq_true] at h1 h2 ⊢
          exact ⟨hv hw.1 w u hy.1 hz.1 h1.1 h2.1, (hr hw.2).1 s t hy.2 hz.2 h1.2 h2.2⟩
    · intro as ys zs hy hz hl1 hl2 h1 h2
      cases ys with
      | nil => simp [lenV] at hl1
      | cons w s =>
        cases zs with
        | nil => simp [lenV] at hl2
        | cons u t =>
          cases as with
          | nil => simp [fieldsEq]
          | cons a as =>
            simp only [wfVals, Bool.and_eq_true] at hy hz
            rw [fieldsEq_cons] at h1 h2 ⊢
            simp only [Bool.and_eq_true, Bool.or_eq_true, Bool.not_eq_true'] at h1 h2 ⊢
            refine ⟨?_, (hr hw.2).2 as s t hy.2 hz.2 (by simpa [lenV] using hl1) (by simpa [lenV] using hl2) h1.2 h2.2⟩
            rcases h1.1 with hc | h1'
            · exact Or.inl hc
            · rcases h2.1 with hc | h2'
              · exact Or.inl hc
              · exact Or.inr (attrEq_trans (hv hw.1 w u hy.1 hz.1) h1' h2')
  · intro _ l m _ _ h1 h2; cases l <;> cases m <;> simp_all [kvsEq]
  · intro k v r hk hv hr hw l m hl hm h1 h2
    simp only [wfKVs, Bool.and_eq_true] at hw
    cases l with
    | nil => simp [kvsEq] at h1
    | cons k2 v2 r2 =>
      cases m with
      | nil => simp [kvsEq] at h2
      | cons k3 v3 r3 =>
        simp only [wfKVs, Bool.and_eq_true] at hl hm
        simp only [kvsEq, Bool.and_eq_true] at h1 h2 ⊢
        exact ⟨⟨hk hw.1.1 k2 k3 hl.1.1 hm.1.1 h1.1.1 h2.1.1, hv hw.1.2 v2 v3 hl.1.2 hm.1.2 h1.1.2 h2.1.2⟩,
          hr hw.2 r2 r3 hl.2 hm.2 h1.2 h2.2⟩

theorem vEq_trans {T : Table} (hT : wfTable T = true) {v w u : Val}
    (hv : wfVal T v = true) (hw : wfVal T w = true) (hu : wfVal T u = true)
    (h1 : vEq T v w = true) (h2 : vEq T w u = true) : vEq T v u = true :=
  (vEq_trans_all T hT).1 v hv w u hw hu h1 h2

/-! ### equality, attribute by attribute -/

theorem fieldsEq_iff (T : Table) : ∀ (as : List AttrInfo) (xs ys : Vals),
    lenV xs = as.length → lenV ys = as.length →
    (fieldsEq T as xs ys = true ↔
      ∀ i (h : i < as.length), as[i].compare = true → attrEq T (nthVal xs i) (nthVal ys i) = true) := by
  intro as
  induction as with
  | nil => intro xs ys _ _; simp [fieldsEq_nil]
  | cons a as ih =>
    intro xs ys hx hy
    cases xs with
    | nil => simp [lenV] at hx
    | cons v r =>
      cases ys with
      | nil => simp [lenV] at hy
      | cons w s =>
        simp only [lenV, List.length_cons, Nat.add_right_cancel_iff] at hx hy
        rw [fieldsEq_cons, Bool.and_eq_true, ih r s hx hy]
        constructor
        · rintro ⟨h0, hrest⟩ i hi hc
          cases i with
          | zero =>
            simp only [List.getElem_cons_zero] at hc
            simpa [nthVal, hc] using h0
          | succ j =>
            simp only [List.getElem_cons_succ] at hc
            simpa [nthVal] using hrest j (by simpa using hi) hc
        · intro h
          refine ⟨?_, ?_⟩
          · cases hc : a.compare with
            | false => simp
            | true => simpa [nthVal, hc] using h 0 (by simp) (by simpa using hc)
          · intro j hj hc
            simpa [nthVal] using h (j + 1) (by simpa using hj) (by simpa using hc)

/-! ### deepcopy -/

theorem dc_eq_all (T : Table) :
    (∀ v, okVal v = true → (v.isBound = false → vEq T (dcVal v) v = true) ∧ attrEq T (dcVal v) v = true) ∧
    (∀ xs, (okElems xs = true → valsEq T (dcVals xs) xs = true) ∧
           (okFields xs = true → ∀ as, fieldsEq T as (dcVals xs) xs = true ∧
              fieldsEq T as (dcFields as xs) xs = true)) ∧
    (∀ kvs, okKVs kvs = true → kvsEq T (dcKVs kvs) kvs = true) := by
  apply val_induction
  · intro _; simp [dcVal, vEq, attrEq]
  · intro n _; simp [dcVal, vEq, attrEq]
  · intro s _; simp [dcVal, vEq, attrEq]
  · intro n _; simp [dcVal, vEq, attrEq]
  · intro xs h hok
    have := h.1 (by simpa [okVal] using hok)
    simp [dcVal, vEq, attrEq, this]
  · intro kvs h hok
    have := h (by simpa [okVal] using hok)
    simp [dcVal, vEq, attrEq, this]
  · intro xs h hok
    have := h.1 (by simpa [okVal] using hok)
    simp [dcVal, vEq, attrEq, this]
  · intro c fs h hok
    have := (h.2 (by simpa [okVal] using hok) (T.attrs c)).1
    simp [dcVal, vEq, attrEq, isProperSub, isSub_refl, this]
  · intro o f _
    cases o <;> simp [dcVal, attrEq, Val.isBound]
  · intro i _; simp [dcVal, vEq, attrEq]
  · intro i _; simp [dcVal, vEq, attrEq]
  · intro i _; simp [dcVal, vEq, attrEq]
  · intro _; simp [dcVal, vEq, attrEq]
  · intro h; simp [okVal] at h
  · refine ⟨fun _ => by simp [dcVals, valsEq], fun _ as => ?_⟩
    cases as <;> simp [dcVals, dcFields, fieldsEq]
  · intro v r hv hr
    refine ⟨?_, ?_⟩
    · intro hok
      simp only [okElems, Bool.and_eq_true, Bool.not_eq_true'] at hok
      simp [dcVals, valsEq, (hv hok.1.2).1 hok.1.1, hr.1 hok.2]
    · intro hok as
      simp only [okFields, Bool.and_eq_true] at hok
      cases as with
      | nil => simp [fieldsEq_nil]
      | cons a as =>
        have hr' := hr.2 hok.2 as
        have hat := (hv hok.1).2
        refine ⟨?_, ?_⟩
        · simp only [dcVals]
          rw [fieldsEq_cons, hr'.1, hat]; simp
        · have hrefl : attrEq T v v = true := by
            have := vEq_refl T v
            cases v <;> simp_all [attrEq]
          cases v with
          | bound o f =>
            cases o with
            | none => simp only [dcFields]; rw [fieldsEq_cons, hr'.2, hrefl]; simp
            | some o =>
              simp only [dcFields]
              split
              · rw [fieldsEq_cons, hr'.2, hrefl]; simp
              · rw [fieldsEq_cons, hr'.2, hat]; simp
          | _ =>
            simp only [dcFields]
            split
            all_goals first
              | (rw [fieldsEq_cons, hr'.2, hrefl]; simp)
              | (rw [fieldsEq_cons, hr'.2, hat]; simp)
  · intro _; simp [dcKVs, kvsEq]
  · intro k v r hk hv hr hok
    simp only [okKVs, Bool.and_eq_true, Bool.not_eq_true'] at hok
    simp [dcKVs, kvsEq, vEq_refl, (hv hok.1.2).1 hok.1.1.2, hr hok.2]

/-! ### the constructor refines its attribute-wise specification -/

@[simp] theorem hdV_cons (v : Val) (r : Vals) : hdV (.cons v r) = v := rfl
@[simp] theorem tlV_cons (v : Val) (r : Vals) : tlV (.cons v r) = r := rfl
@[simp] theorem hdV_nil : hdV .nil = .missing := rfl
@[simp] theorem tlV_nil : tlV .nil = .nil := rfl

@[simp] theorem isMissing_missing : Val.missing.isMissing = true := rfl

theorem isMissing_iff (v : Val) : v.isMissing = true ↔ v = .missing := by
  cases v <;> simp [Val.isMissing]

theorem dcVal_isMissing (v : Val) : (dcVal v).isMissing = v.isMissing := by
  cases v with
  | bound o f => cases o <;> rfl
  | _ => rfl

@[simp] theorem protect_isMissing (a : AttrInfo) (v : Val) : (protect a v).isMissing = v.isMissing := by
  unfold protect
  split
  · rfl
  · exact dcVal_isMissing v

/-- The value an init-enabled attribute is given by the constructor that owns it. -/
def assigned (a : AttrInfo) (kv : Val) : Val := if kv.isMissing then a.dflt else protect a kv

/-- `v` if it is a value, else what was there. -/
def orKeep (v cv : Val) : Val := if v.isMissing then cv else v

theorem orKeep_idem (v cv : Val) : orKeep v (orKeep v cv) = orKeep v cv := by
  unfold orKeep; split <;> simp_all

/-- One constructor (`spec_cls = p`) seen from one attribute slot. -/
def slotStep (p : Nat) (a : AttrInfo) (kv cv : Val) : Val :=
  if a.init && a.owner == p then orKeep (assigned a kv) cv else cv

/-- the slot of one attribute in `parentKwargs` -/
def slotPk (p : Nat) (a : AttrInfo) (kv : Val) : Val :=
  if a.owner != p then .missing
  else if !a.init then .missing
  else if kv.isMissing then a.dflt
  else protect a kv

/-- the slot of one attribute in `initOwn` -/
def slotOwn (p : Nat) (top : Bool) (a : AttrInfo) (kv cv : Val) : Val :=
  if !a.init || a.owner != p then cv
  else if kv.isMissing then (if a.dflt.isMissing then cv else a.dflt)
  else if top then protect a kv else kv

theorem parentKwargs_cons (p : Nat) (a : AttrInfo) (as : List AttrInfo) (kw : Vals) :
    parentKwargs p (a :: as) kw = .cons (slotPk p a (hdV kw)) (parentKwargs p as (tlV kw)) := rfl

theorem initOwn_cons (p : Nat) (top : Bool) (a : AttrInfo) (as : List AttrInfo) (kw cur : Vals) :
    initOwn p top (a :: as) kw cur =
      .cons (slotOwn p top a (hdV kw) (hdV cur)) (initOwn p top as (tlV kw) (tlV cur)) := rfl

/-- A parent constructor called with the forwarded keyword arguments: the slot gets the (copied) passed value,
else the default — WHATEVER the passed value is. -/
theorem slotOwn_parent (p : Nat) (a : AttrInfo) (kv cv : Val) :
    slotOwn p false a (slotPk p a kv) cv = slotStep p a kv cv := by
  unfold slotOwn slotPk slotStep assigned orKeep
  cases hi : a.init <;> cases ho : (a.owner == p) <;> simp [bne, ho]
  cases hk : kv.isMissing <;> simp [hk]
  cases hd : a.dflt.isMissing <;> simp [hd]

/-- The metadata owner's own constructor. -/
theorem slotOwn_top (m : Nat) (a : AttrInfo) (kv cv : Val) :
    slotOwn m true a kv cv = slotStep m a kv cv := by
  unfold slotOwn slotStep assigned orKeep
  cases hi : a.init <;> cases ho : (a.owner == m) <;> simp [bne, ho]
  cases hk : kv.isMissing <;> simp [hk]

/-- All parent constructors, seen from one attribute slot. -/
def slotParents : List Nat → AttrInfo → Val → Val → Val
  | [], _, _, cv => cv
  | p :: ps, a, kv, cv => slotParents ps a kv (slotStep p a kv cv)

theorem initParents_cons : ∀ (ps : List Nat) (a : AttrInfo) (as : List AttrInfo) (kw cur : Vals),
    hdV (initParents ps (a :: as) kw cur) = slotParents ps a (hdV kw) (hdV cur) ∧
    tlV (initParents ps (a :: as) kw cur) = initParents ps as (tlV kw) (tlV cur) := by
  intro ps
  induction ps with
  | nil => intro a as kw cur; simp [initParents, slotParents]
  | cons p ps ih =>
    intro a as kw cur
    simp only [initParents, parentKwargs_cons, initOwn_cons, ih, hdV_cons, tlV_cons, slotOwn_parent, slotParents]
    simp

theorem slotParents_eq (a : AttrInfo) (kv : Val) : ∀ (ps : List Nat) (cv : Val),
    slotParents ps a kv cv =
      if a.init && ps.contains a.owner then orKeep (assigned a kv) cv else cv := by
  intro ps
  induction ps with
  | nil => intro cv; simp [slotParents]
  | cons p ps ih =>
    intro cv
    simp only [slotParents, ih, slotStep]
    cases hi : a.init <;> cases ho : (a.owner == p) <;> cases hc : ps.contains a.owner <;>
      simp_all [List.contains_cons, orKeep_idem]

/-- **The constructor refines its specification**: run as Python runs it (parent constructors base-most
first, each assigning the attributes it owns from the forwarded keyword arguments, then the own attributes),
every attribute ends up showing `shown a kv` — provided each init-enabled attribute is owned by one of the
constructors that run. -/
theorem construct_fields_eq (m : Nat) (ps : List Nat) : ∀ (as : List AttrInfo) (kw : Vals),
    (∀ a ∈ as, a.init = true → (a.owner == m || ps.contains a.owner) = true) →
    viewFields as (initOwn m true as kw (initParents ps as kw (allMissing as))) = specFields as kw := by
  intro as
  induction as with
  | nil => intro kw _; rfl
  | cons a as ih =>
    intro kw h
    have hcons := initParents_cons ps a as kw (allMissing (a :: as))
    simp only [initOwn_cons, viewFields, specFields, hdV_cons, tlV_cons, hcons.1, hcons.2]
    have htl : tlV (allMissing (a :: as)) = allMissing as := rfl
    have hhd : hdV (allMissing (a :: as)) = .missing := rfl
    rw [htl, hhd, ih (tlV kw) (fun b hb => h b (List.mem_cons_of_mem _ hb))]
    congr 1
    rw [slotOwn_top, slotParents_eq]
    have ha := h a (List.mem_cons_self ..)
    unfold slotStep shown orKeep assigned
    cases hi : a.init
    · simp
    · have ha' := ha hi
      have hin : ((a.owner == m) = true ∨ ps.contains a.owner = true) := by simpa using ha'
      cases hk : (hdV kw).isMissing <;> cases hd : a.dflt.isMissing <;>
        cases ho : (a.owner == m) <;> cases hc : ps.contains a.owner <;>
        first
        | (exfalso; rcases hin with h | h <;> simp_all; done)
        | (have hdm := (isMissing_iff _).1 hd; simp [hk, hd, hdm])
        | simp [hk, hd]

/-! ### re-construction -/

theorem construct_eq_spec {T : Table} {c : Nat} (h : ownersOk T c = true) (kw : Vals) :
    construct T c kw = specFields (T.attrs c) kw := by
  unfold construct initFields
  apply construct_fields_eq
  intro a ha hi
  unfold ownersOk at h
  have := (List.all_eq_true.1 h) a ha
  simpa [hi] using this

theorem rcFields_cons (a : AttrInfo) (as : List AttrInfo) (v : Val) (r : Vals) :
    rcFields (a :: as) (.cons v r) =
      .cons (shown a (if a.init then (match v with
        | .bound none f => .bound (some origId) f
        | v => v) else .missing)) (rcFields as r) := rfl

theorem attrEq_refl (T : Table) (v : Val) : attrEq T v v = true := by
  have := vEq_refl T v
  cases v <;> simp_all [attrEq]

theorem rc_fields_eq (T : Table) : ∀ (as : List AttrInfo) (fs : Vals),
    okFields fs = true → reconstructible T as fs = true →
    fieldsEq T as (rcFields as fs) fs = true := by
  intro as
  induction as with
  | nil => intro fs _ _; exact fieldsEq_nil T _ _
  | cons a as ih =>
    intro fs hok hrc
    cases fs with
    | nil => simp [reconstructible] at hrc
    | cons v r =>
      simp only [okFields, Bool.and_eq_true] at hok
      simp only [reconstructible, Bool.and_eq_true, Bool.or_eq_true, Bool.not_eq_true'] at hrc
      have hr := ih r hok.2 hrc.2
      have hdc := ((dc_eq_all T).1 v hok.1).2
      -- the new value of the attribute is attribute-equal to the old one whenever the attribute is compared
      have key : ∀ v', (a.compare = false ∨ attrEq T v' v = true) →
          fieldsEq T (a :: as) (.cons v' (rcFields as r)) (.cons v r) = true := by
        intro v' h
        rw [fieldsEq_cons, hr]
        rcases h with h | h <;> simp [h]
      have hd : a.compare = false ∨ (a.init = true ∧ v.isMissing = false) ∨ attrEq T a.dflt v = true := by
        rcases hrc.1 with (h | h) | h
        · exact Or.inl h
        · exact Or.inr (Or.inl (by simpa using h))
        · exact Or.inr (Or.inr h)
      have hprot : attrEq T (protect a v) v = true := by
        unfold protect; split
        · exact attrEq_refl T v
        · exact hdc
      rw [rcFields_cons]
      apply key
      unfold shown
      cases hi : a.init with
      | false =>
        simp only [Bool.false_eq_true, if_false]
        rcases hd with h | h | h
        · exact Or.inl h
        · rw [hi] at h; cases h.1
        · exact Or.inr h
      | true =>
        simp only [if_true]
        cases v with
        | missing =>
          simp only [isMissing_missing, if_true]
          rcases hd with h | h | h
          · exact Or.inl h
          · simp [Val.isMissing] at h
          · exact Or.inr h
        | bound o f =>
          cases o with
          | none =>
            right
            simp only [Val.isMissing, Bool.false_eq_true, if_false]
            unfold protect; split <;> simp [attrEq, dcVal]
          | some o => right; simpa [Val.isMissing] using hprot
        | _ => right; simpa [Val.isMissing] using hprot

theorem nthVal_zero (kw : Vals) : nthVal kw 0 = hdV kw := by cases kw <;> rfl
theorem nthVal_succ (kw : Vals) (i : Nat) : nthVal kw (i + 1) = nthVal (tlV kw) i := by
  cases kw <;> simp [nthVal]

theorem nthVal_specFields : ∀ (as : List AttrInfo) (kw : Vals) (i : Nat) (h : i < as.length),
    nthVal (specFields as kw) i = shown (as[i]) (nthVal kw i) := by
  intro as
  induction as with
  | nil => intro kw i h; simp at h
  | cons a as ih =>
    intro kw i h
    cases i with
    | zero => simp [specFields, nthVal, nthVal_zero]
    | succ i => simp [specFields, nthVal, nthVal_succ, ih (tlV kw) i (by simpa using h)]

/-! ### repr -/

theorem reprEntries_names (T : Table) : ∀ (as : List AttrInfo) (fs : Vals),
    (reprEntries T as fs).map (·.1) = (as.filter (·.repr)).map (·.name) := by
  intro as
  induction as with
  | nil => intro fs; simp [reprEntries]
  | cons a as ih =>
    intro fs
    cases fs with
    | nil =>
      simp only [reprEntries, List.map_append, ih, List.filter_cons]
      cases a.repr <;> simp
    | cons v r =>
      simp only [reprEntries, List.map_append, ih, List.filter_cons]
      cases a.repr <;> simp

end SpecVerif.C10
