import SpecVerif.Model.C10H
import SpecVerif.Proofs.C10
/-!
# Helper lemmas for `Model/C10H.lean` (metadata order; outcomes of operations that may be aborted; histories).
Property theorems live in `Props/C10.lean`.
-/
set_option linter.unusedSectionVars false
set_option linter.unusedSimpArgs false
set_option linter.unusedVariables false
namespace SpecVerif.C10

/-! ### key orders of ordered dicts -/

theorem not_mem_of_contains_false {l : List String} {a : String} (h : l.contains a = false) : a ∉ l := by
  simpa using h

theorem dictKeys_cons (init : List String) (x : String) (xs : List String) :
    dictKeys init (x :: xs) = dictKeys (addKey init x) xs := rfl

theorem dictKeys_append (init xs ys : List String) :
    dictKeys init (xs ++ ys) = dictKeys (dictKeys init xs) ys := by
  unfold dictKeys; rw [List.foldl_append]

theorem firsts_filter (p : String → Bool) : ∀ l : List String, firsts (l.filter p) = (firsts l).filter p := by
  intro l
  induction l with
  | nil => rfl
  | cons x xs ih =>
    by_cases hp : p x = true
    · simp only [List.filter_cons, hp, if_true, firsts, ih, List.filter_filter]
      congr 1
      apply List.filter_congr
      intro y _
      exact Bool.and_comm _ _
    · have hp' : p x = false := by simpa using hp
      have e1 : (x :: xs).filter p = xs.filter p := by simp [List.filter_cons, hp']
      rw [e1, ih]
      simp only [firsts, List.filter_cons, hp', Bool.false_eq_true, if_false, List.filter_filter]
      apply List.filter_congr
      intro y _
      by_cases hy : p y = true
      · have : (y != x) = true := by
          simp only [bne_iff_ne, ne_eq]
          intro e; subst e; rw [hy] at hp'; cases hp'
        simp [hy, this]
      · have hy' : p y = false := by simpa using hy
        simp [hy']

theorem mem_firsts (x : String) : ∀ l : List String, x ∈ firsts l ↔ x ∈ l := by
  intro l
  induction l with
  | nil => simp [firsts]
  | cons y ys ih =>
    simp only [firsts, List.mem_cons, List.mem_filter, ih, bne_iff_ne, ne_eq]
    constructor
    · rintro (h | ⟨h, _⟩)
      · exact Or.inl h
      · exact Or.inr h
    · intro h
      by_cases e : x = y
      · exact Or.inl e
      · rcases h with h | h
        · exact Or.inl h
        · exact Or.inr ⟨h, e⟩

theorem firsts_nodup : ∀ l : List String, (firsts l).Nodup := by
  intro l
  induction l with
  | nil => simp [firsts]
  | cons x xs ih =>
    simp only [firsts, List.nodup_cons]
    refine ⟨?_, List.Nodup.sublist List.filter_sublist ih⟩
    intro h
    simp [List.mem_filter] at h

theorem firsts_of_nodup : ∀ l : List String, l.Nodup → firsts l = l := by
  intro l
  induction l with
  | nil => intro _; rfl
  | cons x xs ih =>
    intro h
    rw [List.nodup_cons] at h
    simp only [firsts, ih h.2]
    congr 1
    rw [List.filter_eq_self]
    intro y hy
    simp only [bne_iff_ne, ne_eq]
    intro e; subst e; exact h.1 hy

theorem firsts_idem (l : List String) : firsts (firsts l) = firsts l := firsts_of_nodup _ (firsts_nodup l)

/-- Updating an ordered dict keeps the keys it has and appends the new ones at their first occurrence. -/
theorem dictKeys_eq : ∀ (xs init : List String),
    dictKeys init xs = init ++ firsts (xs.filter (fun a => !init.contains a)) := by
  intro xs
  induction xs with
  | nil => intro init; simp [dictKeys, firsts]
  | cons x xs ih =>
    intro init
    rw [dictKeys_cons, ih]
    by_cases hx : init.contains x = true
    · have hx2 : x ∈ init := by simpa using hx
      simp [addKey, List.filter_cons, hx2]
    · have hx' : init.contains x = false := by simpa using hx
      simp only [addKey, hx', Bool.false_eq_true, if_false, List.filter_cons, Bool.not_false, if_true, firsts,
        List.append_assoc, List.singleton_append]
      congr 2
      rw [← firsts_filter, List.filter_filter]
      congr 1
      apply List.filter_congr
      intro y _
      by_cases e : y = x
      · subst e; simp
      · have e' : (x == y) = false := by simpa using fun h => e h.symm
        simp [e, e', Bool.and_comm]

theorem dictKeys_nil_eq (xs : List String) : dictKeys [] xs = firsts xs := by
  rw [dictKeys_eq]
  have : xs.filter (fun a => !([] : List String).contains a) = xs := by
    rw [List.filter_eq_self]; intro a _; rfl
  rw [this]; rfl

theorem contains_firsts (l : List String) (x : String) : (firsts l).contains x = l.contains x := by
  rw [Bool.eq_iff_iff]; simp [mem_firsts]

theorem firsts_append (A B : List String) :
    firsts (A ++ B) = firsts A ++ firsts (B.filter (fun a => !(firsts A).contains a)) := by
  rw [← dictKeys_nil_eq, dictKeys_append, dictKeys_nil_eq, dictKeys_eq]

theorem managedAnn_nodup (o : DecoOpts) (h : o.annotations.Nodup) : o.managedAnn.Nodup := by
  unfold DecoOpts.managedAnn
  split
  · exact List.Nodup.sublist List.filter_sublist h
  · exact List.nodup_nil

/-- The dict-update implementation of the attribute order, before the key is looked at. -/
theorem dictKeys_managed (inh : List String) (o : DecoOpts) (hann : o.annotations.Nodup) :
    dictKeys inh (dictKeys [] o.managed) =
      inh ++ o.managedAnn.filter (fun a => !inh.contains a)
        ++ firsts (o.namedRaw.filter (fun a => !inh.contains a && !o.managedAnn.contains a)) := by
  have hA : (o.managedAnn.filter (fun a => !inh.contains a)).Nodup :=
    List.Nodup.sublist List.filter_sublist (managedAnn_nodup o hann)
  rw [dictKeys_nil_eq, dictKeys_eq, ← firsts_filter, firsts_idem]
  unfold DecoOpts.managed DecoOpts.named
  rw [dictKeys_nil_eq, List.filter_append, ← firsts_filter, firsts_append, firsts_of_nodup _ hA,
    ← firsts_filter, firsts_idem, List.filter_filter, List.append_assoc]
  congr 3
  apply List.filter_congr
  intro a _
  by_cases hi : a ∈ inh
  · simp [hi]
  · simp [hi]

/-! ### outcomes -/

theorem slotCmp_val (T : Table) (v w : Val) : slotCmp T (.val v) (.val w) = .ok (attrEq T v w) := rfl

theorem attrEq_missing_right (T : Table) (v : Val) : attrEq T v .missing = vEq T v .missing := by
  cases v <;> rfl

theorem fieldsO_lift (T : Table) : ∀ (as : List AttrInfo) (xs ys : Vals),
    fieldsO T as (liftVals xs) (liftVals ys) = .ok (fieldsEq T as xs ys) := by
  intro as
  induction as with
  | nil => intro xs ys; simp [fieldsO, fieldsEq_nil]
  | cons a as ih =>
    intro xs ys
    cases xs with
    | nil => simp [liftVals, fieldsO, fieldsEq_nil_left]
    | cons v r =>
      cases ys with
      | nil =>
        have h := ih r .nil
        simp only [liftVals] at h
        simp only [liftVals, fieldsO, slotCmp_val, attrEq_missing_right]
        rw [fieldsEq.eq_def]
        by_cases hc : a.compare = true
        · simp only [hc, Bool.not_true, Bool.false_eq_true, if_false, Bool.false_or]
          cases hv : vEq T v .missing
          · simp
          · simp [h]
        · have hc' : a.compare = false := by simpa using hc
          simp [hc', h]
      | cons w s =>
        have h := ih r s
        simp only [liftVals, fieldsO, slotCmp_val]
        rw [fieldsEq_cons]
        by_cases hc : a.compare = true
        · simp only [hc, Bool.not_true, Bool.false_eq_true, if_false, Bool.false_or]
          cases hv : attrEq T v w
          · simp
          · simp [h]
        · have hc' : a.compare = false := by simpa using hc
          simp [hc', h]

/-- Under a well-formed table the dispatch collapses to "same class" (as `vEq_inst`). -/
theorem eqO_inst {T : Table} (hT : wfTable T = true) (c1 c2 : Nat) (ls rs : List Slot) :
    eqO T c1 ls c2 rs = if c1 = c2 then fieldsO T (T.attrs c1) ls rs else .ok false := by
  unfold eqO
  by_cases hc : c1 = c2
  · subst hc
    simp [isProperSub, isSub_refl]
  · simp only [hc, if_false]
    split
    · rename_i hp
      unfold isProperSub at hp
      simp only [Bool.and_eq_true, bne_iff_ne, ne_eq] at hp
      have : isSub T c1 c2 = false := by
        rw [Bool.eq_false_iff]; intro h
        exact hc (isSub_antisymm hT h hp.2)
      simp [this]
    · rename_i hp
      unfold isProperSub at hp
      have : isSub T c2 c1 = false := by
        rw [Bool.eq_false_iff]; intro h
        apply hp
        simp only [Bool.and_eq_true, bne_iff_ne, ne_eq]
        exact ⟨fun e => hc e.symm, h⟩
      simp [this]

/-- The outcome of the attribute loop is `True` exactly when every compared attribute is equal without raising. -/
theorem fieldsO_true_iff (T : Table) : ∀ (as : List AttrInfo) (ls rs : List Slot),
    ls.length = as.length → rs.length = as.length →
    (fieldsO T as ls rs = .ok true ↔
      ∀ i (h : i < as.length), (as[i]).compare = true →
        slotCmp T (ls.getD i .getterRaises) (rs.getD i .getterRaises) = .ok true) := by
  intro as
  induction as with
  | nil => intro ls rs _ _; simp [fieldsO]
  | cons a as ih =>
    intro ls rs hl hr
    cases ls with
    | nil => simp at hl
    | cons l ls =>
      cases rs with
      | nil => simp at hr
      | cons r rs =>
        simp only [List.length_cons, Nat.add_right_cancel_iff] at hl hr
        have ih' := ih ls rs hl hr
        simp only [fieldsO]
        constructor
        · intro h i hi hc
          cases i with
          | zero =>
            simp only [List.getElem_cons_zero] at hc
            simp only [hc, Bool.not_true, Bool.false_eq_true, if_false] at h
            simp only [List.getD_cons_zero]
            cases hs : slotCmp T l r with
            | raised => simp [hs] at h
            | ok b => cases b with
              | true => rfl
              | false => simp [hs] at h
          | succ i =>
            simp only [List.getElem_cons_succ] at hc
            simp only [List.getD_cons_succ]
            have hrest : fieldsO T as ls rs = .ok true := by
              by_cases hca : a.compare = true
              · simp only [hca, Bool.not_true, Bool.false_eq_true, if_false] at h
                cases hs : slotCmp T l r with
                | raised => simp [hs] at h
                | ok b => cases b with
                  | true => simpa [hs] using h
                  | false => simp [hs] at h
              · have hca' : a.compare = false := by simpa using hca
                simpa [hca'] using h
            exact ih'.1 hrest i (by simpa using hi) hc
        · intro h
          have h0 := h 0 (by simp)
          have hrest : fieldsO T as ls rs = .ok true :=
            ih'.2 (fun i hi hc => by
              have := h (i + 1) (by simpa using hi) (by simpa using hc)
              simpa using this)
          by_cases hca : a.compare = true
          · have := h0 (by simpa using hca)
            simp only [List.getD_cons_zero] at this
            simp [hca, this, hrest]
          · have hca' : a.compare = false := by simpa using hca
            simp [hca', hrest]

/-- The FIRST compared attribute whose values are not equal-without-raising decides the outcome: `False` when they
differ, `raised` when reading or comparing them raises — whatever stands at the later positions. -/
theorem fieldsO_first (T : Table) : ∀ (as : List AttrInfo) (ls rs : List Slot),
    ls.length = as.length → rs.length = as.length →
    ∀ (i : Nat) (h : i < as.length) (o : Outcome), (as[i]).compare = true →
      slotCmp T (ls.getD i .getterRaises) (rs.getD i .getterRaises) = o → o ≠ .ok true →
      (∀ j (hj : j < as.length), j < i → (as[j]).compare = true →
        slotCmp T (ls.getD j .getterRaises) (rs.getD j .getterRaises) = .ok true) →
      fieldsO T as ls rs = o := by
  intro as
  induction as with
  | nil => intro ls rs _ _ i h; simp at h
  | cons a as ih =>
    intro ls rs hl hr i hi o hc ho hne hbefore
    cases ls with
    | nil => simp at hl
    | cons l ls =>
      cases rs with
      | nil => simp at hr
      | cons r rs =>
        simp only [List.length_cons, Nat.add_right_cancel_iff] at hl hr
        simp only [fieldsO]
        cases i with
        | zero =>
          simp only [List.getElem_cons_zero] at hc
          simp only [List.getD_cons_zero] at ho
          simp only [hc, Bool.not_true, Bool.false_eq_true, if_false]
          rw [ho]
          cases o with
          | raised => rfl
          | ok b =>
            cases b with
            | true => exact absurd rfl hne
            | false => rfl
        | succ i =>
          simp only [List.getElem_cons_succ] at hc
          simp only [List.getD_cons_succ] at ho
          have hrest : fieldsO T as ls rs = o :=
            ih ls rs hl hr i (by simpa using hi) o hc ho hne (fun j hj hji hcj => by
              have := hbefore (j + 1) (by simpa using hj) (by omega) (by simpa using hcj)
              simpa using this)
          by_cases hca : a.compare = true
          · have h0 := hbefore 0 (by simp) (by omega) (by simpa using hca)
            simp only [List.getD_cons_zero] at h0
            simp [hca, h0, hrest]
          · have hca' : a.compare = false := by simpa using hca
            simp [hca', hrest]

/-! ### repr outcomes -/

theorem reprSlots_names : ∀ (as : List AttrInfo) (ss : List Slot),
    (reprSlots as ss).map (·.1) = (as.filter (·.repr)).map (·.name) := by
  intro as
  induction as with
  | nil => intro ss; simp [reprSlots]
  | cons a as ih =>
    intro ss
    cases ss with
    | nil => by_cases h : a.repr = true <;> simp [reprSlots, h, ih]
    | cons s ss => by_cases h : a.repr = true <;> simp [reprSlots, h, ih]

theorem reprSlots_noraise : ∀ (as : List AttrInfo) (ss : List Slot), (∀ s ∈ ss, s.reprRaises = false) →
    ∀ e ∈ reprSlots as ss, e.2.reprRaises = false := by
  intro as
  induction as with
  | nil => intro ss _ e he; simp [reprSlots] at he
  | cons a as ih =>
    intro ss hss e he
    cases ss with
    | nil =>
      simp only [reprSlots, List.mem_append] at he
      rcases he with he | he
      · by_cases h : a.repr = true
        · simp only [h, if_true, List.mem_singleton] at he; subst he; rfl
        · simp [h] at he
      · exact ih [] (by simp) e he
    | cons s ss =>
      simp only [reprSlots, List.mem_append] at he
      rcases he with he | he
      · by_cases h : a.repr = true
        · simp only [h, if_true, List.mem_singleton] at he; subst he; exact hss s (by simp)
        · simp [h] at he
      · exact ih ss (fun t ht => hss t (by simp [ht])) e he

/-! ### histories -/

theorem heapAfter_cons (h : Heap) (op : HOp) (ops : List HOp) :
    heapAfter h (op :: ops) = heapAfter (heapStep h op) ops := rfl

/-- Only assignments shape the heap: operations — completed or aborted — can be dropped from the history. -/
theorem heapAfter_puts : ∀ (ops : List HOp) (h : Heap), heapAfter h ops = heapAfter h (ops.filter HOp.isPut) := by
  intro ops
  induction ops with
  | nil => intro h; rfl
  | cons op ops ih =>
    intro h
    cases op with
    | put i c ss => simp only [List.filter_cons, HOp.isPut, if_true, heapAfter_cons]; exact ih _
    | cmp i j => simp only [List.filter_cons, HOp.isPut, Bool.false_eq_true, if_false, heapAfter_cons, heapStep]; exact ih _
    | repr i => simp only [List.filter_cons, HOp.isPut, Bool.false_eq_true, if_false, heapAfter_cons, heapStep]; exact ih _
    | copy i => simp only [List.filter_cons, HOp.isPut, Bool.false_eq_true, if_false, heapAfter_cons, heapStep]; exact ih _

theorem runH_append (T : Table) : ∀ (pre : List HOp) (h : Heap) (ops : List HOp),
    runH T h (pre ++ ops) = runH T h pre ++ runH T (heapAfter h pre) ops := by
  intro pre
  induction pre with
  | nil => intro h ops; rfl
  | cons op pre ih => intro h ops; simp only [List.cons_append, runH, heapAfter_cons, ih]

end SpecVerif.C10
