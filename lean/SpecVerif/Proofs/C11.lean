import SpecVerif.Model.C11
/-!
# Helper definitions and lemmas for C11 (invalidation). Property theorems live in `Props/C11.lean`.

Core Lean only (no Mathlib).
-/
set_option linter.unusedSectionVars false
set_option linter.unusedSimpArgs false
set_option linter.unusedVariables false
namespace SpecVerif.C11
open SpecVerif.Py

variable {V : Type}

/-! ## dependency relation -/

theorem mem_dedup {x : Name} {l : List Name} : x ∈ dedup l ↔ x ∈ l := by
  induction l with
  | nil => simp [dedup]
  | cons y ys ih =>
    unfold dedup
    by_cases h : y ∈ ys
    · simp only [h, if_true, ih, List.mem_cons]
      constructor
      · intro hx; exact Or.inr hx
      · rintro (rfl | hx)
        · exact h
        · exact hx
    · simp only [h, if_false, List.mem_cons, ih]

/-- `a → d`: mutating `a` makes the library call `delattr(obj, d)`. -/
def Edge (R : RTbl V) (a d : Name) : Prop := d ∈ depList R a

theorem edge_iff {R : RTbl V} {a d : Name} :
    Edge R a d ↔ (d ∈ R.invMap (.nm a) ∨ d ∈ R.invMap .star) ∧ d ≠ a := by
  unfold Edge depList
  simp [List.mem_filter, mem_dedup]

/-- Strict transitive closure of `Edge`: `d` is a (transitive) dependant of `a`. -/
inductive Reach (R : RTbl V) : Name → Name → Prop
  | single {a d : Name} : Edge R a d → Reach R a d
  | head {a b d : Name} : Edge R a b → Reach R b d → Reach R a d

theorem Reach.trans {R : RTbl V} {a b c : Name} (h1 : Reach R a b) (h2 : Reach R b c) : Reach R a c := by
  induction h1 with
  | single e => exact .head e h2
  | head e _ ih => exact .head e (ih h2)

theorem Reach.tail {R : RTbl V} {a b c : Name} (h1 : Reach R a b) (e : Edge R b c) : Reach R a c :=
  h1.trans (.single e)

/-- What `delattr` leaves in the slot of `d`: the default (as a user value) or nothing. -/
def clearedVal (R : RTbl V) (d : Name) : Option (Tag × V) := (dfltOf R d).map (fun v => (Tag.user, v))

/-- Well-formed table: dependants are declared names, and no dependency cycle passes through an
attribute with a default (there the library recurses forever). -/
structure WF (R : RTbl V) : Prop where
  closed : ∀ k d, d ∈ R.invMap k → d ∈ R.names
  acyc   : ∀ z, (dfltOf R z).isSome → ¬ Reach R z z
  /-- `reset()` visits every attribute that has a default -/
  managedComplete : ∀ z, (dfltOf R z).isSome → z ∈ R.managedNames

theorem edge_mem_names {R : RTbl V} (wf : WF R) {a d : Name} (e : Edge R a d) : d ∈ R.names := by
  rcases (edge_iff.1 e).1 with h | h
  · exact wf.closed _ _ h
  · exact wf.closed _ _ h

/-! ## counting lemmas for the termination measure -/

theorem filter_length_le {α : Type} (l : List α) (p q : α → Bool) (h : ∀ x ∈ l, p x = true → q x = true) :
    (l.filter p).length ≤ (l.filter q).length := by
  induction l with
  | nil => simp
  | cons x xs ih =>
    have ih' := ih (fun y hy => h y (List.mem_cons_of_mem _ hy))
    have hx := h x (List.mem_cons_self)
    simp only [List.filter_cons]
    cases hp : p x <;> cases hq : q x <;> simp_all <;> omega

theorem filter_length_lt {α : Type} (l : List α) (p q : α → Bool) (h : ∀ x ∈ l, p x = true → q x = true)
    (w : α) (hw : w ∈ l) (hq : q w = true) (hp : p w = false) :
    (l.filter p).length < (l.filter q).length := by
  induction l with
  | nil => cases hw
  | cons x xs ih =>
    have hle := filter_length_le xs p q (fun y hy => h y (List.mem_cons_of_mem _ hy))
    have hx := h x (List.mem_cons_self)
    simp only [List.filter_cons]
    rcases List.mem_cons.1 hw with rfl | hw'
    · simp [hq, hp]; omega
    · have ih' := ih (fun y hy => h y (List.mem_cons_of_mem _ hy)) hw'
      cases hp' : p x <;> cases hq' : q x <;> simp_all <;> omega

theorem filter_length_le_length {α : Type} (l : List α) (p : α → Bool) : (l.filter p).length ≤ l.length :=
  List.length_filter_le p l

/-! ## the termination measure -/

open Classical in
/-- number of defaulted attributes among the transitive dependants of `a` -/
noncomputable def rho (R : RTbl V) (a : Name) : Nat :=
  (R.names.filter (fun z => decide ((dfltOf R z).isSome ∧ Reach R a z))).length

/-- number of default-less names that currently hold a value -/
def pres (R : RTbl V) (s : Dict V) : Nat :=
  (R.names.filter (fun x => (dfltOf R x).isNone && (s x).isSome)).length

/-- number of names not yet in `_visited` -/
def unvis (R : RTbl V) (vis : List Name) : Nat :=
  (R.names.filter (fun x => decide (x ∉ vis))).length

noncomputable def mu (R : RTbl V) (a : Name) (vis : List Name) (s : Dict V) : Nat :=
  rho R a * ((R.names.length + 1) * (R.names.length + 1)) + pres R s * (R.names.length + 1) + unvis R vis

theorem rho_lt_N (R : RTbl V) (a : Name) : rho R a < R.names.length + 1 := by
  unfold rho; exact Nat.lt_succ_of_le (List.length_filter_le _ _)
theorem pres_lt_N (R : RTbl V) (s : Dict V) : pres R s < R.names.length + 1 := by
  unfold pres; exact Nat.lt_succ_of_le (List.length_filter_le _ _)
theorem unvis_lt_N (R : RTbl V) (vis : List Name) : unvis R vis < R.names.length + 1 := by
  unfold unvis; exact Nat.lt_succ_of_le (List.length_filter_le _ _)

theorem rho_le {R : RTbl V} {a d : Name} (e : Edge R a d) : rho R d ≤ rho R a := by
  unfold rho
  apply filter_length_le
  intro x _ hx
  simp only [decide_eq_true_eq] at hx ⊢
  exact ⟨hx.1, .head e hx.2⟩

theorem rho_lt {R : RTbl V} (wf : WF R) {a d : Name} (e : Edge R a d) (hd : (dfltOf R d).isSome) :
    rho R d < rho R a := by
  unfold rho
  apply filter_length_lt _ _ _ _ d (edge_mem_names wf e)
  · simp only [decide_eq_true_eq]; exact ⟨hd, .single e⟩
  · simp only [decide_eq_false_iff_not]; intro h; exact wf.acyc d hd h.2
  · intro x _ hx
    simp only [decide_eq_true_eq] at hx ⊢
    exact ⟨hx.1, .head e hx.2⟩

/-- `s'` is `s` with some names cleared. -/
def Le (R : RTbl V) (s' s : Dict V) : Prop := ∀ x, s' x = s x ∨ s' x = clearedVal R x

theorem Le.refl (R : RTbl V) (s : Dict V) : Le R s s := fun _ => Or.inl rfl
theorem Le.trans {R : RTbl V} {s1 s2 s3 : Dict V} (h1 : Le R s1 s2) (h2 : Le R s2 s3) : Le R s1 s3 := by
  intro x
  rcases h1 x with h | h
  · rcases h2 x with h' | h'
    · exact Or.inl (h.trans h')
    · exact Or.inr (h.trans h')
  · exact Or.inr h

theorem clearedVal_none {R : RTbl V} {d : Name} (h : dfltOf R d = none) : clearedVal R d = none := by
  simp [clearedVal, h]

theorem pres_le {R : RTbl V} {s1 s : Dict V} (h : Le R s1 s) : pres R s1 ≤ pres R s := by
  unfold pres
  apply filter_length_le
  intro x _ hx
  simp only [Bool.and_eq_true, Option.isNone_iff_eq_none] at hx ⊢
  refine ⟨hx.1, ?_⟩
  rcases h x with h' | h'
  · rw [← h']; exact hx.2
  · rw [h', clearedVal_none hx.1] at hx; simp at hx

theorem pres_lt {R : RTbl V} {s1 s : Dict V} (h : Le R s1 s) {d : Name} (hd : d ∈ R.names)
    (hdf : dfltOf R d = none) (hs : (s d).isSome) (hs1 : s1 d = none) : pres R s1 < pres R s := by
  unfold pres
  apply filter_length_lt _ _ _ _ d hd
  · simp [hdf, hs]
  · simp [hs1]
  · intro x _ hx
    simp only [Bool.and_eq_true, Option.isNone_iff_eq_none] at hx ⊢
    refine ⟨hx.1, ?_⟩
    rcases h x with h' | h'
    · rw [← h']; exact hx.2
    · rw [h', clearedVal_none hx.1] at hx; simp at hx

theorem unvis_le {R : RTbl V} {v1 v2 : List Name} (h : ∀ x ∈ v1, x ∈ v2) : unvis R v2 ≤ unvis R v1 := by
  unfold unvis
  apply filter_length_le
  intro x _ hx
  simp only [decide_eq_true_eq] at hx ⊢
  exact fun hm => hx (h x hm)

theorem unvis_lt {R : RTbl V} {v : List Name} {d : Name} (hd : d ∈ R.names) (hv : d ∉ v) :
    unvis R (d :: v) < unvis R v := by
  unfold unvis
  apply filter_length_lt _ _ _ _ d hd
  · simp [hv]
  · simp
  · intro x _ hx
    simp only [decide_eq_true_eq, List.mem_cons, not_or] at hx ⊢
    exact hx.2

theorem lex_lt_A {r' r p' p u' u N : Nat} (hr : r' < r) (hp : p' < N) (hu : u' < N) :
    r' * (N * N) + p' * N + u' < r * (N * N) + p * N + u := by
  have h1 : (r' + 1) * (N * N) ≤ r * (N * N) := Nat.mul_le_mul_right _ hr
  have h2 : (p' + 1) * N ≤ N * N := Nat.mul_le_mul_right _ hp
  rw [Nat.add_mul, Nat.one_mul] at h1 h2
  omega

theorem lex_lt_B {r' r p' p u' u N : Nat} (hr : r' ≤ r) (hp : p' < p) (hu : u' < N) :
    r' * (N * N) + p' * N + u' < r * (N * N) + p * N + u := by
  have h1 : r' * (N * N) ≤ r * (N * N) := Nat.mul_le_mul_right _ hr
  have h2 : (p' + 1) * N ≤ p * N := Nat.mul_le_mul_right _ hp
  rw [Nat.add_mul, Nat.one_mul] at h2
  omega

theorem lex_lt_C {r' r p' p u' u N : Nat} (hr : r' ≤ r) (hp : p' ≤ p) (hu : u' < u) :
    r' * (N * N) + p' * N + u' < r * (N * N) + p * N + u := by
  have h1 : r' * (N * N) ≤ r * (N * N) := Nat.mul_le_mul_right _ hr
  have h2 : p' * N ≤ p * N := Nat.mul_le_mul_right _ hp
  omega

theorem mu_lt_fuel (R : RTbl V) (a : Name) (vis : List Name) (s : Dict V) : mu R a vis s < R.fuel := by
  unfold mu RTbl.fuel
  have h1 := rho_lt_N R a
  have h2 := pres_lt_N R s
  have h3 := unvis_lt_N R vis
  generalize R.names.length + 1 = N at *
  have e1 : rho R a * (N * N) ≤ (N - 1) * (N * N) := Nat.mul_le_mul_right _ (by omega)
  have e2 : pres R s * N ≤ (N - 1) * N := Nat.mul_le_mul_right _ (by omega)
  have e3 : (N - 1 + 1) * (N * N) = N * N * N := by
    have : N - 1 + 1 = N := by omega
    rw [this, Nat.mul_comm]
  have e4 : (N - 1 + 1) * N = N * N := by
    have : N - 1 + 1 = N := by omega
    rw [this]
  rw [Nat.add_mul, Nat.one_mul] at e3 e4
  omega

/-! ## what one call of `invalidate_attrs` guarantees -/

/-- `d` and all its transitive dependants are cleared. -/
def Full (R : RTbl V) (d : Name) (s : Dict V) : Prop :=
  s d = clearedVal R d ∧ ∀ e, Reach R d e → s e = clearedVal R e

/-- `delattr(obj, z)` would not raise: `z` has a default to go back to, or holds a value. -/
def Deletable (R : RTbl V) (s : Dict V) (z : Name) : Prop := (dfltOf R z).isSome ∨ (s z).isSome

/-- Every member of `_visited` other than the root `r` (the attribute whose mutation started the
top-level call) holds nothing and has no default. -/
def VisOK (R : RTbl V) (r : Name) (vis : List Name) (s : Dict V) : Prop :=
  ∀ y ∈ vis, y = r ∨ (s y = none ∧ dfltOf R y = none)

/-- `d` has been dealt with: it is in `_visited` (the root itself, which is skipped, or an empty
node), or it was deleted/reset (and then `__delattr__`/`mutate_attr` invalidated everything below it). -/
def Done (R : RTbl V) (r d : Name) (vis : List Name) (s : Dict V) : Prop :=
  (d ∈ vis ∧ (d = r ∨ (s d = none ∧ dfltOf R d = none))) ∨ Full R d s

def Closed (R : RTbl V) (r y : Name) (vis : List Name) (s : Dict V) : Prop :=
  dfltOf R y = none ∧ s y = none ∧ ∀ d, Edge R y d → Done R r d vis s

/-- A slot that changed was cleared together with everything below it, and because a `delattr`
of an unvisited node `z` between `a` and it succeeded. -/
def Touched (R : RTbl V) (a : Name) (vis : List Name) (s s' : Dict V) (x : Name) : Prop :=
  Full R x s' ∧ ∃ z, z ∉ vis ∧ Reach R a z ∧ (z = x ∨ Reach R z x) ∧ Deletable R s z

structure Post (R : RTbl V) (r a : Name) (vis : List Name) (s : Dict V) (vis' : List Name) (s' : Dict V) : Prop where
  p1 : ∀ x, s' x = s x ∨ Touched R a vis s s' x
  p2 : ∀ x ∈ vis, x ∈ vis'
  p3 : ∀ y ∈ vis', y ∉ vis → Closed R r y vis' s'
  p4 : ∀ d, Edge R a d → Done R r d vis' s'

theorem cleared_persist {R : RTbl V} {s1 s2 : Dict V} (h : Le R s2 s1) {x : Name}
    (hx : s1 x = clearedVal R x) : s2 x = clearedVal R x := by
  rcases h x with h' | h'
  · rw [h', hx]
  · exact h'

theorem none_persist {R : RTbl V} {s1 s2 : Dict V} (h : Le R s2 s1) {x : Name}
    (hs : s1 x = none) (hdf : dfltOf R x = none) : s2 x = none := by
  have := cleared_persist h (x := x) (by rw [hs, clearedVal_none hdf])
  rw [this, clearedVal_none hdf]

theorem Full.mono {R : RTbl V} {d : Name} {s1 s2 : Dict V} (hf : Full R d s1) (h : Le R s2 s1) : Full R d s2 :=
  ⟨cleared_persist h hf.1, fun e he => cleared_persist h (hf.2 e he)⟩

theorem Deletable.of_le {R : RTbl V} {s1 s : Dict V} (h : Le R s1 s) {z : Name} (hd : Deletable R s1 z) :
    Deletable R s z := by
  rcases hd with hd | hd
  · exact Or.inl hd
  · cases hdf : dfltOf R z with
    | some v => exact Or.inl (by simp [hdf])
    | none =>
      rcases h z with h' | h'
      · exact Or.inr (by rw [← h']; exact hd)
      · rw [h', clearedVal_none hdf] at hd; cases hd

theorem Touched.mono {R : RTbl V} {a : Name} {vis : List Name} {s s1 s2 : Dict V} {x : Name}
    (ht : Touched R a vis s s1 x) (h : Le R s2 s1) : Touched R a vis s s2 x :=
  ⟨ht.1.mono h, ht.2⟩

theorem Done.mono {R : RTbl V} {r d : Name} {v1 v2 : List Name} {s1 s2 : Dict V} (hd : Done R r d v1 s1)
    (hv : ∀ x ∈ v1, x ∈ v2) (h : Le R s2 s1) : Done R r d v2 s2 := by
  rcases hd with ⟨hm, hs⟩ | hf
  · refine Or.inl ⟨hv d hm, ?_⟩
    rcases hs with hs | ⟨hs, hdf⟩
    · exact Or.inl hs
    · exact Or.inr ⟨none_persist h hs hdf, hdf⟩
  · exact Or.inr (hf.mono h)

theorem Closed.mono {R : RTbl V} {r y : Name} {v1 v2 : List Name} {s1 s2 : Dict V} (hc : Closed R r y v1 s1)
    (hv : ∀ x ∈ v1, x ∈ v2) (h : Le R s2 s1) : Closed R r y v2 s2 := by
  obtain ⟨hdf, hs, hd⟩ := hc
  exact ⟨hdf, none_persist h hs hdf, fun d e => (hd d e).mono hv h⟩

theorem Done.cleared {R : RTbl V} {r d : Name} {vis : List Name} {s : Dict V} (h : Done R r d vis s)
    (hne : d ≠ r) : s d = clearedVal R d := by
  rcases h with ⟨_, hs⟩ | hf
  · rcases hs with hs | ⟨hs, hdf⟩
    · exact absurd hs hne
    · rw [hs, clearedVal_none hdf]
  · exact hf.1

theorem Post.le {R : RTbl V} {r a : Name} {vis vis' : List Name} {s s' : Dict V} (h : Post R r a vis s vis' s') :
    Le R s' s := by
  intro x
  rcases h.p1 x with h' | h'
  · exact Or.inl h'
  · exact Or.inr h'.1.1

theorem Touched.reach {R : RTbl V} {a : Name} {vis : List Name} {s s' : Dict V} {x : Name}
    (h : Touched R a vis s s' x) : Reach R a x := by
  obtain ⟨_, z, _, hz, hx, _⟩ := h
  rcases hx with rfl | hx
  · exact hz
  · exact hz.trans hx

/-- A top-level call (`_visited = {a}`) clears every transitive dependant other than `a` itself. -/
theorem Post.root {R : RTbl V} {a : Name} {s : Dict V} {vis' : List Name} {s' : Dict V}
    (h : Post R a a [a] s vis' s') : ∀ e, Reach R a e → e ≠ a → s' e = clearedVal R e := by
  have key : ∀ y e, Reach R y e → (y = a ∨ (y ∈ vis' ∧ y ≠ a)) → e ≠ a → s' e = clearedVal R e := by
    intro y e hr
    induction hr with
    | single ed =>
      rename_i y e
      intro hy hea
      have hd : Done R a e vis' s' := by
        rcases hy with rfl | ⟨hm, hne⟩
        · exact h.p4 _ ed
        · exact (h.p3 _ hm (by simpa using hne)).2.2 _ ed
      exact hd.cleared hea
    | head ed hr ih =>
      rename_i y b e
      intro hy hea
      have hd : Done R a b vis' s' := by
        rcases hy with rfl | ⟨hm, hne⟩
        · exact h.p4 _ ed
        · exact (h.p3 _ hm (by simpa using hne)).2.2 _ ed
      rcases hd with ⟨hm, _⟩ | hf
      · by_cases hb : b = a
        · exact ih (Or.inl hb) hea
        · exact ih (Or.inr ⟨hm, hb⟩) hea
      · exact hf.2 _ hr
  intro e he hea
  exact key a e he (Or.inl rfl) hea

/-- Loop invariant of the `for invalidatee in ...` loop. `ds` = dependants still to do. -/
structure LoopInv (R : RTbl V) (r a : Name) (vis : List Name) (s : Dict V) (ds : List Name)
    (vis1 : List Name) (s1 : Dict V) : Prop where
  i1 : ∀ x, s1 x = s x ∨ Touched R a vis s s1 x
  i2 : ∀ x ∈ vis, x ∈ vis1
  i3 : ∀ y ∈ vis1, y ∉ vis → Closed R r y vis1 s1
  i4 : ∀ d, Edge R a d → d ∉ ds → Done R r d vis1 s1

theorem LoopInv.le {R : RTbl V} {r a : Name} {vis vis1 : List Name} {s s1 : Dict V} {ds : List Name}
    (h : LoopInv R r a vis s ds vis1 s1) : Le R s1 s := by
  intro x
  rcases h.i1 x with h' | h'
  · exact Or.inl h'
  · exact Or.inr h'.1.1

theorem LoopInv.visOK {R : RTbl V} {r a : Name} {vis vis1 : List Name} {s s1 : Dict V} {ds : List Name}
    (h : LoopInv R r a vis s ds vis1 s1) (hv : VisOK R r vis s) : VisOK R r vis1 s1 := by
  intro y hy
  by_cases hyv : y ∈ vis
  · rcases hv y hyv with h' | ⟨hs, hdf⟩
    · exact Or.inl h'
    · exact Or.inr ⟨none_persist h.le hs hdf, hdf⟩
  · obtain ⟨hdf, hs, _⟩ := h.i3 y hy hyv
    exact Or.inr ⟨hs, hdf⟩

theorem dset_le_of_cleared {R : RTbl V} {s : Dict V} {d : Name} {v : V} (hd : dfltOf R d = some v) :
    Le R (dset s d (Tag.user, v)) s := by
  intro x
  unfold dset
  by_cases hx : x = d
  · subst hx; right; simp [clearedVal, hd]
  · left; simp [hx]

theorem derase_le_of_none {R : RTbl V} {s : Dict V} {d : Name} (hd : dfltOf R d = none) :
    Le R (derase s d) s := by
  intro x
  unfold derase
  by_cases hx : x = d
  · subst hx; right; simp [clearedVal, hd]
  · left; simp [hx]

theorem fold_post {R : RTbl V} (wf : WF R) (r a : Name) (vis : List Name) (s : Dict V)
    (hvis : VisOK R r vis s)
    (rec : Name → List Name → Dict V → InvRes V)
    (hrec : ∀ r' d vis2 s2, mu R d vis2 s2 < mu R a vis s → VisOK R r' vis2 s2 →
      ∃ vis' s', rec d vis2 s2 = some (vis', s') ∧ Post R r' d vis2 s2 vis' s') :
    ∀ ds, (∀ d ∈ ds, Edge R a d) → ∀ vis1 s1, LoopInv R r a vis s ds vis1 s1 →
      ∃ vis' s', invFold R rec ds (vis1, s1) = some (vis', s') ∧ LoopInv R r a vis s [] vis' s' := by
  intro ds
  induction ds with
  | nil =>
    intro _ vis1 s1 hinv
    exact ⟨vis1, s1, rfl, hinv⟩
  | cons d ds ih =>
    intro hds vis1 s1 hinv
    have ed : Edge R a d := hds d List.mem_cons_self
    have hdn : d ∈ R.names := edge_mem_names wf ed
    have hle1 : Le R s1 s := hinv.le
    have hvis1 : VisOK R r vis1 s1 := hinv.visOK hvis
    -- it suffices to exhibit the accumulator after this iteration together with the invariant
    suffices hstep : ∃ vis2 s2, invStep R rec d (vis1, s1) = some (vis2, s2) ∧ LoopInv R r a vis s ds vis2 s2 by
      obtain ⟨vis2, s2, hs, hinv2⟩ := hstep
      obtain ⟨vis', s', hf, hfin⟩ := ih (fun x hx => hds x (List.mem_cons_of_mem _ hx)) vis2 s2 hinv2
      refine ⟨vis', s', ?_, hfin⟩
      simp only [invFold, hs]
      exact hf
    unfold invStep
    by_cases hvis : d ∈ vis1
    · -- already in `_visited` (the root, or found empty): skipped before `delattr` is tried
      simp only [hvis, if_true]
      refine ⟨vis1, s1, rfl, hinv.i1, hinv.i2, hinv.i3, ?_⟩
      intro e ee he
      by_cases hed : e = d
      · subst hed; exact Or.inl ⟨hvis, hvis1 e hvis⟩
      · have : e ∉ d :: ds := by simp [hed, he]
        exact hinv.i4 e ee this
    simp only [hvis, if_false]
    have hdvis : d ∉ vis := fun h => hvis (hinv.i2 d h)
    -- helper: re-establish the invariant after a delete/reset of `d` followed by a root call
    have finish_root : ∀ (s2 sr : Dict V) (visr : List Name), Le R s2 s1 → s2 d = clearedVal R d →
        (∀ x, x ≠ d → s2 x = s1 x) → Deletable R s d →
        Post R d d [d] s2 visr sr → LoopInv R r a vis s ds vis1 sr := by
      intro s2 sr visr hle2 hs2d hs2o hdel hpost
      have hroot := hpost.root
      have hler : Le R sr s1 := hpost.le.trans hle2
      have hfull : Full R d sr := by
        refine ⟨cleared_persist hpost.le hs2d, fun e he => ?_⟩
        by_cases hed : e = d
        · subst hed; exact cleared_persist hpost.le hs2d
        · exact hroot e he hed
      refine ⟨?_, hinv.i2, ?_, ?_⟩
      · intro x
        rcases hpost.p1 x with h' | ht
        · by_cases hx : x = d
          · subst hx; right; exact ⟨hfull, x, hdvis, .single ed, Or.inl rfl, hdel⟩
          · rcases hinv.i1 x with h1 | h1
            · left; rw [h', hs2o x hx, h1]
            · right; exact h1.mono hler
        · right
          refine ⟨ht.1, d, hdvis, .single ed, ?_, hdel⟩
          by_cases hx : x = d
          · exact Or.inl hx.symm
          · exact Or.inr ht.reach
      · intro y hy hyv
        exact (hinv.i3 y hy hyv).mono (fun _ h => h) hler
      · intro e ee he
        by_cases hed : e = d
        · subst hed; exact Or.inr hfull
        · have : e ∉ d :: ds := by simp [hed, he]
          exact (hinv.i4 e ee this).mono (fun _ h => h) hler
    have hroot_vis : ∀ s2 : Dict V, VisOK R d [d] s2 := by
      intro s2 y hy; left; simpa using hy
    cases hdf : dfltOf R d with
    | some v =>
      -- reset to the default through `mutate_attr`
      simp only
      have hlt : mu R d [d] (dset s1 d (Tag.user, v)) < mu R a vis s := by
        unfold mu
        exact lex_lt_A (rho_lt wf ed (by simp [hdf])) (pres_lt_N _ _) (unvis_lt_N _ _)
      obtain ⟨visr, sr, hr, hpost⟩ := hrec d d [d] _ hlt (hroot_vis _)
      refine ⟨vis1, sr, by simp [hr], ?_⟩
      apply finish_root (dset s1 d (Tag.user, v)) sr visr (dset_le_of_cleared hdf)
      · simp [dset, clearedVal, hdf]
      · intro x hx; simp [dset, hx]
      · exact Or.inl (by simp [hdf])
      · exact hpost
    | none =>
      simp only
      by_cases hpres : (s1 d).isSome = true
      · -- raw delete succeeded
        simp only [hpres, if_true]
        have hle2 : Le R (derase s1 d) s1 := derase_le_of_none hdf
        have hlt : mu R d [d] (derase s1 d) < mu R a vis s := by
          unfold mu
          apply lex_lt_B (rho_le ed) _ (unvis_lt_N _ _)
          have h1 : pres R (derase s1 d) < pres R s1 :=
            pres_lt hle2 hdn hdf hpres (by simp [derase])
          have h2 := pres_le hle1
          omega
        obtain ⟨visr, sr, hr, hpost⟩ := hrec d d [d] _ hlt (hroot_vis _)
        refine ⟨vis1, sr, by simp [hr], ?_⟩
        apply finish_root (derase s1 d) sr visr hle2
        · simp [derase, clearedVal, hdf]
        · intro x hx; simp [derase, hx]
        · exact Deletable.of_le hle1 (Or.inr hpres)
        · exact hpost
      · have hnone : s1 d = none := by
          cases h : s1 d with
          | none => rfl
          | some _ => simp [h] at hpres
        simp only [hpres]
        -- nothing to delete: recurse with the visited set
        have hlt : mu R d (d :: vis1) s1 < mu R a vis s := by
          unfold mu
          apply lex_lt_C (rho_le ed) (pres_le hle1)
          have h1 : unvis R (d :: vis1) < unvis R vis1 := unvis_lt hdn hvis
          have h2 := unvis_le (R := R) hinv.i2
          omega
        have hv2 : VisOK R r (d :: vis1) s1 := by
          intro y hy
          rcases List.mem_cons.1 hy with rfl | hy
          · exact Or.inr ⟨hnone, hdf⟩
          · exact hvis1 y hy
        obtain ⟨visr, sr, hr, hpost⟩ := hrec r d (d :: vis1) s1 hlt hv2
        refine ⟨visr, sr, by simp [hr], ?_⟩
        have hler : Le R sr s1 := hpost.le
        have hsub : ∀ x ∈ vis1, x ∈ visr := fun x hx => hpost.p2 x (List.mem_cons_of_mem _ hx)
        have hdr : d ∈ visr := hpost.p2 d List.mem_cons_self
        have hsrd : sr d = none := none_persist hler hnone hdf
        refine ⟨?_, fun x hx => hsub x (hinv.i2 x hx), ?_, ?_⟩
        · intro x
          rcases hpost.p1 x with h' | ht
          · rcases hinv.i1 x with h1 | h1
            · left; rw [h', h1]
            · right; exact h1.mono hler
          · right
            obtain ⟨hf, z, hz, hrz, hzx, hdel⟩ := ht
            refine ⟨hf, z, fun h => hz (List.mem_cons_of_mem _ (hinv.i2 z h)), .head ed hrz, hzx,
              Deletable.of_le hle1 hdel⟩
        · intro y hy hyv
          by_cases hyd : y = d
          · subst hyd; exact ⟨hdf, hsrd, hpost.p4⟩
          · by_cases hy1 : y ∈ vis1
            · exact (hinv.i3 y hy1 hyv).mono hsub hler
            · exact hpost.p3 y hy (by simp [hyd, hy1])
        · intro e ee he
          by_cases hed : e = d
          · subst hed; exact Or.inl ⟨hdr, Or.inr ⟨hsrd, hdf⟩⟩
          · have : e ∉ d :: ds := by simp [hed, he]
            exact (hinv.i4 e ee this).mono hsub hler

/-- Main lemma: with enough fuel `invalidate_attrs` terminates and satisfies `Post`. -/
theorem inv_post {R : RTbl V} (wf : WF R) : ∀ fuel r a vis s, mu R a vis s < fuel → VisOK R r vis s →
    ∃ vis' s', invalidate R fuel a vis s = some (vis', s') ∧ Post R r a vis s vis' s' := by
  intro fuel
  induction fuel with
  | zero => intro r a vis s h; omega
  | succ fuel ih =>
    intro r a vis s h hv
    have hrec : ∀ r' d vis2 s2, mu R d vis2 s2 < mu R a vis s → VisOK R r' vis2 s2 →
        ∃ vis' s', invalidate R fuel d vis2 s2 = some (vis', s') ∧ Post R r' d vis2 s2 vis' s' :=
      fun r' d vis2 s2 hlt hv2 => ih r' d vis2 s2 (by omega) hv2
    have hinit : LoopInv R r a vis s (depList R a) vis s :=
      ⟨fun _ => Or.inl rfl, fun _ h => h, fun y hy hn => absurd hy hn, fun d ed hd => absurd ed hd⟩
    obtain ⟨vis', s', hf, hfin⟩ :=
      fold_post wf r a vis s hv (invalidate R fuel) hrec (depList R a) (fun _ h => h) vis s hinit
    refine ⟨vis', s', ?_, hfin.i1, hfin.i2, hfin.i3, fun d ed => hfin.i4 d ed (by simp)⟩
    simp only [invalidate]
    exact hf

theorem visOK_root (R : RTbl V) (a : Name) (s : Dict V) : VisOK R a [a] s := by
  intro y hy; left; simpa using hy

/-! ## exact characterisation of a top-level invalidation -/

/-- Some OTHER node on a dependency cycle through `a` holds a value: its `delattr` succeeds,
re-enters `invalidate_attrs` with a fresh `_visited`, and comes back to `a`. -/
def CycleFull (R : RTbl V) (a : Name) (s : Dict V) : Prop :=
  ∃ y, y ≠ a ∧ Reach R a y ∧ Reach R y a ∧ (s y).isSome

open Classical in
/-- `s` with every transitive dependant of `a` deleted / reset to its default — `a` itself (when it
lies on a dependency cycle) only if another node of such a cycle held a value. -/
noncomputable def clearReach (R : RTbl V) (a : Name) (s : Dict V) : Dict V :=
  fun x => if Reach R a x ∧ (x ≠ a ∨ CycleFull R a s) then clearedVal R x else s x

theorem clearReach_of_reach {R : RTbl V} {a x : Name} (s : Dict V) (h : Reach R a x) (hne : x ≠ a) :
    clearReach R a s x = clearedVal R x := by simp [clearReach, h, hne]
theorem clearReach_of_not {R : RTbl V} {a x : Name} (s : Dict V) (h : ¬ Reach R a x) :
    clearReach R a s x = s x := by simp [clearReach, h]
theorem clearReach_self {R : RTbl V} (a : Name) (s : Dict V) :
    clearReach R a s a = s a ∨ clearReach R a s a = clearedVal R a := by
  unfold clearReach
  split
  · exact Or.inr rfl
  · exact Or.inl rfl
theorem clearReach_self_keep {R : RTbl V} {a : Name} (s : Dict V) (h : ¬ CycleFull R a s) :
    clearReach R a s a = s a := by simp [clearReach, h]
theorem clearReach_self_drop {R : RTbl V} {a : Name} (s : Dict V) (hr : Reach R a a) (h : CycleFull R a s) :
    clearReach R a s a = clearedVal R a := by simp [clearReach, h, hr]
theorem clearReach_le {R : RTbl V} (a : Name) (s : Dict V) (x : Name) :
    clearReach R a s x = s x ∨ clearReach R a s x = clearedVal R x := by
  unfold clearReach
  split
  · exact Or.inr rfl
  · exact Or.inl rfl

theorem invalidateTop_eq {R : RTbl V} (wf : WF R) (a : Name) (s : Dict V) :
    invalidateTop R a s = some (clearReach R a s) := by
  obtain ⟨vis', s', h, hpost⟩ := inv_post wf R.fuel a a [a] s (mu_lt_fuel R a [a] s) (visOK_root R a s)
  unfold invalidateTop
  rw [h]
  simp only [Option.map_some, Option.some.injEq]
  funext x
  by_cases hr : Reach R a x
  · by_cases hxa : x = a
    · subst hxa
      by_cases hc : CycleFull R x s
      · rw [clearReach_self_drop s hr hc]
        obtain ⟨y, hya, hay, hyx, hsy⟩ := hc
        have hdf : dfltOf R y = none := by
          cases hd : dfltOf R y with
          | none => rfl
          | some v => exact absurd (hyx.trans hay) (wf.acyc y (by simp [hd]))
        have hy' : s' y = none := by rw [hpost.root y hay hya, clearedVal_none hdf]
        rcases hpost.p1 y with h' | ht
        · rw [hy'] at h'; rw [← h'] at hsy; cases hsy
        · exact ht.1.2 x hyx
      · rw [clearReach_self_keep s hc]
        rcases hpost.p1 x with h' | ht
        · exact h'
        · exfalso
          obtain ⟨_, z, hz, hxz, hzx, hdel⟩ := ht
          have hzne : z ≠ x := by simpa using hz
          have hzx' : Reach R z x := by
            rcases hzx with h0 | h0
            · exact absurd h0 hzne
            · exact h0
          rcases hdel with hd | hd
          · exact wf.acyc z hd (hzx'.trans hxz)
          · exact hc ⟨z, hzne, hxz, hzx', hd⟩
    · rw [clearReach_of_reach s hr hxa]; exact hpost.root x hr hxa
  · rw [clearReach_of_not s hr]
    rcases hpost.p1 x with h' | ht
    · exact h'
    · exact absurd ht.reach hr

/-- raw `setattr` works unless the name is a property that is not overridable. -/
def settable (R : RTbl V) (a : Name) : Bool :=
  match R.kind a with
  | .prop _ false _ => false
  | _ => true

theorem rawMutate_eq {R : RTbl V} (wf : WF R) (a : Name) (v : V) (s : Dict V) :
    rawMutate R a v s =
      if settable R a then .ok (clearReach R a (dset s a (Tag.user, v))) else .error .attributeError := by
  unfold rawMutate settable
  rw [invalidateTop_eq wf]
  cases h : R.kind a with
  | attr d => simp
  | plain c => simp
  | prop c o an => cases o <;> simp

theorem rawMutate_ok {R : RTbl V} (wf : WF R) {a : Name} {v : V} {s s' : Dict V}
    (h : rawMutate R a v s = .ok s') : s' = clearReach R a (dset s a (Tag.user, v)) := by
  rw [rawMutate_eq wf] at h
  split at h
  · cases h; rfl
  · cases h

theorem mutateAttr_ok {R : RTbl V} (wf : WF R) {a : Name} {v : V} {tc : Bool} {s s' : Dict V}
    (h : mutateAttr R a v tc s = .ok s') : s' = clearReach R a (dset s a (Tag.user, v)) := by
  unfold mutateAttr at h
  split at h
  · cases h
  · exact rawMutate_ok wf h

theorem delAttr_ok {R : RTbl V} (wf : WF R) {a : Name} {s s' : Dict V} (h : delAttr R a s = .ok s') :
    (∃ v, dfltOf R a = some v ∧ s' = clearReach R a (dset s a (Tag.user, v))) ∨
    (dfltOf R a = none ∧ (s a).isSome ∧ s' = clearReach R a (derase s a)) := by
  unfold delAttr at h
  split at h
  · rename_i d hd
    exact Or.inl ⟨d, hd, rawMutate_ok wf h⟩
  · rename_i hd
    split at h
    · rename_i hp
      rw [invalidateTop_eq wf] at h
      cases h
      exact Or.inr ⟨hd, hp, rfl⟩
    · cases h

/-! ## runs of primitive events: what every API call decomposes into -/

/-- The getter of `p` reads only names among the (transitive) declared dependencies of `p`. -/
def GetterLocal (R : RTbl V) : Prop :=
  ∀ p (f g : Name → Option V), (∀ n, Reach R n p → f n = g n) → R.getter p f = R.getter p g

/-- Every cached (non-override) slot holds what its getter returns on the cache-free state. -/
def FreshCache (R : RTbl V) (s : Dict V) : Prop :=
  ∀ p v, s p = some (Tag.cache, v) → v = R.getter p (nc s)

/-- `Run R s F D s'`: from `s` to `s'` by cache fills of the names `F` (in empty slots) and
writes / deletes of the names `D`, each followed by the invalidation of its dependants. -/
inductive Run (R : RTbl V) : Dict V → List Name → List Name → Dict V → Prop
  | nil (s : Dict V) : Run R s [] [] s
  | fill {s : Dict V} {p : Name} {F D : List Name} {s2 : Dict V} : s p = none →
      Run R (dset s p (Tag.cache, R.getter p (nc s))) F D s2 → Run R s (p :: F) D s2
  | write {s : Dict V} {x : Name} {v : V} {F D : List Name} {s2 : Dict V} :
      Run R (clearReach R x (dset s x (Tag.user, v))) F D s2 → Run R s F (x :: D) s2
  | erase {s : Dict V} {x : Name} {F D : List Name} {s2 : Dict V} : (s x).isSome →
      Run R (clearReach R x (derase s x)) F D s2 → Run R s F (x :: D) s2

theorem Run.trans {R : RTbl V} {s s1 s2 : Dict V} {F1 D1 F2 D2 : List Name}
    (h1 : Run R s F1 D1 s1) (h2 : Run R s1 F2 D2 s2) : Run R s (F1 ++ F2) (D1 ++ D2) s2 := by
  induction h1 with
  | nil _ => simpa using h2
  | fill hp _ ih => exact .fill hp (ih h2)
  | write _ ih => exact .write (ih h2)
  | erase hp _ ih => exact .erase hp (ih h2)

theorem nc_dset_cache (s : Dict V) (p : Name) (v : V) (hp : s p = none) :
    nc (dset s p (Tag.cache, v)) = nc s := by
  funext n
  unfold nc dset
  by_cases h : n = p
  · subst h; simp [hp]
  · simp [h]

theorem clearedVal_not_cache {R : RTbl V} {x : Name} {w : V} : clearedVal R x ≠ some (Tag.cache, w) := by
  unfold clearedVal
  cases dfltOf R x <;> simp

theorem fresh_write {R : RTbl V} (gl : GetterLocal R) {s : Dict V} (x : Name) (e : Option (Tag × V))
    (he : ∀ w, e ≠ some (Tag.cache, w)) (hf : FreshCache R s) :
    FreshCache R (clearReach R x (fun m => if m = x then e else s m)) := by
  intro p w hp
  by_cases hpx0 : p = x
  · subst hpx0
    rcases clearReach_self p (fun m => if m = p then e else s m) with h' | h'
    · rw [h'] at hp; simp at hp; exact absurd hp (he w)
    · rw [h'] at hp; exact absurd hp clearedVal_not_cache
  by_cases hr : Reach R x p
  · rw [clearReach_of_reach _ hr hpx0] at hp; exact absurd hp clearedVal_not_cache
  · rw [clearReach_of_not _ hr] at hp
    by_cases hpx : p = x
    · subst hpx; simp at hp; exact absurd hp (he w)
    · simp only [hpx, if_false] at hp
      rw [hf p w hp]
      apply gl
      intro n hn
      have hrn : ¬ Reach R x n := fun h => hr (h.trans hn)
      have hnx : n ≠ x := by rintro rfl; exact hr hn
      unfold nc
      rw [clearReach_of_not _ hrn]
      simp [hnx]

theorem Run.fresh {R : RTbl V} (gl : GetterLocal R) {s s' : Dict V} {F D : List Name}
    (h : Run R s F D s') (hf : FreshCache R s) : FreshCache R s' := by
  induction h with
  | nil _ => exact hf
  | @fill s p F D s2 hp hrun ih =>
    apply ih
    intro q w hq
    rw [nc_dset_cache s p _ hp]
    unfold dset at hq
    by_cases hqp : q = p
    · subst hqp; simp at hq; exact hq.symm
    · simp only [hqp, if_false] at hq; exact hf q w hq
  | @write s x v F D s2 hrun ih =>
    apply ih
    exact fresh_write gl x (some (Tag.user, v)) (by simp) hf
  | @erase s x F D s2 hp hrun ih =>
    apply ih
    exact fresh_write gl x none (by simp) hf

/-- Names that are neither filled nor written are only ever cleared. -/
theorem Run.le_at {R : RTbl V} {s s' : Dict V} {F D : List Name} (h : Run R s F D s') {z : Name}
    (hF : z ∉ F) (hD : z ∉ D) : s' z = s z ∨ s' z = clearedVal R z := by
  induction h with
  | nil _ => exact Or.inl rfl
  | @fill s p F D s2 hp hrun ih =>
    have hzp : z ≠ p := fun h => hF (h ▸ List.mem_cons_self)
    rcases ih (fun h => hF (List.mem_cons_of_mem _ h)) hD with h' | h'
    · left; rw [h']; simp [dset, hzp]
    · exact Or.inr h'
  | @write s x v F D s2 hrun ih =>
    have hzx : z ≠ x := fun h => hD (h ▸ List.mem_cons_self)
    rcases ih hF (fun h => hD (List.mem_cons_of_mem _ h)) with h' | h'
    · by_cases hr : Reach R x z
      · right; rw [h', clearReach_of_reach _ hr hzx]
      · left; rw [h', clearReach_of_not _ hr]; simp [dset, hzx]
    · exact Or.inr h'
  | @erase s x F D s2 hp hrun ih =>
    have hzx : z ≠ x := fun h => hD (h ▸ List.mem_cons_self)
    rcases ih hF (fun h => hD (List.mem_cons_of_mem _ h)) with h' | h'
    · by_cases hr : Reach R x z
      · right; rw [h', clearReach_of_reach _ hr hzx]
      · left; rw [h', clearReach_of_not _ hr]; simp [derase, hzx]
    · exact Or.inr h'

theorem Run.persist {R : RTbl V} {s s' : Dict V} {F D : List Name} (h : Run R s F D s') {z : Name}
    (hF : z ∉ F) (hD : z ∉ D) (hz : s z = clearedVal R z) : s' z = clearedVal R z := by
  rcases h.le_at hF hD with h' | h'
  · rw [h', hz]
  · exact h'

/-- Every transitive dependant of a written name ends up cleared (unless it was itself a target). -/
theorem Run.cleared {R : RTbl V} {s s' : Dict V} {F D : List Name} (h : Run R s F D s') :
    ∀ d ∈ D, ∀ z, Reach R d z → z ∉ D → z ∉ F → s' z = clearedVal R z := by
  induction h with
  | nil _ => intro d hd; cases hd
  | fill _ _ ih =>
    intro d hd z hr hD hF
    exact ih d hd z hr hD (fun h => hF (List.mem_cons_of_mem _ h))
  | @write s x v F D s2 hrun ih =>
    intro d hd z hr hD hF
    have hD' : z ∉ D := fun h => hD (List.mem_cons_of_mem _ h)
    rcases List.mem_cons.1 hd with rfl | hd'
    · exact hrun.persist hF hD' (clearReach_of_reach _ hr (fun h => hD (h ▸ List.mem_cons_self)))
    · exact ih d hd' z hr hD' hF
  | @erase s x F D s2 hp hrun ih =>
    intro d hd z hr hD hF
    have hD' : z ∉ D := fun h => hD (List.mem_cons_of_mem _ h)
    rcases List.mem_cons.1 hd with rfl | hd'
    · exact hrun.persist hF hD' (clearReach_of_reach _ hr (fun h => hD (h ▸ List.mem_cons_self)))
    · exact ih d hd' z hr hD' hF

/-- Unrelated names keep what they hold. -/
theorem Run.keep {R : RTbl V} {s s' : Dict V} {F D : List Name} (h : Run R s F D s') :
    ∀ t, t ∉ D → (∀ d ∈ D, ¬ Reach R d t) → ∀ e, s t = some e → s' t = some e := by
  induction h with
  | nil _ => intro t _ _ e he; exact he
  | @fill s p F D s2 hp hrun ih =>
    intro t hD hR e he
    apply ih t hD hR e
    have : t ≠ p := by rintro rfl; rw [hp] at he; cases he
    simp [dset, this, he]
  | @write s x v F D s2 hrun ih =>
    intro t hD hR e he
    have htx : t ≠ x := fun h => hD (h ▸ List.mem_cons_self)
    apply ih t (fun h => hD (List.mem_cons_of_mem _ h)) (fun d hd => hR d (List.mem_cons_of_mem _ hd)) e
    rw [clearReach_of_not _ (hR x List.mem_cons_self)]
    simp [dset, htx, he]
  | @erase s x F D s2 hp hrun ih =>
    intro t hD hR e he
    have htx : t ≠ x := fun h => hD (h ▸ List.mem_cons_self)
    apply ih t (fun h => hD (List.mem_cons_of_mem _ h)) (fun d hd => hR d (List.mem_cons_of_mem _ hd)) e
    rw [clearReach_of_not _ (hR x List.mem_cons_self)]
    simp [derase, htx, he]

/-- Fills alone discard nothing. -/
theorem Run.fills_keep {R : RTbl V} {s s' : Dict V} {F : List Name} (h : Run R s F [] s') :
    ∀ t e, s t = some e → s' t = some e :=
  fun t e he => h.keep t (by simp) (by simp) e he

/-- A defaulted attribute sitting at its default stays there unless it is itself written. -/
theorem Run.persist_some {R : RTbl V} {s s' : Dict V} {F D : List Name} (h : Run R s F D s') {z : Name}
    (hD : z ∉ D) (hz : s z = clearedVal R z) (hsome : (clearedVal R z).isSome) : s' z = clearedVal R z := by
  induction h with
  | nil _ => exact hz
  | @fill s p F D s2 hp hrun ih =>
    apply ih hD
    have : z ≠ p := by rintro rfl; rw [hz] at hp; rw [hp] at hsome; cases hsome
    simp [dset, this, hz]
  | @write s x v F D s2 hrun ih =>
    have hzx : z ≠ x := fun h => hD (h ▸ List.mem_cons_self)
    apply ih (fun h => hD (List.mem_cons_of_mem _ h))
    by_cases hr : Reach R x z
    · rw [clearReach_of_reach _ hr hzx]
    · rw [clearReach_of_not _ hr]; simp [dset, hzx, hz]
  | @erase s x F D s2 hp hrun ih =>
    have hzx : z ≠ x := fun h => hD (h ▸ List.mem_cons_self)
    apply ih (fun h => hD (List.mem_cons_of_mem _ h))
    by_cases hr : Reach R x z
    · rw [clearReach_of_reach _ hr hzx]
    · rw [clearReach_of_not _ hr]; simp [derase, hzx, hz]

theorem Run.cleared_some {R : RTbl V} {s s' : Dict V} {F D : List Name} (h : Run R s F D s') :
    ∀ d ∈ D, ∀ z, Reach R d z → z ∉ D → (clearedVal R z).isSome → s' z = clearedVal R z := by
  induction h with
  | nil _ => intro d hd; cases hd
  | @fill s p F D s2 hp hrun ih => exact ih
  | @write s x v F D s2 hrun ih =>
    intro d hd z hr hD hsome
    have hD' : z ∉ D := fun h => hD (List.mem_cons_of_mem _ h)
    rcases List.mem_cons.1 hd with rfl | hd'
    · exact hrun.persist_some hD' (clearReach_of_reach _ hr (fun h => hD (h ▸ List.mem_cons_self))) hsome
    · exact ih d hd' z hr hD' hsome
  | @erase s x F D s2 hp hrun ih =>
    intro d hd z hr hD hsome
    have hD' : z ∉ D := fun h => hD (List.mem_cons_of_mem _ h)
    rcases List.mem_cons.1 hd with rfl | hd'
    · exact hrun.persist_some hD' (clearReach_of_reach _ hr (fun h => hD (h ▸ List.mem_cons_self))) hsome
    · exact ih d hd' z hr hD' hsome

/-! ## every API entry point is a run -/

theorem readAttr_run (R : RTbl V) (n : Name) (s : Dict V) :
    ∃ F, Run R s F [] (readAttr R n s).st ∧ ∀ x ∈ F, x = n := by
  unfold readAttr
  cases hk : R.kind n with
  | attr d =>
    simp only
    cases hs : s n with
    | none => exact ⟨[], .nil s, by simp⟩
    | some e => exact ⟨[], .nil s, by simp⟩
  | plain c =>
    simp only
    cases hs : s n with
    | none => cases c <;> exact ⟨[], .nil s, by simp⟩
    | some e => exact ⟨[], .nil s, by simp⟩
  | prop c o an =>
    simp only
    cases hsl : (if (o || c) = true then s n else none) with
    | some e => exact ⟨[], .nil s, by simp⟩
    | none =>
      simp only
      cases c with
      | false => exact ⟨[], .nil s, by simp⟩
      | true =>
        have hn : s n = none := by simpa using hsl
        exact ⟨[n], .fill hn (.nil _), by simp⟩

theorem peek_run (R : RTbl V) (n : Name) (ip : Bool) (s : Dict V) :
    ∃ F, Run R s F [] (peek R n ip s).1 ∧ ∀ x ∈ F, x = n := by
  unfold peek
  cases ip with
  | true => exact ⟨[], .nil s, by simp⟩
  | false => exact readAttr_run R n s

theorem peek_inplace (R : RTbl V) (n : Name) (s : Dict V) : peek R n true s = (s, []) := rfl

theorem mutateAttr_run {R : RTbl V} (wf : WF R) {a : Name} {v : V} {tc : Bool} {s s' : Dict V}
    (h : mutateAttr R a v tc s = .ok s') : Run R s [] [a] s' := by
  rw [mutateAttr_ok wf h]; exact .write (.nil _)

theorem delAttr_run {R : RTbl V} (wf : WF R) {a : Name} {s s' : Dict V}
    (h : delAttr R a s = .ok s') : Run R s [] [a] s' := by
  rcases delAttr_ok wf h with ⟨v, _, rfl⟩ | ⟨_, hp, rfl⟩
  · exact .write (.nil _)
  · exact .erase hp (.nil _)

theorem updateFold_run {R : RTbl V} (wf : WF R) : ∀ (kvs : List (Name × V)) (s s' : Dict V),
    updateFold R kvs s = .ok s' → Run R s [] (kvs.map (·.1)) s' := by
  intro kvs
  induction kvs with
  | nil => intro s s' h; simp [updateFold] at h; subst h; exact .nil _
  | cons kv rest ih =>
    intro s s' h
    obtain ⟨k, v⟩ := kv
    unfold updateFold at h
    split at h
    · cases h
    · split at h
      · cases h
      · rename_i s1 hm
        have := (mutateAttr_run wf hm).trans (ih s1 s' h)
        simpa using this

theorem transformFold_run {R : RTbl V} (wf : WF R) :
    ∀ (kfs : List (Name × (Option V → Except Err V))) (s : Dict V) (cs : List Name) (s' : Dict V),
    (transformFold R kfs s cs).1 = .ok s' →
    ∃ F, Run R s F (kfs.map (·.1)) s' ∧ ∀ x ∈ F, x ∈ kfs.map (·.1) := by
  intro kfs
  induction kfs with
  | nil => intro s cs s' h; simp [transformFold] at h; subst h; exact ⟨[], .nil _, by simp⟩
  | cons kf rest ih =>
    intro s cs s' h
    obtain ⟨k, f⟩ := kf
    unfold transformFold at h
    split at h
    · cases h
    · simp only at h
      split at h
      · cases h
      · split at h
        · cases h
        · rename_i v hv s1 hm
          obtain ⟨F1, hr1, hF1⟩ := readAttr_run R k s
          obtain ⟨F2, hr2, hF2⟩ := ih s1 _ s' h
          refine ⟨F1 ++ ([] ++ F2), ?_, ?_⟩
          · have := hr1.trans ((mutateAttr_run wf hm).trans hr2)
            simpa using this
          · intro x hx
            simp only [List.mem_append, List.nil_append] at hx
            rcases hx with hx | hx
            · simp [hF1 x hx]
            · simp only [List.map_cons, List.mem_cons]; exact Or.inr (hF2 x hx)

theorem resetFold_run {R : RTbl V} (wf : WF R) : ∀ (names : List Name) (s s' : Dict V),
    resetFold R names s = .ok s' →
    ∃ D, Run R s [] D s' ∧ (∀ x ∈ D, x ∈ names) ∧ ∀ a ∈ names, (dfltOf R a).isSome → a ∈ D := by
  intro names
  induction names with
  | nil => intro s s' h; simp [resetFold] at h; subst h; exact ⟨[], .nil _, by simp, by simp⟩
  | cons a rest ih =>
    intro s s' h
    unfold resetFold at h
    split at h
    · rename_i s1 hd
      obtain ⟨D, hr, hsub, hall⟩ := ih s1 s' h
      refine ⟨a :: D, ?_, ?_, ?_⟩
      · have := (delAttr_run wf hd).trans hr
        simpa using this
      · intro x hx
        rcases List.mem_cons.1 hx with rfl | hx
        · exact List.mem_cons_self
        · exact List.mem_cons_of_mem _ (hsub x hx)
      · intro b hb hdf
        rcases List.mem_cons.1 hb with rfl | hb
        · exact List.mem_cons_self
        · exact List.mem_cons_of_mem _ (hall b hb hdf)
    · rename_i hd
      obtain ⟨D, hr, hsub, hall⟩ := ih s s' h
      refine ⟨D, hr, fun x hx => List.mem_cons_of_mem _ (hsub x hx), ?_⟩
      intro b hb hdf
      rcases List.mem_cons.1 hb with rfl | hb
      · -- a defaulted attribute can always be reset: `delAttr` cannot have raised AttributeError
        exfalso
        unfold delAttr at hd
        cases hdd : dfltOf R b with
        | none => simp [hdd] at hdf
        | some d =>
          simp only [hdd] at hd
          rw [rawMutate_eq wf] at hd
          split at hd
          · cases hd
          · rename_i hset
            -- a defaulted name is a managed `attr`, hence settable
            unfold dfltOf at hdd
            unfold settable at hset
            split at hdd
            · split at hdd
              · rename_i hk; simp [hk] at hset
              · cases hdd
            · cases hdd
      · exact hall b hb hdf
    · cases h

/-- names the operation assigns / deletes -/
def Op.names (R : RTbl V) : Op V → List Name
  | .read _ => []
  | .setattr n _ => [n]
  | .delattr n => [n]
  | .withAttr n _ => [n]
  | .updateAttr n _ => [n]
  | .transformAttr n _ => [n]
  | .resetAttr n => [n]
  | .elem n _ => [n]
  | .update kvs => kvs.map (·.1)
  | .transform kfs => kfs.map (·.1)
  | .reset => R.managedNames

/-- names whose getter the operation may call (filling the cache) -/
def Op.fillable : Op V → List Name
  | .read n => [n]
  | .updateAttr n _ => [n]
  | .transformAttr n _ => [n]
  | .transform kfs => kfs.map (·.1)
  | _ => []

/-- every name of `Op.names` is mutated when the call succeeds (`reset()` skips unset, default-less attributes) -/
def Op.exact : Op V → Bool
  | .reset => false
  | _ => true

theorem finish_res (ip : Bool) (self : Dict V) (r : Except Err (Dict V)) (c : List Name) :
    (finish ip self r c).res = r := by
  unfold finish; cases r <;> rfl

theorem finish_self (ip : Bool) (self : Dict V) (r : Except Err (Dict V)) (c : List Name) :
    (finish ip self r c).self = self ∨ ∃ s', r = .ok s' ∧ (finish ip self r c).self = s' := by
  unfold finish
  cases r with
  | error e => exact Or.inl rfl
  | ok s' =>
    cases ip
    · exact Or.inl rfl
    · exact Or.inr ⟨s', rfl, rfl⟩

theorem finish_self_inplace (self : Dict V) (s' : Dict V) (c : List Name) :
    (finish true self (.ok s') c).self = s' := rfl

theorem finish_self_copy (self : Dict V) (r : Except Err (Dict V)) (c : List Name) :
    (finish false self r c).self = self := by
  unfold finish; cases r <;> rfl

/-- What a successful call does (a run over its target names), and what happens to the receiver
(only cache fills, or it is the result itself). -/
structure StepSpec (R : RTbl V) (s : Dict V) (op : Op V) (r : StepRes V) : Prop where
  ok : ∀ s', r.res = .ok s' → ∃ F D, Run R s F D s' ∧ (∀ x ∈ F, x ∈ op.fillable) ∧
        (∀ x ∈ D, x ∈ op.names R) ∧ (op.exact = true → ∀ x ∈ op.names R, x ∈ D) ∧
        (∀ a ∈ op.names R, (dfltOf R a).isSome → a ∈ D)
  self : (∃ F, Run R s F [] r.self ∧ ∀ x ∈ F, x ∈ op.fillable) ∨ (∃ s', r.res = .ok s' ∧ r.self = s')

/-- helper: a single-target operation finished through `finish` -/
theorem spec_single {R : RTbl V} {s : Dict V} {op : Op V} {n : Name} (ip : Bool)
    (hn : op.names R = [n]) (hex : op.exact = true)
    (s0 : Dict V) (F0 : List Name) (h0 : Run R s F0 [] s0) (hF0 : ∀ x ∈ F0, x ∈ op.fillable)
    (res : Except Err (Dict V)) (c : List Name)
    (hres : ∀ s', res = .ok s' → Run R s0 [] [n] s') :
    StepSpec R s op (finish ip s0 res c) := by
  constructor
  · intro s' h
    rw [finish_res] at h
    refine ⟨F0 ++ [], [] ++ [n], h0.trans (hres s' h), ?_, ?_, ?_, ?_⟩
    · simpa using hF0
    · simp [hn]
    · intro _; simp [hn]
    · intro a ha _; simpa [hn] using ha
  · rcases finish_self ip s0 res c with h | ⟨s', hr, h⟩
    · left; rw [h]; exact ⟨F0, h0, hF0⟩
    · right; exact ⟨s', by rw [finish_res]; exact hr, h⟩

theorem spec_error {R : RTbl V} {s : Dict V} {op : Op V} (e : Err) (v : Option V) (c : List Name)
    (s0 : Dict V) (F0 : List Name) (h0 : Run R s F0 [] s0) (hF0 : ∀ x ∈ F0, x ∈ op.fillable) :
    StepSpec R s op ⟨s0, .error e, v, c⟩ :=
  ⟨fun s' h => (by simp at h), Or.inl ⟨F0, h0, hF0⟩⟩

theorem step_spec {R : RTbl V} (wf : WF R) (s : Dict V) (op : Op V) (ip : Bool) :
    StepSpec R s op (step R s op ip) := by
  cases op with
  | read n =>
    obtain ⟨F, hr, hF⟩ := readAttr_run R n s
    have hF' : ∀ x ∈ F, x ∈ (Op.read n : Op V).fillable := by
      intro x hx; simp [Op.fillable, hF x hx]
    simp only [step]
    split
    · refine ⟨?_, Or.inl ⟨F, hr, hF'⟩⟩
      intro s' h
      simp only at h
      cases h
      exact ⟨F, [], hr, hF', by simp, by simp [Op.names], by simp [Op.names]⟩
    · exact spec_error _ _ _ _ F hr hF'
  | setattr n v =>
    simp only [step]
    split
    · rename_i s1 hm
      refine ⟨?_, Or.inr ⟨s1, rfl, rfl⟩⟩
      intro s' h
      simp only at h
      cases h
      exact ⟨[], [n], mutateAttr_run wf hm, by simp, by simp [Op.names], by simp [Op.names], by simp [Op.names]⟩
    · exact spec_error _ _ _ _ [] (.nil s) (by simp)
  | delattr n =>
    simp only [step]
    split
    · rename_i s1 hm
      refine ⟨?_, Or.inr ⟨s1, rfl, rfl⟩⟩
      intro s' h
      simp only at h
      cases h
      exact ⟨[], [n], delAttr_run wf hm, by simp, by simp [Op.names], by simp [Op.names], by simp [Op.names]⟩
    · exact spec_error _ _ _ _ [] (.nil s) (by simp)
  | withAttr n v =>
    simp only [step]
    split
    · exact spec_error _ _ _ _ [] (.nil s) (by simp)
    · exact spec_single ip rfl rfl s [] (.nil s) (by simp) _ _ (fun s' h => mutateAttr_run wf h)
  | updateAttr n v =>
    simp only [step]
    split
    · exact spec_error _ _ _ _ [] (.nil s) (by simp)
    · obtain ⟨F, hr, hF⟩ := peek_run R n ip s
      have hF' : ∀ x ∈ F, x ∈ (Op.updateAttr n v : Op V).fillable := by
        intro x hx; simp [Op.fillable, hF x hx]
      exact spec_single ip rfl rfl _ F hr hF' _ _ (fun s' h => mutateAttr_run wf h)
  | transformAttr n f =>
    simp only [step]
    split
    · exact spec_error _ _ _ _ [] (.nil s) (by simp)
    · obtain ⟨F, hr, hF⟩ := readAttr_run R n s
      have hF' : ∀ x ∈ F, x ∈ (Op.transformAttr n f : Op V).fillable := by
        intro x hx; simp [Op.fillable, hF x hx]
      split
      · exact spec_error _ _ _ _ F hr hF'
      · obtain ⟨F2, hr2, hF2⟩ := peek_run R n ip (readAttr R n s).st
        have hF2' : ∀ x ∈ F ++ F2, x ∈ (Op.transformAttr n f : Op V).fillable := by
          intro x hx
          rcases List.mem_append.1 hx with h | h
          · exact hF' x h
          · simp [Op.fillable, hF2 x h]
        have hrr : Run R s (F ++ F2) [] (peek R n ip (readAttr R n s).st).1 := by
          simpa using hr.trans hr2
        exact spec_single ip rfl rfl _ (F ++ F2) hrr hF2' _ _ (fun s' h => mutateAttr_run wf h)
  | resetAttr n =>
    simp only [step]
    split
    · exact spec_error _ _ _ _ [] (.nil s) (by simp)
    · exact spec_single ip rfl rfl s [] (.nil s) (by simp) _ _ (fun s' h => delAttr_run wf h)
  | elem n f =>
    simp only [step]
    split
    · exact spec_error _ _ _ _ [] (.nil s) (by simp)
    · split
      · exact spec_error _ _ _ _ [] (.nil s) (by simp)
      · exact spec_single ip rfl rfl s [] (.nil s) (by simp) _ _ (fun s' h => mutateAttr_run wf h)
  | update kvs =>
    simp only [step]
    constructor
    · intro s' h
      rw [finish_res] at h
      exact ⟨[], kvs.map (·.1), updateFold_run wf kvs s s' h, by simp, by simp [Op.names],
        by simp [Op.names], by intro a ha _; simpa [Op.names] using ha⟩
    · rcases finish_self ip s (updateFold R kvs s) [] with h | ⟨s', hr, h⟩
      · left; rw [h]; exact ⟨[], .nil s, by simp⟩
      · right; exact ⟨s', by rw [finish_res]; exact hr, h⟩
  | transform kfs =>
    simp only [step]
    constructor
    · intro s' h
      rw [finish_res] at h
      obtain ⟨F, hr, hF⟩ := transformFold_run wf kfs s [] s' h
      exact ⟨F, kfs.map (·.1), hr, by simpa [Op.fillable] using hF, by simp [Op.names],
        by simp [Op.names], by intro a ha _; simpa [Op.names] using ha⟩
    · rcases finish_self ip s (transformFold R kfs s []).1 (transformFold R kfs s []).2 with h | ⟨s', hr, h⟩
      · left; rw [h]; exact ⟨[], .nil s, by simp⟩
      · right; exact ⟨s', by rw [finish_res]; exact hr, h⟩
  | reset =>
    simp only [step]
    constructor
    · intro s' h
      rw [finish_res] at h
      obtain ⟨D, hr, hsub, hall⟩ := resetFold_run wf R.managedNames s s' h
      exact ⟨[], D, hr, by simp, by simpa [Op.names] using hsub, by simp [Op.exact],
        by simpa [Op.names] using hall⟩
    · rcases finish_self ip s (resetFold R R.managedNames s) [] with h | ⟨s', hr, h⟩
      · left; rw [h]; exact ⟨[], .nil s, by simp⟩
      · right; exact ⟨s', by rw [finish_res]; exact hr, h⟩

/-- A copy-on-write call leaves the receiver alone, except for cache fills. -/
theorem step_self_copy {R : RTbl V} (s : Dict V) (op : Op V) (h : op.alwaysInPlace = false) :
    ∃ F, Run R s F [] (step R s op false).self ∧ ∀ x ∈ F, x ∈ op.fillable := by
  have nil : ∃ F, Run R s F [] s ∧ ∀ x ∈ F, x ∈ op.fillable := ⟨[], .nil s, by simp⟩
  cases op with
  | read n => simp [Op.alwaysInPlace] at h
  | setattr n v => simp [Op.alwaysInPlace] at h
  | delattr n => simp [Op.alwaysInPlace] at h
  | withAttr n v =>
    simp only [step]
    split
    · exact nil
    · rw [finish_self_copy]; exact nil
  | updateAttr n v =>
    simp only [step]
    split
    · exact nil
    · obtain ⟨F, hr, hF⟩ := peek_run R n false s
      rw [finish_self_copy]
      exact ⟨F, hr, fun x hx => by simp [Op.fillable, hF x hx]⟩
  | transformAttr n f =>
    simp only [step]
    split
    · exact nil
    · obtain ⟨F, hr, hF⟩ := readAttr_run R n s
      have hF' : ∀ x ∈ F, x ∈ (Op.transformAttr n f : Op V).fillable := by
        intro x hx; simp [Op.fillable, hF x hx]
      split
      · exact ⟨F, hr, hF'⟩
      · obtain ⟨F2, hr2, hF2⟩ := peek_run R n false (readAttr R n s).st
        rw [finish_self_copy]
        refine ⟨F ++ F2, by simpa using hr.trans hr2, ?_⟩
        intro x hx
        rcases List.mem_append.1 hx with h | h
        · exact hF' x h
        · simp [Op.fillable, hF2 x h]
  | resetAttr n =>
    simp only [step]
    split
    · exact nil
    · rw [finish_self_copy]; exact nil
  | elem n f =>
    simp only [step]
    split
    · exact nil
    · split
      · exact nil
      · rw [finish_self_copy]; exact nil
  | update kvs => simp only [step]; rw [finish_self_copy]; exact nil
  | transform kfs => simp only [step]; rw [finish_self_copy]; exact nil
  | reset => simp only [step]; rw [finish_self_copy]; exact nil

/-- `read`, `setattr`, `delattr`: the receiver is the result. -/
theorem step_self_always {R : RTbl V} (s : Dict V) (op : Op V) (ip : Bool) (h : op.alwaysInPlace = true)
    {s' : Dict V} (hr : (step R s op ip).res = .ok s') : (step R s op ip).self = s' := by
  cases op with
  | read n =>
    simp only [step] at hr ⊢
    split at hr <;> simp_all
  | setattr n v =>
    simp only [step] at hr ⊢
    split at hr <;> simp_all
  | delattr n =>
    simp only [step] at hr ⊢
    split at hr <;> simp_all
  | _ => simp [Op.alwaysInPlace] at h

/-- In place, the receiver is the result. -/
theorem step_self_inplace {R : RTbl V} (s : Dict V) (op : Op V)
    {s' : Dict V} (hr : (step R s op true).res = .ok s') : (step R s op true).self = s' := by
  by_cases h : op.alwaysInPlace = true
  · exact step_self_always s op true h hr
  · cases op with
    | read n => simp [Op.alwaysInPlace] at h
    | setattr n v => simp [Op.alwaysInPlace] at h
    | delattr n => simp [Op.alwaysInPlace] at h
    | withAttr n v =>
      simp only [step] at hr ⊢
      split at hr
      · simp at hr
      · rename_i hm; simp only [hm, if_false] at hr ⊢
        rw [finish_res] at hr; rw [hr]; rfl
    | updateAttr n v =>
      simp only [step] at hr ⊢
      split at hr
      · simp at hr
      · rename_i hm; simp only [hm, if_false] at hr ⊢
        rw [finish_res] at hr; rw [hr]; rfl
    | transformAttr n f =>
      simp only [step] at hr ⊢
      split at hr
      · simp at hr
      · rename_i hm; simp only [hm, if_false] at hr ⊢
        split at hr
        · simp at hr
        · rename_i v hv
          rw [finish_res] at hr
          simp [hr, finish]
    | resetAttr n =>
      simp only [step] at hr ⊢
      split at hr
      · simp at hr
      · rename_i hm; simp only [hm, if_false] at hr ⊢
        rw [finish_res] at hr; rw [hr]; rfl
    | elem n f =>
      simp only [step] at hr ⊢
      split at hr
      · simp at hr
      · rename_i hm; simp only [hm, if_false] at hr ⊢
        split at hr
        · simp at hr
        · rename_i v hv
          rw [finish_res] at hr
          simp [hr, finish]
    | update kvs => simp only [step] at hr ⊢; rw [finish_res] at hr; rw [hr]; rfl
    | transform kfs => simp only [step] at hr ⊢; rw [finish_res] at hr; rw [hr]; rfl
    | reset => simp only [step] at hr ⊢; rw [finish_res] at hr; rw [hr]; rfl

/-! ## the table is built as declared -/

theorem lookupMember_cons (m : Member V) (ms : List (Member V)) (d : Name) :
    lookupMember (m :: ms) d = if m.name = d then some m else lookupMember ms d := by
  unfold lookupMember
  rw [List.find?_cons]
  by_cases h : m.name = d
  · simp [h]
  · have : (m.name == d) = false := by simp [h]
    simp [this, h]

theorem invPairs_mem {k : Key} {d : Name} : ∀ (ds : List (Member V)) (seen : List Name),
    (k, d) ∈ invPairs ds seen ↔ d ∉ seen ∧ ∃ m, lookupMember ds d = some m ∧ k ∈ m.invBy := by
  intro ds
  induction ds with
  | nil => intro seen; simp [invPairs, lookupMember]
  | cons m ms ih =>
    intro seen
    unfold invPairs
    rw [lookupMember_cons]
    by_cases hs : m.name ∈ seen
    · simp only [hs, if_true, ih]
      by_cases hd : m.name = d
      · subst hd; simp [hs]
      · simp [hd]
    · simp only [hs, if_false, List.mem_append, List.mem_map, ih, List.mem_cons, not_or]
      constructor
      · rintro (⟨k', hk', heq⟩ | ⟨⟨hne, hns⟩, m', hm', hk'⟩)
        · have h1 : k' = k := (Prod.mk.inj heq).1
          have h2 : m.name = d := (Prod.mk.inj heq).2
          subst h1
          refine ⟨h2 ▸ hs, m, by simp [h2], hk'⟩
        · refine ⟨hns, m', ?_, hk'⟩
          rw [if_neg (fun h => hne h.symm)]; exact hm'
      · rintro ⟨hns, m', hm', hk'⟩
        by_cases hd : m.name = d
        · rw [if_pos hd] at hm'; cases hm'
          exact Or.inl ⟨k, hk', by rw [hd]⟩
        · rw [if_neg hd] at hm'
          exact Or.inr ⟨⟨fun h => hd h.symm, hns⟩, m', hm', hk'⟩

theorem constructFold_user {R : RTbl V} (kw : List (Name × V)) : ∀ (names : List Name) (s s' : Dict V),
    constructFold R kw names s = .ok s' → (∀ n e, s n = some e → e.1 = Tag.user) →
    ∀ n e, s' n = some e → e.1 = Tag.user := by
  intro names
  induction names with
  | nil => intro s s' h hs; simp [constructFold] at h; subst h; exact hs
  | cons a rest ih =>
    intro s s' h hs
    unfold constructFold at h
    have hset : ∀ v : V, ∀ n e, dset s a (Tag.user, v) n = some e → e.1 = Tag.user := by
      intro v n e he
      unfold dset at he
      by_cases hn : n = a
      · simp [hn] at he; rw [← he]
      · simp [hn] at he; exact hs n e he
    split at h
    · split at h
      · cases h
      · split at h
        · cases h
        · exact ih _ _ h (hset _)
    · split at h
      · exact ih _ _ h (hset _)
      · exact ih _ _ h hs

theorem construct_fresh {R : RTbl V} {kw : List (Name × V)} {s : Dict V} (h : construct R kw = .ok s) :
    FreshCache R s := by
  unfold construct at h
  split at h
  · cases h
  · intro p v hp
    have := constructFold_user kw _ _ _ h (by intro n e he; simp [Dict.empty] at he) p _ hp
    cases this

/-! ## ghost bookkeeping for "a dependency changed since" and the invariant `Fresh` -/

/-- An instance together with ghost time stamps: `last n` = the (logical) time of the last
successful API call that assigned / deleted `n` on this instance's lineage. -/
structure GInst (V : Type) where
  d     : Dict V
  last  : Name → Nat
  clock : Nat

/-- Every `invalidated_by` attribute with a default is at that default whenever one of its
(transitive) dependencies was assigned later than the attribute itself. -/
def FreshAttr (R : RTbl V) (g : GInst V) : Prop :=
  ∀ z v, dfltOf R z = some v → ∀ d, Reach R d z → g.last z < g.last d → g.d z = some (Tag.user, v)

structure Fresh (R : RTbl V) (g : GInst V) : Prop where
  cache : FreshCache R g.d
  attr  : FreshAttr R g
  clock : ∀ n, g.last n ≤ g.clock

def stamp (g : GInst V) (names : List Name) (d : Dict V) : GInst V :=
  ⟨d, fun n => if n ∈ names then g.clock + 1 else g.last n, g.clock + 1⟩

/-- The instance one continues with after `op`: the returned instance (`follow`, or any in-place
call) or the receiver of a copy-on-write call. -/
def gnext (R : RTbl V) (g : GInst V) (op : Op V) (ip follow : Bool) : GInst V :=
  match (step R g.d op ip).res with
  | .error _ => ⟨(step R g.d op ip).self, g.last, g.clock + 1⟩
  | .ok s' =>
    if follow || ip || op.alwaysInPlace then stamp g (op.names R) s'
    else ⟨(step R g.d op ip).self, g.last, g.clock + 1⟩

/-- All histories: construction, then any interleaving of reads, overrides and mutations through
any entry point, in place or on a copy, continuing with either instance. -/
inductive Lineage (R : RTbl V) : GInst V → Prop
  | init (kw : List (Name × V)) (s : Dict V) : construct R kw = .ok s → Lineage R ⟨s, fun _ => 0, 0⟩
  | step (g : GInst V) (op : Op V) (ip follow : Bool) : Lineage R g → Lineage R (gnext R g op ip follow)

theorem fresh_of_fills {R : RTbl V} (gl : GetterLocal R) {g : GInst V} (hf : Fresh R g) {F : List Name}
    {s1 : Dict V} (hr : Run R g.d F [] s1) : Fresh R ⟨s1, g.last, g.clock + 1⟩ := by
  refine ⟨hr.fresh gl hf.cache, ?_, fun n => Nat.le_succ_of_le (hf.clock n)⟩
  intro z v hz d hd hlt
  exact hr.fills_keep z _ (hf.attr z v hz d hd hlt)

theorem fresh_of_run {R : RTbl V} (wf : WF R) (gl : GetterLocal R) {g : GInst V} (hf : Fresh R g)
    {op : Op V} {F D : List Name} {s' : Dict V} (hr : Run R g.d F D s')
    (hD : ∀ x ∈ D, x ∈ op.names R)
    (hex : op.exact = true → ∀ x ∈ op.names R, x ∈ D)
    (hnex : op.exact = false → ∀ z, (dfltOf R z).isSome → z ∈ op.names R) :
    Fresh R (stamp g (op.names R) s') := by
  refine ⟨hr.fresh gl hf.cache, ?_, ?_⟩
  · intro z v hz d hd hlt
    have hcv : clearedVal R z = some (Tag.user, v) := by simp [clearedVal, hz]
    simp only [stamp] at hlt ⊢
    by_cases hzn : z ∈ op.names R
    · -- z was assigned by this very call: nothing is newer
      simp only [hzn, if_true] at hlt
      by_cases hdn : d ∈ op.names R
      · simp [hdn] at hlt
      · simp only [hdn, if_false] at hlt
        have := hf.clock d
        omega
    · simp only [hzn, if_false] at hlt
      have hzD : z ∉ D := fun h => hzn (hD z h)
      by_cases hdn : d ∈ op.names R
      · -- a dependency was assigned by this call
        cases hx : op.exact with
        | true =>
          have := hr.cleared_some d (hex hx d hdn) z hd hzD (by simp [hcv])
          rw [this, hcv]
        | false => exact absurd (hnex hx z (by simp [hz])) hzn
      · simp only [hdn, if_false] at hlt
        have hold := hf.attr z v hz d hd hlt
        have := hr.persist_some hzD (by rw [hold, hcv]) (by simp [hcv])
        rw [this, hcv]
  · intro n
    simp only [stamp]
    split
    · exact Nat.le_refl _
    · exact Nat.le_succ_of_le (hf.clock n)

theorem op_nonexact_names {R : RTbl V} (wf : WF R) (op : Op V) (h : op.exact = false) :
    ∀ z, (dfltOf R z).isSome → z ∈ op.names R := by
  cases op <;> simp [Op.exact] at h
  exact wf.managedComplete

/-- `Fresh` is preserved by every API call, whichever instance one continues with. -/
theorem fresh_gnext {R : RTbl V} (wf : WF R) (gl : GetterLocal R) {g : GInst V} (hf : Fresh R g)
    (op : Op V) (ip follow : Bool) : Fresh R (gnext R g op ip follow) := by
  have spec := step_spec wf g.d op ip
  unfold gnext
  cases hres : (step R g.d op ip).res with
  | error e =>
    simp only
    rcases spec.self with ⟨F, hr, _⟩ | ⟨s', hs', _⟩
    · exact fresh_of_fills gl hf hr
    · rw [hres] at hs'; cases hs'
  | ok s' =>
    simp only
    obtain ⟨F, D, hr, _, hD, hex, _⟩ := spec.ok s' hres
    split
    · exact fresh_of_run wf gl hf hr hD hex (op_nonexact_names wf op)
    · rename_i hc
      simp only [Bool.or_eq_true, not_or, Bool.not_eq_true] at hc
      obtain ⟨⟨_, hip⟩, haip⟩ := hc
      subst hip
      obtain ⟨F', hr', _⟩ := step_self_copy (R := R) g.d op haip
      exact fresh_of_fills gl hf hr'

theorem fresh_lineage {R : RTbl V} (wf : WF R) (gl : GetterLocal R) {g : GInst V} (h : Lineage R g) :
    Fresh R g := by
  induction h with
  | init kw s hc =>
    exact ⟨construct_fresh hc, fun z v _ d _ hlt => by simp at hlt, fun _ => Nat.le_refl _⟩
  | step g op ip follow _ ih => exact fresh_gnext wf gl ih op ip follow

/-- Several instances side by side (what the driver runs): every instance stays fresh. -/
theorem wstep_fresh {R : RTbl V} (wf : WF R) (gl : GetterLocal R) (w : World V)
    (hw : ∀ s ∈ w, FreshCache R s) (i : Nat) (op : Op V) (ip : Bool) :
    ∀ s ∈ (wstep R w i op ip).world, FreshCache R s := by
  unfold wstep
  cases hi : w[i]? with
  | none => simpa using hw
  | some s0 =>
    simp only
    have hs0 : FreshCache R s0 := hw s0 (List.mem_of_getElem? hi)
    have spec := step_spec wf s0 op (ip || op.alwaysInPlace)
    have hself : FreshCache R (step R s0 op (ip || op.alwaysInPlace)).self := by
      rcases spec.self with ⟨F, hr, _⟩ | ⟨s', hs', he⟩
      · exact hr.fresh gl hs0
      · obtain ⟨F, D, hr, _⟩ := spec.ok s' hs'
        rw [he]; exact hr.fresh gl hs0
    have hset : ∀ s ∈ w.set i (step R s0 op (ip || op.alwaysInPlace)).self, FreshCache R s := by
      intro s hs
      rcases List.mem_or_eq_of_mem_set hs with h | h
      · exact hw s h
      · rw [h]; exact hself
    cases hres : (step R s0 op (ip || op.alwaysInPlace)).res with
    | error e => simpa using hset
    | ok s' =>
      simp only
      obtain ⟨F, D, hr, _⟩ := spec.ok s' hres
      split
      · exact hset
      · intro s hs
        rcases List.mem_append.1 hs with h | h
        · exact hset s h
        · simp at h; rw [h]; exact hr.fresh gl hs0

/-! ## tables produced by `Tbl.resolveWith` -/

theorem mem_invMapOf_iff' {ds : List (Member V)} {k : Key} {d : Name} :
    d ∈ invMapOf ds k ↔ ∃ m, lookupMember ds d = some m ∧ k ∈ m.invBy := by
  unfold invMapOf
  simp only [List.mem_map, List.mem_filter, beq_iff_eq]
  constructor
  · rintro ⟨⟨k', d'⟩, ⟨hm, hk⟩, hd⟩
    simp only at hk hd
    subst hk hd
    exact ((invPairs_mem ds []).1 hm).2
  · rintro ⟨m, hm, hk⟩
    exact ⟨(k, d), ⟨(invPairs_mem ds []).2 ⟨by simp, m, hm, hk⟩, rfl⟩, rfl⟩

theorem lookupMember_some {ds : List (Member V)} {d : Name} {m : Member V} (h : lookupMember ds d = some m) :
    m ∈ ds ∧ m.name = d := by
  unfold lookupMember at h
  exact ⟨List.mem_of_find?_eq_some h, by simpa using List.find?_some h⟩

theorem ownerMro_sub (cs : List (ClassDecl V)) : ∀ m ∈ declsOf (ownerMro cs), m ∈ declsOf cs := by
  intro m hm
  unfold declsOf ownerMro at *
  rw [List.mem_flatMap] at hm ⊢
  obtain ⟨c, hc, hmc⟩ := hm
  exact ⟨c, (List.dropWhile_sublist _).subset hc, hmc⟩

theorem plainPrefix_sub (cs : List (ClassDecl V)) :
    ∀ m ∈ declsOf (cs.takeWhile (fun c => !c.spec)), m ∈ declsOf cs := by
  intro m hm
  unfold declsOf at *
  rw [List.mem_flatMap] at hm ⊢
  obtain ⟨c, hc, hmc⟩ := hm
  exact ⟨c, (List.takeWhile_sublist _).subset hc, hmc⟩

/-! ### `metadata.attrs` along the hierarchy (`effSpec`) -/

theorem declsOf_cons (c : ClassDecl V) (rest : List (ClassDecl V)) :
    declsOf (c :: rest) = c.members ++ declsOf rest := by
  simp [declsOf]

/-- a managed name is declared somewhere in the hierarchy -/
theorem effSpec_some_mem (h : Bool) : ∀ (cs : List (ClassDecl V)) (n : Name) (sp : Eff V),
    effSpec h cs n = some sp → n ∈ (declsOf cs).map (·.name) := by
  intro cs
  induction cs with
  | nil => intro n sp hs; simp [effSpec] at hs
  | cons c rest ih =>
    intro n sp hs
    rw [declsOf_cons, List.map_append, List.mem_append]
    unfold effSpec at hs
    split at hs
    · exact Or.inr (ih n sp hs)
    · rename_i m hl
      obtain ⟨hmem, hname⟩ := lookupMember_some hl
      exact Or.inl (List.mem_map.2 ⟨m, hmem, hname⟩)

/-- whether a name is managed does not depend on whose `invalidated_by` counts -/
theorem effSpec_isSome (h h' : Bool) : ∀ (cs : List (ClassDecl V)) (n : Name),
    (effSpec h cs n).isSome = (effSpec h' cs n).isSome := by
  intro cs
  induction cs with
  | nil => intro n; rfl
  | cons c rest ih =>
    intro n
    unfold effSpec
    split
    · exact ih n
    · split
      · simp [ih n]
      · split
        · rfl
        · simp [ih n]

/-- If the undecorated classes declare no `invalidated_by`, it makes no difference whether their
declarations count. -/
theorem effSpec_honour_irrelevant : ∀ (cs : List (ClassDecl V))
    (hs : ∀ c ∈ cs, c.spec = false → ∀ m ∈ c.members, m.invBy = []) (n : Name),
    effSpec true cs n = effSpec false cs n := by
  intro cs
  induction cs with
  | nil => intro _ n; rfl
  | cons c rest ih =>
    intro hs n
    have ih' := ih (fun c' hc' => hs c' (List.mem_cons_of_mem _ hc')) n
    unfold effSpec
    split
    · exact ih'
    · rename_i m hl
      split
      · rename_i hc
        have hinv : m.invBy = [] :=
          hs c (List.mem_cons_self ..) (by simpa using hc) m (lookupMember_some hl).1
        rw [ih']
        congr 1
        funext sp
        unfold plainOverride
        split <;> simp [hinv, ownOr]
      · split
        · rfl
        · rw [ih']

theorem lookupMember_effList (f : Name → Option (Eff V)) : ∀ (l : List Name) (n : Name),
    lookupMember (l.filterMap (fun x => (f x).map (effMember x))) n =
      if n ∈ l then (f n).map (effMember n) else none := by
  intro l
  induction l with
  | nil => intro n; simp [lookupMember]
  | cons x xs ih =>
    intro n
    rw [List.filterMap_cons]
    cases hx : f x with
    | none =>
      simp only [Option.map_none]
      rw [ih n]
      by_cases hxn : n = x
      · subst hxn; simp [hx]
      · simp [hxn]
    | some sp =>
      simp only [Option.map_some]
      rw [lookupMember_cons]
      by_cases hxn : x = n
      · subst hxn; simp [effMember, hx]
      · have : (effMember x sp).name ≠ n := by simpa [effMember] using hxn
        rw [if_neg this, ih n]
        have hnx : n ≠ x := fun h => hxn h.symm
        simp [hnx]

/-- `metadata.attrs.get(n)` as a declaration -/
theorem lookupMember_effManaged (h : Bool) (cs : List (ClassDecl V)) (n : Name) :
    lookupMember (effManaged h cs) n = (effSpec h cs n).map (effMember n) := by
  unfold effManaged
  rw [lookupMember_effList]
  split
  · rfl
  · rename_i hn
    rw [mem_dedup] at hn
    cases hs : effSpec h cs n with
    | none => rfl
    | some sp => exact absurd (effSpec_some_mem h cs n sp hs) hn

theorem lookupMember_append (l1 l2 : List (Member V)) (n : Name) :
    lookupMember (l1 ++ l2) n = (lookupMember l1 n).or (lookupMember l2 n) := by
  unfold lookupMember
  rw [List.find?_append]

theorem lookupMember_none_of_names {ds : List (Member V)} {n : Name}
    (h : n ∉ ds.map (·.name)) : lookupMember ds n = none := by
  unfold lookupMember
  rw [List.find?_eq_none]
  intro m hm hmn
  exact h (List.mem_map.2 ⟨m, hm, by simpa using hmn⟩)

theorem lookupMember_bindingDecls (cs : List (ClassDecl V)) (n : Name) :
    lookupMember (bindingDecls cs) n = clsVal (declsOf cs) n := by
  unfold lookupMember bindingDecls clsVal
  rw [List.find?_filter]
  congr 1
  funext m
  by_cases hmn : m.name = n <;> simp [hmn]

theorem effManaged_names (h : Bool) (cs : List (ClassDecl V)) :
    ∀ m ∈ effManaged h cs, m.name ∈ (declsOf cs).map (·.name) := by
  intro m hm
  unfold effManaged at hm
  rw [List.mem_filterMap] at hm
  obtain ⟨n, hn, hf⟩ := hm
  rw [mem_dedup] at hn
  cases hs : effSpec h cs n with
  | none => simp [hs] at hf
  | some sp =>
    simp [hs] at hf
    subst hf
    exact hn

theorem effOwn_names (hh : Bool) (cs : List (ClassDecl V)) :
    ∀ m ∈ effOwn hh cs, m.name ∈ (declsOf (ownerMro cs)).map (·.name) := by
  intro m hm
  unfold effOwn at hm
  rcases List.mem_append.1 hm with h | h
  · exact effManaged_names _ _ m h
  · exact List.mem_map.2 ⟨m, (List.mem_filter.1 h).1, rfl⟩

theorem effOwn_names' (hh : Bool) (cs : List (ClassDecl V)) :
    ∀ m ∈ effOwn hh cs, m.name ∈ (declsOf cs).map (·.name) := by
  intro m hm
  obtain ⟨m', hm', hn⟩ := List.mem_map.1 (effOwn_names hh cs m hm)
  exact List.mem_map.2 ⟨m', ownerMro_sub cs m' hm', hn⟩

theorem lookupMember_effOwn_none (hh : Bool) {cs : List (ClassDecl V)} {n : Name}
    (h : lookupMember (declsOf (ownerMro cs)) n = none) : lookupMember (effOwn hh cs) n = none := by
  cases hl : lookupMember (effOwn hh cs) n with
  | none => rfl
  | some m =>
    obtain ⟨hmem, hname⟩ := lookupMember_some hl
    obtain ⟨m', hm', hn⟩ := List.mem_map.1 (effOwn_names hh cs m hmem)
    unfold lookupMember at h
    rw [List.find?_eq_none] at h
    have := h m' hm'
    simp at this
    exact absurd (hn.trans hname) this

theorem effAll_names (hh : Bool) (cs : List (ClassDecl V)) :
    ∀ m ∈ effAll hh cs, m.name ∈ (declsOf cs).map (·.name) := by
  intro m hm
  unfold effAll at hm
  rcases List.mem_append.1 hm with h | h
  · exact List.mem_map.2 ⟨m, plainPrefix_sub cs m (List.mem_filter.1 h).1, rfl⟩
  · exact effOwn_names' hh cs m h

theorem resolve_closed (T : Tbl V) (ds : List (Member V))
    (hsub : ∀ m ∈ ds, m.name ∈ (declsOf T.mro).map (·.name)) :
    ∀ k d, d ∈ (T.resolveWith ds).invMap k → d ∈ (T.resolveWith ds).names := by
  intro k d h
  simp only [Tbl.resolveWith] at h ⊢
  obtain ⟨m, hm, _⟩ := mem_invMapOf_iff'.1 h
  obtain ⟨hmem, hname⟩ := lookupMember_some hm
  rw [mem_dedup, ← hname]
  exact hsub m hmem

theorem resolve_managedComplete (T : Tbl V) (ds : List (Member V)) :
    ∀ z, (dfltOf (T.resolveWith ds) z).isSome → z ∈ (T.resolveWith ds).managedNames := by
  intro z h
  unfold dfltOf at h
  split at h
  · rename_i hm
    simp only [Tbl.resolveWith] at hm ⊢
    rw [List.mem_filter]
    refine ⟨?_, hm⟩
    rw [List.mem_reverse, mem_dedup, List.mem_reverse]
    cases hs : effSpec false (ownerMro T.mro) z with
    | none => simp [hs] at hm
    | some sp =>
      obtain ⟨m, hmem, hname⟩ := List.mem_map.1 (effSpec_some_mem _ _ z sp hs)
      refine List.mem_map.2 ⟨m, ?_, hname⟩
      unfold declsOf at hmem ⊢
      rw [List.mem_flatMap] at hmem ⊢
      obtain ⟨c, hc, hmc⟩ := hmem
      exact ⟨c, List.mem_reverse.2 hc, hmc⟩
  · cases h

/-- the part of `invalidation_map` that comes from `metadata.attrs` -/
theorem lookupMember_effOwn_managed {hh : Bool} {cs : List (ClassDecl V)} {d : Name} {sp : Eff V}
    (h : effSpec hh (ownerMro cs) d = some sp) : lookupMember (effOwn hh cs) d = some (effMember d sp) := by
  unfold effOwn
  rw [lookupMember_append, lookupMember_effManaged, h]
  rfl

/-- … and the part that comes from the member scan -/
theorem lookupMember_effOwn_unmanaged {hh : Bool} {cs : List (ClassDecl V)} {d : Name}
    (h : effSpec hh (ownerMro cs) d = none) : lookupMember (effOwn hh cs) d = clsVal (declsOf (ownerMro cs)) d := by
  unfold effOwn
  rw [lookupMember_append, lookupMember_effManaged, h, lookupMember_bindingDecls]
  rfl

theorem find?_and {α : Type} (p q : α → Bool) : ∀ (l : List α) (m : α),
    l.find? p = some m → q m = true → l.find? (fun x => p x && q x) = some m := by
  intro l
  induction l with
  | nil => intro m h; simp at h
  | cons x xs ih =>
    intro m h hq
    rw [List.find?_cons] at h ⊢
    by_cases hp : p x = true
    · simp only [hp] at h
      cases h
      simp [hp, hq]
    · have hp' : p x = false := by simpa using hp
      simp only [hp'] at h
      simp only [hp', Bool.false_and]
      exact ih m h hq

/-- A rank that never increases along a dependency edge and strictly decreases into a defaulted
attribute rules out cycles through defaulted attributes. -/
theorem acyc_of_rank {R : RTbl V} (rank : Name → Nat)
    (h : ∀ a d, Edge R a d → rank d ≤ rank a ∧ ((dfltOf R d).isSome → rank d < rank a)) :
    ∀ z, (dfltOf R z).isSome → ¬ Reach R z z := by
  have key : ∀ a d, Reach R a d → rank d ≤ rank a ∧ ((dfltOf R d).isSome → rank d < rank a) := by
    intro a d hr
    induction hr with
    | single e => exact h _ _ e
    | head e _ ih =>
      have h1 := h _ _ e
      exact ⟨Nat.le_trans ih.1 h1.1, fun hd => Nat.lt_of_lt_of_le (ih.2 hd) h1.1⟩
  intro z hz hr
  exact Nat.lt_irrefl _ ((key z z hr).2 hz)

/-! ## tables with the same dependency relation -/

theorem edge_congr {R R' : RTbl V} (h : ∀ k d, d ∈ R.invMap k ↔ d ∈ R'.invMap k) {a d : Name} :
    Edge R a d ↔ Edge R' a d := by
  rw [edge_iff, edge_iff, h, h]

theorem reach_congr {R R' : RTbl V} (h : ∀ k d, d ∈ R.invMap k ↔ d ∈ R'.invMap k) {a d : Name} :
    Reach R a d ↔ Reach R' a d := by
  constructor
  · intro hr
    induction hr with
    | single e => exact .single ((edge_congr h).1 e)
    | head e _ ih => exact .head ((edge_congr h).1 e) ih
  · intro hr
    induction hr with
    | single e => exact .single ((edge_congr h).2 e)
    | head e _ ih => exact .head ((edge_congr h).2 e) ih

/-- Two tables that differ only in the order / multiplicity of the entries of the invalidation map
(Python iterates over a `set` union) invalidate identically. -/
theorem invalidateTop_order {R : RTbl V} (wf : WF R) (im' : Key → List Name)
    (h : ∀ k d, d ∈ im' k ↔ d ∈ R.invMap k) (a : Name) (s : Dict V) :
    invalidateTop { R with invMap := im' } a s = invalidateTop R a s := by
  have hr : ∀ x y, Reach { R with invMap := im' } x y ↔ Reach R x y := fun x y => reach_congr h
  have wf' : WF { R with invMap := im' } :=
    ⟨fun k d hd => wf.closed k d ((h k d).1 hd),
     fun z hz hrz => wf.acyc z hz ((hr z z).1 hrz),
     wf.managedComplete⟩
  rw [invalidateTop_eq wf, invalidateTop_eq wf']
  congr 1
  funext x
  have hc : CycleFull { R with invMap := im' } a s ↔ CycleFull R a s := by
    constructor
    · rintro ⟨y, h1, h2, h3, h4⟩; exact ⟨y, h1, (hr _ _).1 h2, (hr _ _).1 h3, h4⟩
    · rintro ⟨y, h1, h2, h3, h4⟩; exact ⟨y, h1, (hr _ _).2 h2, (hr _ _).2 h3, h4⟩
  by_cases hcond : Reach R a x ∧ (x ≠ a ∨ CycleFull R a s)
  · have hcond' : Reach { R with invMap := im' } a x ∧ (x ≠ a ∨ CycleFull { R with invMap := im' } a s) :=
      ⟨(hr _ _).2 hcond.1, hcond.2.imp id hc.2⟩
    unfold clearReach
    rw [if_pos hcond, if_pos hcond']
    rfl
  · have hcond' : ¬ (Reach { R with invMap := im' } a x ∧ (x ≠ a ∨ CycleFull { R with invMap := im' } a s)) :=
      fun h' => hcond ⟨(hr _ _).1 h'.1, h'.2.imp id hc.1⟩
    unfold clearReach
    rw [if_neg hcond, if_neg hcond']

/-! ## the counter-witness of KF-C11-plain-subclass: a cached property declared in an undecorated subclass -/

/-- `class S` (spec): `a: int = 1`; `class P(S)` (undecorated): cached property `q`,
`invalidated_by=['a']`, returning `a`. -/
def witnessT : Tbl Int :=
  { mro := [⟨false, [⟨1, .prop true true false, [.nm 0], .std⟩]⟩, ⟨true, [⟨0, .attr (some 1), [], .std⟩]⟩]
    getter := fun p f => if p = 1 then (f 0).getD 0 else 0
    okType := fun _ _ => true
    ctor0 := fun _ => some 0 }

/-- `x = P(); x.q; x.a = 5` -/
def witnessG : GInst Int :=
  gnext witnessT.code (gnext witnessT.code ⟨Dict.empty |> fun s => dset s 0 (Tag.user, 1), fun _ => 0, 0⟩
    (.read 1) true true) (.setattr 0 5) true true

theorem witness_construct : construct witnessT.code [] = .ok (dset Dict.empty 0 (Tag.user, 1)) := rfl

theorem witness_lineage : Lineage witnessT.code witnessG :=
  .step _ _ _ _ (.step _ _ _ _ (.init [] _ witness_construct))

/-- after `x.a = 5` the slot of `q` still holds the value computed from `a = 1` -/
theorem witness_stale : witnessG.d 1 = some (Tag.cache, 1) ∧ witnessT.full.getter 1 (nc witnessG.d) = 5 := by
  decide

theorem witness_edge : Edge witnessT.full 0 1 := by
  unfold Edge; decide

theorem witness_effAll : effAll true witnessT.mro =
    [⟨1, .prop true true false, [.nm 0], .std⟩, ⟨0, .attr (some 1), [], .std⟩, ⟨0, .attr (some 1), [], .std⟩] := by
  rfl

theorem witness_edges (a d : Name) (h : Edge witnessT.full a d) : a = 0 ∧ d = 1 := by
  obtain ⟨h1, _⟩ := edge_iff.1 h
  simp only [Tbl.full, Tbl.resolveWith] at h1
  rw [mem_invMapOf_iff', mem_invMapOf_iff'] at h1
  rw [witness_effAll] at h1
  rcases h1 with ⟨m, hm, hk⟩ | ⟨m, hm, hk⟩ <;>
  · obtain ⟨hmem, hname⟩ := lookupMember_some hm
    simp at hmem
    rcases hmem with rfl | rfl | rfl <;> simp_all

theorem witness_wf : WF witnessT.full :=
  ⟨resolve_closed _ _ (effAll_names _ _),
   acyc_of_rank (fun n => if n = 0 then 1 else 0) (by
     intro a d h
     obtain ⟨rfl, rfl⟩ := witness_edges a d h
     refine ⟨by decide, fun _ => by decide⟩),
   resolve_managedComplete _ _⟩

theorem witness_getterLocal : GetterLocal witnessT.full := by
  intro p f g h
  simp only [Tbl.full, Tbl.resolveWith, witnessT]
  by_cases hp : p = 1
  · subst hp
    have := h 0 (.single witness_edge)
    simp [this]
  · simp [hp]


/-! ## the counter-witness of KF-C11-plain-middle-override: a cached property that an undecorated class
BETWEEN two spec classes puts over a managed attribute -/

/-- `class S0` (spec): `a: int = 1`, `b: int = 2`, `n: int = Attr(default=3, invalidated_by=['a'])`;
`class P(S0)` (undecorated): cached property `n`, `invalidated_by=['b']`, returning `b * 10`;
`class S2(P)` (spec): nothing. -/
def witness2T : Tbl Int :=
  { mro := [⟨true, []⟩, ⟨false, [⟨2, .prop true true false, [.nm 1], .std⟩]⟩,
            ⟨true, [⟨0, .attr (some 1), [], .std⟩, ⟨1, .attr (some 2), [], .std⟩,
                     ⟨2, .attr (some 3), [.nm 0], .viaAttr⟩]⟩]
    getter := fun p f => if p = 2 then (f 1).getD 0 * 10 else 0
    okType := fun _ _ => true
    ctor0 := fun _ => some 0 }

/-- `x = S2(); x.n; x.b = 5` -/
def witness2G : GInst Int :=
  gnext witness2T.code (gnext witness2T.code
    ⟨dset (dset Dict.empty 0 (Tag.user, 1)) 1 (Tag.user, 2), fun _ => 0, 0⟩
    (.read 2) true true) (.setattr 1 5) true true

theorem witness2_construct :
    construct witness2T.code [] = .ok (dset (dset Dict.empty 0 (Tag.user, 1)) 1 (Tag.user, 2)) := rfl

theorem witness2_lineage : Lineage witness2T.code witness2G :=
  .step _ _ _ _ (.step _ _ _ _ (.init [] _ witness2_construct))

/-- after `x.b = 5` the slot of `n` still holds the value computed from `b = 2` -/
theorem witness2_stale :
    witness2G.d 2 = some (Tag.cache, 20) ∧ witness2T.full.getter 2 (nc witness2G.d) = 50 := by
  decide

theorem witness2_effAll : effAll true witness2T.mro =
    [⟨0, .attr (some 1), [], .std⟩, ⟨1, .attr (some 2), [], .std⟩, ⟨2, .prop true true true, [.nm 1], .std⟩,
     ⟨2, .prop true true false, [.nm 1], .std⟩,
     ⟨0, .attr (some 1), [], .std⟩, ⟨1, .attr (some 2), [], .std⟩, ⟨2, .attr (some 3), [.nm 0], .viaAttr⟩] := by
  rfl

theorem witness2_edge : Edge witness2T.full 1 2 := by
  unfold Edge; decide

theorem witness2_edges (a d : Name) (h : Edge witness2T.full a d) : a = 1 ∧ d = 2 := by
  obtain ⟨h1, _⟩ := edge_iff.1 h
  simp only [Tbl.full, Tbl.resolveWith] at h1
  rw [mem_invMapOf_iff', mem_invMapOf_iff'] at h1
  rw [witness2_effAll] at h1
  rcases h1 with ⟨m, hm, hk⟩ | ⟨m, hm, hk⟩ <;>
  · obtain ⟨hmem, hname⟩ := lookupMember_some hm
    simp [lookupMember, List.find?] at hm
    split at hm
    · cases hm; simp at hk
    · split at hm
      · cases hm; simp at hk
      · split at hm
        · cases hm; simp_all
        · simp_all

theorem witness2_wf : WF witness2T.full :=
  ⟨resolve_closed _ _ (effAll_names _ _),
   acyc_of_rank (fun n => if n = 1 then 1 else 0) (by
     intro a d h
     obtain ⟨rfl, rfl⟩ := witness2_edges a d h
     refine ⟨by decide, fun _ => by decide⟩),
   resolve_managedComplete _ _⟩

theorem witness2_getterLocal : GetterLocal witness2T.full := by
  intro p f g h
  simp only [Tbl.full, Tbl.resolveWith, witness2T]
  by_cases hp : p = 2
  · subst hp
    have := h 1 (.single witness2_edge)
    simp [this]
  · simp [hp]


/-! ## a non-trivial well-formed table (non-vacuity) -/

/-- `a: int = 1`; `z: int = Attr(default=7, invalidated_by=['a'])`; cached `p` (invalidated_by z,
returns a + z); cached `w`, `w2` (invalidated_by '*': a cycle without defaults). -/
def exT : Tbl Int :=
  { mro := [⟨true, [⟨0, .attr (some 1), [], .std⟩, ⟨1, .attr (some 7), [.nm 0], .viaAttr⟩,
                     ⟨2, .prop true true false, [.nm 1], .std⟩, ⟨3, .prop true true false, [.star], .std⟩,
                     ⟨4, .prop true false false, [.star], .std⟩]⟩]
    getter := fun p f => if p = 2 then (f 0).getD 0 + (f 1).getD 0 else 0
    okType := fun _ _ => true
    ctor0 := fun _ => some 0 }

theorem ex_effOwn : effOwn false exT.mro =
    [⟨0, .attr (some 1), [], .std⟩, ⟨1, .attr (some 7), [.nm 0], .std⟩,
     ⟨0, .attr (some 1), [], .std⟩, ⟨1, .attr (some 7), [.nm 0], .viaAttr⟩,
     ⟨2, .prop true true false, [.nm 1], .std⟩, ⟨3, .prop true true false, [.star], .std⟩,
     ⟨4, .prop true false false, [.star], .std⟩] := by
  rfl

theorem ex_edges (a d : Name) (h : Edge exT.code a d) :
    (a = 0 ∧ d = 1) ∨ (a = 1 ∧ d = 2) ∨ (d = 3 ∧ a ≠ 3) ∨ (d = 4 ∧ a ≠ 4) := by
  obtain ⟨h1, hne⟩ := edge_iff.1 h
  simp only [Tbl.code, Tbl.resolveWith] at h1
  rw [mem_invMapOf_iff', mem_invMapOf_iff', ex_effOwn] at h1
  rcases h1 with ⟨m, hm, hk⟩ | ⟨m, hm, hk⟩ <;>
  · obtain ⟨hmem, hname⟩ := lookupMember_some hm
    simp at hmem
    rcases hmem with rfl | rfl | rfl | rfl | rfl | rfl | rfl | rfl | rfl | rfl <;> simp at hk hname <;> subst hname <;> first | (subst hk; simp) | (simp; exact fun h => hne h.symm)

theorem ex_dflt (d : Name) (h : (dfltOf exT.code d).isSome) : d = 0 ∨ d = 1 := by
  have hm : d ∈ exT.code.managedNames := resolve_managedComplete _ _ d h
  have hn : exT.code.managedNames = [0, 1] := by rfl
  rw [hn] at hm
  simpa using hm

theorem ex_wf : WF exT.code :=
  ⟨resolve_closed _ _ (effOwn_names' _ _),
   acyc_of_rank (fun n => if n = 0 then 3 else if n = 1 then 2 else if n = 2 then 1 else 0) (by
     intro a d h
     rcases ex_edges a d h with ⟨rfl, rfl⟩ | ⟨rfl, rfl⟩ | ⟨rfl, _⟩ | ⟨rfl, _⟩
     · exact ⟨by decide, fun _ => by decide⟩
     · refine ⟨by decide, fun hd => ?_⟩
       rcases ex_dflt 2 hd with h | h <;> cases h
     · refine ⟨by simp, fun hd => ?_⟩
       rcases ex_dflt 3 hd with h | h <;> cases h
     · refine ⟨by simp, fun hd => ?_⟩
       rcases ex_dflt 4 hd with h | h <;> cases h),
   resolve_managedComplete _ _⟩

theorem ex_getterLocal : GetterLocal exT.code := by
  intro p f g h
  simp only [Tbl.code, Tbl.resolveWith, exT]
  by_cases hp : p = 2
  · subst hp
    have e01 : Edge exT.code 0 1 := by unfold Edge; decide
    have e12 : Edge exT.code 1 2 := by unfold Edge; decide
    have h0 := h 0 (.head e01 (.single e12))
    have h1 := h 1 (.single e12)
    simp [h0, h1]
  · simp [hp]


end SpecVerif.C11
