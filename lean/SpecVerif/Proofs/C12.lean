import SpecVerif.Model.C12
/-!
# C12 — invariant and helper lemmas (statements of the property are in `Props/C12.lean`)
-/
set_option linter.unusedSectionVars false
set_option linter.unusedSimpArgs false
set_option linter.unusedVariables false
namespace SpecVerif.C12
open SpecVerif.Py

variable {Val : Type} [DecidableEq Val]

/-- What a read sees of the ghost state without calling the getter. -/
def Ghost.visible (g : Ghost Val) : Option Val :=
  match g.override with
  | some v => some v
  | none => g.cached

/-- The invariant relating the instance-dict slot of the Impl model to the
ghost override/cache of the specification. -/
structure Inv (w : World Val) (c : Cfg) (s : St Val) (g : Ghost Val) : Prop where
  slot   : s.slot = g.visible
  ovr    : g.override.isSome → c.overridable = true ∧ c.hasSetter = false
  cch    : g.cached.isSome → c.cache = true
  excl   : g.override.isSome → g.cached = none
  under  : s.under = g.under
  log    : s.log = g.log
  conf   : c.onSpecClass = true → c.managed = true → ∀ v, s.slot = some v → w.conforms v = true
  nosent : ∀ v, g.cached = some v → isSentinel w v = false

theorem inv_init (w : World Val) (c : Cfg) : Inv w c St.init Ghost.init := by
  refine ⟨rfl, ?_, ?_, ?_, rfl, rfl, ?_, ?_⟩ <;> simp [St.init, Ghost.init]

/-- Under the invariant the `(overridable or cache)` guard of `__get__` and
`__delete__` is redundant: the slot is only ever filled when it holds. -/
theorem guard_slot {w : World Val} {c : Cfg} {s : St Val} {g : Ghost Val} (h : Inv w c s g) :
    (if c.overridable || c.cache then s.slot else none) = s.slot := by
  by_cases hg : (c.overridable || c.cache) = true
  · simp [hg]
  · simp only [hg]
    have hs := h.slot
    unfold Ghost.visible at hs
    cases ho : g.override with
    | some v => have := h.ovr (by simp [ho]); simp [this.1] at hg
    | none =>
      cases hc : g.cached with
      | some v => have := h.cch (by simp [hc]); simp [this] at hg
      | none => simp [ho, hc] at hs; simp [hs]

theorem getterChecked_conforms {w : World Val} {c : Cfg} {n : Nat} {v : Val}
    (hs : c.onSpecClass = true) (hm : c.managed = true)
    (h : getterChecked w c n = .val v) : w.conforms v = true := by
  unfold getterChecked at h
  split at h
  · cases h
  · split at h
    · split at h <;> cases h
    · simp only [hs, hm, Bool.and_self, if_true] at h
      split at h
      · cases h
      · split at h
        · cases h; assumption
        · cases h

theorem assign_eq_delivered (w : World Val) (c : Cfg) (s : St Val) (v : Val) :
    assign w c s v =
      match delivered w c v with
      | .reject e => (s, .err e)
      | .noop => (s, .done)
      | .deliver v' => pset c s v' := by
  unfold assign delivered
  by_cases h1 : c.onSpecClass = false
  · simp [h1]
  · simp only [h1, if_false]
    cases hp : (if c.managed then prepareAttrValue w c v else .ok v) with
    | error e => rfl
    | ok v' =>
      simp only
      by_cases h2 : isSentinel w v' = true
      · simp [h2]
      · by_cases h3 : (c.managed && !w.conforms v') = true
        · simp [h2, h3]
        · simp [h2, h3]

theorem delivered_conforms {w : World Val} {c : Cfg} {v v' : Val}
    (hs : c.onSpecClass = true) (hm : c.managed = true)
    (h : delivered w c v = .deliver v') : w.conforms v' = true := by
  unfold delivered at h
  simp only [hs, hm, Bool.true_and, if_true, Bool.true_eq_false, if_false] at h
  cases hp : prepareAttrValue w c v with
  | error e => simp [hp] at h
  | ok x =>
    simp only [hp] at h
    by_cases h2 : isSentinel w x = true
    · simp [h2] at h
    · by_cases h3 : w.conforms x = true
      · simp [h2, h3] at h; subst h; exact h3
      · simp [h2, h3] at h

/-- One step of the Impl model and of the specification machine, started in
related states, give the same output and end in related states. -/
theorem step_refines {w : World Val} {c : Cfg} {s : St Val} {g : Ghost Val}
    (h : Inv w c s g) (op : Op Val) :
    (step w c s op).2 = (Spec.step w c g op).2 ∧
      Inv w c (step w c s op).1 (Spec.step w c g op).1 := by
  cases op with
  | bump =>
    refine ⟨by first | rfl | trivial, ?_⟩
    exact ⟨h.slot, h.ovr, h.cch, h.excl, by simp [step, Spec.step, h.under], h.log, h.conf, h.nosent⟩
  | read =>
    simp only [step, Spec.step, pget, Spec.read, guard_slot h]
    have hslot := h.slot
    unfold Ghost.visible at hslot
    cases ho : g.override with
    | some v =>
      simp only [ho] at hslot
      simp only [hslot]
      exact ⟨by first | rfl | trivial, h⟩
    | none =>
      simp only [ho] at hslot
      cases hc : g.cached with
      | some v =>
        simp only [hc] at hslot
        simp only [hslot]
        exact ⟨by first | rfl | trivial, h⟩
      | none =>
        simp only [hc] at hslot
        simp only [hslot, h.under]
        cases hg : getterChecked w c g.under with
        | val v =>
          simp only
          refine ⟨by first | rfl | trivial, ?_⟩
          by_cases hcache : (c.cache && !isSentinel w v) = true
          · simp only [hcache, if_true]
            simp only [Bool.and_eq_true, Bool.not_eq_true'] at hcache
            refine ⟨by simp [Ghost.visible, ho], by simp [ho], fun _ => hcache.1, by simp [ho],
              (by first | exact h.under | rfl | simp [h.under]), h.log, ?_, ?_⟩
            · intro hs hm v' hv'
              simp only [Option.some.injEq] at hv'
              subst hv'
              exact getterChecked_conforms hs hm hg
            · intro v' hv'
              simp only [Option.some.injEq] at hv'
              subst hv'; exact hcache.2
          · simp only [hcache]
            exact h
        | done => exact ⟨by first | rfl | trivial, h⟩
        | err e => exact ⟨by first | rfl | trivial, h⟩
        | nested => exact ⟨by first | rfl | trivial, h⟩
  | assign v =>
    simp only [step, Spec.step, Spec.assign, assign_eq_delivered]
    cases hd : delivered w c v with
    | reject e => exact ⟨by first | rfl | trivial, h⟩
    | noop => exact ⟨by first | rfl | trivial, h⟩
    | deliver v' =>
      simp only [pset]
      by_cases hfs : c.hasSetter = true
      · simp only [hfs, if_true]
        refine ⟨by simp, ?_⟩
        simp only [Bool.true_eq_false, if_false]
        exact ⟨h.slot, h.ovr, h.cch, h.excl, h.under, by simp [h.log], h.conf, h.nosent⟩
      · simp only [Bool.not_eq_true] at hfs
        simp only [hfs, if_true, Bool.false_eq_true, if_false]
        by_cases hov : c.overridable = true
        · simp only [hov, if_true]
          refine ⟨by first | rfl | trivial, ?_⟩
          refine ⟨by simp [Ghost.visible], fun _ => ⟨hov, hfs⟩, by simp, by simp, (by first | exact h.under | rfl | simp [h.under]), h.log, ?_, by simp⟩
          intro hs hm v'' hv''
          simp only [Option.some.injEq] at hv''
          subst hv''
          exact delivered_conforms hs hm hd
        · simp only [hov]
          exact ⟨by first | rfl | trivial, h⟩
  | delete =>
    simp only [step, Spec.step, pdelete, Spec.delete]
    by_cases hfd : c.hasDeleter = true
    · simp only [hfd, if_true, Bool.true_eq_false, if_false]
      refine ⟨by first | rfl | trivial, ?_⟩
      exact ⟨h.slot, h.ovr, h.cch, h.excl, h.under, by simp [h.log], h.conf, h.nosent⟩
    · simp only [Bool.not_eq_true] at hfd
      simp only [hfd, if_true, Bool.false_eq_true, if_false]
      have hguard : ((c.overridable || c.cache) && s.slot.isSome) = s.slot.isSome := by
        have := guard_slot h
        by_cases hg : (c.overridable || c.cache) = true
        · simp [hg]
        · simp only [hg] at this
          simp [← this]
      have hvis : s.slot.isSome = (g.override.isSome || g.cached.isSome) := by
        rw [h.slot]; unfold Ghost.visible
        cases g.override <;> simp
      rw [hguard, hvis]
      by_cases hany : (g.override.isSome || g.cached.isSome) = true
      · simp only [hany, if_true]
        refine ⟨by first | rfl | trivial, ?_⟩
        exact ⟨by simp [Ghost.visible], by simp, by simp, by simp, (by first | exact h.under | rfl | simp [h.under]), h.log, by simp, by simp⟩
      · simp only [hany]
        exact ⟨by first | rfl | trivial, h⟩

theorem run_refines {w : World Val} {c : Cfg} (ops : List (Op Val)) :
    ∀ {s : St Val} {g : Ghost Val}, Inv w c s g →
      (run w c s ops).2 = (Spec.run w c g ops).2 ∧
        Inv w c (run w c s ops).1 (Spec.run w c g ops).1 := by
  induction ops with
  | nil => intro s g h; exact ⟨by first | rfl | trivial, h⟩
  | cons op ops ih =>
    intro s g h
    have hs := step_refines h op
    have := ih hs.2
    simp only [run, Spec.run]
    exact ⟨by rw [hs.1, this.1], this.2⟩

/-- Every value produced by a run on a managed spec-class attribute conforms. -/
theorem run_vals_conform {w : World Val} {c : Cfg} (hs : c.onSpecClass = true)
    (hm : c.managed = true) (ops : List (Op Val)) :
    ∀ {s : St Val} {g : Ghost Val}, Inv w c s g →
      ∀ v, Out.val v ∈ (run w c s ops).2 → w.conforms v = true := by
  induction ops with
  | nil => intro s g h v hv; simp [run] at hv
  | cons op ops ih =>
    intro s g h v hv
    simp only [run, List.mem_cons] at hv
    rcases hv with hv | hv
    · -- the head output
      cases op with
      | bump => simp [step] at hv
      | delete =>
        simp only [step, pdelete] at hv
        split at hv
        · split at hv <;> simp at hv
        · simp at hv
      | assign a =>
        simp only [step, assign_eq_delivered] at hv
        split at hv
        · simp at hv
        · simp at hv
        · simp only [pset] at hv
          split at hv
          · split at hv <;> simp at hv
          · simp at hv
      | read =>
        simp only [step, pget, guard_slot h] at hv
        split at hv
        · rename_i v' hslot
          simp only [Out.val.injEq] at hv
          subst hv
          exact h.conf hs hm _ hslot
        · split at hv
          · rename_i v' hg
            simp only [Out.val.injEq] at hv
            subst hv
            exact getterChecked_conforms hs hm hg
          · rename_i o hno
            simp only at hv
            exact absurd hv.symm (hno v)
    · exact ih (step_refines h op).2 v hv

theorem pget_of_slot {w : World Val} {c : Cfg} {s : St Val} {v : Val}
    (hg : (c.overridable || c.cache) = true) (hs : s.slot = some v) : (pget w c s).2 = .val v := by
  simp [pget, hg, hs]

/-- While the slot is filled and consulted, reads and bumps neither change it nor see anything else. -/
theorem slot_stable (w : World Val) (c : Cfg) (v : Val) (hg : (c.overridable || c.cache) = true)
    (more : List (Op Val)) (hm : ∀ op ∈ more, op = .read ∨ op = .bump) :
    ∀ (s : St Val), s.slot = some v →
      (run w c s more).1.slot = some v ∧ ∀ o ∈ (run w c s more).2, o = .val v ∨ o = .done := by
  induction more with
  | nil => intro s hs; exact ⟨hs, by simp [run]⟩
  | cons op more ih =>
    intro s hs
    have hop := hm op (by simp)
    have hm' : ∀ op ∈ more, op = .read ∨ op = .bump := fun o ho => hm o (by simp [ho])
    have hstep : (step w c s op).1.slot = some v ∧ ((step w c s op).2 = .val v ∨ (step w c s op).2 = .done) := by
      rcases hop with rfl | rfl
      · simp [step, pget, hg, hs]
      · simp [step, hs]
    have := ih hm' _ hstep.1
    simp only [run]
    refine ⟨this.1, ?_⟩
    intro o ho
    simp only [List.mem_cons] at ho
    rcases ho with rfl | ho
    · exact hstep.2
    · exact this.2 o ho


/-- An operation that raises leaves the whole state (slot, underlying state,
accessor log) exactly as it was: nothing is written on any failing exit path of
`__get__` (getter, preparer, type check), of the assignment layer, of `__set__`
or of `__delete__`. For ANY state, reachable or not. -/
theorem step_failed_unchanged (w : World Val) (c : Cfg) (s : St Val) (op : Op Val)
    (h1 : ∀ v, (step w c s op).2 ≠ .val v) (h2 : (step w c s op).2 ≠ .done) :
    (step w c s op).1 = s := by
  cases op with
  | bump => simp [step] at h2
  | read =>
    simp only [step, pget] at h1 h2 ⊢
    split
    · rfl
    · split
      · rename_i v hg
        split at h1
        · rename_i hh; simp [hh] at *
        · simp only [hg] at h1
          exact absurd rfl (h1 v)
      · rfl
  | assign v =>
    simp only [step, assign_eq_delivered] at h1 h2 ⊢
    split
    · rfl
    · rfl
    · rename_i v' hd
      simp only [hd] at h1 h2
      unfold pset at h1 h2 ⊢
      split
      · split
        · rename_i hfs hov; simp [hfs, hov] at h2
        · rfl
      · rename_i hfs; simp [hfs] at h2
  | delete =>
    simp only [step, pdelete] at h1 h2 ⊢
    split
    · split
      · rename_i hfd hh; simp [hfd, hh] at h2
      · rfl
    · rename_i hfd; simp [hfd] at h2

/-! ## copies and copy-on-write helpers -/

/-- The generated `__deepcopy__` carries every entry of the instance dict over. -/
theorem deepcopyObj_eq (o : Obj Val) : deepcopyObj o = o := by
  cases o with
  | mk st other => cases st; rfl

/-- `__set__` either succeeds or raises AttributeError with the state untouched. -/
theorem pset_cases (c : Cfg) (s : St Val) (v : Val) :
    (pset c s v).2 = .done ∨ pset c s v = (s, .err .attributeError) := by
  unfold pset
  by_cases h1 : c.hasSetter = false
  · by_cases h2 : c.overridable = true
    · simp [h1, h2]
    · simp [h1, h2]
  · simp [h1]

theorem pdelete_cases (c : Cfg) (s : St Val) :
    (pdelete c s).2 = .done ∨ pdelete c s = (s, .err .attributeError) := by
  unfold pdelete
  by_cases h1 : c.hasDeleter = false
  · by_cases h2 : ((c.overridable || c.cache) && s.slot.isSome) = true
    · simp [h1, h2]
    · simp [h1, h2]
  · simp [h1]

/-- `obj.with_x(v)` is `obj.x = v` performed on a copy: same resulting protocol state, same result; `y` untouched. -/
theorem withSelf_eq_assign (w : World Val) (c : Cfg) (o : Obj Val) (v : Val)
    (hs : c.onSpecClass = true) (hm : c.managed = true) :
    (withSelf w c o v).1.st = (assign w c o.st v).1 ∧ (withSelf w c o v).2.1 = (assign w c o.st v).2 ∧
      (withSelf w c o v).1.other = o.other := by
  unfold withSelf assign
  simp only [hs, hm, Bool.true_eq_false, if_false, if_true, Bool.true_and]
  cases hp : prepareAttrValue w c v with
  | error e => simp
  | ok v' =>
    simp only
    by_cases h2 : isSentinel w v' = true
    · simp [h2]
    · by_cases h3 : w.conforms v' = true
      · simp only [h2, h3, Bool.not_true, Bool.false_eq_true, if_false, deepcopyObj_eq]
        rcases pset_cases c o.st v' with hd | he
        · generalize hps : pset c o.st v' = r at hd
          obtain ⟨st', out⟩ := r
          simp only at hd
          subst hd
          exact ⟨rfl, rfl, rfl⟩
        · rw [he]; exact ⟨rfl, rfl, rfl⟩
      · simp [h2, h3]

/-- `obj.reset_x()` is `del obj.x` performed on a copy. -/
theorem resetSelf_eq_delete (c : Cfg) (o : Obj Val) :
    (resetSelf c o).1.st = (pdelete c o.st).1 ∧ (resetSelf c o).2.1 = (pdelete c o.st).2 ∧
      (resetSelf c o).1.other = o.other := by
  unfold resetSelf
  simp only [deepcopyObj_eq]
  rcases pdelete_cases c o.st with hd | he
  · generalize hps : pdelete c o.st = r at hd
    obtain ⟨st', out⟩ := r
    simp only at hd
    subst hd
    exact ⟨rfl, rfl, rfl⟩
  · rw [he]; exact ⟨rfl, rfl, rfl⟩

theorem mutateOther_st (w : World Val) (y : Other Val) (o : Obj Val) (v : Val) (b : Bool) :
    (mutateOther w y o v b).1.st = o.st := by
  unfold mutateOther
  split
  · rfl
  · split
    · rfl
    · split
      · rfl
      · simp [deepcopyObj_eq]

/-- One instance-level operation, seen from the property: the protocol operation it projects to, or nothing. -/
theorem ostep_project (w : World Val) (c : Cfg) (y : Other Val) (o : Obj Val) (op : OOp Val) :
    (ostep w c y o op).1.st = (match project c op with
                               | some p => (step w c o.st p).1
                               | none => o.st) ∧
    (∀ p, project c op = some p → (ostep w c y o op).2.1 = (step w c o.st p).2) := by
  cases op with
  | prop p => exact ⟨rfl, by intro p' hp'; cases hp'; rfl⟩
  | copy => exact ⟨by simp [ostep, project, deepcopyObj_eq], by intro p hp; cases hp⟩
  | withOther v =>
    refine ⟨?_, by intro p hp; cases hp⟩
    simp only [ostep, project]
    split
    · exact mutateOther_st w y o _ false
    · rfl
  | resetOther =>
    refine ⟨?_, by intro p hp; cases hp⟩
    simp only [ostep, project]
    split
    · simp [deepcopyObj_eq]
    · rfl
  | setOther v =>
    refine ⟨?_, by intro p hp; cases hp⟩
    simp only [ostep, project]
    split
    · exact mutateOther_st w y o _ true
    · rfl
  | withSelf v =>
    by_cases h : (c.onSpecClass && c.managed) = true
    · have hs : c.onSpecClass = true := by revert h; cases c.onSpecClass <;> simp
      have hm : c.managed = true := by revert h; cases c.managed <;> simp
      have := withSelf_eq_assign w c o v hs hm
      simp only [ostep, project, h, if_true]
      exact ⟨this.1, by intro p hp; cases hp; exact this.2.1⟩
    · simp only [ostep, project, h]
      exact ⟨rfl, by intro p hp; cases hp⟩
  | resetSelf =>
    by_cases h : (c.onSpecClass && c.managed) = true
    · have := resetSelf_eq_delete c o
      simp only [ostep, project, h, if_true]
      exact ⟨this.1, by intro p hp; cases hp; exact this.2.1⟩
    · simp only [ostep, project, h]
      exact ⟨rfl, by intro p hp; cases hp⟩

/-- The outputs of the operations that are protocol operations (directly or in copy-on-write form). -/
def propOuts (c : Cfg) : List (OOp Val) → List (Out Val) → List (Out Val)
  | op :: ops, o :: os =>
    if (project (Val := Val) c op).isSome then o :: propOuts c ops os else propOuts c ops os
  | _, _ => []

/-- Whole histories: the protocol state reached through any mixture of protocol operations, copies and helpers of
other attributes is the one reached by the projected protocol operations alone, output for output. -/
theorem orun_project (w : World Val) (c : Cfg) (y : Other Val) (ops : List (OOp Val)) :
    ∀ o : Obj Val,
      (orun w c y o ops).1.st = (run w c o.st (ops.filterMap (project c))).1 ∧
      propOuts c ops (orun w c y o ops).2 = (run w c o.st (ops.filterMap (project c))).2 := by
  induction ops with
  | nil => intro o; exact ⟨rfl, rfl⟩
  | cons op ops ih =>
    intro o
    have hstep := ostep_project w c y o op
    have hrest := ih (ostep w c y o op).1
    cases hp : project c op with
    | none =>
      simp only [hp] at hstep
      simp only [orun, List.filterMap_cons, hp, propOuts, Option.isSome_none, Bool.false_eq_true, if_false]
      rw [← hstep.1]
      exact hrest
    | some p =>
      simp only [hp] at hstep
      simp only [orun, List.filterMap_cons, hp, propOuts, Option.isSome_some, if_true, run]
      rw [← hstep.1, hstep.2 p rfl]
      exact ⟨hrest.1, by rw [hrest.2]⟩

/-- An instance-level operation that raises returns no new instance and leaves the current one as it was. -/
theorem ostep_failed_unchanged (w : World Val) (c : Cfg) (y : Other Val) (o : Obj Val) (op : OOp Val)
    (h1 : ∀ v, (ostep w c y o op).2.1 ≠ .val v) (h2 : (ostep w c y o op).2.1 ≠ .done) :
    (ostep w c y o op).1 = o ∧ (ostep w c y o op).2.2 = false := by
  cases op with
  | prop p =>
    simp only [ostep] at h1 h2 ⊢
    rw [step_failed_unchanged w c o.st p h1 h2]
    simp
  | copy => simp [ostep] at h2
  | withOther v =>
    simp only [ostep] at h1 h2 ⊢
    split
    · rename_i hs
      simp only [hs, if_true] at h2
      unfold mutateOther at h2 ⊢
      split
      · rename_i hh; simp [hh] at h2
      · split
        · exact ⟨rfl, rfl⟩
        · rename_i hh hc; simp [hh, hc] at h2
    · exact ⟨rfl, rfl⟩
  | resetOther =>
    simp only [ostep] at h1 h2 ⊢
    split
    · rename_i hs; simp [hs] at h2
    · exact ⟨rfl, rfl⟩
  | setOther v =>
    simp only [ostep] at h1 h2 ⊢
    split
    · rename_i hs
      simp only [hs, if_true] at h2
      unfold mutateOther at h2 ⊢
      split
      · rename_i hh; simp [hh] at h2
      · split
        · exact ⟨rfl, rfl⟩
        · rename_i hh hc; simp [hh, hc] at h2
    · rename_i hs; simp [hs] at h2
  | withSelf v =>
    simp only [ostep] at h1 h2 ⊢
    split
    · rename_i hs
      simp only [hs, if_true] at h2
      unfold withSelf at h2 ⊢
      split
      · exact ⟨rfl, rfl⟩
      · rename_i v' hp
        simp only [hp] at h2
        split
        · rename_i hh; simp [hh] at h2
        · split
          · exact ⟨rfl, rfl⟩
          · rename_i hh hc
            simp only [hh, hc, Bool.false_eq_true, if_false, deepcopyObj_eq] at h2 ⊢
            rcases pset_cases c o.st v' with hd | he
            · exfalso; apply h2
              generalize pset c o.st v' = r at hd ⊢
              obtain ⟨st', out⟩ := r
              simp only at hd; subst hd; rfl
            · rw [he]; exact ⟨rfl, rfl⟩
    · exact ⟨rfl, rfl⟩
  | resetSelf =>
    simp only [ostep] at h1 h2 ⊢
    split
    · rename_i hs
      simp only [hs, if_true] at h2
      unfold resetSelf at h2 ⊢
      simp only [deepcopyObj_eq] at h2 ⊢
      rcases pdelete_cases c o.st with hd | he
      · exfalso; apply h2
        generalize pdelete c o.st = r at hd ⊢
        obtain ⟨st', out⟩ := r
        simp only at hd; subst hd; rfl
      · rw [he]; exact ⟨rfl, rfl⟩
    · exact ⟨rfl, rfl⟩

/-! ## class layouts -/

theorem resolveFrom_managed (l : List ClassDesc) : ∀ st : Resolved × Bool,
    (resolveFrom st l).1.managed = (st.1.managed || l.any (fun k => k.spec && k.annotates)) := by
  induction l with
  | nil => intro st; simp [resolveFrom]
  | cons k l ih =>
    intro st
    have := ih (resolveStep st k)
    simp only [resolveFrom, List.foldl_cons] at this ⊢
    rw [this]
    obtain ⟨⟨os, m, hp⟩, pv⟩ := st
    obtain ⟨sp, de, an, pr⟩ := k
    cases sp <;> cases an <;> cases m <;> cases de <;> simp [resolveStep]

theorem resolveFrom_onSpec (l : List ClassDesc) : ∀ st : Resolved × Bool,
    (resolveFrom st l).1.onSpecClass = (st.1.onSpecClass || l.any (fun k => k.spec)) := by
  induction l with
  | nil => intro st; simp [resolveFrom]
  | cons k l ih =>
    intro st
    have := ih (resolveStep st k)
    simp only [resolveFrom, List.foldl_cons] at this ⊢
    rw [this]
    obtain ⟨⟨os, m, hp⟩, pv⟩ := st
    obtain ⟨sp, de, an, pr⟩ := k
    cases sp <;> cases an <;> cases m <;> cases de <;> simp [resolveStep]

theorem resolveFrom_prepVisible (l : List ClassDesc) : ∀ st : Resolved × Bool,
    (resolveFrom st l).2 = (st.2 || l.any (fun k => k.prep)) := by
  induction l with
  | nil => intro st; simp [resolveFrom]
  | cons k l ih =>
    intro st
    have := ih (resolveStep st k)
    simp only [resolveFrom, List.foldl_cons] at this ⊢
    rw [this]
    obtain ⟨⟨os, m, hp⟩, pv⟩ := st
    obtain ⟨sp, de, an, pr⟩ := k
    cases sp <;> cases an <;> cases m <;> cases de <;> simp [resolveStep, Bool.or_assoc]

/-- A preparer is in effect only if some class of the chain defines one, and
only on a managed attribute. -/
theorem resolveFrom_hasPreparer (l : List ClassDesc) : ∀ st : Resolved × Bool,
    (st.1.hasPreparer = true → st.2 = true ∧ st.1.managed = true) →
    (resolveFrom st l).1.hasPreparer = true →
      (resolveFrom st l).2 = true ∧ (resolveFrom st l).1.managed = true := by
  induction l with
  | nil => intro st h; simpa [resolveFrom] using h
  | cons k l ih =>
    intro st h
    simp only [resolveFrom, List.foldl_cons]
    apply ih (resolveStep st k)
    revert h
    obtain ⟨⟨os, m, hp⟩, pv⟩ := st
    obtain ⟨sp, de, an, pr⟩ := k
    cases sp <;> cases an <;> cases m <;> cases de <;> cases hp <;> cases pv <;> cases pr <;>
      simp [resolveStep]

theorem resolveFrom_append (st : Resolved × Bool) (l1 l2 : List ClassDesc) :
    resolveFrom st (l1 ++ l2) = resolveFrom (resolveFrom st l1) l2 := by
  simp [resolveFrom, List.foldl_append]

/-- Well-formedness of a walk state: managed only on a spec class; a preparer
only on a managed attribute and only when `_prepare_x` resolves. -/
def WalkWF (st : Resolved × Bool) : Prop :=
  (st.1.managed = true → st.1.onSpecClass = true) ∧
  (st.1.hasPreparer = true → st.1.managed = true ∧ st.2 = true)

theorem walkWF_init : WalkWF (Resolved.none, false) := by simp [WalkWF, Resolved.none]

theorem resolveStep_wf (st : Resolved × Bool) (k : ClassDesc) (h : WalkWF st) :
    WalkWF (resolveStep st k) := by
  revert h
  obtain ⟨⟨os, m, hp⟩, pv⟩ := st
  obtain ⟨sp, de, an, pr⟩ := k
  cases sp <;> cases an <;> cases m <;> cases de <;> cases hp <;> cases pv <;> cases pr <;> cases os <;>
    simp [resolveStep, WalkWF]

theorem resolveFrom_wf (l : List ClassDesc) : ∀ st, WalkWF st → WalkWF (resolveFrom st l) := by
  induction l with
  | nil => intro st h; simpa [resolveFrom] using h
  | cons k l ih =>
    intro st h
    simp only [resolveFrom, List.foldl_cons]
    exact ih _ (resolveStep_wf st k h)

theorem resolveStep_managed (st : Resolved × Bool) (k : ClassDesc) :
    (resolveStep st k).1.managed = (st.1.managed || (k.spec && k.annotates)) := by
  obtain ⟨⟨os, m, hp⟩, pv⟩ := st
  obtain ⟨sp, de, an, pr⟩ := k
  cases sp <;> cases an <;> cases m <;> cases de <;> simp [resolveStep]

/-- With an empty right chain the join is an ordinary step of the chain. -/
theorem joinBases_none (a : Resolved × Bool) (leaf : ClassDesc) (h : WalkWF a) :
    joinBases a (Resolved.none, false) leaf = resolveStep a leaf := by
  revert h
  obtain ⟨⟨os, m, hp⟩, pv⟩ := a
  obtain ⟨sp, de, an, pr⟩ := leaf
  cases sp <;> cases an <;> cases m <;> cases de <;> cases hp <;> cases pv <;> cases pr <;> cases os <;>
    simp [joinBases, resolveStep, WalkWF, Resolved.none]

/-! ## classproperty -/

variable {Cls : Type} [DecidableEq Cls]

def CGhost.visible (g : CGhost Cls Val) (k : Option Cls) : Option Val :=
  match g.override k with
  | some v => some v
  | none => g.cached k

structure CInv (c : CCfg) (s : CSt Cls Val) (g : CGhost Cls Val) : Prop where
  slot  : ∀ k, s.cache k = g.visible k
  ovr   : ∀ k, (g.override k).isSome → c.overridable = true ∧ c.hasSetter = false
  cch   : ∀ k, (g.cached k).isSome → c.cache = true
  excl  : ∀ k, (g.override k).isSome → g.cached k = none
  under : s.under = g.under
  log   : s.log = g.log
  keys  : c.perSubclass = false → ∀ k, s.cache (some k) = none

theorem cinv_init (c : CCfg) : CInv c (CSt.init : CSt Cls Val) CGhost.init := by
  refine ⟨?_, ?_, ?_, ?_, rfl, rfl, ?_⟩ <;> simp [CSt.init, CGhost.init, CGhost.visible]

theorem upd_same (m : Option Cls → Option Val) (k : Option Cls) (x : Option Val) :
    upd m k x k = x := by simp [upd]

theorem upd_other (m : Option Cls → Option Val) {k k' : Option Cls} (x : Option Val)
    (h : k' ≠ k) : upd m k x k' = m k' := by simp [upd, h]

theorem cacheKey_shared {c : CCfg} (h : c.perSubclass = false) (k : Cls) :
    cacheKey c k = none := by simp [cacheKey, h]

theorem cacheKey_per {c : CCfg} (h : c.perSubclass = true) (k : Cls) :
    cacheKey c k = some k := by simp [cacheKey, h]

theorem cstep_refines {w : CWorld Cls Val} {c : CCfg} {s : CSt Cls Val} {g : CGhost Cls Val}
    (h : CInv c s g) (op : COp Cls Val) :
    (cstep w c s op).2 = (CSpec.step w c g op).2 ∧
      CInv c (cstep w c s op).1 (CSpec.step w c g op).1 := by
  have hkey : ∀ t : Target Cls, c.perSubclass = false → ∀ k, some k ≠ cacheKey c t.type := by
    intro t hp k; rw [cacheKey_shared hp]; simp
  cases op with
  | bump =>
    refine ⟨by first | rfl | trivial, ?_⟩
    exact ⟨h.slot, h.ovr, h.cch, h.excl, by simp [cstep, CSpec.step, h.under], h.log, h.keys⟩
  | read t =>
    simp only [cstep, CSpec.step, cget, CSpec.read]
    have hslot := h.slot (cacheKey c t.type)
    unfold CGhost.visible at hslot
    cases ho : g.override (cacheKey c t.type) with
    | some v =>
      simp only [ho] at hslot
      simp only [hslot]
      exact ⟨by first | rfl | trivial, h⟩
    | none =>
      simp only [ho] at hslot
      cases hc : g.cached (cacheKey c t.type) with
      | some v =>
        simp only [hc] at hslot
        simp only [hslot]
        exact ⟨by first | rfl | trivial, h⟩
      | none =>
        simp only [hc] at hslot
        simp only [hslot, h.under]
        cases hg : cgetter w c t.type g.under with
        | val v =>
          simp only
          refine ⟨by first | rfl | trivial, ?_⟩
          by_cases hcache : c.cache = true
          · simp only [hcache, if_true]
            refine ⟨?_, h.ovr, ?_, ?_, (by first | exact h.under | rfl | simp [h.under]), h.log, ?_⟩
            · intro k
              by_cases hk : k = cacheKey c t.type
              · subst hk; simp [CGhost.visible, upd_same, ho]
              · simp only [upd_other _ _ hk, CGhost.visible]
                have := h.slot k
                simpa [CGhost.visible] using this
            · intro k _; exact hcache
            · intro k hk
              by_cases hkk : k = cacheKey c t.type
              · subst hkk; simp [ho] at hk
              · simp only [upd_other _ _ hkk]; exact h.excl k hk
            · intro hp k
              simp only [upd_other _ _ (hkey t hp k)]
              exact h.keys hp k
          · simp only [hcache]
            exact h
        | done => exact ⟨by first | rfl | trivial, h⟩
        | err e => exact ⟨by first | rfl | trivial, h⟩
        | nested => exact ⟨by first | rfl | trivial, h⟩
  | assign t v =>
    simp only [cstep, CSpec.step, cset, CSpec.assign]
    by_cases hfs : c.hasSetter = true
    · simp only [hfs, if_true, Bool.true_eq_false, if_false]
      refine ⟨by first | rfl | trivial, ?_⟩
      exact ⟨h.slot, h.ovr, h.cch, h.excl, h.under, by simp [h.log], h.keys⟩
    · simp only [Bool.not_eq_true] at hfs
      simp only [hfs, if_true, Bool.false_eq_true, if_false]
      by_cases hov : c.overridable = true
      · simp only [hov, if_true]
        refine ⟨by first | rfl | trivial, ?_⟩
        refine ⟨?_, ?_, ?_, ?_, (by first | exact h.under | rfl | simp [h.under]), h.log, ?_⟩
        · intro k
          by_cases hk : k = cacheKey c t.type
          · subst hk; simp [CGhost.visible, upd_same]
          · simp only [upd_other _ _ hk, CGhost.visible]
            have := h.slot k
            simpa [CGhost.visible] using this
        · intro k _; exact ⟨hov, hfs⟩
        · intro k hk
          by_cases hkk : k = cacheKey c t.type
          · subst hkk; simp [upd_same] at hk
          · simp only [upd_other _ _ hkk] at hk; exact h.cch k hk
        · intro k hk
          by_cases hkk : k = cacheKey c t.type
          · subst hkk; simp [upd_same]
          · simp only [upd_other _ _ hkk] at hk ⊢; exact h.excl k hk
        · intro hp k
          simp only [upd_other _ _ (hkey t hp k)]
          exact h.keys hp k
      · simp only [hov]
        exact ⟨by first | rfl | trivial, h⟩
  | delete t =>
    simp only [cstep, CSpec.step, cdelete, CSpec.delete]
    by_cases hfd : c.hasDeleter = true
    · simp only [hfd, if_true, Bool.true_eq_false, if_false]
      refine ⟨by first | rfl | trivial, ?_⟩
      exact ⟨h.slot, h.ovr, h.cch, h.excl, h.under, by simp [h.log], h.keys⟩
    · simp only [Bool.not_eq_true] at hfd
      simp only [hfd, if_true, Bool.false_eq_true, if_false]
      have hvis : (s.cache (cacheKey c t.type)).isSome =
          ((g.override (cacheKey c t.type)).isSome || (g.cached (cacheKey c t.type)).isSome) := by
        rw [h.slot]; unfold CGhost.visible
        cases g.override (cacheKey c t.type) <;> simp
      rw [hvis]
      by_cases hany : ((g.override (cacheKey c t.type)).isSome ||
          (g.cached (cacheKey c t.type)).isSome) = true
      · simp only [hany, if_true]
        refine ⟨by first | rfl | trivial, ?_⟩
        refine ⟨?_, ?_, ?_, ?_, (by first | exact h.under | rfl | simp [h.under]), h.log, ?_⟩
        · intro k
          by_cases hk : k = cacheKey c t.type
          · subst hk; simp [CGhost.visible, upd_same]
          · simp only [upd_other _ _ hk, CGhost.visible]
            have := h.slot k
            simpa [CGhost.visible] using this
        · intro k hk
          by_cases hkk : k = cacheKey c t.type
          · subst hkk; simp [upd_same] at hk
          · simp only [upd_other _ _ hkk] at hk; exact h.ovr k hk
        · intro k hk
          by_cases hkk : k = cacheKey c t.type
          · subst hkk; simp [upd_same] at hk
          · simp only [upd_other _ _ hkk] at hk; exact h.cch k hk
        · intro k hk
          by_cases hkk : k = cacheKey c t.type
          · subst hkk; simp [upd_same]
          · simp only [upd_other _ _ hkk] at hk ⊢; exact h.excl k hk
        · intro hp k
          simp only [upd_other _ _ (hkey t hp k)]
          exact h.keys hp k
      · simp only [hany]
        exact ⟨by first | rfl | trivial, h⟩

theorem crun_refines {w : CWorld Cls Val} {c : CCfg} (ops : List (COp Cls Val)) :
    ∀ {s : CSt Cls Val} {g : CGhost Cls Val}, CInv c s g →
      (crun w c s ops).2 = (CSpec.run w c g ops).2 ∧
        CInv c (crun w c s ops).1 (CSpec.run w c g ops).1 := by
  induction ops with
  | nil => intro s g h; exact ⟨by first | rfl | trivial, h⟩
  | cons op ops ih =>
    intro s g h
    have hs := cstep_refines (w := w) h op
    have := ih hs.2
    simp only [crun, CSpec.run]
    exact ⟨by rw [hs.1, this.1], this.2⟩

end SpecVerif.C12
