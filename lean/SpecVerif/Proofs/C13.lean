import SpecVerif.Model.C13
import Mathlib.Data.List.Nodup
/-!
# Helper lemmas for C13 (KeyedList). Property theorems live in `Props/C13.lean`.
-/
set_option linter.unusedSectionVars false
set_option linter.unusedSimpArgs false
namespace SpecVerif.C13
open SpecVerif.Py

variable {α κ : Type} [DecidableEq α] [DecidableEq κ]

/-! ### association-list lemmas -/

theorem hasKey_iff (d : List (κ × α)) (k : κ) : hasKey d k = true ↔ ∃ x, (k, x) ∈ d := by
  unfold hasKey
  rw [List.any_eq_true]
  constructor
  · rintro ⟨⟨k', x⟩, hm, hk⟩
    have : k' = k := by simpa using hk
    subst this; exact ⟨x, hm⟩
  · rintro ⟨x, hm⟩; exact ⟨(k, x), hm, by simp⟩

theorem hasKey_iff_mem_keys (d : List (κ × α)) (k : κ) : hasKey d k = true ↔ k ∈ d.map (·.1) := by
  rw [hasKey_iff, List.mem_map]
  constructor
  · rintro ⟨x, hm⟩; exact ⟨(k, x), hm, rfl⟩
  · rintro ⟨⟨k', x⟩, hm, rfl⟩; exact ⟨x, hm⟩

theorem hasKey_false_iff (d : List (κ × α)) (k : κ) : hasKey d k = false ↔ ∀ x, (k, x) ∉ d := by
  rw [← Bool.not_eq_true, hasKey_iff]; simp

theorem mem_dictDel (d : List (κ × α)) (k k' : κ) (x : α) :
    (k', x) ∈ dictDel d k ↔ (k', x) ∈ d ∧ k' ≠ k := by
  unfold dictDel; simp [List.mem_filter]

theorem mem_dictAdd (d : List (κ × α)) (k k' : κ) (x y : α) :
    (k', y) ∈ dictAdd d k x ↔ (k', y) ∈ d ∨ (k' = k ∧ y = x) := by
  unfold dictAdd; simp [List.mem_append]

theorem keys_dictDel (d : List (κ × α)) (k : κ) :
    (dictDel d k).map (·.1) = (d.map (·.1)).filter (fun k' => !(k' == k)) := by
  unfold dictDel; induction d with
  | nil => rfl
  | cons p ps ih =>
    simp only [List.filter_cons, List.map_cons]
    by_cases h : p.1 == k <;> simp [h, ih]

theorem nodup_keys_dictDel (d : List (κ × α)) (k : κ) (h : (d.map (·.1)).Nodup) :
    ((dictDel d k).map (·.1)).Nodup := by
  rw [keys_dictDel]; exact List.Nodup.sublist List.filter_sublist h

theorem not_mem_keys_dictDel (d : List (κ × α)) (k : κ) : k ∉ (dictDel d k).map (·.1) := by
  rw [keys_dictDel]; simp [List.mem_filter]

theorem nodup_keys_dictAdd (d : List (κ × α)) (k : κ) (x : α) (h : (d.map (·.1)).Nodup)
    (hk : k ∉ d.map (·.1)) : ((dictAdd d k x).map (·.1)).Nodup := by
  unfold dictAdd
  rw [List.map_append, List.nodup_append]
  refine ⟨h, by simp, ?_⟩
  intro a ha b hb
  simp at hb; subst hb
  intro hab; subst hab; exact hk ha

/-- With unique keys, `dict.get` finds exactly the bound item. -/
theorem dictGet_eq_some_iff (d : List (κ × α)) (hnd : (d.map (·.1)).Nodup) (k : κ) (x : α) :
    dictGet d k = some x ↔ (k, x) ∈ d := by
  unfold dictGet
  induction d with
  | nil => simp
  | cons p ps ih =>
    obtain ⟨k', y⟩ := p
    simp only [List.map_cons, List.nodup_cons] at hnd
    by_cases hk : k' = k
    · subst hk
      simp only [List.find?_cons, beq_self_eq_true, Option.map_some, List.mem_cons]
      constructor
      · intro h; cases h; exact Or.inl rfl
      · rintro (h | h)
        · cases h; rfl
        · exact absurd (List.mem_map.2 ⟨(k', x), h, rfl⟩) hnd.1
    · have hb : (k' == k) = false := by simpa using hk
      simp only [List.find?_cons, hb, List.mem_cons]
      rw [ih hnd.2]
      constructor
      · intro h; exact Or.inr h
      · rintro (h | h)
        · cases h; exact absurd rfl hk
        · exact h

theorem dictGet_eq_none_iff (d : List (κ × α)) (k : κ) :
    dictGet d k = none ↔ hasKey d k = false := by
  unfold dictGet hasKey
  induction d with
  | nil => simp
  | cons p ps ih =>
    by_cases hk : p.1 == k
    · simp [List.find?_cons, hk]
    · simp only [Bool.not_eq_true] at hk
      simp only [List.find?_cons, hk, List.any_cons, Bool.false_or]
      exact ih

/-! ### plain-list lemmas -/

theorem mem_pyInsert (xs : List α) (i : Int) (x y : α) :
    y ∈ pyInsert xs i x ↔ y = x ∨ y ∈ xs := by
  unfold pyInsert
  simp only [List.mem_append, List.mem_cons]
  constructor
  · rintro (h | h | h)
    · exact Or.inr (List.mem_of_mem_take h)
    · exact Or.inl h
    · exact Or.inr (List.mem_of_mem_drop h)
  · rintro (h | h)
    · exact Or.inr (Or.inl h)
    · have := List.take_append_drop (pyInsPos xs.length i) xs
      rw [← this] at h
      rcases List.mem_append.1 h with h | h
      · exact Or.inl h
      · exact Or.inr (Or.inr h)

theorem perm_pyInsert (xs : List α) (i : Int) (x : α) : (pyInsert xs i x).Perm (x :: xs) := by
  unfold pyInsert
  have := List.perm_middle (a := x) (l₁ := xs.take (pyInsPos xs.length i))
    (l₂ := xs.drop (pyInsPos xs.length i))
  simpa [List.take_append_drop] using this

theorem length_pyInsert (xs : List α) (i : Int) (x : α) :
    (pyInsert xs i x).length = xs.length + 1 := by
  have := (perm_pyInsert xs i x).length_eq
  simpa using this

/-- `pyInsert xs (len xs) x` is `append`. -/
theorem pyInsert_length (xs : List α) (x : α) : pyInsert xs (Int.ofNat xs.length) x = xs ++ [x] := by
  unfold pyInsert pyInsPos
  simp

end SpecVerif.C13

namespace SpecVerif.C13
open SpecVerif.Py
variable {α κ : Type} [DecidableEq α] [DecidableEq κ]

/-! ### more plain-list lemmas (set / eraseIdx / findIdx?) -/

theorem getElem?_of_pyIdx {xs : List α} {i : Int} {k : Nat} (h : pyIdx xs.length i = some k) :
    ∃ x, xs[k]? = some x := by
  have := pyIdx_lt h
  exact ⟨xs[k], by simp [this]⟩

theorem mem_set_iff_of_get {xs : List α} {k : Nat} {old x y : α} (hk : xs[k]? = some old)
    (hnd : ∀ j, xs[j]? = some old → j = k) :
    y ∈ xs.set k x ↔ y = x ∨ (y ∈ xs ∧ y ≠ old) := by
  have hlt : k < xs.length := by
    rcases Nat.lt_or_ge k xs.length with h | h
    · exact h
    · simp [List.getElem?_eq_none h] at hk
  constructor
  · intro hy
    rcases List.getElem_of_mem hy with ⟨j, hj, rfl⟩
    simp only [List.length_set] at hj
    rw [List.getElem_set]
    by_cases hjk : k = j
    · simp [hjk]
    · simp only [hjk, if_false]
      right
      refine ⟨List.getElem_mem _, ?_⟩
      intro heq
      have : xs[j]? = some old := by simp [hj, heq]
      exact hjk (hnd j this).symm
  · rintro (rfl | ⟨hy, hne⟩)
    · exact List.mem_iff_getElem.2 ⟨k, by simpa using hlt, by simp⟩
    · rcases List.getElem_of_mem hy with ⟨j, hj, rfl⟩
      have hjk : k ≠ j := by
        intro h; subst h
        have : xs[k]? = some xs[k] := by simp [hj]
        rw [this] at hk; cases hk; exact hne rfl
      exact List.mem_iff_getElem.2 ⟨j, by simpa using hj, by simp [List.getElem_set, hjk]⟩

end SpecVerif.C13

namespace SpecVerif.C13
open SpecVerif.Py
variable {α κ : Type} [DecidableEq α] [DecidableEq κ]

theorem mem_eraseIdx_of_nodup : ∀ (xs : List α) (k : Nat) (hk : k < xs.length), xs.Nodup →
    ∀ y, y ∈ xs.eraseIdx k ↔ y ∈ xs ∧ y ≠ xs[k]
  | [], k, hk, _, _ => by simp at hk
  | a :: t, 0, _, hnd, y => by
    simp only [List.eraseIdx_cons_zero, List.mem_cons, List.getElem_cons_zero]
    have hat : a ∉ t := (List.nodup_cons.1 hnd).1
    constructor
    · intro hy; exact ⟨Or.inr hy, fun h => hat (h ▸ hy)⟩
    · rintro ⟨h | h, hne⟩
      · exact absurd h hne
      · exact h
  | a :: t, k + 1, hk, hnd, y => by
    have hk' : k < t.length := by simpa using hk
    have hat : a ∉ t := (List.nodup_cons.1 hnd).1
    have ih := mem_eraseIdx_of_nodup t k hk' (List.nodup_cons.1 hnd).2 y
    simp only [List.eraseIdx_cons_succ, List.mem_cons, List.getElem_cons_succ, ih]
    constructor
    · rintro (h | ⟨h, hne⟩)
      · subst h; exact ⟨Or.inl rfl, fun h => hat (h ▸ List.getElem_mem _)⟩
      · exact ⟨Or.inr h, hne⟩
    · rintro ⟨h | h, hne⟩
      · exact Or.inl h
      · exact Or.inr ⟨h, hne⟩

theorem nodup_of_nodup_map_key (key : α → κ) {xs : List α} (h : (xs.map key).Nodup) : xs.Nodup :=
  List.Nodup.of_map key h

/-- In a list with unique keys, an item is determined by its key. -/
theorem eq_of_key_eq (key : α → κ) {xs : List α} (h : (xs.map key).Nodup) {x y : α}
    (hx : x ∈ xs) (hy : y ∈ xs) (hk : key x = key y) : x = y :=
  List.inj_on_of_nodup_map h hx hy hk

/-- With unique keys, the first item whose key is `k` is the only one. -/
theorem findIdx?_key_eq_some_iff (key : α → κ) {xs : List α} (h : (xs.map key).Nodup) (k : κ) (i : Nat) :
    xs.findIdx? (fun x => key x == k) = some i ↔ ∃ x, xs[i]? = some x ∧ key x = k := by
  induction xs generalizing i with
  | nil => simp
  | cons a t ih =>
    simp only [List.map_cons, List.nodup_cons] at h
    rw [List.findIdx?_cons]
    by_cases hak : key a = k
    · simp only [hak, beq_self_eq_true, if_true]
      constructor
      · intro hi; cases hi; exact ⟨a, by simp, hak⟩
      · rintro ⟨x, hx, hxk⟩
        cases i with
        | zero => rfl
        | succ j =>
          simp only [List.getElem?_cons_succ] at hx
          have : x ∈ t := List.mem_of_getElem? hx
          exact absurd (List.mem_map.2 ⟨x, this, hxk.trans hak.symm⟩) h.1
    · have hb : (key a == k) = false := by simpa using hak
      simp only [hb, Bool.false_eq_true, if_false, Option.map_eq_some_iff]
      constructor
      · rintro ⟨j, hj, rfl⟩
        obtain ⟨x, hx, hxk⟩ := (ih h.2 j).1 hj
        exact ⟨x, by simpa using hx, hxk⟩
      · rintro ⟨x, hx, hxk⟩
        cases i with
        | zero => simp at hx; subst hx; exact absurd hxk hak
        | succ j =>
          exact ⟨j, (ih h.2 j).2 ⟨x, by simpa using hx, hxk⟩, rfl⟩

theorem findIdx?_key_eq_none_iff (key : α → κ) (xs : List α) (k : κ) :
    xs.findIdx? (fun x => key x == k) = none ↔ ∀ x ∈ xs, key x ≠ k := by
  simp [List.findIdx?_eq_none_iff]

end SpecVerif.C13

namespace SpecVerif.C13
variable {α : Type}
theorem perm_set_eraseIdx (xs : List α) (k : Nat) (hk : k < xs.length) (x : α) :
    (xs.set k x).Perm (x :: xs.eraseIdx k) := by
  rw [List.set_eq_take_append_cons_drop, if_pos hk, List.eraseIdx_eq_take_drop_succ]
  exact List.perm_middle
end SpecVerif.C13

namespace SpecVerif.C13
variable {α κ : Type} [DecidableEq α] [DecidableEq κ]
/-! ### item equality that is not identity -/
theorem listEqv_beq : ∀ (xs ys : List α), listEqv (fun a b => a == b) xs ys = (xs == ys)
  | [], [] => rfl
  | [], _ :: _ => rfl
  | _ :: _, [] => rfl
  | a :: as, b :: bs => by
    simp only [listEqv, listEqv_beq as bs, List.cons_beq_cons]

theorem findIdx?_congr_mem {p q : α → Bool} : ∀ (xs : List α), (∀ y ∈ xs, p y = q y) →
    xs.findIdx? p = xs.findIdx? q
  | [], _ => rfl
  | a :: as, h => by
    simp only [List.findIdx?_cons]
    rw [h a (by simp), findIdx?_congr_mem as (fun y hy => h y (List.mem_cons_of_mem _ hy))]

end SpecVerif.C13
