import SpecVerif.Model.C13
/-!
# Helper lemmas for C13 (KeyedList). Property theorems live in `Props/C13.lean`.
-/
set_option linter.unusedSectionVars false
set_option linter.unusedSimpArgs false
namespace SpecVerif.C13
open SpecVerif.Py

variable {α κ : Type} [DecidableEq α] [DecidableEq κ]

/-! ### association-list lemmas -/

theorem hasKey_iff (d : List (κ × α)) (k : κ) : hasKey d k = true ↔ ∃ x, (k, x) ∈ d := by
  unfold hasKey
  rw [List.any_eq_true]
  constructor
  · rintro ⟨⟨k', x⟩, hm, hk⟩
    have : k' = k := by simpa using hk
    subst this; exact ⟨x, hm⟩
  · rintro ⟨x, hm⟩; exact ⟨(k, x), hm, by simp⟩

theorem hasKey_iff_mem_keys (d : List (κ × α)) (k : κ) : hasKey d k = true ↔ k ∈ d.map (·.1) := by
  rw [hasKey_iff, List.mem_map]
  constructor
  · rintro ⟨x, hm⟩; exact ⟨(k, x), hm, rfl⟩
  · rintro ⟨⟨k', x⟩, hm, rfl⟩; exact ⟨x, hm⟩

theorem hasKey_false_iff (d : List (κ × α)) (k : κ) : hasKey d k = false ↔ ∀ x, (k, x) ∉ d := by
  rw [← Bool.not_eq_true, hasKey_iff]; simp

theorem mem_dictDel (d : List (κ × α)) (k k' : κ) (x : α) :
    (k', x) ∈ dictDel d k ↔ (k', x) ∈ d ∧ k' ≠ k := by
  unfold dictDel; simp [List.mem_filter]

theorem mem_dictAdd (d : List (κ × α)) (k k' : κ) (x y : α) :
    (k', y) ∈ dictAdd d k x ↔ (k', y) ∈ d ∨ (k' = k ∧ y = x) := by
  unfold dictAdd; simp [List.mem_append]

theorem keys_dictDel (d : List (κ × α)) (k : κ) :
    (dictDel d k).map (·.1) = (d.map (·.1)).filter (fun k' => !(k' == k)) := by
  unfold dictDel; induction d with
  | nil => rfl
  | cons p ps ih =>
    simp only [List.filter_cons, List.map_cons]
    by_cases h : p.1 == k <;> simp [h, ih]

theorem nodup_keys_dictDel (d : List (κ × α)) (k : κ) (h : (d.map (·.1)).Nodup) :
    ((dictDel d k).map (·.1)).Nodup := by
  rw [keys_dictDel]; exact List.Nodup.sublist List.filter_sublist h

theorem not_mem_keys_dictDel (d : List (κ × α)) (k : κ) : k ∉ (dictDel d k).map (·.1) := by
  rw [keys_dictDel]; simp [List.mem_filter]

theorem nodup_keys_dictAdd (d : List (κ × α)) (k : κ) (x : α) (h : (d.map (·.1)).Nodup)
    (hk : k ∉ d.map (·.1)) : ((dictAdd d k x).map (·.1)).Nodup := by
  unfold dictAdd
  rw [List.map_append, List.nodup_append]
  refine ⟨h, by simp, ?_⟩
  intro a ha b hb
  simp at hb; subst hb
  intro hab; subst hab; exact hk ha

/-- With unique keys, `dict.get` finds exactly the bound item. -/
theorem dictGet_eq_some_iff (d : List (κ × α)) (hnd : (d.map (·.1)).Nodup) (k : κ) (x : α) :
    dictGet d k = some x ↔ (k, x) ∈ d := by
  unfold dictGet
  induction d with
  | nil => simp
  | cons p ps ih =>
    obtain ⟨k', y⟩ := p
    simp only [List.map_cons, List.nodup_cons] at hnd
    by_cases hk : k' = k
    · subst hk
      simp only [List.find?_cons, beq_self_eq_true, Option.map_some, List.mem_cons]
      constructor
      · intro h; cases h; exact Or.inl rfl
      · rintro (h | h)
        · cases h; rfl
        · exact absurd (List.mem_map.2 ⟨(k', x), h, rfl⟩) hnd.1
    · have hb : (k' == k) = false := by simpa using hk
      simp only [List.find?_cons, hb, List.mem_cons]
      rw [ih hnd.2]
      constructor
      · intro h; exact Or.inr h
      · rintro (h | h)
        · cases h; exact absurd rfl hk
        · exact h

theorem dictGet_eq_none_iff (d : List (κ × α)) (k : κ) :
    dictGet d k = none ↔ hasKey d k = false := by
  unfold dictGet hasKey
  induction d with
  | nil => simp
  | cons p ps ih =>
    by_cases hk : p.1 == k
    · simp [List.find?_cons, hk]
    · simp only [Bool.not_eq_true] at hk
      simp only [List.find?_cons, hk, List.any_cons, Bool.false_or]
      exact ih

/-! ### plain-list lemmas -/

theorem mem_pyInsert (xs : List α) (i : Int) (x y : α) :
    y ∈ pyInsert xs i x ↔ y = x ∨ y ∈ xs := by
  unfold pyInsert
  simp only [List.mem_append, List.mem_cons]
  constructor
  · rintro (h | h | h)
    · exact Or.inr (List.mem_of_mem_take h)
    · exact Or.inl h
    · exact Or.inr (List.mem_of_mem_drop h)
  · rintro (h | h)
    · exact Or.inr (Or.inl h)
    · have := List.take_append_drop (pyInsPos xs.length i) xs
      rw [← this] at h
      rcases List.mem_append.1 h with h | h
      · exact Or.inl h
      · exact Or.inr (Or.inr h)

theorem perm_pyInsert (xs : List α) (i : Int) (x : α) : (pyInsert xs i x).Perm (x :: xs) := by
  unfold pyInsert
  have := List.perm_middle (a := x) (l₁ := xs.take (pyInsPos xs.length i))
    (l₂ := xs.drop (pyInsPos xs.length i))
  simpa [List.take_append_drop] using this

theorem length_pyInsert (xs : List α) (i : Int) (x : α) :
    (pyInsert xs i x).length = xs.length + 1 := by
  have := (perm_pyInsert xs i x).length_eq
  simpa using this

/-- `pyInsert xs (len xs) x` is `append`. -/
theorem pyInsert_length (xs : List α) (x : α) : pyInsert xs (Int.ofNat xs.length) x = xs ++ [x] := by
  unfold pyInsert pyInsPos
  simp

end SpecVerif.C13
