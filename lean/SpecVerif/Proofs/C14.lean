import SpecVerif.Model.C14
/-!
# Helper lemmas for C14 (KeyedSet). Property theorems live in `Props/C14.lean`.
-/
set_option linter.unusedSectionVars false
set_option linter.unusedSimpArgs false
set_option linter.unusedVariables false
namespace SpecVerif.C14
open SpecVerif.Py

variable {α κ : Type} [DecidableEq α] [DecidableEq κ]

/-! ### association-list lemmas -/

theorem hasKey_iff_mem_keys (d : List (κ × α)) (k : κ) : hasKey d k = true ↔ k ∈ d.map (·.1) := by
  unfold hasKey
  rw [List.any_eq_true, List.mem_map]
  constructor
  · rintro ⟨p, hm, hk⟩; exact ⟨p, hm, by simpa using hk⟩
  · rintro ⟨p, hm, hk⟩; exact ⟨p, hm, by simpa using hk⟩

theorem hasKey_iff (d : List (κ × α)) (k : κ) : hasKey d k = true ↔ ∃ x, (k, x) ∈ d := by
  rw [hasKey_iff_mem_keys, List.mem_map]
  constructor
  · rintro ⟨⟨k', x⟩, hm, rfl⟩; exact ⟨x, hm⟩
  · rintro ⟨x, hm⟩; exact ⟨(k, x), hm, rfl⟩

theorem hasKey_nil (k : κ) : hasKey ([] : List (κ × α)) k = false := rfl

theorem hasKey_cons (p : κ × α) (d : List (κ × α)) (k : κ) :
    hasKey (p :: d) k = (p.1 == k || hasKey d k) := by
  simp [hasKey]

theorem dictGet_nil (k : κ) : dictGet ([] : List (κ × α)) k = none := rfl

theorem dictGet_cons (p : κ × α) (d : List (κ × α)) (k : κ) :
    dictGet (p :: d) k = if p.1 = k then some p.2 else dictGet d k := by
  unfold dictGet
  by_cases h : p.1 = k
  · simp [List.find?_cons, h]
  · have : (p.1 == k) = false := by simpa using h
    simp [List.find?_cons, this, h]

theorem dictGet_isSome (d : List (κ × α)) (k : κ) : (dictGet d k).isSome = hasKey d k := by
  induction d with
  | nil => rfl
  | cons p ps ih =>
    rw [dictGet_cons, hasKey_cons]
    by_cases h : p.1 = k
    · simp [h]
    · have : (p.1 == k) = false := by simpa using h
      simp [h, this, ih]

theorem dictGet_eq_none_iff (d : List (κ × α)) (k : κ) : dictGet d k = none ↔ hasKey d k = false := by
  rw [← dictGet_isSome]; cases dictGet d k <;> simp

theorem hasKey_of_dictGet {d : List (κ × α)} {k : κ} {v : α} (h : dictGet d k = some v) :
    hasKey d k = true := by
  rw [← dictGet_isSome, h]; rfl

theorem dictGet_of_hasKey {d : List (κ × α)} {k : κ} (h : hasKey d k = true) :
    ∃ v, dictGet d k = some v := by
  rw [← dictGet_isSome] at h
  cases hd : dictGet d k with
  | none => rw [hd] at h; cases h
  | some v => exact ⟨v, rfl⟩

/-- a bound value is an entry of the list -/
theorem mem_of_dictGet {d : List (κ × α)} {k : κ} {v : α} (h : dictGet d k = some v) : (k, v) ∈ d := by
  induction d with
  | nil => cases h
  | cons p ps ih =>
    rw [dictGet_cons] at h
    by_cases hk : p.1 = k
    · simp only [hk, if_true] at h
      cases h; subst hk; exact List.mem_cons_self
    · simp only [hk, if_false] at h
      exact List.mem_cons_of_mem _ (ih h)

/-- With unique keys, `dict.get` finds exactly the bound item. -/
theorem dictGet_eq_some_iff (d : List (κ × α)) (hnd : (d.map (·.1)).Nodup) (k : κ) (x : α) :
    dictGet d k = some x ↔ (k, x) ∈ d := by
  refine ⟨mem_of_dictGet, ?_⟩
  induction d with
  | nil => intro h; cases h
  | cons p ps ih =>
    intro hm
    simp only [List.map_cons, List.nodup_cons] at hnd
    rw [dictGet_cons]
    rcases List.mem_cons.1 hm with h | h
    · subst h; simp
    · have hk : p.1 ≠ k := by
        intro hk
        exact hnd.1 (List.mem_map.2 ⟨(k, x), h, hk.symm⟩)
      simp only [hk, if_false]
      exact ih hnd.2 h

/-! #### `del d[k]` -/

theorem mem_dictDel (d : List (κ × α)) (k k' : κ) (x : α) :
    (k', x) ∈ dictDel d k ↔ (k', x) ∈ d ∧ k' ≠ k := by
  unfold dictDel; simp [List.mem_filter]

theorem keys_dictDel (d : List (κ × α)) (k : κ) :
    (dictDel d k).map (·.1) = (d.map (·.1)).filter (fun k' => !(k' == k)) := by
  unfold dictDel; induction d with
  | nil => rfl
  | cons p ps ih =>
    simp only [List.filter_cons, List.map_cons]
    by_cases h : p.1 == k <;> simp [h, ih]

theorem nodup_keys_dictDel (d : List (κ × α)) (k : κ) (h : (d.map (·.1)).Nodup) :
    ((dictDel d k).map (·.1)).Nodup := by
  rw [keys_dictDel]; exact List.Nodup.sublist List.filter_sublist h

theorem hasKey_dictDel (d : List (κ × α)) (k k' : κ) :
    hasKey (dictDel d k) k' = (hasKey d k' && !(k' == k)) := by
  rw [Bool.eq_iff_iff]
  simp only [Bool.and_eq_true, hasKey_iff_mem_keys, keys_dictDel, List.mem_filter]

theorem dictGet_dictDel (d : List (κ × α)) (k k' : κ) :
    dictGet (dictDel d k) k' = if k' = k then none else dictGet d k' := by
  induction d with
  | nil => simp [dictDel, dictGet_nil]
  | cons p ps ih =>
    unfold dictDel at ih ⊢
    rw [List.filter_cons]
    by_cases hp : p.1 = k
    · have : (!(p.1 == k)) = false := by simp [hp]
      rw [this]; simp only [Bool.false_eq_true, if_false]
      rw [ih, dictGet_cons]
      by_cases hk : k' = k
      · simp [hk]
      · have : p.1 ≠ k' := fun h => hk (h ▸ hp)
        simp [hk, this]
    · have : (!(p.1 == k)) = true := by simp [hp]
      rw [this]; simp only [if_true]
      rw [dictGet_cons, dictGet_cons, ih]
      by_cases hk : k' = k
      · have : p.1 ≠ k' := fun h => hp (h.trans hk)
        simp [hk, this, hp]
      · simp [hk]

theorem length_dictDel_of_hasKey (d : List (κ × α)) (k : κ) (hnd : (d.map (·.1)).Nodup)
    (h : hasKey d k = true) : (dictDel d k).length + 1 = d.length := by
  induction d with
  | nil => cases h
  | cons p ps ih =>
    simp only [List.map_cons, List.nodup_cons] at hnd
    unfold dictDel at ih ⊢
    rw [List.filter_cons]
    by_cases hp : p.1 = k
    · have hb : (!(p.1 == k)) = false := by simp [hp]
      rw [hb]; simp only [Bool.false_eq_true, if_false, List.length_cons]
      -- k does not occur in ps: the filter keeps everything
      have : ps.filter (fun q => !(q.1 == k)) = ps := by
        rw [List.filter_eq_self]
        intro q hq
        have : q.1 ≠ k := by
          intro hqk
          exact hnd.1 (List.mem_map.2 ⟨q, hq, by rw [hqk, hp]⟩)
        simp [this]
      rw [this]
    · have hb : (!(p.1 == k)) = true := by simp [hp]
      rw [hb]; simp only [if_true, List.length_cons]
      have hk : hasKey ps k = true := by
        rw [hasKey_cons] at h
        have : (p.1 == k) = false := by simpa using hp
        simpa [this] using h
      have := ih hnd.2 hk
      omega

/-! #### `d[k] = v` -/

theorem keys_dictSet (d : List (κ × α)) (k : κ) (v : α) :
    (dictSet d k v).map (·.1) = if hasKey d k then d.map (·.1) else d.map (·.1) ++ [k] := by
  unfold dictSet
  by_cases h : hasKey d k = true
  · simp only [h, if_true, List.map_map]
    apply List.map_congr_left
    intro p _
    by_cases hp : p.1 = k <;> simp [hp]
  · simp [h]

theorem hasKey_dictSet (d : List (κ × α)) (k k' : κ) (v : α) :
    hasKey (dictSet d k v) k' = (hasKey d k' || k' == k) := by
  rw [Bool.eq_iff_iff]
  by_cases h : hasKey d k = true
  · rw [hasKey_iff_mem_keys, keys_dictSet, if_pos h, ← hasKey_iff_mem_keys]
    simp only [Bool.or_eq_true, beq_iff_eq]
    constructor
    · intro hm; exact Or.inl hm
    · rintro (hm | he)
      · exact hm
      · subst he; exact h
  · rw [hasKey_iff_mem_keys, keys_dictSet, if_neg h]
    simp only [Bool.or_eq_true, beq_iff_eq, List.mem_append, List.mem_singleton, hasKey_iff_mem_keys]

theorem nodup_keys_dictSet (d : List (κ × α)) (k : κ) (v : α) (hnd : (d.map (·.1)).Nodup) :
    ((dictSet d k v).map (·.1)).Nodup := by
  rw [keys_dictSet]
  by_cases h : hasKey d k = true
  · simpa [h] using hnd
  · simp only [h, Bool.false_eq_true, if_false]
    rw [List.nodup_append]
    refine ⟨hnd, by simp, ?_⟩
    intro a ha b hb
    simp at hb; subst hb
    intro hab; subst hab
    exact h ((hasKey_iff_mem_keys _ _).2 ha)

theorem dictGet_append_single (d : List (κ × α)) (k k' : κ) (v : α) :
    dictGet (d ++ [(k, v)]) k' = match dictGet d k' with
      | some w => some w
      | none => if k = k' then some v else none := by
  induction d with
  | nil => simp [dictGet_cons, dictGet_nil]
  | cons p ps ih =>
    rw [List.cons_append, dictGet_cons, dictGet_cons]
    by_cases hp : p.1 = k'
    · simp [hp]
    · simp [hp, ih]

theorem dictGet_map_set (d : List (κ × α)) (k k' : κ) (v : α) (h : hasKey d k = true) :
    dictGet (d.map (fun p => if p.1 == k then (p.1, v) else p)) k'
      = if k' = k then some v else dictGet d k' := by
  induction d with
  | nil => cases h
  | cons p ps ih =>
    rw [List.map_cons, dictGet_cons, dictGet_cons]
    by_cases hp : p.1 = k
    · have hb : (p.1 == k) = true := by simp [hp]
      simp only [hb, if_true]
      by_cases hk : k' = k
      · simp [hk, hp]
      · have hne : p.1 ≠ k' := fun e => hk (e ▸ hp)
        simp only [hne, if_false, hk]
        -- below the replaced head the map only touches entries with key k ≠ k'
        clear ih h
        induction ps with
        | nil => rfl
        | cons q qs ihq =>
          rw [List.map_cons, dictGet_cons, dictGet_cons]
          by_cases hq : q.1 = k
          · have hqb : (q.1 == k) = true := by simp [hq]
            have hqk : q.1 ≠ k' := fun e => hk (e ▸ hq)
            simp only [hqb, if_true, hqk, if_false]
            exact ihq
          · have hqb : (q.1 == k) = false := by simpa using hq
            simp only [hqb, Bool.false_eq_true, if_false]
            by_cases hqk : q.1 = k'
            · simp [hqk]
            · simp only [hqk, if_false]; exact ihq
    · have hb : (p.1 == k) = false := by simpa using hp
      simp only [hb, Bool.false_eq_true, if_false]
      have hps : hasKey ps k = true := by
        rw [hasKey_cons, hb] at h; simpa using h
      by_cases hpk : p.1 = k'
      · have : k' ≠ k := fun e => hp (hpk.trans e)
        simp [hpk, this]
      · simp only [hpk, if_false]
        exact ih hps

theorem dictGet_dictSet (d : List (κ × α)) (k k' : κ) (v : α) :
    dictGet (dictSet d k v) k' = if k' = k then some v else dictGet d k' := by
  unfold dictSet
  by_cases h : hasKey d k = true
  · simp only [h, if_true]
    exact dictGet_map_set d k k' v h
  · simp only [h, Bool.false_eq_true, if_false]
    rw [dictGet_append_single]
    have hn : hasKey d k = false := by simpa using h
    by_cases hk : k' = k
    · subst hk
      rw [(dictGet_eq_none_iff d k').2 hn]
    · have : k ≠ k' := fun e => hk e.symm
      cases hd : dictGet d k' <;> simp [hk, this]

theorem mem_dictSet {d : List (κ × α)} {k k' : κ} {v v' : α} (h : (k', v') ∈ dictSet d k v) :
    (k' = k ∧ v' = v) ∨ ((k', v') ∈ d ∧ k' ≠ k) := by
  unfold dictSet at h
  by_cases hk : hasKey d k = true
  · simp only [hk, if_true, List.mem_map] at h
    obtain ⟨p, hp, he⟩ := h
    by_cases hpk : p.1 == k
    · simp only [hpk, if_true] at he
      have : p.1 = k := by simpa using hpk
      cases he; exact Or.inl ⟨this, rfl⟩
    · simp only [hpk, Bool.false_eq_true, if_false] at he
      subst he
      exact Or.inr ⟨hp, by simpa using hpk⟩
  · simp only [hk, Bool.false_eq_true, if_false, List.mem_append, List.mem_singleton] at h
    rcases h with h | h
    · refine Or.inr ⟨h, ?_⟩
      intro e; subst e
      exact hk ((hasKey_iff _ _).2 ⟨v', h⟩)
    · cases h; exact Or.inl ⟨rfl, rfl⟩

theorem length_dictSet (d : List (κ × α)) (k : κ) (v : α) :
    (dictSet d k v).length = if hasKey d k then d.length else d.length + 1 := by
  unfold dictSet
  by_cases h : hasKey d k = true <;> simp [h]

/-! ### Python-loop combinators -/

theorem allM_true_iff (p : α → Except Err Bool) (xs : List α) :
    allM p xs = .ok true ↔ ∀ x ∈ xs, p x = .ok true := by
  induction xs with
  | nil => simp [allM]
  | cons x xs ih =>
    unfold allM
    cases hp : p x with
    | error e => simp [hp]
    | ok b =>
      cases b with
      | false => simp [hp]
      | true => simp [hp, ih]

theorem allM_false (p : α → Except Err Bool) (xs : List α) (h : allM p xs = .ok false) :
    ∃ x ∈ xs, p x = .ok false := by
  induction xs with
  | nil => simp [allM] at h
  | cons x xs ih =>
    unfold allM at h
    cases hp : p x with
    | error e => simp [hp] at h
    | ok b =>
      cases b with
      | false => exact ⟨x, List.mem_cons_self, hp⟩
      | true =>
        simp only [hp] at h
        obtain ⟨y, hy, hpy⟩ := ih h
        exact ⟨y, List.mem_cons_of_mem _ hy, hpy⟩

/-- total predicates: `allM` is `List.all` -/
theorem allM_total (p : α → Except Err Bool) (q : α → Bool) (xs : List α)
    (h : ∀ x ∈ xs, p x = .ok (q x)) : allM p xs = .ok (xs.all q) := by
  induction xs with
  | nil => rfl
  | cons x xs ih =>
    unfold allM
    rw [h x List.mem_cons_self]
    cases hq : q x with
    | false => simp [hq]
    | true =>
      simp only [List.all_cons, hq, Bool.true_and]
      exact ih (fun y hy => h y (List.mem_cons_of_mem _ hy))

theorem notM_ok_iff (r : Except Err Bool) (b : Bool) : notM r = .ok b ↔ r = .ok (!b) := by
  unfold notM
  cases r with
  | error e => simp
  | ok c => cases b <;> cases c <;> simp


/-! ## Invariants of a KeyedSet -/

/-- unique keys, and every item is stored under its own key -/
structure WF (s : KS α κ) : Prop where
  nodup : (s.dict.map (·.1)).Nodup
  keyed : ∀ k v, (k, v) ∈ s.dict → s.cfg.keyOf v = .ok k

/-- a parameterised set holds only items and keys of the declared types -/
def Adm (s : KS α κ) : Prop :=
  s.cfg.typed = true → ∀ k v, (k, v) ∈ s.dict → s.cfg.okItem v = true ∧ s.cfg.okKey k = true

/-- `r` identifies items like `s`: same key function / type parameters (`cfg`) and flag -/
def SameKind (r s : KS α κ) : Prop := r.cfg = s.cfg ∧ r.enforce = s.enforce

theorem SameKind.refl (s : KS α κ) : SameKind s s := ⟨rfl, rfl⟩
theorem SameKind.trans {a b c : KS α κ} (h1 : SameKind a b) (h2 : SameKind b c) : SameKind a c :=
  ⟨h1.1.trans h2.1, h1.2.trans h2.2⟩

structure Inv (s : KS α κ) : Prop where
  wf : WF s
  adm : Adm s

theorem inv_emptyLike (s : KS α κ) : Inv s.emptyLike :=
  ⟨⟨by simp [KS.emptyLike], by simp [KS.emptyLike]⟩, by intro _ k v h; simp [KS.emptyLike] at h⟩

theorem sameKind_emptyLike (s : KS α κ) : SameKind s.emptyLike s := ⟨rfl, rfl⟩

theorem validate_ok {c : Cfg α κ} {x : α} {k : κ} (h : validate c x = .ok k) :
    c.keyOf x = .ok k ∧ (c.typed = true → c.okItem x = true ∧ c.okKey k = true) := by
  unfold validate at h
  cases hk : c.keyOf x with
  | error e => simp [hk] at h
  | ok k' =>
    simp only [hk] at h
    by_cases ht : c.typed = true
    · simp only [ht, if_true] at h
      by_cases hi : c.okItem x = true
      · simp only [hi, Bool.not_true, Bool.false_eq_true, if_false] at h
        by_cases hkk : c.okKey k' = true
        · simp only [hkk, Bool.not_true, Bool.false_eq_true, if_false] at h
          cases h; exact ⟨rfl, fun _ => ⟨hi, hkk⟩⟩
        · simp [hkk] at h
      · simp [hi] at h
    · simp only [ht, Bool.false_eq_true, if_false] at h
      cases h; exact ⟨rfl, fun h' => absurd h' ht⟩

theorem validate_of {c : Cfg α κ} {x : α} {k : κ} (hk : c.keyOf x = .ok k)
    (ht : c.typed = true → c.okItem x = true ∧ c.okKey k = true) : validate c x = .ok k := by
  unfold validate
  simp only [hk]
  by_cases h : c.typed = true
  · obtain ⟨h1, h2⟩ := ht h
    simp [h, h1, h2]
  · simp [h]

/-- shape of a successful `add` -/
theorem add_ok {s s' : KS α κ} {x : α} (h : add s x = .ok s') :
    ∃ k, validate s.cfg x = .ok k ∧ s' = { s with dict := dictSet s.dict k x } ∧
      ¬(s.enforce = true ∧ hasKey s.dict k = true ∧ dictGet s.dict k ≠ some x) := by
  unfold add at h
  cases hv : validate s.cfg x with
  | error e => simp [hv] at h
  | ok k =>
    simp only [hv] at h
    by_cases hc : (s.enforce && hasKey s.dict k && (dictGet s.dict k != some x)) = true
    · simp [hc] at h
    · simp only [hc, Bool.false_eq_true, if_false] at h
      cases h
      refine ⟨k, rfl, rfl, ?_⟩
      rintro ⟨h1, h2, h3⟩
      apply hc
      simp [h1, h2, h3]

theorem add_error {s : KS α κ} {x : α} {e : Err} (h : add s x = .error e) :
    validate s.cfg x = .error e ∨
      (e = .valueError ∧ ∃ k, validate s.cfg x = .ok k ∧ s.enforce = true ∧ hasKey s.dict k = true ∧
        dictGet s.dict k ≠ some x) := by
  unfold add at h
  cases hv : validate s.cfg x with
  | error e' => simp only [hv] at h; cases h; exact Or.inl rfl
  | ok k =>
    simp only [hv] at h
    by_cases hc : (s.enforce && hasKey s.dict k && (dictGet s.dict k != some x)) = true
    · simp only [hc, if_true] at h
      cases h
      simp only [Bool.and_eq_true, bne_iff_ne, ne_eq] at hc
      exact Or.inr ⟨rfl, k, rfl, hc.1.1, hc.1.2, hc.2⟩
    · simp [hc] at h

theorem inv_add {s s' : KS α κ} {x : α} (hi : Inv s) (h : add s x = .ok s') :
    Inv s' ∧ SameKind s' s := by
  obtain ⟨k, hv, rfl, _⟩ := add_ok h
  obtain ⟨hk, ht⟩ := validate_ok hv
  refine ⟨⟨⟨nodup_keys_dictSet _ _ _ hi.wf.nodup, ?_⟩, ?_⟩, ⟨rfl, rfl⟩⟩
  · intro k' v' hm
    rcases mem_dictSet hm with ⟨rfl, rfl⟩ | ⟨hm', _⟩
    · exact hk
    · exact hi.wf.keyed k' v' hm'
  · intro htyped k' v' hm
    rcases mem_dictSet hm with ⟨rfl, rfl⟩ | ⟨hm', _⟩
    · exact ht htyped
    · exact hi.adm htyped k' v' hm'

theorem inv_del {s : KS α κ} (hi : Inv s) (k : κ) :
    Inv { s with dict := dictDel s.dict k } := by
  refine ⟨⟨nodup_keys_dictDel _ _ hi.wf.nodup, ?_⟩, ?_⟩
  · intro k' v' hm; exact hi.wf.keyed k' v' ((mem_dictDel _ _ _ _).1 hm).1
  · intro ht k' v' hm; exact hi.adm ht k' v' ((mem_dictDel _ _ _ _).1 hm).1

/-- shape of a successful `discard` -/
theorem discard_ok {s s' : KS α κ} {x : α} (h : discard s x = .ok s') :
    s' = s ∨ ∃ k, hasKey s.dict k = true ∧ s' = { s with dict := dictDel s.dict k } := by
  unfold discard at h
  cases hd : inDict s x with
  | some k =>
    simp only [hd] at h; cases h
    refine Or.inr ⟨k, ?_, rfl⟩
    unfold inDict at hd
    cases ha : s.cfg.asKey x with
    | none => simp [ha] at hd
    | some k' =>
      simp only [ha] at hd
      by_cases hk : hasKey s.dict k' = true
      · simp only [hk, if_true] at hd; cases hd; exact hk
      · simp [hk] at hd
  | none =>
    simp only [hd] at h
    cases hm : itemMatch s x with
    | error e => simp [hm] at h
    | ok r =>
      cases r with
      | none => simp only [hm] at h; cases h; exact Or.inl rfl
      | some k =>
        simp only [hm] at h; cases h
        refine Or.inr ⟨k, ?_, rfl⟩
        unfold itemMatch at hm
        cases hk : s.cfg.keyOf x with
        | error e => cases e <;> simp [hk] at hm
        | ok k' =>
          simp only [hk] at hm
          by_cases hc : (hasKey s.dict k' && (!s.enforce || dictGet s.dict k' == some x)) = true
          · simp only [hc, if_true] at hm
            cases hm
            simp only [Bool.and_eq_true] at hc
            exact hc.1
          · simp [hc] at hm

theorem inv_discard {s s' : KS α κ} {x : α} (hi : Inv s) (h : discard s x = .ok s') :
    Inv s' ∧ SameKind s' s := by
  rcases discard_ok h with rfl | ⟨k, _, rfl⟩
  · exact ⟨hi, SameKind.refl _⟩
  · exact ⟨inv_del hi k, ⟨rfl, rfl⟩⟩

theorem inv_remove {s s' : KS α κ} {x : α} (hi : Inv s) (h : remove s x = .ok s') :
    Inv s' ∧ SameKind s' s := by
  unfold remove at h
  cases hc : contains s x with
  | error e => simp [hc] at h
  | ok b => cases b with
    | false => simp [hc] at h
    | true => simp only [hc] at h; exact inv_discard hi h

theorem inv_pop {s s' : KS α κ} {v : α} (hi : Inv s) (h : pop s = .ok (v, s')) :
    Inv s' ∧ SameKind s' s := by
  unfold pop at h
  cases hd : s.dict with
  | nil => simp [hd] at h
  | cons p ps =>
    simp only [hd] at h
    cases hdis : discard s p.2 with
    | error e => simp [hdis] at h
    | ok s'' =>
      simp only [hdis] at h
      cases h
      exact inv_discard hi hdis

theorem inv_clear_go (n : Nat) {s : KS α κ} (hi : Inv s) :
    Inv (clear.go n s).1 ∧ SameKind (clear.go n s).1 s := by
  induction n generalizing s with
  | zero => exact ⟨hi, SameKind.refl _⟩
  | succ n ih =>
    unfold clear.go
    cases hp : pop s with
    | error e => cases e <;> exact ⟨hi, SameKind.refl _⟩
    | ok r =>
      obtain ⟨v, s'⟩ := r
      obtain ⟨hi', hk'⟩ := inv_pop hi hp
      obtain ⟨h1, h2⟩ := ih hi'
      exact ⟨h1, h2.trans hk'⟩

theorem inv_clear {s : KS α κ} (hi : Inv s) : Inv (clear s).1 ∧ SameKind (clear s).1 s :=
  inv_clear_go _ hi

theorem inv_filterAdd (p : α → Except Err Bool) {acc r : KS α κ} (xs : List α) (hi : Inv acc)
    (h : filterAdd p acc xs = .ok r) : Inv r ∧ SameKind r acc := by
  induction xs generalizing acc with
  | nil => unfold filterAdd at h; cases h; exact ⟨hi, SameKind.refl _⟩
  | cons x xs ih =>
    unfold filterAdd at h
    cases hp : p x with
    | error e => simp [hp] at h
    | ok b =>
      cases b with
      | false => simp only [hp] at h; exact ih hi h
      | true =>
        simp only [hp] at h
        cases ha : add acc x with
        | error e => simp [ha] at h
        | ok acc' =>
          simp only [ha] at h
          obtain ⟨hi', hk'⟩ := inv_add hi ha
          obtain ⟨h1, h2⟩ := ih hi' h
          exact ⟨h1, h2.trans hk'⟩

theorem sameKind_filterAdd (p : α → Except Err Bool) {acc r : KS α κ} (xs : List α)
    (h : filterAdd p acc xs = .ok r) : SameKind r acc := by
  induction xs generalizing acc with
  | nil => unfold filterAdd at h; cases h; exact SameKind.refl _
  | cons x xs ih =>
    unfold filterAdd at h
    cases hp : p x with
    | error e => simp [hp] at h
    | ok b =>
      cases b with
      | false => simp only [hp] at h; exact ih h
      | true =>
        simp only [hp] at h
        cases ha : add acc x with
        | error e => simp [ha] at h
        | ok acc' =>
          simp only [ha] at h
          obtain ⟨k, _, hacc', _⟩ := add_ok ha
          exact (ih h).trans (by rw [hacc']; exact ⟨rfl, rfl⟩)

theorem inv_fromIterable {s r : KS α κ} {xs : List α} (h : fromIterable s xs = .ok r) :
    Inv r ∧ SameKind r s := by
  obtain ⟨h1, h2⟩ := inv_filterAdd _ xs (inv_emptyLike s) h
  exact ⟨h1, h2.trans (sameKind_emptyLike s)⟩

theorem inv_andOp {s r : KS α κ} {o : Operand α κ} (h : andOp s o = .ok r) : Inv r ∧ SameKind r s := by
  obtain ⟨h1, h2⟩ := inv_filterAdd _ _ (inv_emptyLike s) h
  exact ⟨h1, h2.trans (sameKind_emptyLike s)⟩

theorem inv_orOp {s r : KS α κ} {o : Operand α κ} (h : orOp s o = .ok r) : Inv r ∧ SameKind r s :=
  inv_fromIterable h

theorem inv_subOp {s r : KS α κ} {o : Operand α κ} (h : subOp s o = .ok r) : Inv r ∧ SameKind r s := by
  unfold subOp at h
  cases ht : toSet s o with
  | error e => simp [ht] at h
  | ok o' =>
    simp only [ht] at h
    obtain ⟨h1, h2⟩ := inv_filterAdd _ _ (inv_emptyLike s) h
    exact ⟨h1, h2.trans (sameKind_emptyLike s)⟩

theorem inv_rsubOp {s r : KS α κ} {o : Operand α κ} (h : rsubOp s o = .ok r) : Inv r ∧ SameKind r s := by
  unfold rsubOp at h
  cases ht : toSet s o with
  | error e => simp [ht] at h
  | ok o' =>
    simp only [ht] at h
    obtain ⟨h1, h2⟩ := inv_filterAdd _ _ (inv_emptyLike s) h
    exact ⟨h1, h2.trans (sameKind_emptyLike s)⟩

theorem inv_xorOp {s r : KS α κ} {o : Operand α κ} (h : xorOp s o = .ok r) : Inv r ∧ SameKind r s := by
  unfold xorOp at h
  cases ht : toSet s o with
  | error e => simp [ht] at h
  | ok o' =>
    simp only [ht] at h
    cases ha : subOp s o' with
    | error e => simp [ha] at h
    | ok a =>
      simp only [ha] at h
      split at h
      · cases h
      · rename_i b hb
        obtain ⟨h1, h2⟩ := inv_orOp h
        exact ⟨h1, h2.trans (inv_subOp ha).2⟩

theorem inv_binOp {b : BinOp} {s r : KS α κ} {o : Operand α κ} (h : binOp b s o = .ok r) :
    Inv r ∧ SameKind r s := by
  cases b
  · exact inv_andOp h
  · exact inv_orOp h
  · exact inv_subOp h
  · exact inv_xorOp h

theorem inv_addAllP {s : KS α κ} (xs : List α) (hi : Inv s) :
    Inv (addAllP s xs).1 ∧ SameKind (addAllP s xs).1 s := by
  induction xs generalizing s with
  | nil => exact ⟨hi, SameKind.refl _⟩
  | cons x xs ih =>
    unfold addAllP
    cases ha : add s x with
    | error e => exact ⟨hi, SameKind.refl _⟩
    | ok s' =>
      obtain ⟨hi', hk'⟩ := inv_add hi ha
      obtain ⟨h1, h2⟩ := ih hi'
      exact ⟨h1, h2.trans hk'⟩

theorem inv_discardAllP {s : KS α κ} (xs : List α) (hi : Inv s) :
    Inv (discardAllP s xs).1 ∧ SameKind (discardAllP s xs).1 s := by
  induction xs generalizing s with
  | nil => exact ⟨hi, SameKind.refl _⟩
  | cons x xs ih =>
    unfold discardAllP
    cases ha : discard s x with
    | error e => exact ⟨hi, SameKind.refl _⟩
    | ok s' =>
      obtain ⟨hi', hk'⟩ := inv_discard hi ha
      obtain ⟨h1, h2⟩ := ih hi'
      exact ⟨h1, h2.trans hk'⟩

theorem inv_toggleAllP {s : KS α κ} (xs : List α) (hi : Inv s) :
    Inv (toggleAllP s xs).1 ∧ SameKind (toggleAllP s xs).1 s := by
  induction xs generalizing s with
  | nil => exact ⟨hi, SameKind.refl _⟩
  | cons x xs ih =>
    unfold toggleAllP
    cases hc : contains s x with
    | error e => exact ⟨hi, SameKind.refl _⟩
    | ok b =>
      cases b with
      | true =>
        simp only
        cases ha : discard s x with
        | error e => exact ⟨hi, SameKind.refl _⟩
        | ok s' =>
          obtain ⟨hi', hk'⟩ := inv_discard hi ha
          obtain ⟨h1, h2⟩ := ih hi'
          exact ⟨h1, h2.trans hk'⟩
      | false =>
        simp only
        cases ha : add s x with
        | error e => exact ⟨hi, SameKind.refl _⟩
        | ok s' =>
          obtain ⟨hi', hk'⟩ := inv_add hi ha
          obtain ⟨h1, h2⟩ := ih hi'
          exact ⟨h1, h2.trans hk'⟩

theorem inv_iOp (i : IOp) {s : KS α κ} (o : Operand α κ) (hi : Inv s) :
    Inv (iOp i s o).1 ∧ SameKind (iOp i s o).1 s := by
  cases i
  · exact inv_addAllP _ hi
  · show Inv (iandOp s o).1 ∧ SameKind (iandOp s o).1 s
    unfold iandOp
    cases hs : subOp s o with
    | error e => exact ⟨hi, SameKind.refl _⟩
    | ok d => exact inv_discardAllP _ hi
  · exact inv_discardAllP _ hi
  · show Inv (ixorOp s o).1 ∧ SameKind (ixorOp s o).1 s
    unfold ixorOp
    cases hs : toSet s o with
    | error e => exact ⟨hi, SameKind.refl _⟩
    | ok o' => exact inv_toggleAllP _ hi

theorem outOf_fst (r : KS α κ × Option Err) : (outOf r).1 = r.1 := by
  unfold outOf; cases r.2 <;> rfl

/-- Every operation keeps the invariants, the key function, the flag and the type parameters. -/
theorem inv_step {s : KS α κ} (op : Op α κ) (hi : Inv s) :
    Inv (step s op).1 ∧ SameKind (step s op).1 s := by
  cases op with
  | add x =>
    simp only [step]
    cases h : add s x with
    | error e => exact ⟨hi, SameKind.refl _⟩
    | ok s' => exact inv_add hi h
  | discard x =>
    simp only [step]
    cases h : discard s x with
    | error e => exact ⟨hi, SameKind.refl _⟩
    | ok s' => exact inv_discard hi h
  | remove x =>
    simp only [step]
    cases h : remove s x with
    | error e => exact ⟨hi, SameKind.refl _⟩
    | ok s' => exact inv_remove hi h
  | pop =>
    simp only [step]
    cases h : pop s with
    | error e => exact ⟨hi, SameKind.refl _⟩
    | ok r => obtain ⟨v, s'⟩ := r; exact inv_pop hi h
  | clear => simp only [step, outOf_fst]; exact inv_clear hi
  | contains x => exact ⟨hi, SameKind.refl _⟩
  | getItem x => exact ⟨hi, SameKind.refl _⟩
  | get x => exact ⟨hi, SameKind.refl _⟩
  | keys => exact ⟨hi, SameKind.refl _⟩
  | items => exact ⟨hi, SameKind.refl _⟩
  | len => exact ⟨hi, SameKind.refl _⟩
  | iter => exact ⟨hi, SameKind.refl _⟩
  | bin b o => exact ⟨hi, SameKind.refl _⟩
  | rbin b o => exact ⟨hi, SameKind.refl _⟩
  | rebind b o =>
    simp only [step]
    cases h : binOp b s o with
    | error e => exact ⟨hi, SameKind.refl _⟩
    | ok r => exact inv_binOp h
  | cmp c o => exact ⟨hi, SameKind.refl _⟩
  | rcmp c o => exact ⟨hi, SameKind.refl _⟩
  | inplace i o => simp only [step, outOf_fst]; exact inv_iOp i o hi
  | inplaceSelf i =>
    cases i
    · simp only [step, outOf_fst]; exact inv_addAllP _ hi
    · simp only [step, outOf_fst]; exact inv_iOp .iand (.ks s) hi
    · simp only [step, outOf_fst]; exact inv_clear hi
    · simp only [step, outOf_fst]; exact inv_clear hi
  | probe refl b o x =>
    simp only [step]
    split
    · exact ⟨hi, SameKind.refl _⟩
    · exact inv_toggleAllP _ hi

theorem inv_run {s : KS α κ} (ops : List (Op α κ)) (hi : Inv s) :
    Inv (run s ops).1 ∧ SameKind (run s ops).1 s := by
  induction ops generalizing s with
  | nil => exact ⟨hi, SameKind.refl _⟩
  | cons op ops ih =>
    simp only [run]
    obtain ⟨h1, h2⟩ := inv_step op hi
    obtain ⟨h3, h4⟩ := ih h1
    exact ⟨h3, h4.trans h2⟩


/-! ## Item-or-key resolution -/

theorem inDict_eq_some_iff (s : KS α κ) (x : α) (k : κ) :
    inDict s x = some k ↔ s.cfg.asKey x = some k ∧ hasKey s.dict k = true := by
  unfold inDict
  cases ha : s.cfg.asKey x with
  | none => simp
  | some k' =>
    by_cases hk : hasKey s.dict k' = true
    · simp only [hk, if_true, Option.some.injEq]
      constructor
      · intro e; subst e; exact ⟨rfl, hk⟩
      · rintro ⟨e, _⟩; exact e
    · simp only [hk, Bool.false_eq_true, if_false, Option.some.injEq]
      constructor
      · intro h; cases h
      · rintro ⟨e, h⟩; subst e; exact absurd h hk

theorem inDict_eq_none_iff (s : KS α κ) (x : α) :
    inDict s x = none ↔ ∀ k, s.cfg.asKey x = some k → hasKey s.dict k = false := by
  unfold inDict
  cases ha : s.cfg.asKey x with
  | none => simp
  | some k' =>
    by_cases hk : hasKey s.dict k' = true
    · simp only [hk, if_true, Option.some.injEq]
      constructor
      · intro h; cases h
      · intro h; have := h k' rfl; rw [hk] at this; cases this
    · simp only [hk, Bool.false_eq_true, if_false, Option.some.injEq, true_iff]
      intro k e; subst e; simpa using hk

/-- the argument matches as an *item*: its key is present (and, with `enforce`, bound to an equal item) -/
def ItemHit (s : KS α κ) (x : α) (k : κ) : Prop :=
  s.cfg.keyOf x = .ok k ∧ hasKey s.dict k = true ∧ (s.enforce = true → dictGet s.dict k = some x)

theorem itemMatch_some_iff (s : KS α κ) (x : α) (k : κ) :
    itemMatch s x = .ok (some k) ↔ ItemHit s x k := by
  unfold itemMatch ItemHit
  cases hk : s.cfg.keyOf x with
  | error e => cases e <;> simp
  | ok k' =>
    simp only
    by_cases hc : (hasKey s.dict k' && (!s.enforce || dictGet s.dict k' == some x)) = true
    · simp only [hc, if_true, Except.ok.injEq, Option.some.injEq]
      simp only [Bool.and_eq_true, Bool.or_eq_true, Bool.not_eq_true', beq_iff_eq] at hc
      constructor
      · intro e; subst e
        refine ⟨rfl, hc.1, ?_⟩
        intro he; rcases hc.2 with h | h
        · rw [he] at h; cases h
        · exact h
      · rintro ⟨e, _, _⟩; exact e
    · simp only [hc, Bool.false_eq_true, if_false, Except.ok.injEq]
      constructor
      · intro h; cases h
      · rintro ⟨e, h1, h2⟩
        subst e
        exfalso; apply hc
        simp only [Bool.and_eq_true, Bool.or_eq_true, Bool.not_eq_true', beq_iff_eq]
        refine ⟨h1, ?_⟩
        cases he : s.enforce with
        | false => exact Or.inl rfl
        | true => exact Or.inr (h2 he)

theorem itemMatch_none_iff (s : KS α κ) (x : α) :
    itemMatch s x = .ok none ↔
      (s.cfg.keyOf x = .error .typeError ∨ ∃ k, s.cfg.keyOf x = .ok k ∧ ¬ ItemHit s x k) := by
  constructor
  · intro hm
    cases hk : s.cfg.keyOf x with
    | error e =>
      have : e = .typeError := by
        unfold itemMatch at hm; rw [hk] at hm
        cases e <;> first | rfl | (simp at hm)
      subst this; exact Or.inl rfl
    | ok k =>
      refine Or.inr ⟨k, rfl, ?_⟩
      intro hh
      rw [(itemMatch_some_iff s x k).2 hh] at hm; cases hm
  · rintro (h | ⟨k, hk, hn⟩)
    · unfold itemMatch; rw [h]
    · cases hm : itemMatch s x with
      | error e =>
        unfold itemMatch at hm; rw [hk] at hm
        simp only at hm; split at hm <;> cases hm
      | ok r =>
        cases r with
        | none => rfl
        | some k' =>
          have := (itemMatch_some_iff s x k').1 hm
          rw [this.1] at hk; cases hk; exact absurd this hn

/-- `x` denotes the present key `k`, as a key or as an item (membership / discard / remove) -/
def DenotesM (s : KS α κ) (x : α) (k : κ) : Prop :=
  (s.cfg.asKey x = some k ∧ hasKey s.dict k = true) ∨ ItemHit s x k

/-- the documented caveat excluded: `x` denotes at most one present key -/
def Unamb (s : KS α κ) (x : α) : Prop := ∀ k k', DenotesM s x k → DenotesM s x k' → k = k'

/-- `x` denotes the present key `k` for lookup (`s[x]`: the item fallback ignores `enforce`) -/
def DenotesL (s : KS α κ) (x : α) (k : κ) : Prop :=
  (s.cfg.asKey x = some k ∨ s.cfg.keyOf x = .ok k) ∧ hasKey s.dict k = true

/-- the key function does not raise anything but `TypeError` on `x` -/
def KeyTotal (c : Cfg α κ) (x : α) : Prop := ∀ e, c.keyOf x = .error e → e = .typeError

theorem contains_ok_iff {s : KS α κ} {x : α} {b : Bool} (h : contains s x = .ok b) :
    b = true ↔ ∃ k, DenotesM s x k := by
  unfold contains at h
  cases hd : inDict s x with
  | some k =>
    simp only [hd] at h; cases h
    simp only [true_iff]
    exact ⟨k, Or.inl ((inDict_eq_some_iff s x k).1 hd)⟩
  | none =>
    simp only [hd] at h
    cases hm : itemMatch s x with
    | error e => simp [hm] at h
    | ok r =>
      simp only [hm] at h; cases h
      cases r with
      | some k =>
        simp only [Option.isSome_some, true_iff]
        exact ⟨k, Or.inr ((itemMatch_some_iff s x k).1 hm)⟩
      | none =>
        simp only [Option.isSome_none, Bool.false_eq_true, false_iff]
        rintro ⟨k, hk | hk⟩
        · have := (inDict_eq_none_iff s x).1 hd k hk.1
          rw [hk.2] at this; cases this
        · rw [(itemMatch_some_iff s x k).2 hk] at hm; cases hm

theorem contains_total {s : KS α κ} {x : α} (hx : KeyTotal s.cfg x) : ∃ b, contains s x = .ok b := by
  unfold contains
  cases hd : inDict s x with
  | some k => exact ⟨true, rfl⟩
  | none =>
    simp only
    cases hm : itemMatch s x with
    | ok r => exact ⟨r.isSome, rfl⟩
    | error e =>
      exfalso
      unfold itemMatch at hm
      cases hk : s.cfg.keyOf x with
      | error e' =>
        have := hx e' hk; subst this
        simp [hk] at hm
      | ok k => simp only [hk] at hm; split at hm <;> cases hm

theorem contains_true_of_denotes {s : KS α κ} {x : α} {k : κ} (h : DenotesM s x k) :
    contains s x = .ok true := by
  unfold contains
  cases hd : inDict s x with
  | some k' => rfl
  | none =>
    rcases h with h | h
    · have := (inDict_eq_none_iff s x).1 hd k h.1
      rw [h.2] at this; cases this
    · simp only [(itemMatch_some_iff s x k).2 h]; rfl

/-- what `discard` does: removes a key the argument denotes (the as-key reading first), or nothing -/
theorem discard_cases {s s' : KS α κ} {x : α} (h : discard s x = .ok s') :
    (∃ k, DenotesM s x k ∧ s' = { s with dict := dictDel s.dict k }) ∨
    ((¬ ∃ k, DenotesM s x k) ∧ s' = s) := by
  unfold discard at h
  cases hd : inDict s x with
  | some k =>
    simp only [hd] at h; cases h
    exact Or.inl ⟨k, Or.inl ((inDict_eq_some_iff s x k).1 hd), rfl⟩
  | none =>
    simp only [hd] at h
    cases hm : itemMatch s x with
    | error e => simp [hm] at h
    | ok r =>
      cases r with
      | some k =>
        simp only [hm] at h; cases h
        exact Or.inl ⟨k, Or.inr ((itemMatch_some_iff s x k).1 hm), rfl⟩
      | none =>
        simp only [hm] at h; cases h
        refine Or.inr ⟨?_, rfl⟩
        rintro ⟨k, hk | hk⟩
        · have := (inDict_eq_none_iff s x).1 hd k hk.1
          rw [hk.2] at this; cases this
        · rw [(itemMatch_some_iff s x k).2 hk] at hm; cases hm

theorem discard_total {s : KS α κ} {x : α} (hx : KeyTotal s.cfg x ∨ ∃ k, inDict s x = some k) :
    ∃ s', discard s x = .ok s' := by
  unfold discard
  cases hd : inDict s x with
  | some k => exact ⟨_, rfl⟩
  | none =>
    simp only
    rcases hx with hx | ⟨k, hk⟩
    · cases hm : itemMatch s x with
      | ok r => cases r <;> exact ⟨_, rfl⟩
      | error e =>
        exfalso
        unfold itemMatch at hm
        cases hk : s.cfg.keyOf x with
        | error e' =>
          have := hx e' hk; subst this
          simp [hk] at hm
        | ok k => simp only [hk] at hm; split at hm <;> cases hm
    · rw [hd] at hk; cases hk

/-- a stored item denotes its own key -/
theorem denotes_stored {s : KS α κ} (hwf : WF s) {k : κ} {v : α} (hm : (k, v) ∈ s.dict) :
    ItemHit s v k :=
  ⟨hwf.keyed k v hm, (hasKey_iff _ _).2 ⟨v, hm⟩, fun _ => (dictGet_eq_some_iff _ hwf.nodup k v).2 hm⟩

/-! ## `_from_iterable` / filtered adds: keys and items of the result -/

theorem filterAdd_keys (p : α → Except Err Bool) {acc r : KS α κ} (xs : List α)
    (h : filterAdd p acc xs = .ok r) (k : κ) :
    hasKey r.dict k = true ↔
      hasKey acc.dict k = true ∨ ∃ x ∈ xs, p x = .ok true ∧ acc.cfg.keyOf x = .ok k := by
  induction xs generalizing acc with
  | nil => unfold filterAdd at h; cases h; simp
  | cons x xs ih =>
    unfold filterAdd at h
    cases hp : p x with
    | error e => simp [hp] at h
    | ok b =>
      cases b with
      | false =>
        simp only [hp] at h
        rw [ih h]
        constructor
        · rintro (h1 | ⟨y, hy, hpy, hky⟩)
          · exact Or.inl h1
          · exact Or.inr ⟨y, List.mem_cons_of_mem _ hy, hpy, hky⟩
        · rintro (h1 | ⟨y, hy, hpy, hky⟩)
          · exact Or.inl h1
          · rcases List.mem_cons.1 hy with rfl | hy
            · rw [hp] at hpy; cases hpy
            · exact Or.inr ⟨y, hy, hpy, hky⟩
      | true =>
        simp only [hp] at h
        cases ha : add acc x with
        | error e => simp [ha] at h
        | ok acc' =>
          simp only [ha] at h
          obtain ⟨k0, hv, hacc', _⟩ := add_ok ha
          have hk0 := (validate_ok hv).1
          have hcfg : acc'.cfg = acc.cfg := by rw [hacc']
          rw [ih h, hcfg]
          have hkey : hasKey acc'.dict k = true ↔ hasKey acc.dict k = true ∨ k = k0 := by
            rw [hacc']; simp [hasKey_dictSet]
          rw [hkey]
          constructor
          · rintro ((h1 | h1) | ⟨y, hy, hpy, hky⟩)
            · exact Or.inl h1
            · subst h1; exact Or.inr ⟨x, List.mem_cons_self, hp, hk0⟩
            · exact Or.inr ⟨y, List.mem_cons_of_mem _ hy, hpy, hky⟩
          · rintro (h1 | ⟨y, hy, hpy, hky⟩)
            · exact Or.inl (Or.inl h1)
            · rcases List.mem_cons.1 hy with rfl | hy
              · rw [hk0] at hky; cases hky; exact Or.inl (Or.inr rfl)
              · exact Or.inr ⟨y, hy, hpy, hky⟩

/-- items of the result come from the accumulator or are admitted elements of the input -/
theorem filterAdd_items (p : α → Except Err Bool) {acc r : KS α κ} (xs : List α)
    (h : filterAdd p acc xs = .ok r) (k : κ) (v : α) (hv : dictGet r.dict k = some v) :
    dictGet acc.dict k = some v ∨ (v ∈ xs ∧ p v = .ok true ∧ acc.cfg.keyOf v = .ok k) := by
  induction xs generalizing acc with
  | nil => unfold filterAdd at h; cases h; exact Or.inl hv
  | cons x xs ih =>
    unfold filterAdd at h
    cases hp : p x with
    | error e => simp [hp] at h
    | ok b =>
      cases b with
      | false =>
        simp only [hp] at h
        rcases ih h with h1 | ⟨h1, h2, h3⟩
        · exact Or.inl h1
        · exact Or.inr ⟨List.mem_cons_of_mem _ h1, h2, h3⟩
      | true =>
        simp only [hp] at h
        cases ha : add acc x with
        | error e => simp [ha] at h
        | ok acc' =>
          simp only [ha] at h
          obtain ⟨k0, hval, hacc', _⟩ := add_ok ha
          have hk0 := (validate_ok hval).1
          have hcfg : acc'.cfg = acc.cfg := by rw [hacc']
          rcases ih h with h1 | ⟨h1, h2, h3⟩
          · rw [hacc'] at h1
            simp only [dictGet_dictSet] at h1
            by_cases hk : k = k0
            · simp only [hk, if_true, Option.some.injEq] at h1
              subst h1; subst hk
              exact Or.inr ⟨List.mem_cons_self, hp, hk0⟩
            · simp only [hk, if_false] at h1
              exact Or.inl h1
          · rw [hcfg] at h3
            exact Or.inr ⟨List.mem_cons_of_mem _ h1, h2, h3⟩

/-- without `enforce` (or when nothing conflicts) and with well-typed input, filtered adds succeed -/
theorem filterAdd_succeeds (p : α → Except Err Bool) (acc : KS α κ) (xs : List α)
    (hp : ∀ x ∈ xs, ∃ b, p x = .ok b)
    (hv : ∀ x ∈ xs, p x = .ok true → ∃ k, validate acc.cfg x = .ok k)
    (he : acc.enforce = false) : ∃ r, filterAdd p acc xs = .ok r := by
  induction xs generalizing acc with
  | nil => exact ⟨acc, rfl⟩
  | cons x xs ih =>
    unfold filterAdd
    obtain ⟨b, hb⟩ := hp x List.mem_cons_self
    cases b with
    | false =>
      simp only [hb]
      exact ih acc (fun y hy => hp y (List.mem_cons_of_mem _ hy))
        (fun y hy => hv y (List.mem_cons_of_mem _ hy)) he
    | true =>
      simp only [hb]
      obtain ⟨k, hk⟩ := hv x List.mem_cons_self hb
      have ha : add acc x = .ok { acc with dict := dictSet acc.dict k x } := by
        unfold add; simp [hk, he]
      simp only [ha]
      exact ih _ (fun y hy => hp y (List.mem_cons_of_mem _ hy))
        (fun y hy => hv y (List.mem_cons_of_mem _ hy)) he


/-! ## Operands that are sets of items (no key/item ambiguity, agreement on common keys) -/

/-- `k` is the key (under `c`) of some element of `xs` -/
def keysOf (c : Cfg α κ) (xs : List α) (k : κ) : Prop := ∃ x ∈ xs, c.keyOf x = .ok k

/-- no element of `xs`, read as a key, is a present key of `s` other than its own key
(excludes the ambiguity documented in the class docstring) -/
def PlainFor (s : KS α κ) (xs : List α) : Prop :=
  ∀ x ∈ xs, ∀ k, s.cfg.asKey x = some k → hasKey s.dict k = true → s.cfg.keyOf x = .ok k

/-- when `s` enforces equivalence, the elements of `xs` equal the items `s` holds under their keys -/
def AgreeE (s : KS α κ) (xs : List α) : Prop :=
  s.enforce = true → ∀ x ∈ xs, ∀ k v, s.cfg.keyOf x = .ok k → dictGet s.dict k = some v → v = x

/-- the elements of `xs` equal the items `s` holds under their keys (same key ⇒ same item) -/
def AgreeS (s : KS α κ) (xs : List α) : Prop :=
  ∀ x ∈ xs, ∀ k v, s.cfg.keyOf x = .ok k → dictGet s.dict k = some v → v = x

theorem AgreeS.agreeE {s : KS α κ} {xs : List α} (h : AgreeS s xs) : AgreeE s xs := fun _ => h

/-- for a plain, agreeing element membership is "its key is present" -/
theorem contains_plain {s : KS α κ} {x : α} {k : κ} (hp : PlainFor s [x]) (ha : AgreeE s [x])
    (hk : s.cfg.keyOf x = .ok k) : contains s x = .ok (hasKey s.dict k) := by
  cases hh : hasKey s.dict k with
  | true =>
    apply contains_true_of_denotes (k := k)
    refine Or.inr ⟨hk, hh, ?_⟩
    intro he
    obtain ⟨v, hv⟩ := dictGet_of_hasKey hh
    rw [hv, ha he x (List.mem_singleton.2 rfl) k v hk hv]
  | false =>
    unfold contains
    have hin : inDict s x = none := by
      rw [inDict_eq_none_iff]
      intro k' hk'
      cases hh' : hasKey s.dict k' with
      | false => rfl
      | true =>
        have := hp x (List.mem_singleton.2 rfl) k' hk' hh'
        rw [hk] at this; cases this
        rw [hh] at hh'; cases hh'
    rw [hin]
    have : itemMatch s x = .ok none := by
      rw [itemMatch_none_iff]
      refine Or.inr ⟨k, hk, ?_⟩
      rintro ⟨_, h2, _⟩
      rw [hh] at h2; cases h2
    simp [this]

/-- … and `discard` removes exactly its key -/
theorem discard_plain {s : KS α κ} {x : α} {k : κ} (hp : PlainFor s [x]) (ha : AgreeE s [x])
    (hk : s.cfg.keyOf x = .ok k) :
    ∃ s', discard s x = .ok s' ∧ SameKind s' s ∧
      (∀ j, dictGet s'.dict j = if j = k then none else dictGet s.dict j) ∧
      (WF s → WF s') := by
  have hc := contains_plain hp ha hk
  obtain ⟨s', hs'⟩ := discard_total (s := s) (x := x) (Or.inl (by intro e he; rw [hk] at he; cases he))
  refine ⟨s', hs', ?_, ?_, ?_⟩
  · rcases discard_ok hs' with rfl | ⟨_, _, rfl⟩
    · exact SameKind.refl _
    · exact ⟨rfl, rfl⟩
  · rcases discard_cases hs' with ⟨k', hk', rfl⟩ | ⟨hn, he⟩
    · -- the denoted key is `k`
      have : k' = k := by
        rcases hk' with ⟨h1, h2⟩ | ⟨h1, _, _⟩
        · have := hp x (List.mem_singleton.2 rfl) k' h1 h2
          rw [hk] at this; cases this; rfl
        · rw [hk] at h1; cases h1; rfl
      subst this
      intro j; exact dictGet_dictDel _ _ _
    · intro j
      rw [he]
      by_cases hj : j = k
      · subst hj
        simp only [if_true]
        rw [dictGet_eq_none_iff]
        cases hh : hasKey s.dict j with
        | false => rfl
        | true =>
          rw [hh] at hc
          exact absurd ((contains_ok_iff hc).1 rfl) hn
      · simp [hj]
  · intro hwf
    rcases discard_ok hs' with rfl | ⟨k', _, rfl⟩
    · exact hwf
    · exact ⟨nodup_keys_dictDel _ _ hwf.nodup,
        fun k'' v' h => hwf.keyed k'' v' ((mem_dictDel _ _ _ _).1 h).1⟩

theorem PlainFor.mono {s : KS α κ} {xs ys : List α} (h : PlainFor s xs) (hsub : ∀ y ∈ ys, y ∈ xs) :
    PlainFor s ys := fun y hy => h y (hsub y hy)
theorem AgreeE.mono {s : KS α κ} {xs ys : List α} (h : AgreeE s xs) (hsub : ∀ y ∈ ys, y ∈ xs) :
    AgreeE s ys := fun he y hy => h he y (hsub y hy)

/-- every stored item of a set satisfying the invariants passes `validate` -/
theorem validate_stored {s : KS α κ} (hi : Inv s) {k : κ} {v : α} (hm : (k, v) ∈ s.dict) :
    validate s.cfg v = .ok k :=
  validate_of (hi.wf.keyed k v hm) (fun ht => hi.adm ht k v hm)

/-- the stored items have pairwise different keys -/
theorem iter_pairwise {s : KS α κ} (hwf : WF s) :
    s.iter.Pairwise (fun a b => s.cfg.keyOf a ≠ s.cfg.keyOf b) := by
  have h1 : (s.dict.map (·.1)).Pairwise (· ≠ ·) := hwf.nodup
  rw [List.pairwise_map] at h1
  unfold KS.iter
  rw [List.pairwise_map]
  have hk := hwf.keyed
  generalize s.dict = d at h1 hk
  induction d with
  | nil => exact List.Pairwise.nil
  | cons p ps ih =>
    rw [List.pairwise_cons] at h1 ⊢
    refine ⟨?_, ih h1.2 (fun k v h => hk k v (List.mem_cons_of_mem _ h))⟩
    intro q hq
    rw [hk p.1 p.2 List.mem_cons_self, hk q.1 q.2 (List.mem_cons_of_mem _ hq)]
    intro e
    exact h1.1 q hq (Except.ok.inj e)

/-- adding items with fresh, pairwise different keys never fails -/
theorem filterAdd_fresh_succeeds (p : α → Except Err Bool) (acc : KS α κ) (xs : List α)
    (hp : ∀ x ∈ xs, ∃ b, p x = .ok b)
    (hv : ∀ x ∈ xs, ∃ k, validate acc.cfg x = .ok k)
    (hfresh : ∀ x ∈ xs, ∀ k, acc.cfg.keyOf x = .ok k → hasKey acc.dict k = false)
    (hpw : xs.Pairwise (fun a b => acc.cfg.keyOf a ≠ acc.cfg.keyOf b)) :
    ∃ r, filterAdd p acc xs = .ok r := by
  induction xs generalizing acc with
  | nil => exact ⟨acc, rfl⟩
  | cons x xs ih =>
    unfold filterAdd
    rw [List.pairwise_cons] at hpw
    obtain ⟨b, hb⟩ := hp x List.mem_cons_self
    cases b with
    | false =>
      simp only [hb]
      exact ih acc (fun y hy => hp y (List.mem_cons_of_mem _ hy))
        (fun y hy => hv y (List.mem_cons_of_mem _ hy))
        (fun y hy => hfresh y (List.mem_cons_of_mem _ hy)) hpw.2
    | true =>
      simp only [hb]
      obtain ⟨k, hk⟩ := hv x List.mem_cons_self
      have hkx := (validate_ok hk).1
      have hf := hfresh x List.mem_cons_self k hkx
      have ha : add acc x = .ok { acc with dict := dictSet acc.dict k x } := by
        unfold add; simp [hk, hf]
      simp only [ha]
      apply ih
      · exact fun y hy => hp y (List.mem_cons_of_mem _ hy)
      · exact fun y hy => hv y (List.mem_cons_of_mem _ hy)
      · intro y hy k' hk'
        simp only [hasKey_dictSet, Bool.or_eq_false_iff, beq_eq_false_iff_ne]
        refine ⟨hfresh y (List.mem_cons_of_mem _ hy) k' hk', ?_⟩
        intro e; subst e
        exact hpw.1 y hy (by rw [hkx]; exact hk'.symm)
      · exact hpw.2

/-- filtering a set's own items into a fresh set of the same kind never fails -/
theorem filterAdd_self_succeeds (p : α → Except Err Bool) {s : KS α κ} (hi : Inv s)
    (hp : ∀ x ∈ s.iter, ∃ b, p x = .ok b) : ∃ r, filterAdd p s.emptyLike s.iter = .ok r := by
  apply filterAdd_fresh_succeeds
  · exact hp
  · intro x hx
    obtain ⟨⟨k, v⟩, hm, rfl⟩ := List.mem_map.1 hx
    exact ⟨k, validate_stored hi hm⟩
  · intro x _ k _; rfl
  · exact iter_pairwise hi.wf

/-- the in-place loop `for v in it: self.add(v)` succeeds exactly when `_from_iterable`-style adding does -/
theorem addAllP_none_iff (s s' : KS α κ) (xs : List α) :
    addAllP s xs = (s', none) ↔ filterAdd (fun _ => .ok true) s xs = .ok s' := by
  induction xs generalizing s with
  | nil => simp [addAllP, filterAdd]
  | cons x xs ih =>
    unfold addAllP filterAdd
    cases ha : add s x with
    | error e => simp
    | ok s1 => simp only; exact ih s1

theorem mem_keys_iff_hasKey (s : KS α κ) (k : κ) : k ∈ s.keys ↔ hasKey s.dict k = true :=
  (hasKey_iff_mem_keys _ _).symm

theorem mem_iter_iff {s : KS α κ} {v : α} : v ∈ s.iter ↔ ∃ k, (k, v) ∈ s.dict := by
  unfold KS.iter
  rw [List.mem_map]
  constructor
  · rintro ⟨⟨k, v'⟩, hm, rfl⟩; exact ⟨k, hm⟩
  · rintro ⟨k, hm⟩; exact ⟨(k, v), hm, rfl⟩

/-- keys of the stored items = stored keys -/
theorem keysOf_iter {s : KS α κ} (hwf : WF s) (k : κ) : keysOf s.cfg s.iter k ↔ hasKey s.dict k = true := by
  unfold keysOf
  constructor
  · rintro ⟨x, hx, hk⟩
    obtain ⟨k', hm⟩ := mem_iter_iff.1 hx
    have := hwf.keyed k' x hm
    rw [hk] at this; cases this
    exact (hasKey_iff _ _).2 ⟨x, hm⟩
  · intro h
    obtain ⟨x, hm⟩ := (hasKey_iff _ _).1 h
    exact ⟨x, mem_iter_iff.2 ⟨k, hm⟩, hwf.keyed k x hm⟩

/-- two duplicate-free lists of the same length, one included in the other, have the same elements -/
theorem subset_of_length_eq {β : Type} [DecidableEq β] {l₁ l₂ : List β} (h₁ : l₁.Nodup)
    (hsub : ∀ a ∈ l₁, a ∈ l₂) (hlen : l₁.length = l₂.length) : ∀ a ∈ l₂, a ∈ l₁ := by
  intro a ha
  apply Classical.byContradiction
  intro hna
  have hsub' : l₁ ⊆ l₂.erase a := by
    intro x hx
    have hxa : x ≠ a := fun e => hna (e ▸ hx)
    exact (List.mem_erase_of_ne hxa).2 (hsub x hx)
  have := h₁.length_le_of_subset hsub'
  rw [List.length_erase] at this
  simp only [ha, if_true] at this
  have hpos : 0 < l₂.length := List.length_pos_of_mem ha
  omega

end SpecVerif.C14
