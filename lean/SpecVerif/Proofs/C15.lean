import SpecVerif.Model.C15
/-!
# C15 — helper lemmas for `Props/C15.lean`

The main lemma block (`checkType_ok` / `checkAny_ok` / `checkSlots_ok`) is the
mutual structural induction over `Ty`/`Tys` showing IMPL = SPEC on well-formed
annotations.  Core Lean only.
-/
set_option linter.unusedSectionVars false
set_option linter.unusedVariables false
set_option linter.unusedSimpArgs false
namespace SpecVerif.C15
open SpecVerif.Py

/-! ## loops over the value lists -/

theorem allValsM_ok {f : Val → Except Err Bool} {g : Val → Bool}
    (h : ∀ x, f x = .ok (g x)) : ∀ xs : Vals, allValsM f xs = .ok (xs.all g)
  | .nil => by simp [allValsM, Vals.all]
  | .cons x xs => by
    have ih := allValsM_ok h xs
    simp only [allValsM, Vals.all, h x]
    cases hg : g x <;> simp [ih]

theorem allKVsM_ok {fk fv : Val → Except Err Bool} {gk gv : Val → Bool}
    (hk : ∀ x, fk x = .ok (gk x)) (hv : ∀ x, fv x = .ok (gv x)) :
    ∀ kvs : KVs, allKVsM fk fv kvs = .ok (kvs.all gk gv)
  | .nil => by simp [allKVsM, KVs.all]
  | .cons k v kvs => by
    have ih := allKVsM_ok hk hv kvs
    simp only [allKVsM, KVs.all, hk k, hv v]
    cases hg : gk k <;> cases hg' : gv v <;> simp [ih]

theorem Vals.all_iff (g : Val → Bool) : ∀ xs : Vals, xs.all g = true ↔ ∀ x ∈ xs.toList, g x = true
  | .nil => by simp [Vals.all, Vals.toList]
  | .cons x xs => by simp [Vals.all, Vals.toList, Vals.all_iff g xs]

theorem Vals.any_iff (g : Val → Bool) : ∀ xs : Vals, xs.any g = true ↔ ∃ x ∈ xs.toList, g x = true
  | .nil => by simp [Vals.any, Vals.toList]
  | .cons x xs => by simp [Vals.any, Vals.toList, Vals.any_iff g xs]

theorem KVs.all_iff (gk gv : Val → Bool) :
    ∀ kvs : KVs, kvs.all gk gv = true ↔ ∀ p ∈ kvs.toList, gk p.1 = true ∧ gv p.2 = true
  | .nil => by simp [KVs.all, KVs.toList]
  | .cons k v kvs => by simp [KVs.all, KVs.toList, KVs.all_iff gk gv kvs, and_assoc]

theorem Vals.length_toList : ∀ xs : Vals, xs.toList.length = xs.length
  | .nil => rfl
  | .cons _ xs => by simp [Vals.toList, Vals.length, Vals.length_toList xs]

theorem Tys.length_toList : ∀ ts : Tys, ts.toList.length = ts.length
  | .nil => rfl
  | .cons _ ts => by simp [Tys.toList, Tys.length, Tys.length_toList ts]

/-! ## classes and numbers -/

theorem isReal_eq (E : Env) (v : Val) :
    isReal v.typeOf = (isInstance E v .float || isInstance E v .int) := by
  cases v <;> simp [isReal, isInstance, Val.typeOf, ClassId.sub]

/-- a value is `None` exactly when it is an instance of NoneType -/
theorem isInstance_noneType (E : Env) (v : Val) :
    isInstance E v .noneType = true ↔ v = .none := by
  cases v <;> simp [isInstance, Val.typeOf, ClassId.sub]

theorem num_of_int (E : Env) (v : Val) (h : isInstance E v .int = true) : ∃ x, num v = some x := by
  cases v <;> simp_all [isInstance, Val.typeOf, ClassId.sub, num]

theorem num_of_bool (E : Env) (v : Val) (h : isInstance E v .bool = true) : ∃ x, num v = some x := by
  cases v <;> simp_all [isInstance, Val.typeOf, ClassId.sub, num]

theorem num_of_float (E : Env) (v : Val) (h : isInstance E v .float = true) : ∃ x, num v = some x := by
  cases v <;> simp_all [isInstance, Val.typeOf, ClassId.sub, num]

theorem boundOk_of_num {v : Val} {x : Int} (h : num v = some x) (b : Option Int) (rel : Int → Int → Bool) :
    boundOk v b rel = (match b with | none => true | some g => rel x g) := by
  cases b <;> simp [boundOk, h]

theorem boundFails_of_num {v : Val} {x : Int} (h : num v = some x) (b : Option Int) (bad : Int → Int → Bool) :
    boundFails v b bad = .ok (match b with | none => false | some g => bad x g) := by
  cases b <;> simp [boundFails, h]

/-- On a number the four comparisons of the validator never raise and compute
exactly "every declared bound holds". -/
theorem boundsCheck_ok {v : Val} {x : Int} (h : num v = some x) (ge gt le lt : Option Int) :
    boundsCheck v ge gt le lt =
      .ok (boundOk v ge (fun x g => decide (g ≤ x)) && boundOk v gt (fun x g => decide (g < x))
        && boundOk v le (fun x g => decide (x ≤ g)) && boundOk v lt (fun x g => decide (x < g))) := by
  unfold boundsCheck
  simp only [boundFails_of_num h, boundOk_of_num h]
  cases ge <;> cases gt <;> cases le <;> cases lt <;> simp <;>
    (repeat' split) <;> simp_all <;> omega

mutual
  /-- Values conforming to a numeric annotation are numbers. -/
  theorem numeric_conforms (E : Env) : ∀ (t : Ty), t.numeric = true → ∀ v, conforms E t v = true → ∃ x, num v = some x
    | .cls c, h, v, hc => by
      cases c <;> simp [Ty.numeric] at h
      · exact num_of_bool E v (by simpa [conforms] using hc)
      · exact num_of_int E v (by simpa [conforms] using hc)
    | .float, _, v, hc => by
      simp only [conforms, Bool.or_eq_true] at hc
      rcases hc with hc | hc
      · exact num_of_float E v hc
      · exact num_of_int E v hc
    | .bounded b _ _ _ _, h, v, hc => by
      simp only [conforms, Bool.and_eq_true] at hc
      exact numeric_conforms E b (by simpa [Ty.numeric] using h) v hc.1.1.1.1
    | .refined b _, h, v, hc => by
      simp only [conforms, Bool.and_eq_true] at hc
      exact numeric_conforms E b (by simpa [Ty.numeric] using h) v hc.1
    | .union ts, h, v, hc =>
      numerics_conformsAny E ts (by simpa [Ty.numeric] using h) v (by simpa [conforms] using hc)
    | .any, h, _, _ => by simp [Ty.numeric] at h
    | .typeVar, h, _, _ => by simp [Ty.numeric] at h
    | .noneType, h, _, _ => by simp [Ty.numeric] at h
    | .noneLit, h, _, _ => by simp [Ty.numeric] at h
    | .list _, h, _, _ => by simp [Ty.numeric] at h
    | .set _, h, _, _ => by simp [Ty.numeric] at h
    | .dict _ _, h, _, _ => by simp [Ty.numeric] at h
    | .tuple _, h, _, _ => by simp [Ty.numeric] at h
    | .tupleVar _, h, _, _ => by simp [Ty.numeric] at h
    | .type_ _, h, _, _ => by simp [Ty.numeric] at h
    | .literal _, h, _, _ => by simp [Ty.numeric] at h
    | .validated _, h, _, _ => by simp [Ty.numeric] at h
  theorem numerics_conformsAny (E : Env) :
      ∀ (ts : Tys), ts.numerics = true → ∀ v, conformsAny E ts v = true → ∃ x, num v = some x
    | .nil, _, _, hc => by simp [conformsAny] at hc
    | .cons t ts, h, v, hc => by
      simp only [Tys.numerics, Bool.and_eq_true] at h
      simp only [conformsAny, Bool.or_eq_true] at hc
      rcases hc with hc | hc
      · exact numeric_conforms E t h.1 v hc
      · exact numerics_conformsAny E ts h.2 v hc
end

/-! ## `_check_subclass` -/

mutual
  theorem checkSubclass_ok (E : Env) :
      ∀ (t : Ty), t.classArg = true → ∀ d, checkSubclass E t d = .ok (subclassOf E t d)
    | .any, _, d => by simp [checkSubclass, subclassOf]
    | .typeVar, _, d => by simp [checkSubclass, subclassOf]
    | .cls _, _, d => by simp [checkSubclass, subclassOf]
    | .float, _, d => by simp [checkSubclass, subclassOf]
    | .noneType, _, d => by simp [checkSubclass, subclassOf]
    | .noneLit, _, d => by simp [checkSubclass, subclassOf]
    | .list _, _, d => by simp [checkSubclass, subclassOf]
    | .set _, _, d => by simp [checkSubclass, subclassOf]
    | .dict _ _, _, d => by simp [checkSubclass, subclassOf]
    | .tuple _, _, d => by simp [checkSubclass, subclassOf]
    | .tupleVar _, _, d => by simp [checkSubclass, subclassOf]
    | .type_ _, _, d => by simp [checkSubclass, subclassOf]
    | .bounded _ _ _ _ _, _, d => by simp [checkSubclass, subclassOf]
    | .validated _, _, d => by simp [checkSubclass, subclassOf]
    | .refined _ _, _, d => by simp [checkSubclass, subclassOf]
    | .literal _, h, _ => by simp [Ty.classArg] at h
    | .union ts, h, d => by
      simp only [checkSubclass, subclassOf]
      exact checkSubclassAny_ok E ts (by simpa [Ty.classArg] using h) d
  theorem checkSubclassAny_ok (E : Env) :
      ∀ (ts : Tys), ts.classArgs = true → ∀ d, checkSubclassAny E ts d = .ok (subclassOfAny E ts d)
    | .nil, _, d => by simp [checkSubclassAny, subclassOfAny]
    | .cons t ts, h, d => by
      simp only [Tys.classArgs, Bool.and_eq_true] at h
      simp only [checkSubclassAny, subclassOfAny, checkSubclass_ok E t h.1 d]
      cases subclassOf E t d <;> simp [checkSubclassAny_ok E ts h.2 d]
end

/-! ## positional tuples -/

theorem conformsSlots_len_ne (E : Env) :
    ∀ (ts : Tys) (xs : Vals), xs.length ≠ ts.length → conformsSlots E ts xs = false
  | .nil, .nil, h => by simp [Vals.length, Tys.length] at h
  | .nil, .cons _ _, _ => by simp [conformsSlots]
  | .cons _ _, .nil, _ => by simp [conformsSlots]
  | .cons t ts, .cons x xs, h => by
    have := conformsSlots_len_ne E ts xs (by simpa [Vals.length, Tys.length] using h)
    simp [conformsSlots, this]

/-- positional tuple = same length and every aligned (slot type, element) pair conforms -/
theorem conformsSlots_iff (E : Env) :
    ∀ (ts : Tys) (xs : Vals),
      conformsSlots E ts xs = true ↔
        (xs.toList.length = ts.toList.length ∧ ∀ p ∈ ts.toList.zip xs.toList, conforms E p.1 p.2 = true)
  | .nil, .nil => by simp [conformsSlots, Tys.toList, Vals.toList]
  | .nil, .cons _ _ => by simp [conformsSlots, Tys.toList, Vals.toList]
  | .cons _ _, .nil => by simp [conformsSlots, Tys.toList, Vals.toList]
  | .cons t ts, .cons x xs => by
    simp only [conformsSlots, Tys.toList, Vals.toList, Bool.and_eq_true, conformsSlots_iff E ts xs,
      List.length_cons, List.zip_cons_cons, List.mem_cons, Nat.add_right_cancel_iff]
    constructor
    · rintro ⟨h1, h2, h3⟩
      refine ⟨h2, ?_⟩
      rintro p (rfl | hp)
      · exact h1
      · exact h3 p hp
    · rintro ⟨h2, h3⟩
      exact ⟨h3 (t, x) (Or.inl rfl), h2, fun p hp => h3 p (Or.inr hp)⟩

theorem conformsAny_iff (E : Env) (v : Val) :
    ∀ ts : Tys, conformsAny E ts v = true ↔ ∃ t ∈ ts.toList, conforms E t v = true
  | .nil => by simp [conformsAny, Tys.toList]
  | .cons t ts => by simp [conformsAny, Tys.toList, conformsAny_iff E v ts]

theorem subclassOfAny_iff (E : Env) (d : ClassId) :
    ∀ ts : Tys, subclassOfAny E ts d = true ↔ ∃ t ∈ ts.toList, subclassOf E t d = true
  | .nil => by simp [subclassOfAny, Tys.toList]
  | .cons t ts => by simp [subclassOfAny, Tys.toList, subclassOfAny_iff E d ts]

/-! ## IMPL = SPEC -/

mutual
  theorem checkType_ok (E : Env) :
      ∀ (t : Ty), t.wf = true → ∀ v, checkType E t v = .ok (conforms E t v)
    | .any, _, v => by simp [checkType, conforms]
    | .typeVar, _, v => by simp [checkType, conforms]
    | .cls _, _, v => by simp [checkType, conforms]
    | .noneType, _, v => by simp [checkType, conforms]
    | .noneLit, _, v => by simp [checkType, conforms]
    | .validated _, _, v => by simp [checkType, conforms]
    | .float, _, v => by simp [checkType, conforms, isReal_eq E v]
    | .literal _, _, v => by simp [checkType, conforms, inChoices]
    | .list t, h, v => by
      have ih := checkType_ok E t (by simpa [Ty.wf] using h)
      cases v <;> simp [checkType, conforms, allValsM_ok ih]
    | .set t, h, v => by
      have ih := checkType_ok E t (by simpa [Ty.wf] using h)
      cases v <;> simp [checkType, conforms, allValsM_ok ih]
    | .tupleVar t, h, v => by
      have ih := checkType_ok E t (by simpa [Ty.wf] using h)
      cases v <;> simp [checkType, conforms, allValsM_ok ih]
    | .dict k w, h, v => by
      simp only [Ty.wf, Bool.and_eq_true] at h
      have ihk := checkType_ok E k h.1
      have ihw := checkType_ok E w h.2
      cases v <;> simp [checkType, conforms, allKVsM_ok ihk ihw]
    | .tuple ts, h, v => by
      cases v <;> simp only [checkType, conforms]
      rename_i xs
      by_cases hl : xs.length = ts.length
      · simp [hl, checkSlots_ok E ts (by simpa [Ty.wf] using h) xs hl]
      · simp [hl, conformsSlots_len_ne E ts xs hl]
    | .type_ t, h, v => by
      cases v <;> simp only [checkType, conforms]
      exact checkSubclass_ok E t (by simpa [Ty.wf] using h) _
    | .union ts, h, v => by
      simp only [checkType, conforms]
      exact checkAny_ok E ts (by simpa [Ty.wf] using h) v
    | .bounded b ge gt le lt, h, v => by
      simp only [Ty.wf, Bool.and_eq_true] at h
      have ih := checkType_ok E b h.1 v
      simp only [checkType, conforms, ih]
      cases hc : conforms E b v
      · simp
      · obtain ⟨x, hx⟩ := numeric_conforms E b h.2 v hc
        simp [boundsCheck_ok hx]
    | .refined b p, h, v => by
      have ih := checkType_ok E b (by simpa [Ty.wf] using h) v
      simp only [checkType, conforms, ih]
      cases conforms E b v <;> simp
  theorem checkAny_ok (E : Env) :
      ∀ (ts : Tys), ts.wf = true → ∀ v, checkAny E ts v = .ok (conformsAny E ts v)
    | .nil, _, v => by simp [checkAny, conformsAny]
    | .cons t ts, h, v => by
      simp only [Tys.wf, Bool.and_eq_true] at h
      simp only [checkAny, conformsAny, checkType_ok E t h.1 v]
      cases conforms E t v <;> simp [checkAny_ok E ts h.2 v]
  theorem checkSlots_ok (E : Env) :
      ∀ (ts : Tys), ts.wf = true → ∀ xs : Vals, xs.length = ts.length →
        checkSlots E ts xs = .ok (conformsSlots E ts xs)
    | .nil, _, .nil, _ => by simp [checkSlots, conformsSlots]
    | .nil, _, .cons _ _, hl => by simp [Vals.length, Tys.length] at hl
    | .cons _ _, _, .nil, hl => by simp [Vals.length, Tys.length] at hl
    | .cons t ts, h, .cons x xs, hl => by
      simp only [Tys.wf, Bool.and_eq_true] at h
      simp only [checkSlots, conformsSlots, checkType_ok E t h.1 x]
      have := checkSlots_ok E ts h.2 xs (by simpa [Vals.length, Tys.length] using hl)
      cases conforms E t x <;> simp [this]
end

/-! ## generations -/

/-- one more generation adds exactly its own predicate to the conjunction -/
theorem conforms_apply (E : Env) (g : Gen) (t : Ty) (v : Val) :
    conforms E (g.apply t) v = (conforms E t v && g.holds E v) := by
  cases g <;> simp [Gen.apply, Gen.holds, conforms, Bool.and_assoc]

/-- SPEC of a chain: the base and every generation's predicate -/
theorem conforms_chain (E : Env) (base : Ty) (v : Val) :
    ∀ gens : List Gen, conforms E (Ty.chain base gens) v = (conforms E base v && gens.all (Gen.holds E v))
  | [] => by simp [Ty.chain]
  | g :: gs => by
    simp only [Ty.chain, conforms_apply, conforms_chain E base v gs, List.all_cons]
    cases conforms E base v <;> cases g.holds E v <;> simp

theorem numeric_apply (g : Gen) (t : Ty) : (g.apply t).numeric = t.numeric := by
  cases g <;> simp [Gen.apply, Ty.numeric]

theorem numeric_chain (base : Ty) : ∀ gens : List Gen, (Ty.chain base gens).numeric = base.numeric
  | [] => rfl
  | g :: gs => by simp [Ty.chain, numeric_apply, numeric_chain base gs]

/-- any number of generations over a well-formed numeric base is well-formed -/
theorem wf_chain_of_numeric (base : Ty) (hwf : base.wf = true) (hn : base.numeric = true) :
    ∀ gens : List Gen, (Ty.chain base gens).wf = true
  | [] => hwf
  | g :: gs => by
    have ih := wf_chain_of_numeric base hwf hn gs
    have hnum := numeric_chain base gs
    cases g <;> simp [Ty.chain, Gen.apply, Ty.wf, ih, hnum, hn]

theorem holds_bnd_iff (E : Env) {v : Val} {x : Int} (hx : num v = some x) (ge gt le lt : Option Int) :
    (Gen.bnd ge gt le lt).holds E v = true ↔
      (∀ g, ge = some g → g ≤ x) ∧ (∀ g, gt = some g → g < x) ∧
      (∀ g, le = some g → x ≤ g) ∧ (∀ g, lt = some g → x < g) := by
  cases ge <;> cases gt <;> cases le <;> cases lt <;> simp [Gen.holds, boundOk, hx, and_assoc]

end SpecVerif.C15
