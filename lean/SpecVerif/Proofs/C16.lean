import SpecVerif.Model.C16
/-!
Helper lemmas for `Props/C16.lean` (core Lean only).
-/
set_option linter.unusedSectionVars false
set_option linter.unusedSimpArgs false
set_option linter.unusedVariables false
namespace SpecVerif.C16
open SpecVerif.Py

/-! ## `dedup` -/

theorem mem_dedup {l : List Name} {n : Name} : n ∈ dedup l ↔ n ∈ l := by
  induction l with
  | nil => simp [dedup]
  | cons x xs ih =>
    simp only [dedup, List.mem_cons, List.mem_filter, ih, bne_iff_ne, ne_eq]
    constructor
    · rintro (h | ⟨h, _⟩)
      · exact Or.inl h
      · exact Or.inr h
    · rintro (h | h)
      · exact Or.inl h
      · by_cases hx : n = x
        · exact Or.inl hx
        · exact Or.inr ⟨h, hx⟩

theorem nodup_dedup (l : List Name) : (dedup l).Nodup := by
  induction l with
  | nil => simp [dedup]
  | cons x xs ih =>
    simp only [dedup, List.nodup_cons]
    refine ⟨?_, ih.sublist List.filter_sublist⟩
    intro hm
    have := (List.mem_filter.1 hm).2
    simp at this

/-! ## ordered dictionaries -/

variable {β : Type}

theorem hasKey_iff {d : List (Name × β)} {n : Name} : hasKey d n = true ↔ n ∈ d.map (·.1) := by
  simp only [hasKey, List.any_eq_true, beq_iff_eq, List.mem_map]

theorem keys_dictSet (d : List (Name × β)) (n : Name) (v : β) :
    (dictSet d n v).map (·.1) = if hasKey d n then d.map (·.1) else d.map (·.1) ++ [n] := by
  unfold dictSet
  by_cases h : hasKey d n = true
  · have h' : d.any (fun p => p.1 == n) = true := h
    simp only [h', h, if_true, List.map_map]
    apply List.map_congr_left
    intro p _
    by_cases hp : p.1 = n
    · simp [hp]
    · simp [hp]
  · have h' : d.any (fun p => p.1 == n) = false := by
      cases hh : d.any (fun p => p.1 == n) with
      | true => exact absurd hh h
      | false => rfl
    simp [h', h]

theorem hasKey_dictSet (d : List (Name × β)) (n m : Name) (v : β) :
    hasKey (dictSet d n v) m = (hasKey d m || m == n) := by
  rw [Bool.eq_iff_iff, hasKey_iff, keys_dictSet]
  by_cases h : hasKey d n = true
  · simp only [h, if_true, Bool.or_eq_true, hasKey_iff, beq_iff_eq]
    constructor
    · exact Or.inl
    · rintro (h1 | rfl)
      · exact h1
      · exact hasKey_iff.1 h
  · simp only [h, Bool.false_eq_true, if_false, List.mem_append, List.mem_singleton,
      Bool.or_eq_true, hasKey_iff, beq_iff_eq]

theorem dictGet_dictSet (d : List (Name × β)) (n m : Name) (v : β) :
    dictGet (dictSet d n v) m = if m = n then some v else dictGet d m := by
  unfold dictSet dictGet
  by_cases h : d.any (fun p => p.1 == n) = true
  · simp only [h, if_true]
    induction d with
    | nil => simp at h
    | cons q qs ih =>
      simp only [List.map_cons, List.find?_cons]
      by_cases hq : (q.1 == n) = true
      · have hqn : q.1 = n := beq_iff_eq.1 hq
        simp only [hq, if_true]
        by_cases hm : m = n
        · simp [hm]
        · have : (n == m) = false := by simp [Ne.symm hm]
          simp only [this, hm, if_false]
          have hq' : (q.1 == m) = false := by rw [hqn]; exact this
          simp only [hq']
          -- the rest of the list: mapping only rewrites entries with key n ≠ m
          have : ∀ l : List (Name × β),
              (List.find? (fun p => p.1 == m) (l.map (fun p => if (p.1 == n) = true then (n, v) else p))) =
              List.find? (fun p => p.1 == m) l := by
            intro l
            induction l with
            | nil => rfl
            | cons r rs ihr =>
              simp only [List.map_cons, List.find?_cons]
              by_cases hr : (r.1 == n) = true
              · have hrn : r.1 = n := beq_iff_eq.1 hr
                have hr' : (r.1 == m) = false := by rw [hrn]; simp [Ne.symm hm]
                simp only [hr, if_true, hr', ihr]
                have : (n == m) = false := by simp [Ne.symm hm]
                simp [this]
              · simp only [hr, Bool.false_eq_true, if_false, ihr]
          rw [this]
      · simp only [hq, Bool.false_eq_true, if_false]
        have hrest : qs.any (fun p => p.1 == n) = true := by
          simp only [List.any_cons, Bool.or_eq_true] at h
          rcases h with h | h
          · exact absurd h hq
          · exact h
        by_cases hm : m = n
        · subst hm
          simp only [hq, if_true]
          have := ih hrest
          simp only [if_true] at this
          simpa using this
        · by_cases hqm : (q.1 == m) = true
          · simp [hqm, hm]
          · simp only [hqm, hm, if_false]
            have := ih hrest
            simp only [hm, if_false] at this
            exact this
  · have h' : d.any (fun p => p.1 == n) = false := by
      cases hh : d.any (fun p => p.1 == n) with
      | true => exact absurd hh h
      | false => rfl
    simp only [h', Bool.false_eq_true, if_false, List.find?_append]
    by_cases hm : m = n
    · subst hm
      have : List.find? (fun p => p.1 == m) d = none := by
        rw [List.find?_eq_none]
        intro p hp
        rw [List.any_eq_false] at h'
        simpa using h' p hp
      simp [this]
    · have : (n == m) = false := by simp [Ne.symm hm]
      simp only [hm, if_false]
      cases hf : List.find? (fun p => p.1 == m) d with
      | some q => simp
      | none => simp [List.find?_cons, this]

theorem dictGet_some_hasKey {d : List (Name × β)} {n : Name} {v : β} (h : dictGet d n = some v) :
    hasKey d n = true := by
  unfold dictGet at h
  cases hf : d.find? (fun p => p.1 == n) with
  | none => simp [hf] at h
  | some q =>
    have hq := List.find?_some hf
    have hm := List.mem_of_find?_eq_some hf
    simp only [hasKey, List.any_eq_true]
    exact ⟨q, hm, hq⟩

theorem dictGet_none_iff {d : List (Name × β)} {n : Name} : dictGet d n = none ↔ hasKey d n = false := by
  unfold dictGet hasKey
  simp only [Option.map_eq_none_iff, List.find?_eq_none, List.any_eq_false]

/-! ## `register` -/

theorem dictGet_register_ne (d : Dict) (n m : Name) (v : Val) (h : m ≠ n) :
    dictGet (register d n v) m = dictGet d m := by
  unfold register
  split
  · rfl
  · rw [dictGet_dictSet]; simp [h]

theorem dictGet_register_kept (d : Dict) (n : Name) (v w : Val)
    (hk : dictGet d n = some w) (hr : isReserved n = false) :
    dictGet (register d n v) n = some w := by
  unfold register
  rw [dictGet_some_hasKey hk, hr]
  simpa using hk

theorem dictGet_register_reserved (d : Dict) (n : Name) (v : Val) (hr : isReserved n = true) :
    dictGet (register d n v) n = some v := by
  unfold register
  simp [hr, dictGet_dictSet]

theorem dictGet_register_new (d : Dict) (n : Name) (v : Val) (hk : hasKey d n = false) :
    dictGet (register d n v) n = some v := by
  unfold register
  simp [hk, dictGet_dictSet]

theorem hasKey_register (d : Dict) (n m : Name) (v : Val) :
    hasKey (register d n v) m = (hasKey d m || m == n) := by
  unfold register
  split
  · rename_i h
    simp only [Bool.and_eq_true] at h
    rw [Bool.eq_iff_iff]
    simp only [Bool.or_eq_true, beq_iff_eq]
    constructor
    · exact Or.inl
    · rintro (h1 | rfl)
      · exact h1
      · exact h.1
  · exact hasKey_dictSet d n m v

/-- user-level view of folding `register` over a table -/
theorem foldl_register_kept (t : List (Name × Val)) :
    ∀ (d : Dict) (n : Name) (w : Val), dictGet d n = some w → isReserved n = false →
      dictGet (t.foldl (fun d p => register d p.1 p.2) d) n = some w := by
  induction t with
  | nil => intro d n w h _; exact h
  | cons p ps ih =>
    intro d n w h hr
    simp only [List.foldl_cons]
    apply ih _ _ _ _ hr
    by_cases hpn : n = p.1
    · subst hpn; exact dictGet_register_kept d _ p.2 w h hr
    · rw [dictGet_register_ne d p.1 n p.2 hpn]; exact h

theorem hasKey_foldl_register (t : List (Name × Val)) :
    ∀ (d : Dict) (m : Name),
      hasKey (t.foldl (fun d p => register d p.1 p.2) d) m = (hasKey d m || hasKey t m) := by
  induction t with
  | nil => intro d m; simp [hasKey]
  | cons p ps ih =>
    intro d m
    simp only [List.foldl_cons]
    rw [ih, hasKey_register]
    have : hasKey (p :: ps) m = ((m == p.1) || hasKey ps m) := by
      simp only [hasKey, List.any_cons]
      congr 1
      rw [Bool.eq_iff_iff]; simp only [beq_iff_eq]; exact eq_comm
    rw [this, Bool.or_assoc]

/-- a table entry whose key is new to the dict (or reserved) ends up in the dict,
provided the table's keys are distinct -/
theorem foldl_register_installs (t : List (Name × Val)) :
    ∀ (d : Dict) (n : Name) (v : Val), (t.map (·.1)).Nodup → (n, v) ∈ t →
      (hasKey d n = false ∨ isReserved n = true) →
      dictGet (t.foldl (fun d p => register d p.1 p.2) d) n = some v := by
  induction t with
  | nil => intro d n v _ h; cases h
  | cons p ps ih =>
    intro d n v hnd hmem hnew
    simp only [List.map_cons, List.nodup_cons] at hnd
    simp only [List.foldl_cons]
    rcases List.mem_cons.1 hmem with heq | hin
    · subst heq
      -- installed now; no later entry has the same key
      have hnow : dictGet (register d n v) n = some v := by
        rcases hnew with h | h
        · exact dictGet_register_new d n v h
        · exact dictGet_register_reserved d n v h
      clear ih
      have : ∀ (qs : List (Name × Val)) (d' : Dict), n ∉ qs.map (·.1) → dictGet d' n = some v →
          dictGet (qs.foldl (fun d p => register d p.1 p.2) d') n = some v := by
        intro qs
        induction qs with
        | nil => intro d' _ h; exact h
        | cons q qs ihq =>
          intro d' hnot h
          simp only [List.map_cons, List.mem_cons, not_or] at hnot
          simp only [List.foldl_cons]
          apply ihq _ hnot.2
          rw [dictGet_register_ne _ _ _ _ hnot.1]; exact h
      exact this ps _ hnd.1 hnow
    · have hne : n ≠ p.1 := by
        intro h; apply hnd.1; rw [← h]; exact List.mem_map.2 ⟨(n, v), hin, rfl⟩
      apply ih _ _ _ hnd.2 hin
      rcases hnew with h | h
      · left
        rw [hasKey_register, h]; simp [hne]
      · exact Or.inr h

/-! ## helper-name prefixes -/

def allPrefixes : List Name := [pWith, pUpdate, pTransform, pReset, pWithout]

/-- prefix ++ base is injective in both components over the five helper prefixes -/
theorem prefix_inj {p1 p2 x1 x2 : Name} (h1 : p1 ∈ allPrefixes) (h2 : p2 ∈ allPrefixes)
    (h : p1 ++ x1 = p2 ++ x2) : p1 = p2 ∧ x1 = x2 := by
  simp only [allPrefixes, List.mem_cons, List.mem_nil_iff, or_false] at h1 h2
  rcases h1 with rfl | rfl | rfl | rfl | rfl <;> rcases h2 with rfl | rfl | rfl | rfl | rfl <;>
    simp_all [pWith, pUpdate, pTransform, pReset, pWithout]

theorem scalarPrefixes_sub {p : Name} (h : p ∈ scalarPrefixes) : p ∈ allPrefixes := by
  simp only [scalarPrefixes, allPrefixes, List.mem_cons, List.mem_nil_iff, or_false] at *
  rcases h with h | h | h | h <;> simp [h]

theorem elemPrefixes_sub {p : Name} (h : p ∈ elemPrefixes) : p ∈ allPrefixes := by
  simp only [elemPrefixes, allPrefixes, List.mem_cons, List.mem_nil_iff, or_false] at *
  rcases h with h | h | h | h <;> simp [h]

/-- a helper name never starts with an underscore … -/
theorem prefix_head {p x : Name} (h : p ∈ allPrefixes) : ∃ c t, p ++ x = c :: t ∧ c ≠ '_' := by
  simp only [allPrefixes, List.mem_cons, List.mem_nil_iff, or_false] at h
  rcases h with rfl | rfl | rfl | rfl | rfl <;>
    simp [pWith, pUpdate, pTransform, pReset, pWithout]

/-- … and is never one of the three top-level names -/
theorem prefix_ne_toplevel {p x : Name} (h : p ∈ allPrefixes) :
    p ++ x ≠ nUpdate ∧ p ++ x ≠ nTransform ∧ p ++ x ≠ nReset := by
  simp only [allPrefixes, List.mem_cons, List.mem_nil_iff, or_false] at h
  rcases h with rfl | rfl | rfl | rfl | rfl <;>
    simp [pWith, pUpdate, pTransform, pReset, pWithout, nUpdate, nTransform, nReset]

theorem inj_of_nodup_map {γ δ : Type} {f : γ → δ} :
    ∀ {l : List γ}, (l.map f).Nodup → ∀ {a b : γ}, a ∈ l → b ∈ l → f a = f b → a = b := by
  intro l
  induction l with
  | nil => intro _ a b ha; cases ha
  | cons x xs ih =>
    intro hnd a b ha hb hab
    simp only [List.map_cons, List.nodup_cons] at hnd
    rcases List.mem_cons.1 ha with rfl | ha' <;> rcases List.mem_cons.1 hb with rfl | hb'
    · rfl
    · exact absurd (List.mem_map.2 ⟨b, hb', hab.symm⟩) hnd.1
    · exact absurd (List.mem_map.2 ⟨a, ha', hab⟩) hnd.1
    · exact ih hnd.2 ha' hb' hab

/-! ## the method table -/

def setAll (t : List (Name × Val)) (ps : List (Name × GenId)) : List (Name × Val) :=
  ps.foldl (fun t p => dictSet t p.1 (Val.lazy p.2)) t

theorem methodTable_eq (c : Cls) (as : List AttrInfo) :
    methodTable c as = setAll (tableStart c) (ownedHelpers as) := rfl

theorem hasKey_setAll (ps : List (Name × GenId)) :
    ∀ (t : List (Name × Val)) (m : Name), hasKey (setAll t ps) m = (hasKey t m || hasKey ps m) := by
  induction ps with
  | nil => intro t m; simp [setAll, hasKey]
  | cons p ps ih =>
    intro t m
    simp only [setAll, List.foldl_cons]
    have := ih (dictSet t p.1 (Val.lazy p.2)) m
    simp only [setAll] at this
    rw [this, hasKey_dictSet]
    have h2 : hasKey (p :: ps) m = ((m == p.1) || hasKey ps m) := by
      simp only [hasKey, List.any_cons]
      congr 1
      rw [Bool.eq_iff_iff]; simp only [beq_iff_eq]; exact eq_comm
    rw [h2, Bool.or_assoc]

theorem keys_nodup_dictSet {t : List (Name × β)} (h : (t.map (·.1)).Nodup) (n : Name) (v : β) :
    ((dictSet t n v).map (·.1)).Nodup := by
  rw [keys_dictSet]
  by_cases hk : hasKey t n = true
  · simp [hk, h]
  · simp only [hk, Bool.false_eq_true, if_false]
    rw [List.nodup_append]
    refine ⟨h, by simp, ?_⟩
    intro a ha b hb
    simp at hb; subst hb
    intro hab; subst hab
    exact hk (hasKey_iff.2 ha)

theorem keys_nodup_setAll (ps : List (Name × GenId)) :
    ∀ (t : List (Name × Val)), (t.map (·.1)).Nodup → ((setAll t ps).map (·.1)).Nodup := by
  induction ps with
  | nil => intro t h; exact h
  | cons p ps ih =>
    intro t h
    simp only [setAll, List.foldl_cons]
    exact ih _ (keys_nodup_dictSet h _ _)

theorem dictGet_setAll_notin (ps : List (Name × GenId)) :
    ∀ (t : List (Name × Val)) (m : Name), hasKey ps m = false → dictGet (setAll t ps) m = dictGet t m := by
  induction ps with
  | nil => intro t m _; rfl
  | cons p ps ih =>
    intro t m h
    simp only [hasKey, List.any_cons, Bool.or_eq_false_iff] at h
    simp only [setAll, List.foldl_cons]
    have := ih (dictSet t p.1 (Val.lazy p.2)) m h.2
    simp only [setAll] at this
    rw [this, dictGet_dictSet]
    have : m ≠ p.1 := by intro hh; rw [hh] at h; simp at h
    simp [this]

/-- with distinct keys in `ps`, each of them ends up holding its own descriptor -/
theorem dictGet_setAll_mem (ps : List (Name × GenId)) :
    ∀ (t : List (Name × Val)) (m : Name) (g : GenId), (ps.map (·.1)).Nodup → (m, g) ∈ ps →
      dictGet (setAll t ps) m = some (Val.lazy g) := by
  induction ps with
  | nil => intro t m g _ h; cases h
  | cons p ps ih =>
    intro t m g hnd hm
    simp only [List.map_cons, List.nodup_cons] at hnd
    simp only [setAll, List.foldl_cons]
    rcases List.mem_cons.1 hm with heq | hin
    · subst heq
      have hnot : hasKey ps m = false := by
        rw [Bool.eq_false_iff]; intro hk; exact hnd.1 (hasKey_iff.1 hk)
      have := dictGet_setAll_notin ps (dictSet t m (Val.lazy g)) m hnot
      simp only [setAll] at this
      rw [this, dictGet_dictSet]; simp
    · have := ih (dictSet t p.1 (Val.lazy p.2)) m g hnd.2 hin
      simpa [setAll] using this

theorem mem_dictSet {t : List (Name × β)} {n m : Name} {v w : β} (h : (m, w) ∈ dictSet t n v) :
    (m, w) ∈ t ∨ (m, w) = (n, v) := by
  unfold dictSet at h
  split at h
  · obtain ⟨q, hq, hqe⟩ := List.mem_map.1 h
    by_cases hc : (q.1 == n) = true
    · simp only [hc, if_true] at hqe; exact Or.inr hqe.symm
    · simp only [hc, Bool.false_eq_true, if_false] at hqe; subst hqe; exact Or.inl hq
  · rcases List.mem_append.1 h with h | h
    · exact Or.inl h
    · simp at h; exact Or.inr (by rw [h.1, h.2])

theorem mem_setAll (ps : List (Name × GenId)) :
    ∀ (t : List (Name × Val)) (m : Name) (w : Val), (m, w) ∈ setAll t ps →
      (m, w) ∈ t ∨ ∃ g, w = Val.lazy g ∧ (m, g) ∈ ps := by
  induction ps with
  | nil => intro t m w h; exact Or.inl h
  | cons p ps ih =>
    intro t m w h
    simp only [setAll, List.foldl_cons] at h
    rcases ih _ m w h with h1 | ⟨g, hg, hm⟩
    · rcases mem_dictSet h1 with h2 | h2
      · exact Or.inl h2
      · injection h2 with h3 h4
        exact Or.inr ⟨p.2, h4, by rw [h3]; exact List.mem_cons_self⟩
    · exact Or.inr ⟨g, hg, List.mem_cons_of_mem _ hm⟩

theorem dictGet_mem {d : List (Name × β)} {n : Name} {v : β} (h : dictGet d n = some v) : (n, v) ∈ d := by
  unfold dictGet at h
  cases hf : d.find? (fun p => p.1 == n) with
  | none => simp [hf] at h
  | some q =>
    simp only [hf, Option.map_some, Option.some.injEq] at h
    have hq := List.find?_some hf
    have hm := List.mem_of_find?_eq_some hf
    simp only [beq_iff_eq] at hq
    have : q = (n, v) := by cases q; simp_all
    rw [← this]; exact hm

/-- every value of the decorated dict is a value of the body or an entry of the table -/
theorem foldl_register_origin (t : List (Name × Val)) :
    ∀ (d : Dict) (n : Name) (v : Val),
      dictGet (t.foldl (fun d p => register d p.1 p.2) d) n = some v →
      dictGet d n = some v ∨ (n, v) ∈ t := by
  induction t with
  | nil => intro d n v h; exact Or.inl h
  | cons p ps ih =>
    intro d n v h
    simp only [List.foldl_cons] at h
    rcases ih _ n v h with h1 | h1
    · unfold register at h1
      split at h1
      · exact Or.inl h1
      · rw [dictGet_dictSet] at h1
        by_cases hn : n = p.1
        · simp only [hn, if_true, Option.some.injEq] at h1
          right; rw [hn, ← h1]; exact List.mem_cons_self
        · simp only [hn, if_false] at h1; exact Or.inl h1
    · exact Or.inr (List.mem_cons_of_mem _ h1)

/-! ## the collision loop -/

theorem resolveGo_error {names : List Name} :
    ∀ (as : List AttrInfo) (taken : List Name) (e : Err),
      resolveGo names as taken = .error e → e = .runtimeError := by
  intro as
  induction as with
  | nil => intro taken e h; simp [resolveGo] at h
  | cons a rest ih =>
    intro taken e h
    unfold resolveGo at h
    split at h
    · split at h
      · cases h
      · rename_i e' he; injection h with h; subst h; exact ih _ _ he
    · simp only at h
      split at h
      · injection h with h; exact h.symm
      · split at h
        · cases h
        · rename_i e' he; injection h with h; subst h; exact ih _ _ he

structure Resolved (names : List Name) (as as' : List AttrInfo) (taken : List Name) : Prop where
  sameNames : as'.map (·.name) = as.map (·.name)
  sameRest : as'.map (fun a => (a.name, a.kind, a.owned, a.helpers)) =
             as.map (fun a => (a.name, a.kind, a.owned, a.helpers))
  fresh : ∀ a ∈ as', a.kind.isCollection = true → a.item ∉ names ∧ a.item ∉ taken
  nodup : ((as'.filter (·.kind.isCollection)).map (·.item)).Nodup

theorem resolveGo_spec {names : List Name} :
    ∀ (as : List AttrInfo) (taken : List Name) (as' : List AttrInfo),
      resolveGo names as taken = .ok as' → Resolved names as as' taken := by
  intro as
  induction as with
  | nil =>
    intro taken as' h
    simp [resolveGo] at h; subst h
    exact ⟨rfl, rfl, (fun a ha => by cases ha), List.nodup_nil⟩
  | cons a rest ih =>
    intro taken as' h
    unfold resolveGo at h
    by_cases hc : a.kind.isCollection = true
    · simp only [hc, Bool.not_true, Bool.false_eq_true, if_false] at h
      split at h
      · cases h
      · rename_i hfail
        cases hr : resolveGo names rest (taken ++ [if (names.contains a.item || taken.contains a.item) = true
            then a.name ++ itemSuffix else a.item]) with
        | error e => rw [hr] at h; cases h
        | ok r =>
          rw [hr] at h
          injection h with h; subst h
          have R := ih _ _ hr
          -- the item name chosen for `a`
          have hit : ∀ it, it = (if (names.contains a.item || taken.contains a.item) = true
              then a.name ++ itemSuffix else a.item) → it ∉ names ∧ it ∉ taken := by
            intro it hdef
            by_cases hcol : (names.contains a.item || taken.contains a.item) = true
            · simp only [hcol, if_true] at hdef
              simp only [hcol, Bool.true_and] at hfail
              subst hdef
              simpa [not_or] using hfail
            · simp only [hcol, Bool.false_eq_true, if_false] at hdef
              subst hdef
              simpa [not_or] using hcol
          refine ⟨by simp [R.sameNames], by simp [R.sameRest], ?_, ?_⟩
          · intro x hx hxc
            rcases List.mem_cons.1 hx with rfl | hx
            · exact hit _ rfl
            · have := R.fresh x hx hxc
              exact ⟨this.1, fun ht => this.2 (List.mem_append.2 (Or.inl ht))⟩
          · simp only [List.filter_cons, hc, if_true, List.map_cons, List.nodup_cons]
            refine ⟨?_, R.nodup⟩
            intro hm
            obtain ⟨x, hx, hxi⟩ := List.mem_map.1 hm
            have hx' := List.mem_filter.1 hx
            have := (R.fresh x hx'.1 hx'.2).2
            apply this
            rw [hxi]
            exact List.mem_append.2 (Or.inr (List.mem_singleton.2 rfl))
    · simp only [hc, Bool.not_false, if_true] at h
      cases hr : resolveGo names rest taken with
      | error e => rw [hr] at h; cases h
      | ok r =>
        rw [hr] at h
        injection h with h; subst h
        have R := ih _ _ hr
        refine ⟨by simp [R.sameNames], by simp [R.sameRest], ?_, ?_⟩
        · intro x hx hxc
          rcases List.mem_cons.1 hx with rfl | hx
          · exact absurd hxc hc
          · exact R.fresh x hx hxc
        · simp only [List.filter_cons, hc, Bool.false_eq_true, if_false]
          exact R.nodup

/-- which item name the loop hands out: the attribute's own (singular) one, or —
only for a collection whose own one is an attribute name, was taken before the
loop started, or is the item name some collection ended up with — `<attr>_item` -/
theorem resolveGo_choice {names : List Name} :
    ∀ (as : List AttrInfo) (taken : List Name) (as' : List AttrInfo),
      resolveGo names as taken = .ok as' →
      ∀ a' ∈ as', ∃ a ∈ as, a'.name = a.name ∧ a'.kind = a.kind ∧ a'.owned = a.owned ∧
        a'.helpers = a.helpers ∧
        (a'.item = a.item ∨
         (a.kind.isCollection = true ∧ a'.item = a.name ++ itemSuffix ∧
          (a.item ∈ names ∨ a.item ∈ taken ∨
            ∃ b' ∈ as', b'.kind.isCollection = true ∧ b'.item = a.item))) := by
  intro as
  induction as with
  | nil =>
    intro taken as' h
    simp [resolveGo] at h; subst h
    intro a' ha'; cases ha'
  | cons a rest ih =>
    intro taken as' h
    unfold resolveGo at h
    by_cases hc : a.kind.isCollection = true
    · simp only [hc, Bool.not_true, Bool.false_eq_true, if_false] at h
      split at h
      · cases h
      · rename_i hfail
        cases hr : resolveGo names rest (taken ++ [if (names.contains a.item || taken.contains a.item) = true
            then a.name ++ itemSuffix else a.item]) with
        | error e => rw [hr] at h; cases h
        | ok r =>
          rw [hr] at h
          injection h with h; subst h
          intro a' ha'
          rcases List.mem_cons.1 ha' with rfl | hin
          · refine ⟨a, List.mem_cons_self, rfl, rfl, rfl, rfl, ?_⟩
            by_cases hcol : (names.contains a.item || taken.contains a.item) = true
            · right
              refine ⟨hc, if_pos hcol, ?_⟩
              simp only [Bool.or_eq_true, List.contains_eq_mem, decide_eq_true_eq] at hcol
              rcases hcol with h1 | h1
              · exact Or.inl h1
              · exact Or.inr (Or.inl h1)
            · left; exact if_neg hcol
          · obtain ⟨a0, ha0, h1, h2, h3, h4, h5⟩ := ih _ _ hr a' hin
            refine ⟨a0, List.mem_cons_of_mem _ ha0, h1, h2, h3, h4, ?_⟩
            rcases h5 with h5 | ⟨hk, hfb, hw⟩
            · exact Or.inl h5
            · right
              refine ⟨hk, hfb, ?_⟩
              rcases hw with hw | hw | ⟨b', hb', hbk, hbi⟩
              · exact Or.inl hw
              · rcases List.mem_append.1 hw with hw | hw
                · exact Or.inr (Or.inl hw)
                · right; right
                  refine ⟨_, List.mem_cons_self, hc, ?_⟩
                  exact (List.mem_singleton.1 hw).symm
              · exact Or.inr (Or.inr ⟨b', List.mem_cons_of_mem _ hb', hbk, hbi⟩)
    · simp only [hc, Bool.not_false, if_true] at h
      cases hr : resolveGo names rest taken with
      | error e => rw [hr] at h; cases h
      | ok r =>
        rw [hr] at h
        injection h with h; subst h
        intro a' ha'
        rcases List.mem_cons.1 ha' with rfl | hin
        · exact ⟨a', List.mem_cons_self, rfl, rfl, rfl, rfl, Or.inl rfl⟩
        · obtain ⟨a0, ha0, h1, h2, h3, h4, h5⟩ := ih _ _ hr a' hin
          refine ⟨a0, List.mem_cons_of_mem _ ha0, h1, h2, h3, h4, ?_⟩
          rcases h5 with h5 | ⟨hk, hfb, hw⟩
          · exact Or.inl h5
          · right
            refine ⟨hk, hfb, ?_⟩
            rcases hw with hw | hw | ⟨b', hb', hbk, hbi⟩
            · exact Or.inl hw
            · exact Or.inr (Or.inl hw)
            · exact Or.inr (Or.inr ⟨b', List.mem_cons_of_mem _ hb', hbk, hbi⟩)

/-- a prefix of the list whose collections cannot collide — their item names are
no attribute names, were not taken, and are pairwise distinct — leaves the loop
exactly as it entered it, whatever follows -/
theorem resolveGo_prefix_kept {names : List Name} :
    ∀ (pre post : List AttrInfo) (taken : List Name) (as' : List AttrInfo),
      resolveGo names (pre ++ post) taken = .ok as' →
      (∀ a ∈ pre, a.kind.isCollection = true → a.item ∉ names ∧ a.item ∉ taken) →
      ((pre.filter (·.kind.isCollection)).map (·.item)).Nodup →
      ∃ post', as' = pre ++ post' := by
  intro pre
  induction pre with
  | nil => intro post taken as' _ _ _; exact ⟨as', rfl⟩
  | cons a pre ih =>
    intro post taken as' h hq hnd
    rw [List.cons_append] at h
    unfold resolveGo at h
    by_cases hc : a.kind.isCollection = true
    · simp only [hc, Bool.not_true, Bool.false_eq_true, if_false] at h
      obtain ⟨h1, h2⟩ := hq a List.mem_cons_self hc
      have hcol : ¬ (names.contains a.item || taken.contains a.item) = true := by simp [h1, h2]
      simp only [List.filter_cons, hc, if_true, List.map_cons, List.nodup_cons] at hnd
      split at h
      · cases h
      · try rw [if_neg hcol] at h
        cases hr : resolveGo names (pre ++ post) (taken ++ [a.item]) with
        | error e => rw [hr] at h; cases h
        | ok r =>
          rw [hr] at h
          injection h with h; subst h
          obtain ⟨post', hp⟩ := ih post _ r hr (by
            intro b hb hbc
            obtain ⟨g1, g2⟩ := hq b (List.mem_cons_of_mem _ hb) hbc
            refine ⟨g1, ?_⟩
            intro hm
            rcases List.mem_append.1 hm with hm | hm
            · exact g2 hm
            · apply hnd.1
              rw [← List.mem_singleton.1 hm]
              exact List.mem_map.2 ⟨b, List.mem_filter.2 ⟨hb, hbc⟩, rfl⟩) hnd.2
          exact ⟨post', by rw [hp]; rfl⟩
    · simp only [hc, Bool.not_false, if_true] at h
      have hnd' : ((pre.filter (·.kind.isCollection)).map (·.item)).Nodup := by
        simpa [List.filter_cons, hc] using hnd
      cases hr : resolveGo names (pre ++ post) taken with
      | error e => rw [hr] at h; cases h
      | ok r =>
        rw [hr] at h
        injection h with h; subst h
        obtain ⟨post', hp⟩ := ih post _ r hr
          (fun b hb hbc => hq b (List.mem_cons_of_mem _ hb) hbc) hnd'
        exact ⟨post', by rw [hp]; rfl⟩

/-! ## `mergedAttrs` -/

/-- the `Attr` built for a name the class manages itself -/
def mkOwn (singular : Name → Option Name) (c : Cls) (a : Name) : AttrInfo :=
  ⟨a, attrKind c a, itemName0 singular a, true, true⟩

/-- the inherited attributes as they enter the collision loop, in the parent's
order: carried over, or (when the class manages the name again) rebuilt in place -/
def inheritedPart (singular : Name → Option Name) (c : Cls) : List AttrInfo :=
  c.inherited.map (fun i =>
    if (managedAttrs c).contains i.name then mkOwn singular c i.name
    else ⟨i.name, i.kind, i.item, false, true⟩)

/-- `metadata.attrs` before the un-managed key attribute is added -/
def mergedBase (singular : Name → Option Name) (c : Cls) : List AttrInfo :=
  inheritedPart singular c ++
  ((managedAttrs c).filter (fun a => !(c.inherited.map (·.name)).contains a)).map (mkOwn singular c)

def mergedKey (singular : Name → Option Name) (c : Cls) : List AttrInfo :=
  match c.key with
  | some k => if ((mergedBase singular c).map (·.name)).contains k then []
              else [⟨k, attrKind c k, itemName0 singular k, true, false⟩]
  | none => []

theorem mergedAttrs_eq (singular : Name → Option Name) (c : Cls) :
    mergedAttrs singular c = mergedBase singular c ++ mergedKey singular c := by
  unfold mergedAttrs mergedKey mergedBase inheritedPart mkOwn
  cases c.key with
  | none => simp
  | some k =>
    simp only
    split <;> simp

theorem mergedBase_names (singular : Name → Option Name) (c : Cls) :
    (mergedBase singular c).map (·.name) =
      c.inherited.map (·.name) ++
        (managedAttrs c).filter (fun a => !(c.inherited.map (·.name)).contains a) := by
  unfold mergedBase inheritedPart
  rw [List.map_append, List.map_map, List.map_map]
  congr 1
  · apply List.map_congr_left
    intro i _
    simp only [Function.comp]
    split <;> rfl
  · conv => rhs; rw [← List.map_id (List.filter _ _)]
    apply List.map_congr_left
    intro a _
    rfl

theorem mergedAttrs_names_nodup (singular : Name → Option Name) (c : Cls)
    (h : (c.inherited.map (·.name)).Nodup) : ((mergedAttrs singular c).map (·.name)).Nodup := by
  have hbase : ((mergedBase singular c).map (·.name)).Nodup := by
    rw [mergedBase_names, List.nodup_append]
    refine ⟨h, (nodup_dedup _).sublist List.filter_sublist, ?_⟩
    intro a ha b hb hab
    subst hab
    have := (List.mem_filter.1 hb).2
    simp [ha] at this
  rw [mergedAttrs_eq, List.map_append]
  unfold mergedKey
  cases c.key with
  | none => simpa using hbase
  | some k =>
    simp only
    split
    · simpa using hbase
    · rename_i hnot
      rw [List.nodup_append]
      refine ⟨hbase, by simp, ?_⟩
      intro a ha b hb hab
      simp at hb; subst hb; subst hab
      apply hnot
      simpa using ha

/-- an owned attribute enters the collision loop with its singular form as item name -/
theorem mergedAttrs_owned (singular : Name → Option Name) (c : Cls) :
    ∀ x ∈ mergedAttrs singular c, x.owned = true → x.item = itemName0 singular x.name := by
  intro x hx ho
  rw [mergedAttrs_eq] at hx
  rcases List.mem_append.1 hx with hx | hx
  · unfold mergedBase inheritedPart at hx
    rcases List.mem_append.1 hx with hx | hx
    · obtain ⟨i, _, rfl⟩ := List.mem_map.1 hx
      by_cases hc : (managedAttrs c).contains i.name = true
      · rw [if_pos hc]; rfl
      · rw [if_neg hc] at ho; cases ho
    · obtain ⟨a, _, rfl⟩ := List.mem_map.1 hx
      rfl
  · unfold mergedKey at hx
    cases hk : c.key with
    | none => rw [hk] at hx; cases hx
    | some k =>
      rw [hk] at hx
      simp only at hx
      split at hx
      · cases hx
      · simp at hx; subst hx; rfl

/-- an inherited attribute the class does not manage again enters the loop as the parent left it -/
theorem inheritedPart_kept (singular : Name → Option Name) (c : Cls) {i : Inherited}
    (hi : i ∈ c.inherited) (hnot : (managedAttrs c).contains i.name = false) :
    (⟨i.name, i.kind, i.item, false, true⟩ : AttrInfo) ∈ inheritedPart singular c := by
  unfold inheritedPart
  apply List.mem_map.2
  refine ⟨i, hi, ?_⟩
  have : ¬ (managedAttrs c).contains i.name = true := by rw [hnot]; simp
  rw [if_neg this]

/-- the inherited attributes are the FIRST to go through the collision loop -/
theorem mergedAttrs_prefix (singular : Name → Option Name) (c : Cls) :
    ∃ rest, mergedAttrs singular c = inheritedPart singular c ++ rest := by
  rw [mergedAttrs_eq]
  unfold mergedBase
  exact ⟨_, List.append_assoc _ _ _⟩

/-! ## lemmas used directly by `Props/C16.lean` -/

theorem decorate_ok (singular : Name → Option Name) {c : Cls} {d : Decorated}
    (h : decorate singular c = .ok d) :
    ctorCheck c = true ∧ resolveItems (mergedAttrs singular c) = .ok d.attrs ∧
    d.dict = (methodTable c d.attrs).foldl (fun d p => register d p.1 p.2)
      (consumeDecls (specNames c) c.entries) := by
  unfold decorate at h
  by_cases hc : ctorCheck c = true
  · simp only [hc, Bool.not_true, Bool.false_eq_true, if_false] at h
    cases hr : resolveItems (mergedAttrs singular c) with
    | error e => rw [hr] at h; cases h
    | ok as =>
      rw [hr] at h
      injection h with h
      subst h
      exact ⟨hc, rfl, rfl⟩
  · simp [hc] at h

theorem dictGet_consumeDecls {managed : List Name} {es : List (Name × Entry)}
    (hnd : (es.map (·.1)).Nodup) {n : Name} {e : Entry} (hm : (n, e) ∈ es) :
    dictGet (consumeDecls managed es) n =
      some (if managed.contains n && e.isDecl then Val.dflt e.declDefault else Val.user e) := by
  induction es with
  | nil => cases hm
  | cons q qs ih =>
    simp only [List.map_cons, List.nodup_cons] at hnd
    simp only [consumeDecls, List.map_cons, dictGet, List.find?_cons]
    rcases List.mem_cons.1 hm with heq | hin
    · subst heq
      simp
    · have hne : q.1 ≠ n := by
        intro h; apply hnd.1; rw [h]; exact List.mem_map.2 ⟨(n, e), hin, rfl⟩
      have hq : (q.1 == n) = false := by simp [hne]
      simp only [hq]
      have := ih hnd.2 hin
      simpa [consumeDecls, dictGet] using this

theorem tableStart_keys_nodup (c : Cls) : ((tableStart c).map (·.1)).Nodup := by
  unfold tableStart coreMethods toplevel
  cases c.init <;> cases c.repr <;> cases c.eq <;> decide

theorem methodTable_keys_nodup (c : Cls) (as : List AttrInfo) :
    ((methodTable c as).map (·.1)).Nodup :=
  keys_nodup_setAll _ _ (tableStart_keys_nodup c)

theorem helperNames_prefix {a : AttrInfo} {hn : Name × GenId} (h : hn ∈ helperNames a) :
    ∃ p x, p ∈ allPrefixes ∧ hn.1 = p ++ x ∧
      ((x = a.name ∧ p ∈ scalarPrefixes ∧ hn.2 = .scalar p a.name) ∨
       (x = a.item ∧ p ∈ elemPrefixes ∧ a.kind.isCollection = true ∧ hn.2 = .elem p a.name)) := by
  unfold helperNames at h
  split at h
  · rcases List.mem_append.1 h with hs | he
    · simp only [scalarHelpers, List.mem_map] at hs
      obtain ⟨p, hp, rfl⟩ := hs
      exact ⟨p, a.name, scalarPrefixes_sub hp, rfl, Or.inl ⟨rfl, hp, rfl⟩⟩
    · unfold elemHelpers at he
      split at he
      · rename_i hc
        simp only [List.mem_map] at he
        obtain ⟨p, hp, rfl⟩ := he
        exact ⟨p, a.item, elemPrefixes_sub hp, rfl, Or.inr ⟨rfl, hp, hc, rfl⟩⟩
      · cases he
  · cases h

/-- a helper name is never a core (dunder) name nor a top-level name -/
theorem helper_not_start {c : Cls} {a : AttrInfo} {hn : Name × GenId} (h : hn ∈ helperNames a) :
    hasKey (tableStart c) hn.1 = false := by
  obtain ⟨p, x, hp, hname, _⟩ := helperNames_prefix h
  obtain ⟨ch, t, hct, hne⟩ := prefix_head (x := x) hp
  obtain ⟨h1, h2, h3⟩ := prefix_ne_toplevel (x := x) hp
  rw [Bool.eq_false_iff]
  intro hk
  rw [hasKey_iff] at hk
  simp only [tableStart, List.map_append, List.map_map, List.mem_append, List.mem_map,
    Function.comp] at hk
  rcases hk with ⟨q, hq, hqn⟩ | ⟨q, hq, hqn⟩
  · -- core names start with an underscore
    have : ∃ t', q.1 = '_' :: t' := by
      simp only [coreMethods, List.mem_append, List.mem_cons, List.mem_nil_iff, or_false] at hq
      rcases hq with ((hq | hq) | hq) | hq
      · split at hq
        · simp at hq; subst hq; exact ⟨_, rfl⟩
        · cases hq
      · split at hq
        · simp at hq; subst hq; exact ⟨_, rfl⟩
        · cases hq
      · split at hq
        · simp at hq; subst hq; exact ⟨_, rfl⟩
        · cases hq
      · rcases hq with rfl | rfl | rfl | rfl | rfl | rfl | rfl <;> exact ⟨_, rfl⟩
    obtain ⟨t', ht'⟩ := this
    rw [hname, hct] at hqn
    rw [ht'] at hqn
    injection hqn with hc _
    exact hne hc.symm
  · simp only [toplevel, List.mem_cons, List.mem_nil_iff, or_false] at hq
    rw [hname] at hqn
    rcases hq with rfl | rfl | rfl
    · exact h1 hqn.symm
    · exact h2 hqn.symm
    · exact h3 hqn.symm

end SpecVerif.C16
