import SpecVerif.Model.C17
/-!
Helper lemmas for `Props/C17.lean` (core Lean only).
-/
set_option linter.unusedSectionVars false
set_option linter.unusedSimpArgs false
set_option linter.unusedVariables false
namespace SpecVerif.C17
open SpecVerif.Py

variable {α : Type}

/-! ## `nodupB`, `contains` -/

theorem nodupB_iff (l : List Name) : nodupB l = true ↔ l.Nodup := by
  induction l with
  | nil => simp [nodupB]
  | cons x xs ih => simp [nodupB, ih, List.nodup_cons]

/-! ## signature fragments over `++` -/

theorem names_append (a b : Sig) : names (a ++ b) = names a ++ names b := by simp [names]
theorem posNames_append (a b : Sig) : posNames (a ++ b) = posNames a ++ posNames b := by
  simp [posNames]
theorem namedNames_append (a b : Sig) : namedNames (a ++ b) = namedNames a ++ namedNames b := by
  simp [namedNames]
theorem hasVarPos_append (a b : Sig) : hasVarPos (a ++ b) = (hasVarPos a || hasVarPos b) := by
  simp [hasVarPos]
theorem hasVarKw_append (a b : Sig) : hasVarKw (a ++ b) = (hasVarKw a || hasVarKw b) := by
  simp [hasVarKw]

/-- a list of keyword-only / `**` parameters (what `method_args_virtual` holds, and the `kwargs` collector) -/
def KwTail (x : Sig) : Prop := ∀ p ∈ x, p.kind = .kwOnly ∨ p.kind = .varKw

theorem posNames_kwTail {x : Sig} (h : KwTail x) : posNames x = [] := by
  unfold posNames
  rw [List.map_eq_nil_iff, List.filter_eq_nil_iff]
  intro p hp
  rcases h p hp with hk | hk <;> simp [hk, Kind.isPositional]

theorem hasVarPos_kwTail {x : Sig} (h : KwTail x) : hasVarPos x = false := by
  unfold hasVarPos
  rw [List.any_eq_false]
  intro p hp
  rcases h p hp with hk | hk <;> simp [hk]

theorem mem_names {s : Sig} {n : Name} : n ∈ names s ↔ ∃ p ∈ s, p.name = n := by
  simp [names]

theorem mem_namedNames {s : Sig} {n : Name} :
    n ∈ namedNames s ↔ ∃ p ∈ s, p.kind.isNamed = true ∧ p.name = n := by
  simp [namedNames, and_assoc]

theorem mem_posNames {s : Sig} {n : Name} :
    n ∈ posNames s ↔ ∃ p ∈ s, p.kind.isPositional = true ∧ p.name = n := by
  simp [posNames, and_assoc]

theorem namedNames_sub_names {s : Sig} {n : Name} (h : n ∈ namedNames s) : n ∈ names s := by
  obtain ⟨p, hp, _, hn⟩ := mem_namedNames.1 h
  exact mem_names.2 ⟨p, hp, hn⟩

theorem posNames_sub_names {s : Sig} {n : Name} (h : n ∈ posNames s) : n ∈ names s := by
  obtain ⟨p, hp, _, hn⟩ := mem_posNames.1 h
  exact mem_names.2 ⟨p, hp, hn⟩

theorem takenPos_sub_names {s : Sig} {c : Call α} {n : Name} (h : n ∈ takenPos s c) :
    n ∈ names s := posNames_sub_names (List.mem_of_mem_take h)

theorem hasVarKw_iff {s : Sig} : hasVarKw s = true ↔ ∃ p ∈ s, p.kind = .varKw := by
  simp [hasVarKw]

theorem hasVarKw_false_iff {s : Sig} : hasVarKw s = false ↔ ∀ p ∈ s, p.kind ≠ .varKw := by
  simp [hasVarKw]

/-- with no `**` among them, the names of a keyword tail are its keyword-capable names -/
theorem names_kwTail_noVarKw {x : Sig} (h : KwTail x) (hv : hasVarKw x = false) :
    namedNames x = names x := by
  unfold namedNames names
  congr 1
  rw [List.filter_eq_self]
  intro p hp
  rcases h p hp with hk | hk
  · simp [hk, Kind.isNamed]
  · exact absurd hk (hasVarKw_false_iff.1 hv p hp)

/-! ## the acceptance predicate as a proposition -/

structure Accepts (s : Sig) (c : Call α) : Prop where
  posOk : c.pos.length ≤ (posNames s).length ∨ hasVarPos s = true
  kwNodup : c.kwNames.Nodup
  kwOk : ∀ k ∈ c.kwNames,
    (k ∈ namedNames s → k ∉ takenPos s c) ∧ (k ∉ namedNames s → hasVarKw s = true)
  reqOk : ∀ p ∈ s, p.kind.isVar = true ∨ p.hasDefault = true ∨ filled s c p = true

theorem acceptsB_iff (s : Sig) (c : Call α) : acceptsB s c = true ↔ Accepts s c := by
  unfold acceptsB
  simp only [Bool.and_eq_true, Bool.or_eq_true, decide_eq_true_eq, nodupB_iff,
    List.all_eq_true]
  constructor
  · rintro ⟨⟨⟨h1, h2⟩, h3⟩, h4⟩
    refine ⟨h1, h2, ?_, ?_⟩
    · intro k hk
      have := h3 k hk
      by_cases hn : (namedNames s).contains k = true
      · simp only [hn, if_true, Bool.not_eq_true', List.contains_eq_mem, decide_eq_false_iff_not]
          at this
        refine ⟨fun _ => this, fun h => absurd (by simpa using hn) h⟩
      · simp only [hn, if_false] at this
        refine ⟨fun h => absurd (by simpa using h) hn, fun _ => this⟩
    · intro p hp
      have := h4 p hp
      rcases this with (h | h) | h
      · exact Or.inl h
      · exact Or.inr (Or.inl h)
      · exact Or.inr (Or.inr h)
  · rintro ⟨h1, h2, h3, h4⟩
    refine ⟨⟨⟨h1, h2⟩, ?_⟩, ?_⟩
    · intro k hk
      obtain ⟨ha, hb⟩ := h3 k hk
      by_cases hn : k ∈ namedNames s
      · simp [hn, ha hn]
      · simp [hn, hb hn]
    · intro p hp
      rcases h4 p hp with h | h | h
      · exact Or.inl (Or.inl h)
      · exact Or.inl (Or.inr h)
      · exact Or.inr h

/-- `filled` only looks at the positional prefix of the signature and at the call -/
theorem filled_congr {s s' : Sig} (c : Call α) (p : Param) (h : posNames s = posNames s') :
    filled s c p = filled s' c p := by
  simp [filled, takenPos, h]

theorem takenPos_congr {s s' : Sig} (c : Call α) (h : posNames s = posNames s') :
    takenPos s c = takenPos s' c := by
  simp [takenPos, h]

theorem posVal_congr {s s' : Sig} (c : Call α) (n : Name) (h : posNames s = posNames s') :
    posVal s c n = posVal s' c n := by
  simp [posVal, h]

theorem argOf_congr {s s' : Sig} (c : Call α) (p : Param) (h : posNames s = posNames s') :
    argOf s c p = argOf s' c p := by
  simp [argOf, posVal_congr c p.name h]

/-! ## builder invariants -/

def kwargsParam : Param := ⟨"kwargs", .varKw, false⟩

structure Inv (b : Builder) : Prop where
  argsNe : b.args ≠ []
  noPosOnly : ∀ p ∈ b.args, p.kind ≠ .posOnly
  virtTail : KwTail b.virt
  check : b.checkAttrs = !hasVarKw b.virt
  collector : b.virt ≠ [] → ∃ r0, b.args = r0 ++ [kwargsParam]

theorem inv_init : Inv Builder.init := by
  refine ⟨by simp [Builder.init], ?_, ?_, by simp [Builder.init, hasVarKw], by simp [Builder.init]⟩
  · intro p hp; simp [Builder.init] at hp; subst hp; simp
  · intro p hp; simp [Builder.init] at hp

theorem getLast?_append_singleton {β : Type} (l : List β) (x : β) : (l ++ [x]).getLast? = some x := by
  simp

theorem orderViolation_posOnly {l : Sig} (hne : l ≠ []) (h : ∀ p ∈ l, p.kind ≠ .posOnly) :
    orderViolation l .posOnly = true := by
  unfold orderViolation
  obtain ⟨q, hq⟩ : ∃ q, l.getLast? = some q := by
    cases hl : l.getLast? with
    | none => exact absurd (List.getLast?_eq_none_iff.1 hl) hne
    | some q => exact ⟨q, rfl⟩
  rw [hq]
  have hmem : q ∈ l := List.mem_of_getLast? hq
  have := h q hmem
  cases hk : q.kind <;> simp_all [Kind.value]

theorem withArg_virtual_ok {b b' : Builder} {a : ArgSpec} (hv : a.virtual = true)
    (h : withArg b a = .ok b') :
    (a.kind = .kwOnly ∨ a.kind = .varKw) ∧ orderViolation b.virt a.kind = false ∧
    b' = { args := if b.virt.isEmpty then b.args ++ [kwargsParam] else b.args
           virt := b.virt ++ [a.param]
           checkAttrs := if a.kind == .varKw then false else b.checkAttrs } := by
  unfold withArg at h
  rw [if_pos hv] at h
  by_cases hk : (a.kind != .varKw && a.kind != .kwOnly) = true
  · rw [if_pos hk] at h; cases h
  · rw [if_neg hk] at h
    by_cases ho : orderViolation b.virt a.kind = true
    · rw [if_pos ho] at h; cases h
    · rw [if_neg ho] at h
      injection h with h
      refine ⟨?_, by simpa using ho, by rw [← h]; rfl⟩
      cases hka : a.kind <;> simp_all

theorem withArg_real_ok {b b' : Builder} {a : ArgSpec} (hv : a.virtual = false)
    (h : withArg b a = .ok b') :
    orderViolation b.args a.kind = false ∧ b' = { b with args := b.args ++ [a.param] } := by
  unfold withArg at h
  rw [if_neg (by simp [hv])] at h
  by_cases ho : orderViolation b.args a.kind = true
  · rw [if_pos ho] at h; cases h
  · rw [if_neg ho] at h
    injection h with h
    exact ⟨by simpa using ho, h.symm⟩

theorem inv_step {b b' : Builder} (a : ArgSpec) (hb : Inv b) (h : withArg b a = .ok b') : Inv b' := by
  by_cases hv : a.virtual = true
  · obtain ⟨hkind, _, rfl⟩ := withArg_virtual_ok hv h
    refine ⟨?_, ?_, ?_, ?_, ?_⟩
    · by_cases he : b.virt.isEmpty = true <;> simp [he, hb.argsNe]
    · intro p hp
      by_cases he : b.virt.isEmpty = true
      · simp only [he, if_true, List.mem_append, List.mem_singleton] at hp
        rcases hp with hp | hp
        · exact hb.noPosOnly p hp
        · subst hp; simp [kwargsParam]
      · simp only [he] at hp
        exact hb.noPosOnly p hp
    · intro p hp
      simp only [List.mem_append, List.mem_singleton] at hp
      rcases hp with hp | hp
      · exact hb.virtTail p hp
      · subst hp; simpa [ArgSpec.param] using hkind
    · simp only [hasVarKw_append]
      rcases hkind with hk' | hk'
      · simp [hk', hb.check, hasVarKw, ArgSpec.param]
      · simp [hk', hasVarKw, ArgSpec.param]
    · intro _
      by_cases he : b.virt.isEmpty = true
      · exact ⟨b.args, by simp [he]⟩
      · simp only [he]
        exact hb.collector (by simpa using he)
  · have hv' : a.virtual = false := by simpa using hv
    obtain ⟨hord, rfl⟩ := withArg_real_ok hv' h
    refine ⟨by simp, ?_, hb.virtTail, hb.check, ?_⟩
    · intro p hp
      simp only [List.mem_append, List.mem_singleton] at hp
      rcases hp with hp | hp
      · exact hb.noPosOnly p hp
      · subst hp
        intro hk
        simp only [ArgSpec.param] at hk
        rw [hk, orderViolation_posOnly hb.argsNe hb.noPosOnly] at hord
        cases hord
    · intro hne
      -- a real argument after the collector is rejected by the ordering check
      exfalso
      obtain ⟨r0, hr0⟩ := hb.collector hne
      have : orderViolation b.args a.kind = true := by
        unfold orderViolation
        rw [hr0, getLast?_append_singleton]
        have h3 : min a.kind.value Kind.kwOnly.value ≤ 3 := Nat.min_le_right _ _
        have h4 : kwargsParam.kind.value = 4 := rfl
        show decide (kwargsParam.kind.value > min a.kind.value Kind.kwOnly.value) = true
        rw [h4]
        exact decide_eq_true (by omega)
      rw [this] at hord
      cases hord

theorem inv_of_reachable {b : Builder} (h : Reachable b) : Inv b := by
  induction h with
  | init => exact inv_init
  | step a _ hs ih => exact inv_step a ih hs

theorem compiled_eq_args {b : Builder} (h : Inv b) : compiled b = b.args := by
  unfold compiled
  conv => rhs; rw [← List.map_id b.args]
  apply List.map_congr_left
  intro p hp
  simp [compileParam, h.noPosOnly p hp]

/-! ## acceptance: compiled parameters + validation  vs  advertised signature -/

theorem kwTail_kwargs : KwTail [kwargsParam] := by
  intro p hp; simp at hp; subst hp; right; rfl

theorem namedNames_kwargs : namedNames [kwargsParam] = [] := by
  simp [namedNames, kwargsParam, Kind.isNamed]

theorem validateAttrs_iff (b : Builder) (s : Sig) (c : Call α) :
    validateAttrs b (extraKw s c) = true ↔
      ∀ k ∈ c.kwNames, k ∉ namedNames s → k ∈ names b.virt := by
  simp only [validateAttrs, extraKw, List.all_eq_true, List.mem_filter, Call.kwNames,
    List.mem_map, List.contains_eq_mem, decide_eq_true_eq, Bool.not_eq_true',
    decide_eq_false_iff_not]
  constructor
  · rintro h k ⟨kv, hkv, rfl⟩ hn
    exact h kv ⟨hkv, hn⟩
  · rintro h kv ⟨hkv, hn⟩
    exact h kv.1 ⟨kv, hkv, rfl⟩ hn

/-- The heart of C17: binding against `r0 ++ [**kwargs]` and then checking the
collected names against the virtual names is the same as binding against
`r0 ++ virt`. -/
theorem accepts_tail (r0 virt : Sig) (c : Call α)
    (hv : KwTail virt) (hr0 : hasVarKw r0 = false)
    (hnd : (names (r0 ++ virt)).Nodup)
    (hd : ∀ p ∈ virt, p.kind = .kwOnly → p.hasDefault = true) :
    (Accepts (r0 ++ [kwargsParam]) c ∧
        (hasVarKw virt = false → ∀ k ∈ c.kwNames, k ∉ namedNames r0 → k ∈ names virt))
      ↔ Accepts (r0 ++ virt) c := by
  have hposK : posNames (r0 ++ [kwargsParam]) = posNames r0 := by
    rw [posNames_append, posNames_kwTail kwTail_kwargs, List.append_nil]
  have hposV : posNames (r0 ++ virt) = posNames r0 := by
    rw [posNames_append, posNames_kwTail hv, List.append_nil]
  have hvpK : hasVarPos (r0 ++ [kwargsParam]) = hasVarPos r0 := by
    rw [hasVarPos_append, hasVarPos_kwTail kwTail_kwargs, Bool.or_false]
  have hvpV : hasVarPos (r0 ++ virt) = hasVarPos r0 := by
    rw [hasVarPos_append, hasVarPos_kwTail hv, Bool.or_false]
  have hnK : namedNames (r0 ++ [kwargsParam]) = namedNames r0 := by
    rw [namedNames_append, namedNames_kwargs, List.append_nil]
  have hvkK : hasVarKw (r0 ++ [kwargsParam]) = true := by
    simp [hasVarKw, kwargsParam]
  have hvkV : hasVarKw (r0 ++ virt) = hasVarKw virt := by
    rw [hasVarKw_append, hr0, Bool.false_or]
  have htK : takenPos (r0 ++ [kwargsParam]) c = takenPos r0 c := takenPos_congr c hposK
  have htV : takenPos (r0 ++ virt) c = takenPos r0 c := takenPos_congr c hposV
  have hdisj : ∀ k, k ∈ names virt → k ∉ names r0 := by
    intro k hk hk0
    rw [names_append] at hnd
    exact (List.nodup_append.1 hnd).2.2 k hk0 k hk rfl
  constructor
  · rintro ⟨⟨h1, h2, h3, h4⟩, hval⟩
    refine ⟨?_, h2, ?_, ?_⟩
    · rw [hposV, hvpV]; rw [hposK, hvpK] at h1; exact h1
    · intro k hk
      obtain ⟨ha, _⟩ := h3 k hk
      rw [hnK, htK] at ha
      rw [htV, hvkV, namedNames_append]
      constructor
      · intro hmem
        rcases List.mem_append.1 hmem with hm | hm
        · exact ha hm
        · intro ht
          exact hdisj k (namedNames_sub_names hm) (takenPos_sub_names ht)
      · intro hnot
        have hn0 : k ∉ namedNames r0 := fun h => hnot (List.mem_append.2 (Or.inl h))
        have hnv : k ∉ namedNames virt := fun h => hnot (List.mem_append.2 (Or.inr h))
        cases hvv : hasVarKw virt with
        | true => rfl
        | false =>
          exfalso
          have := hval hvv k hk hn0
          rw [← names_kwTail_noVarKw hv hvv] at this
          exact hnv this
    · intro p hp
      rcases List.mem_append.1 hp with hp0 | hpv
      · rcases h4 p (List.mem_append.2 (Or.inl hp0)) with h | h | h
        · exact Or.inl h
        · exact Or.inr (Or.inl h)
        · refine Or.inr (Or.inr ?_)
          rw [filled_congr c p hposV]; rw [filled_congr c p hposK] at h; exact h
      · rcases hv p hpv with hk | hk
        · exact Or.inr (Or.inl (hd p hpv hk))
        · exact Or.inl (by simp [hk, Kind.isVar])
  · rintro ⟨h1, h2, h3, h4⟩
    refine ⟨⟨?_, h2, ?_, ?_⟩, ?_⟩
    · rw [hposK, hvpK]; rw [hposV, hvpV] at h1; exact h1
    · intro k hk
      obtain ⟨ha, _⟩ := h3 k hk
      rw [htV, namedNames_append] at ha
      rw [hnK, htK, hvkK]
      exact ⟨fun hm => ha (List.mem_append.2 (Or.inl hm)), fun _ => rfl⟩
    · intro p hp
      rcases List.mem_append.1 hp with hp0 | hpk
      · rcases h4 p (List.mem_append.2 (Or.inl hp0)) with h | h | h
        · exact Or.inl h
        · exact Or.inr (Or.inl h)
        · refine Or.inr (Or.inr ?_)
          rw [filled_congr c p hposK]; rw [filled_congr c p hposV] at h; exact h
      · simp at hpk; subst hpk; exact Or.inl rfl
    · intro hvv k hk hn0
      obtain ⟨_, hb⟩ := h3 k hk
      rw [hvkV, hvv, namedNames_append] at hb
      have : k ∈ namedNames r0 ++ namedNames virt := by
        apply Classical.byContradiction
        intro hcon
        exact absurd (hb hcon) (by simp)
      rcases List.mem_append.1 this with h | h
      · exact absurd h hn0
      · exact namedNames_sub_names h

/-! ## `with_spec_attrs_for` -/

def AllKwOnly (x : Sig) : Prop := ∀ p ∈ x, p.kind = .kwOnly

theorem orderViolation_allKwOnly {l : Sig} (h : AllKwOnly l) {k : Kind}
    (hk : k = .kwOnly ∨ k = .varKw) : orderViolation l k = false := by
  unfold orderViolation
  cases hl : l.getLast? with
  | none => rfl
  | some q =>
    have hq : q.kind = .kwOnly := h q (List.mem_of_getLast? hl)
    rcases hk with rfl | rfl <;> simp [hq, Kind.value]

def kwParam (k : Name) : Param := ⟨k, .kwOnly, true⟩

theorem withArgs_virtual_kwOnly (ks : List Name) :
    ∀ (b : Builder), AllKwOnly b.virt →
    withArgs b (ks.map kwVirtual) =
      .ok { args := if b.virt.isEmpty && !ks.isEmpty then b.args ++ [kwargsParam] else b.args
            virt := b.virt ++ ks.map kwParam
            checkAttrs := b.checkAttrs } := by
  induction ks with
  | nil => intro b _; simp [withArgs]
  | cons k ks ih =>
    intro b hb
    have hov : orderViolation b.virt Kind.kwOnly = false := orderViolation_allKwOnly hb (Or.inl rfl)
    have hstep : withArg b (kwVirtual k) =
        .ok { args := if b.virt.isEmpty then b.args ++ [kwargsParam] else b.args
              virt := b.virt ++ [kwParam k]
              checkAttrs := b.checkAttrs } := by
      simp [withArg, kwVirtual, hov, kwargsParam, kwParam, ArgSpec.param]
    simp only [List.map_cons, withArgs, hstep]
    have hb1 : AllKwOnly (b.virt ++ [kwParam k]) := by
      intro p hp
      rcases List.mem_append.1 hp with h | h
      · exact hb p h
      · simp at h; subst h; rfl
    rw [ih _ hb1]
    simp

theorem nestedKw_fresh (b : Builder) (t : Nested) :
    (nestedKw b t).any (fun k => (currentNames b).contains k) = false := by
  rw [List.any_eq_false]
  intro k hk
  simp only [nestedKw, List.mem_map, List.mem_filter] at hk
  obtain ⟨a, ⟨_, hcond⟩, rfl⟩ := hk
  simp only [Bool.and_eq_true, Bool.not_eq_true', List.contains_eq_mem, decide_eq_false_iff_not] at hcond
  simpa using hcond.1.2

def overflowParam (o : Name) : Param := ⟨o, .varKw, false⟩

/-- closed form of `with_spec_attrs_for` on a builder without virtual arguments -/
def nestedResult (b : Builder) (t : Nested) : Builder :=
  { args := if (nestedKw b t).isEmpty && t.overflow.isNone then b.args
            else b.args ++ [kwargsParam]
    virt := (nestedKw b t).map kwParam ++ (match t.overflow with
              | some o => [overflowParam o] | none => [])
    checkAttrs := if t.overflow.isSome then false else b.checkAttrs }

theorem withSpecAttrsFor_eq (b : Builder) (t : Nested) (hv : b.virt = []) :
    withSpecAttrsFor b t = .ok (nestedResult b t) := by
  unfold nestedResult
  unfold withSpecAttrsFor
  simp only [nestedKw_fresh, Bool.false_eq_true, if_false]
  have hall : AllKwOnly b.virt := by rw [hv]; intro p hp; cases hp
  have := withArgs_virtual_kwOnly (nestedKw b t) b hall
  rw [this]
  cases ho : t.overflow with
  | none =>
    simp [hv]
  | some o =>
    have hall1 : AllKwOnly (b.virt ++ (nestedKw b t).map kwParam) := by
      intro p hp
      rw [hv] at hp
      simp only [List.nil_append, List.mem_map] at hp
      obtain ⟨k, _, rfl⟩ := hp
      rfl
    have hov := orderViolation_allKwOnly hall1 (k := .varKw) (Or.inr rfl)
    simp only [withArg, hov]
    simp only [hv, List.nil_append, List.isEmpty_nil, Bool.true_and]
    cases hks : nestedKw b t with
    | nil => simp [overflowParam, ArgSpec.param, kwargsParam]
    | cons k ks => simp [overflowParam, ArgSpec.param, kwargsParam]

theorem nestedResult_virt (b : Builder) (t : Nested) :
    (nestedResult b t).virt = (nestedKw b t).map kwParam ++ (match t.overflow with
              | some o => [overflowParam o] | none => []) := rfl

theorem nestedResult_args_cases (b : Builder) (t : Nested) :
    ((nestedResult b t).virt = [] ∧ (nestedResult b t).args = b.args) ∨
    ((nestedResult b t).virt ≠ [] ∧ (nestedResult b t).args = b.args ++ [kwargsParam]) := by
  by_cases hemp : ((nestedKw b t).isEmpty && t.overflow.isNone) = true
  · left
    simp only [Bool.and_eq_true, List.isEmpty_iff, Option.isNone_iff_eq_none] at hemp
    simp [nestedResult, hemp.1, hemp.2]
  · right
    refine ⟨?_, by simp [nestedResult, hemp]⟩
    simp only [Bool.and_eq_true, List.isEmpty_iff, Option.isNone_iff_eq_none, not_and] at hemp
    rw [nestedResult_virt]
    cases hks : nestedKw b t with
    | cons k ks => simp
    | nil =>
      cases ho : t.overflow with
      | none => exact absurd ho (hemp hks)
      | some o => simp

theorem advertised_nestedResult (b : Builder) (t : Nested) :
    advertised (nestedResult b t) = b.args ++ (nestedResult b t).virt := by
  rcases nestedResult_args_cases b t with ⟨hv, ha⟩ | ⟨hv, ha⟩
  · simp [advertised, hv, ha]
  · simp [advertised, hv, ha]

theorem reachable_withArgs {as : List ArgSpec} :
    ∀ {b b' : Builder}, Reachable b → withArgs b as = .ok b' → Reachable b' := by
  induction as with
  | nil => intro b b' hb h; simp [withArgs] at h; subst h; exact hb
  | cons a as ih =>
    intro b b' hb h
    simp only [withArgs] at h
    cases hs : withArg b a with
    | error e => rw [hs] at h; cases h
    | ok b1 => rw [hs] at h; exact ih (Reachable.step a hb hs) h

theorem reachable_withSpecAttrsFor {b b' : Builder} {t : Nested} (hb : Reachable b)
    (h : withSpecAttrsFor b t = .ok b') : Reachable b' := by
  unfold withSpecAttrsFor at h
  simp only [nestedKw_fresh, Bool.false_eq_true, if_false] at h
  cases h1 : withArgs b ((nestedKw b t).map kwVirtual) with
  | error e => rw [h1] at h; cases h
  | ok b1 =>
    rw [h1] at h
    have r1 := reachable_withArgs hb h1
    cases ho : t.overflow with
    | none => rw [ho] at h; injection h with h; subst h; exact r1
    | some o => rw [ho] at h; exact Reachable.step _ r1 h

/-! ## the forwarded keywords -/

/-- the keyword part of `implementation(...)` generated from a parameter list `l` -/
def fwdKw (s : Sig) (c : Call α) (l : Sig) : List (Name × Arg α) :=
  l.flatMap (fun p =>
    match p.kind with
    | .posOrKw => [(p.name, argOf s c p)]
    | .kwOnly => [(p.name, argOf s c p)]
    | .varKw => (extraKw s c).map (fun kv => (kv.1, Arg.val kv.2))
    | _ => [])

theorem forwardCall_kw (b : Builder) (c : Call α) :
    (forwardCall b c).kw = fwdKw (compiled b) c b.args := rfl

theorem fwdKw_cons (s : Sig) (c : Call α) (q : Param) (qs : Sig) :
    fwdKw s c (q :: qs) = (match q.kind with
      | .posOrKw => [(q.name, argOf s c q)]
      | .kwOnly => [(q.name, argOf s c q)]
      | .varKw => (extraKw s c).map (fun kv => (kv.1, Arg.val kv.2))
      | _ => []) ++ fwdKw s c qs := by
  simp [fwdKw]

theorem mem_fwdKw_names {s : Sig} {c : Call α} {l : Sig} {k : Name}
    (h : k ∈ (fwdKw s c l).map (·.1)) :
    k ∈ namedNames l ∨ (hasVarKw l = true ∧ k ∈ (extraKw s c).map (·.1)) := by
  induction l with
  | nil => simp [fwdKw] at h
  | cons q qs ih =>
    rw [fwdKw_cons, List.map_append, List.mem_append] at h
    rcases h with h | h
    · cases hk : q.kind <;> simp only [hk, List.map_nil, List.not_mem_nil, List.map_cons,
        List.mem_singleton, List.map_map] at h
      · left; subst h; exact mem_namedNames.2 ⟨q, List.mem_cons_self, by simp [hk, Kind.isNamed], rfl⟩
      · left; subst h; exact mem_namedNames.2 ⟨q, List.mem_cons_self, by simp [hk, Kind.isNamed], rfl⟩
      · right
        refine ⟨by simp [hasVarKw, hk], ?_⟩
        simpa [Function.comp_def] using h
    · rcases ih h with h' | ⟨h1, h2⟩
      · left
        obtain ⟨p, hp, hn, rfl⟩ := mem_namedNames.1 h'
        exact mem_namedNames.2 ⟨p, List.mem_cons_of_mem _ hp, hn, rfl⟩
      · right
        exact ⟨by simp only [hasVarKw, List.any_cons, Bool.or_eq_true]; right; exact h1, h2⟩

theorem fwdKw_names_nodup (s : Sig) (c : Call α) :
    ∀ (l : Sig), (names l).Nodup → countKind l .varKw ≤ 1 →
      ((extraKw s c).map (·.1)).Nodup →
      (∀ k ∈ (extraKw s c).map (·.1), k ∉ namedNames l) →
      ((fwdKw s c l).map (·.1)).Nodup := by
  intro l
  induction l with
  | nil => intros; simp [fwdKw]
  | cons q qs ih =>
    intro hnd hcnt hE hdis
    have hnd' : (names qs).Nodup := by
      simp only [names, List.map_cons, List.nodup_cons] at hnd; exact hnd.2
    have hqn : q.name ∉ names qs := by
      simp only [names, List.map_cons, List.nodup_cons] at hnd; exact hnd.1
    have hdis' : ∀ k ∈ (extraKw s c).map (·.1), k ∉ namedNames qs := by
      intro k hk hn
      obtain ⟨p, hp, hpn, rfl⟩ := mem_namedNames.1 hn
      exact hdis _ hk (mem_namedNames.2 ⟨p, List.mem_cons_of_mem _ hp, hpn, rfl⟩)
    have hcnt' : countKind qs .varKw ≤ 1 := by
      simp only [countKind, List.filter_cons] at hcnt
      split at hcnt
      · simp only [List.length_cons] at hcnt; simp only [countKind]; omega
      · exact hcnt
    rw [fwdKw_cons, List.map_append, List.nodup_append]
    refine ⟨?_, ih hnd' hcnt' hE hdis', ?_⟩
    · cases hk : q.kind <;> simp [Function.comp_def]
      exact hE
    · intro a ha b hb
      cases hk : q.kind <;> simp only [hk, List.map_nil, List.not_mem_nil, List.map_cons,
        List.mem_singleton, List.map_map] at ha
      · -- posOrKw
        subst ha
        rcases mem_fwdKw_names hb with h | ⟨_, h⟩
        · intro heq; exact hqn (by rw [heq]; exact namedNames_sub_names h)
        · intro heq
          exact hdis _ h (by rw [← heq]; exact mem_namedNames.2 ⟨q, List.mem_cons_self, by simp [hk, Kind.isNamed], rfl⟩)
      · -- kwOnly
        subst ha
        rcases mem_fwdKw_names hb with h | ⟨_, h⟩
        · intro heq; exact hqn (by rw [heq]; exact namedNames_sub_names h)
        · intro heq
          exact hdis _ h (by rw [← heq]; exact mem_namedNames.2 ⟨q, List.mem_cons_self, by simp [hk, Kind.isNamed], rfl⟩)
      · -- varKw: no further `**` in the rest
        have ha' : a ∈ (extraKw s c).map (·.1) := by simpa [Function.comp_def] using ha
        have hzero : hasVarKw qs = false := by
          rw [hasVarKw_false_iff]
          intro p hp hpk
          have : p ∈ qs.filter (·.kind == .varKw) := List.mem_filter.2 ⟨hp, by simp [hpk]⟩
          simp only [countKind, List.filter_cons, hk, beq_self_eq_true, if_true,
            List.length_cons] at hcnt
          have hl : (qs.filter (·.kind == .varKw)).length = 0 := by omega
          rw [List.length_eq_zero_iff] at hl
          rw [hl] at this; cases this
        rcases mem_fwdKw_names hb with h | ⟨h, _⟩
        · intro heq; exact hdis' a ha' (by rw [heq]; exact h)
        · rw [hzero] at h; cases h

/-! ## lemmas used directly by `Props/C17.lean` -/

/-- What `.build()` having succeeded gives (`buildable_good`), plus the two
side conditions under which the acceptance theorems hold:
* every virtual keyword-only argument carries a default (everything
  `with_spec_attrs_for` adds does: `nested_virtual_defaults`);
* no parameter is called like a global of the generated text (`noCapture`;
  see `key_capture_witness` — open finding KF-C17-key-name-capture). -/
structure Good (b : Builder) : Prop where
  reach : Reachable b
  advNodup : (names (advertised b)).Nodup
  argsNodup : (names b.args).Nodup
  oneVarKw : countKind b.args .varKw ≤ 1
  oneVarPos : countKind b.args .varPos ≤ 1
  virtDefaults : ∀ p ∈ b.virt, p.kind = .kwOnly → p.hasDefault = true
  noCapture : noCapture b = true

theorem wrapper_ok_eq {b : Builder} {c : Call α} {f : FCall α} (h : wrapper b c = .ok f) :
    f = forwardCall b c := by
  unfold wrapper wrapperWith at h
  split at h
  · cases h
  · split at h
    · cases h
    · split at h
      · cases h
      · injection h with h; exact h.symm

theorem noCapture_mem {b : Builder} (h : noCapture b = true) :
    (names b.args).contains validateName = false ∧
    (names b.args).contains implName = false := by
  simp only [SpecVerif.C17.noCapture, List.all_eq_true, reservedNames] at h
  constructor
  · rw [Bool.eq_false_iff]; intro hc
    have := h _ (by simpa using hc)
    simp at this
  · rw [Bool.eq_false_iff]; intro hc
    have := h _ (by simpa using hc)
    simp at this

theorem wrapper_ok_iff {b : Builder} (hc : noCapture b = true) (c : Call α) :
    (∃ f, wrapper b c = .ok f) ↔
      (acceptsB (compiled b) c = true ∧
        (b.virt ≠ [] → b.checkAttrs = true →
          validateAttrs b (extraKw (compiled b) c) = true)) := by
  obtain ⟨hva, him⟩ := noCapture_mem hc
  unfold wrapper wrapperWith
  rw [hva, him]
  by_cases ha : acceptsB (compiled b) c = true
  · by_cases hv : b.virt = []
    · simp [ha, hv]
    · by_cases hk : b.checkAttrs = true
      · by_cases hval : validateAttrs b (extraKw (compiled b) c) = true
        · simp [ha, hv, hk, hval]
        · simp [ha, hv, hk, hval]
      · simp [ha, hv, hk]
  · simp [ha]

theorem countKind_append (a b : Sig) (k : Kind) :
    countKind (a ++ b) k = countKind a k + countKind b k := by
  simp [countKind]

theorem hasVarKw_of_count {s : Sig} (h : countKind s .varKw = 0) : hasVarKw s = false := by
  rw [hasVarKw_false_iff]
  intro p hp hk
  have : p ∈ s.filter (·.kind == .varKw) := List.mem_filter.2 ⟨hp, by simp [hk]⟩
  unfold countKind at h
  rw [List.length_eq_zero_iff] at h
  rw [h] at this
  cases this

theorem mem_forward_kw_named {b : Builder} (c : Call α) {p : Param} (hp : p ∈ b.args)
    (hk : p.kind = .posOrKw ∨ p.kind = .kwOnly) :
    (p.name, argOf (compiled b) c p) ∈ (forwardCall b c).kw := by
  simp only [forwardCall, List.mem_flatMap]
  refine ⟨p, hp, ?_⟩
  rcases hk with hk | hk <;> simp [hk]

theorem mem_forward_kw_extra {b : Builder} (c : Call α) (hvk : hasVarKw b.args = true)
    {k : Name} {v : α} (hkv : (k, v) ∈ extraKw (compiled b) c) :
    (k, Arg.val v) ∈ (forwardCall b c).kw := by
  obtain ⟨p, hp, hpk⟩ := hasVarKw_iff.1 hvk
  simp only [forwardCall, List.mem_flatMap]
  refine ⟨p, hp, ?_⟩
  simp only [hpk, List.mem_map]
  exact ⟨(k, v), hkv, rfl⟩

theorem forward_kw_mem_cases {b : Builder} (c : Call α) {k : Name} {a : Arg α}
    (h : (k, a) ∈ (forwardCall b c).kw) :
    (∃ p ∈ b.args, (p.kind = .posOrKw ∨ p.kind = .kwOnly) ∧ p.name = k ∧ a = argOf (compiled b) c p) ∨
    (∃ v, (k, v) ∈ extraKw (compiled b) c ∧ a = .val v ∧ hasVarKw b.args = true) := by
  simp only [forwardCall, List.mem_flatMap] at h
  obtain ⟨p, hp, hm⟩ := h
  cases hk : p.kind with
  | posOnly => simp [hk] at hm
  | varPos => simp [hk] at hm
  | posOrKw =>
    simp only [hk, List.mem_singleton, Prod.mk.injEq] at hm
    exact Or.inl ⟨p, hp, Or.inl hk, hm.1.symm, hm.2⟩
  | kwOnly =>
    simp only [hk, List.mem_singleton, Prod.mk.injEq] at hm
    exact Or.inl ⟨p, hp, Or.inr hk, hm.1.symm, hm.2⟩
  | varKw =>
    simp only [hk, List.mem_map, Prod.mk.injEq] at hm
    obtain ⟨kv, hkv, h1, h2⟩ := hm
    refine Or.inr ⟨kv.2, ?_, h2.symm, hasVarKw_iff.2 ⟨p, hp, hk⟩⟩
    rw [← h1]; exact hkv

theorem kwGet_mem {kw : List (Name × α)} {k : Name} {v : α} (h : kwGet kw k = some v) :
    (k, v) ∈ kw := by
  unfold kwGet at h
  cases hf : kw.find? (fun p => p.1 == k) with
  | none => simp [hf] at h
  | some q =>
    simp [hf] at h
    have hq := List.find?_some hf
    have hm := List.mem_of_find?_eq_some hf
    simp at hq
    subst h
    rw [← hq]; exact hm

theorem kwGet_none {kw : List (Name × α)} {k : Name} (h : kwGet kw k = none) :
    k ∉ kw.map (·.1) := by
  unfold kwGet at h
  simp only [Option.map_eq_none_iff, List.find?_eq_none] at h
  intro hm
  obtain ⟨q, hq, rfl⟩ := List.mem_map.1 hm
  exact h q hq (by simp)

/-- side conditions on a generated method's configuration: the parameter names
the recipe uses (`self`, the control parameters, the key attribute) are distinct
and none is a global of the generated text; the nested class has distinct
attribute names and its overflow attribute is not one of those parameters. -/
def cfgOK (m : MethodCfg) : Bool :=
  let own := "self" :: (recipe m).map (·.name)
  nodupB own && own.all (fun n => !reservedNames.contains n) && !own.contains "kwargs" &&
  (match m.nested with
   | none => true
   | some t => nodupB (t.attrs.map (·.name)) &&
      (match t.overflow with | some o => !own.contains o | none => true))

theorem recipe_real (m : MethodCfg) :
    ∀ a ∈ recipe m, (a.kind = .posOrKw ∨ a.kind = .kwOnly) ∧ a.virtual = false := by
  obtain ⟨kind, key, nested⟩ := m
  cases kind <;> (try cases key) <;> simp [recipe, pk, ko, tail2]

theorem withArgs_recipe (m : MethodCfg) :
    withArgs Builder.init (recipe m) =
      .ok ⟨Builder.init.args ++ (recipe m).map ArgSpec.param, [], true⟩ := by
  obtain ⟨kind, key, nested⟩ := m
  cases kind <;> (try cases key) <;>
    simp [recipe, pk, ko, tail2, withArgs, withArg, orderViolation, Builder.init, ArgSpec.param, Kind.value]

/-- the builder after the non-virtual `with_arg` calls of a `build_method` -/
def base (m : MethodCfg) : Builder :=
  ⟨Builder.init.args ++ (recipe m).map ArgSpec.param, [], true⟩

def own (m : MethodCfg) : List Name := "self" :: (recipe m).map (·.name)

theorem names_base (m : MethodCfg) : names (base m).args = own m := by
  simp [base, own, names, Builder.init, ArgSpec.param, Function.comp_def]

theorem base_kinds (m : MethodCfg) : ∀ p ∈ (base m).args, p.kind = .posOrKw ∨ p.kind = .kwOnly := by
  intro p hp
  simp only [base, Builder.init, List.cons_append, List.nil_append, List.mem_cons, List.mem_map] at hp
  rcases hp with rfl | ⟨a, ha, rfl⟩
  · left; rfl
  · exact (recipe_real m a ha).1

theorem countKind_zero {s : Sig} {k : Kind} (h : ∀ p ∈ s, p.kind ≠ k) : countKind s k = 0 := by
  unfold countKind
  rw [List.length_eq_zero_iff, List.filter_eq_nil_iff]
  intro p hp
  simpa using h p hp

theorem cfgOK_parts {m : MethodCfg} (h : cfgOK m = true) :
    (own m).Nodup ∧ (∀ n ∈ own m, reservedNames.contains n = false) ∧ "kwargs" ∉ own m ∧
    (∀ t, m.nested = some t → (t.attrs.map (·.name)).Nodup ∧ ∀ o, t.overflow = some o → o ∉ own m) := by
  unfold cfgOK at h
  simp only [Bool.and_eq_true, List.all_eq_true, Bool.not_eq_true'] at h
  obtain ⟨⟨⟨h1, h2⟩, hkw⟩, h3⟩ := h
  refine ⟨(nodupB_iff _).1 h1, h2, by simpa [own] using hkw, ?_⟩
  intro t ht
  rw [ht] at h3
  simp only [Bool.and_eq_true] at h3
  refine ⟨(nodupB_iff _).1 h3.1, ?_⟩
  intro o ho
  have := h3.2
  rw [ho] at this
  simpa [own] using this

theorem noCapture_of_names {b : Builder} (h : ∀ n ∈ names b.args, reservedNames.contains n = false) :
    noCapture b = true := by
  simp only [SpecVerif.C17.noCapture, List.all_eq_true, Bool.not_eq_true']
  exact h

theorem good_base (m : MethodCfg) (hm : cfgOK m = true) : Good (base m) := by
  obtain ⟨hnd, hres, _, _⟩ := cfgOK_parts hm
  have hk := base_kinds m
  refine ⟨reachable_withArgs Reachable.init (withArgs_recipe m), ?_, ?_, ?_, ?_, ?_, ?_⟩
  · have : advertised (base m) = (base m).args := by simp [advertised, base]
    rw [this, names_base]; exact hnd
  · rw [names_base]; exact hnd
  · rw [countKind_zero]; exact Nat.zero_le _
    intro p hp; rcases hk p hp with h | h <;> simp [h]
  · rw [countKind_zero]; exact Nat.zero_le _
    intro p hp; rcases hk p hp with h | h <;> simp [h]
  · intro p hp; simp [base] at hp
  · apply noCapture_of_names; rw [names_base]; exact hres

end SpecVerif.C17
