import SpecVerif.Model.C17
/-!
Helper lemmas for `Props/C17.lean` (core Lean only).
-/
set_option linter.unusedSectionVars false
set_option linter.unusedSimpArgs false
set_option linter.unusedVariables false
namespace SpecVerif.C17
open SpecVerif.Py

variable {α : Type}

/-! ## `nodupB`, `contains` -/

theorem nodupB_iff (l : List Name) : nodupB l = true ↔ l.Nodup := by
  induction l with
  | nil => simp [nodupB]
  | cons x xs ih => simp [nodupB, ih, List.nodup_cons]

/-! ## signature fragments over `++` -/

theorem names_append (a b : Sig) : names (a ++ b) = names a ++ names b := by simp [names]
theorem posNames_append (a b : Sig) : posNames (a ++ b) = posNames a ++ posNames b := by
  simp [posNames]
theorem namedNames_append (a b : Sig) : namedNames (a ++ b) = namedNames a ++ namedNames b := by
  simp [namedNames]
theorem hasVarPos_append (a b : Sig) : hasVarPos (a ++ b) = (hasVarPos a || hasVarPos b) := by
  simp [hasVarPos]
theorem hasVarKw_append (a b : Sig) : hasVarKw (a ++ b) = (hasVarKw a || hasVarKw b) := by
  simp [hasVarKw]

/-- a list of keyword-only / `**` parameters (what `method_args_virtual` holds, and the `kwargs` collector) -/
def KwTail (x : Sig) : Prop := ∀ p ∈ x, p.kind = .kwOnly ∨ p.kind = .varKw

theorem posNames_kwTail {x : Sig} (h : KwTail x) : posNames x = [] := by
  unfold posNames
  rw [List.map_eq_nil_iff, List.filter_eq_nil_iff]
  intro p hp
  rcases h p hp with hk | hk <;> simp [hk, Kind.isPositional]

theorem hasVarPos_kwTail {x : Sig} (h : KwTail x) : hasVarPos x = false := by
  unfold hasVarPos
  rw [List.any_eq_false]
  intro p hp
  rcases h p hp with hk | hk <;> simp [hk]

theorem mem_names {s : Sig} {n : Name} : n ∈ names s ↔ ∃ p ∈ s, p.name = n := by
  simp [names]

theorem mem_namedNames {s : Sig} {n : Name} :
    n ∈ namedNames s ↔ ∃ p ∈ s, p.kind.isNamed = true ∧ p.name = n := by
  simp [namedNames, and_assoc]

theorem mem_posNames {s : Sig} {n : Name} :
    n ∈ posNames s ↔ ∃ p ∈ s, p.kind.isPositional = true ∧ p.name = n := by
  simp [posNames, and_assoc]

theorem namedNames_sub_names {s : Sig} {n : Name} (h : n ∈ namedNames s) : n ∈ names s := by
  obtain ⟨p, hp, _, hn⟩ := mem_namedNames.1 h
  exact mem_names.2 ⟨p, hp, hn⟩

theorem posNames_sub_names {s : Sig} {n : Name} (h : n ∈ posNames s) : n ∈ names s := by
  obtain ⟨p, hp, _, hn⟩ := mem_posNames.1 h
  exact mem_names.2 ⟨p, hp, hn⟩

theorem takenPos_sub_names {s : Sig} {c : Call α} {n : Name} (h : n ∈ takenPos s c) :
    n ∈ names s := posNames_sub_names (List.mem_of_mem_take h)

theorem hasVarKw_iff {s : Sig} : hasVarKw s = true ↔ ∃ p ∈ s, p.kind = .varKw := by
  simp [hasVarKw]

theorem hasVarKw_false_iff {s : Sig} : hasVarKw s = false ↔ ∀ p ∈ s, p.kind ≠ .varKw := by
  simp [hasVarKw]

/-- with no `**` among them, the names of a keyword tail are its keyword-capable names -/
theorem names_kwTail_noVarKw {x : Sig} (h : KwTail x) (hv : hasVarKw x = false) :
    namedNames x = names x := by
  unfold namedNames names
  congr 1
  rw [List.filter_eq_self]
  intro p hp
  rcases h p hp with hk | hk
  · simp [hk, Kind.isNamed]
  · exact absurd hk (hasVarKw_false_iff.1 hv p hp)

/-! ## the acceptance predicate as a proposition -/

structure Accepts (s : Sig) (c : Call α) : Prop where
  posOk : c.pos.length ≤ (posNames s).length ∨ hasVarPos s = true
  kwNodup : c.kwNames.Nodup
  kwOk : ∀ k ∈ c.kwNames,
    (k ∈ namedNames s → k ∉ takenPos s c) ∧ (k ∉ namedNames s → hasVarKw s = true)
  reqOk : ∀ p ∈ s, p.kind.isVar = true ∨ p.hasDefault = true ∨ filled s c p = true

theorem acceptsB_iff (s : Sig) (c : Call α) : acceptsB s c = true ↔ Accepts s c := by
  unfold acceptsB
  simp only [Bool.and_eq_true, Bool.or_eq_true, decide_eq_true_eq, nodupB_iff,
    List.all_eq_true]
  constructor
  · rintro ⟨⟨⟨h1, h2⟩, h3⟩, h4⟩
    refine ⟨h1, h2, ?_, ?_⟩
    · intro k hk
      have := h3 k hk
      by_cases hn : (namedNames s).contains k = true
      · simp only [hn, if_true, Bool.not_eq_true', List.contains_eq_mem, decide_eq_false_iff_not]
          at this
        refine ⟨fun _ => this, fun h => absurd (by simpa using hn) h⟩
      · simp only [hn, if_false] at this
        refine ⟨fun h => absurd (by simpa using h) hn, fun _ => this⟩
    · intro p hp
      have := h4 p hp
      rcases this with (h | h) | h
      · exact Or.inl h
      · exact Or.inr (Or.inl h)
      · exact Or.inr (Or.inr h)
  · rintro ⟨h1, h2, h3, h4⟩
    refine ⟨⟨⟨h1, h2⟩, ?_⟩, ?_⟩
    · intro k hk
      obtain ⟨ha, hb⟩ := h3 k hk
      by_cases hn : k ∈ namedNames s
      · simp [hn, ha hn]
      · simp [hn, hb hn]
    · intro p hp
      rcases h4 p hp with h | h | h
      · exact Or.inl (Or.inl h)
      · exact Or.inl (Or.inr h)
      · exact Or.inr h

/-- `filled` only looks at the positional prefix of the signature and at the call -/
theorem filled_congr {s s' : Sig} (c : Call α) (p : Param) (h : posNames s = posNames s') :
    filled s c p = filled s' c p := by
  simp [filled, takenPos, h]

theorem takenPos_congr {s s' : Sig} (c : Call α) (h : posNames s = posNames s') :
    takenPos s c = takenPos s' c := by
  simp [takenPos, h]

theorem posVal_congr {s s' : Sig} (c : Call α) (n : Name) (h : posNames s = posNames s') :
    posVal s c n = posVal s' c n := by
  simp [posVal, h]

theorem argOf_congr {s s' : Sig} (c : Call α) (p : Param) (h : posNames s = posNames s') :
    argOf s c p = argOf s' c p := by
  simp [argOf, posVal_congr c p.name h]

/-! ## builder invariants -/

def kwargsParam : Param := ⟨"kwargs", .varKw, false⟩

structure Inv (b : Builder) : Prop where
  argsNe : b.args ≠ []
  noPosOnly : ∀ p ∈ b.args, p.kind ≠ .posOnly
  virtTail : KwTail b.virt
  check : b.checkAttrs = !hasVarKw b.virt
  collector : b.virt ≠ [] → ∃ r0, b.args = r0 ++ [kwargsParam]

theorem inv_init : Inv Builder.init := by
  refine ⟨by simp [Builder.init], ?_, ?_, by simp [Builder.init, hasVarKw], by simp [Builder.init]⟩
  · intro p hp; simp [Builder.init] at hp; subst hp; simp
  · intro p hp; simp [Builder.init] at hp

theorem getLast?_append_singleton {β : Type} (l : List β) (x : β) : (l ++ [x]).getLast? = some x := by
  simp

theorem orderViolation_posOnly {l : Sig} (hne : l ≠ []) (h : ∀ p ∈ l, p.kind ≠ .posOnly) :
    orderViolation l .posOnly = true := by
  unfold orderViolation
  obtain ⟨q, hq⟩ : ∃ q, l.getLast? = some q := by
    cases hl : l.getLast? with
    | none => exact absurd (List.getLast?_eq_none_iff.1 hl) hne
    | some q => exact ⟨q, rfl⟩
  rw [hq]
  have hmem : q ∈ l := List.mem_of_getLast? hq
  have := h q hmem
  cases hk : q.kind <;> simp_all [Kind.value]

theorem withArg_virtual_ok {b b' : Builder} {a : ArgSpec} (hv : a.virtual = true)
    (h : withArg b a = .ok b') :
    (a.kind = .kwOnly ∨ a.kind = .varKw) ∧ orderViolation b.virt a.kind = false ∧
    b' = { args := if b.virt.isEmpty then b.args ++ [kwargsParam] else b.args
           virt := b.virt ++ [a.param]
           checkAttrs := if a.kind == .varKw then false else b.checkAttrs } := by
  unfold withArg at h
  rw [if_pos hv] at h
  by_cases hk : (a.kind != .varKw && a.kind != .kwOnly) = true
  · rw [if_pos hk] at h; cases h
  · rw [if_neg hk] at h
    by_cases ho : orderViolation b.virt a.kind = true
    · rw [if_pos ho] at h; cases h
    · rw [if_neg ho] at h
      injection h with h
      refine ⟨?_, by simpa using ho, by rw [← h]; rfl⟩
      cases hka : a.kind <;> simp_all

theorem withArg_real_ok {b b' : Builder} {a : ArgSpec} (hv : a.virtual = false)
    (h : withArg b a = .ok b') :
    orderViolation b.args a.kind = false ∧ b' = { b with args := b.args ++ [a.param] } := by
  unfold withArg at h
  rw [if_neg (by simp [hv])] at h
  by_cases ho : orderViolation b.args a.kind = true
  · rw [if_pos ho] at h; cases h
  · rw [if_neg ho] at h
    injection h with h
    exact ⟨by simpa using ho, h.symm⟩

theorem inv_step {b b' : Builder} (a : ArgSpec) (hb : Inv b) (h : withArg b a = .ok b') : Inv b' := by
  by_cases hv : a.virtual = true
  · obtain ⟨hkind, _, rfl⟩ := withArg_virtual_ok hv h
    refine ⟨?_, ?_, ?_, ?_, ?_⟩
    · by_cases he : b.virt.isEmpty = true <;> simp [he, hb.argsNe]
    · intro p hp
      by_cases he : b.virt.isEmpty = true
      · simp only [he, if_true, List.mem_append, List.mem_singleton] at hp
        rcases hp with hp | hp
        · exact hb.noPosOnly p hp
        · subst hp; simp [kwargsParam]
      · simp only [he] at hp
        exact hb.noPosOnly p hp
    · intro p hp
      simp only [List.mem_append, List.mem_singleton] at hp
      rcases hp with hp | hp
      · exact hb.virtTail p hp
      · subst hp; simpa [ArgSpec.param] using hkind
    · simp only [hasVarKw_append]
      rcases hkind with hk' | hk'
      · simp [hk', hb.check, hasVarKw, ArgSpec.param]
      · simp [hk', hasVarKw, ArgSpec.param]
    · intro _
      by_cases he : b.virt.isEmpty = true
      · exact ⟨b.args, by simp [he]⟩
      · simp only [he]
        exact hb.collector (by simpa using he)
  · have hv' : a.virtual = false := by simpa using hv
    obtain ⟨hord, rfl⟩ := withArg_real_ok hv' h
    refine ⟨by simp, ?_, hb.virtTail, hb.check, ?_⟩
    · intro p hp
      simp only [List.mem_append, List.mem_singleton] at hp
      rcases hp with hp | hp
      · exact hb.noPosOnly p hp
      · subst hp
        intro hk
        simp only [ArgSpec.param] at hk
        rw [hk, orderViolation_posOnly hb.argsNe hb.noPosOnly] at hord
        cases hord
    · intro hne
      -- a real argument after the collector is rejected by the ordering check
      exfalso
      obtain ⟨r0, hr0⟩ := hb.collector hne
      have : orderViolation b.args a.kind = true := by
        unfold orderViolation
        rw [hr0, getLast?_append_singleton]
        have h3 : min a.kind.value Kind.kwOnly.value ≤ 3 := Nat.min_le_right _ _
        have h4 : kwargsParam.kind.value = 4 := rfl
        show decide (kwargsParam.kind.value > min a.kind.value Kind.kwOnly.value) = true
        rw [h4]
        exact decide_eq_true (by omega)
      rw [this] at hord
      cases hord

theorem inv_of_reachable {b : Builder} (h : Reachable b) : Inv b := by
  induction h with
  | init => exact inv_init
  | step a _ hs ih => exact inv_step a ih hs

theorem compiled_eq_args {b : Builder} (h : Inv b) : compiled b = b.args := by
  unfold compiled
  conv => rhs; rw [← List.map_id b.args]
  apply List.map_congr_left
  intro p hp
  simp [compileParam, h.noPosOnly p hp]

/-! ## acceptance: compiled parameters + validation  vs  advertised signature -/

theorem kwTail_kwargs : KwTail [kwargsParam] := by
  intro p hp; simp at hp; subst hp; right; rfl

theorem namedNames_kwargs : namedNames [kwargsParam] = [] := by
  simp [namedNames, kwargsParam, Kind.isNamed]

theorem validateAttrs_iff (b : Builder) (s : Sig) (c : Call α) :
    validateAttrs b (extraKw s c) = true ↔
      ∀ k ∈ c.kwNames, k ∉ namedNames s → k ∈ names b.virt := by
  simp only [validateAttrs, extraKw, List.all_eq_true, List.mem_filter, Call.kwNames,
    List.mem_map, List.contains_eq_mem, decide_eq_true_eq, Bool.not_eq_true',
    decide_eq_false_iff_not]
  constructor
  · rintro h k ⟨kv, hkv, rfl⟩ hn
    exact h kv ⟨hkv, hn⟩
  · rintro h kv ⟨hkv, hn⟩
    exact h kv.1 ⟨kv, hkv, rfl⟩ hn

/-- The heart of C17: binding against `r0 ++ [**kwargs]` and then checking the
collected names against the virtual names is the same as binding against
`r0 ++ virt`. -/
theorem accepts_tail (r0 virt : Sig) (c : Call α)
    (hv : KwTail virt) (hr0 : hasVarKw r0 = false)
    (hnd : (names (r0 ++ virt)).Nodup)
    (hd : ∀ p ∈ virt, p.kind = .kwOnly → p.hasDefault = true) :
    (Accepts (r0 ++ [kwargsParam]) c ∧
        (hasVarKw virt = false → ∀ k ∈ c.kwNames, k ∉ namedNames r0 → k ∈ names virt))
      ↔ Accepts (r0 ++ virt) c := by
  have hposK : posNames (r0 ++ [kwargsParam]) = posNames r0 := by
    rw [posNames_append, posNames_kwTail kwTail_kwargs, List.append_nil]
  have hposV : posNames (r0 ++ virt) = posNames r0 := by
    rw [posNames_append, posNames_kwTail hv, List.append_nil]
  have hvpK : hasVarPos (r0 ++ [kwargsParam]) = hasVarPos r0 := by
    rw [hasVarPos_append, hasVarPos_kwTail kwTail_kwargs, Bool.or_false]
  have hvpV : hasVarPos (r0 ++ virt) = hasVarPos r0 := by
    rw [hasVarPos_append, hasVarPos_kwTail hv, Bool.or_false]
  have hnK : namedNames (r0 ++ [kwargsParam]) = namedNames r0 := by
    rw [namedNames_append, namedNames_kwargs, List.append_nil]
  have hvkK : hasVarKw (r0 ++ [kwargsParam]) = true := by
    simp [hasVarKw, kwargsParam]
  have hvkV : hasVarKw (r0 ++ virt) = hasVarKw virt := by
    rw [hasVarKw_append, hr0, Bool.false_or]
  have htK : takenPos (r0 ++ [kwargsParam]) c = takenPos r0 c := takenPos_congr c hposK
  have htV : takenPos (r0 ++ virt) c = takenPos r0 c := takenPos_congr c hposV
  have hdisj : ∀ k, k ∈ names virt → k ∉ names r0 := by
    intro k hk hk0
    rw [names_append] at hnd
    exact (List.nodup_append.1 hnd).2.2 k hk0 k hk rfl
  constructor
  · rintro ⟨⟨h1, h2, h3, h4⟩, hval⟩
    refine ⟨?_, h2, ?_, ?_⟩
    · rw [hposV, hvpV]; rw [hposK, hvpK] at h1; exact h1
    · intro k hk
      obtain ⟨ha, _⟩ := h3 k hk
      rw [hnK, htK] at ha
      rw [htV, hvkV, namedNames_append]
      constructor
      · intro hmem
        rcases List.mem_append.1 hmem with hm | hm
        · exact ha hm
        · intro ht
          exact hdisj k (namedNames_sub_names hm) (takenPos_sub_names ht)
      · intro hnot
        have hn0 : k ∉ namedNames r0 := fun h => hnot (List.mem_append.2 (Or.inl h))
        have hnv : k ∉ namedNames virt := fun h => hnot (List.mem_append.2 (Or.inr h))
        cases hvv : hasVarKw virt with
        | true => rfl
        | false =>
          exfalso
          have := hval hvv k hk hn0
          rw [← names_kwTail_noVarKw hv hvv] at this
          exact hnv this
    · intro p hp
      rcases List.mem_append.1 hp with hp0 | hpv
      · rcases h4 p (List.mem_append.2 (Or.inl hp0)) with h | h | h
        · exact Or.inl h
        · exact Or.inr (Or.inl h)
        · refine Or.inr (Or.inr ?_)
          rw [filled_congr c p hposV]; rw [filled_congr c p hposK] at h; exact h
      · rcases hv p hpv with hk | hk
        · exact Or.inr (Or.inl (hd p hpv hk))
        · exact Or.inl (by simp [hk, Kind.isVar])
  · rintro ⟨h1, h2, h3, h4⟩
    refine ⟨⟨?_, h2, ?_, ?_⟩, ?_⟩
    · rw [hposK, hvpK]; rw [hposV, hvpV] at h1; exact h1
    · intro k hk
      obtain ⟨ha, _⟩ := h3 k hk
      rw [htV, namedNames_append] at ha
      rw [hnK, htK, hvkK]
      exact ⟨fun hm => ha (List.mem_append.2 (Or.inl hm)), fun _ => rfl⟩
    · intro p hp
      rcases List.mem_append.1 hp with hp0 | hpk
      · rcases h4 p (List.mem_append.2 (Or.inl hp0)) with h | h | h
        · exact Or.inl h
        · exact Or.inr (Or.inl h)
        · refine Or.inr (Or.inr ?_)
          rw [filled_congr c p hposK]; rw [filled_congr c p hposV] at h; exact h
      · simp at hpk; subst hpk; exact Or.inl rfl
    · intro hvv k hk hn0
      obtain ⟨_, hb⟩ := h3 k hk
      rw [hvkV, hvv, namedNames_append] at hb
      have : k ∈ namedNames r0 ++ namedNames virt := by
        apply Classical.byContradiction
        intro hcon
        exact absurd (hb hcon) (by simp)
      rcases List.mem_append.1 this with h | h
      · exact absurd h hn0
      · exact namedNames_sub_names h

end SpecVerif.C17
