import SpecVerif.Model.C17Impl
import SpecVerif.Proofs.C17
/-!
Helper lemmas for the implementation-level theorems of `Props/C17.lean`
(`Model/C17Impl.lean`: `updateImpl`, `initImpl`). Core Lean only.
-/
set_option linter.unusedSectionVars false
set_option linter.unusedSimpArgs false
set_option linter.unusedVariables false
namespace SpecVerif.C17
open SpecVerif.Py

variable {α β : Type}

/-! ## attribute dictionaries -/

theorem kwGet_nil (n : Name) : kwGet ([] : List (Name × β)) n = none := rfl

theorem kwGet_cons (k : Name) (v : β) (rest : List (Name × β)) (n : Name) :
    kwGet ((k, v) :: rest) n = if k == n then some v else kwGet rest n := by
  unfold kwGet
  simp only [List.find?_cons]
  split <;> simp_all

theorem setField_cons (k' : Name) (v' : β) (rest : Fields β) (k : Name) (v : β) :
    setField ((k', v') :: rest) k v = if k' == k then (k, v) :: rest else (k', v') :: setField rest k v := rfl

theorem getField_setField_same (fs : Fields β) (k : Name) (v : β) :
    getField (setField fs k v) k = some v := by
  unfold getField
  induction fs with
  | nil => simp [setField, kwGet_cons]
  | cons kv rest ih =>
    obtain ⟨k', v'⟩ := kv
    rw [setField_cons]
    by_cases h : k' = k
    · simp [h, kwGet_cons]
    · simp [h, kwGet_cons, ih]

theorem getField_setField_other (fs : Fields β) (k n : Name) (v : β) (h : k ≠ n) :
    getField (setField fs k v) n = getField fs n := by
  unfold getField
  induction fs with
  | nil => simp [setField, kwGet_cons, kwGet_nil, h]
  | cons kv rest ih =>
    obtain ⟨k', v'⟩ := kv
    rw [setField_cons]
    by_cases hk : k' = k
    · subst hk
      simp [kwGet_cons, h]
    · simp only [hk, beq_iff_eq, if_false, kwGet_cons, ih]

/-- a keyword present (once) is what `kwGet` finds -/
theorem kwGet_of_mem_nodup {kw : List (Name × β)} {k : Name} {v : β}
    (hn : (kw.map (·.1)).Nodup) (h : (k, v) ∈ kw) : kwGet kw k = some v := by
  induction kw with
  | nil => cases h
  | cons kv rest ih =>
    obtain ⟨k', v'⟩ := kv
    simp only [List.map_cons, List.nodup_cons] at hn
    rw [kwGet_cons]
    rcases List.mem_cons.1 h with heq | hin
    · cases heq; simp
    · have hne : k' ≠ k := by
        intro he; subst he
        exact hn.1 (List.mem_map.2 ⟨(k', v), hin, rfl⟩)
      simp [hne, ih hn.2 hin]

theorem kwGet_filter_keep {kw : List (Name × β)} {n : Name} (q : Name × β → Bool)
    (h : ∀ kv ∈ kw, kv.1 = n → q kv = true) : kwGet (kw.filter q) n = kwGet kw n := by
  induction kw with
  | nil => rfl
  | cons kv rest ih =>
    obtain ⟨k', v'⟩ := kv
    have ih' := ih (fun kv hkv => h kv (List.mem_cons_of_mem _ hkv))
    by_cases hq : q (k', v') = true
    · simp only [List.filter_cons, hq, if_true, kwGet_cons, ih']
    · have hne : k' ≠ n := fun he => hq (h (k', v') (List.mem_cons_self ..) he)
      simp [List.filter_cons, hq, kwGet_cons, ih', hne]

theorem kwGet_append_some {a b : List (Name × β)} {n : Name} {v : β} (h : kwGet a n = some v) :
    kwGet (a ++ b) n = some v := by
  unfold kwGet at *
  rw [List.find?_append]
  cases hf : a.find? (fun p => p.1 == n) with
  | none => simp [hf] at h
  | some x => simpa [hf] using h

theorem filter_keys_nodup {kw : List (Name × β)} (q : Name × β → Bool)
    (hn : (kw.map (·.1)).Nodup) : ((kw.filter q).map (·.1)).Nodup :=
  List.Nodup.sublist (List.Sublist.map _ List.filter_sublist) hn

/-! ## `applyAttrs` -/

theorem applyAttrs_preserve (E : Env α) (attrs : List (Name × Arg α)) (fs : Fields α) (n : Name)
    (h : n ∉ attrs.map (·.1)) : getField (applyAttrs E fs attrs) n = getField fs n := by
  induction attrs generalizing fs with
  | nil => rfl
  | cons kv rest ih =>
    obtain ⟨k, a⟩ := kv
    simp only [List.map_cons, List.mem_cons, not_or] at h
    cases a with
    | dflt m => simpa [applyAttrs] using ih fs h.2
    | val v =>
      simp only [applyAttrs]
      rw [ih _ h.2]
      split
      · exact getField_setField_other fs k n v (fun he => h.1 he.symm)
      · rfl

theorem applyAttrs_reaches (E : Env α) (attrs : List (Name × Arg α)) (fs : Fields α) (k : Name) (v : α)
    (hn : (attrs.map (·.1)).Nodup) (hm : (k, Arg.val v) ∈ attrs) (hp : E.sent v = .plain) :
    getField (applyAttrs E fs attrs) k = some v := by
  induction attrs generalizing fs with
  | nil => cases hm
  | cons kv rest ih =>
    obtain ⟨k', a⟩ := kv
    simp only [List.map_cons, List.nodup_cons] at hn
    rcases List.mem_cons.1 hm with heq | hin
    · cases heq
      simp only [applyAttrs, hp, beq_self_eq_true, if_true]
      rw [applyAttrs_preserve E rest _ k hn.1]
      exact getField_setField_same fs k v
    · cases a with
      | dflt m => simpa [applyAttrs] using ih fs hn.2 hin
      | val w => simpa [applyAttrs] using ih _ hn.2 hin

/-! ## `ownLoop` -/

/-- what a run of `storeOne` over a list of attributes with distinct names leaves in attribute `n` -/
theorem foldl_storeOne (cfg : InitCfg) (o : Nat) (kw : Fields (IVal α)) (l : List CAttr)
    (hn : (l.map (·.name)).Nodup) (fs : Fields (IVal α)) (n : Name) :
    getField (l.foldl (storeOne cfg o kw) fs) n =
      match l.find? (fun a => a.name == n) with
      | some a => (match storeVal cfg o kw a with | some x => some x | none => getField fs n)
      | none => getField fs n := by
  induction l generalizing fs with
  | nil => rfl
  | cons a rest ih =>
    simp only [List.map_cons, List.nodup_cons] at hn
    simp only [List.foldl_cons, List.find?_cons]
    rw [ih hn.2]
    by_cases ha : (a.name == n) = true
    · have ha' : a.name = n := by simpa using ha
      have hnone : rest.find? (fun b => b.name == n) = none := by
        rw [List.find?_eq_none]
        intro b hb hbn
        exact hn.1 (List.mem_map.2 ⟨b, hb, by rw [ha']; simpa using hbn⟩)
      simp only [ha, hnone]
      unfold storeOne
      cases hs : storeVal cfg o kw a with
      | none => rfl
      | some x => simp only []; rw [← ha']; exact getField_setField_same fs a.name x
    · have ha' : a.name ≠ n := by simpa using ha
      simp only [ha]
      have hkeep : getField (storeOne cfg o kw fs a) n = getField fs n := by
        unfold storeOne
        cases hs : storeVal cfg o kw a with
        | none => rfl
        | some x => exact getField_setField_other fs a.name n x ha'
      rw [hkeep]

theorem findAttr_mem {cfg : InitCfg} {n : Name} {a : CAttr} (h : findAttr cfg n = some a) :
    a ∈ cfg.attrs ∧ a.name = n := by
  unfold findAttr at h
  exact ⟨List.mem_of_find?_eq_some h, by simpa using List.find?_some h⟩

theorem findAttr_of_mem {cfg : InitCfg} (hn : (cfg.attrs.map (·.name)).Nodup) {a : CAttr}
    (ha : a ∈ cfg.attrs) : findAttr cfg a.name = some a := by
  unfold findAttr
  generalize cfg.attrs = l at hn ha
  induction l with
  | nil => cases ha
  | cons b rest ih =>
    simp only [List.map_cons, List.nodup_cons] at hn
    rw [List.find?_cons]
    rcases List.mem_cons.1 ha with heq | hin
    · subst heq; simp
    · have hne : (b.name == a.name) = false := by
        simpa using fun he => hn.1 (List.mem_map.2 ⟨a, hin, he.symm⟩)
      rw [hne]
      exact ih hn.2 hin

/-- `ownLoop` for `owner`: the attribute called `n` -/
theorem ownLoop_get (cfg : InitCfg) (hn : (cfg.attrs.map (·.name)).Nodup) (o : Nat)
    (kw fs : Fields (IVal α)) (n : Name) :
    getField (ownLoop cfg o kw fs) n =
      match findAttr cfg n with
      | some a => (match storeVal cfg o kw a with | some x => some x | none => getField fs n)
      | none => getField fs n := by
  unfold ownLoop findAttr
  exact foldl_storeOne cfg o kw cfg.attrs hn fs n

/-- an attribute owned by somebody else is not touched -/
theorem ownLoop_other (cfg : InitCfg) (hn : (cfg.attrs.map (·.name)).Nodup) (o : Nat)
    (kw fs : Fields (IVal α)) {n : Name} {a : CAttr} (ha : findAttr cfg n = some a)
    (ho : a.owner ≠ o) : getField (ownLoop cfg o kw fs) n = getField fs n := by
  rw [ownLoop_get cfg hn, ha]
  have : storeVal cfg o kw a = none := by
    unfold storeVal
    have : (a.owner != o) = true := by simpa using ho
    simp [this]
  simp [this]

/-- a name that is no attribute at all is not touched -/
theorem ownLoop_nonattr (cfg : InitCfg) (hn : (cfg.attrs.map (·.name)).Nodup) (o : Nat)
    (kw fs : Fields (IVal α)) {n : Name} (ha : findAttr cfg n = none) :
    getField (ownLoop cfg o kw fs) n = getField fs n := by
  rw [ownLoop_get cfg hn, ha]

/-- the owner stores the caller's value -/
theorem ownLoop_given (cfg : InitCfg) (hn : (cfg.attrs.map (·.name)).Nodup) (o : Nat)
    (kw fs : Fields (IVal α)) {n : Name} {a : CAttr} {v : α} (ha : findAttr cfg n = some a)
    (hi : initable cfg a = true) (ho : a.owner = o) (hk : kwGet kw n = some (.given v)) :
    getField (ownLoop cfg o kw fs) n = some (.given v) := by
  rw [ownLoop_get cfg hn, ha]
  have hname := (findAttr_mem ha).2
  have : storeVal cfg o kw a = some (.given v) := by
    unfold storeVal
    simp [hi, ho, hname, hk]
  simp [this]

/-- no keyword (or `MISSING`): the default, when there is one -/
theorem ownLoop_default (cfg : InitCfg) (hn : (cfg.attrs.map (·.name)).Nodup) (o : Nat)
    (kw fs : Fields (IVal α)) {n : Name} {a : CAttr} (ha : findAttr cfg n = some a)
    (hi : initable cfg a = true) (ho : a.owner = o) (hd : a.hasDefault = true)
    (hk : kwGet kw n = none ∨ kwGet kw n = some .missing) :
    getField (ownLoop cfg o kw fs) n = some (.dflt n) := by
  rw [ownLoop_get cfg hn, ha]
  have hname := (findAttr_mem ha).2
  have : storeVal cfg o kw a = some (.dflt n) := by
    unfold storeVal
    rcases hk with hk | hk <;> simp [hi, ho, hname, hk, hd]
  simp [this]

/-! ## `parentKwargs` / `remaining` -/

theorem handed_owner {cfg : InitCfg} {p : Ancestor} {n : Name} {a : CAttr}
    (ha : findAttr cfg n = some a) : handed cfg p n = (a.owner == p.id && initable cfg a) := by
  unfold handed; rw [ha]

theorem handed_nonattr {cfg : InitCfg} {p : Ancestor} {n : Name}
    (ha : findAttr cfg n = none) : handed cfg p n = false := by
  unfold handed; rw [ha]

/-- the `filterMap` of `parentKwargs`, entry of `n` -/
theorem kwGet_filterMap_names (l : List Name) (g : Name → Option (Name × β))
    (hg : ∀ m y, g m = some y → y.1 = m) (hl : l.Nodup) {n : Name} {x : β}
    (hn : n ∈ l) (hx : g n = some (n, x)) : kwGet (l.filterMap g) n = some x := by
  induction l with
  | nil => cases hn
  | cons m rest ih =>
    simp only [List.nodup_cons] at hl
    rw [List.filterMap_cons]
    rcases List.mem_cons.1 hn with heq | hin
    · subst heq
      simp [hx, kwGet_cons]
    · have hne : m ≠ n := fun he => hl.1 (he ▸ hin)
      cases hm : g m with
      | none => simpa [hm] using ih hl.2 hin
      | some y =>
        obtain ⟨m', y'⟩ := y
        have : m' = m := hg m (m', y') hm
        subst this
        simp only [kwGet_cons]
        simp [hne, ih hl.2 hin]

theorem filterMap_keys_sub (l : List Name) (g : Name → Option (Name × β))
    (hg : ∀ m y, g m = some y → y.1 = m) : ((l.filterMap g).map (·.1)).Sublist l := by
  induction l with
  | nil => simp
  | cons m rest ih =>
    rw [List.filterMap_cons]
    cases hm : g m with
    | none => simpa [hm] using List.Sublist.cons m ih
    | some y =>
      have : y.1 = m := hg m y hm
      simp only [List.map_cons, this]
      exact List.Sublist.cons_cons m ih

/-- the function `parentKwargs` maps over `parent_metadata.attrs` -/
def pkwEntry (cfg : InitCfg) (p : Ancestor) (kwargs : Fields (IVal α)) (n : Name) : Option (Name × IVal α) :=
  if handed cfg p n then
    match kwGet kwargs n with
    | some v => some (n, v)
    | none => if (findAttr cfg n).any (·.hasDefault) then some (n, IVal.dflt n) else none
  else none

theorem pkwEntry_key (cfg : InitCfg) (p : Ancestor) (kwargs : Fields (IVal α)) :
    ∀ m y, pkwEntry cfg p kwargs m = some y → y.1 = m := by
  intro m y h
  unfold pkwEntry at h
  split at h
  · split at h
    · cases h; rfl
    · split at h
      · cases h; rfl
      · cases h
  · cases h

theorem pkwEntry_handed (cfg : InitCfg) (p : Ancestor) (kwargs : Fields (IVal α)) {m : Name} {y : Name × IVal α}
    (h : pkwEntry cfg p kwargs m = some y) : handed cfg p m = true := by
  unfold pkwEntry at h
  split at h
  · assumption
  · cases h

theorem parentKwargs_eq (cfg : InitCfg) (p : Ancestor) (kwargs : Fields (IVal α)) :
    parentKwargs cfg p kwargs =
      (match p.key with
       | some k => if ((p.attrs.filterMap (pkwEntry cfg p kwargs)).map (·.1)).contains k
                   then p.attrs.filterMap (pkwEntry cfg p kwargs)
                   else p.attrs.filterMap (pkwEntry cfg p kwargs) ++ [(k, IVal.missing)]
       | none => p.attrs.filterMap (pkwEntry cfg p kwargs)) := by
  unfold parentKwargs pkwEntry
  rfl

/-- the keyword a parent owns arrives in its `parent_kwargs` -/
theorem parentKwargs_get (cfg : InitCfg) (p : Ancestor) (kwargs : Fields (IVal α)) (hp : p.attrs.Nodup)
    {n : Name} {x : IVal α} (hn : n ∈ p.attrs) (hh : handed cfg p n = true)
    (hk : kwGet kwargs n = some x) : kwGet (parentKwargs cfg p kwargs) n = some x := by
  have hbase : kwGet (p.attrs.filterMap (pkwEntry cfg p kwargs)) n = some x := by
    apply kwGet_filterMap_names _ _ (pkwEntry_key cfg p kwargs) hp hn
    unfold pkwEntry
    simp [hh, hk]
  rw [parentKwargs_eq]
  cases p.key with
  | none => exact hbase
  | some k =>
    simp only []
    split
    · exact hbase
    · exact kwGet_append_some hbase

theorem parentKwargs_keys_nodup (cfg : InitCfg) (p : Ancestor) (kwargs : Fields (IVal α))
    (hp : p.attrs.Nodup) : ((parentKwargs cfg p kwargs).map (·.1)).Nodup := by
  have hb : ((p.attrs.filterMap (pkwEntry cfg p kwargs)).map (·.1)).Nodup :=
    List.Nodup.sublist (filterMap_keys_sub _ _ (pkwEntry_key cfg p kwargs)) hp
  rw [parentKwargs_eq]
  cases p.key with
  | none => exact hb
  | some k =>
    simp only []
    split
    · exact hb
    · rename_i hc
      rw [List.map_append, List.nodup_append]
      refine ⟨hb, by simp, ?_⟩
      intro a ha b hb'
      simp at hb'
      subst hb'
      intro he; subst he
      apply hc
      simpa using ha

/-- every key of `parent_kwargs` is an attribute handed to the parent, or the parent's key -/
theorem parentKwargs_keys (cfg : InitCfg) (p : Ancestor) (kwargs : Fields (IVal α)) {k : Name}
    (hk : k ∈ (parentKwargs cfg p kwargs).map (·.1)) :
    (k ∈ p.attrs ∧ handed cfg p k = true) ∨ p.key = some k := by
  have hbase : ∀ k, k ∈ (p.attrs.filterMap (pkwEntry cfg p kwargs)).map (·.1) →
      k ∈ p.attrs ∧ handed cfg p k = true := by
    intro k hk
    obtain ⟨y, hy, rfl⟩ := List.mem_map.1 hk
    obtain ⟨m, hm, hmy⟩ := List.mem_filterMap.1 hy
    have := pkwEntry_key cfg p kwargs m y hmy
    rw [this]
    exact ⟨hm, pkwEntry_handed cfg p kwargs hmy⟩
  rw [parentKwargs_eq] at hk
  cases hkey : p.key with
  | none => rw [hkey] at hk; exact Or.inl (hbase k hk)
  | some k' =>
    rw [hkey] at hk
    simp only [] at hk
    split at hk
    · exact Or.inl (hbase k hk)
    · rw [List.map_append, List.mem_append] at hk
      rcases hk with hk | hk
      · exact Or.inl (hbase k hk)
      · simp at hk; subst hk; exact Or.inr rfl

/-- the parent's key is always among `parent_kwargs` -/
theorem parentKwargs_has_key (cfg : InitCfg) (p : Ancestor) (kwargs : Fields (IVal α)) {k : Name}
    (hkey : p.key = some k) : k ∈ (parentKwargs cfg p kwargs).map (·.1) := by
  rw [parentKwargs_eq, hkey]
  simp only []
  split
  · rename_i hc; simpa using hc
  · simp

theorem remaining_get_other (cfg : InitCfg) (p : Ancestor) (kwargs : Fields (IVal α)) {n : Name}
    (h : handed cfg p n = false) : kwGet (remaining cfg p kwargs) n = kwGet kwargs n := by
  unfold remaining
  apply kwGet_filter_keep
  intro kv _ hkv
  simp [hkv, h]

theorem remaining_mem_other (cfg : InitCfg) (p : Ancestor) (kwargs : Fields (IVal α)) {n : Name} {x : IVal α}
    (h : handed cfg p n = false) (hm : (n, x) ∈ kwargs) : (n, x) ∈ remaining cfg p kwargs := by
  unfold remaining
  rw [List.mem_filter]
  exact ⟨hm, by simp [h]⟩

theorem remaining_sub (cfg : InitCfg) (p : Ancestor) (kwargs : Fields (IVal α)) {kv : Name × IVal α}
    (hm : kv ∈ remaining cfg p kwargs) : kv ∈ kwargs := by
  unfold remaining at hm
  exact (List.mem_filter.1 hm).1

/-! ## well-formed hierarchies as propositions -/

theorem nodupB'_iff (l : List Nat) : hierOKB.nodupB' l = true ↔ l.Nodup := by
  induction l with
  | nil => simp [hierOKB.nodupB']
  | cons x xs ih => simp [hierOKB.nodupB', ih, List.nodup_cons]

structure HierOK (cfg : InitCfg) : Prop where
  attrsNodup : (cfg.attrs.map (·.name)).Nodup
  idsNodup : (cfg.ancestors.map (·.id)).Nodup
  idPos : ∀ p ∈ cfg.ancestors, p.id ≠ 0
  pattrsNodup : ∀ p ∈ cfg.ancestors, p.attrs.Nodup
  ctorOK : ∀ p ∈ cfg.ancestors, p.isSpec = true → ctorOKB cfg p = true
  owned : ∀ a ∈ cfg.attrs, a.owner ≠ 0 → initable cfg a = true →
    ∃ p ∈ cfg.ancestors, p.id = a.owner ∧ p.isSpec = true ∧ a.name ∈ p.attrs

theorem hierOK_of_B {cfg : InitCfg} (h : hierOKB cfg = true) : HierOK cfg := by
  unfold hierOKB at h
  simp only [Bool.and_eq_true, nodupB_iff, nodupB'_iff, List.all_eq_true, Bool.or_eq_true,
    Bool.not_eq_true', bne_iff_ne, ne_eq, beq_iff_eq, List.any_eq_true, List.contains_eq_mem,
    decide_eq_true_eq] at h
  obtain ⟨⟨⟨h1, h2⟩, h3⟩, h4⟩ := h
  refine ⟨h1, h2, fun p hp => (h3 p hp).1.1, fun p hp => (h3 p hp).1.2, ?_, ?_⟩
  · intro p hp hs
    rcases (h3 p hp).2 with hns | hc
    · rw [hs] at hns; cases hns
    · exact hc
  · intro a ha ho hi
    rcases h4 a ha with (h0 | hni) | hex
    · exact absurd h0 ho
    · rw [hi] at hni; cases hni
    · obtain ⟨p, hp, ⟨hid, hsp⟩, hmem⟩ := hex
      exact ⟨p, hp, hid, hsp, hmem⟩

/-! ## the parent's constructor accepts what it is handed -/

theorem ctor_accepts (cfg : InitCfg) (p : Ancestor) (kwargs : Fields (IVal α)) (hp : p.attrs.Nodup)
    (hc : ctorOKB cfg p = true) :
    acceptsB p.ctor (⟨[IVal.missing], parentKwargs cfg p kwargs⟩ : Call (IVal α)) = true := by
  unfold ctorOKB at hc
  simp only [Bool.and_eq_true, List.all_eq_true, Bool.or_eq_true, Bool.not_eq_true',
    List.contains_eq_mem, decide_eq_true_eq, bne_iff_ne, ne_eq, beq_iff_eq] at hc
  obtain ⟨⟨⟨hhead, hattrs⟩, hkey⟩, hreq⟩ := hc
  -- the first positional parameter is `self`
  obtain ⟨rest, hpos⟩ : ∃ rest, posNames p.ctor = "self" :: rest := by
    cases hpn : posNames p.ctor with
    | nil => rw [hpn] at hhead; simp at hhead
    | cons x xs => rw [hpn] at hhead; simp at hhead; exact ⟨xs, by rw [hhead]⟩
  have htaken : takenPos p.ctor (⟨[IVal.missing], parentKwargs cfg p kwargs⟩ : Call (IVal α)) = ["self"] := by
    simp [takenPos, hpos]
  have hkeyOK : ∀ k, p.key = some k → k ∈ namedNames p.ctor ∧ k ≠ "self" := by
    intro k hk
    rw [hk] at hkey
    simpa using hkey
  rw [acceptsB_iff]
  refine ⟨Or.inl (by simp [hpos]), parentKwargs_keys_nodup cfg p kwargs hp, ?_, ?_⟩
  · intro k hk
    have hk' : k ∈ (parentKwargs cfg p kwargs).map (·.1) := hk
    have hnamed : k ∈ namedNames p.ctor ∧ k ≠ "self" := by
      rcases parentKwargs_keys cfg p kwargs hk' with ⟨hin, hh⟩ | hkk
      · rcases hattrs k hin with hf | hok
        · rw [hh] at hf; cases hf
        · exact hok
      · exact hkeyOK k hkk
    refine ⟨fun _ => ?_, fun hnot => absurd hnamed.1 hnot⟩
    rw [htaken]
    simpa using hnamed.2
  · intro q hq
    rcases hreq q hq with ((hv | hd) | hs) | hk
    · exact Or.inl hv
    · exact Or.inr (Or.inl hd)
    · refine Or.inr (Or.inr ?_)
      unfold filled
      rw [htaken, hs]
      simp
    · refine Or.inr (Or.inr ?_)
      obtain ⟨hkq, hnm⟩ := hk
      unfold filled
      have : q.name ∈ (parentKwargs cfg p kwargs).map (·.1) := parentKwargs_has_key cfg p kwargs hkq
      simp only [hnm, Bool.true_and, Bool.or_eq_true]
      right
      simpa [Call.kwNames] using this

/-! ## `parentsLoop` -/

theorem ownLoop_dflt (cfg : InitCfg) (hn : (cfg.attrs.map (·.name)).Nodup) (o : Nat)
    (kw fs : Fields (IVal α)) {n m : Name} {a : CAttr} (ha : findAttr cfg n = some a)
    (hi : initable cfg a = true) (ho : a.owner = o) (hk : kwGet kw n = some (.dflt m)) :
    getField (ownLoop cfg o kw fs) n = some (.dflt m) := by
  rw [ownLoop_get cfg hn, ha]
  have hname := (findAttr_mem ha).2
  have : storeVal cfg o kw a = some (.dflt m) := by
    unfold storeVal
    simp [hi, ho, hname, hk]
  simp [this]

/-- the entry `pkwEntry` produces for `n` is what `kwGet` finds in `parent_kwargs` -/
theorem parentKwargs_get' (cfg : InitCfg) (p : Ancestor) (kwargs : Fields (IVal α)) (hp : p.attrs.Nodup)
    {n : Name} {x : IVal α} (hn : n ∈ p.attrs) (hx : pkwEntry cfg p kwargs n = some (n, x)) :
    kwGet (parentKwargs cfg p kwargs) n = some x := by
  have hbase : kwGet (p.attrs.filterMap (pkwEntry cfg p kwargs)) n = some x :=
    kwGet_filterMap_names _ _ (pkwEntry_key cfg p kwargs) hp hn hx
  rw [parentKwargs_eq]
  cases p.key with
  | none => exact hbase
  | some k =>
    simp only []
    split
    · exact hbase
    · exact kwGet_append_some hbase

theorem parentsLoop_nil (cfg : InitCfg) (fs kw : Fields (IVal α)) :
    parentsLoop cfg [] fs kw = .ok (fs, kw) := rfl

theorem parentsLoop_cons (cfg : InitCfg) (p : Ancestor) (rest : List Ancestor) (fs kw : Fields (IVal α)) :
    parentsLoop cfg (p :: rest) fs kw =
      if !p.isSpec then parentsLoop cfg rest fs kw
      else if !acceptsB p.ctor (⟨[IVal.missing], parentKwargs cfg p kw⟩ : Call (IVal α)) then .error .typeError
      else parentsLoop cfg rest (ownLoop cfg p.id (parentKwargs cfg p kw) fs) (remaining cfg p kw) := rfl

/-- on a well-formed hierarchy no parent constructor rejects what it is handed -/
theorem parentsLoop_ok (cfg : InitCfg) (ps : List Ancestor)
    (hps : ∀ p ∈ ps, p.attrs.Nodup ∧ (p.isSpec = true → ctorOKB cfg p = true))
    (fs kw : Fields (IVal α)) : ∃ r, parentsLoop cfg ps fs kw = .ok r := by
  induction ps generalizing fs kw with
  | nil => exact ⟨_, rfl⟩
  | cons p rest ih =>
    have ih' := ih (fun q hq => hps q (List.mem_cons_of_mem _ hq))
    rw [parentsLoop_cons]
    by_cases hs : p.isSpec = true
    · have hacc := ctor_accepts cfg p kw (hps p (List.mem_cons_self ..)).1
        ((hps p (List.mem_cons_self ..)).2 hs)
      simp only [hs, hacc, Bool.not_true, Bool.false_eq_true, if_false]
      exact ih' _ _
    · simp only [hs, Bool.not_false, if_true]
      simpa [hs] using ih' fs kw

/-- keywords that no spec-class ancestor of the list is handed stay in `kwargs` -/
theorem parentsLoop_kw_keep (cfg : InitCfg) (ps : List Ancestor) (fs kw fs' kw' : Fields (IVal α))
    (h : parentsLoop cfg ps fs kw = .ok (fs', kw')) (n : Name)
    (hh : ∀ p ∈ ps, p.isSpec = true → handed cfg p n = false) :
    kwGet kw' n = kwGet kw n ∧ (∀ x, (n, x) ∈ kw → (n, x) ∈ kw') := by
  induction ps generalizing fs kw with
  | nil => rw [parentsLoop_nil] at h; cases h; exact ⟨rfl, fun _ hx => hx⟩
  | cons p rest ih =>
    have hh' : ∀ q ∈ rest, q.isSpec = true → handed cfg q n = false :=
      fun q hq => hh q (List.mem_cons_of_mem _ hq)
    rw [parentsLoop_cons] at h
    by_cases hs : p.isSpec = true
    · simp only [hs, Bool.not_true, Bool.false_eq_true, if_false] at h
      split at h
      · cases h
      · have hp := hh p (List.mem_cons_self ..) hs
        obtain ⟨h1, h2⟩ := ih _ _ h hh'
        refine ⟨by rw [h1, remaining_get_other cfg p kw hp], fun x hx => h2 x ?_⟩
        exact remaining_mem_other cfg p kw hp hx
    · have hs' : p.isSpec = false := by simpa using hs
      simp only [hs', Bool.not_false, if_true] at h
      exact ih _ _ h hh'

/-- whatever is left in `kwargs` was there at the start -/
theorem parentsLoop_kw_sub (cfg : InitCfg) (ps : List Ancestor) (fs kw fs' kw' : Fields (IVal α))
    (h : parentsLoop cfg ps fs kw = .ok (fs', kw')) : ∀ kv ∈ kw', kv ∈ kw := by
  induction ps generalizing fs kw with
  | nil => rw [parentsLoop_nil] at h; cases h; exact fun _ hx => hx
  | cons p rest ih =>
    rw [parentsLoop_cons] at h
    by_cases hs : p.isSpec = true
    · simp only [hs, Bool.not_true, Bool.false_eq_true, if_false] at h
      split at h
      · cases h
      · exact fun kv hkv => remaining_sub cfg p kw (ih _ _ h kv hkv)
    · have hs' : p.isSpec = false := by simpa using hs
      simp only [hs', Bool.not_false, if_true] at h
      exact ih _ _ h

/-- an attribute that no spec-class ancestor of the list owns is not touched by their constructors -/
theorem parentsLoop_field_keep (cfg : InitCfg) (hn : (cfg.attrs.map (·.name)).Nodup) (ps : List Ancestor)
    (fs kw fs' kw' : Fields (IVal α)) (h : parentsLoop cfg ps fs kw = .ok (fs', kw')) (n : Name)
    (hown : ∀ a, findAttr cfg n = some a → ∀ p ∈ ps, p.isSpec = true → a.owner ≠ p.id) :
    getField fs' n = getField fs n := by
  induction ps generalizing fs kw with
  | nil => rw [parentsLoop_nil] at h; cases h; rfl
  | cons p rest ih =>
    have hown' : ∀ a, findAttr cfg n = some a → ∀ q ∈ rest, q.isSpec = true → a.owner ≠ q.id :=
      fun a ha q hq => hown a ha q (List.mem_cons_of_mem _ hq)
    rw [parentsLoop_cons] at h
    by_cases hs : p.isSpec = true
    · simp only [hs, Bool.not_true, Bool.false_eq_true, if_false] at h
      split at h
      · cases h
      · rw [ih _ _ h hown']
        cases ha : findAttr cfg n with
        | none => exact ownLoop_nonattr cfg hn _ _ _ ha
        | some a => exact ownLoop_other cfg hn _ _ _ ha (hown a ha p (List.mem_cons_self ..) hs)
    · have hs' : p.isSpec = false := by simpa using hs
      simp only [hs', Bool.not_false, if_true] at h
      exact ih _ _ h hown'

/-- what the owner's constructor stores for attribute `n`, as a function of what `kwargs` holds for it -/
theorem parentsLoop_stores (cfg : InitCfg) (hn : (cfg.attrs.map (·.name)).Nodup) (ps : List Ancestor)
    (hids : (ps.map (·.id)).Nodup) (hpa : ∀ p ∈ ps, p.attrs.Nodup)
    (fs kw fs' kw' : Fields (IVal α)) (h : parentsLoop cfg ps fs kw = .ok (fs', kw'))
    {n : Name} {a : CAttr} (ha : findAttr cfg n = some a) (hi : initable cfg a = true)
    {p : Ancestor} (hp : p ∈ ps) (hpid : p.id = a.owner) (hsp : p.isSpec = true) (hmem : n ∈ p.attrs) :
    (∀ v, kwGet kw n = some (.given v) → getField fs' n = some (.given v)) ∧
    (a.hasDefault = true → (kwGet kw n = none ∨ kwGet kw n = some .missing) →
        getField fs' n = some (.dflt n)) := by
  induction ps generalizing fs kw with
  | nil => cases hp
  | cons q rest ih =>
    simp only [List.map_cons, List.nodup_cons] at hids
    rw [parentsLoop_cons] at h
    have hhanded : handed cfg p n = true := by
      rw [handed_owner ha]; simp [hpid, hi]
    rcases List.mem_cons.1 hp with heq | hin
    · -- `q` is the owner
      subst heq
      simp only [hsp, Bool.not_true, Bool.false_eq_true, if_false] at h
      split at h
      · cases h
      · have hkeep : getField fs' n = getField (ownLoop cfg p.id (parentKwargs cfg p kw) fs) n := by
          apply parentsLoop_field_keep cfg hn rest _ _ _ _ h n
          intro a' ha' q hq _ he
          rw [ha] at ha'; cases ha'
          exact hids.1 (List.mem_map.2 ⟨q, hq, by rw [← he, hpid]⟩)
        have hpn := hpa p (List.mem_cons_self ..)
        refine ⟨fun v hk => ?_, fun hd hk => ?_⟩
        · rw [hkeep]
          exact ownLoop_given cfg hn _ _ _ ha hi hpid.symm (parentKwargs_get cfg p kw hpn hmem hhanded hk)
        · rw [hkeep]
          rcases hk with hk | hk
          · have hx : pkwEntry cfg p kw n = some (n, IVal.dflt n) := by
              unfold pkwEntry
              simp [hhanded, hk, ha, hd]
            exact ownLoop_dflt cfg hn _ _ _ ha hi hpid.symm (parentKwargs_get' cfg p kw hpn hmem hx)
          · exact ownLoop_default cfg hn _ _ _ ha hi hpid.symm hd
              (Or.inr (parentKwargs_get cfg p kw hpn hmem hhanded hk))
    · -- the owner comes later
      have hne : q.id ≠ p.id := fun he => hids.1 (List.mem_map.2 ⟨p, hin, he.symm⟩)
      have hpa' : ∀ r ∈ rest, r.attrs.Nodup := fun r hr => hpa r (List.mem_cons_of_mem _ hr)
      by_cases hs : q.isSpec = true
      · simp only [hs, Bool.not_true, Bool.false_eq_true, if_false] at h
        split at h
        · cases h
        · have hq : handed cfg q n = false := by
            rw [handed_owner ha]
            have : (a.owner == q.id) = false := by
              simpa using fun he : a.owner = q.id => hne (by rw [← he, hpid])
            simp [this]
          have := ih hids.2 hpa' _ _ h hin
          rw [remaining_get_other cfg q kw hq] at this
          exact this
      · have hs' : q.isSpec = false := by simpa using hs
        simp only [hs', Bool.not_false, if_true] at h
        exact ih hids.2 hpa' _ _ h hin

end SpecVerif.C17
