import SpecVerif.Model.C17Reg
/-!
Helper lemmas for the registration / resolution theorems of `Props/C17.lean` (`Model/C17Reg.lean`). Core Lean only.

The central invariant `Inv`: the `__dict__` of every class, read up to "descriptor or already built", is a function
of WHICH classes exist and WHICH are bootstrapped (`expected`) — not of the order of events.
-/
set_option linter.unusedSectionVars false
set_option linter.unusedSimpArgs false
set_option linter.unusedVariables false
namespace SpecVerif.C17.Reg
open SpecVerif.C17

structure Inv (W : World) (st : RState) : Prop where
  dict : ∀ k n, (st.dict k n).map Entry.own = expected W st k n
  bd : ∀ k, st.booted k = true → st.defined k = true

/-! ## `register_method` -/

theorem registerMethod_defined (st : RState) (c : Nat) (m : Name) (e : Entry) :
    (registerMethod st c m e).defined = st.defined := by
  unfold registerMethod setEntry; split <;> rfl

theorem registerMethod_booted (st : RState) (c : Nat) (m : Name) (e : Entry) :
    (registerMethod st c m e).booted = st.booted := by
  unfold registerMethod setEntry; split <;> rfl

theorem registerMethod_dict (st : RState) (c : Nat) (m : Name) (e : Entry) (k : Nat) (n : Name) :
    (registerMethod st c m e).dict k n =
      if k = c ∧ n = m ∧ ((st.dict c m).isSome = false ∨ forced m = true) then some e else st.dict k n := by
  unfold registerMethod setEntry
  by_cases h1 : (st.dict c m).isSome = true <;> by_cases h2 : forced m = true <;>
    by_cases h3 : k = c <;> by_cases h4 : n = m <;> simp [h1, h2, h3, h4]

theorem regFold_defined (st : RState) (c : Nat) (ns : List Name) (e : Entry) :
    (regFold st c ns e).defined = st.defined := by
  induction ns generalizing st with
  | nil => rfl
  | cons m ms ih =>
    show (regFold (registerMethod st c m e) c ms e).defined = _
    rw [ih, registerMethod_defined]

theorem regFold_booted (st : RState) (c : Nat) (ns : List Name) (e : Entry) :
    (regFold st c ns e).booted = st.booted := by
  induction ns generalizing st with
  | nil => rfl
  | cons m ms ih =>
    show (regFold (registerMethod st c m e) c ms e).booted = _
    rw [ih, registerMethod_booted]

theorem regFold_dict_other (st : RState) (c : Nat) (ns : List Name) (e : Entry) (k : Nat) (n : Name)
    (h : k ≠ c) : (regFold st c ns e).dict k n = st.dict k n := by
  induction ns generalizing st with
  | nil => rfl
  | cons m ms ih =>
    show (regFold (registerMethod st c m e) c ms e).dict k n = _
    rw [ih, registerMethod_dict]; simp [h]

/-- the rule a registration pass applies to one name, on the "who made it" reading of the dictionary -/
def regRule (inList : Bool) (n : Name) (g : Own) (old : Option Own) : Option Own :=
  if inList then (if forced n then some g else match old with | some x => some x | none => some g) else old

theorem regFold_own (st : RState) (c : Nat) (ns : List Name) (e : Entry) (n : Name) :
    ((regFold st c ns e).dict c n).map Entry.own =
      regRule (ns.contains n) n e.own ((st.dict c n).map Entry.own) := by
  induction ns generalizing st with
  | nil => simp [regFold, regRule]
  | cons m ms ih =>
    show ((regFold (registerMethod st c m e) c ms e).dict c n).map Entry.own = _
    rw [ih, registerMethod_dict]
    by_cases hnm : n = m
    · subst hnm
      by_cases hf : forced n = true
      · simp [regRule, hf]
      · cases hd : st.dict c n <;> by_cases hin : ms.contains n = true <;> simp [regRule, hf, hd, hin]
    · have hmn : ¬ m = n := fun h => hnm h.symm
      by_cases hin : ms.contains n = true
      · simp [regRule, hnm, hmn, hin, List.contains_cons]
      · have : (n == m) = false := by simp [hnm]
        simp [regRule, hnm, hmn, hin, List.contains_cons, this]

/-! ## `register_methods` on a class that exists -/

theorem registerAll_defined (W : World) (st : RState) (c : Nat) : (registerAll W st c).defined = st.defined := by
  unfold registerAll; rw [regFold_defined, regFold_defined]

theorem registerAll_booted (W : World) (st : RState) (c : Nat) : (registerAll W st c).booted = st.booted := by
  unfold registerAll; rw [regFold_booted, regFold_booted]

theorem registerAll_dict_other (W : World) (st : RState) (c k : Nat) (n : Name) (h : k ≠ c) :
    (registerAll W st c).dict k n = st.dict k n := by
  unfold registerAll; rw [regFold_dict_other _ _ _ _ _ _ h, regFold_dict_other _ _ _ _ _ _ h]

theorem registerAll_own (W : World) (st : RState) (c : Nat) (n : Name) :
    ((registerAll W st c).dict c n).map Entry.own =
      regRule ((genNames (W c)).contains n) n (.gen c) ((st.dict c n).map Entry.own) := by
  unfold registerAll
  rw [regFold_own, regFold_own]
  simp only [Entry.own, genNames, regRule]
  by_cases h1 : (W c).eagerGen.contains n = true <;> by_cases h2 : (W c).lazyGen.contains n = true <;>
    by_cases hf : forced n = true <;> cases hd : (st.dict c n).map Entry.own <;>
    simp_all [List.contains_append]

/-! ## the invariant -/

theorem inv_empty (W : World) : Inv W RState.empty :=
  ⟨by intro k n; simp [RState.empty, expected], by intro k h; simp [RState.empty] at h⟩

theorem expected_congr (W : World) (s t : RState) (hd : s.defined = t.defined) (hb : s.booted = t.booted) :
    expected W s = expected W t := by
  funext k n; simp [expected, hd, hb]

theorem inv_markBooted_registerAll (W : World) (st : RState) (c : Nat) (h : Inv W st)
    (hdef : st.defined c = true) : Inv W (markBooted (registerAll W st c) c) := by
  refine ⟨?_, ?_⟩
  · intro k n
    by_cases hk : k = c
    · subst hk
      show ((registerAll W st k).dict k n).map Entry.own = _
      rw [registerAll_own, h.dict k n]
      simp only [expected, markBooted, registerAll_defined, registerAll_booted, hdef, regRule]
      by_cases hb : st.booted k = true <;> by_cases hg : (genNames (W k)).contains n = true <;>
        by_cases hf : forced n = true <;> by_cases hh : (W k).hand.contains n = true <;>
        simp_all
    · show ((registerAll W st c).dict k n).map Entry.own = _
      rw [registerAll_dict_other _ _ _ _ _ hk, h.dict k n]
      simp [expected, markBooted, registerAll_defined, registerAll_booted, hk]
  · intro k hk
    simp only [markBooted, registerAll_defined, registerAll_booted, Bool.or_eq_true, decide_eq_true_eq] at hk ⊢
    rcases hk with rfl | hk
    · exact hdef
    · exact h.bd k hk

theorem inv_foldl (W : World) (f : RState → Nat → RState)
    (hf : ∀ s p, Inv W s → Inv W (f s p)) (hd : ∀ s p q, s.defined q = true → (f s p).defined q = true)
    (ps : List Nat) (st : RState) (h : Inv W st) (q : Nat) (hq : st.defined q = true) :
    Inv W (ps.foldl f st) ∧ (ps.foldl f st).defined q = true := by
  induction ps generalizing st with
  | nil => exact ⟨h, hq⟩
  | cons p ps ih => exact ih (f st p) (hf st p h) (hd st p q hq)

theorem foldl_defined (f : RState → Nat → RState)
    (hd : ∀ s p q, s.defined q = true → (f s p).defined q = true)
    (ps : List Nat) (st : RState) (q : Nat) (hq : st.defined q = true) :
    (ps.foldl f st).defined q = true := by
  induction ps generalizing st with
  | nil => exact hq
  | cons p ps ih => exact ih (f st p) (hd st p q hq)

theorem ensureBoot_defined (W : World) (fuel : Nat) (st : RState) (c q : Nat) (hq : st.defined q = true) :
    (ensureBoot W fuel st c).defined q = true := by
  induction fuel generalizing st c q with
  | zero => exact hq
  | succ fuel ih =>
    unfold ensureBoot
    split
    · exact hq
    · simp only [markBooted, registerAll_defined]
      apply foldl_defined _ _ _ _ _ hq
      intro s p q' hq'
      cases nearestSpec W p with
      | none => exact hq'
      | some k => exact ih s k q' hq'

theorem inv_ensureBoot (W : World) (fuel : Nat) (st : RState) (c : Nat) (h : Inv W st) :
    Inv W (ensureBoot W fuel st c) := by
  induction fuel generalizing st c with
  | zero => exact h
  | succ fuel ih =>
    unfold ensureBoot
    split
    · exact h
    · rename_i hc
      have hdef : st.defined c = true := by
        simp only [Bool.or_eq_true, Bool.not_eq_true', not_or] at hc
        cases hx : st.defined c <;> simp_all
      have := inv_foldl W
        (fun s p => match nearestSpec W p with | some k => ensureBoot W fuel s k | none => s)
        (by intro s p hs; cases nearestSpec W p with
            | none => exact hs
            | some k => exact ih s k hs)
        (by intro s p q hq; cases nearestSpec W p with
            | none => exact hq
            | some k => exact ensureBoot_defined W fuel s k q hq)
        (W c).bases st h c hdef
      exact inv_markBooted_registerAll W _ c this.1 this.2

theorem inv_bootEv (W : World) (fuel : Nat) (st : RState) (c : Nat) (h : Inv W st) : Inv W (bootEv W fuel st c) := by
  unfold bootEv
  cases nearestSpec W c with
  | none => exact h
  | some k => exact inv_ensureBoot W fuel st k h

theorem inv_define (W : World) (fuel : Nat) (st : RState) (c : Nat) (h : Inv W st) : Inv W (define W fuel st c) := by
  unfold define
  split
  · exact h
  · rename_i hnd
    have hd : st.defined c = false := by cases hx : st.defined c <;> simp_all
    have hb : st.booted c = false := by
      cases hx : st.booted c
      · rfl
      · have := h.bd c hx; simp_all
    have h1 : Inv W { st with
        defined := fun k => decide (k = c) || st.defined k
        dict := fun k n => if k = c then (if (W c).hand.contains n then some .hand else none) else st.dict k n } := by
      refine ⟨?_, ?_⟩
      · intro k n
        by_cases hk : k = c
        · subst hk
          simp only [expected, hb]
          by_cases hh : (W k).hand.contains n = true <;> simp_all [Entry.own]
        · have hold := h.dict k n
          simp only [expected] at hold ⊢
          simp [hk, hold]
      · intro k hk
        have := h.bd k hk
        simp [this]
    split
    · exact inv_ensureBoot W fuel _ c h1
    · exact h1

/-- a descriptor found anywhere is owned by the class in whose `__dict__` it sits -/
theorem inv_desc_owner (W : World) (st : RState) (h : Inv W st) (k o : Nat) (n : Name)
    (hd : st.dict k n = some (.desc o)) : o = k := by
  have := h.dict k n
  rw [hd] at this
  simp only [Option.map_some, Entry.own, expected] at this
  split at this
  · injection this with this; injection this
  · split at this <;> simp at this

/-- a built method found anywhere was built for the class in whose `__dict__` it sits -/
theorem inv_fn_owner (W : World) (st : RState) (h : Inv W st) (k o : Nat) (n : Name)
    (hd : st.dict k n = some (.fn o)) : o = k := by
  have := h.dict k n
  rw [hd] at this
  simp only [Option.map_some, Entry.own, expected] at this
  split at this
  · injection this with this; injection this
  · split at this <;> simp at this

theorem lookupFrom_mem (st : RState) (mro : List Nat) (n : Name) (k : Nat) (e : Entry)
    (h : lookupFrom st mro n = some (k, e)) : st.dict k n = some e := by
  induction mro with
  | nil => simp [lookupFrom] at h
  | cons k' ks ih =>
    unfold lookupFrom at h
    cases hd : st.dict k' n with
    | none => rw [hd] at h; exact ih h
    | some e' => rw [hd] at h; simp at h; rw [← h.1, ← h.2]; exact hd

theorem setEntry_booted (st : RState) (c : Nat) (n : Name) (e : Entry) : (setEntry st c n e).booted = st.booted := rfl

theorem foldl_booted (f : RState → Nat → RState)
    (hd : ∀ s p q, s.booted q = true → (f s p).booted q = true)
    (ps : List Nat) (st : RState) (q : Nat) (hq : st.booted q = true) :
    (ps.foldl f st).booted q = true := by
  induction ps generalizing st with
  | nil => exact hq
  | cons p ps ih => exact ih (f st p) (hd st p q hq)

/-- bootstrapping never un-bootstraps -/
theorem ensureBoot_booted (W : World) (fuel : Nat) (st : RState) (c q : Nat) (hq : st.booted q = true) :
    (ensureBoot W fuel st c).booted q = true := by
  induction fuel generalizing st c q with
  | zero => exact hq
  | succ fuel ih =>
    unfold ensureBoot
    split
    · exact hq
    · simp only [markBooted, registerAll_booted, Bool.or_eq_true, decide_eq_true_eq]
      right
      apply foldl_booted _ _ _ _ _ hq
      intro s p q' hq'
      cases nearestSpec W p with
      | none => exact hq'
      | some k => exact ih s k q' hq'

theorem bootEv_booted (W : World) (fuel : Nat) (st : RState) (c q : Nat) (hq : st.booted q = true) :
    (bootEv W fuel st c).booted q = true := by
  unfold bootEv
  cases nearestSpec W c with
  | none => exact hq
  | some k => exact ensureBoot_booted W fuel st k q hq

theorem inv_buildLooks (W : World) (fuel : Nat) (st : RState) (o : Nat) (n : Name) (h : Inv W st) :
    Inv W (buildLooks W fuel st o n) := by
  unfold buildLooks
  cases (W o).looks.find? (fun x => x.1 == n) with
  | none => exact h
  | some x => exact inv_bootEv W fuel st x.2 h

theorem buildLooks_booted (W : World) (fuel : Nat) (st : RState) (o : Nat) (n : Name) (q : Nat)
    (hq : st.booted q = true) : (buildLooks W fuel st o n).booted q = true := by
  unfold buildLooks
  cases (W o).looks.find? (fun x => x.1 == n) with
  | none => exact hq
  | some x => exact bootEv_booted W fuel st x.2 q hq

/-- "generated for `k`" is what `expected` says exactly when `k` is bootstrapped and generates the name (not hand-written) -/
theorem expected_gen_iff (W : World) (st : RState) (k o : Nat) (n : Name) :
    expected W st k n = some (.gen o) ↔
      (o = k ∧ st.booted k = true ∧ (genNames (W k)).contains n = true ∧
        (forced n = true ∨ (W k).hand.contains n = false)) := by
  unfold expected
  by_cases hb : st.booted k = true <;> by_cases hg : (genNames (W k)).contains n = true <;>
    by_cases hf : forced n = true <;> by_cases hh : (W k).hand.contains n = true <;>
    by_cases hd : st.defined k = true <;> simp_all <;> omega

theorem inv_accessVia (W : World) (fuel : Nat) (st : RState) (mro : List Nat) (n : Name) (h : Inv W st) :
    Inv W (accessVia W fuel st mro n).1 := by
  unfold accessVia
  cases hl : lookupFrom st mro n with
  | none => exact h
  | some ke =>
    obtain ⟨k, e⟩ := ke
    cases e with
    | fn o => exact h
    | hand => exact h
    | desc o =>
      have hd := lookupFrom_mem st mro n k _ hl
      have ho := inv_desc_owner W st h k o n hd
      subst ho
      have hexp : expected W st o n = some (.gen o) := by
        have := h.dict o n
        rw [hd] at this
        simpa [Entry.own] using this.symm
      have h1 := inv_buildLooks W fuel st o n h
      have hexp1 : expected W (buildLooks W fuel st o n) o n = some (.gen o) := by
        rw [expected_gen_iff] at hexp ⊢
        exact ⟨rfl, buildLooks_booted W fuel st o n o hexp.2.1, hexp.2.2⟩
      refine ⟨?_, h1.bd⟩
      intro k' n'
      show (if k' = o ∧ n' = n then some (Entry.fn o) else (buildLooks W fuel st o n).dict k' n').map Entry.own
        = expected W (buildLooks W fuel st o n) k' n'
      by_cases hk : k' = o ∧ n' = n
      · obtain ⟨rfl, rfl⟩ := hk
        simp [Entry.own, hexp1]
      · simp only [hk, if_false]; exact h1.dict k' n'

theorem inv_step (W : World) (fuel : Nat) (st : RState) (e : Ev) (h : Inv W st) : Inv W (step W fuel st e) := by
  cases e with
  | define c => exact inv_define W fuel st c h
  | boot c => exact inv_bootEv W fuel st c h
  | get c n => exact inv_accessVia W fuel st _ n h
  | iget c n => exact inv_accessVia W fuel _ _ n (inv_bootEv W fuel st c h)
  | sget c k n => exact inv_accessVia W fuel _ _ n (inv_bootEv W fuel st c h)

theorem inv_of_reach (W : World) (st : RState) (h : RReach W st) : Inv W st := by
  induction h with
  | empty => exact inv_empty W
  | step _ fuel e ih => exact inv_step W fuel _ e ih

/-! ## the lookup, read through the invariant -/

theorem lookupFrom_own (W : World) (st : RState) (h : Inv W st) (mro : List Nat) (n : Name) :
    (lookupFrom st mro n).map (fun ke => (ke.1, ke.2.own)) = lookupExp W st mro n := by
  induction mro with
  | nil => rfl
  | cons k ks ih =>
    unfold lookupFrom lookupExp
    rw [← h.dict k n]
    cases hd : st.dict k n with
    | none => simpa using ih
    | some e => simp

theorem lookupExp_congr (W : World) (s t : RState) (hd : s.defined = t.defined) (hb : s.booted = t.booted)
    (mro : List Nat) (n : Name) : lookupExp W s mro n = lookupExp W t mro n := by
  induction mro with
  | nil => rfl
  | cons k ks ih => unfold lookupExp; rw [expected_congr W s t hd hb, ih]

theorem bootEv_defined (W : World) (fuel : Nat) (st : RState) (c q : Nat) (hq : st.defined q = true) :
    (bootEv W fuel st c).defined q = true := by
  unfold bootEv
  cases nearestSpec W c with
  | none => exact hq
  | some k => exact ensureBoot_defined W fuel st k q hq

theorem buildLooks_defined (W : World) (fuel : Nat) (st : RState) (o : Nat) (n : Name) (q : Nat)
    (hq : st.defined q = true) : (buildLooks W fuel st o n).defined q = true := by
  unfold buildLooks
  cases (W o).looks.find? (fun x => x.1 == n) with
  | none => exact hq
  | some x => exact bootEv_defined W fuel st x.2 q hq

/-- lookups never remove classes (nor un-bootstrap them) -/
theorem accessVia_defined (W : World) (fuel : Nat) (st : RState) (mro : List Nat) (n : Name) (q : Nat)
    (hq : st.defined q = true) : (accessVia W fuel st mro n).1.defined q = true := by
  unfold accessVia
  cases lookupFrom st mro n with
  | none => exact hq
  | some ke =>
    obtain ⟨k, e⟩ := ke
    cases e with
    | fn o => exact hq
    | hand => exact hq
    | desc o => exact buildLooks_defined W fuel st o n q hq

end SpecVerif.C17.Reg
