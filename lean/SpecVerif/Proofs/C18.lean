import SpecVerif.Model.C18
/-!
# C18 — helper lemmas (field maps, segments, paths, runs, tokenizer)
-/
set_option linter.unusedSectionVars false
set_option linter.unusedSimpArgs false
set_option linter.unusedVariables false
namespace SpecVerif.C18
open SpecVerif.Py

/-! ## Field maps -/

theorem fget_fset_same (fs : Fields) (k : String) (v : Val) : fget (fset fs k v) k = some v := by
  induction fs with
  | nil => simp [fset, fget]
  | cons p r ih =>
    obtain ⟨k', x⟩ := p
    by_cases h : k' = k
    · simp [fset, fget, h]
    · simp [fset, fget, h, ih]

theorem fget_fset_ne (fs : Fields) {k n : String} (v : Val) (h : k ≠ n) :
    fget (fset fs k v) n = fget fs n := by
  induction fs with
  | nil => simp [fset, fget, h]
  | cons p r ih =>
    obtain ⟨k', x⟩ := p
    by_cases h1 : k' = k
    · subst h1; simp [fset, fget, h]
    · by_cases h2 : k' = n
      · subst h2; simp [fset, fget, h1]
      · simp [fset, fget, h1, h2, ih]

theorem fset_fget_same (fs : Fields) {k : String} {v : Val} (h : fget fs k = some v) :
    fset fs k v = fs := by
  induction fs with
  | nil => simp [fget] at h
  | cons p r ih =>
    obtain ⟨k', x⟩ := p
    by_cases h1 : k' = k
    · simp [fget, h1] at h; simp [fset, h1, h]
    · simp [fget, h1] at h; simp [fset, h1, ih h]

theorem fset_fset_same (fs : Fields) (k : String) (v w : Val) :
    fset (fset fs k v) k w = fset fs k w := by
  induction fs with
  | nil => simp [fset]
  | cons p r ih =>
    obtain ⟨k', x⟩ := p
    by_cases h1 : k' = k
    · simp [fset, h1]
    · simp [fset, h1, ih]

/-- writes to two different keys commute as soon as one of the keys is already there -/
theorem fset_comm (fs : Fields) {k n : String} (v w : Val) (h : k ≠ n)
    (hp : (fget fs k).isSome ∨ (fget fs n).isSome) :
    fset (fset fs k v) n w = fset (fset fs n w) k v := by
  induction fs with
  | nil => simp [fget] at hp
  | cons p r ih =>
    obtain ⟨k', x⟩ := p
    by_cases h1 : k' = k
    · subst h1
      simp [fset, h]
    · by_cases h2 : k' = n
      · subst h2
        have : ¬ k = k' := fun e => h1 e.symm
        simp [fset, h1, this]
      · simp [fget, h1, h2] at hp
        simp [fset, h1, h2, ih hp]

theorem fget_filter_ne (fs : Fields) (n : String) :
    fget (fs.filter fun p => p.1 ≠ n) n = none := by
  induction fs with
  | nil => simp [fget]
  | cons p r ih =>
    obtain ⟨k', x⟩ := p
    by_cases h1 : k' = n
    · simpa [List.filter, h1] using ih
    · simpa [List.filter, h1, fget] using ih

theorem fget_filter_other (fs : Fields) {n m : String} (h : n ≠ m) :
    fget (fs.filter fun p => p.1 ≠ n) m = fget fs m := by
  induction fs with
  | nil => simp [fget]
  | cons p r ih =>
    obtain ⟨k', x⟩ := p
    by_cases h1 : k' = n
    · subst h1; simpa [List.filter, fget, h] using ih
    · by_cases h2 : k' = m
      · subst h2; simp [List.filter, h1, fget]
      · simpa [List.filter, h1, fget, h2] using ih

theorem fget_fdel_same {fs fs' : Fields} {n : String} (h : fdel fs n = some fs') : fget fs' n = none := by
  unfold fdel at h
  split at h
  · cases h; exact fget_filter_ne _ _
  · cases h

theorem fdel_isSome (fs : Fields) (n : String) : (fdel fs n).isSome = (fget fs n).isSome := by
  unfold fdel; split <;> simp [*]

/-! ## Segments -/

theorem load_store_same {o o' : Val} {s : Seg} {v : Val} (h : storeSeg o s v = .ok o') :
    loadSeg o' s = .ok v := by
  cases o <;> cases s <;> simp [storeSeg] at h
  · split at h
    · cases h
    · cases h; simp [loadSeg, fget_fset_same]
  · cases h; simp [loadSeg, fget_fset_same]

theorem seg_attr_ne {n m : String} (h : Seg.attr n ≠ Seg.attr m) : n ≠ m := fun e => h (by rw [e])
theorem seg_item_ne {n m : String} (h : Seg.item n ≠ Seg.item m) : n ≠ m := fun e => h (by rw [e])

theorem load_store_ne {o o' : Val} {s t : Seg} {v : Val} (h : storeSeg o s v = .ok o') (hne : s ≠ t) :
    loadSeg o' t = loadSeg o t := by
  cases o with
  | obj decl fs =>
    cases s with
    | attr n =>
      simp [storeSeg] at h
      split at h
      · cases h
      · cases h
        cases t with
        | attr m => simp [loadSeg, fget_fset_ne _ _ (seg_attr_ne hne)]
        | item m => simp [loadSeg]
    | item n => simp [storeSeg] at h
  | dict fs =>
    cases s with
    | attr n => simp [storeSeg] at h
    | item n =>
      simp [storeSeg] at h
      cases h
      cases t with
      | attr m => simp [loadSeg]
      | item m => simp [loadSeg, fget_fset_ne _ _ (seg_item_ne hne)]
  | int n => cases s <;> simp [storeSeg] at h
  | str n => cases s <;> simp [storeSeg] at h
  | lst n => cases s <;> simp [storeSeg] at h

theorem store_load_same {o o' : Val} {s : Seg} {v : Val} (hl : loadSeg o s = .ok v)
    (h : storeSeg o s v = .ok o') : o' = o := by
  cases o <;> cases s <;> simp [storeSeg] at h <;> simp [loadSeg] at hl
  · split at h
    · cases h
    · cases h
      split at hl
      · rename_i hg; cases hl; rw [fset_fget_same _ hg]
      · cases hl
  · cases h
    split at hl
    · rename_i hg; cases hl; rw [fset_fget_same _ hg]
    · cases hl

theorem store_store_same {o o1 : Val} {s : Seg} {v w : Val} (h : storeSeg o s v = .ok o1) :
    storeSeg o1 s w = storeSeg o s w := by
  cases o <;> cases s <;> simp [storeSeg] at h
  · split at h
    · cases h
    · cases h; simp [storeSeg, fset_fset_same]
  · cases h; simp [storeSeg, fset_fset_same]

theorem load_putBack_same {o c c' : Val} {s : Seg} (hl : loadSeg o s = .ok c) :
    loadSeg (putBack o s c') s = .ok c' := by
  cases o <;> cases s <;> simp [loadSeg] at hl <;> simp [putBack, loadSeg, fget_fset_same]

theorem load_putBack_ne (o c' : Val) {s t : Seg} (hne : s ≠ t) :
    loadSeg (putBack o s c') t = loadSeg o t := by
  cases o with
  | obj decl fs =>
    cases s with
    | attr n =>
      cases t with
      | attr m => simp [putBack, loadSeg, fget_fset_ne _ _ (seg_attr_ne hne)]
      | item m => simp [putBack, loadSeg]
    | item n => simp [putBack]
  | dict fs =>
    cases s with
    | attr n => simp [putBack]
    | item n =>
      cases t with
      | attr m => simp [putBack, loadSeg]
      | item m => simp [putBack, loadSeg, fget_fset_ne _ _ (seg_item_ne hne)]
  | int n => cases s <;> simp [putBack]
  | str n => cases s <;> simp [putBack]
  | lst n => cases s <;> simp [putBack]

theorem putBack_load {o c : Val} {s : Seg} (hl : loadSeg o s = .ok c) : putBack o s c = o := by
  cases o <;> cases s <;> simp [loadSeg] at hl <;> simp [putBack]
  · split at hl
    · rename_i hg; cases hl; rw [fset_fget_same _ hg]
    · cases hl
  · split at hl
    · rename_i hg; cases hl; rw [fset_fget_same _ hg]
    · cases hl

theorem putBack_putBack (o c c' : Val) (s : Seg) : putBack (putBack o s c) s c' = putBack o s c' := by
  cases o <;> cases s <;> simp [putBack, fset_fset_same]

/-- what a missing attribute / key looks like -/
def Missing (r : Except Err Val) : Prop := r = .error .attributeError ∨ r = .error .keyError

theorem load_drop_same {o o' : Val} {s : Seg} (h : dropSeg o s = .ok o') : Missing (loadSeg o' s) := by
  cases o <;> cases s <;> simp [dropSeg] at h
  · split at h
    · rename_i hd; cases h; left; simp [loadSeg, fget_fdel_same hd]
    · cases h
  · split at h
    · rename_i hd; cases h; right; simp [loadSeg, fget_fdel_same hd]
    · cases h

theorem conv_missing {r : Except Err Val} (h : Missing r) :
    (match r with | .error e => Except.error (conv e) | .ok v => .ok v) = .error .attributeError := by
  rcases h with h | h <;> simp [h, conv]

theorem load_drop_ne {o o' : Val} {s t : Seg} (h : dropSeg o s = .ok o') (hne : s ≠ t) :
    loadSeg o' t = loadSeg o t := by
  cases o with
  | obj decl fs =>
    cases s with
    | attr n =>
      simp [dropSeg] at h
      split at h
      · rename_i fs' hd
        cases h
        unfold fdel at hd
        split at hd
        · cases hd
          cases t with
          | attr m =>
            have h2 := fget_filter_other fs (seg_attr_ne hne)
            simp only [ne_eq, decide_not] at h2
            simp [loadSeg, h2]
          | item m => simp [loadSeg]
        · cases hd
      · cases h
    | item n => simp [dropSeg] at h
  | dict fs =>
    cases s with
    | attr n => simp [dropSeg] at h
    | item n =>
      simp [dropSeg] at h
      split at h
      · rename_i fs' hd
        cases h
        unfold fdel at hd
        split at hd
        · cases hd
          cases t with
          | attr m => simp [loadSeg]
          | item m =>
            have h2 := fget_filter_other fs (seg_item_ne hne)
            simp only [ne_eq, decide_not] at h2
            simp [loadSeg, h2]
        · cases hd
      · cases h
  | int n => cases s <;> simp [dropSeg] at h
  | str n => cases s <;> simp [dropSeg] at h
  | lst n => cases s <;> simp [dropSeg] at h

/-! ## Paths -/

theorem lookup_nil (o : Val) : lookup o [] = .ok o := rfl

theorem lookup_cons_ok {o c : Val} {s : Seg} (h : loadSeg o s = .ok c) (r : List Seg) :
    lookup o (s :: r) = lookup c r := by simp [lookup, h]

theorem lookup_cons_err {o : Val} {s : Seg} {e : Err} (h : loadSeg o s = .error e) (r : List Seg) :
    lookup o (s :: r) = .error e := by simp [lookup, h]

theorem lookup_append (o : Val) (p q : List Seg) :
    lookup o (p ++ q) = match lookup o p with
      | .error e => .error e
      | .ok c => lookup c q := by
  induction p generalizing o with
  | nil => simp [lookup]
  | cons s r ih =>
    cases hl : loadSeg o s with
    | error e => simp [lookup, hl]
    | ok c => simp [lookup, hl, ih]

theorem modifyLast_single (f : Val → Seg → Except Err Val) (o : Val) (s : Seg) :
    modifyLast f o [s] = f o s := rfl

theorem modifyLast_deep_ok {f : Val → Seg → Except Err Val} {o c c' : Val} {s t : Seg} {r : List Seg}
    (hl : loadSeg o s = .ok c) (hm : modifyLast f c (t :: r) = .ok c') :
    modifyLast f o (s :: t :: r) = .ok (putBack o s c') := by simp [modifyLast, hl, hm]

/-- inversion of a successful deep modification -/
theorem modifyLast_deep_inv {f : Val → Seg → Except Err Val} {o o' : Val} {s t : Seg} {r : List Seg}
    (h : modifyLast f o (s :: t :: r) = .ok o') :
    ∃ c c', loadSeg o s = .ok c ∧ modifyLast f c (t :: r) = .ok c' ∧ o' = putBack o s c' := by
  simp only [modifyLast] at h
  cases hl : loadSeg o s with
  | error e => simp [hl] at h
  | ok c =>
    simp only [hl] at h
    cases hm : modifyLast f c (t :: r) with
    | error e => simp [hm] at h
    | ok c' => simp [hm] at h; exact ⟨c, c', rfl, hm, h.symm⟩

theorem lookup_single (o : Val) (s : Seg) : lookup o [s] = loadSeg o s := by
  cases h : loadSeg o s <;> simp [lookup, h]

/-- put-get for `modifyLast` -/
theorem lookup_modifyLast {f : Val → Seg → Except Err Val} {R : Except Err Val → Prop}
    (hf : ∀ o s o', f o s = .ok o' → R (loadSeg o' s))
    : ∀ (p : List Seg) (o o' : Val), modifyLast f o p = .ok o' → R (lookup o' p)
  | [], o, o', h => by simp [modifyLast] at h
  | [s], o, o', h => by
    rw [lookup_single]; exact hf o s o' h
  | s :: t :: r, o, o', h => by
    obtain ⟨c, c', hl, hm, rfl⟩ := modifyLast_deep_inv h
    rw [lookup_cons_ok (load_putBack_same hl)]
    exact lookup_modifyLast hf (t :: r) c c' hm

theorem lookup_assign_same {p : List Seg} {o o' v : Val} (h : assign o p v = .ok o') :
    lookup o' p = .ok v :=
  lookup_modifyLast (R := fun r => r = .ok v) (f := fun parent s => storeSeg parent s v)
    (fun o s o' h => load_store_same h) p o o' h

theorem lookup_remove_same {p : List Seg} {o o' : Val} (h : remove o p = .ok o') :
    Missing (lookup o' p) :=
  lookup_modifyLast (R := Missing) (f := dropSeg) (fun o s o' h => load_drop_same h) p o o' h

/-- get-put -/
theorem assign_lookup_same : ∀ (p : List Seg) (o o' v : Val),
    lookup o p = .ok v → assign o p v = .ok o' → o' = o
  | [], o, o', v, _, h => by simp [assign, modifyLast] at h
  | [s], o, o', v, hl, h => by
    rw [lookup_single] at hl
    exact store_load_same hl h
  | s :: t :: r, o, o', v, hl, h => by
    obtain ⟨c, c', hs, hm, rfl⟩ := modifyLast_deep_inv h
    rw [lookup_cons_ok hs] at hl
    have := assign_lookup_same (t :: r) c c' v hl hm
    subst this
    exact putBack_load hs

/-- put-put -/
theorem assign_assign_same : ∀ (p : List Seg) (o o1 v w : Val),
    assign o p v = .ok o1 → assign o1 p w = assign o p w
  | [], o, o1, v, w, h => by simp [assign, modifyLast] at h
  | [s], o, o1, v, w, h => store_store_same h
  | s :: t :: r, o, o1, v, w, h => by
    obtain ⟨c, c1, hs, hm, rfl⟩ := modifyLast_deep_inv h
    have ih := assign_assign_same (t :: r) c c1 v w hm
    unfold assign at ih ⊢
    simp only [modifyLast, load_putBack_same hs, hs, ih]
    cases modifyLast (fun parent s => storeSeg parent s w) c (t :: r) with
    | error e => rfl
    | ok c2 => simp [putBack_putBack]

/-- two paths that part ways at some segment -/
inductive Diverge : List Seg → List Seg → Prop
  | head {s t : Seg} (p q : List Seg) : s ≠ t → Diverge (s :: p) (t :: q)
  | cons (s : Seg) {p q : List Seg} : Diverge p q → Diverge (s :: p) (s :: q)

theorem Diverge.symm {p q : List Seg} (h : Diverge p q) : Diverge q p := by
  induction h with
  | head p q hne => exact .head q p (Ne.symm hne)
  | cons s _ ih => exact .cons s ih

/-- frame: a modification at `p` is invisible at every path that parts ways with `p` -/
theorem lookup_modifyLast_diverge {f : Val → Seg → Except Err Val}
    (hf : ∀ o s o' t, f o s = .ok o' → s ≠ t → loadSeg o' t = loadSeg o t)
    {p q : List Seg} (hd : Diverge p q) :
    ∀ (o o' : Val), modifyLast f o p = .ok o' → lookup o' q = lookup o q := by
  induction hd with
  | @head s t p q hne =>
    intro o o' h
    have hload : loadSeg o' t = loadSeg o t := by
      cases p with
      | nil => exact hf o s o' t h hne
      | cons t' r =>
        obtain ⟨c, c', hs, hm, rfl⟩ := modifyLast_deep_inv h
        exact load_putBack_ne _ _ hne
    simp [lookup, hload]
  | @cons s p q hd ih =>
    intro o o' h
    cases p with
    | nil => cases hd
    | cons t' r =>
      obtain ⟨c, c', hs, hm, rfl⟩ := modifyLast_deep_inv h
      rw [lookup_cons_ok (load_putBack_same hs), lookup_cons_ok hs]
      exact ih c c' hm

theorem lookup_assign_diverge {p q : List Seg} (hd : Diverge p q) {o o' v : Val}
    (h : assign o p v = .ok o') : lookup o' q = lookup o q :=
  lookup_modifyLast_diverge (fun o s o' t h hne => load_store_ne h hne) hd o o' h

theorem lookup_remove_diverge {p q : List Seg} (hd : Diverge p q) {o o' : Val}
    (h : remove o p = .ok o') : lookup o' q = lookup o q :=
  lookup_modifyLast_diverge (fun o s o' t h hne => load_drop_ne h hne) hd o o' h

/-! ### writes at diverging paths commute -/

theorem fget_isSome_of_load {o c : Val} {s : Seg} (h : loadSeg o s = .ok c) :
    match o, s with
    | .obj _ fs, .attr n => (fget fs n).isSome
    | .dict fs, .item k => (fget fs k).isSome
    | _, _ => False := by
  cases o <;> cases s <;> simp [loadSeg] at h ⊢
  · split at h <;> simp_all
  · split at h <;> simp_all

theorem store_store_comm {o o1 o2 : Val} {s t : Seg} {v w : Val} (hne : s ≠ t)
    (hp : (∃ c, loadSeg o s = .ok c) ∨ (∃ d, loadSeg o t = .ok d))
    (h1 : storeSeg o s v = .ok o1) (h2 : storeSeg o t w = .ok o2) :
    storeSeg o1 t w = storeSeg o2 s v := by
  cases o with
  | obj decl fs =>
    cases s with
    | item n => simp [storeSeg] at h1
    | attr n =>
      cases t with
      | item m => simp [storeSeg] at h2
      | attr m =>
        have hnm := seg_attr_ne hne
        simp only [storeSeg] at h1 h2
        split at h1
        · cases h1
        · rename_i hc1
          split at h2
          · cases h2
          · rename_i hc2
            cases h1; cases h2
            have hpres : (fget fs n).isSome ∨ (fget fs m).isSome := by
              rcases hp with ⟨c, hc⟩ | ⟨d, hd⟩
              · left; exact fget_isSome_of_load hc
              · right; exact fget_isSome_of_load hd
            simp only [storeSeg, hc1, hc2]
            simp [fset_comm fs v w hnm hpres]
  | dict fs =>
    cases s with
    | attr n => simp [storeSeg] at h1
    | item n =>
      cases t with
      | attr m => simp [storeSeg] at h2
      | item m =>
        have hnm := seg_item_ne hne
        simp only [storeSeg] at h1 h2
        cases h1; cases h2
        have hpres : (fget fs n).isSome ∨ (fget fs m).isSome := by
          rcases hp with ⟨c, hc⟩ | ⟨d, hd⟩
          · left; exact fget_isSome_of_load hc
          · right; exact fget_isSome_of_load hd
        simp [storeSeg, fset_comm fs v w hnm hpres]
  | int n => cases s <;> simp [storeSeg] at h1
  | str n => cases s <;> simp [storeSeg] at h1
  | lst n => cases s <;> simp [storeSeg] at h1

theorem store_putBack_comm {o o2 c c1 : Val} {s t : Seg} {w : Val} (hne : s ≠ t)
    (hs : loadSeg o s = .ok c) (h2 : storeSeg o t w = .ok o2) :
    storeSeg (putBack o s c1) t w = .ok (putBack o2 s c1) := by
  cases o with
  | obj decl fs =>
    cases s with
    | item n => simp [loadSeg] at hs
    | attr n =>
      cases t with
      | item m => simp [storeSeg] at h2
      | attr m =>
        have hnm := seg_attr_ne hne
        have hpres : (fget fs n).isSome ∨ (fget fs m).isSome := Or.inl (fget_isSome_of_load hs)
        simp only [storeSeg] at h2
        split at h2
        · cases h2
        · rename_i hc2
          cases h2
          simp only [putBack, storeSeg, hc2]
          simp [fset_comm fs c1 w hnm hpres]
  | dict fs =>
    cases s with
    | attr n => simp [loadSeg] at hs
    | item n =>
      cases t with
      | attr m => simp [storeSeg] at h2
      | item m =>
        have hnm := seg_item_ne hne
        have hpres : (fget fs n).isSome ∨ (fget fs m).isSome := Or.inl (fget_isSome_of_load hs)
        simp only [storeSeg] at h2
        cases h2
        simp [putBack, storeSeg, fset_comm fs c1 w hnm hpres]
  | int n => cases s <;> simp [loadSeg] at hs
  | str n => cases s <;> simp [loadSeg] at hs
  | lst n => cases s <;> simp [loadSeg] at hs

theorem putBack_comm {o c d c1 d2 : Val} {s t : Seg} (hne : s ≠ t)
    (hs : loadSeg o s = .ok c) (ht : loadSeg o t = .ok d) :
    putBack (putBack o s c1) t d2 = putBack (putBack o t d2) s c1 := by
  cases o with
  | obj decl fs =>
    cases s with
    | item n => simp [loadSeg] at hs
    | attr n =>
      cases t with
      | item m => simp [loadSeg] at ht
      | attr m =>
        have hpres : (fget fs n).isSome ∨ (fget fs m).isSome := Or.inl (fget_isSome_of_load hs)
        simp [putBack, fset_comm fs c1 d2 (seg_attr_ne hne) hpres]
  | dict fs =>
    cases s with
    | attr n => simp [loadSeg] at hs
    | item n =>
      cases t with
      | attr m => simp [loadSeg] at ht
      | item m =>
        have hpres : (fget fs n).isSome ∨ (fget fs m).isSome := Or.inl (fget_isSome_of_load hs)
        simp [putBack, fset_comm fs c1 d2 (seg_item_ne hne) hpres]
  | int n => cases s <;> simp [loadSeg] at hs
  | str n => cases s <;> simp [loadSeg] at hs
  | lst n => cases s <;> simp [loadSeg] at hs

theorem lookup_ok_head {o v : Val} {s : Seg} {r : List Seg} (h : lookup o (s :: r) = .ok v) :
    ∃ c, loadSeg o s = .ok c ∧ lookup c r = .ok v := by
  cases hl : loadSeg o s with
  | error e => simp [lookup, hl] at h
  | ok c => exact ⟨c, rfl, by simpa [lookup, hl] using h⟩

/-- Writes at two paths that part ways commute, as soon as one of the two targets
already exists (otherwise both keys are new in the same map and only the insertion
order differs; see `lookup_assign_diverge` for the order-insensitive statement). -/
theorem assign_comm {p q : List Seg} (hd : Diverge p q) :
    ∀ (o o1 o2 v w : Val),
      ((∃ x, lookup o p = .ok x) ∨ (∃ y, lookup o q = .ok y)) →
      assign o p v = .ok o1 → assign o q w = .ok o2 →
      assign o1 q w = assign o2 p v := by
  induction hd with
  | @head s t p q hne =>
    intro o o1 o2 v w hp h1 h2
    cases p with
    | nil =>
      cases q with
      | nil =>
        refine store_store_comm hne ?_ h1 h2
        rcases hp with ⟨x, hx⟩ | ⟨y, hy⟩
        · left; exact ⟨x, by rwa [lookup_single] at hx⟩
        · right; exact ⟨y, by rwa [lookup_single] at hy⟩
      | cons t' r' =>
        obtain ⟨d, d2, ht, hm, rfl⟩ := modifyLast_deep_inv h2
        have h1' : storeSeg o s v = .ok o1 := h1
        have hl1 : loadSeg o1 t = .ok d := by rw [load_store_ne h1' hne]; exact ht
        have e1 : assign o1 (t :: t' :: r') w = .ok (putBack o1 t d2) := modifyLast_deep_ok hl1 hm
        have e2 : assign (putBack o t d2) [s] v = .ok (putBack o1 t d2) :=
          store_putBack_comm (Ne.symm hne) ht h1'
        rw [e1, e2]
    | cons s' r =>
      obtain ⟨c, c1, hs, hm1, rfl⟩ := modifyLast_deep_inv h1
      cases q with
      | nil =>
        have h2' : storeSeg o t w = .ok o2 := h2
        have hl2 : loadSeg o2 s = .ok c := by rw [load_store_ne h2' (Ne.symm hne)]; exact hs
        have e2 : assign o2 (s :: s' :: r) v = .ok (putBack o2 s c1) := modifyLast_deep_ok hl2 hm1
        have e1 : assign (putBack o s c1) [t] w = .ok (putBack o2 s c1) :=
          store_putBack_comm hne hs h2'
        rw [e1, e2]
      | cons t' r' =>
        obtain ⟨d, d2, ht, hm2, rfl⟩ := modifyLast_deep_inv h2
        have hl1 : loadSeg (putBack o s c1) t = .ok d := by rw [load_putBack_ne _ _ hne]; exact ht
        have hl2 : loadSeg (putBack o t d2) s = .ok c := by
          rw [load_putBack_ne _ _ (Ne.symm hne)]; exact hs
        have e1 : assign (putBack o s c1) (t :: t' :: r') w = .ok (putBack (putBack o s c1) t d2) :=
          modifyLast_deep_ok hl1 hm2
        have e2 : assign (putBack o t d2) (s :: s' :: r) v = .ok (putBack (putBack o t d2) s c1) :=
          modifyLast_deep_ok hl2 hm1
        rw [e1, e2, putBack_comm hne hs ht]
  | @cons s p q hd ih =>
    intro o o1 o2 v w hp h1 h2
    cases p with
    | nil => cases hd
    | cons s' r =>
      cases q with
      | nil => cases hd.symm
      | cons t' r' =>
        obtain ⟨c, c1, hs, hm1, rfl⟩ := modifyLast_deep_inv h1
        obtain ⟨c', c2, hs', hm2, rfl⟩ := modifyLast_deep_inv h2
        rw [hs] at hs'; cases hs'
        have hp' : (∃ x, lookup c (s' :: r) = .ok x) ∨ (∃ y, lookup c (t' :: r') = .ok y) := by
          rcases hp with ⟨x, hx⟩ | ⟨y, hy⟩
          · left; rw [lookup_cons_ok hs] at hx; exact ⟨x, hx⟩
          · right; rw [lookup_cons_ok hs] at hy; exact ⟨y, hy⟩
        have key := ih c c1 c2 v w hp' hm1 hm2
        unfold assign at key ⊢
        simp only [modifyLast, load_putBack_same hs, key]
        cases modifyLast (fun parent s => storeSeg parent s v) c2 (s' :: r) with
        | error e => rfl
        | ok c3 => simp [putBack_putBack]

/-! ### a write at a diverging path does not make another write fail -/

theorem store_ok_after_store {o o1 o2 : Val} {s t : Seg} {v w : Val}
    (h1 : storeSeg o s v = .ok o1) (h2 : storeSeg o t w = .ok o2) : ∃ r, storeSeg o1 t w = .ok r := by
  cases o with
  | obj decl fs =>
    cases s with
    | item n => simp [storeSeg] at h1
    | attr n =>
      cases t with
      | item m => simp [storeSeg] at h2
      | attr m =>
        simp only [storeSeg] at h1 h2
        split at h1
        · cases h1
        · split at h2
          · cases h2
          · rename_i hc2
            cases h1
            exact ⟨_, by simp only [storeSeg, hc2]; rfl⟩
  | dict fs =>
    cases s with
    | attr n => simp [storeSeg] at h1
    | item n =>
      cases t with
      | attr m => simp [storeSeg] at h2
      | item m =>
        simp only [storeSeg] at h1
        cases h1
        exact ⟨_, by simp only [storeSeg]; rfl⟩
  | int n => cases s <;> simp [storeSeg] at h1
  | str n => cases s <;> simp [storeSeg] at h1
  | lst n => cases s <;> simp [storeSeg] at h1

theorem store_ok_after_putBack {o o2 c c1 : Val} {s t : Seg} {w : Val}
    (hs : loadSeg o s = .ok c) (h2 : storeSeg o t w = .ok o2) : ∃ r, storeSeg (putBack o s c1) t w = .ok r := by
  cases o with
  | obj decl fs =>
    cases s with
    | item n => simp [loadSeg] at hs
    | attr n =>
      cases t with
      | item m => simp [storeSeg] at h2
      | attr m =>
        simp only [storeSeg] at h2
        split at h2
        · cases h2
        · rename_i hc2
          exact ⟨_, by simp only [putBack, storeSeg, hc2]; rfl⟩
  | dict fs =>
    cases s with
    | attr n => simp [loadSeg] at hs
    | item n =>
      cases t with
      | attr m => simp [storeSeg] at h2
      | item m => exact ⟨_, by simp only [putBack, storeSeg]; rfl⟩
  | int n => cases s <;> simp [loadSeg] at hs
  | str n => cases s <;> simp [loadSeg] at hs
  | lst n => cases s <;> simp [loadSeg] at hs

theorem assign_ok_after_diverge {p q : List Seg} (hd : Diverge p q) :
    ∀ (o o1 o2 v w : Val), assign o p v = .ok o1 → assign o q w = .ok o2 → ∃ r, assign o1 q w = .ok r := by
  induction hd with
  | @head s t p q hne =>
    intro o o1 o2 v w h1 h2
    cases p with
    | nil =>
      have h1' : storeSeg o s v = .ok o1 := h1
      cases q with
      | nil => exact store_ok_after_store h1' h2
      | cons t' r' =>
        obtain ⟨d, d2, ht, hm, _⟩ := modifyLast_deep_inv h2
        have hl1 : loadSeg o1 t = .ok d := by rw [load_store_ne h1' hne]; exact ht
        exact ⟨_, modifyLast_deep_ok hl1 hm⟩
    | cons s' r =>
      obtain ⟨c, c1, hs, hm1, rfl⟩ := modifyLast_deep_inv h1
      cases q with
      | nil => exact store_ok_after_putBack hs h2
      | cons t' r' =>
        obtain ⟨d, d2, ht, hm2, _⟩ := modifyLast_deep_inv h2
        have hl1 : loadSeg (putBack o s c1) t = .ok d := by rw [load_putBack_ne _ _ hne]; exact ht
        exact ⟨_, modifyLast_deep_ok hl1 hm2⟩
  | @cons s p q hd ih =>
    intro o o1 o2 v w h1 h2
    cases p with
    | nil => cases hd
    | cons s' r =>
      cases q with
      | nil => cases hd.symm
      | cons t' r' =>
        obtain ⟨c, c1, hs, hm1, rfl⟩ := modifyLast_deep_inv h1
        obtain ⟨c', c2, hs', hm2, _⟩ := modifyLast_deep_inv h2
        rw [hs] at hs'; cases hs'
        obtain ⟨r, hr⟩ := ih c c1 c2 v w hm1 hm2
        exact ⟨_, modifyLast_deep_ok (load_putBack_same hs) hr⟩

/-! ### success of a modification = the prefix exists and the parent accepts -/

theorem modifyLast_of_prefix {f : Val → Seg → Except Err Val} {last : Seg} {parent parent' : Val}
    (hf : f parent last = .ok parent') :
    ∀ (pre : List Seg) (o : Val), lookup o pre = .ok parent → ∃ o', modifyLast f o (pre ++ [last]) = .ok o'
  | [], o, h => by
    simp [lookup] at h; subst h
    exact ⟨parent', by simpa [modifyLast] using hf⟩
  | s :: r, o, h => by
    obtain ⟨c, hs, hr⟩ := lookup_ok_head h
    obtain ⟨c', hc'⟩ := modifyLast_of_prefix hf r c hr
    cases hrl : r ++ [last] with
    | nil => simp at hrl
    | cons t r' =>
      rw [hrl] at hc'
      exact ⟨putBack o s c', by simpa [hrl] using modifyLast_deep_ok hs hc'⟩

theorem modifyLast_ok_prefix {f : Val → Seg → Except Err Val} :
    ∀ (p : List Seg) (o o' : Val), modifyLast f o p = .ok o' → ∃ parent, lookup o p.dropLast = .ok parent
  | [], o, o', h => by simp [modifyLast] at h
  | [s], o, o', h => ⟨o, by simp [lookup]⟩
  | s :: t :: r, o, o', h => by
    obtain ⟨c, c', hs, hm, _⟩ := modifyLast_deep_inv h
    obtain ⟨parent, hp⟩ := modifyLast_ok_prefix (t :: r) c c' hm
    exact ⟨parent, by simpa [List.dropLast, lookup, hs] using hp⟩

/-- a modification fails with the (raw) error of the prefix when the prefix is missing -/
theorem lookup_dropLast_of_err {p : List Seg} {o : Val} {e : Err}
    (h : lookup o p.dropLast = .error e) (f : Val → Seg → Except Err Val) :
    modifyLast f o p = .error e := by
  induction p generalizing o with
  | nil => simp [lookup] at h
  | cons s r ih =>
    cases r with
    | nil => simp [lookup] at h
    | cons t r' =>
      simp only [List.dropLast] at h
      cases hs : loadSeg o s with
      | error e' => simp [lookup, hs] at h; simp [modifyLast, hs, h]
      | ok c =>
        rw [lookup_cons_ok hs] at h
        simp [modifyLast, hs, ih h]

/-! ## Runs -/

theorem run_cons (c : Cfg) (w : World) (op : Op) (ops : List Op) :
    run c w (op :: ops) =
      ((run c (step c w op).1 ops).1, (step c w op).2 :: (run c (step c w op).1 ops).2) := rfl

/-! ## Tokenizer: soundness (`render ∘ tokenize = id`) -/

theorem takeWord_append : ∀ (s w r : List Char), takeWord s = (w, r) → w ++ r = s
  | [], w, r, h => by simp [takeWord] at h; obtain ⟨rfl, rfl⟩ := h; rfl
  | c :: cs, w, r, h => by
    simp only [takeWord] at h
    split at h
    · cases hw : takeWord cs with
      | mk w' r' =>
        rw [hw] at h
        simp at h
        obtain ⟨rfl, rfl⟩ := h
        simp [takeWord_append cs w' r' hw]
    · simp at h; obtain ⟨rfl, rfl⟩ := h; rfl

theorem takeWord_word : ∀ (s w r : List Char), takeWord s = (w, r) → ∀ c ∈ w, isWordChar c = true
  | [], w, r, h => by simp [takeWord] at h; obtain ⟨rfl, rfl⟩ := h; simp
  | c :: cs, w, r, h => by
    simp only [takeWord] at h
    split at h
    · rename_i hc
      cases hw : takeWord cs with
      | mk w' r' =>
        rw [hw] at h
        simp at h
        obtain ⟨rfl, rfl⟩ := h
        intro x hx
        rcases List.mem_cons.1 hx with rfl | hx
        · exact hc
        · exact takeWord_word cs w' r' hw x hx
    · simp at h; obtain ⟨rfl, rfl⟩ := h; simp

/-- the rest after a greedy word does not start with a word character -/
theorem takeWord_rest : ∀ (s w r : List Char), takeWord s = (w, r) →
    r = [] ∨ ∃ c r', r = c :: r' ∧ isWordChar c = false
  | [], w, r, h => by simp [takeWord] at h; obtain ⟨rfl, rfl⟩ := h; exact Or.inl rfl
  | c :: cs, w, r, h => by
    simp only [takeWord] at h
    split at h
    · cases hw : takeWord cs with
      | mk w' r' =>
        rw [hw] at h
        simp at h
        obtain ⟨rfl, rfl⟩ := h
        exact takeWord_rest cs w' r' hw
    · rename_i hc
      simp at h; obtain ⟨rfl, rfl⟩ := h
      exact Or.inr ⟨c, cs, rfl, by simpa using hc⟩

theorem scanKey_sound (q : Char) : ∀ (s raw r : List Char), scanKey q s = some (raw, r) →
    raw ++ q :: ']' :: r = s
  | [], raw, r, h => by simp [scanKey] at h
  | [_], raw, r, h => by simp [scanKey] at h
  | c :: d :: rest, raw, r, h => by
    simp only [scanKey] at h
    split at h
    · rename_i hc
      split at h
      · rename_i hd
        simp at h; obtain ⟨rfl, rfl⟩ := h
        simp at hc hd; simp [hc, hd]
      · cases h
    · split at h
      · split at h
        · cases h
        · cases hk : scanKey q rest with
          | none => simp [hk] at h
          | some pr =>
            obtain ⟨raw', r'⟩ := pr
            simp [hk] at h
            obtain ⟨rfl, rfl⟩ := h
            have := scanKey_sound q rest raw' r' hk
            simp [this]
      · cases hk : scanKey q (d :: rest) with
        | none => simp [hk] at h
        | some pr =>
          obtain ⟨raw', r'⟩ := pr
          simp [hk] at h
          obtain ⟨rfl, rfl⟩ := h
          have := scanKey_sound q (d :: rest) raw' r' hk
          simp [this]

theorem lexLookup_sound {ad : Bool} {s : List Char} {b : Body} {r : List Char}
    (h : lexLookup ad s = some (b, r)) : renderBody b ++ r = s := by
  cases s with
  | nil => simp [lexLookup] at h
  | cons c rest =>
    simp only [lexLookup] at h
    split at h
    · rename_i hc
      simp at hc; subst hc
      split at h
      · cases h
      · cases rest with
        | nil => simp at h
        | cons q rest' =>
          simp only [] at h
          split at h
          · rename_i hq
            simp at hq; subst hq
            cases hk : scanKey '"' rest' with
            | none => simp [hk] at h
            | some pr =>
              obtain ⟨raw, r'⟩ := pr
              simp [hk] at h
              obtain ⟨rfl, rfl⟩ := h
              have := scanKey_sound _ _ _ _ hk
              simp [renderBody, Quote.char, this]
          · split at h
            · rename_i hq
              simp at hq; subst hq
              cases hk : scanKey '\'' rest' with
              | none => simp [hk] at h
              | some pr =>
                obtain ⟨raw, r'⟩ := pr
                simp [hk] at h
                obtain ⟨rfl, rfl⟩ := h
                have := scanKey_sound _ _ _ _ hk
                simp [renderBody, Quote.char, this]
            · cases h
    · cases hw : takeWord (c :: rest) with
      | mk w r' =>
        rw [hw] at h
        cases w with
        | nil => simp at h
        | cons x w' =>
          simp at h
          obtain ⟨rfl, rfl⟩ := h
          simpa [renderBody] using takeWord_append _ _ _ hw

theorem lexTok_sound {first : Bool} {s : List Char} {t : Tok} {r : List Char}
    (h : lexTok first s = some (t, r)) : renderTok t ++ r = s := by
  cases s with
  | nil => simp [lexTok] at h
  | cons c rest =>
    simp only [lexTok] at h
    split at h
    · rename_i hc
      simp at hc; subst hc
      split at h
      · cases h
      · cases hl : lexLookup true rest with
        | none => simp [hl] at h
        | some pr =>
          obtain ⟨b, r'⟩ := pr
          simp [hl] at h
          obtain ⟨rfl, rfl⟩ := h
          simp [renderTok, lexLookup_sound hl]
    · cases hl : lexLookup false (c :: rest) with
      | none => simp [hl] at h
      | some pr =>
        obtain ⟨b, r'⟩ := pr
        simp [hl] at h
        obtain ⟨rfl, rfl⟩ := h
        simpa [renderTok] using lexLookup_sound hl

theorem lexAll_sound : ∀ (n : Nat) (first : Bool) (s : List Char) (ts : List Tok),
    lexAll n first s = some ts → renderToks ts = s
  | 0, _, _, _, h => by simp [lexAll] at h
  | n + 1, _, [], ts, h => by simp [lexAll] at h; subst h; rfl
  | n + 1, first, c :: cs, ts, h => by
    simp only [lexAll] at h
    cases ht : lexTok first (c :: cs) with
    | none => simp [ht] at h
    | some pr =>
      obtain ⟨t, r⟩ := pr
      simp only [ht] at h
      cases hr : lexAll n false r with
      | none => simp [hr] at h
      | some ts' =>
        simp [hr] at h
        subst h
        simp only [renderToks, lexAll_sound n false r ts' hr]
        exact lexTok_sound ht

/-! ## Tokenizer: completeness (`tokenize ∘ render = id` on canonical tokens) -/

/-- a `\w+` body: non-empty, word characters only -/
def WordOk (cs : List Char) : Prop := cs ≠ [] ∧ ∀ c ∈ cs, isWordChar c = true

/-- well-escaped text between the quotes `q`: plain characters other than `q` and the
backslash, or a backslash followed by any character but a newline -/
inductive RawOk (q : Char) : List Char → Prop
  | nil : RawOk q []
  | plain (c : Char) (r : List Char) : c ≠ q → c ≠ '\\' → RawOk q r → RawOk q (c :: r)
  | esc (d : Char) (r : List Char) : d ≠ '\n' → RawOk q r → RawOk q ('\\' :: d :: r)

def BodyOk : Body → Prop
  | .word cs => WordOk cs
  | .key q raw => RawOk q.char raw

def Body.isWord : Body → Bool
  | .word _ => true
  | .key _ _ => false

/-- Canonical token lists = exactly what the tokenizer can return. `first`: the token
is at offset 0; `prevWord`: the previous token is a word (a dot-less word cannot follow
it: the greedy `\w+` would have swallowed it). -/
def CanonToks : Bool → Bool → List Tok → Prop
  | _, _, [] => True
  | first, prevWord, t :: ts =>
    BodyOk t.body
    ∧ (first = true → t.dot = false)
    ∧ (t.body.isWord = false → t.dot = false)
    ∧ (prevWord = true → t.dot = false → t.body.isWord = false)
    ∧ CanonToks false t.body.isWord ts

theorem takeWord_complete : ∀ (w rest : List Char), (∀ c ∈ w, isWordChar c = true) →
    (rest = [] ∨ ∃ c r, rest = c :: r ∧ isWordChar c = false) → takeWord (w ++ rest) = (w, rest)
  | [], rest, _, hr => by
    rcases hr with rfl | ⟨c, r, rfl, hc⟩
    · rfl
    · simp [takeWord, hc]
  | x :: w, rest, hw, hr => by
    have hx : isWordChar x = true := hw x (by simp)
    have ih := takeWord_complete w rest (fun c hc => hw c (by simp [hc])) hr
    simp [takeWord, hx, ih]

theorem quote_ne_backslash (q : Quote) : ('\\' == q.char) = false := by cases q <;> decide

theorem scanKey_complete (q : Quote) {raw : List Char} (h : RawOk q.char raw) (rest : List Char) :
    scanKey q.char (raw ++ q.char :: ']' :: rest) = some (raw, rest) := by
  induction h with
  | nil => simp [scanKey]
  | plain c r hcq hcb _ ih =>
    cases hr : r ++ q.char :: ']' :: rest with
    | nil => simp at hr
    | cons d rest' =>
      have hcq' : (c == q.char) = false := by simpa using hcq
      have hcb' : (c == '\\') = false := by simpa using hcb
      rw [hr] at ih
      simp [scanKey, hr, hcq', hcb', ih]
  | esc d r hd _ ih =>
    have hd' : (d == '\n') = false := by simpa using hd
    simp [scanKey, quote_ne_backslash, hd', ih]

/-- the rendering of what follows a word token never starts with a word character -/
theorem renderToks_after_word {ts : List Tok} (h : CanonToks false true ts) :
    renderToks ts = [] ∨ ∃ c r, renderToks ts = c :: r ∧ isWordChar c = false := by
  cases ts with
  | nil => exact Or.inl rfl
  | cons t ts =>
    right
    obtain ⟨hb, _, hk, hw, _⟩ := h
    cases hdot : t.dot with
    | true => exact ⟨'.', renderBody t.body ++ renderToks ts, by simp [renderToks, renderTok, hdot], by decide⟩
    | false =>
      have hnw := hw rfl hdot
      cases hbody : t.body with
      | word cs => simp [hbody, Body.isWord] at hnw
      | key q raw =>
        exact ⟨'[', q.char :: (raw ++ q.char :: ']' :: renderToks ts),
          by simp [renderToks, renderTok, hdot, hbody, renderBody], by decide⟩

theorem lexLookup_word {w rest : List Char} (hw : WordOk w)
    (hr : rest = [] ∨ ∃ c r, rest = c :: r ∧ isWordChar c = false) (ad : Bool) :
    lexLookup ad (w ++ rest) = some (.word w, rest) := by
  obtain ⟨hne, hall⟩ := hw
  cases w with
  | nil => exact absurd rfl hne
  | cons x w' =>
    have hx : isWordChar x = true := hall x (by simp)
    have hxb : (x == '[') = false := by
      cases hxe : (x == '[') with
      | false => rfl
      | true => simp at hxe; subst hxe; revert hx; decide
    have ht := takeWord_complete (x :: w') rest hall hr
    simp only [List.cons_append] at ht ⊢
    simp [lexLookup, hxb, ht]

theorem lexLookup_key (q : Quote) {raw : List Char} (h : RawOk q.char raw) (rest : List Char) :
    lexLookup false (renderBody (.key q raw) ++ rest) = some (.key q raw, rest) := by
  have := scanKey_complete q h rest
  cases q <;> simp [renderBody, Quote.char, lexLookup] at this ⊢ <;> simp [this]

theorem wordChar_ne_dot {x : Char} (hx : isWordChar x = true) : (x == '.') = false := by
  cases hxe : (x == '.') with
  | false => rfl
  | true => simp at hxe; subst hxe; revert hx; decide

theorem lexTok_complete {first prevWord : Bool} {t : Tok} {ts : List Tok}
    (h : CanonToks first prevWord (t :: ts)) :
    lexTok first (renderTok t ++ renderToks ts) = some (t, renderToks ts) := by
  obtain ⟨hb, hf, hk, _, hrest⟩ := h
  obtain ⟨dot, body⟩ := t
  cases body with
  | word cs =>
    have hr := renderToks_after_word (ts := ts) (by simpa [Body.isWord] using hrest)
    cases dot with
    | true =>
      have hfirst : first = false := by
        cases first with
        | false => rfl
        | true => exact absurd (hf rfl) (by simp)
      simp [renderTok, renderBody, lexTok, hfirst, lexLookup_word hb hr]
    | false =>
      obtain ⟨hne, hall⟩ := hb
      cases cs with
      | nil => exact absurd rfl hne
      | cons x w' =>
        have hx : isWordChar x = true := hall x (by simp)
        have := lexLookup_word (w := x :: w') ⟨hne, hall⟩ hr false
        simp only [List.cons_append] at this
        simp [renderTok, renderBody, lexTok, wordChar_ne_dot hx, this]
  | key q raw =>
    have hdot : dot = false := hk rfl
    subst hdot
    have := lexLookup_key q hb (renderToks ts)
    simp only [renderBody, List.cons_append] at this
    have e : raw ++ [q.char, ']'] ++ renderToks ts = raw ++ q.char :: ']' :: renderToks ts := by simp
    rw [e] at this
    have hbr : ('[' == '.') = false := by decide
    simp [renderTok, renderBody, lexTok, hbr, this]

theorem renderTok_ne_nil {first prevWord : Bool} {t : Tok} {ts : List Tok}
    (h : CanonToks first prevWord (t :: ts)) : 0 < (renderTok t).length := by
  obtain ⟨hb, _⟩ := h
  obtain ⟨dot, body⟩ := t
  cases body with
  | word cs =>
    obtain ⟨hne, _⟩ := hb
    cases cs with
    | nil => exact absurd rfl hne
    | cons x w => cases dot <;> simp [renderTok, renderBody]
  | key q raw => cases dot <;> simp [renderTok, renderBody]

theorem lexAll_complete : ∀ (ts : List Tok) (n : Nat) (first prevWord : Bool),
    CanonToks first prevWord ts → (renderToks ts).length < n →
    lexAll n first (renderToks ts) = some ts
  | [], n, first, _, _, hn => by
    cases n with
    | zero => simp at hn
    | succ n => simp [renderToks, lexAll]
  | t :: ts, n, first, prevWord, h, hn => by
    cases n with
    | zero => simp at hn
    | succ n =>
      have hpos := renderTok_ne_nil h
      have htok := lexTok_complete h
      have hlen : (renderToks ts).length < n := by
        simp only [renderToks, List.length_append] at hn; omega
      have ih := lexAll_complete ts n false t.body.isWord h.2.2.2.2 hlen
      cases hs : renderTok t ++ renderToks ts with
      | nil =>
        have : (renderTok t ++ renderToks ts).length = 0 := by rw [hs]; rfl
        simp only [List.length_append] at this; omega
      | cons c cs =>
        simp only [renderToks, hs, lexAll]
        rw [← hs, htok]
        simp [ih]

theorem tokenize_complete {ts : List Tok} (h : CanonToks true false ts) :
    tokenize (renderToks ts) = some ts :=
  lexAll_complete ts _ true false h (Nat.lt_succ_self _)

theorem tokenize_sound {s : List Char} {ts : List Tok} (h : tokenize s = some ts) : renderToks ts = s :=
  lexAll_sound _ _ _ _ h

/-- the `isidentifier()` shortcut of `_attr_path` agrees with the tokenizer -/
theorem tokenize_identifier {s : List Char} (h : isIdentifier s = true) :
    tokenize s = some [⟨false, .word s⟩] := by
  cases s with
  | nil => simp [isIdentifier] at h
  | cons c cs =>
    simp only [isIdentifier, Bool.and_eq_true] at h
    obtain ⟨hc, hcs⟩ := h
    have hcw : isWordChar c = true := by
      simp only [isWordChar, Char.isAlphanum, Bool.or_eq_true] at hc ⊢
      rcases hc with hc | hc
      · exact Or.inl (Or.inl hc)
      · exact Or.inr hc
    have hall : ∀ x ∈ c :: cs, isWordChar x = true := by
      intro x hx
      rcases List.mem_cons.1 hx with rfl | hx
      · exact hcw
      · exact (List.all_eq_true.1 hcs) x hx
    have hcanon : CanonToks true false [⟨false, .word (c :: cs)⟩] :=
      ⟨⟨by simp, hall⟩, fun _ => rfl, fun h => by simp [Body.isWord] at h, fun h => by simp at h, trivial⟩
    have := tokenize_complete hcanon
    simpa [renderToks, renderTok, renderBody] using this

theorem parsePath_eq (s : List Char) :
    parsePath s = match tokenize s with
      | some ts => .ok ts
      | none => .error .valueError := by
  unfold parsePath
  split
  · rename_i h; rw [tokenize_identifier h]
  · rfl

/-! ## Segment lists ↔ canonical path strings -/

theorem decode_encode : ∀ (k : List Char), decodeKey (encodeKey k) = some k
  | [] => rfl
  | c :: cs => by
    have ih := decode_encode cs
    by_cases hc : (c == '\\' || c == '"') = true
    · simp only [encodeKey, hc, if_true, decodeKey]
      have hd : (c == '\\' || c == '\'' || c == '"') = true := by
        simp only [Bool.or_eq_true] at hc ⊢
        rcases hc with hc | hc
        · exact Or.inl (Or.inl hc)
        · exact Or.inr hc
      simp [hd, ih]
    · have hc' : (c == '\\' || c == '"') = false := by simpa using hc
      have hb : (c == '\\') = false := by
        cases hcb : (c == '\\') with
        | false => rfl
        | true => simp [hcb] at hc'
      simp only [encodeKey, hc']
      cases he : encodeKey cs with
      | nil =>
        rw [he] at ih
        simp [decodeKey] at ih
        subst ih
        simp [decodeKey, hb]
      | cons d rest =>
        rw [he] at ih
        simp [decodeKey, hb, ih]

theorem rawOk_encode : ∀ (k : List Char), RawOk '"' (encodeKey k)
  | [] => .nil
  | c :: cs => by
    have ih := rawOk_encode cs
    by_cases hc : (c == '\\' || c == '"') = true
    · simp only [encodeKey, hc, if_true]
      refine .esc c _ ?_ ih
      simp only [Bool.or_eq_true, beq_iff_eq] at hc
      rcases hc with rfl | rfl <;> decide
    · have hc' : (c == '\\' || c == '"') = false := by simpa using hc
      simp only [encodeKey, hc']
      simp only [Bool.or_eq_false_iff, beq_eq_false_iff_ne] at hc'
      exact .plain c _ hc'.2 hc'.1 ih

/-- segment lists that have a path string: attribute names are `\w+` -/
def CanonSegs : List Seg → Prop
  | [] => True
  | .attr n :: r => WordOk n.toList ∧ CanonSegs r
  | .item _ :: r => CanonSegs r

theorem canon_segsToks : ∀ (p : List Seg) (first prevWord : Bool), CanonSegs p →
    (first = true → prevWord = false) → CanonToks first prevWord (segsToks first p)
  | [], _, _, _, _ => trivial
  | .attr n :: r, first, prevWord, h, hfp => by
    refine ⟨h.1, ?_, ?_, ?_, canon_segsToks r false _ h.2 (fun h => by simp at h)⟩
    · intro hf; simp [segTok, hf]
    · intro hw; simp [segTok, Body.isWord] at hw
    · intro hpw hdot
      simp [segTok] at hdot
      have := hfp hdot
      rw [this] at hpw; cases hpw
  | .item k :: r, first, prevWord, h, hfp => by
    refine ⟨?_, fun _ => rfl, fun _ => rfl, fun _ _ => rfl, canon_segsToks r false _ h (fun h => by simp at h)⟩
    exact rawOk_encode k.toList

theorem toksSegs_segsToks : ∀ (p : List Seg) (first : Bool), toksSegs (segsToks first p) = some p
  | [], _ => rfl
  | .attr n :: r, first => by
    simp [segsToks, toksSegs, segTok, Tok.seg, toksSegs_segsToks r false, String.ofList_toList]
  | .item k :: r, first => by
    simp [segsToks, toksSegs, segTok, Tok.seg, toksSegs_segsToks r false, decode_encode, String.ofList_toList]

/-! ## Everything the tokenizer returns is canonical -/

theorem scanKey_rawOk (q : Char) : ∀ (s raw r : List Char), scanKey q s = some (raw, r) → RawOk q raw
  | [], raw, r, h => by simp [scanKey] at h
  | [_], raw, r, h => by simp [scanKey] at h
  | c :: d :: rest, raw, r, h => by
    simp only [scanKey] at h
    split at h
    · split at h
      · simp at h; obtain ⟨rfl, rfl⟩ := h; exact .nil
      · cases h
    · rename_i hcq
      split at h
      · rename_i hcb
        split at h
        · cases h
        · rename_i hd
          cases hk : scanKey q rest with
          | none => simp [hk] at h
          | some pr =>
            obtain ⟨raw', r'⟩ := pr
            simp [hk] at h
            obtain ⟨rfl, rfl⟩ := h
            simp at hcb; subst hcb
            exact .esc d raw' (by simpa using hd) (scanKey_rawOk q rest raw' r' hk)
      · rename_i hcb
        cases hk : scanKey q (d :: rest) with
        | none => simp [hk] at h
        | some pr =>
          obtain ⟨raw', r'⟩ := pr
          simp [hk] at h
          obtain ⟨rfl, rfl⟩ := h
          exact .plain c raw' (by simpa using hcq) (by simpa using hcb) (scanKey_rawOk q (d :: rest) raw' r' hk)

def NonWordStart (s : List Char) : Prop := s = [] ∨ ∃ c r, s = c :: r ∧ isWordChar c = false

theorem lexLookup_ok {ad : Bool} {s : List Char} {b : Body} {r : List Char}
    (h : lexLookup ad s = some (b, r)) :
    BodyOk b ∧ (ad = true → b.isWord = true) ∧ (b.isWord = true → NonWordStart r) := by
  cases s with
  | nil => simp [lexLookup] at h
  | cons c rest =>
    simp only [lexLookup] at h
    split at h
    · split at h
      · cases h
      · rename_i had
        cases rest with
        | nil => simp at h
        | cons q rest' =>
          simp only [] at h
          split at h
          · cases hk : scanKey '"' rest' with
            | none => simp [hk] at h
            | some pr =>
              obtain ⟨raw, r'⟩ := pr
              simp [hk] at h
              obtain ⟨rfl, rfl⟩ := h
              exact ⟨scanKey_rawOk _ _ _ _ hk, fun h => by simp [h] at had, fun h => by simp [Body.isWord] at h⟩
          · split at h
            · cases hk : scanKey '\'' rest' with
              | none => simp [hk] at h
              | some pr =>
                obtain ⟨raw, r'⟩ := pr
                simp [hk] at h
                obtain ⟨rfl, rfl⟩ := h
                exact ⟨scanKey_rawOk _ _ _ _ hk, fun h => by simp [h] at had, fun h => by simp [Body.isWord] at h⟩
            · cases h
    · cases hw : takeWord (c :: rest) with
      | mk w r' =>
        rw [hw] at h
        cases w with
        | nil => simp at h
        | cons x w' =>
          simp at h
          obtain ⟨rfl, rfl⟩ := h
          exact ⟨⟨by simp, takeWord_word _ _ _ hw⟩, fun _ => rfl, fun _ => takeWord_rest _ _ _ hw⟩

theorem lexAll_canon : ∀ (n : Nat) (first prevWord : Bool) (s : List Char) (ts : List Tok),
    lexAll n first s = some ts → (prevWord = true → NonWordStart s) → CanonToks first prevWord ts
  | 0, _, _, _, _, h, _ => by simp [lexAll] at h
  | n + 1, _, _, [], ts, h, _ => by simp [lexAll] at h; subst h; trivial
  | n + 1, first, prevWord, c :: cs, ts, h, hpw => by
    simp only [lexAll] at h
    cases ht : lexTok first (c :: cs) with
    | none => simp [ht] at h
    | some pr =>
      obtain ⟨t, r⟩ := pr
      simp only [ht] at h
      cases hr : lexAll n false r with
      | none => simp [hr] at h
      | some ts' =>
        simp [hr] at h
        subst h
        -- analyse the token
        simp only [lexTok] at ht
        split at ht
        · rename_i hc
          split at ht
          · cases ht
          · rename_i hfirst
            cases hl : lexLookup true cs with
            | none => simp [hl] at ht
            | some pb =>
              obtain ⟨b, r'⟩ := pb
              simp [hl] at ht
              obtain ⟨rfl, rfl⟩ := ht
              obtain ⟨hb, hw, hrest⟩ := lexLookup_ok hl
              refine ⟨hb, fun hf => by simp [hf] at hfirst, fun hnw => by simp [hw rfl] at hnw,
                fun _ hd => by simp at hd, lexAll_canon n false _ r' ts' hr (fun hbw => hrest hbw)⟩
        · rename_i hc
          cases hl : lexLookup false (c :: cs) with
          | none => simp [hl] at ht
          | some pb =>
            obtain ⟨b, r'⟩ := pb
            simp [hl] at ht
            obtain ⟨rfl, rfl⟩ := ht
            obtain ⟨hb, _, hrest⟩ := lexLookup_ok hl
            refine ⟨hb, fun _ => rfl, fun _ => rfl, ?_, lexAll_canon n false _ r' ts' hr (fun hbw => hrest hbw)⟩
            intro hp _
            -- the previous token was a word, so `c` is not a word character: the body cannot be a word
            cases b with
            | key q raw => rfl
            | word w =>
              exfalso
              have hs := lexLookup_sound hl
              simp only [renderBody] at hs
              obtain ⟨hne, hall⟩ := hb
              cases w with
              | nil => exact hne rfl
              | cons x w' =>
                simp only [List.cons_append, List.cons.injEq] at hs
                have hx : isWordChar x = true := hall x (by simp)
                rcases hpw hp with hnil | ⟨c', r'', hcr, hcw⟩
                · cases hnil
                · simp only [List.cons.injEq] at hcr
                  rw [← hcr.1, ← hs.1, hx] at hcw
                  cases hcw

theorem tokenize_canon {s : List Char} {ts : List Tok} (h : tokenize s = some ts) : CanonToks true false ts :=
  lexAll_canon _ true false s ts h (fun h => by simp at h)

end SpecVerif.C18
