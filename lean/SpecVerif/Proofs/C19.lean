import SpecVerif.Model.C19
/-!
# Helper lemmas for C19 (lazy bootstrapping). Property theorems live in `Props/C19.lean`.
-/
set_option linter.unusedSectionVars false
set_option linter.unusedSimpArgs false
set_option linter.unusedVariables false
namespace SpecVerif.C19

/-! ### the bootstrap body -/

theorem bootState_zero (b : Body) : bootState b 0 = (untouchedCore b, []) := by
  simp [bootState]

theorem bootState_succ (b : Body) (k : Nat) (h : k < (bootActs b).length) :
    bootState b (k + 1) = applyAct (bootState b k) (bootActs b)[k] := by
  unfold bootState
  rw [List.take_succ_eq_append_getElem h, List.foldl_append]
  rfl

theorem bootActs_length (b : Body) : 2 ≤ (bootActs b).length := by
  simp [bootActs]; omega

theorem applyAct_mdata_some (x : Core × List AttrInfo) (a : Act) (h : x.1.mdata.isSome = true) :
    (applyAct x a).1.mdata.isSome = true := by
  cases a <;> simp [applyAct, h]

theorem foldl_mdata_some (as : List Act) (x : Core × List AttrInfo) (h : x.1.mdata.isSome = true) :
    (as.foldl applyAct x).1.mdata.isSome = true := by
  induction as generalizing x with
  | nil => simpa using h
  | cons a as ih => simp only [List.foldl_cons]; exact ih _ (applyAct_mdata_some x a h)

theorem eager_mdata_some (b : Body) : (eagerCore b).mdata.isSome = true := by
  unfold eagerCore bootState
  rw [List.take_length]
  unfold bootActs
  rw [List.foldl_append, List.foldl_append]
  apply foldl_mdata_some
  simp [applyAct]

theorem untouched_mdata (b : Body) : (untouchedCore b).mdata = none := rfl
theorem untouched_fields (b : Body) : (untouchedCore b).fields = none := rfl

/-! ### pcs -/

def isBoot : PC → Bool
  | .boot _ => true | _ => false

/-- pcs at which the thread holds `thread_lock` -/
def locked : PC → Bool
  | .recheck | .boot _ | .relB | .checkNew | .swapNew | .relN => true
  | _ => false

/-- pcs at which the thread does not know yet that a bootstrap has started -/
def early : PC → Bool
  | .start | .superNew | .lookup | .acqB | .recheck => true
  | _ => false

/-- the thread is past the lock of the `__new__` wrapper (or inside it) -/
def settled (tr : Trigger) : PC → Bool
  | .checkNew | .swapNew | .relN | .dispatch => true
  | .observe | .done => tr.isInst
  | _ => false

theorem isBoot_locked {p : PC} (h : isBoot p = true) : locked p = true := by
  cases p <;> simp [isBoot] at h <;> rfl

@[simp] theorem setT_threads (c : Config) (t : Nat) (st : TState) (i : Nat) :
    (c.setT t st).threads i = if i = t then st else c.threads i := rfl
@[simp] theorem setT_cls (c : Config) (t : Nat) (st : TState) : (c.setT t st).cls = c.cls := rfl
@[simp] theorem setT_lock (c : Config) (t : Nat) (st : TState) : (c.setT t st).lock = c.lock := rfl
@[simp] theorem setT_boots (c : Config) (t : Nat) (st : TState) : (c.setT t st).boots = c.boots := rfl
@[simp] theorem setT_args (c : Config) (t : Nat) (st : TState) : (c.setT t st).args = c.args := rfl
@[simp] theorem setT_news (c : Config) (t : Nat) (st : TState) : (c.setT t st).news = c.news := rfl
@[simp] theorem log_threads (c : Config) (t : Nat) (x : NewCall) : (c.log t x).threads = c.threads := rfl
@[simp] theorem log_cls (c : Config) (t : Nat) (x : NewCall) : (c.log t x).cls = c.cls := rfl
@[simp] theorem log_lock (c : Config) (t : Nat) (x : NewCall) : (c.log t x).lock = c.lock := rfl
@[simp] theorem log_boots (c : Config) (t : Nat) (x : NewCall) : (c.log t x).boots = c.boots := rfl
@[simp] theorem log_args (c : Config) (t : Nat) (x : NewCall) : (c.log t x).args = c.args := rfl
@[simp] theorem log_news (c : Config) (t : Nat) (x : NewCall) (i : Nat) :
    (c.log t x).news i = if i = t then c.news t ++ [x] else c.news i := rfl
@[simp] theorem setArgs_threads (c : Config) (t : Nat) (a : Bool) : (c.setArgs t a).threads = c.threads := rfl
@[simp] theorem setArgs_cls (c : Config) (t : Nat) (a : Bool) : (c.setArgs t a).cls = c.cls := rfl
@[simp] theorem setArgs_lock (c : Config) (t : Nat) (a : Bool) : (c.setArgs t a).lock = c.lock := rfl
@[simp] theorem setArgs_boots (c : Config) (t : Nat) (a : Bool) : (c.setArgs t a).boots = c.boots := rfl
@[simp] theorem setArgs_news (c : Config) (t : Nat) (a : Bool) : (c.setArgs t a).news = c.news := rfl
@[simp] theorem setArgs_args (c : Config) (t : Nat) (a : Bool) (i : Nat) :
    (c.setArgs t a).args i = if i = t then a else c.args i := rfl

@[simp] theorem logNew_threads (c : Config) (t : Nat) (n : NewState) : (c.logNew t n).threads = c.threads := by
  unfold Config.logNew; split <;> rfl
@[simp] theorem logNew_cls (c : Config) (t : Nat) (n : NewState) : (c.logNew t n).cls = c.cls := by
  unfold Config.logNew; split <;> rfl
@[simp] theorem logNew_lock (c : Config) (t : Nat) (n : NewState) : (c.logNew t n).lock = c.lock := by
  unfold Config.logNew; split <;> rfl
@[simp] theorem logNew_boots (c : Config) (t : Nat) (n : NewState) : (c.logNew t n).boots = c.boots := by
  unfold Config.logNew; split <;> rfl
@[simp] theorem logNew_args (c : Config) (t : Nat) (n : NewState) : (c.logNew t n).args = c.args := by
  unfold Config.logNew; split <;> rfl

theorem finalNew_ne_wrapper (b : Body) : finalNew b ≠ .wrapper := by
  unfold finalNew; split
  · simp
  · split <;> simp

theorem finalNew_fn (b : Body) : (finalNew b).fn = some (finalFn b) := by
  unfold finalNew finalFn; split
  · rfl
  · split <;> rfl

/-! ### the invariant -/

structure Inv (b : Body) (trig : Nat → Trigger) (c : Config) : Prop where
  lockPc   : ∀ i, locked (c.threads i).pc = true ↔ c.lock = some i
  bootProg : ∀ i k, (c.threads i).pc = .boot k →
      k < (bootActs b).length ∧ c.cls.core = (bootState b k).1 ∧ (c.threads i).acc = (bootState b k).2
  phase    : (∀ i, isBoot (c.threads i).pc = false) →
      (c.boots = 0 ∧ c.cls.core = untouchedCore b) ∨ (c.boots = 1 ∧ c.cls.core = eagerCore b)
  bootsOne : ∀ i, isBoot (c.threads i).pc = true → c.boots = 1
  late     : ∀ i, early (c.threads i).pc = false → c.boots = 1
  newInv   : c.cls.new = .wrapper ∨ c.cls.new = finalNew b
  swapped  : ∀ i, ((c.threads i).pc = .relN ∨ (c.threads i).pc = .dispatch ∨
        ((trig i).isInst = true ∧ ((c.threads i).pc = .observe ∨ (c.threads i).pc = .done))) →
      c.cls.new = finalNew b
  noBoot   : ∀ i, settled (trig i) (c.threads i).pc = true → ∀ j, isBoot (c.threads j).pc = false
  obsInst  : ∀ i o, (trig i).isInst = true → (c.threads i).obs = some o → o = eagerObs b
  doneObs  : ∀ i, (c.threads i).pc = .done → (c.threads i).obs.isSome = true
  newDone  : c.cls.new ≠ .wrapper → c.boots = 1 ∧ ∀ j, isBoot (c.threads j).pc = false

theorem inv_init (b : Body) (trig : Nat → Trigger) : Inv b trig (Config.init b) := by
  refine ⟨?_, ?_, ?_, ?_, ?_, ?_, ?_, ?_, ?_, ?_, ?_⟩ <;> simp [Config.init, TState.init, locked, isBoot, early, settled, untouched]

/-- the invariant does not talk about the per-thread `__new__` log / argument flag -/
theorem inv_ghost {b : Body} {trig : Nat → Trigger} {c : Config} (h : Inv b trig c)
    (a : Nat → Bool) (n : Nat → List NewCall) : Inv b trig { c with args := a, news := n } :=
  ⟨h.lockPc, h.bootProg, h.phase, h.bootsOne, h.late, h.newInv, h.swapped, h.noBoot, h.obsInst, h.doneObs, h.newDone⟩

theorem inv_log {b : Body} {trig : Nat → Trigger} {c : Config} (h : Inv b trig c) (t : Nat) (x : NewCall) :
    Inv b trig (c.log t x) := inv_ghost h _ _

theorem inv_setArgs {b : Body} {trig : Nat → Trigger} {c : Config} (h : Inv b trig c) (t : Nat) (a : Bool) :
    Inv b trig (c.setArgs t a) := inv_ghost h _ _

theorem inv_logNew {b : Body} {trig : Nat → Trigger} {c : Config} (h : Inv b trig c) (t : Nat) (n : NewState) :
    Inv b trig (c.logNew t n) := by
  unfold Config.logNew; split
  · exact h
  · exact inv_log h t _

/-- uniqueness of the lock holder -/
theorem Inv.holder {b : Body} {trig : Nat → Trigger} {c : Config} (h : Inv b trig c) {i j : Nat}
    (hi : locked (c.threads i).pc = true) (hj : locked (c.threads j).pc = true) : i = j := by
  have a := (h.lockPc i).1 hi
  have b' := (h.lockPc j).1 hj
  rw [a] at b'; cases b'; rfl

theorem Inv.noBootOf {b : Body} {trig : Nat → Trigger} {c : Config} (h : Inv b trig c) {t : Nat}
    (ht : locked (c.threads t).pc = true) (hnb : isBoot (c.threads t).pc = false) :
    ∀ j, isBoot (c.threads j).pc = false := by
  intro j
  cases hj : isBoot (c.threads j).pc with
  | false => rfl
  | true =>
    have := h.holder ht (isBoot_locked hj)
    subst this; rw [hnb] at hj; cases hj

theorem Inv.free_noLocked {b : Body} {trig : Nat → Trigger} {c : Config} (h : Inv b trig c)
    (hl : c.lock = none) : ∀ j, locked (c.threads j).pc = false := by
  intro j
  cases hj : locked (c.threads j).pc with
  | false => rfl
  | true => have := (h.lockPc j).1 hj; rw [hl] at this; cases this

theorem Inv.boots_le {b : Body} {trig : Nat → Trigger} {c : Config} (h : Inv b trig c) : c.boots ≤ 1 := by
  by_cases hb : ∃ i, isBoot (c.threads i).pc = true
  · obtain ⟨i, hi⟩ := hb; rw [h.bootsOne i hi]; exact Nat.le_refl 1
  · have : ∀ i, isBoot (c.threads i).pc = false := by
      intro i
      cases hi : isBoot (c.threads i).pc with
      | false => rfl
      | true => exact absurd ⟨i, hi⟩ hb
    rcases h.phase this with ⟨h0, _⟩ | ⟨h1, _⟩ <;> omega

/-- if something has been published, a bootstrap has started -/
theorem Inv.touched_boots {b : Body} {trig : Nat → Trigger} {c : Config} (h : Inv b trig c)
    (ht : c.cls.core ≠ untouchedCore b) : c.boots = 1 := by
  by_cases hb : ∃ i, isBoot (c.threads i).pc = true
  · obtain ⟨i, hi⟩ := hb; exact h.bootsOne i hi
  · have : ∀ i, isBoot (c.threads i).pc = false := by
      intro i
      cases hi : isBoot (c.threads i).pc with
      | false => rfl
      | true => exact absurd ⟨i, hi⟩ hb
    rcases h.phase this with ⟨_, hu⟩ | ⟨h1, _⟩
    · exact absurd hu ht
    · exact h1

/-- A step that only moves thread `t`'s pc (no shared write, lock untouched). -/
theorem inv_pcOnly {b : Body} {trig : Nat → Trigger} {c : Config} (h : Inv b trig c) (t : Nat) (pc' : PC)
    (hlock : locked pc' = locked (c.threads t).pc)
    (hb0 : isBoot (c.threads t).pc = false) (hb1 : isBoot pc' = false)
    (hlate : early pc' = false → c.boots = 1)
    (hswap : (pc' = .relN ∨ pc' = .dispatch ∨ ((trig t).isInst = true ∧ (pc' = .observe ∨ pc' = .done))) →
      c.cls.new = finalNew b)
    (hset : settled (trig t) pc' = true → ∀ j, isBoot (c.threads j).pc = false)
    (hdone : pc' ≠ .done) :
    Inv b trig (c.setT t { (c.threads t) with pc := pc' }) := by
  refine ⟨?_, ?_, ?_, ?_, ?_, ?_, ?_, ?_, ?_, ?_, ?_⟩
  rotate_right
  · intro hne
    obtain ⟨hb, hnb⟩ := h.newDone hne
    refine ⟨hb, fun j => ?_⟩
    by_cases hj : j = t
    · subst hj; simp; exact hb1
    · simp [hj]; exact hnb j
  · intro i
    by_cases hi : i = t
    · subst hi; simp [hlock]; exact h.lockPc i
    · simp [hi]; exact h.lockPc i
  · intro i k hk
    by_cases hi : i = t
    · subst hi; simp at hk; rw [hk] at hb1; simp [isBoot] at hb1
    · simp [hi] at hk ⊢; exact h.bootProg i k hk
  · intro hall
    apply h.phase
    intro i
    by_cases hi : i = t
    · subst hi; exact hb0
    · have := hall i; simpa [hi] using this
  · intro i hbi
    by_cases hi : i = t
    · subst hi; simp at hbi; rw [hbi] at hb1; cases hb1
    · simp [hi] at hbi; exact h.bootsOne i hbi
  · intro i hei
    by_cases hi : i = t
    · subst hi; simp at hei; exact hlate hei
    · simp [hi] at hei; exact h.late i hei
  · exact h.newInv
  · intro i hsi
    by_cases hi : i = t
    · subst hi; simp at hsi; exact hswap hsi
    · simp [hi] at hsi; exact h.swapped i hsi
  · intro i hsi j
    have key : ∀ j, isBoot (c.threads j).pc = false := by
      by_cases hi : i = t
      · subst hi; simp at hsi; exact hset hsi
      · simp [hi] at hsi; exact h.noBoot i hsi
    by_cases hj : j = t
    · subst hj; simp; exact hb1
    · simp [hj]; exact key j
  · intro i o hti hoi
    by_cases hi : i = t
    · subst hi; simp at hoi; exact h.obsInst i o hti hoi
    · simp [hi] at hoi; exact h.obsInst i o hti hoi
  · intro i hdi
    by_cases hi : i = t
    · subst hi; simp at hdi; exact absurd hdi hdone
    · simp [hi] at hdi ⊢; exact h.doneObs i hdi

/-- `with thread_lock:` entered (lock was free). -/
theorem inv_acquire {b : Body} {trig : Nat → Trigger} {c : Config} (h : Inv b trig c) (t : Nat) (pc' : PC)
    (hfree : c.lock = none)
    (hl0 : locked (c.threads t).pc = false) (hl1 : locked pc' = true) (hb1 : isBoot pc' = false)
    (hlate : early pc' = false → c.boots = 1)
    (hswap : pc' ≠ .relN ∧ pc' ≠ .observe ∧ pc' ≠ .done ∧ pc' ≠ .dispatch) :
    Inv b trig { c.setT t { (c.threads t) with pc := pc' } with lock := some t } := by
  have nolock := h.free_noLocked hfree
  have noboot : ∀ j, isBoot (c.threads j).pc = false := by
    intro j
    cases hj : isBoot (c.threads j).pc with
    | false => rfl
    | true => have := nolock j; rw [isBoot_locked hj] at this; cases this
  refine ⟨?_, ?_, ?_, ?_, ?_, ?_, ?_, ?_, ?_, ?_, ?_⟩
  rotate_right
  · intro hne
    refine ⟨(h.newDone hne).1, fun j => ?_⟩
    by_cases hj : j = t
    · subst hj; simp; exact hb1
    · simp [hj]; exact noboot j
  · intro i
    by_cases hi : i = t
    · subst hi; simp [hl1]
    · simp [hi, nolock i]; exact fun h' => hi h'.symm
  · intro i k hk
    by_cases hi : i = t
    · subst hi; simp at hk; rw [hk] at hb1; simp [isBoot] at hb1
    · simp [hi] at hk ⊢; exact h.bootProg i k hk
  · intro _; exact h.phase noboot
  · intro i hbi
    by_cases hi : i = t
    · subst hi; simp at hbi; rw [hbi] at hb1; cases hb1
    · simp [hi] at hbi; exact h.bootsOne i hbi
  · intro i hei
    by_cases hi : i = t
    · subst hi; simp at hei; exact hlate hei
    · simp [hi] at hei; exact h.late i hei
  · exact h.newInv
  · intro i hsi
    by_cases hi : i = t
    · subst hi; simp at hsi
      rcases hsi with h1 | h1 | ⟨_, h2 | h3⟩
      · exact absurd h1 hswap.1
      · exact absurd h1 hswap.2.2.2
      · exact absurd h2 hswap.2.1
      · exact absurd h3 hswap.2.2.1
    · simp [hi] at hsi; exact h.swapped i hsi
  · intro i _ j
    by_cases hj : j = t
    · subst hj; simp; exact hb1
    · simp [hj]; exact noboot j
  · intro i o hti hoi
    by_cases hi : i = t
    · subst hi; simp at hoi; exact h.obsInst i o hti hoi
    · simp [hi] at hoi; exact h.obsInst i o hti hoi
  · intro i hdi
    by_cases hi : i = t
    · subst hi; simp at hdi; exact absurd hdi hswap.2.2.1
    · simp [hi] at hdi ⊢; exact h.doneObs i hdi

/-- leaving a `with thread_lock:` block. -/
theorem inv_release {b : Body} {trig : Nat → Trigger} {c : Config} (h : Inv b trig c) (t : Nat) (pc' : PC)
    (hl0 : locked (c.threads t).pc = true) (hb0 : isBoot (c.threads t).pc = false)
    (hl1 : locked pc' = false)
    (hlate : early pc' = false → c.boots = 1)
    (hswap : (pc' = .dispatch ∨ ((trig t).isInst = true ∧ (pc' = .observe ∨ pc' = .done))) → c.cls.new = finalNew b)
    (hset : settled (trig t) pc' = true → ∀ j, isBoot (c.threads j).pc = false)
    (hdone : pc' ≠ .done) :
    Inv b trig { c.setT t { (c.threads t) with pc := pc' } with lock := none } := by
  have hb1 : isBoot pc' = false := by
    cases hh : isBoot pc' with
    | false => rfl
    | true => rw [isBoot_locked hh] at hl1; cases hl1
  have others : ∀ i, i ≠ t → locked (c.threads i).pc = false := by
    intro i hi
    cases hh : locked (c.threads i).pc with
    | false => rfl
    | true => exact absurd (h.holder hh hl0) hi
  have noboot := h.noBootOf hl0 hb0
  refine ⟨?_, ?_, ?_, ?_, ?_, ?_, ?_, ?_, ?_, ?_, ?_⟩
  rotate_right
  · intro hne
    refine ⟨(h.newDone hne).1, fun j => ?_⟩
    by_cases hj : j = t
    · subst hj; simp; exact hb1
    · simp [hj]; exact noboot j
  · intro i
    by_cases hi : i = t
    · subst hi; simp [hl1]
    · simp [hi, others i hi]
  · intro i k hk
    by_cases hi : i = t
    · subst hi; simp at hk; rw [hk] at hb1; simp [isBoot] at hb1
    · simp [hi] at hk ⊢; exact h.bootProg i k hk
  · intro _; exact h.phase noboot
  · intro i hbi
    by_cases hi : i = t
    · subst hi; simp at hbi; rw [hbi] at hb1; cases hb1
    · simp [hi] at hbi; exact h.bootsOne i hbi
  · intro i hei
    by_cases hi : i = t
    · subst hi; simp at hei; exact hlate hei
    · simp [hi] at hei; exact h.late i hei
  · exact h.newInv
  · intro i hsi
    by_cases hi : i = t
    · subst hi; simp at hsi
      rcases hsi with h1 | h2
      · rw [h1] at hl1; cases hl1
      · exact hswap h2
    · simp [hi] at hsi; exact h.swapped i hsi
  · intro i _ j
    by_cases hj : j = t
    · subst hj; simp; exact hb1
    · simp [hj]; exact noboot j
  · intro i o hti hoi
    by_cases hi : i = t
    · subst hi; simp at hoi; exact h.obsInst i o hti hoi
    · simp [hi] at hoi; exact h.obsInst i o hti hoi
  · intro i hdi
    by_cases hi : i = t
    · subst hi; simp at hdi; exact absurd hdi hdone
    · simp [hi] at hdi ⊢; exact h.doneObs i hdi

/-- the re-check under the lock found the placeholder: the body of `bootstrap` starts. -/
theorem inv_startBoot {b : Body} {trig : Nat → Trigger} {c : Config} (h : Inv b trig c) (t : Nat)
    (hpc : (c.threads t).pc = .recheck) (hm : c.cls.core.mdata.isNone = true) :
    Inv b trig { c.setT t { (c.threads t) with pc := .boot 0, acc := [] } with boots := c.boots + 1 } := by
  have hl0 : locked (c.threads t).pc = true := by rw [hpc]; rfl
  have hb0 : isBoot (c.threads t).pc = false := by rw [hpc]; rfl
  have noboot := h.noBootOf hl0 hb0
  have hph : c.boots = 0 ∧ c.cls.core = untouchedCore b := by
    rcases h.phase noboot with h0 | ⟨_, he⟩
    · exact h0
    · have := eager_mdata_some b; rw [← he] at this
      cases hh : c.cls.core.mdata <;> simp [hh] at hm this
  have others : ∀ i, i ≠ t → locked (c.threads i).pc = false := by
    intro i hi
    cases hh : locked (c.threads i).pc with
    | false => rfl
    | true => exact absurd (h.holder hh hl0) hi
  refine ⟨?_, ?_, ?_, ?_, ?_, ?_, ?_, ?_, ?_, ?_, ?_⟩
  rotate_right
  · intro hne
    have := (h.newDone hne).1
    omega
  · intro i
    by_cases hi : i = t
    · subst hi; simp [locked]; exact (h.lockPc i).1 hl0
    · simp [hi]; exact h.lockPc i
  · intro i k hk
    by_cases hi : i = t
    · subst hi; simp at hk; subst hk
      have := bootActs_length b
      refine ⟨by omega, ?_, ?_⟩
      · simp [bootState_zero, hph.2]
      · simp [bootState_zero]
    · simp [hi] at hk ⊢
      have := noboot i; rw [hk] at this; simp [isBoot] at this
  · intro hall; have := hall t; simp [isBoot] at this
  · intro i _; simp [hph.1]
  · intro i _; simp [hph.1]
  · exact h.newInv
  · intro i hsi
    by_cases hi : i = t
    · subst hi; simp at hsi
    · simp [hi] at hsi; exact h.swapped i hsi
  · intro i hsi j
    by_cases hi : i = t
    · subst hi; simp [settled] at hsi
    · simp [hi] at hsi
      -- a settled thread means the class is complete: the re-check cannot have seen the placeholder
      have hlate : early (c.threads i).pc = false := by
        cases hp : (c.threads i).pc <;> simp [hp, settled] at hsi <;> rfl
      have := h.late i hlate
      omega
  · intro i o hti hoi
    by_cases hi : i = t
    · subst hi; simp at hoi; exact h.obsInst i o hti hoi
    · simp [hi] at hoi; exact h.obsInst i o hti hoi
  · intro i hdi
    by_cases hi : i = t
    · subst hi; simp at hdi
    · simp [hi] at hdi ⊢; exact h.doneObs i hdi

/-- one action of the body of `bootstrap`. -/
theorem inv_bootStep {b : Body} {trig : Nat → Trigger} {c : Config} (h : Inv b trig c) (t k : Nat)
    (hpc : (c.threads t).pc = .boot k) (a : Act) (ha : (bootActs b)[k]? = some a) :
    Inv b trig { c.setT t { (c.threads t) with
                    pc := if k + 1 < (bootActs b).length then PC.boot (k + 1) else PC.relB,
                    acc := (applyAct (c.cls.core, (c.threads t).acc) a).2 } with
                 cls := { c.cls with core := (applyAct (c.cls.core, (c.threads t).acc) a).1 } } := by
  obtain ⟨hk, hcore, hacc⟩ := h.bootProg t k hpc
  have hl0 : locked (c.threads t).pc = true := by rw [hpc]; rfl
  have hbt : isBoot (c.threads t).pc = true := by rw [hpc]; rfl
  have hboots := h.bootsOne t hbt
  have ha' : (bootActs b)[k] = a := by
    have := List.getElem?_eq_getElem hk; rw [this] at ha; cases ha; rfl
  have hnext : applyAct (c.cls.core, (c.threads t).acc) a = bootState b (k + 1) := by
    rw [bootState_succ b k hk, ha', hcore, hacc]
  have others : ∀ i, i ≠ t → locked (c.threads i).pc = false := by
    intro i hi
    cases hh : locked (c.threads i).pc with
    | false => rfl
    | true => exact absurd (h.holder hh hl0) hi
  have othersNB : ∀ i, i ≠ t → isBoot (c.threads i).pc = false := by
    intro i hi
    cases hh : isBoot (c.threads i).pc with
    | false => rfl
    | true => have := others i hi; rw [isBoot_locked hh] at this; cases this
  have noSettled : ∀ i, settled (trig i) (c.threads i).pc = true → False := by
    intro i hsi
    have := h.noBoot i hsi t; rw [hbt] at this; cases this
  refine ⟨?_, ?_, ?_, ?_, ?_, ?_, ?_, ?_, ?_, ?_, ?_⟩
  rotate_right
  · intro hne
    have := (h.newDone hne).2 t
    rw [hbt] at this; cases this
  · intro i
    by_cases hi : i = t
    · subst hi
      have : locked (if k + 1 < (bootActs b).length then PC.boot (k + 1) else PC.relB) = true := by
        split <;> rfl
      simp [this]; exact (h.lockPc i).1 hl0
    · simp [hi]; exact h.lockPc i
  · intro i k' hk'
    by_cases hi : i = t
    · subst hi
      simp at hk'
      split at hk'
      · rename_i hlt
        cases hk'
        simp
        exact ⟨hlt, by rw [hnext], by rw [hnext]⟩
      · cases hk'
    · simp [hi] at hk' ⊢
      have := othersNB i hi; rw [hk'] at this; simp [isBoot] at this
  · intro hall
    have ht := hall t
    simp at ht
    split at ht
    · simp [isBoot] at ht
    · rename_i hge
      have hlen : k + 1 = (bootActs b).length := by omega
      right
      refine ⟨hboots, ?_⟩
      show (applyAct (c.cls.core, (c.threads t).acc) a).1 = eagerCore b
      rw [hnext, hlen]; rfl
  · intro i _; exact hboots
  · intro i _; exact hboots
  · exact h.newInv
  · intro i hsi
    by_cases hi : i = t
    · subst hi; simp at hsi
      rcases hsi with h1 | h1 | ⟨_, h2 | h3⟩
      · split at h1 <;> cases h1
      · split at h1 <;> cases h1
      · split at h2 <;> cases h2
      · split at h3 <;> cases h3
    · simp [hi] at hsi; exact h.swapped i hsi
  · intro i hsi j
    by_cases hi : i = t
    · subst hi; simp at hsi
      split at hsi <;> simp [settled] at hsi
    · simp [hi] at hsi; exact absurd (noSettled i hsi) id
  · intro i o hti hoi
    by_cases hi : i = t
    · subst hi; simp at hoi; exact h.obsInst i o hti hoi
    · simp [hi] at hoi; exact h.obsInst i o hti hoi
  · intro i hdi
    by_cases hi : i = t
    · subst hi; simp at hdi; split at hdi <;> cases hdi
    · simp [hi] at hdi ⊢; exact h.doneObs i hdi

theorem inv_setNew {b : Body} {trig : Nat → Trigger} {c : Config} (h : Inv b trig c)
    (hb : c.boots = 1) (hnb : ∀ j, isBoot (c.threads j).pc = false) :
    Inv b trig { c with cls := { c.cls with new := finalNew b } } :=
  ⟨h.lockPc, h.bootProg, h.phase, h.bootsOne, h.late, Or.inr rfl, fun _ _ => rfl, h.noBoot, h.obsInst, h.doneObs,
   fun _ => ⟨hb, hnb⟩⟩

/-- the wrapper removes itself. -/
theorem inv_swap {b : Body} {trig : Nat → Trigger} {c : Config} (h : Inv b trig c) (t : Nat)
    (hpc : (c.threads t).pc = .swapNew) :
    Inv b trig { c.setT t { (c.threads t) with pc := .relN } with cls := { c.cls with new := finalNew b } } := by
  have h' := inv_setNew h (h.late t (by rw [hpc]; rfl)) (h.noBoot t (by rw [hpc]; rfl))
  exact inv_pcOnly h' t .relN (by show locked PC.relN = locked (c.threads t).pc; rw [hpc]; rfl)
    (by show isBoot (c.threads t).pc = false; rw [hpc]; rfl) rfl
    (fun _ => h.late t (by rw [hpc]; rfl)) (fun _ => rfl) (fun _ => h.noBoot t (by rw [hpc]; rfl)) (by simp)

/-- the observation point (instance constructed / returned value inspected). -/
theorem inv_observe {b : Body} {trig : Nat → Trigger} {c : Config} (h : Inv b trig c) (t : Nat)
    (hpc : (c.threads t).pc = .observe) :
    Inv b trig (c.setT t { (c.threads t) with pc := .done, obs := some (snapshot c.cls) }) := by
  have hboots : c.boots = 1 := h.late t (by rw [hpc]; rfl)
  refine ⟨?_, ?_, ?_, ?_, ?_, ?_, ?_, ?_, ?_, ?_, ?_⟩
  rotate_right
  · intro hne
    refine ⟨hboots, fun j => ?_⟩
    by_cases hj : j = t
    · subst hj; simp [isBoot]
    · simp [hj]; exact (h.newDone hne).2 j
  · intro i
    by_cases hi : i = t
    · subst hi; have := h.lockPc i; rw [hpc] at this; simpa [locked] using this
    · simp [hi]; exact h.lockPc i
  · intro i k hk
    by_cases hi : i = t
    · subst hi; simp at hk
    · simp [hi] at hk ⊢; exact h.bootProg i k hk
  · intro hall
    apply h.phase
    intro i
    by_cases hi : i = t
    · subst hi; rw [hpc]; rfl
    · have := hall i; simpa [hi] using this
  · intro i _; exact hboots
  · intro i _; exact hboots
  · exact h.newInv
  · intro i hsi
    by_cases hi : i = t
    · subst hi; simp at hsi
      exact h.swapped i (Or.inr (Or.inr ⟨hsi, Or.inl hpc⟩))
    · simp [hi] at hsi; exact h.swapped i hsi
  · intro i hsi j
    have key : ∀ j, isBoot (c.threads j).pc = false := by
      by_cases hi : i = t
      · subst hi; simp [settled] at hsi
        exact h.noBoot i (by rw [hpc]; simp [settled, hsi])
      · simp [hi] at hsi; exact h.noBoot i hsi
    by_cases hj : j = t
    · subst hj; simp [isBoot]
    · simp [hj]; exact key j
  · intro i o hti hoi
    by_cases hi : i = t
    · subst hi
      simp at hoi
      subst hoi
      have hnb := h.noBoot i (by rw [hpc]; simp [settled, hti])
      have hnew := h.swapped i (Or.inr (Or.inr ⟨hti, Or.inl hpc⟩))
      have hcore : c.cls.core = eagerCore b := by
        rcases h.phase hnb with ⟨h0, _⟩ | ⟨_, he⟩
        · omega
        · exact he
      simp [snapshot, eagerObs, hcore, hnew]
    · simp [hi] at hoi; exact h.obsInst i o hti hoi
  · intro i hdi
    by_cases hi : i = t
    · subst hi; simp
    · simp [hi] at hdi ⊢; exact h.doneObs i hdi

/-- the triggering lookup: metadata found (go on) or placeholder found (`bootstrap_once`). -/
theorem inv_startStep {b : Body} {trig : Nat → Trigger} {c : Config} (h : Inv b trig c) (t : Nat)
    (hpc : (c.threads t).pc = .start ∨ (c.threads t).pc = .lookup) (found : Bool) (pcF : PC)
    (hfound : found = true → c.cls.core ≠ untouchedCore b)
    (hpcF : pcF = .acqN ∨ (pcF = .observe ∧ (trig t).isInst = false)) :
    Inv b trig (c.setT t { (c.threads t) with pc := if found then pcF else PC.acqB }) := by
  have hcases : (if found then pcF else PC.acqB) = .acqB ∨ (found = true ∧ (if found then pcF else PC.acqB) = pcF) := by
    cases found <;> simp
  have hnl : locked (c.threads t).pc = false := by rcases hpc with h' | h' <;> rw [h'] <;> rfl
  have hnb : isBoot (c.threads t).pc = false := by rcases hpc with h' | h' <;> rw [h'] <;> rfl
  apply inv_pcOnly h t _ _ hnb
  · rcases hcases with h1 | ⟨_, h2⟩
    · rw [h1]; rfl
    · rw [h2]; rcases hpcF with h3 | ⟨h3, _⟩ <;> rw [h3] <;> rfl
  · intro he
    rcases hcases with h1 | ⟨hf, _⟩
    · rw [h1] at he; cases he
    · exact h.touched_boots (hfound hf)
  · intro hsw
    rcases hcases with h1 | ⟨_, h2⟩
    · rw [h1] at hsw; rcases hsw with h' | h' | ⟨_, h' | h'⟩ <;> cases h'
    · rw [h2] at hsw
      rcases hpcF with h3 | ⟨h3, hne⟩
      · rw [h3] at hsw; rcases hsw with h' | h' | ⟨_, h' | h'⟩ <;> cases h'
      · rcases hsw with h' | h' | ⟨hti, _⟩
        · rw [h3] at h'; cases h'
        · rw [h3] at h'; cases h'
        · rw [hne] at hti; cases hti
  · intro hset
    rcases hcases with h1 | ⟨_, h2⟩
    · rw [h1] at hset; simp [settled] at hset
    · rw [h2] at hset
      rcases hpcF with h3 | ⟨h3, hne⟩
      · rw [h3] at hset; simp [settled] at hset
      · rw [h3] at hset; simp [settled, hne] at hset
  · rcases hcases with h1 | ⟨_, h2⟩
    · rw [h1]; simp
    · rw [h2]; rcases hpcF with h3 | ⟨h3, _⟩ <;> rw [h3] <;> simp
  · rw [hnl]
    rcases hcases with h1 | ⟨_, h2⟩
    · rw [h1]; rfl
    · rw [h2]; rcases hpcF with h3 | ⟨h3, _⟩ <;> rw [h3] <;> rfl

/-- Every step of every thread keeps the invariant. -/
theorem inv_step' {b : Body} {trig : Nat → Trigger} {c c' : Config} {l : Label} (h : Inv b trig c) (t : Nat)
    (hs : step b trig c t = some (c', l)) : Inv b trig c' := by
  unfold step at hs
  cases hpc : (c.threads t).pc with
  | start =>
    simp only [hpc] at hs
    cases htr : trig t <;> simp only [htr] at hs <;> cases hs
    · -- `Cls(...)`: the wrapper, or the real `__new__` once the wrapper removed itself
      apply inv_logNew
      by_cases hw : c.cls.new = .wrapper
      · simp only [hw, if_true]
        exact inv_pcOnly h t .lookup (by rw [hpc]; rfl) (by rw [hpc]; rfl) rfl (by simp [early]) (by simp)
          (by simp [settled]) (by simp)
      · simp only [hw, if_false]
        have hfin : c.cls.new = finalNew b := by
          rcases h.newInv with h1 | h1
          · exact absurd h1 hw
          · exact h1
        obtain ⟨hb, hnb⟩ := h.newDone hw
        exact inv_pcOnly h t .observe (by rw [hpc]; rfl) (by rw [hpc]; rfl) rfl (fun _ => hb) (fun _ => hfin)
          (fun _ => hnb) (by simp)
    · exact inv_startStep h t (Or.inl hpc) c.cls.core.mdata.isSome .observe
        (fun hf hu => by rw [hu] at hf; simp [untouchedCore] at hf) (Or.inr ⟨rfl, by rw [htr]; rfl⟩)
    · exact inv_startStep h t (Or.inl hpc) c.cls.core.fields.isSome .observe
        (fun hf hu => by rw [hu] at hf; simp [untouchedCore] at hf) (Or.inr ⟨rfl, by rw [htr]; rfl⟩)
    · -- `Sub(...)`: the subclass' own `__new__` starts
      apply inv_log
      exact inv_pcOnly h t .superNew (by rw [hpc]; rfl) (by rw [hpc]; rfl) rfl (by simp [early]) (by simp)
        (by simp [settled]) (by simp)
  | superNew =>
    simp only [hpc] at hs
    cases hs
    apply inv_logNew
    have h2 := inv_setArgs h t (c.args t && (trig t).fwd)
    have hpc2 : ((c.setArgs t (c.args t && (trig t).fwd)).threads t).pc = .superNew := hpc
    by_cases hw : c.cls.new = .wrapper
    · simp only [hw, if_true]
      exact inv_pcOnly h2 t .lookup (by rw [hpc2]; rfl) (by rw [hpc2]; rfl) rfl (by simp [early]) (by simp)
        (by simp [settled]) (by simp)
    · simp only [hw, if_false]
      have hfin : c.cls.new = finalNew b := by
        rcases h.newInv with h1 | h1
        · exact absurd h1 hw
        · exact h1
      obtain ⟨hb, hnb⟩ := h.newDone hw
      exact inv_pcOnly h2 t .observe (by rw [hpc2]; rfl) (by rw [hpc2]; rfl) rfl (fun _ => hb) (fun _ => hfin)
        (fun _ => hnb) (by simp)
  | lookup =>
    simp only [hpc] at hs
    cases hs
    exact inv_startStep h t (Or.inr hpc) c.cls.core.mdata.isSome .acqN
      (fun hf hu => by rw [hu] at hf; simp [untouchedCore] at hf) (Or.inl rfl)
  | acqB =>
    simp only [hpc] at hs
    split at hs
    · rename_i hfree
      cases hs
      have hfree' : c.lock = none := by cases hh : c.lock <;> simp [hh] at hfree; rfl
      exact inv_acquire h t .recheck hfree' (by rw [hpc]; rfl) rfl rfl (by simp [early]) (by simp)
    · cases hs
  | recheck =>
    simp only [hpc] at hs
    split at hs
    · rename_i hm; cases hs; exact inv_startBoot h t hpc hm
    · rename_i hm
      cases hs
      have hl0 : locked (c.threads t).pc = true := by rw [hpc]; rfl
      have hb0 : isBoot (c.threads t).pc = false := by rw [hpc]; rfl
      have hboots : c.boots = 1 := by
        apply h.touched_boots
        intro hu; rw [hu] at hm; simp [untouchedCore] at hm
      exact inv_pcOnly h t .relB (by rw [hpc]; rfl) hb0 rfl (fun _ => hboots) (by simp) (by simp [settled]) (by simp)
  | boot k =>
    simp only [hpc] at hs
    split at hs
    · rename_i hnone
      have := (h.bootProg t k hpc).1
      rw [List.getElem?_eq_getElem this] at hnone; cases hnone
    · rename_i a ha; cases hs; exact inv_bootStep h t k hpc a ha
  | relB =>
    simp only [hpc] at hs
    cases hs
    exact inv_release h t .reread (by rw [hpc]; rfl) (by rw [hpc]; rfl) rfl
      (fun _ => h.late t (by rw [hpc]; rfl)) (by simp) (by simp [settled]) (by simp)
  | reread =>
    simp only [hpc] at hs
    cases hs
    have hboots : c.boots = 1 := h.late t (by rw [hpc]; rfl)
    apply inv_pcOnly h t _ _ (by rw [hpc]; rfl)
    · split <;> rfl
    · intro _; exact hboots
    · intro hsw
      rcases hsw with h1 | h1 | ⟨hti, h2 | h3⟩
      · split at h1 <;> cases h1
      · split at h1 <;> cases h1
      · simp [hti] at h2
      · split at h3 <;> cases h3
    · intro hset
      cases hti : (trig t).isInst <;> simp [hti, settled] at hset
    · split <;> simp
    · split <;> rw [hpc] <;> rfl
  | acqN =>
    simp only [hpc] at hs
    split at hs
    · rename_i hfree
      cases hs
      have hfree' : c.lock = none := by cases hh : c.lock <;> simp [hh] at hfree; rfl
      exact inv_acquire h t .checkNew hfree' (by rw [hpc]; rfl) rfl rfl
        (fun _ => h.late t (by rw [hpc]; rfl)) (by simp)
    · cases hs
  | checkNew =>
    simp only [hpc] at hs
    cases hs
    have hnb := h.noBoot t (by rw [hpc]; rfl)
    apply inv_pcOnly h t _ _ (by rw [hpc]; rfl)
    · split <;> rfl
    · intro _; exact h.late t (by rw [hpc]; rfl)
    · intro hsw
      rcases hsw with h1 | h1 | ⟨_, h2 | h3⟩
      · split at h1
        · cases h1
        · rename_i hne
          rcases h.newInv with hw | hf
          · exact absurd hw hne
          · exact hf
      · split at h1 <;> cases h1
      · split at h2 <;> cases h2
      · split at h3 <;> cases h3
    · intro _; exact hnb
    · split <;> simp
    · split <;> rw [hpc] <;> rfl
  | swapNew =>
    simp only [hpc] at hs
    cases hs
    exact inv_swap h t hpc
  | relN =>
    simp only [hpc] at hs
    cases hs
    exact inv_release h t .dispatch (by rw [hpc]; rfl) (by rw [hpc]; rfl) rfl
      (fun _ => h.late t (by rw [hpc]; rfl)) (fun _ => h.swapped t (Or.inl hpc))
      (fun _ => h.noBoot t (by rw [hpc]; rfl)) (by simp)
  | dispatch =>
    simp only [hpc] at hs
    cases hs
    apply inv_logNew
    have hfin : c.cls.new = finalNew b := h.swapped t (Or.inr (Or.inl hpc))
    have hw : c.cls.new ≠ .wrapper := by rw [hfin]; exact finalNew_ne_wrapper b
    simp only [hw, if_false]
    exact inv_pcOnly h t .observe (by rw [hpc]; rfl) (by rw [hpc]; rfl) rfl
      (fun _ => h.late t (by rw [hpc]; rfl)) (fun _ => hfin) (fun _ => h.noBoot t (by rw [hpc]; rfl)) (by simp)
  | observe =>
    simp only [hpc] at hs
    cases hs
    exact inv_observe h t hpc
  | done =>
    simp only [hpc] at hs
    cases hs

/-- a step of thread `t` never touches another thread's private state -/
theorem step_others {b : Body} {trig : Nat → Trigger} {c c' : Config} {l : Label} (t : Nat)
    (hs : step b trig c t = some (c', l)) : ∀ j, j ≠ t → c'.threads j = c.threads j := by
  intro j hj
  unfold step at hs
  cases hpc : (c.threads t).pc <;> simp only [hpc] at hs
  case start =>
    cases htr : trig t <;> simp only [htr] at hs <;> cases hs <;> (try unfold Config.logNew) <;> (try split) <;> simp [hj]
  case superNew => cases hs; unfold Config.logNew; split <;> simp [hj]
  case dispatch => cases hs; unfold Config.logNew; split <;> simp [hj]
  case lookup => cases hs; simp [hj]
  case acqB => split at hs <;> cases hs; simp [hj]
  case recheck => split at hs <;> cases hs <;> simp [hj]
  case boot k => split at hs <;> cases hs <;> simp [hj]
  case relB => cases hs; simp [hj]
  case reread => cases hs; simp [hj]
  case acqN => split at hs <;> cases hs; simp [hj]
  case checkNew => cases hs; simp [hj]
  case swapNew => cases hs; simp [hj]
  case relN => cases hs; simp [hj]
  case observe => cases hs; simp [hj]
  case done => cases hs

/-! ### a thread running alone always terminates -/

def rank (b : Body) : PC → Nat
  | .start => (bootActs b).length + 14
  | .superNew => (bootActs b).length + 13
  | .lookup => (bootActs b).length + 11
  | .acqB => (bootActs b).length + 10
  | .recheck => (bootActs b).length + 9
  | .boot k => ((bootActs b).length - k) + 8
  | .relB => 8
  | .reread => 7
  | .acqN => 6
  | .checkNew => 5
  | .swapNew => 4
  | .relN => 3
  | .dispatch => 2
  | .observe => 1
  | .done => 0

theorem step_alone {b : Body} {trig : Nat → Trigger} {c : Config} (h : Inv b trig c) (t : Nat)
    (hothers : ∀ j, j ≠ t → (c.threads j).pc = .start) (hnd : (c.threads t).pc ≠ .done) :
    ∃ c' l, step b trig c t = some (c', l) ∧ rank b (c'.threads t).pc < rank b (c.threads t).pc
      ∧ ∀ j, j ≠ t → (c'.threads j).pc = .start := by
  have free_of_unlocked : locked (c.threads t).pc = false → c.lock = none := by
    intro hl
    cases hlk : c.lock with
    | none => rfl
    | some j =>
      have hj := (h.lockPc j).2 hlk
      by_cases hjt : j = t
      · subst hjt; rw [hl] at hj; cases hj
      · rw [hothers j hjt] at hj; cases hj
  have keep : ∀ (c' : Config) (st : TState), c'.threads = (c.setT t st).threads →
      ∀ j, j ≠ t → (c'.threads j).pc = .start := by
    intro c' st hc j hj; rw [hc]; simp [hj]; exact hothers j hj
  cases hpc : (c.threads t).pc with
  | start =>
    simp only [step, hpc]
    cases htr : trig t <;> simp only [htr]
    all_goals refine ⟨_, _, rfl, ?_, keep _ _ (by first | rfl | (simp only [logNew_threads, log_threads, setArgs_threads]; rfl))⟩
    all_goals simp
    all_goals first | (split <;> simp [rank] <;> omega) | (simp [rank])
  | superNew =>
    simp only [step, hpc]
    refine ⟨_, _, rfl, ?_, keep _ _ (by first | rfl | (simp only [logNew_threads, log_threads, setArgs_threads]; rfl))⟩
    simp
    split <;> simp [rank] <;> omega
  | dispatch =>
    have hfin : c.cls.new = finalNew b := h.swapped t (Or.inr (Or.inl hpc))
    have hw : c.cls.new ≠ .wrapper := by rw [hfin]; exact finalNew_ne_wrapper b
    simp only [step, hpc, hw, if_false]
    exact ⟨_, _, rfl, by simp [rank], keep _ _ (by first | rfl | (simp only [logNew_threads, log_threads, setArgs_threads]; rfl))⟩
  | lookup =>
    simp only [step, hpc]
    refine ⟨_, _, rfl, ?_, keep _ _ rfl⟩
    simp
    split <;> simp [rank] <;> omega
  | acqB =>
    have := free_of_unlocked (by rw [hpc]; rfl)
    simp only [step, hpc, this, Option.isNone_none, if_true]
    exact ⟨_, _, rfl, by simp [rank], keep _ _ rfl⟩
  | recheck =>
    simp only [step, hpc]
    split
    · refine ⟨_, _, rfl, ?_, keep _ _ rfl⟩
      simp [rank]
    · exact ⟨_, _, rfl, by simp [rank], keep _ _ rfl⟩
  | boot k =>
    have hk := (h.bootProg t k hpc).1
    simp only [step, hpc, List.getElem?_eq_getElem hk]
    refine ⟨_, _, rfl, ?_, keep _ _ rfl⟩
    simp
    split <;> simp [rank] <;> omega
  | relB => simp only [step, hpc]; exact ⟨_, _, rfl, by simp [rank], keep _ _ rfl⟩
  | reread =>
    simp only [step, hpc]
    refine ⟨_, _, rfl, ?_, keep _ _ rfl⟩
    simp
    split <;> simp [rank]
  | acqN =>
    have := free_of_unlocked (by rw [hpc]; rfl)
    simp only [step, hpc, this, Option.isNone_none, if_true]
    exact ⟨_, _, rfl, by simp [rank], keep _ _ rfl⟩
  | checkNew =>
    simp only [step, hpc]
    refine ⟨_, _, rfl, ?_, keep _ _ rfl⟩
    simp
    split <;> simp [rank]
  | swapNew => simp only [step, hpc]; exact ⟨_, _, rfl, by simp [rank], keep _ _ rfl⟩
  | relN => simp only [step, hpc]; exact ⟨_, _, rfl, by simp [rank], keep _ _ rfl⟩
  | observe => simp only [step, hpc]; exact ⟨_, _, rfl, by simp [rank], keep _ _ rfl⟩
  | done => exact absurd hpc hnd

theorem run_alone {b : Body} {trig : Nat → Trigger} (t : Nat) :
    ∀ (N : Nat) (c : Config), Inv b trig c → (∀ j, j ≠ t → (c.threads j).pc = .start) →
      rank b (c.threads t).pc ≤ N →
      ((runSched b trig c (List.replicate N t)).threads t).pc = .done := by
  intro N
  induction N with
  | zero =>
    intro c _ _ hr
    simp [runSched]
    cases hpc : (c.threads t).pc <;> rw [hpc] at hr <;> simp [rank] at hr
  | succ N ih =>
    intro c h ho hr
    by_cases hd : (c.threads t).pc = .done
    · have hnone : step b trig c t = none := by simp only [step, hd]
      simp only [List.replicate_succ, runSched, hnone]
      exact ih c h ho (by rw [hd]; simp [rank])
    · obtain ⟨c', l, hs, hlt, ho'⟩ := step_alone h t ho hd
      simp only [List.replicate_succ, runSched, hs]
      exact ih c' (inv_step' h t hs) ho' (by omega)

/-! ### which `__new__` bodies run (ghost log) -/

/-- a `__new__` of the decorated class has run for this thread's construction -/
def past : PC → Bool
  | .observe | .done => true
  | _ => false

/-- pcs that only a constructing program reaches (inside a `__new__`) -/
def instOnly : PC → Bool
  | .superNew | .lookup | .acqN | .checkNew | .swapNew | .relN | .dispatch => true
  | _ => false

/-- the argument flag of a thread's innermost `__new__` frame, as a function of where it is -/
def expArgs (tr : Trigger) : PC → Bool
  | .start | .superNew => true
  | _ => tr.fwd

/-- the log of a thread, as a function of where it is -/
def expNews (b : Body) (tr : Trigger) (pc : PC) : List NewCall :=
  match tr with
  | .inst => if past pc = true then [⟨finalFn b, true⟩] else []
  | .instSub fwd => if pc = .start then [] else ⟨.sub, true⟩ :: (if past pc = true then [⟨finalFn b, fwd⟩] else [])
  | _ => []

structure LogInv (b : Body) (trig : Nat → Trigger) (c : Config) : Prop where
  news : ∀ i, c.news i = expNews b (trig i) (c.threads i).pc
  args : ∀ i, c.args i = expArgs (trig i) (c.threads i).pc
  prog : ∀ i, instOnly (c.threads i).pc = true → (trig i).isInst = true
  subp : ∀ i, (c.threads i).pc = .superNew → ∃ f, trig i = .instSub f

theorem logInv_init (b : Body) (trig : Nat → Trigger) : LogInv b trig (Config.init b) := by
  constructor <;> intro i <;> simp [Config.init, TState.init, expArgs, expNews, past, instOnly]
  cases trig i <;> simp

theorem logNew_news (c : Config) (t : Nat) (n : NewState) (i : Nat) :
    (c.logNew t n).news i =
      if i = t then (match n.fn with | none => c.news t | some f => c.news t ++ [⟨f, c.args t⟩]) else c.news i := by
  unfold Config.logNew
  split <;> rename_i hn <;> simp [hn]
  intro h; rw [h]

/-- a step that moves only thread `t`'s pc, between two pcs at which the log and the flag are the same -/
theorem logInv_pcOnly {b : Body} {trig : Nat → Trigger} {c c' : Config} (hl : LogInv b trig c) (t : Nat) (st : TState)
    (hth : c'.threads = (c.setT t st).threads) (hn : c'.news = c.news) (ha : c'.args = c.args)
    (hN : expNews b (trig t) st.pc = expNews b (trig t) (c.threads t).pc)
    (hA : expArgs (trig t) st.pc = expArgs (trig t) (c.threads t).pc)
    (hP : instOnly st.pc = true → (trig t).isInst = true) (hS : st.pc ≠ .superNew) : LogInv b trig c' := by
  constructor <;> intro i
  · rw [hn, hth, hl.news i]
    by_cases hi : i = t
    · subst hi; simp [hN]
    · simp [hi]
  · rw [ha, hth, hl.args i]
    by_cases hi : i = t
    · subst hi; simp [hA]
    · simp [hi]
  · rw [hth]
    by_cases hi : i = t
    · subst hi; simpa using hP
    · simp [hi]; exact hl.prog i
  · rw [hth]
    by_cases hi : i = t
    · subst hi; simp; intro h0; exact absurd h0 hS
    · intro h0; apply hl.subp i; simpa [hi] using h0

theorem expNews_mid (b : Body) (tr : Trigger) {p q : PC} (hp : past p = false) (hq : past q = false)
    (hp' : p ≠ .start) (hq' : q ≠ .start) : expNews b tr p = expNews b tr q := by
  cases tr <;> simp [expNews, hp, hq, hp', hq']

theorem expArgs_mid (tr : Trigger) {p q : PC} (hp : p ≠ .start ∧ p ≠ .superNew) (hq : q ≠ .start ∧ q ≠ .superNew) :
    expArgs tr p = expArgs tr q := by
  have : ∀ r : PC, r ≠ .start ∧ r ≠ .superNew → expArgs tr r = tr.fwd := by
    intro r hr; cases r <;> simp [expArgs] at hr ⊢
  rw [this p hp, this q hq]

/-- the step that calls what is in the `__new__` slot of the decorated class: the wrapper
(the log does not change, the thread continues at `lookup`) or the final `__new__` (its body
is logged with the current flag, the thread is `past`) -/
theorem logInv_callNew {b : Body} {trig : Nat → Trigger} {c c1 : Config} (h : Inv b trig c) (hl : LogInv b trig c)
    (t : Nat) (st : TState)
    (h1t : c1.threads = c.threads) (h1n : c1.news = c.news)
    (h1a : c1.args t = (trig t).fwd) (h1o : ∀ i, i ≠ t → c1.args i = c.args i)
    (hpc : st.pc = if c.cls.new = .wrapper then PC.lookup else PC.observe)
    (hnow : (c.threads t).pc ≠ .done ∧ (c.threads t).pc ≠ .observe)
    (hstart : (c.threads t).pc = .start → trig t = .inst)
    (hinst : (trig t).isInst = true) :
    LogInv b trig ((c1.setT t st).logNew t c.cls.new) := by
  have hpast : past (c.threads t).pc = false := by
    cases hp : (c.threads t).pc <;> simp [past] <;> simp [hp] at hnow
  have hnews := hl.news t
  have pl : past PC.lookup = false := rfl
  have po : past PC.observe = true := rfl
  have hpc' : st.pc = .lookup ∨ st.pc = .observe := by rw [hpc]; split <;> simp
  constructor <;> intro i
  · rw [logNew_news]
    by_cases hi : i = t
    · subst hi
      simp only [if_true, setT_news, setT_args, logNew_threads, setT_threads, h1n, h1a]
      rcases h.newInv with hw | hf
      · have hlk : st.pc = .lookup := by rw [hpc, hw]; rfl
        rw [hw, hlk, hnews]
        simp only [NewState.fn]
        cases htr : trig i with
        | instSub f =>
          have : (c.threads i).pc ≠ .start := fun h0 => by have := hstart h0; rw [htr] at this; cases this
          simp [expNews, hpast, pl, this]
        | _ => simp [expNews, hpast, pl]
      · have hob : st.pc = .observe := by rw [hpc, hf]; simp [finalNew_ne_wrapper]
        rw [hf, finalNew_fn, hob, hnews]
        cases htr : trig i with
        | instSub f =>
          have : (c.threads i).pc ≠ .start := fun h0 => by have := hstart h0; rw [htr] at this; cases this
          simp [expNews, hpast, po, this, htr, Trigger.fwd]
        | inst => simp [expNews, hpast, po, htr, Trigger.fwd]
        | mdata => rw [htr] at hinst; cases hinst
        | fields => rw [htr] at hinst; cases hinst
    · simp [hi, h1n, h1t]; exact hl.news i
  · by_cases hi : i = t
    · subst hi
      simp only [logNew_args, setT_args, if_true, logNew_threads, setT_threads, h1a]
      rcases hpc' with h1 | h1 <;> rw [h1] <;> rfl
    · simp [hi, h1o i hi, h1t]; exact hl.args i
  · by_cases hi : i = t
    · subst hi; intro _; exact hinst
    · simp [hi, h1t]; exact hl.prog i
  · by_cases hi : i = t
    · subst hi; simp; intro h0; rcases hpc' with h1 | h1 <;> rw [h1] at h0 <;> cases h0
    · intro h0; apply hl.subp i; simpa [hi, h1t] using h0

theorem expNews_noninst (b : Body) {tr : Trigger} (h : tr.isInst = false) (p : PC) : expNews b tr p = [] := by
  cases tr <;> simp [Trigger.isInst] at h <;> rfl

/-- Every step keeps the log invariant: the log of a thread is a function of where it is. -/
theorem logInv_step {b : Body} {trig : Nat → Trigger} {c c' : Config} {l : Label} (h : Inv b trig c)
    (hl : LogInv b trig c) (t : Nat) (hs : step b trig c t = some (c', l)) : LogInv b trig c' := by
  have mid : ∀ (st : TState) (c' : Config), c'.threads = (c.setT t st).threads → c'.news = c.news → c'.args = c.args →
      past st.pc = false → past (c.threads t).pc = false → st.pc ≠ .start → (c.threads t).pc ≠ .start →
      st.pc ≠ .superNew → (c.threads t).pc ≠ .superNew →
      (instOnly st.pc = true → (trig t).isInst = true) → LogInv b trig c' := by
    intro st c' h1 h2 h3 h4 h5 h6 h7 h8 h9 h10
    exact logInv_pcOnly hl t st h1 h2 h3 (expNews_mid b _ h4 h5 h6 h7) (expArgs_mid _ ⟨h6, h8⟩ ⟨h7, h9⟩) h10 h8
  unfold step at hs
  cases hpc : (c.threads t).pc with
  | start =>
    simp only [hpc] at hs
    cases htr : trig t <;> simp only [htr] at hs <;> cases hs
    · exact logInv_callNew h hl t _ rfl rfl (by rw [hl.args t, hpc, htr]; rfl) (fun _ _ => rfl) rfl
        (by rw [hpc]; simp) (fun _ => htr) (by rw [htr]; rfl)
    · refine logInv_pcOnly hl t _ rfl rfl rfl ?_ ?_ ?_ ?_
      · rw [expNews_noninst b (by rw [htr]; rfl), expNews_noninst b (by rw [htr]; rfl)]
      · rw [hpc, htr]; simp only []; split <;> rfl
      · simp only []; split <;> simp [instOnly]
      · simp only []; split <;> simp
    · refine logInv_pcOnly hl t _ rfl rfl rfl ?_ ?_ ?_ ?_
      · rw [expNews_noninst b (by rw [htr]; rfl), expNews_noninst b (by rw [htr]; rfl)]
      · rw [hpc, htr]; simp only []; split <;> rfl
      · simp only []; split <;> simp [instOnly]
      · simp only []; split <;> simp
    · rename_i f
      have ha := hl.args t
      have hn := hl.news t
      rw [hpc, htr] at ha hn
      constructor <;> intro i
      · by_cases hi : i = t
        · subst hi; simp [hn, ha, htr, expNews, expArgs, past]
        · simp [hi]; exact hl.news i
      · by_cases hi : i = t
        · subst hi; simp [ha, expArgs]
        · simp [hi]; exact hl.args i
      · by_cases hi : i = t
        · subst hi; simp [htr, Trigger.isInst]
        · simp [hi]; exact hl.prog i
      · by_cases hi : i = t
        · subst hi; intro _; exact ⟨f, htr⟩
        · intro h0; apply hl.subp i; simpa [hi] using h0
  | superNew =>
    simp only [hpc] at hs
    cases hs
    obtain ⟨f, htr⟩ := hl.subp t hpc
    refine logInv_callNew h hl t _ rfl rfl ?_ (fun i hi => by simp [hi]) rfl (by rw [hpc]; simp)
      (fun h0 => by rw [hpc] at h0; cases h0) (by rw [htr]; rfl)
    simp [hl.args t, hpc, expArgs]
  | dispatch =>
    simp only [hpc] at hs
    cases hs
    exact logInv_callNew h hl t _ rfl rfl (by rw [hl.args t, hpc]; rfl) (fun _ _ => rfl) rfl (by rw [hpc]; simp)
      (fun h0 => by rw [hpc] at h0; cases h0) (hl.prog t (by rw [hpc]; rfl))
  | lookup =>
    simp only [hpc] at hs
    cases hs
    have hp := hl.prog t (by rw [hpc]; rfl)
    refine mid _ _ rfl rfl rfl ?_ ?_ ?_ ?_ ?_ ?_ ?_ <;> simp only [hpc] <;> (try split) <;> simp [past, instOnly, hp]
  | acqB =>
    simp only [hpc] at hs
    split at hs <;> cases hs
    refine mid _ _ rfl rfl rfl ?_ ?_ ?_ ?_ ?_ ?_ ?_ <;> simp [hpc, past, instOnly]
  | recheck =>
    simp only [hpc] at hs
    split at hs <;> cases hs
    · refine mid _ _ rfl rfl rfl ?_ ?_ ?_ ?_ ?_ ?_ ?_ <;> simp [hpc, past, instOnly]
    · refine mid _ _ rfl rfl rfl ?_ ?_ ?_ ?_ ?_ ?_ ?_ <;> simp [hpc, past, instOnly]
  | boot k =>
    simp only [hpc] at hs
    split at hs <;> cases hs
    · refine mid _ _ rfl rfl rfl ?_ ?_ ?_ ?_ ?_ ?_ ?_ <;> simp [hpc, past, instOnly]
    · refine mid _ _ rfl rfl rfl ?_ ?_ ?_ ?_ ?_ ?_ ?_ <;> simp only [hpc] <;> (try split) <;> simp [past, instOnly]
  | relB =>
    simp only [hpc] at hs
    cases hs
    refine mid _ _ rfl rfl rfl ?_ ?_ ?_ ?_ ?_ ?_ ?_ <;> simp [hpc, past, instOnly]
  | reread =>
    simp only [hpc] at hs
    cases hs
    cases hti : (trig t).isInst
    · refine logInv_pcOnly hl t _ rfl rfl rfl ?_ ?_ ?_ ?_
      · rw [expNews_noninst b hti, expNews_noninst b hti]
      · simp [hpc, hti, expArgs]
      · simp [hti, instOnly]
      · simp [hti]
    · refine mid _ _ rfl rfl rfl ?_ ?_ ?_ ?_ ?_ ?_ ?_ <;> simp [hpc, past, instOnly, hti]
  | acqN =>
    simp only [hpc] at hs
    have hp := hl.prog t (by rw [hpc]; rfl)
    split at hs <;> cases hs
    refine mid _ _ rfl rfl rfl ?_ ?_ ?_ ?_ ?_ ?_ ?_ <;> simp [hpc, past, instOnly, hp]
  | checkNew =>
    simp only [hpc] at hs
    cases hs
    have hp := hl.prog t (by rw [hpc]; rfl)
    refine mid _ _ rfl rfl rfl ?_ ?_ ?_ ?_ ?_ ?_ ?_ <;> simp only [hpc] <;> (try split) <;> simp [past, instOnly, hp]
  | swapNew =>
    simp only [hpc] at hs
    cases hs
    have hp := hl.prog t (by rw [hpc]; rfl)
    refine mid _ _ rfl rfl rfl ?_ ?_ ?_ ?_ ?_ ?_ ?_ <;> simp [hpc, past, instOnly, hp]
  | relN =>
    simp only [hpc] at hs
    cases hs
    have hp := hl.prog t (by rw [hpc]; rfl)
    refine mid _ _ rfl rfl rfl ?_ ?_ ?_ ?_ ?_ ?_ ?_ <;> simp [hpc, past, instOnly, hp]
  | observe =>
    simp only [hpc] at hs
    cases hs
    refine logInv_pcOnly hl t _ rfl rfl rfl ?_ ?_ ?_ ?_
    · rw [hpc]; cases trig t <;> simp [expNews, past]
    · rw [hpc]; rfl
    · simp [instOnly]
    · simp
  | done =>
    simp only [hpc] at hs
    cases hs

end SpecVerif.C19
