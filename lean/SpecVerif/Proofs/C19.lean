import SpecVerif.Model.C19
/-!
# Helper lemmas for C19 (lazy bootstrapping). Property theorems live in `Props/C19.lean`.
-/
set_option linter.unusedSectionVars false
set_option linter.unusedSimpArgs false
set_option linter.unusedVariables false
namespace SpecVerif.C19

/-! ### the bootstrap body -/

theorem bootState_zero (b : Body) : bootState b 0 = (untouchedCore b, []) := by
  simp [bootState]

theorem bootState_succ (b : Body) (k : Nat) (h : k < (bootActs b).length) :
    bootState b (k + 1) = applyAct (bootState b k) (bootActs b)[k] := by
  unfold bootState
  rw [List.take_succ_eq_append_getElem h, List.foldl_append]
  rfl

theorem bootActs_length (b : Body) : 2 ≤ (bootActs b).length := by
  simp [bootActs]; omega

theorem applyAct_mdata_some (x : Core × List AttrInfo) (a : Act) (h : x.1.mdata.isSome = true) :
    (applyAct x a).1.mdata.isSome = true := by
  cases a <;> simp [applyAct, h]

theorem foldl_mdata_some (as : List Act) (x : Core × List AttrInfo) (h : x.1.mdata.isSome = true) :
    (as.foldl applyAct x).1.mdata.isSome = true := by
  induction as generalizing x with
  | nil => simpa using h
  | cons a as ih => simp only [List.foldl_cons]; exact ih _ (applyAct_mdata_some x a h)

theorem eager_mdata_some (b : Body) : (eagerCore b).mdata.isSome = true := by
  unfold eagerCore bootState
  rw [List.take_length]
  unfold bootActs
  rw [List.foldl_append, List.foldl_append]
  apply foldl_mdata_some
  simp [applyAct]

theorem untouched_mdata (b : Body) : (untouchedCore b).mdata = none := rfl
theorem untouched_fields (b : Body) : (untouchedCore b).fields = none := rfl

/-! ### pcs -/

def isBoot : PC → Bool
  | .boot _ => true | _ => false

/-- pcs at which the thread holds `thread_lock` -/
def locked : PC → Bool
  | .recheck | .boot _ | .relB | .checkNew | .swapNew | .relN => true
  | _ => false

/-- pcs at which the thread does not know yet that a bootstrap has started -/
def early : PC → Bool
  | .start | .lookup | .acqB | .recheck => true
  | _ => false

/-- the thread is past the lock of the `__new__` wrapper (or inside it) -/
def settled (tr : Trigger) : PC → Bool
  | .checkNew | .swapNew | .relN => true
  | .observe | .done => tr == .inst
  | _ => false

theorem isBoot_locked {p : PC} (h : isBoot p = true) : locked p = true := by
  cases p <;> simp [isBoot] at h <;> rfl

@[simp] theorem setT_threads (c : Config) (t : Nat) (st : TState) (i : Nat) :
    (c.setT t st).threads i = if i = t then st else c.threads i := rfl
@[simp] theorem setT_cls (c : Config) (t : Nat) (st : TState) : (c.setT t st).cls = c.cls := rfl
@[simp] theorem setT_lock (c : Config) (t : Nat) (st : TState) : (c.setT t st).lock = c.lock := rfl
@[simp] theorem setT_boots (c : Config) (t : Nat) (st : TState) : (c.setT t st).boots = c.boots := rfl

/-! ### the invariant -/

structure Inv (b : Body) (trig : Nat → Trigger) (c : Config) : Prop where
  lockPc   : ∀ i, locked (c.threads i).pc = true ↔ c.lock = some i
  bootProg : ∀ i k, (c.threads i).pc = .boot k →
      k < (bootActs b).length ∧ c.cls.core = (bootState b k).1 ∧ (c.threads i).acc = (bootState b k).2
  phase    : (∀ i, isBoot (c.threads i).pc = false) →
      (c.boots = 0 ∧ c.cls.core = untouchedCore b) ∨ (c.boots = 1 ∧ c.cls.core = eagerCore b)
  bootsOne : ∀ i, isBoot (c.threads i).pc = true → c.boots = 1
  late     : ∀ i, early (c.threads i).pc = false → c.boots = 1
  newInv   : c.cls.new = .wrapper ∨ c.cls.new = finalNew b
  swapped  : ∀ i, ((c.threads i).pc = .relN ∨ (trig i = .inst ∧ ((c.threads i).pc = .observe ∨ (c.threads i).pc = .done))) →
      c.cls.new = finalNew b
  noBoot   : ∀ i, settled (trig i) (c.threads i).pc = true → ∀ j, isBoot (c.threads j).pc = false
  obsInst  : ∀ i o, trig i = .inst → (c.threads i).obs = some o → o = eagerObs b
  doneObs  : ∀ i, (c.threads i).pc = .done → (c.threads i).obs.isSome = true
  newDone  : c.cls.new ≠ .wrapper → c.boots = 1 ∧ ∀ j, isBoot (c.threads j).pc = false

theorem inv_init (b : Body) (trig : Nat → Trigger) : Inv b trig (Config.init b) := by
  refine ⟨?_, ?_, ?_, ?_, ?_, ?_, ?_, ?_, ?_, ?_, ?_⟩ <;> simp [Config.init, TState.init, locked, isBoot, early, settled, untouched]

/-- uniqueness of the lock holder -/
theorem Inv.holder {b : Body} {trig : Nat → Trigger} {c : Config} (h : Inv b trig c) {i j : Nat}
    (hi : locked (c.threads i).pc = true) (hj : locked (c.threads j).pc = true) : i = j := by
  have a := (h.lockPc i).1 hi
  have b' := (h.lockPc j).1 hj
  rw [a] at b'; cases b'; rfl

theorem Inv.noBootOf {b : Body} {trig : Nat → Trigger} {c : Config} (h : Inv b trig c) {t : Nat}
    (ht : locked (c.threads t).pc = true) (hnb : isBoot (c.threads t).pc = false) :
    ∀ j, isBoot (c.threads j).pc = false := by
  intro j
  cases hj : isBoot (c.threads j).pc with
  | false => rfl
  | true =>
    have := h.holder ht (isBoot_locked hj)
    subst this; rw [hnb] at hj; cases hj

theorem Inv.free_noLocked {b : Body} {trig : Nat → Trigger} {c : Config} (h : Inv b trig c)
    (hl : c.lock = none) : ∀ j, locked (c.threads j).pc = false := by
  intro j
  cases hj : locked (c.threads j).pc with
  | false => rfl
  | true => have := (h.lockPc j).1 hj; rw [hl] at this; cases this

theorem Inv.boots_le {b : Body} {trig : Nat → Trigger} {c : Config} (h : Inv b trig c) : c.boots ≤ 1 := by
  by_cases hb : ∃ i, isBoot (c.threads i).pc = true
  · obtain ⟨i, hi⟩ := hb; rw [h.bootsOne i hi]; exact Nat.le_refl 1
  · have : ∀ i, isBoot (c.threads i).pc = false := by
      intro i
      cases hi : isBoot (c.threads i).pc with
      | false => rfl
      | true => exact absurd ⟨i, hi⟩ hb
    rcases h.phase this with ⟨h0, _⟩ | ⟨h1, _⟩ <;> omega

/-- if something has been published, a bootstrap has started -/
theorem Inv.touched_boots {b : Body} {trig : Nat → Trigger} {c : Config} (h : Inv b trig c)
    (ht : c.cls.core ≠ untouchedCore b) : c.boots = 1 := by
  by_cases hb : ∃ i, isBoot (c.threads i).pc = true
  · obtain ⟨i, hi⟩ := hb; exact h.bootsOne i hi
  · have : ∀ i, isBoot (c.threads i).pc = false := by
      intro i
      cases hi : isBoot (c.threads i).pc with
      | false => rfl
      | true => exact absurd ⟨i, hi⟩ hb
    rcases h.phase this with ⟨_, hu⟩ | ⟨h1, _⟩
    · exact absurd hu ht
    · exact h1

/-- A step that only moves thread `t`'s pc (no shared write, lock untouched). -/
theorem inv_pcOnly {b : Body} {trig : Nat → Trigger} {c : Config} (h : Inv b trig c) (t : Nat) (pc' : PC)
    (hlock : locked pc' = locked (c.threads t).pc)
    (hb0 : isBoot (c.threads t).pc = false) (hb1 : isBoot pc' = false)
    (hlate : early pc' = false → c.boots = 1)
    (hswap : (pc' = .relN ∨ (trig t = .inst ∧ (pc' = .observe ∨ pc' = .done))) → c.cls.new = finalNew b)
    (hset : settled (trig t) pc' = true → ∀ j, isBoot (c.threads j).pc = false)
    (hdone : pc' ≠ .done) :
    Inv b trig (c.setT t { (c.threads t) with pc := pc' }) := by
  refine ⟨?_, ?_, ?_, ?_, ?_, ?_, ?_, ?_, ?_, ?_, ?_⟩
  rotate_right
  · intro hne
    obtain ⟨hb, hnb⟩ := h.newDone hne
    refine ⟨hb, fun j => ?_⟩
    by_cases hj : j = t
    · subst hj; simp; exact hb1
    · simp [hj]; exact hnb j
  · intro i
    by_cases hi : i = t
    · subst hi; simp [hlock]; exact h.lockPc i
    · simp [hi]; exact h.lockPc i
  · intro i k hk
    by_cases hi : i = t
    · subst hi; simp at hk; rw [hk] at hb1; simp [isBoot] at hb1
    · simp [hi] at hk ⊢; exact h.bootProg i k hk
  · intro hall
    apply h.phase
    intro i
    by_cases hi : i = t
    · subst hi; exact hb0
    · have := hall i; simpa [hi] using this
  · intro i hbi
    by_cases hi : i = t
    · subst hi; simp at hbi; rw [hbi] at hb1; cases hb1
    · simp [hi] at hbi; exact h.bootsOne i hbi
  · intro i hei
    by_cases hi : i = t
    · subst hi; simp at hei; exact hlate hei
    · simp [hi] at hei; exact h.late i hei
  · exact h.newInv
  · intro i hsi
    by_cases hi : i = t
    · subst hi; simp at hsi; exact hswap hsi
    · simp [hi] at hsi; exact h.swapped i hsi
  · intro i hsi j
    have key : ∀ j, isBoot (c.threads j).pc = false := by
      by_cases hi : i = t
      · subst hi; simp at hsi; exact hset hsi
      · simp [hi] at hsi; exact h.noBoot i hsi
    by_cases hj : j = t
    · subst hj; simp; exact hb1
    · simp [hj]; exact key j
  · intro i o hti hoi
    by_cases hi : i = t
    · subst hi; simp at hoi; exact h.obsInst i o hti hoi
    · simp [hi] at hoi; exact h.obsInst i o hti hoi
  · intro i hdi
    by_cases hi : i = t
    · subst hi; simp at hdi; exact absurd hdi hdone
    · simp [hi] at hdi ⊢; exact h.doneObs i hdi

/-- `with thread_lock:` entered (lock was free). -/
theorem inv_acquire {b : Body} {trig : Nat → Trigger} {c : Config} (h : Inv b trig c) (t : Nat) (pc' : PC)
    (hfree : c.lock = none)
    (hl0 : locked (c.threads t).pc = false) (hl1 : locked pc' = true) (hb1 : isBoot pc' = false)
    (hlate : early pc' = false → c.boots = 1)
    (hswap : pc' ≠ .relN ∧ pc' ≠ .observe ∧ pc' ≠ .done) :
    Inv b trig { c.setT t { (c.threads t) with pc := pc' } with lock := some t } := by
  have nolock := h.free_noLocked hfree
  have noboot : ∀ j, isBoot (c.threads j).pc = false := by
    intro j
    cases hj : isBoot (c.threads j).pc with
    | false => rfl
    | true => have := nolock j; rw [isBoot_locked hj] at this; cases this
  refine ⟨?_, ?_, ?_, ?_, ?_, ?_, ?_, ?_, ?_, ?_, ?_⟩
  rotate_right
  · intro hne
    refine ⟨(h.newDone hne).1, fun j => ?_⟩
    by_cases hj : j = t
    · subst hj; simp; exact hb1
    · simp [hj]; exact noboot j
  · intro i
    by_cases hi : i = t
    · subst hi; simp [hl1]
    · simp [hi, nolock i]; exact fun h' => hi h'.symm
  · intro i k hk
    by_cases hi : i = t
    · subst hi; simp at hk; rw [hk] at hb1; simp [isBoot] at hb1
    · simp [hi] at hk ⊢; exact h.bootProg i k hk
  · intro _; exact h.phase noboot
  · intro i hbi
    by_cases hi : i = t
    · subst hi; simp at hbi; rw [hbi] at hb1; cases hb1
    · simp [hi] at hbi; exact h.bootsOne i hbi
  · intro i hei
    by_cases hi : i = t
    · subst hi; simp at hei; exact hlate hei
    · simp [hi] at hei; exact h.late i hei
  · exact h.newInv
  · intro i hsi
    by_cases hi : i = t
    · subst hi; simp at hsi
      rcases hsi with h1 | ⟨_, h2 | h3⟩
      · exact absurd h1 hswap.1
      · exact absurd h2 hswap.2.1
      · exact absurd h3 hswap.2.2
    · simp [hi] at hsi; exact h.swapped i hsi
  · intro i _ j
    by_cases hj : j = t
    · subst hj; simp; exact hb1
    · simp [hj]; exact noboot j
  · intro i o hti hoi
    by_cases hi : i = t
    · subst hi; simp at hoi; exact h.obsInst i o hti hoi
    · simp [hi] at hoi; exact h.obsInst i o hti hoi
  · intro i hdi
    by_cases hi : i = t
    · subst hi; simp at hdi; exact absurd hdi hswap.2.2
    · simp [hi] at hdi ⊢; exact h.doneObs i hdi

/-- leaving a `with thread_lock:` block. -/
theorem inv_release {b : Body} {trig : Nat → Trigger} {c : Config} (h : Inv b trig c) (t : Nat) (pc' : PC)
    (hl0 : locked (c.threads t).pc = true) (hb0 : isBoot (c.threads t).pc = false)
    (hl1 : locked pc' = false)
    (hlate : early pc' = false → c.boots = 1)
    (hswap : (trig t = .inst ∧ (pc' = .observe ∨ pc' = .done)) → c.cls.new = finalNew b)
    (hset : settled (trig t) pc' = true → ∀ j, isBoot (c.threads j).pc = false)
    (hdone : pc' ≠ .done) :
    Inv b trig { c.setT t { (c.threads t) with pc := pc' } with lock := none } := by
  have hb1 : isBoot pc' = false := by
    cases hh : isBoot pc' with
    | false => rfl
    | true => rw [isBoot_locked hh] at hl1; cases hl1
  have others : ∀ i, i ≠ t → locked (c.threads i).pc = false := by
    intro i hi
    cases hh : locked (c.threads i).pc with
    | false => rfl
    | true => exact absurd (h.holder hh hl0) hi
  have noboot := h.noBootOf hl0 hb0
  refine ⟨?_, ?_, ?_, ?_, ?_, ?_, ?_, ?_, ?_, ?_, ?_⟩
  rotate_right
  · intro hne
    refine ⟨(h.newDone hne).1, fun j => ?_⟩
    by_cases hj : j = t
    · subst hj; simp; exact hb1
    · simp [hj]; exact noboot j
  · intro i
    by_cases hi : i = t
    · subst hi; simp [hl1]
    · simp [hi, others i hi]
  · intro i k hk
    by_cases hi : i = t
    · subst hi; simp at hk; rw [hk] at hb1; simp [isBoot] at hb1
    · simp [hi] at hk ⊢; exact h.bootProg i k hk
  · intro _; exact h.phase noboot
  · intro i hbi
    by_cases hi : i = t
    · subst hi; simp at hbi; rw [hbi] at hb1; cases hb1
    · simp [hi] at hbi; exact h.bootsOne i hbi
  · intro i hei
    by_cases hi : i = t
    · subst hi; simp at hei; exact hlate hei
    · simp [hi] at hei; exact h.late i hei
  · exact h.newInv
  · intro i hsi
    by_cases hi : i = t
    · subst hi; simp at hsi
      rcases hsi with h1 | h2
      · rw [h1] at hl1; cases hl1
      · exact hswap h2
    · simp [hi] at hsi; exact h.swapped i hsi
  · intro i _ j
    by_cases hj : j = t
    · subst hj; simp; exact hb1
    · simp [hj]; exact noboot j
  · intro i o hti hoi
    by_cases hi : i = t
    · subst hi; simp at hoi; exact h.obsInst i o hti hoi
    · simp [hi] at hoi; exact h.obsInst i o hti hoi
  · intro i hdi
    by_cases hi : i = t
    · subst hi; simp at hdi; exact absurd hdi hdone
    · simp [hi] at hdi ⊢; exact h.doneObs i hdi

/-- the re-check under the lock found the placeholder: the body of `bootstrap` starts. -/
theorem inv_startBoot {b : Body} {trig : Nat → Trigger} {c : Config} (h : Inv b trig c) (t : Nat)
    (hpc : (c.threads t).pc = .recheck) (hm : c.cls.core.mdata.isNone = true) :
    Inv b trig { c.setT t { (c.threads t) with pc := .boot 0, acc := [] } with boots := c.boots + 1 } := by
  have hl0 : locked (c.threads t).pc = true := by rw [hpc]; rfl
  have hb0 : isBoot (c.threads t).pc = false := by rw [hpc]; rfl
  have noboot := h.noBootOf hl0 hb0
  have hph : c.boots = 0 ∧ c.cls.core = untouchedCore b := by
    rcases h.phase noboot with h0 | ⟨_, he⟩
    · exact h0
    · have := eager_mdata_some b; rw [← he] at this
      cases hh : c.cls.core.mdata <;> simp [hh] at hm this
  have others : ∀ i, i ≠ t → locked (c.threads i).pc = false := by
    intro i hi
    cases hh : locked (c.threads i).pc with
    | false => rfl
    | true => exact absurd (h.holder hh hl0) hi
  refine ⟨?_, ?_, ?_, ?_, ?_, ?_, ?_, ?_, ?_, ?_, ?_⟩
  rotate_right
  · intro hne
    have := (h.newDone hne).1
    omega
  · intro i
    by_cases hi : i = t
    · subst hi; simp [locked]; exact (h.lockPc i).1 hl0
    · simp [hi]; exact h.lockPc i
  · intro i k hk
    by_cases hi : i = t
    · subst hi; simp at hk; subst hk
      have := bootActs_length b
      refine ⟨by omega, ?_, ?_⟩
      · simp [bootState_zero, hph.2]
      · simp [bootState_zero]
    · simp [hi] at hk ⊢
      have := noboot i; rw [hk] at this; simp [isBoot] at this
  · intro hall; have := hall t; simp [isBoot] at this
  · intro i _; simp [hph.1]
  · intro i _; simp [hph.1]
  · exact h.newInv
  · intro i hsi
    by_cases hi : i = t
    · subst hi; simp at hsi
    · simp [hi] at hsi; exact h.swapped i hsi
  · intro i hsi j
    by_cases hi : i = t
    · subst hi; simp [settled] at hsi
    · simp [hi] at hsi
      -- a settled thread means the class is complete: the re-check cannot have seen the placeholder
      have hlate : early (c.threads i).pc = false := by
        cases hp : (c.threads i).pc <;> simp [hp, settled] at hsi <;> rfl
      have := h.late i hlate
      omega
  · intro i o hti hoi
    by_cases hi : i = t
    · subst hi; simp at hoi; exact h.obsInst i o hti hoi
    · simp [hi] at hoi; exact h.obsInst i o hti hoi
  · intro i hdi
    by_cases hi : i = t
    · subst hi; simp at hdi
    · simp [hi] at hdi ⊢; exact h.doneObs i hdi

/-- one action of the body of `bootstrap`. -/
theorem inv_bootStep {b : Body} {trig : Nat → Trigger} {c : Config} (h : Inv b trig c) (t k : Nat)
    (hpc : (c.threads t).pc = .boot k) (a : Act) (ha : (bootActs b)[k]? = some a) :
    Inv b trig { c.setT t { (c.threads t) with
                    pc := if k + 1 < (bootActs b).length then PC.boot (k + 1) else PC.relB,
                    acc := (applyAct (c.cls.core, (c.threads t).acc) a).2 } with
                 cls := { c.cls with core := (applyAct (c.cls.core, (c.threads t).acc) a).1 } } := by
  obtain ⟨hk, hcore, hacc⟩ := h.bootProg t k hpc
  have hl0 : locked (c.threads t).pc = true := by rw [hpc]; rfl
  have hbt : isBoot (c.threads t).pc = true := by rw [hpc]; rfl
  have hboots := h.bootsOne t hbt
  have ha' : (bootActs b)[k] = a := by
    have := List.getElem?_eq_getElem hk; rw [this] at ha; cases ha; rfl
  have hnext : applyAct (c.cls.core, (c.threads t).acc) a = bootState b (k + 1) := by
    rw [bootState_succ b k hk, ha', hcore, hacc]
  have others : ∀ i, i ≠ t → locked (c.threads i).pc = false := by
    intro i hi
    cases hh : locked (c.threads i).pc with
    | false => rfl
    | true => exact absurd (h.holder hh hl0) hi
  have othersNB : ∀ i, i ≠ t → isBoot (c.threads i).pc = false := by
    intro i hi
    cases hh : isBoot (c.threads i).pc with
    | false => rfl
    | true => have := others i hi; rw [isBoot_locked hh] at this; cases this
  have noSettled : ∀ i, settled (trig i) (c.threads i).pc = true → False := by
    intro i hsi
    have := h.noBoot i hsi t; rw [hbt] at this; cases this
  refine ⟨?_, ?_, ?_, ?_, ?_, ?_, ?_, ?_, ?_, ?_, ?_⟩
  rotate_right
  · intro hne
    have := (h.newDone hne).2 t
    rw [hbt] at this; cases this
  · intro i
    by_cases hi : i = t
    · subst hi
      have : locked (if k + 1 < (bootActs b).length then PC.boot (k + 1) else PC.relB) = true := by
        split <;> rfl
      simp [this]; exact (h.lockPc i).1 hl0
    · simp [hi]; exact h.lockPc i
  · intro i k' hk'
    by_cases hi : i = t
    · subst hi
      simp at hk'
      split at hk'
      · rename_i hlt
        cases hk'
        simp
        exact ⟨hlt, by rw [hnext], by rw [hnext]⟩
      · cases hk'
    · simp [hi] at hk' ⊢
      have := othersNB i hi; rw [hk'] at this; simp [isBoot] at this
  · intro hall
    have ht := hall t
    simp at ht
    split at ht
    · simp [isBoot] at ht
    · rename_i hge
      have hlen : k + 1 = (bootActs b).length := by omega
      right
      refine ⟨hboots, ?_⟩
      show (applyAct (c.cls.core, (c.threads t).acc) a).1 = eagerCore b
      rw [hnext, hlen]; rfl
  · intro i _; exact hboots
  · intro i _; exact hboots
  · exact h.newInv
  · intro i hsi
    by_cases hi : i = t
    · subst hi; simp at hsi
      rcases hsi with h1 | ⟨_, h2 | h3⟩
      · split at h1 <;> cases h1
      · split at h2 <;> cases h2
      · split at h3 <;> cases h3
    · simp [hi] at hsi; exact h.swapped i hsi
  · intro i hsi j
    by_cases hi : i = t
    · subst hi; simp at hsi
      split at hsi <;> simp [settled] at hsi
    · simp [hi] at hsi; exact absurd (noSettled i hsi) id
  · intro i o hti hoi
    by_cases hi : i = t
    · subst hi; simp at hoi; exact h.obsInst i o hti hoi
    · simp [hi] at hoi; exact h.obsInst i o hti hoi
  · intro i hdi
    by_cases hi : i = t
    · subst hi; simp at hdi; split at hdi <;> cases hdi
    · simp [hi] at hdi ⊢; exact h.doneObs i hdi

theorem inv_setNew {b : Body} {trig : Nat → Trigger} {c : Config} (h : Inv b trig c)
    (hb : c.boots = 1) (hnb : ∀ j, isBoot (c.threads j).pc = false) :
    Inv b trig { c with cls := { c.cls with new := finalNew b } } :=
  ⟨h.lockPc, h.bootProg, h.phase, h.bootsOne, h.late, Or.inr rfl, fun _ _ => rfl, h.noBoot, h.obsInst, h.doneObs,
   fun _ => ⟨hb, hnb⟩⟩

/-- the wrapper removes itself. -/
theorem inv_swap {b : Body} {trig : Nat → Trigger} {c : Config} (h : Inv b trig c) (t : Nat)
    (hpc : (c.threads t).pc = .swapNew) :
    Inv b trig { c.setT t { (c.threads t) with pc := .relN } with cls := { c.cls with new := finalNew b } } := by
  have h' := inv_setNew h (h.late t (by rw [hpc]; rfl)) (h.noBoot t (by rw [hpc]; rfl))
  exact inv_pcOnly h' t .relN (by show locked PC.relN = locked (c.threads t).pc; rw [hpc]; rfl)
    (by show isBoot (c.threads t).pc = false; rw [hpc]; rfl) rfl
    (fun _ => h.late t (by rw [hpc]; rfl)) (fun _ => rfl) (fun _ => h.noBoot t (by rw [hpc]; rfl)) (by simp)

/-- the observation point (instance constructed / returned value inspected). -/
theorem inv_observe {b : Body} {trig : Nat → Trigger} {c : Config} (h : Inv b trig c) (t : Nat)
    (hpc : (c.threads t).pc = .observe) :
    Inv b trig (c.setT t { (c.threads t) with pc := .done, obs := some (snapshot c.cls) }) := by
  have hboots : c.boots = 1 := h.late t (by rw [hpc]; rfl)
  refine ⟨?_, ?_, ?_, ?_, ?_, ?_, ?_, ?_, ?_, ?_, ?_⟩
  rotate_right
  · intro hne
    refine ⟨hboots, fun j => ?_⟩
    by_cases hj : j = t
    · subst hj; simp [isBoot]
    · simp [hj]; exact (h.newDone hne).2 j
  · intro i
    by_cases hi : i = t
    · subst hi; have := h.lockPc i; rw [hpc] at this; simpa [locked] using this
    · simp [hi]; exact h.lockPc i
  · intro i k hk
    by_cases hi : i = t
    · subst hi; simp at hk
    · simp [hi] at hk ⊢; exact h.bootProg i k hk
  · intro hall
    apply h.phase
    intro i
    by_cases hi : i = t
    · subst hi; rw [hpc]; rfl
    · have := hall i; simpa [hi] using this
  · intro i _; exact hboots
  · intro i _; exact hboots
  · exact h.newInv
  · intro i hsi
    by_cases hi : i = t
    · subst hi; simp at hsi
      exact h.swapped i (Or.inr ⟨hsi, Or.inl hpc⟩)
    · simp [hi] at hsi; exact h.swapped i hsi
  · intro i hsi j
    have key : ∀ j, isBoot (c.threads j).pc = false := by
      by_cases hi : i = t
      · subst hi; simp [settled] at hsi
        exact h.noBoot i (by rw [hpc]; simp [settled, hsi])
      · simp [hi] at hsi; exact h.noBoot i hsi
    by_cases hj : j = t
    · subst hj; simp [isBoot]
    · simp [hj]; exact key j
  · intro i o hti hoi
    by_cases hi : i = t
    · subst hi
      simp at hoi
      subst hoi
      have hnb := h.noBoot i (by rw [hpc]; simp [settled, hti])
      have hnew := h.swapped i (Or.inr ⟨hti, Or.inl hpc⟩)
      have hcore : c.cls.core = eagerCore b := by
        rcases h.phase hnb with ⟨h0, _⟩ | ⟨_, he⟩
        · omega
        · exact he
      simp [snapshot, eagerObs, hcore, hnew]
    · simp [hi] at hoi; exact h.obsInst i o hti hoi
  · intro i hdi
    by_cases hi : i = t
    · subst hi; simp
    · simp [hi] at hdi ⊢; exact h.doneObs i hdi

/-- the triggering lookup: metadata found (go on) or placeholder found (`bootstrap_once`). -/
theorem inv_startStep {b : Body} {trig : Nat → Trigger} {c : Config} (h : Inv b trig c) (t : Nat)
    (hpc : (c.threads t).pc = .start ∨ (c.threads t).pc = .lookup) (found : Bool) (pcF : PC)
    (hfound : found = true → c.cls.core ≠ untouchedCore b)
    (hpcF : pcF = .acqN ∨ (pcF = .observe ∧ trig t ≠ .inst)) :
    Inv b trig (c.setT t { (c.threads t) with pc := if found then pcF else PC.acqB }) := by
  have hcases : (if found then pcF else PC.acqB) = .acqB ∨ (found = true ∧ (if found then pcF else PC.acqB) = pcF) := by
    cases found <;> simp
  have hnl : locked (c.threads t).pc = false := by rcases hpc with h' | h' <;> rw [h'] <;> rfl
  have hnb : isBoot (c.threads t).pc = false := by rcases hpc with h' | h' <;> rw [h'] <;> rfl
  apply inv_pcOnly h t _ _ hnb
  · rcases hcases with h1 | ⟨_, h2⟩
    · rw [h1]; rfl
    · rw [h2]; rcases hpcF with h3 | ⟨h3, _⟩ <;> rw [h3] <;> rfl
  · intro he
    rcases hcases with h1 | ⟨hf, _⟩
    · rw [h1] at he; cases he
    · exact h.touched_boots (hfound hf)
  · intro hsw
    rcases hcases with h1 | ⟨_, h2⟩
    · rw [h1] at hsw; rcases hsw with h' | ⟨_, h' | h'⟩ <;> cases h'
    · rw [h2] at hsw
      rcases hpcF with h3 | ⟨h3, hne⟩
      · rw [h3] at hsw; rcases hsw with h' | ⟨_, h' | h'⟩ <;> cases h'
      · rcases hsw with h' | ⟨hti, _⟩
        · rw [h3] at h'; cases h'
        · exact absurd hti hne
  · intro hset
    rcases hcases with h1 | ⟨_, h2⟩
    · rw [h1] at hset; simp [settled] at hset
    · rw [h2] at hset
      rcases hpcF with h3 | ⟨h3, hne⟩
      · rw [h3] at hset; simp [settled] at hset
      · rw [h3] at hset; simp [settled] at hset; exact absurd hset hne
  · rcases hcases with h1 | ⟨_, h2⟩
    · rw [h1]; simp
    · rw [h2]; rcases hpcF with h3 | ⟨h3, _⟩ <;> rw [h3] <;> simp
  · rw [hnl]
    rcases hcases with h1 | ⟨_, h2⟩
    · rw [h1]; rfl
    · rw [h2]; rcases hpcF with h3 | ⟨h3, _⟩ <;> rw [h3] <;> rfl

/-- Every step of every thread keeps the invariant. -/
theorem inv_step' {b : Body} {trig : Nat → Trigger} {c c' : Config} {l : Label} (h : Inv b trig c) (t : Nat)
    (hs : step b trig c t = some (c', l)) : Inv b trig c' := by
  unfold step at hs
  cases hpc : (c.threads t).pc with
  | start =>
    simp only [hpc] at hs
    cases htr : trig t <;> simp only [htr] at hs <;> cases hs
    · -- `Cls(...)`: the wrapper, or the real `__new__` once the wrapper removed itself
      by_cases hw : c.cls.new = .wrapper
      · simp only [hw, if_true]
        exact inv_pcOnly h t .lookup (by rw [hpc]; rfl) (by rw [hpc]; rfl) rfl (by simp [early]) (by simp)
          (by simp [settled]) (by simp)
      · simp only [hw, if_false]
        have hfin : c.cls.new = finalNew b := by
          rcases h.newInv with h1 | h1
          · exact absurd h1 hw
          · exact h1
        obtain ⟨hb, hnb⟩ := h.newDone hw
        exact inv_pcOnly h t .observe (by rw [hpc]; rfl) (by rw [hpc]; rfl) rfl (fun _ => hb) (fun _ => hfin)
          (fun _ => hnb) (by simp)
    · exact inv_startStep h t (Or.inl hpc) c.cls.core.mdata.isSome .observe
        (fun hf hu => by rw [hu] at hf; simp [untouchedCore] at hf) (Or.inr ⟨rfl, by simp [htr]⟩)
    · exact inv_startStep h t (Or.inl hpc) c.cls.core.fields.isSome .observe
        (fun hf hu => by rw [hu] at hf; simp [untouchedCore] at hf) (Or.inr ⟨rfl, by simp [htr]⟩)
  | lookup =>
    simp only [hpc] at hs
    cases hs
    exact inv_startStep h t (Or.inr hpc) c.cls.core.mdata.isSome .acqN
      (fun hf hu => by rw [hu] at hf; simp [untouchedCore] at hf) (Or.inl rfl)
  | acqB =>
    simp only [hpc] at hs
    split at hs
    · rename_i hfree
      cases hs
      have hfree' : c.lock = none := by cases hh : c.lock <;> simp [hh] at hfree; rfl
      exact inv_acquire h t .recheck hfree' (by rw [hpc]; rfl) rfl rfl (by simp [early]) (by simp)
    · cases hs
  | recheck =>
    simp only [hpc] at hs
    split at hs
    · rename_i hm; cases hs; exact inv_startBoot h t hpc hm
    · rename_i hm
      cases hs
      have hl0 : locked (c.threads t).pc = true := by rw [hpc]; rfl
      have hb0 : isBoot (c.threads t).pc = false := by rw [hpc]; rfl
      have hboots : c.boots = 1 := by
        apply h.touched_boots
        intro hu; rw [hu] at hm; simp [untouchedCore] at hm
      exact inv_pcOnly h t .relB (by rw [hpc]; rfl) hb0 rfl (fun _ => hboots) (by simp) (by simp [settled]) (by simp)
  | boot k =>
    simp only [hpc] at hs
    split at hs
    · rename_i hnone
      have := (h.bootProg t k hpc).1
      rw [List.getElem?_eq_getElem this] at hnone; cases hnone
    · rename_i a ha; cases hs; exact inv_bootStep h t k hpc a ha
  | relB =>
    simp only [hpc] at hs
    cases hs
    exact inv_release h t .reread (by rw [hpc]; rfl) (by rw [hpc]; rfl) rfl
      (fun _ => h.late t (by rw [hpc]; rfl)) (by simp) (by simp [settled]) (by simp)
  | reread =>
    simp only [hpc] at hs
    cases hs
    have hboots : c.boots = 1 := h.late t (by rw [hpc]; rfl)
    apply inv_pcOnly h t _ _ (by rw [hpc]; rfl)
    · split <;> rfl
    · intro _; exact hboots
    · intro hsw
      rcases hsw with h1 | ⟨hti, h2 | h3⟩
      · split at h1 <;> cases h1
      · rw [hti] at h2; cases h2
      · split at h3 <;> cases h3
    · intro hset
      cases htr : trig t <;> simp [htr, settled] at hset
    · split <;> simp
    · split <;> rw [hpc] <;> rfl
  | acqN =>
    simp only [hpc] at hs
    split at hs
    · rename_i hfree
      cases hs
      have hfree' : c.lock = none := by cases hh : c.lock <;> simp [hh] at hfree; rfl
      exact inv_acquire h t .checkNew hfree' (by rw [hpc]; rfl) rfl rfl
        (fun _ => h.late t (by rw [hpc]; rfl)) (by simp)
    · cases hs
  | checkNew =>
    simp only [hpc] at hs
    cases hs
    have hnb := h.noBoot t (by rw [hpc]; rfl)
    apply inv_pcOnly h t _ _ (by rw [hpc]; rfl)
    · split <;> rfl
    · intro _; exact h.late t (by rw [hpc]; rfl)
    · intro hsw
      rcases hsw with h1 | ⟨_, h2 | h3⟩
      · split at h1
        · cases h1
        · rename_i hne
          rcases h.newInv with hw | hf
          · exact absurd hw hne
          · exact hf
      · split at h2 <;> cases h2
      · split at h3 <;> cases h3
    · intro _; exact hnb
    · split <;> simp
    · split <;> rw [hpc] <;> rfl
  | swapNew =>
    simp only [hpc] at hs
    cases hs
    exact inv_swap h t hpc
  | relN =>
    simp only [hpc] at hs
    cases hs
    exact inv_release h t .observe (by rw [hpc]; rfl) (by rw [hpc]; rfl) rfl
      (fun _ => h.late t (by rw [hpc]; rfl)) (fun _ => h.swapped t (Or.inl hpc))
      (fun _ => h.noBoot t (by rw [hpc]; rfl)) (by simp)
  | observe =>
    simp only [hpc] at hs
    cases hs
    exact inv_observe h t hpc
  | done =>
    simp only [hpc] at hs
    cases hs

/-- a step of thread `t` never touches another thread's private state -/
theorem step_others {b : Body} {trig : Nat → Trigger} {c c' : Config} {l : Label} (t : Nat)
    (hs : step b trig c t = some (c', l)) : ∀ j, j ≠ t → c'.threads j = c.threads j := by
  intro j hj
  unfold step at hs
  cases hpc : (c.threads t).pc <;> simp only [hpc] at hs
  case start => cases htr : trig t <;> simp only [htr] at hs <;> cases hs <;> simp [hj]
  case lookup => cases hs; simp [hj]
  case acqB => split at hs <;> cases hs; simp [hj]
  case recheck => split at hs <;> cases hs <;> simp [hj]
  case boot k => split at hs <;> cases hs <;> simp [hj]
  case relB => cases hs; simp [hj]
  case reread => cases hs; simp [hj]
  case acqN => split at hs <;> cases hs; simp [hj]
  case checkNew => cases hs; simp [hj]
  case swapNew => cases hs; simp [hj]
  case relN => cases hs; simp [hj]
  case observe => cases hs; simp [hj]
  case done => cases hs

/-! ### a thread running alone always terminates -/

def rank (b : Body) : PC → Nat
  | .start => (bootActs b).length + 12
  | .lookup => (bootActs b).length + 11
  | .acqB => (bootActs b).length + 10
  | .recheck => (bootActs b).length + 9
  | .boot k => ((bootActs b).length - k) + 8
  | .relB => 8
  | .reread => 7
  | .acqN => 6
  | .checkNew => 5
  | .swapNew => 4
  | .relN => 3
  | .observe => 1
  | .done => 0

theorem step_alone {b : Body} {trig : Nat → Trigger} {c : Config} (h : Inv b trig c) (t : Nat)
    (hothers : ∀ j, j ≠ t → (c.threads j).pc = .start) (hnd : (c.threads t).pc ≠ .done) :
    ∃ c' l, step b trig c t = some (c', l) ∧ rank b (c'.threads t).pc < rank b (c.threads t).pc
      ∧ ∀ j, j ≠ t → (c'.threads j).pc = .start := by
  have free_of_unlocked : locked (c.threads t).pc = false → c.lock = none := by
    intro hl
    cases hlk : c.lock with
    | none => rfl
    | some j =>
      have hj := (h.lockPc j).2 hlk
      by_cases hjt : j = t
      · subst hjt; rw [hl] at hj; cases hj
      · rw [hothers j hjt] at hj; cases hj
  have keep : ∀ (c' : Config) (st : TState), c'.threads = (c.setT t st).threads →
      ∀ j, j ≠ t → (c'.threads j).pc = .start := by
    intro c' st hc j hj; rw [hc]; simp [hj]; exact hothers j hj
  cases hpc : (c.threads t).pc with
  | start =>
    simp only [step, hpc]
    cases htr : trig t <;> simp only [htr]
    all_goals refine ⟨_, _, rfl, ?_, keep _ _ rfl⟩
    all_goals simp
    all_goals split <;> simp [rank] <;> omega
  | lookup =>
    simp only [step, hpc]
    refine ⟨_, _, rfl, ?_, keep _ _ rfl⟩
    simp
    split <;> simp [rank] <;> omega
  | acqB =>
    have := free_of_unlocked (by rw [hpc]; rfl)
    simp only [step, hpc, this, Option.isNone_none, if_true]
    exact ⟨_, _, rfl, by simp [rank], keep _ _ rfl⟩
  | recheck =>
    simp only [step, hpc]
    split
    · refine ⟨_, _, rfl, ?_, keep _ _ rfl⟩
      simp [rank]
    · exact ⟨_, _, rfl, by simp [rank], keep _ _ rfl⟩
  | boot k =>
    have hk := (h.bootProg t k hpc).1
    simp only [step, hpc, List.getElem?_eq_getElem hk]
    refine ⟨_, _, rfl, ?_, keep _ _ rfl⟩
    simp
    split <;> simp [rank] <;> omega
  | relB => simp only [step, hpc]; exact ⟨_, _, rfl, by simp [rank], keep _ _ rfl⟩
  | reread =>
    simp only [step, hpc]
    refine ⟨_, _, rfl, ?_, keep _ _ rfl⟩
    simp
    split <;> simp [rank]
  | acqN =>
    have := free_of_unlocked (by rw [hpc]; rfl)
    simp only [step, hpc, this, Option.isNone_none, if_true]
    exact ⟨_, _, rfl, by simp [rank], keep _ _ rfl⟩
  | checkNew =>
    simp only [step, hpc]
    refine ⟨_, _, rfl, ?_, keep _ _ rfl⟩
    simp
    split <;> simp [rank]
  | swapNew => simp only [step, hpc]; exact ⟨_, _, rfl, by simp [rank], keep _ _ rfl⟩
  | relN => simp only [step, hpc]; exact ⟨_, _, rfl, by simp [rank], keep _ _ rfl⟩
  | observe => simp only [step, hpc]; exact ⟨_, _, rfl, by simp [rank], keep _ _ rfl⟩
  | done => exact absurd hpc hnd

theorem run_alone {b : Body} {trig : Nat → Trigger} (t : Nat) :
    ∀ (N : Nat) (c : Config), Inv b trig c → (∀ j, j ≠ t → (c.threads j).pc = .start) →
      rank b (c.threads t).pc ≤ N →
      ((runSched b trig c (List.replicate N t)).threads t).pc = .done := by
  intro N
  induction N with
  | zero =>
    intro c _ _ hr
    simp [runSched]
    cases hpc : (c.threads t).pc <;> rw [hpc] at hr <;> simp [rank] at hr
  | succ N ih =>
    intro c h ho hr
    by_cases hd : (c.threads t).pc = .done
    · have hnone : step b trig c t = none := by simp only [step, hd]
      simp only [List.replicate_succ, runSched, hnone]
      exact ih c h ho (by rw [hd]; simp [rank])
    · obtain ⟨c', l, hs, hlt, ho'⟩ := step_alone h t ho hd
      simp only [List.replicate_succ, runSched, hs]
      exact ih c' (inv_step' h t hs) ho' (by omega)

end SpecVerif.C19
