import SpecVerif.Model.C19Hier
/-!
# Helper lemmas for the hierarchy part of C19. Property theorems live in `Props/C19.lean`.
-/
set_option linter.unusedSectionVars false
set_option linter.unusedSimpArgs false
set_option linter.unusedVariables false
namespace SpecVerif.C19.Hier

theorem bootFrom_mdata (r : Reads) (b : HBody) (me : HCls) (k : Nat) : (bootFrom r b me k).mdata.isSome = true := by
  simp [bootFrom]

theorem bootCls_mdata (chain : List HBody) (k : Nat) (st : List HCls) : (bootCls chain k st).mdata.isSome = true :=
  bootFrom_mdata _ _ _ _

theorem eagerN_length (chain : List HBody) (m : Nat) (st : List HCls) : (eagerN chain m st).length = st.length := by
  induction m with
  | zero => rfl
  | succ m ih => simp [eagerN, ih]

/-- `eagerN m` does not touch the classes from index `m` on -/
theorem eagerN_above (chain : List HBody) (m : Nat) (st : List HCls) (j : Nat) (h : m ≤ j) :
    (eagerN chain m st)[j]? = st[j]? := by
  induction m with
  | zero => rfl
  | succ m ih =>
    simp only [eagerN]
    rw [List.getElem?_set_ne (by omega)]
    exact ih (by omega)

/-- …and the classes below `m` are final: bootstrapping more classes does not change them -/
theorem eagerN_below (chain : List HBody) (m d : Nat) (st : List HCls) (j : Nat) (h : j < m) :
    (eagerN chain (m + d) st)[j]? = (eagerN chain m st)[j]? := by
  induction d with
  | zero => rfl
  | succ d ih =>
    show (eagerN chain (m + d + 1) st)[j]? = _
    simp only [eagerN]
    rw [List.getElem?_set_ne (by omega)]
    exact ih

theorem clsAt_init_mdata (chain : List HBody) (j : Nat) : (clsAt (initSt chain) j).mdata = none := by
  unfold clsAt initSt
  rw [List.getElem?_map]
  cases chain[j]? <;> rfl

theorem booted_eagerN_below (chain : List HBody) (m : Nat) (st : List HCls) (j : Nat) (hm : m ≤ st.length) (h : j < m) :
    booted (eagerN chain m st) j = true := by
  induction m with
  | zero => omega
  | succ m ih =>
    unfold booted clsAt
    simp only [eagerN]
    by_cases hj : j = m
    · subst hj
      rw [List.getElem?_set_self (by rw [eagerN_length]; omega)]
      exact bootCls_mdata _ _ _
    · rw [List.getElem?_set_ne (by omega)]
      exact ih (by omega) (by omega)

theorem booted_eagerN_above (chain : List HBody) (m : Nat) (j : Nat) (h : m ≤ j) :
    booted (eagerN chain m (initSt chain)) j = false := by
  unfold booted clsAt
  rw [eagerN_above _ _ _ _ h]
  have := clsAt_init_mdata chain j
  unfold clsAt at this
  rw [this]; rfl

/-- The key lemma: a first use of class `k` in a hierarchy whose first `m` classes are bootstrapped
(eagerly or by earlier uses) bootstraps exactly the classes `m .. k`, each from the state in which its
ancestors are complete — the result is the eager hierarchy up to `max m (k+1)`. -/
theorem boot_eagerN (chain : List HBody) (m k : Nat) (hm : m ≤ chain.length) :
    boot chain k (eagerN chain m (initSt chain)) = eagerN chain (max m (k + 1)) (initSt chain) := by
  have hlen : (initSt chain).length = chain.length := by simp [initSt]
  induction k with
  | zero =>
    simp only [boot]
    by_cases h0 : 0 < m
    · rw [booted_eagerN_below chain m _ 0 (by omega) h0]
      simp only [if_true]
      rw [Nat.max_eq_left (by omega)]
    · have : m = 0 := by omega
      subst this
      rw [booted_eagerN_above chain 0 0 (by omega)]
      simp [eagerN]
  | succ k ih =>
    simp only [boot]
    by_cases hk : k + 1 < m
    · rw [booted_eagerN_below chain m _ (k + 1) (by omega) hk]
      simp only [if_true]
      rw [Nat.max_eq_left (by omega)]
    · rw [booted_eagerN_above chain m (k + 1) (by omega)]
      simp only [Bool.false_eq_true, if_false]
      rw [ih]
      by_cases hkm : k + 1 = m
      · rw [Nat.max_eq_left (by omega), Nat.max_eq_right (by omega), ← hkm]
        rfl
      · rw [Nat.max_eq_right (by omega), Nat.max_eq_right (by omega)]
        rfl

theorem runTrigs_eagerN (chain : List HBody) (trigs : List Nat) (m : Nat) (hm : m ≤ chain.length)
    (ht : ∀ k ∈ trigs, k < chain.length) :
    ∃ m', m ≤ m' ∧ m' ≤ chain.length ∧ (∀ k ∈ trigs, k < m') ∧
      runTrigs chain trigs (eagerN chain m (initSt chain)) = eagerN chain m' (initSt chain) := by
  induction trigs generalizing m with
  | nil => exact ⟨m, Nat.le_refl _, hm, by simp, rfl⟩
  | cons k ks ih =>
    simp only [runTrigs]
    rw [boot_eagerN chain m k hm]
    have hk : k < chain.length := ht k List.mem_cons_self
    obtain ⟨m', h1, h2, h3, h4⟩ := ih (max m (k + 1)) (by omega) (fun x hx => ht x (List.mem_cons_of_mem _ hx))
    refine ⟨m', by omega, h2, ?_, h4⟩
    intro x hx
    rcases List.mem_cons.1 hx with rfl | hx
    · omega
    · exact h3 x hx

end SpecVerif.C19.Hier
