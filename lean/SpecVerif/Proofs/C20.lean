import SpecVerif.Model.C20
/-!
# Helper lemmas for C20 (copy-protection protocol). Property theorems live in `Props/C20.lean`.
-/
set_option linter.unusedSectionVars false
set_option linter.unusedSimpArgs false
set_option linter.unusedVariables false
namespace SpecVerif.C20
open SpecVerif.Py

/-! ### list lemmas (depth vector) -/

theorem getD_set_self (l : List Nat) (t v : Nat) (h : t < l.length) : (l.set t v).getD t 0 = v := by
  simp [List.getD_eq_getElem?_getD, h]

theorem getD_set_ne {α : Type} (l : List α) (t t' : Nat) (v d : α) (h : t ≠ t') :
    (l.set t v).getD t' d = l.getD t' d := by
  simp [List.getD_eq_getElem?_getD, List.getElem?_set_ne h]

theorem getD_set_bool (l : List Bool) (t t' : Nat) (v : Bool) :
    (l.set t v).getD t' false = if t = t' ∧ t < l.length then v else l.getD t' false := by
  by_cases h : t = t'
  · subst h
    by_cases hl : t < l.length
    · simp [List.getD_eq_getElem?_getD, hl]
    · have : l.length ≤ t := Nat.le_of_not_lt hl
      simp [List.getD_eq_getElem?_getD, hl, List.getElem?_eq_none this]
  · simp [h, getD_set_ne l t t' v false h]

theorem sum_set (l : List Nat) (t v : Nat) (h : t < l.length) :
    (l.set t v).sum + l.getD t 0 = l.sum + v := by
  induction l generalizing t with
  | nil => simp at h
  | cons a l ih =>
    cases t with
    | zero => simp [List.set]; omega
    | succ t =>
      have h' : t < l.length := by simpa using h
      have := ih t h'
      simp [List.set] at this ⊢
      omega

theorem getD_le_sum (l : List Nat) (t : Nat) : l.getD t 0 ≤ l.sum := by
  induction l generalizing t with
  | nil => simp
  | cons a l ih =>
    cases t with
    | zero => simp
    | succ t => have := ih t; simp at this ⊢; omega

theorem sum_eq_zero_of_all (l : List Nat) (h : ∀ t, l.getD t 0 = 0) : l.sum = 0 := by
  induction l with
  | nil => rfl
  | cons a l ih =>
    have h0 := h 0
    have : ∀ t, l.getD t 0 = 0 := fun t => by simpa using h (t + 1)
    simp at h0
    simp [ih this, h0]

theorem idle_getD {s : Sys} (h : s.idle = true) : ∀ t, s.depth.getD t 0 = 0 := by
  intro t
  unfold Sys.idle at h
  rw [List.all_eq_true] at h
  by_cases hl : t < s.depth.length
  · have := h (s.depth[t]) (List.getElem_mem hl)
    simp [List.getD_eq_getElem?_getD, hl]
    simpa using this
  · have : s.depth.length ≤ t := Nat.le_of_not_lt hl
    simp [List.getD_eq_getElem?_getD, List.getElem?_eq_none this]

theorem getD_pos_lt (l : List Nat) (t : Nat) (h : 0 < l.getD t 0) : t < l.length := by
  by_cases hl : t < l.length
  · exact hl
  · have : l.length ≤ t := Nat.le_of_not_lt hl
    simp [List.getD_eq_getElem?_getD, List.getElem?_eq_none this] at h

/-! ### the invariant -/

structure Inv (s : Sys) : Prop where
  lenF       : s.failed.length = s.depth.length
  rc         : s.refcount = (s.depth.sum : Int)
  present    : 0 < s.refcount → s.table ≠ none
  patchedOurs : s.patched = true → s.table = some .ours ∧ s.orig = none
  patchedPos : s.patched = true → 0 < s.refcount
  unpatched  : s.patched = false → s.table = s.orig
  noFail     : ∀ t, s.failedOf t = false
  origOk     : s.orig ≠ some .ours

theorem inv_init' (f : Bool) (n : Nat) : Inv (init f n) := by
  refine ⟨by simp [init], ?_, by simp [init], by simp [init], by simp [init], by simp [init], ?_, ?_⟩
  · have : (List.replicate n 0).sum = 0 := by simp
    simp [init, this]
  · intro t
    simp [init, Sys.failedOf, List.getD_eq_getElem?_getD, List.getElem?_replicate]
    split <;> simp
  · cases f <;> simp [init]

theorem inv_enterStep {s : Sys} (h : Inv s) {t : Nat} (ht : t < s.depth.length) :
    Inv (enterStep s t) := by
  have hsum := sum_set s.depth t (s.depthOf t + 1) ht
  have hrc := h.rc
  have hnn : (0 : Int) ≤ s.refcount := by rw [hrc]; exact Int.natCast_nonneg _
  unfold Sys.depthOf at hsum
  unfold enterStep enterBody
  cases htab : s.table with
  | none =>
    have horig : s.orig = none := by
      cases hp : s.patched with
      | false => rw [← h.unpatched hp]; exact htab
      | true => have := (h.patchedOurs hp).1; rw [htab] at this; cases this
    refine ⟨by simpa using h.lenF, ?_, by simp, by simp [horig], ?_, by simp, h.noFail, h.origOk⟩
    · show s.refcount + 1 = ((s.depth.set t (s.depth.getD t 0 + 1)).sum : Int); omega
    · intro _; show 0 < s.refcount + 1; omega
  | some e =>
    refine ⟨by simpa using h.lenF, ?_, by simp [htab], ?_, ?_, ?_, h.noFail, h.origOk⟩
    · show s.refcount + 1 = ((s.depth.set t (s.depth.getD t 0 + 1)).sum : Int); omega
    · intro hp; have := h.patchedOurs hp; simpa [htab] using this
    · intro hp; show 0 < s.refcount + 1; omega
    · intro hp; have := h.unpatched hp; simpa [htab] using this

theorem inv_exitStep {s : Sys} (h : Inv s) {t : Nat} (ht : 0 < s.depthOf t) :
    Inv (exitStep s t) ∧ (exitBody s).2 = false := by
  have hlt : t < s.depth.length := getD_pos_lt _ _ ht
  have hsum := sum_set s.depth t (s.depthOf t - 1) hlt
  have hle := getD_le_sum s.depth t
  have hrc := h.rc
  unfold Sys.depthOf at hsum ht
  have hpos : 0 < s.refcount := by rw [hrc]; omega
  have hpres := h.present hpos
  unfold exitStep exitBody
  by_cases hc : (s.patched && (s.refcount - 1 == 0)) = true
  · simp only [Bool.and_eq_true, beq_iff_eq] at hc
    obtain ⟨hp, hz⟩ := hc
    obtain ⟨htab, horig⟩ := h.patchedOurs hp
    simp only [hp, hz, htab, Bool.and_self, beq_self_eq_true, if_true]
    refine ⟨⟨by simpa using h.lenF, ?_, by simp, by simp, by simp, by simp [horig], h.noFail, h.origOk⟩, by simp⟩
    show (0 : Int) = ((s.depth.set t (s.depth.getD t 0 - 1)).sum : Int); omega
  · have hc' : (s.patched && (s.refcount - 1 == 0)) = false := by simpa using hc
    simp only [hc', Bool.false_eq_true, if_false]
    refine ⟨⟨by simpa using h.lenF, ?_, ?_, h.patchedOurs, ?_, h.unpatched, h.noFail, h.origOk⟩, by simp⟩
    · show s.refcount - 1 = ((s.depth.set t (s.depth.getD t 0 - 1)).sum : Int); omega
    · intro _; exact hpres
    · intro hp
      show 0 < s.refcount - 1
      have hp' : s.patched = true := hp
      have : ¬ (s.refcount - 1 = 0) := by
        intro hz; simp [hp', hz] at hc'
      omega

theorem depth_exitStep (s : Sys) (t : Nat) (ht : 0 < s.depthOf t) :
    (exitStep s t).depthOf t = s.depthOf t - 1 ∧ ∀ t', t' ≠ t → (exitStep s t).depthOf t' = s.depthOf t' := by
  have hlt : t < s.depth.length := getD_pos_lt _ _ ht
  constructor
  · simp [exitStep, Sys.depthOf, List.getD_eq_getElem?_getD, hlt]
  · intro t' hne
    simp [exitStep, Sys.depthOf]
    exact getD_set_ne _ _ _ _ _ (Ne.symm hne)

theorem depth_enterStep (s : Sys) (t : Nat) (hlt : t < s.depth.length) :
    (enterStep s t).depthOf t = s.depthOf t + 1 ∧ ∀ t', t' ≠ t → (enterStep s t).depthOf t' = s.depthOf t' := by
  constructor
  · simp [enterStep, Sys.depthOf, List.getD_eq_getElem?_getD, hlt]
  · intro t' hne
    simp [enterStep, Sys.depthOf]
    exact getD_set_ne _ _ _ _ _ (Ne.symm hne)

theorem len_exitStep (s : Sys) (t : Nat) : (exitStep s t).depth.length = s.depth.length := by
  simp [exitStep]
theorem len_enterStep (s : Sys) (t : Nat) : (enterStep s t).depth.length = s.depth.length := by
  simp [enterStep]
theorem orig_exitStep (s : Sys) (t : Nat) : (exitStep s t).orig = s.orig := by
  unfold exitStep exitBody; simp only []; split <;> (try split) <;> rfl
theorem orig_enterStep (s : Sys) (t : Nat) : (enterStep s t).orig = s.orig := by
  unfold enterStep enterBody; simp only []; split <;> rfl

theorem inv_copyStep {s : Sys} (h : Inv s) {t : Nat} (ht : 0 < s.depthOf t) :
    copyStep s t = s ∧ s.table.isSome = true := by
  have hle := getD_le_sum s.depth t
  have hrc := h.rc
  unfold Sys.depthOf at ht
  have hpos : 0 < s.refcount := by rw [hrc]; omega
  have hpres := h.present hpos
  have : s.table.isSome = true := by
    cases hh : s.table with
    | none => exact absurd hh hpres
    | some _ => rfl
  exact ⟨by simp [copyStep, this], this⟩

theorem inv_unwind {s : Sys} (h : Inv s) (t k : Nat) (hk : k ≤ s.depthOf t) :
    Inv (unwind s t k) ∧ (unwind s t k).depthOf t = s.depthOf t - k
      ∧ (∀ t', t' ≠ t → (unwind s t k).depthOf t' = s.depthOf t')
      ∧ (unwind s t k).depth.length = s.depth.length ∧ (unwind s t k).orig = s.orig := by
  induction k generalizing s with
  | zero => exact ⟨h, by simp [unwind], fun _ _ => rfl, rfl, rfl⟩
  | succ k ih =>
    have hpos : 0 < s.depthOf t := by omega
    have h1 := (inv_exitStep h hpos).1
    obtain ⟨hd, ho⟩ := depth_exitStep s t hpos
    have := ih h1 (by rw [hd]; omega)
    obtain ⟨a, b, c, d, e⟩ := this
    refine ⟨a, ?_, ?_, ?_, ?_⟩
    · show (unwind (exitStep s t) t k).depthOf t = _; rw [b, hd]; omega
    · intro t' hne; show (unwind (exitStep s t) t k).depthOf t' = _; rw [c t' hne, ho t' hne]
    · show (unwind (exitStep s t) t k).depth.length = _; rw [d, len_exitStep]
    · show (unwind (exitStep s t) t k).orig = _; rw [e, orig_exitStep]

theorem inv_step' {s s' : Sys} (h : Inv s) (a : Step) (hs : step s a = some s') : Inv s' := by
  cases a with
  | enter t =>
    simp only [step] at hs
    split at hs
    · cases hs; exact inv_enterStep h (by assumption)
    · cases hs
  | exit t =>
    simp only [step] at hs
    split at hs
    · cases hs; exact (inv_exitStep h (by assumption)).1
    · cases hs
  | copyModule t =>
    simp only [step] at hs
    split at hs
    · cases hs; rw [(inv_copyStep h (by assumption)).1]; exact h
    · cases hs
  | raise t =>
    simp only [step] at hs
    split at hs
    · cases hs; exact (inv_unwind h t _ (Nat.le_refl _)).1
    · cases hs
  | external f =>
    simp only [step] at hs
    split at hs
    · rename_i hidle
      cases hs
      have hz : s.refcount = 0 := by
        rw [h.rc, sum_eq_zero_of_all s.depth (idle_getD hidle)]; rfl
      have hp : s.patched = false := by
        cases hp : s.patched with
        | false => rfl
        | true => have := h.patchedPos hp; omega
      refine ⟨h.lenF, h.rc, ?_, ?_, ?_, ?_, h.noFail, ?_⟩
      · intro hpos; have : 0 < s.refcount := hpos; omega
      · intro hp'; have : s.patched = true := hp'; rw [hp] at this; cases this
      · intro hp'; have : s.patched = true := hp'; rw [hp] at this; cases this
      · intro _; rfl
      · show (if f then some Entry.foreign else none) ≠ some Entry.ours
        cases f <;> simp
    · cases hs

theorem step_len {s s' : Sys} (a : Step) (hs : step s a = some s') :
    s'.depth.length = s.depth.length ∧ ((∀ f, a ≠ Step.external f) → s'.orig = s.orig) := by
  cases a with
  | enter t =>
    simp only [step] at hs
    split at hs
    · cases hs; exact ⟨len_enterStep _ _, fun _ => orig_enterStep _ _⟩
    · cases hs
  | exit t =>
    simp only [step] at hs
    split at hs
    · cases hs; exact ⟨len_exitStep _ _, fun _ => orig_exitStep _ _⟩
    · cases hs
  | copyModule t =>
    simp only [step] at hs
    split at hs
    · cases hs; unfold copyStep; split <;> exact ⟨rfl, fun _ => rfl⟩
    · cases hs
  | raise t =>
    simp only [step] at hs
    split at hs
    · rename_i hpos
      cases hs
      -- lengths/orig do not need the invariant
      have : ∀ k (s : Sys), (unwind s t k).depth.length = s.depth.length ∧ (unwind s t k).orig = s.orig := by
        intro k
        induction k with
        | zero => intro s; exact ⟨rfl, rfl⟩
        | succ k ih =>
          intro s
          have := ih (exitStep s t)
          exact ⟨by show (unwind (exitStep s t) t k).depth.length = _; rw [this.1, len_exitStep],
                 by show (unwind (exitStep s t) t k).orig = _; rw [this.2, orig_exitStep]⟩
      exact ⟨(this _ _).1, fun _ => (this _ _).2⟩
    · cases hs
  | external f =>
    simp only [step] at hs
    split at hs
    · cases hs; exact ⟨rfl, fun hne => absurd rfl (hne f)⟩
    · cases hs

/-! ### sequential execution -/

theorem inv_seqStep {s : Sys} (h : Inv s) (t : Nat) (ht : t < s.depth.length) (i : Instr)
    (hen : i = Instr.exit ∨ i = Instr.copy → 0 < s.depthOf t) :
    Inv (seqStep t i s).1 ∧ (seqStep t i s).1.depth.length = s.depth.length
      ∧ (seqStep t i s).1.orig = s.orig
      ∧ (∀ t', t' ≠ t → (seqStep t i s).1.depthOf t' = s.depthOf t')
      ∧ ((seqStep t i s).2 = false → (seqStep t i s).1.depthOf t = 0)
      ∧ ((seqStep t i s).2 = true →
          (seqStep t i s).1.depthOf t =
            match i with
            | .enter => s.depthOf t + 1
            | .exit => s.depthOf t - 1
            | _ => s.depthOf t) := by
  cases i with
  | enter =>
    obtain ⟨a, b⟩ := depth_enterStep s t ht
    exact ⟨inv_enterStep h ht, len_enterStep _ _, orig_enterStep _ _, b, by simp [seqStep], fun _ => a⟩
  | exit =>
    have hpos := hen (Or.inl rfl)
    obtain ⟨hinv, hke⟩ := inv_exitStep h hpos
    obtain ⟨a, b⟩ := depth_exitStep s t hpos
    have hf : (exitStep s t).failedOf t = false := hinv.noFail t
    simp only [seqStep, hf, Bool.false_and, Bool.false_eq_true, if_false]
    exact ⟨hinv, len_exitStep _ _, orig_exitStep _ _, b, by simp, fun _ => a⟩
  | copy =>
    have hpos := hen (Or.inr rfl)
    obtain ⟨_, hsome⟩ := inv_copyStep h hpos
    simp only [seqStep, hsome, if_true]
    exact ⟨h, trivial, trivial, fun _ _ => trivial, by simp, fun _ => trivial⟩
  | raise =>
    obtain ⟨a, b, c, d, e⟩ := inv_unwind h t (s.depthOf t) (Nat.le_refl _)
    simp only [seqStep]
    exact ⟨a, d, e, c, fun _ => by rw [b]; omega, by simp⟩

/-- Well-bracketed instruction lists: what `protectI` produces. -/
inductive Bal : List Instr → Prop
  | nil : Bal []
  | copy {p} : Bal p → Bal (Instr.copy :: p)
  | raise {p} : Bal (Instr.raise :: p)
  | block {p q} : Bal p → Bal q → Bal (Instr.enter :: (p ++ Instr.exit :: q))

theorem Bal.append {p q : List Instr} (hp : Bal p) (hq : Bal q) : Bal (p ++ q) := by
  induction hp with
  | nil => simpa using hq
  | copy _ ih => exact Bal.copy ih
  | raise => exact Bal.raise
  | @block p1 q1 hp1 _ _ ih2 =>
    have : Instr.enter :: (p1 ++ Instr.exit :: q1) ++ q = Instr.enter :: (p1 ++ Instr.exit :: (q1 ++ q)) := by
      simp
    rw [this]
    exact Bal.block hp1 ih2

theorem bal_wrap (v : Val) {b : List Instr} (hb : Bal b) : Bal (wrapProtect v b) := by
  unfold wrapProtect
  split
  · exact Bal.nil
  · exact Bal.nil
  · have := Bal.block hb Bal.nil
    simpa using this

mutual
theorem bal_deepI : ∀ v : Val, Bal (deepI v)
  | .atom => by simp [deepI]; exact Bal.nil
  | .module => by simp [deepI]; exact Bal.copy Bal.nil
  | .bad => by simp [deepI]; exact Bal.raise
  | .list xs => by simp [deepI]; exact bal_deepIs xs
  | .inst dnc as pc => by
    simp only [deepI]
    split
    · exact Bal.nil
    · apply Bal.append (bal_attrsI as)
      split
      · exact Bal.raise
      · exact Bal.nil
theorem bal_deepIs : ∀ vs : Vals, Bal (deepIs vs)
  | .nil => by simp [deepIs]; exact Bal.nil
  | .cons v vs => by simp only [deepIs]; exact Bal.append (bal_deepI v) (bal_deepIs vs)
theorem bal_attrsI : ∀ as : Attrs, Bal (attrsI as)
  | .nil => by simp [attrsI]; exact Bal.nil
  | .cons dnc v rest => by
    simp only [attrsI]
    apply Bal.append _ (bal_attrsI rest)
    split
    · exact Bal.nil
    · exact bal_wrap v (bal_deepI v)
end

theorem bal_protectI (v : Val) : Bal (protectI v) := bal_wrap v (bal_deepI v)

theorem execSeq_append (t : Nat) (p q : List Instr) (s : Sys) :
    execSeq t (p ++ q) s =
      match execSeq t p s with
      | (s', true) => execSeq t q s'
      | (s', false) => (s', false) := by
  induction p generalizing s with
  | nil => simp [execSeq]
  | cons i p ih =>
    simp only [List.cons_append, execSeq]
    rcases hh : seqStep t i s with ⟨s', b⟩
    cases b with
    | true => simp only []; exact ih s'
    | false => simp

/-- What a sequential run `r` of thread `t` from state `s` guarantees. -/
structure Post (t : Nat) (s : Sys) (r : Sys × Bool) : Prop where
  inv    : Inv r.1
  len    : r.1.depth.length = s.depth.length
  orig   : r.1.orig = s.orig
  others : ∀ t', t' ≠ t → r.1.depthOf t' = s.depthOf t'
  done   : r.2 = true → r.1.depthOf t = s.depthOf t
  abort  : r.2 = false → r.1.depthOf t = 0

theorem Post.trans {t : Nat} {s s1 : Sys} {r : Sys × Bool}
    (h1 : Post t s (s1, true)) (h2 : Post t s1 r) : Post t s r :=
  ⟨h2.inv, by rw [h2.len, h1.len], by rw [h2.orig, h1.orig],
   fun t' hne => by rw [h2.others t' hne, h1.others t' hne],
   fun hr => by rw [h2.done hr, h1.done rfl], h2.abort⟩

/-- Running a well-bracketed program *inside* a protected block (depth > 0):
the invariant is kept, other threads are untouched, and the thread is either
back at its starting depth (completed) or fully unwound (an exception left). -/
theorem exec_bal_pos {p : List Instr} (hb : Bal p) (t : Nat) :
    ∀ (s : Sys), Inv s → 0 < s.depthOf t → Post t s (execSeq t p s) := by
  induction hb with
  | nil => intro s h _; exact ⟨h, rfl, rfl, fun _ _ => rfl, fun _ => rfl, by simp [execSeq]⟩
  | copy hp ih =>
    intro s h hpos
    rename_i p
    obtain ⟨_, hsome⟩ := inv_copyStep h hpos
    have : execSeq t (Instr.copy :: p) s = execSeq t p s := by
      simp [execSeq, seqStep, hsome]
    rw [this]; exact ih s h hpos
  | raise =>
    intro s h hpos
    rename_i p
    obtain ⟨a, b, c, d, e⟩ := inv_unwind h t (s.depthOf t) (Nat.le_refl _)
    have : execSeq t (Instr.raise :: p) s = (unwind s t (s.depthOf t), false) := by
      simp [execSeq, seqStep]
    rw [this]
    exact ⟨a, d, e, c, by simp, fun _ => by rw [b]; omega⟩
  | block hp hq ihp ihq =>
    intro s h hpos
    rename_i p q
    have ht : t < s.depth.length := getD_pos_lt _ _ hpos
    obtain ⟨de, dother⟩ := depth_enterStep s t ht
    have h1 : Inv (enterStep s t) := inv_enterStep h ht
    have hd1 : 0 < (enterStep s t).depthOf t := by rw [de]; omega
    have A := ihp (enterStep s t) h1 hd1
    have hexec : execSeq t (Instr.enter :: (p ++ Instr.exit :: q)) s =
        match execSeq t p (enterStep s t) with
        | (s2, true) => execSeq t (Instr.exit :: q) s2
        | (s2, false) => (s2, false) := by
      simp only [execSeq, seqStep]
      exact execSeq_append t p (Instr.exit :: q) (enterStep s t)
    rw [hexec]
    rcases hr : execSeq t p (enterStep s t) with ⟨s2, b⟩
    rw [hr] at A
    cases b with
    | false =>
      simp only
      exact ⟨A.inv, by rw [A.len, len_enterStep], by rw [A.orig, orig_enterStep],
        fun t' hne => by rw [A.others t' hne, dother t' hne], by simp, A.abort⟩
    | true =>
      simp only
      have hd2 : s2.depthOf t = s.depthOf t + 1 := by rw [A.done rfl, de]
      have hpos2 : 0 < s2.depthOf t := by omega
      obtain ⟨h3, hke⟩ := inv_exitStep A.inv hpos2
      obtain ⟨dx, dxo⟩ := depth_exitStep s2 t hpos2
      have hf : (exitStep s2 t).failedOf t = false := h3.noFail t
      have hstep : execSeq t (Instr.exit :: q) s2 = execSeq t q (exitStep s2 t) := by
        simp [execSeq, seqStep, hf]
      rw [hstep]
      have hd3 : (exitStep s2 t).depthOf t = s.depthOf t := by rw [dx, hd2]; omega
      have B := ihq (exitStep s2 t) h3 (by rw [hd3]; exact hpos)
      exact ⟨B.inv, by rw [B.len, len_exitStep, A.len, len_enterStep],
        by rw [B.orig, orig_exitStep, A.orig, orig_enterStep],
        fun t' hne => by rw [B.others t' hne, dxo t' hne, A.others t' hne, dother t' hne],
        fun hb => by rw [B.done hb, hd3], B.abort⟩

/-- `protect_via_deepcopy(v)` run by thread `t` from ANY state satisfying the
invariant (any depth, any activity of other threads). -/
theorem exec_protect (v : Val) (t : Nat) (s : Sys) (h : Inv s) (ht : t < s.depth.length) :
    Post t s (execSeq t (protectI v) s) := by
  unfold protectI wrapProtect
  have nilCase : Post t s (execSeq t [] s) :=
    ⟨h, rfl, rfl, fun _ _ => rfl, fun _ => rfl, by simp [execSeq]⟩
  have blockCase : ∀ b, Bal b → Post t s (execSeq t (Instr.enter :: (b ++ [Instr.exit])) s) := by
    intro b hb
    obtain ⟨de, dother⟩ := depth_enterStep s t ht
    have h1 : Inv (enterStep s t) := inv_enterStep h ht
    have hd1 : 0 < (enterStep s t).depthOf t := by rw [de]; omega
    have A := exec_bal_pos hb t (enterStep s t) h1 hd1
    have hexec : execSeq t (Instr.enter :: (b ++ [Instr.exit])) s =
        match execSeq t b (enterStep s t) with
        | (s2, true) => execSeq t [Instr.exit] s2
        | (s2, false) => (s2, false) := by
      simp only [execSeq, seqStep]
      exact execSeq_append t b [Instr.exit] (enterStep s t)
    rw [hexec]
    rcases hr : execSeq t b (enterStep s t) with ⟨s2, bb⟩
    rw [hr] at A
    cases bb with
    | false =>
      simp only
      exact ⟨A.inv, by rw [A.len, len_enterStep], by rw [A.orig, orig_enterStep],
        fun t' hne => by rw [A.others t' hne, dother t' hne], by simp, A.abort⟩
    | true =>
      simp only
      have hd2 : s2.depthOf t = s.depthOf t + 1 := by rw [A.done rfl, de]
      have hpos2 : 0 < s2.depthOf t := by omega
      obtain ⟨h3, hke⟩ := inv_exitStep A.inv hpos2
      obtain ⟨dx, dxo⟩ := depth_exitStep s2 t hpos2
      have hf : (exitStep s2 t).failedOf t = false := h3.noFail t
      have hstep : execSeq t [Instr.exit] s2 = (exitStep s2 t, true) := by
        simp [execSeq, seqStep, hf]
      rw [hstep]
      exact ⟨h3, by rw [len_exitStep, A.len, len_enterStep],
        by rw [orig_exitStep, A.orig, orig_enterStep],
        fun t' hne => by rw [dxo t' hne, A.others t' hne, dother t' hne],
        fun _ => by show (exitStep s2 t).depthOf t = _; rw [dx, hd2]; omega, by simp⟩
  cases v with
  | atom => exact nilCase
  | module => exact nilCase
  | bad => exact blockCase _ (bal_deepI _)
  | list xs => exact blockCase _ (bal_deepI _)
  | inst d a pc => exact blockCase _ (bal_deepI _)

/-- Well-bracketed programs that never look up a module outside a block. -/
inductive Bal0 : List Instr → Prop
  | nil : Bal0 []
  | raise {p} : Bal0 (Instr.raise :: p)
  | block {p q} : Bal p → Bal0 q → Bal0 (Instr.enter :: (p ++ Instr.exit :: q))

theorem Bal0.append {p q : List Instr} (hp : Bal0 p) (hq : Bal0 q) : Bal0 (p ++ q) := by
  induction hp with
  | nil => simpa using hq
  | raise => exact Bal0.raise
  | @block p1 q1 hp1 _ ih2 =>
    have : Instr.enter :: (p1 ++ Instr.exit :: q1) ++ q = Instr.enter :: (p1 ++ Instr.exit :: (q1 ++ q)) := by
      simp
    rw [this]
    exact Bal0.block hp1 ih2

theorem bal0_wrap (v : Val) {b : List Instr} (hb : Bal b) : Bal0 (wrapProtect v b) := by
  unfold wrapProtect
  split
  · exact Bal0.nil
  · exact Bal0.nil
  · have := Bal0.block hb Bal0.nil
    simpa using this

theorem bal0_attrsI : ∀ as : Attrs, Bal0 (attrsI as)
  | .nil => by simp [attrsI]; exact Bal0.nil
  | .cons dnc v rest => by
    simp only [attrsI]
    apply Bal0.append _ (bal0_attrsI rest)
    split
    · exact Bal0.nil
    · exact bal0_wrap v (bal_deepI v)

mutual
theorem bal0_deepI : ∀ v : Val, guardedV v = true → Bal0 (deepI v)
  | .atom, _ => by simp [deepI]; exact Bal0.nil
  | .module, h => by simp [guardedV] at h
  | .bad, _ => by simp [deepI]; exact Bal0.raise
  | .list xs, h => by simp only [deepI]; exact bal0_deepIs xs (by simpa [guardedV] using h)
  | .inst dnc as pc, _ => by
    simp only [deepI]
    split
    · exact Bal0.nil
    · apply Bal0.append (bal0_attrsI as)
      split
      · exact Bal0.raise
      · exact Bal0.nil
theorem bal0_deepIs : ∀ vs : Vals, guardedVs vs = true → Bal0 (deepIs vs)
  | .nil, _ => by simp [deepIs]; exact Bal0.nil
  | .cons v vs, h => by
    simp only [guardedVs, Bool.and_eq_true] at h
    simp only [deepIs]
    exact Bal0.append (bal0_deepI v h.1) (bal0_deepIs vs h.2)
end

/-- Running a `Bal0` program from ANY depth (in particular from outside every block). -/
theorem exec_bal0 {p : List Instr} (hb : Bal0 p) (t : Nat) :
    ∀ (s : Sys), Inv s → t < s.depth.length → Post t s (execSeq t p s) := by
  induction hb with
  | nil => intro s h _; exact ⟨h, rfl, rfl, fun _ _ => rfl, fun _ => rfl, by simp [execSeq]⟩
  | @raise p =>
    intro s h _
    obtain ⟨a, b, c, d, e⟩ := inv_unwind h t (s.depthOf t) (Nat.le_refl _)
    have : execSeq t (Instr.raise :: p) s = (unwind s t (s.depthOf t), false) := by
      simp [execSeq, seqStep]
    rw [this]
    exact ⟨a, d, e, c, by simp, fun _ => by rw [b]; omega⟩
  | @block p q hp hq ihq =>
    intro s h ht
    obtain ⟨de, dother⟩ := depth_enterStep s t ht
    have h1 : Inv (enterStep s t) := inv_enterStep h ht
    have hd1 : 0 < (enterStep s t).depthOf t := by rw [de]; omega
    have A := exec_bal_pos hp t (enterStep s t) h1 hd1
    have hexec : execSeq t (Instr.enter :: (p ++ Instr.exit :: q)) s =
        match execSeq t p (enterStep s t) with
        | (s2, true) => execSeq t (Instr.exit :: q) s2
        | (s2, false) => (s2, false) := by
      simp only [execSeq, seqStep]
      exact execSeq_append t p (Instr.exit :: q) (enterStep s t)
    rw [hexec]
    rcases hr : execSeq t p (enterStep s t) with ⟨s2, b⟩
    rw [hr] at A
    cases b with
    | false =>
      simp only
      exact ⟨A.inv, by rw [A.len, len_enterStep], by rw [A.orig, orig_enterStep],
        fun t' hne => by rw [A.others t' hne, dother t' hne], by simp, A.abort⟩
    | true =>
      simp only
      have hd2 : s2.depthOf t = s.depthOf t + 1 := by rw [A.done rfl, de]
      have hpos2 : 0 < s2.depthOf t := by omega
      obtain ⟨h3, hke⟩ := inv_exitStep A.inv hpos2
      obtain ⟨dx, dxo⟩ := depth_exitStep s2 t hpos2
      have hf : (exitStep s2 t).failedOf t = false := h3.noFail t
      have hstep : execSeq t (Instr.exit :: q) s2 = execSeq t q (exitStep s2 t) := by
        simp [execSeq, seqStep, hf]
      rw [hstep]
      have hd3 : (exitStep s2 t).depthOf t = s.depthOf t := by rw [dx, hd2]; omega
      have hl3 : t < (exitStep s2 t).depth.length := by rw [len_exitStep, A.len, len_enterStep]; exact ht
      have B := ihq (exitStep s2 t) h3 hl3
      exact ⟨B.inv, by rw [B.len, len_exitStep, A.len, len_enterStep],
        by rw [B.orig, orig_exitStep, A.orig, orig_enterStep],
        fun t' hne => by rw [B.others t' hne, dxo t' hne, A.others t' hne, dother t' hne],
        fun hb => by rw [B.done hb, hd3], B.abort⟩

end SpecVerif.C20
