import SpecVerif.Proofs.C20
/-!
# C20 — the statement-level model: invariant and safety (helper lemmas)
-/
set_option linter.unusedSectionVars false
set_option linter.unusedSimpArgs false
set_option linter.unusedVariables false
namespace SpecVerif.C20.Micro
open SpecVerif.C20

def isLocked : MPC → Bool
  | .idle | .eAcq | .xAcq => false
  | _ => true

def inExit : MPC → Bool
  | .xAcq | .xDec | .xTest | .xDel | .xClrP | .xRel => true
  | _ => false

/-- the counter runs ahead of / behind the number of open blocks inside the locked bodies -/
def adj : MPC → Int
  | .eRead | .eInstall | .eSetP | .eRel => 1
  | .xTest | .xDel | .xClrP | .xRel => -1
  | _ => 0

def holderPc (s : MSys) : MPC :=
  match s.lock with
  | none => .idle
  | some h => ((s.threads[h]?).map (·.pc)).getD .idle

def sumDepth (l : List MT) : Nat := (l.map (·.depth)).sum

/-! ### list lemmas -/

theorem sumDepth_set (l : List MT) (t : Nat) (old x : MT) (h : l[t]? = some old) :
    sumDepth (l.set t x) + old.depth = sumDepth l + x.depth := by
  induction l generalizing t with
  | nil => simp at h
  | cons a l ih =>
    cases t with
    | zero => simp at h; subst h; simp [sumDepth]; omega
    | succ t =>
      have h' : l[t]? = some old := by simpa using h
      have := ih t h'
      simp [sumDepth] at this ⊢
      omega

theorem depth_le_sum (l : List MT) (t : Nat) (th : MT) (h : l[t]? = some th) : th.depth ≤ sumDepth l := by
  induction l generalizing t with
  | nil => simp at h
  | cons a l ih =>
    cases t with
    | zero => simp at h; subst h; simp [sumDepth]
    | succ t =>
      have := ih t (by simpa using h)
      simp [sumDepth] at this ⊢; omega

theorem two_le_sum (l : List MT) (t u : Nat) (a b : MT) (hne : t ≠ u) (ht : l[t]? = some a) (hu : l[u]? = some b) :
    a.depth + b.depth ≤ sumDepth l := by
  induction l generalizing t u with
  | nil => simp at ht
  | cons x l ih =>
    cases t with
    | zero =>
      cases u with
      | zero => exact absurd rfl hne
      | succ u =>
        simp at ht; subst ht
        have := depth_le_sum l u b (by simpa using hu)
        simp [sumDepth] at this ⊢; omega
    | succ t =>
      cases u with
      | zero =>
        simp at hu; subst hu
        have := depth_le_sum l t a (by simpa using ht)
        simp [sumDepth] at this ⊢; omega
      | succ u =>
        have := ih t u (by omega) (by simpa using ht) (by simpa using hu)
        simp [sumDepth] at this ⊢; omega

theorem sumDepth_zero (l : List MT) (h : ∀ (t : Nat) (th : MT), l[t]? = some th → th.depth = 0) : sumDepth l = 0 := by
  induction l with
  | nil => rfl
  | cons a l ih =>
    have h0 := h 0 a (by simp)
    have := ih (fun t th ht => h (t + 1) th (by simpa using ht))
    simp [sumDepth] at this ⊢; omega

/-! ### the invariant -/

/-- what the shared state looks like, by the statement the lock holder executes next
(`D` = number of open protected blocks over all threads) -/
def Row (s : MSys) (D : Nat) : MPC → Prop
  | .eInstall => s.table = none ∧ s.patched = false ∧ s.orig = none ∧ D = 0
  | .eSetP => s.table = some .ours ∧ s.patched = false ∧ s.orig = none ∧ D = 0
  | .eRel => (s.patched = true → s.table = some .ours ∧ s.orig = none) ∧ (s.patched = false → s.table = s.orig)
      ∧ s.table ≠ none
  | .xDel => s.patched = true ∧ s.table = some .ours ∧ s.orig = none ∧ D = 1
  | .xClrP => s.patched = true ∧ s.table = none ∧ s.orig = none ∧ D = 1
  | .xRel => (s.patched = true → s.table = some .ours ∧ s.orig = none ∧ 1 < D) ∧ (s.patched = false → s.table = s.orig)
      ∧ (1 < D → s.table ≠ none)
  | _ => (s.patched = true → s.table = some .ours ∧ s.orig = none ∧ 0 < D) ∧ (s.patched = false → s.table = s.orig)
      ∧ (0 < D → s.table ≠ none)

structure MInv (s : MSys) : Prop where
  lockPc  : ∀ (t : Nat) (th : MT), s.threads[t]? = some th → (isLocked th.pc = true ↔ s.lock = some t)
  lockLt  : ∀ h, s.lock = some h → h < s.threads.length
  xDepth  : ∀ (t : Nat) (th : MT), s.threads[t]? = some th → inExit th.pc = true → 0 < th.depth
  rcEq    : s.rc = (sumDepth s.threads : Int) + adj (holderPc s)
  row     : Row s (sumDepth s.threads) (holderPc s)
  noFail  : s.failed = false
  origOk  : s.orig ≠ some .ours

theorem minv_init (f : Bool) (n : Nat) : MInv (minit f n) := by
  have hz : sumDepth (List.replicate n (⟨.idle, 0⟩ : MT)) = 0 := by
    apply sumDepth_zero
    intro t th ht
    rw [List.getElem?_replicate] at ht
    split at ht <;> cases ht; rfl
  refine ⟨?_, ?_, ?_, ?_, ?_, rfl, ?_⟩
  · intro t th ht
    simp only [minit] at ht ⊢
    rw [List.getElem?_replicate] at ht
    split at ht <;> cases ht
    simp [isLocked]
  · intro h hh; simp [minit] at hh
  · intro t th ht hx
    simp only [minit] at ht
    rw [List.getElem?_replicate] at ht
    split at ht <;> cases ht
    simp [inExit] at hx
  · simp only [minit, holderPc, adj]; rw [hz]; rfl
  · simp only [minit, holderPc, Row]; rw [hz]; simp
  · cases f <;> simp [minit]

/-- holder's pc when thread `t` (the holder itself) moved to `pc'` -/
theorem holderPc_self (s : MSys) (t : Nat) (th th' : MT) (ht : s.threads[t]? = some th) (lock' : Option Nat)
    (hl : lock' = some t) (rest : MSys) (hr : rest.lock = lock') (hth : rest.threads = s.threads.set t th') :
    holderPc rest = th'.pc := by
  have hlt : t < s.threads.length := by
    cases hh : s.threads[t]? with
    | none => rw [hh] at ht; cases ht
    | some _ => exact (List.getElem?_eq_some_iff.1 hh).1
  simp [holderPc, hr, hl, hth, List.getElem?_set, hlt]

/-- holder's pc is unchanged when a thread that is not the holder is updated -/
theorem holderPc_other (s rest : MSys) (t : Nat) (th' : MT) (hne : s.lock ≠ some t)
    (hr : rest.lock = s.lock) (hth : rest.threads = s.threads.set t th') : holderPc rest = holderPc s := by
  unfold holderPc
  rw [hr, hth]
  cases hl : s.lock with
  | none => rfl
  | some h =>
    have : t ≠ h := fun e => hne (by rw [hl, e])
    simp [List.getElem?_set_ne this]

theorem getElem?_lt {l : List MT} {t : Nat} {th : MT} (h : l[t]? = some th) : t < l.length :=
  (List.getElem?_eq_some_iff.1 h).1

/-- a step of the lock holder -/
theorem minv_holder {s : MSys} (h : MInv s) (t : Nat) (th th' : MT) (ht : s.threads[t]? = some th)
    (hl : s.lock = some t) {s' : MSys} (hth : s'.threads = s.threads.set t th') (horig : s'.orig = s.orig)
    (hlock : (s'.lock = some t ∧ isLocked th'.pc = true) ∨ (s'.lock = none ∧ isLocked th'.pc = false))
    (hx : inExit th'.pc = true → 0 < th'.depth)
    (hrc : s'.rc = (sumDepth s'.threads : Int) + adj (holderPc s'))
    (hrow : Row s' (sumDepth s'.threads) (holderPc s'))
    (hf : s'.failed = false) : MInv s' := by
  have hlt := getElem?_lt ht
  refine ⟨?_, ?_, ?_, hrc, hrow, hf, by rw [horig]; exact h.origOk⟩
  · intro i thi hi
    rw [hth] at hi
    by_cases hit : i = t
    · subst hit
      simp [List.getElem?_set, hlt] at hi
      subst hi
      rcases hlock with ⟨a, b⟩ | ⟨a, b⟩ <;> simp [a, b]
    · rw [List.getElem?_set_ne (Ne.symm hit)] at hi
      have := h.lockPc i thi hi
      have hnl : isLocked thi.pc = false := by
        cases hh : isLocked thi.pc with
        | false => rfl
        | true => have := this.1 hh; rw [hl] at this; cases this; exact absurd rfl hit
      rcases hlock with ⟨a, _⟩ | ⟨a, _⟩ <;> simp [a, hnl]
      exact fun e => hit e.symm
  · intro i hi
    rcases hlock with ⟨a, _⟩ | ⟨a, _⟩
    · rw [a] at hi; cases hi; rw [hth]; simpa using hlt
    · rw [a] at hi; cases hi
  · intro i thi hi hxi
    rw [hth] at hi
    by_cases hit : i = t
    · subst hit
      simp [List.getElem?_set, hlt] at hi
      subst hi; exact hx hxi
    · rw [List.getElem?_set_ne (Ne.symm hit)] at hi
      exact h.xDepth i thi hi hxi

/-- a step of a thread that does not hold the lock and does not take it: only its pc moves
between unlocked pcs -/
theorem minv_nonholder {s : MSys} (h : MInv s) (t : Nat) (th : MT) (pc' : MPC) (ht : s.threads[t]? = some th)
    (hl0 : isLocked th.pc = false) (hl1 : isLocked pc' = false) (hx : inExit pc' = true → 0 < th.depth) :
    MInv (s.setT t { th with pc := pc' }) := by
  have hlt := getElem?_lt ht
  have hne : s.lock ≠ some t := by
    intro e; have := (h.lockPc t th ht).2 e; rw [hl0] at this; cases this
  have hsum : sumDepth (s.threads.set t { th with pc := pc' }) = sumDepth s.threads := by
    have := sumDepth_set s.threads t th { th with pc := pc' } ht
    simp at this; omega
  have hhp : holderPc (s.setT t { th with pc := pc' }) = holderPc s :=
    holderPc_other s _ t _ hne rfl rfl
  refine ⟨?_, ?_, ?_, ?_, ?_, h.noFail, h.origOk⟩
  · intro i thi hi
    simp only [MSys.setT] at hi ⊢
    by_cases hit : i = t
    · subst hit
      simp [List.getElem?_set, hlt] at hi
      subst hi
      simp [hl1]; exact hne
    · rw [List.getElem?_set_ne (Ne.symm hit)] at hi
      exact h.lockPc i thi hi
  · intro i hi
    simp only [MSys.setT] at hi ⊢
    have := h.lockLt i hi; simpa using this
  · intro i thi hi hxi
    simp only [MSys.setT] at hi
    by_cases hit : i = t
    · subst hit
      simp [List.getElem?_set, hlt] at hi
      subst hi; exact hx hxi
    · rw [List.getElem?_set_ne (Ne.symm hit)] at hi
      exact h.xDepth i thi hi hxi
  · rw [hhp]; simp only [MSys.setT]; rw [hsum]; exact h.rcEq
  · rw [hhp]
    have := h.row
    simp only [MSys.setT]; rw [hsum]
    cases hp : holderPc s <;> rw [hp] at this <;> simpa [Row] using this

/-- taking the free lock -/
theorem minv_acquire {s : MSys} (h : MInv s) (t : Nat) (th : MT) (pc' : MPC) (ht : s.threads[t]? = some th)
    (hfree : s.lock = none) (hl1 : isLocked pc' = true) (hadj : adj pc' = 0)
    (hrowSame : ∀ (s0 : MSys) (D : Nat), Row s0 D pc' = Row s0 D .idle)
    (hx : inExit pc' = true → 0 < th.depth) :
    MInv { s.setT t { th with pc := pc' } with lock := some t } := by
  have hlt := getElem?_lt ht
  have hsum : sumDepth (s.threads.set t { th with pc := pc' }) = sumDepth s.threads := by
    have := sumDepth_set s.threads t th { th with pc := pc' } ht
    simp at this; omega
  have hidle : holderPc s = .idle := by simp [holderPc, hfree]
  have hnew : holderPc { s.setT t { th with pc := pc' } with lock := some t } = pc' := by
    simp [holderPc, MSys.setT, List.getElem?_set, hlt]
  refine ⟨?_, ?_, ?_, ?_, ?_, h.noFail, h.origOk⟩
  · intro i thi hi
    simp only [MSys.setT] at hi ⊢
    by_cases hit : i = t
    · subst hit
      simp [List.getElem?_set, hlt] at hi
      subst hi; simp [hl1]
    · rw [List.getElem?_set_ne (Ne.symm hit)] at hi
      have := h.lockPc i thi hi
      rw [hfree] at this
      have hnl : isLocked thi.pc = false := by
        cases hh : isLocked thi.pc with
        | false => rfl
        | true => have := this.1 hh; cases this
      simp [hnl]; exact fun e => hit e.symm
  · intro i hi; cases hi; simpa [MSys.setT] using hlt
  · intro i thi hi hxi
    simp only [MSys.setT] at hi
    by_cases hit : i = t
    · subst hit
      simp [List.getElem?_set, hlt] at hi
      subst hi; exact hx hxi
    · rw [List.getElem?_set_ne (Ne.symm hit)] at hi
      exact h.xDepth i thi hi hxi
  · rw [hnew, hadj]
    have := h.rcEq; rw [hidle] at this
    simp only [MSys.setT]; rw [hsum]; simpa [adj] using this
  · rw [hnew, hrowSame]
    have := h.row; rw [hidle] at this
    simp only [MSys.setT]; rw [hsum]
    simpa [Row] using this

/-- a thread inside a protected block that is not inside `__enter__`/`__exit__` always finds a
reducer for modules, whatever statement the lock holder (if any) is about to execute -/
theorem copier_finds_entry {s : MSys} (h : MInv s) (t : Nat) (th : MT) (ht : s.threads[t]? = some th)
    (hpc : th.pc = .idle) (hd : 0 < th.depth) : s.table ≠ none := by
  have hne : s.lock ≠ some t := by
    intro e; have := (h.lockPc t th ht).2 e; rw [hpc] at this; cases this
  have hD : th.depth ≤ sumDepth s.threads := depth_le_sum _ _ _ ht
  have htab : s.table ≠ none := by
    have hrow := h.row
    cases hl : s.lock with
    | none =>
      have : holderPc s = .idle := by simp [holderPc, hl]
      rw [this] at hrow; exact hrow.2.2 (by omega)
    | some u =>
      have hut : u ≠ t := fun e => hne (by rw [hl, e])
      have hult := h.lockLt u hl
      obtain ⟨thu, hu⟩ : ∃ thu, s.threads[u]? = some thu := ⟨s.threads[u], List.getElem?_eq_getElem hult⟩
      have hhp : holderPc s = thu.pc := by simp [holderPc, hl, hu]
      have hlku := (h.lockPc u thu hu).2 hl
      rw [hhp] at hrow
      have h2 := two_le_sum s.threads t u th thu (Ne.symm hut) ht hu
      have hxd : inExit thu.pc = true → 0 < thu.depth := h.xDepth u thu hu
      cases hpu : thu.pc <;> rw [hpu] at hrow hlku hxd <;> simp only [Row] at hrow
      case idle => simp [isLocked] at hlku
      case eAcq => simp [isLocked] at hlku
      case xAcq => simp [isLocked] at hlku
      case eInc => exact hrow.2.2 (by omega)
      case eRead => exact hrow.2.2 (by omega)
      case eInstall => omega
      case eSetP => omega
      case eRel => exact hrow.2.2
      case xDec => exact hrow.2.2 (by omega)
      case xTest => exact hrow.2.2 (by omega)
      case xDel => rw [hrow.2.1]; simp
      case xClrP => have := hxd rfl; omega
      case xRel => have := hxd rfl; exact hrow.2.2 (by omega)
  exact htab

theorem holder_facts {s : MSys} (h : MInv s) (t : Nat) (th : MT) (ht : s.threads[t]? = some th)
    (hlk : isLocked th.pc = true) :
    s.lock = some t ∧ holderPc s = th.pc := by
  have hl := (h.lockPc t th ht).1 hlk
  exact ⟨hl, by simp [holderPc, hl, ht]⟩

/-- Every statement of every thread keeps the invariant. -/
theorem minv_step {s s' : MSys} (h : MInv s) (t : Nat) (a : MAct) (hs : mstep s t a = some s') : MInv s' := by
  unfold mstep at hs
  cases ht : s.threads[t]? with
  | none => simp [ht] at hs
  | some th =>
    simp only [ht] at hs
    have hlt := getElem?_lt ht
    have hsumset : ∀ th' : MT, sumDepth (s.threads.set t th') + th.depth = sumDepth s.threads + th'.depth :=
      fun th' => sumDepth_set s.threads t th th' ht
    have hnn : (0 : Int) ≤ (sumDepth s.threads : Int) := Int.natCast_nonneg _
    cases hpc : th.pc <;> cases a <;> simp only [hpc] at hs <;> (try (cases hs; done))
    -- idle: enter / exit / copy
    case idle.enter =>
      cases hs
      exact minv_nonholder h t th .eAcq ht (by rw [hpc]; rfl) rfl (by simp [inExit])
    case idle.exit =>
      split at hs
      · rename_i hd; cases hs
        exact minv_nonholder h t th .xAcq ht (by rw [hpc]; rfl) rfl (fun _ => hd)
      · cases hs
    case idle.copy =>
      split at hs
      · rename_i hd
        -- the thread is inside a protected block and holds no lock: the table has an entry
        have htab := copier_finds_entry h t th ht hpc hd
        have hsome : s.table.isSome = true := by
          cases hh : s.table with
          | none => exact absurd hh htab
          | some _ => rfl
        simp [hsome] at hs; cases hs; exact h
      · cases hs
    -- __enter__
    case eAcq.next =>
      split at hs
      · rename_i hfree; cases hs
        have hfree' : s.lock = none := by cases hh : s.lock <;> simp [hh] at hfree; rfl
        exact minv_acquire h t th .eInc ht hfree' rfl rfl (fun _ _ => rfl) (by simp [inExit])
      · cases hs
    case eInc.next =>
      cases hs
      obtain ⟨hl, hhp⟩ := holder_facts h t th ht (by rw [hpc]; rfl)
      have hrow := h.row; have hrc := h.rcEq
      rw [hhp, hpc] at hrow hrc
      have hs1 := hsumset { th with pc := .eRead }
      have hnew : holderPc { s.setT t { th with pc := .eRead } with rc := s.rc + 1 } = .eRead := by
        simp [holderPc, MSys.setT, hl, List.getElem?_set, hlt]
      apply minv_holder h t th { th with pc := .eRead } ht hl
      · rfl
      · rfl
      · exact Or.inl ⟨hl, rfl⟩
      · exact (by simp [inExit])
      · rw [hnew]; simp only [MSys.setT, adj] at hrc ⊢; simp at hs1; omega
      · rw [hnew]; simp only [MSys.setT, Row] at hrow ⊢
        have : sumDepth (s.threads.set t { th with pc := .eRead }) = sumDepth s.threads := by simp at hs1; omega
        rw [this]; exact hrow
      · exact h.noFail
    case eRead.next =>
      cases hs
      obtain ⟨hl, hhp⟩ := holder_facts h t th ht (by rw [hpc]; rfl)
      have hrow := h.row; have hrc := h.rcEq
      rw [hhp, hpc] at hrow hrc
      simp only [Row] at hrow
      by_cases hm : s.table.isNone = true
      · have htn : s.table = none := by cases hh : s.table <;> simp [hh] at hm; rfl
        simp only [hm, if_true]
        have hs1 := hsumset { th with pc := .eInstall }
        have hsum : sumDepth (s.threads.set t { th with pc := .eInstall }) = sumDepth s.threads := by simp at hs1; omega
        have hnew : holderPc (s.setT t { th with pc := .eInstall }) = .eInstall := by
          simp [holderPc, MSys.setT, hl, List.getElem?_set, hlt]
        have hD0 : sumDepth s.threads = 0 := by
          by_cases hz : 0 < sumDepth s.threads
          · exact absurd htn (hrow.2.2 hz)
          · omega
        have hnp : s.patched = false := by
          cases hp : s.patched with
          | false => rfl
          | true => have := (hrow.1 hp).1; rw [htn] at this; cases this
        apply minv_holder h t th { th with pc := .eInstall } ht hl
        · rfl
        · rfl
        · exact Or.inl ⟨hl, rfl⟩
        · exact (by simp [inExit])
        · rw [hnew]; simp only [MSys.setT, adj] at hrc ⊢; rw [hsum]; exact hrc
        · rw [hnew]; simp only [MSys.setT, Row]; rw [hsum]
          exact ⟨htn, hnp, by rw [← hrow.2.1 hnp]; exact htn, hD0⟩
        · exact h.noFail
      · have hm' : s.table.isNone = false := by
          cases hh : s.table.isNone with
          | false => rfl
          | true => exact absurd hh hm
        simp only [hm', Bool.false_eq_true, if_false]
        have htn : s.table ≠ none := by intro e; rw [e] at hm'; simp at hm'
        have hs1 := hsumset { th with pc := .eRel }
        have hsum : sumDepth (s.threads.set t { th with pc := .eRel }) = sumDepth s.threads := by simp at hs1; omega
        have hnew : holderPc (s.setT t { th with pc := .eRel }) = .eRel := by
          simp [holderPc, MSys.setT, hl, List.getElem?_set, hlt]
        apply minv_holder h t th { th with pc := .eRel } ht hl
        · rfl
        · rfl
        · exact Or.inl ⟨hl, rfl⟩
        · exact (by simp [inExit])
        · rw [hnew]; simp only [MSys.setT, adj] at hrc ⊢; rw [hsum]; exact hrc
        · rw [hnew]; simp only [MSys.setT, Row]
          exact ⟨fun hp => ⟨(hrow.1 hp).1, (hrow.1 hp).2.1⟩, hrow.2.1, htn⟩
        · exact h.noFail
    case eInstall.next =>
      cases hs
      obtain ⟨hl, hhp⟩ := holder_facts h t th ht (by rw [hpc]; rfl)
      have hrow := h.row; have hrc := h.rcEq
      rw [hhp, hpc] at hrow hrc
      simp only [Row] at hrow
      have hs1 := hsumset { th with pc := .eSetP }
      have hsum : sumDepth (s.threads.set t { th with pc := .eSetP }) = sumDepth s.threads := by simp at hs1; omega
      have hnew : holderPc { s.setT t { th with pc := .eSetP } with table := some Entry.ours } = .eSetP := by
        simp [holderPc, MSys.setT, hl, List.getElem?_set, hlt]
      apply minv_holder h t th { th with pc := .eSetP } ht hl
      · rfl
      · rfl
      · exact Or.inl ⟨hl, rfl⟩
      · exact (by simp [inExit])
      · rw [hnew]; simp only [MSys.setT, adj] at hrc ⊢; rw [hsum]; exact hrc
      · rw [hnew]; simp only [MSys.setT, Row]; rw [hsum]; exact ⟨trivial, hrow.2.1, hrow.2.2.1, hrow.2.2.2⟩
      · exact h.noFail
    case eSetP.next =>
      cases hs
      obtain ⟨hl, hhp⟩ := holder_facts h t th ht (by rw [hpc]; rfl)
      have hrow := h.row; have hrc := h.rcEq
      rw [hhp, hpc] at hrow hrc
      simp only [Row] at hrow
      have hs1 := hsumset { th with pc := .eRel }
      have hsum : sumDepth (s.threads.set t { th with pc := .eRel }) = sumDepth s.threads := by simp at hs1; omega
      have hnew : holderPc { s.setT t { th with pc := .eRel } with patched := true } = .eRel := by
        simp [holderPc, MSys.setT, hl, List.getElem?_set, hlt]
      apply minv_holder h t th { th with pc := .eRel } ht hl
      · rfl
      · rfl
      · exact Or.inl ⟨hl, rfl⟩
      · exact (by simp [inExit])
      · rw [hnew]; simp only [MSys.setT, adj] at hrc ⊢; rw [hsum]; exact hrc
      · rw [hnew]; simp only [MSys.setT, Row]
        refine And.intro ?_ (And.intro ?_ ?_)
        · intro _; exact ⟨hrow.1, hrow.2.2.1⟩
        · intro hp; simp at hp
        · rw [hrow.1]; simp
      · exact h.noFail
    case eRel.next =>
      cases hs
      obtain ⟨hl, hhp⟩ := holder_facts h t th ht (by rw [hpc]; rfl)
      have hrow := h.row; have hrc := h.rcEq
      rw [hhp, hpc] at hrow hrc
      simp only [Row] at hrow
      have hs1 := hsumset { pc := .idle, depth := th.depth + 1 }
      have hnew : holderPc { s.setT t { pc := .idle, depth := th.depth + 1 } with lock := none } = .idle := by
        simp [holderPc]
      apply minv_holder h t th { pc := .idle, depth := th.depth + 1 } ht hl
      · rfl
      · rfl
      · exact Or.inr ⟨rfl, rfl⟩
      · exact (by simp [inExit])
      · rw [hnew]; simp only [MSys.setT, adj] at hrc ⊢; simp at hs1; omega
      · rw [hnew]; simp only [MSys.setT, Row]
        refine ⟨fun hp => ⟨(hrow.1 hp).1, (hrow.1 hp).2, ?_⟩, hrow.2.1, fun _ => hrow.2.2⟩
        simp at hs1; omega
      · exact h.noFail
    -- __exit__
    case xAcq.next =>
      split at hs
      · rename_i hfree; cases hs
        have hfree' : s.lock = none := by cases hh : s.lock <;> simp [hh] at hfree; rfl
        exact minv_acquire h t th .xDec ht hfree' rfl rfl (fun _ _ => rfl)
          (fun _ => h.xDepth t th ht (by rw [hpc]; rfl))
      · cases hs
    case xDec.next =>
      cases hs
      obtain ⟨hl, hhp⟩ := holder_facts h t th ht (by rw [hpc]; rfl)
      have hrow := h.row; have hrc := h.rcEq
      rw [hhp, hpc] at hrow hrc
      have hxd := h.xDepth t th ht (by rw [hpc]; rfl)
      have hs1 := hsumset { th with pc := .xTest }
      have hsum : sumDepth (s.threads.set t { th with pc := .xTest }) = sumDepth s.threads := by simp at hs1; omega
      have hnew : holderPc { s.setT t { th with pc := .xTest } with rc := s.rc - 1 } = .xTest := by
        simp [holderPc, MSys.setT, hl, List.getElem?_set, hlt]
      apply minv_holder h t th { th with pc := .xTest } ht hl
      · rfl
      · rfl
      · exact Or.inl ⟨hl, rfl⟩
      · exact (fun _ => hxd)
      · rw [hnew]; simp only [MSys.setT, adj] at hrc ⊢; rw [hsum]; omega
      · rw [hnew]; simp only [MSys.setT, Row] at hrow ⊢; rw [hsum]; exact hrow
      · exact h.noFail
    case xTest.next =>
      cases hs
      obtain ⟨hl, hhp⟩ := holder_facts h t th ht (by rw [hpc]; rfl)
      have hrow := h.row; have hrc := h.rcEq
      rw [hhp, hpc] at hrow hrc
      simp only [Row] at hrow
      simp only [adj] at hrc
      have hxd := h.xDepth t th ht (by rw [hpc]; rfl)
      have hDpos : 0 < sumDepth s.threads := by have := depth_le_sum _ _ _ ht; omega
      by_cases hc : (s.patched && s.rc == 0) = true
      · simp only [hc, if_true]
        simp only [Bool.and_eq_true, beq_iff_eq] at hc
        have hs1 := hsumset { th with pc := .xDel }
        have hsum : sumDepth (s.threads.set t { th with pc := .xDel }) = sumDepth s.threads := by simp at hs1; omega
        have hnew : holderPc (s.setT t { th with pc := .xDel }) = .xDel := by
          simp [holderPc, MSys.setT, hl, List.getElem?_set, hlt]
        apply minv_holder h t th { th with pc := .xDel } ht hl
        · rfl
        · rfl
        · exact Or.inl ⟨hl, rfl⟩
        · exact (fun _ => hxd)
        · rw [hnew]; simp only [MSys.setT, adj]; rw [hsum]; exact hrc
        · rw [hnew]; simp only [MSys.setT, Row]; rw [hsum]
          exact ⟨hc.1, (hrow.1 hc.1).1, (hrow.1 hc.1).2.1, by omega⟩
        · exact h.noFail
      · have hc' : (s.patched && s.rc == 0) = false := by simpa using hc
        simp only [hc', Bool.false_eq_true, if_false]
        have hs1 := hsumset { th with pc := .xRel }
        have hsum : sumDepth (s.threads.set t { th with pc := .xRel }) = sumDepth s.threads := by simp at hs1; omega
        have hnew : holderPc (s.setT t { th with pc := .xRel }) = .xRel := by
          simp [holderPc, MSys.setT, hl, List.getElem?_set, hlt]
        apply minv_holder h t th { th with pc := .xRel } ht hl
        · rfl
        · rfl
        · exact Or.inl ⟨hl, rfl⟩
        · exact (fun _ => hxd)
        · rw [hnew]; simp only [MSys.setT, adj]; rw [hsum]; exact hrc
        · rw [hnew]; simp only [MSys.setT, Row]; rw [hsum]
          refine ⟨fun hp => ⟨(hrow.1 hp).1, (hrow.1 hp).2.1, ?_⟩, hrow.2.1, fun _ => hrow.2.2 hDpos⟩
          have : ¬ (s.rc = 0) := by intro hz; simp [hp, hz] at hc'
          omega
        · exact h.noFail
    case xDel.next =>
      cases hs
      obtain ⟨hl, hhp⟩ := holder_facts h t th ht (by rw [hpc]; rfl)
      have hrow := h.row; have hrc := h.rcEq
      rw [hhp, hpc] at hrow hrc
      simp only [Row] at hrow
      have hxd := h.xDepth t th ht (by rw [hpc]; rfl)
      have hs1 := hsumset { th with pc := .xClrP }
      have hsum : sumDepth (s.threads.set t { th with pc := .xClrP }) = sumDepth s.threads := by simp at hs1; omega
      have hnew : holderPc { s.setT t { th with pc := .xClrP } with table := none, failed := s.failed || s.table.isNone } = .xClrP := by
        simp [holderPc, MSys.setT, hl, List.getElem?_set, hlt]
      apply minv_holder h t th { th with pc := .xClrP } ht hl
      · rfl
      · rfl
      · exact Or.inl ⟨hl, rfl⟩
      · exact (fun _ => hxd)
      · rw [hnew]; simp only [MSys.setT, adj] at hrc ⊢; rw [hsum]; exact hrc
      · rw [hnew]; simp only [MSys.setT, Row]; rw [hsum]; exact ⟨hrow.1, trivial, hrow.2.2.1, hrow.2.2.2⟩
      · show (s.failed || s.table.isNone) = false
        rw [h.noFail, hrow.2.1]; rfl
    case xClrP.next =>
      cases hs
      obtain ⟨hl, hhp⟩ := holder_facts h t th ht (by rw [hpc]; rfl)
      have hrow := h.row; have hrc := h.rcEq
      rw [hhp, hpc] at hrow hrc
      simp only [Row] at hrow
      have hxd := h.xDepth t th ht (by rw [hpc]; rfl)
      have hs1 := hsumset { th with pc := .xRel }
      have hsum : sumDepth (s.threads.set t { th with pc := .xRel }) = sumDepth s.threads := by simp at hs1; omega
      have hnew : holderPc { s.setT t { th with pc := .xRel } with patched := false } = .xRel := by
        simp [holderPc, MSys.setT, hl, List.getElem?_set, hlt]
      apply minv_holder h t th { th with pc := .xRel } ht hl
      · rfl
      · rfl
      · exact Or.inl ⟨hl, rfl⟩
      · exact (fun _ => hxd)
      · rw [hnew]; simp only [MSys.setT, adj] at hrc ⊢; rw [hsum]; exact hrc
      · rw [hnew]; simp only [MSys.setT, Row]; rw [hsum]
        refine And.intro ?_ (And.intro ?_ ?_)
        · intro hp; simp at hp
        · intro _; rw [hrow.2.1, hrow.2.2.1]
        · intro hD; omega
      · exact h.noFail
    case xRel.next =>
      cases hs
      obtain ⟨hl, hhp⟩ := holder_facts h t th ht (by rw [hpc]; rfl)
      have hrow := h.row; have hrc := h.rcEq
      rw [hhp, hpc] at hrow hrc
      simp only [Row] at hrow
      have hxd := h.xDepth t th ht (by rw [hpc]; rfl)
      have hs1 := hsumset { pc := .idle, depth := th.depth - 1 }
      have hnew : holderPc { s.setT t { pc := .idle, depth := th.depth - 1 } with lock := none } = .idle := by
        simp [holderPc]
      apply minv_holder h t th { pc := .idle, depth := th.depth - 1 } ht hl
      · rfl
      · rfl
      · exact Or.inr ⟨rfl, rfl⟩
      · exact (by simp [inExit])
      · rw [hnew]; simp only [MSys.setT, adj] at hrc ⊢; simp at hs1; omega
      · rw [hnew]; simp only [MSys.setT, Row]
        simp at hs1
        refine ⟨fun hp => ⟨(hrow.1 hp).1, (hrow.1 hp).2.1, ?_⟩, hrow.2.1, fun hD => hrow.2.2 ?_⟩
        · have := (hrow.1 hp).2.2; omega
        · omega
      · exact h.noFail

end SpecVerif.C20.Micro
