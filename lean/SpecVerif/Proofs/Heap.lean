import SpecVerif.Model.Inst
/-!
# Frame logic for the heap model (helper lemmas of C01 / C02 / C04 / C07 / C08)

`Safe n₀ W m Q` is a Hoare-style judgement about one computation `m : M α`
relative to a boundary `n₀` (the size of the heap when the public operation
started; identities `< n₀` are the *pre-existing* objects) and a set `W` of
pre-existing objects `m` is allowed to write:

* the heap only grows, pre-existing objects outside `W` are unchanged,
* every `write i` effect logged by `m` targets `i ∈ W` or a fresh `i ≥ n₀`,
* the trace only grows, the fault plan is untouched,
* a normal result satisfies `Q`.

It holds for *every* start state (any fault plan, any crash-point budget) and
whether `m` returns or raises.
-/
set_option linter.unusedSectionVars false
set_option linter.unusedVariables false
namespace SpecVerif.Heap
open SpecVerif.Py

/-! ## Running the monad -/

@[simp] theorem run_pure {α} (a : α) (s : MS) : (pure a : M α) s = (.ok a, s) := rfl

theorem run_bind {α β} (m : M α) (f : α → M β) (s : MS) :
    (m >>= f) s = match m s with
      | (.ok a, s') => f a s'
      | (.error e, s') => (.error e, s') := rfl

theorem run_bind_ok {α β} {m : M α} {f : α → M β} {s s' : MS} {a : α}
    (h : m s = (.ok a, s')) : (m >>= f) s = f a s' := by
  rw [run_bind, h]

theorem run_bind_err {α β} {m : M α} {f : α → M β} {s s' : MS} {e : Exn}
    (h : m s = (.error e, s')) : (m >>= f) s = (.error e, s') := by
  rw [run_bind, h]

@[simp] theorem run_throwE {α} (e : Exn) (s : MS) : (throwE e : M α) s = (.error e, s) := rfl
@[simp] theorem run_throwPy {α} (e : Err) (s : MS) : (throwPy e : M α) s = (.error (.py e), s) := rfl
@[simp] theorem run_getHeap (s : MS) : getHeap s = (.ok s.heap, s) := rfl

/-! ## The frame relation between two states -/

structure Post (n₀ : Nat) (W : Nat → Prop) (s s' : MS) : Prop where
  le₀ : n₀ ≤ s'.heap.length
  mono : s.heap.length ≤ s'.heap.length
  frame : ∀ i, i < n₀ → ¬ W i → s'.heap[i]? = s.heap[i]?
  trace : ∃ evs, s'.trace = evs ++ s.trace ∧ ∀ i, Ev.write i ∈ evs → W i ∨ n₀ ≤ i
  faults : s'.faults = s.faults
  budget : s.budget = none → s'.budget = none

theorem Post.refl {n₀ W} {s : MS} (h : n₀ ≤ s.heap.length) : Post n₀ W s s :=
  ⟨h, Nat.le_refl _, fun _ _ _ => rfl, ⟨[], by simp⟩, rfl, id⟩

theorem Post.trans {n₀ W} {s₁ s₂ s₃ : MS} (h₁ : Post n₀ W s₁ s₂) (h₂ : Post n₀ W s₂ s₃) :
    Post n₀ W s₁ s₃ := by
  refine ⟨h₂.le₀, Nat.le_trans h₁.mono h₂.mono, ?_, ?_, h₂.faults.trans h₁.faults,
    fun hb => h₂.budget (h₁.budget hb)⟩
  · intro i hi hw; rw [h₂.frame i hi hw, h₁.frame i hi hw]
  · obtain ⟨e₁, he₁, hw₁⟩ := h₁.trace
    obtain ⟨e₂, he₂, hw₂⟩ := h₂.trace
    refine ⟨e₂ ++ e₁, by rw [he₂, he₁, List.append_assoc], ?_⟩
    intro i hi
    rcases List.mem_append.1 hi with h | h
    · exact hw₂ i h
    · exact hw₁ i h

theorem Post.weaken {n₀ W W'} {s s' : MS} (h : Post n₀ W s s') (hW : ∀ i, W i → W' i) :
    Post n₀ W' s s' := by
  refine ⟨h.le₀, h.mono, fun i hi hw => h.frame i hi (fun hw' => hw (hW i hw')), ?_, h.faults,
    h.budget⟩
  obtain ⟨e, he, hw⟩ := h.trace
  exact ⟨e, he, fun i hi => (hw i hi).imp (hW i) id⟩

/-! ## The judgement -/

def Safe {α} (n₀ : Nat) (W : Nat → Prop) (m : M α) (Q : α → Prop) : Prop :=
  ∀ s, n₀ ≤ s.heap.length → Post n₀ W s (m s).2 ∧ ∀ a, (m s).1 = .ok a → Q a

variable {α β : Type} {n₀ : Nat} {W : Nat → Prop}

theorem Safe.pure {a : α} {Q : α → Prop} (h : Q a) : Safe n₀ W (pure a : M α) Q := by
  intro s hs
  exact ⟨Post.refl hs, fun b hb => by cases hb; exact h⟩

theorem Safe.throwE {Q : α → Prop} (e : Exn) : Safe n₀ W (throwE e : M α) Q := by
  intro s hs
  exact ⟨Post.refl hs, fun b hb => by cases hb⟩

theorem Safe.throwPy {Q : α → Prop} (e : Err) : Safe n₀ W (throwPy e : M α) Q :=
  Safe.throwE _

theorem Safe.bind {m : M α} {f : α → M β} {Q : α → Prop} {R : β → Prop}
    (hm : Safe n₀ W m Q) (hf : ∀ a, Q a → Safe n₀ W (f a) R) : Safe n₀ W (m >>= f) R := by
  intro s hs
  obtain ⟨hp, hq⟩ := hm s hs
  rw [run_bind]
  match hms : m s with
  | (.ok a, s') =>
    rw [hms] at hp hq
    simp only
    obtain ⟨hp', hq'⟩ := hf a (hq a rfl) s' hp.le₀
    exact ⟨hp.trans hp', hq'⟩
  | (.error e, s') =>
    rw [hms] at hp
    simp only
    exact ⟨hp, fun b hb => by cases hb⟩

theorem Safe.mono {m : M α} {Q Q' : α → Prop} (h : Safe n₀ W m Q) (hQ : ∀ a, Q a → Q' a) :
    Safe n₀ W m Q' := by
  intro s hs
  obtain ⟨hp, hq⟩ := h s hs
  exact ⟨hp, fun a ha => hQ a (hq a ha)⟩

theorem Safe.weaken {W' : Nat → Prop} {m : M α} {Q : α → Prop} (h : Safe n₀ W m Q)
    (hW : ∀ i, W i → W' i) : Safe n₀ W' m Q := by
  intro s hs
  obtain ⟨hp, hq⟩ := h s hs
  exact ⟨hp.weaken hW, hq⟩

theorem Safe.true {m : M α} {Q : α → Prop} (h : Safe n₀ W m Q) : Safe n₀ W m (fun _ => True) :=
  h.mono (fun _ _ => trivial)

/-- `do m; k` when the result of `m` is not needed. -/
theorem Safe.seq {m : M α} {k : M β} {Q : α → Prop} {R : β → Prop}
    (hm : Safe n₀ W m Q) (hk : Safe n₀ W k R) : Safe n₀ W (m >>= fun _ => k) R :=
  hm.bind (fun _ _ => hk)

theorem Safe.ite {c : Prop} [Decidable c] {m₁ m₂ : M α} {Q : α → Prop}
    (h₁ : c → Safe n₀ W m₁ Q) (h₂ : ¬ c → Safe n₀ W m₂ Q) :
    Safe n₀ W (if c then m₁ else m₂) Q := by
  split
  · exact h₁ ‹_›
  · exact h₂ ‹_›

/-! ## Primitives -/

theorem Safe.getHeap : Safe n₀ W getHeap (fun _ => True) := by
  intro s hs; exact ⟨Post.refl hs, fun _ _ => trivial⟩

theorem Safe.getMS : Safe n₀ W getMS (fun _ => True) := by
  intro s hs; exact ⟨Post.refl hs, fun _ _ => trivial⟩

theorem Safe.getNode (i : Nat) : Safe n₀ W (getNode i) (fun _ => True) := by
  intro s hs
  unfold SpecVerif.Heap.getNode
  split <;> exact ⟨Post.refl hs, fun _ _ => trivial⟩

theorem Safe.tick : Safe n₀ W tick (fun _ => True) := by
  intro s hs
  unfold SpecVerif.Heap.tick
  split
  · exact ⟨Post.refl hs, fun _ _ => trivial⟩
  · exact ⟨⟨hs, Nat.le_refl _, fun _ _ _ => rfl, ⟨[], by simp⟩, rfl, fun _ => rfl⟩,
      fun _ h => by cases h⟩
  · rename_i k hk
    exact ⟨⟨hs, Nat.le_refl _, fun _ _ _ => rfl, ⟨[], by simp⟩, rfl,
      fun hb => by rw [hk] at hb; cases hb⟩, fun _ _ => trivial⟩

theorem Safe.allocRaw (n : Node) : Safe n₀ W (allocRaw n) (fun j => n₀ ≤ j) := by
  intro s hs
  refine ⟨⟨?_, ?_, ?_, ⟨[.alloc s.heap.length], rfl, ?_⟩, rfl, id⟩, ?_⟩
  · simp [SpecVerif.Heap.allocRaw]; omega
  · simp [SpecVerif.Heap.allocRaw]
  · intro i hi _
    have : i < s.heap.length := Nat.lt_of_lt_of_le hi hs
    simp [SpecVerif.Heap.allocRaw, List.getElem?_append_left this]
  · intro i hi; simp at hi
  · intro a ha
    simp [SpecVerif.Heap.allocRaw] at ha
    omega

theorem Safe.writeRaw {i : Nat} (n : Node) (hi : W i ∨ n₀ ≤ i) :
    Safe n₀ W (writeRaw i n) (fun _ => True) := by
  intro s hs
  refine ⟨⟨?_, ?_, ?_, ⟨[.write i], rfl, ?_⟩, rfl, id⟩, fun _ _ => trivial⟩
  · simp [SpecVerif.Heap.writeRaw]; exact hs
  · simp [SpecVerif.Heap.writeRaw]
  · intro j hj hw
    have hne : i ≠ j := by
      rintro rfl
      rcases hi with h | h
      · exact hw h
      · omega
    simp [SpecVerif.Heap.writeRaw, List.getElem?_set_ne hne]
  · intro j hj
    simp at hj
    cases hj
    exact hi

/-- Allocation: the new identity is fresh. -/
theorem Safe.alloc (n : Node) : Safe n₀ W (alloc n) (fun j => n₀ ≤ j) := by
  unfold SpecVerif.Heap.alloc
  exact Safe.tick.bind (fun _ _ => Safe.allocRaw n)

/-- A write is safe when its target is writable. -/
theorem Safe.write {i : Nat} (n : Node) (hi : W i ∨ n₀ ≤ i) :
    Safe n₀ W (write i n) (fun _ => True) := by
  unfold SpecVerif.Heap.write
  exact Safe.tick.bind (fun _ _ => Safe.writeRaw n hi)

theorem Safe.callCb (k : CbKind) : Safe n₀ W (callCb k) (fun _ => True) := by
  intro s hs
  unfold SpecVerif.Heap.callCb
  have hp : Post n₀ W s { s with trace := .call k (countCalls k s.trace + 1) :: s.trace } :=
    ⟨hs, Nat.le_refl _, fun _ _ _ => rfl,
      ⟨[.call k (countCalls k s.trace + 1)], rfl, fun i hi => by simp at hi⟩, rfl, id⟩
  simp only
  split <;> exact ⟨hp, fun _ _ => trivial⟩

theorem Safe.tryFinally {m : M α} {fin : M Unit} {Q : α → Prop} {R : Unit → Prop}
    (hm : Safe n₀ W m Q) (hf : Safe n₀ W fin R) : Safe n₀ W (tryFinally m fin) Q := by
  intro s hs
  obtain ⟨hp, hq⟩ := hm s hs
  unfold SpecVerif.Heap.tryFinally
  match hms : m s with
  | (.ok a, s') =>
    rw [hms] at hp hq
    obtain ⟨hp', _⟩ := hf s' hp.le₀
    simp only
    match hfs : fin s' with
    | (.ok _, s'') =>
      rw [hfs] at hp'
      exact ⟨hp.trans hp', fun b hb => by cases hb; exact hq a rfl⟩
    | (.error e, s'') =>
      rw [hfs] at hp'
      exact ⟨hp.trans hp', fun b hb => by cases hb⟩
  | (.error e, s') =>
    rw [hms] at hp
    obtain ⟨hp', _⟩ := hf s' hp.le₀
    simp only
    match hfs : fin s' with
    | (.ok _, s'') =>
      rw [hfs] at hp'
      exact ⟨hp.trans hp', fun b hb => by cases hb⟩
    | (.error e', s'') =>
      rw [hfs] at hp'
      exact ⟨hp.trans hp', fun b hb => by cases hb⟩

theorem Safe.tryCatch {m h : M α} {sel : Exn → Bool} {Q : α → Prop}
    (hm : Safe n₀ W m Q) (hh : Safe n₀ W h Q) : Safe n₀ W (tryCatch m sel h) Q := by
  intro s hs
  obtain ⟨hp, hq⟩ := hm s hs
  unfold SpecVerif.Heap.tryCatch
  match hms : m s with
  | (.ok a, s') =>
    rw [hms] at hp hq
    exact ⟨hp, hq⟩
  | (.error e, s') =>
    rw [hms] at hp
    simp only
    split
    · obtain ⟨hp', hq'⟩ := hh s' hp.le₀
      exact ⟨hp.trans hp', hq'⟩
    · exact ⟨hp, fun b hb => by cases hb⟩

theorem Safe.onError {m : M α} {h : M Unit} {Q : α → Prop} {R : Unit → Prop}
    (hm : Safe n₀ W m Q) (hh : Safe n₀ W h R) : Safe n₀ W (onError m h) Q := by
  intro s hs
  obtain ⟨hp, hq⟩ := hm s hs
  unfold SpecVerif.Heap.onError
  match hms : m s with
  | (.ok a, s') =>
    rw [hms] at hp hq
    exact ⟨hp, hq⟩
  | (.error e, s') =>
    rw [hms] at hp
    obtain ⟨hp', _⟩ := hh s' hp.le₀
    simp only
    match hhs : h s' with
    | (.ok _, s'') =>
      rw [hhs] at hp'
      exact ⟨hp.trans hp', fun b hb => by cases hb⟩
    | (.error e', s'') =>
      rw [hhs] at hp'
      exact ⟨hp.trans hp', fun b hb => by cases hb⟩

end SpecVerif.Heap

namespace SpecVerif.Heap
open SpecVerif.Py

variable {α β : Type} {n₀ : Nat} {W : Nat → Prop}

/-! ## References: fresh / writable -/

/-- The object (if any) was allocated after the boundary. -/
def FreshRef (n₀ : Nat) (r : Ref) : Prop := ∀ j, r = .obj j → n₀ ≤ j
/-- The object (if any) may be written. -/
def Writable (n₀ : Nat) (W : Nat → Prop) (r : Ref) : Prop := ∀ j, r = .obj j → W j ∨ n₀ ≤ j

theorem FreshRef.writable {r : Ref} (h : FreshRef n₀ r) : Writable n₀ W r :=
  fun j hj => Or.inr (h j hj)
theorem freshRef_sc (s : Sc) : FreshRef n₀ (.sc s) := fun _ h => by cases h
theorem writable_sc (s : Sc) : Writable n₀ W (.sc s) := fun _ h => by cases h
theorem freshRef_obj {j : Nat} (h : n₀ ≤ j) : FreshRef n₀ (.obj j) := fun _ h' => by cases h'; exact h
theorem writable_obj {j : Nat} (h : W j ∨ n₀ ≤ j) : Writable n₀ W (.obj j) :=
  fun _ h' => by cases h'; exact h

/-! ## Callbacks -/

theorem applyCb_safe (cb : Cb) (v : Ref) :
    Safe n₀ W (applyCb cb v) (fun r => r = v ∨ FreshRef n₀ r) := by
  unfold applyCb
  cases cb with
  | ident => exact Safe.pure (Or.inl rfl)
  | const s => exact Safe.pure (Or.inr (freshRef_sc s))
  | inc =>
    cases v with
    | sc s => cases s <;> first | exact Safe.throwPy _ | exact Safe.pure (Or.inr (freshRef_sc _))
    | obj i => exact Safe.throwPy _
  | absInt =>
    cases v with
    | sc s => cases s <;> first | exact Safe.pure (Or.inl rfl) | exact Safe.pure (Or.inr (freshRef_sc _))
    | obj i => exact Safe.pure (Or.inl rfl)
  | append e =>
    cases v with
    | sc s => exact Safe.throwPy _
    | obj i =>
      refine (Safe.getNode i).bind (fun node _ => ?_)
      cases node with
      | list xs => exact (Safe.alloc _).bind (fun j hj => Safe.pure (Or.inr (freshRef_obj hj)))
      | dict _ => exact Safe.throwPy _
      | set _ => exact Safe.throwPy _
      | inst _ _ _ => exact Safe.throwPy _
  | rebuild =>
    cases v with
    | sc s => exact Safe.throwPy _
    | obj i =>
      refine (Safe.getNode i).bind (fun node _ => ?_)
      cases node with
      | list xs => exact (Safe.alloc _).bind (fun j hj => Safe.pure (Or.inr (freshRef_obj hj)))
      | dict _ => exact Safe.throwPy _
      | set _ => exact Safe.throwPy _
      | inst _ _ _ => exact Safe.throwPy _

theorem invoke_safe (k : CbKind) (cb : Cb) (v : Ref) :
    Safe n₀ W (invoke k cb v) (fun r => r = v ∨ FreshRef n₀ r) := by
  unfold invoke
  exact (Safe.callCb k).bind (fun _ _ => applyCb_safe cb v)

/-- A callback keeps writability: its result is its argument, a scalar or a new object. -/
theorem invoke_writable (k : CbKind) (cb : Cb) {v : Ref} (hv : Writable n₀ W v) :
    Safe n₀ W (invoke k cb v) (Writable n₀ W) :=
  (invoke_safe k cb v).mono (fun r hr => by
    rcases hr with rfl | h
    · exact hv
    · exact h.writable)

end SpecVerif.Heap

namespace SpecVerif.Heap
open SpecVerif.Py

variable {α β : Type} {n₀ : Nat} {W : Nat → Prop}

/-! ## deepcopy -/

/-- No class of the table is declared `do_not_copy=True`. -/
def NoClassDnc (X : Ctx) : Prop := ∀ c, (X.cd c).dnc = false

theorem dncValue?_none (hX : NoClassDnc X) (h : Heap) (self : Ref) (a : Nat) :
    dncValue? X h self a = none := by
  unfold dncValue?
  split
  · split
    · split
      · split
        · simp [hX _]
        · rfl
      · rfl
    · rfl
  · rfl

/-- Without class-level `do_not_copy` the guard of 6848228 is the identity. -/
theorem uncopiedGuard_noDnc {α} (hX : NoClassDnc X) (self : Ref) (a : Nat) (body : M α) :
    uncopiedGuard X self a body = body := by
  funext s
  simp [uncopiedGuard, getHeap, bind, M.bind', dncValue?_none hX]

theorem updateAttr_eq_core (hX : NoClassDnc X) (self : Ref) (a : Nat) (v : Ref)
    (kw : List (Nat × Ref)) (ip : Bool) :
    updateAttr X self a v kw ip = updateAttrCore X self a v kw ip := by
  unfold updateAttr; exact uncopiedGuard_noDnc hX _ _ _

theorem transformAttr_eq_core (hX : NoClassDnc X) (self : Ref) (a : Nat) (f : Option Cb)
    (kwf : List (Nat × Cb)) (ip : Bool) :
    transformAttr X self a f kwf ip = transformAttrCore X self a f kwf ip := by
  unfold transformAttr; exact uncopiedGuard_noDnc hX _ _ _

/-- Every copy registered in the memo was allocated after the boundary. -/
def MemoFresh (n₀ : Nat) (m : Memo) : Prop := ∀ i j, alGet i m = some j → n₀ ≤ j

theorem memoFresh_nil : MemoFresh n₀ [] := fun _ _ h => by simp [alGet] at h

theorem MemoFresh.cons {m : Memo} (h : MemoFresh n₀ m) (i : Nat) {j : Nat} (hj : n₀ ≤ j) :
    MemoFresh n₀ ((i, j) :: m) := by
  intro i' j' h'
  simp only [alGet] at h'
  split at h'
  · cases h'; exact hj
  · exact h i' j' h'

/-- What `copyRef` guarantees about (copy, memo). -/
def CopyPost (n₀ : Nat) (p : Ref × Memo) : Prop := FreshRef n₀ p.1 ∧ MemoFresh n₀ p.2

theorem copyList_safe (f : Ref → Memo → M (Ref × Memo))
    (hf : ∀ r m, MemoFresh n₀ m → Safe n₀ W (f r m) (CopyPost n₀)) :
    ∀ rs m, MemoFresh n₀ m → Safe n₀ W (copyList f rs m) (fun p => MemoFresh n₀ p.2) := by
  intro rs
  induction rs with
  | nil => intro m hm; exact Safe.pure hm
  | cons r rs ih =>
    intro m hm
    unfold copyList
    refine (hf r m hm).bind (fun p hp => ?_)
    obtain ⟨r', m1⟩ := p
    refine (ih m1 hp.2).bind (fun q hq => ?_)
    obtain ⟨rs', m2⟩ := q
    exact Safe.pure hq

theorem copyKVs_safe (f : Ref → Memo → M (Ref × Memo))
    (hf : ∀ r m, MemoFresh n₀ m → Safe n₀ W (f r m) (CopyPost n₀)) :
    ∀ rs m, MemoFresh n₀ m → Safe n₀ W (copyKVs f rs m) (fun p => MemoFresh n₀ p.2) := by
  intro rs
  induction rs with
  | nil => intro m hm; exact Safe.pure hm
  | cons kr rs ih =>
    intro m hm
    obtain ⟨k, r⟩ := kr
    unfold copyKVs
    refine (hf r m hm).bind (fun p hp => ?_)
    obtain ⟨r', m1⟩ := p
    refine (ih m1 hp.2).bind (fun q hq => ?_)
    obtain ⟨rs', m2⟩ := q
    exact Safe.pure hq

theorem copyFields_safe (f : Ref → Memo → M (Ref × Memo))
    (hf : ∀ r m, MemoFresh n₀ m → Safe n₀ W (f r m) (CopyPost n₀))
    (cd : ClassDecl) (j c : Nat) (thaw : Bool) (hj : n₀ ≤ j) :
    ∀ fs acc m, MemoFresh n₀ m →
      Safe n₀ W (copyFields f cd j c thaw acc fs m) (MemoFresh n₀) := by
  intro fs
  induction fs with
  | nil => intro acc m hm; exact Safe.pure hm
  | cons av fs ih =>
    intro acc m hm
    obtain ⟨a, v⟩ := av
    unfold copyFields
    simp only
    have hstep : Safe n₀ W
        (if (match cd.attr? a with | some d => d.dnc | none => false) = true
          then (pure (v, m) : M (Ref × Memo)) else f v m)
        (fun p => MemoFresh n₀ p.2) :=
      Safe.ite (fun _ => Safe.pure hm) (fun _ => (hf v m hm).mono (fun p hp => hp.2))
    refine hstep.bind (fun p hp => ?_)
    exact (Safe.write _ (Or.inr hj)).bind (fun _ _ => ih _ _ hp)

/-- `copy.deepcopy(r, memo)` allocates, writes only what it allocated, and (no
class-level `do_not_copy`) returns a new object. -/
theorem copyRef_safe (X : Ctx) (hX : NoClassDnc X) :
    ∀ fuel r m, MemoFresh n₀ m → Safe n₀ W (copyRef X fuel r m) (CopyPost n₀) := by
  intro fuel
  induction fuel with
  | zero =>
    intro r m hm
    cases r with
    | sc s => unfold copyRef; exact Safe.pure ⟨freshRef_sc s, hm⟩
    | obj i => unfold copyRef; exact Safe.throwPy _
  | succ fuel ih =>
    intro r m hm
    cases r with
    | sc s => unfold copyRef; exact Safe.pure ⟨freshRef_sc s, hm⟩
    | obj i =>
      unfold copyRef
      split
      · rename_i j hj
        exact Safe.pure ⟨freshRef_obj (hm i j hj), hm⟩
      · refine (Safe.getNode i).bind (fun node _ => ?_)
        cases node with
        | list xs =>
          refine (copyList_safe _ (ih) xs m hm).bind (fun p hp => ?_)
          obtain ⟨ys, m1⟩ := p
          exact (Safe.alloc _).bind (fun j hj =>
            Safe.pure ⟨freshRef_obj hj, MemoFresh.cons hp i hj⟩)
        | dict kvs =>
          refine (copyKVs_safe _ (ih) kvs m hm).bind (fun p hp => ?_)
          obtain ⟨ys, m1⟩ := p
          exact (Safe.alloc _).bind (fun j hj =>
            Safe.pure ⟨freshRef_obj hj, MemoFresh.cons hp i hj⟩)
        | set xs =>
          exact (Safe.alloc _).bind (fun j hj =>
            Safe.pure ⟨freshRef_obj hj, MemoFresh.cons hm i hj⟩)
        | inst c thaw fs =>
          simp only [hX c]
          refine (Safe.alloc _).bind (fun j hj => ?_)
          refine (copyFields_safe _ (ih) (X.cd c) j c false hj fs [] m hm).bind (fun m1 hm1 => ?_)
          have hpc : Safe n₀ W (if (X.cd c).postCopy = true then callCb .postCopy else pure ())
              (fun _ => True) :=
            Safe.ite (fun _ => Safe.callCb _) (fun _ => Safe.pure trivial)
          exact hpc.bind (fun _ _ => Safe.pure ⟨freshRef_obj hj, MemoFresh.cons hm1 i hj⟩)

theorem deepcopy_safe (X : Ctx) (hX : NoClassDnc X) (r : Ref) :
    Safe n₀ W (deepcopy X r) (FreshRef n₀) := by
  unfold deepcopy
  refine Safe.getHeap.bind (fun h _ => ?_)
  refine (copyRef_safe X hX _ r [] memoFresh_nil).bind (fun p hp => ?_)
  obtain ⟨r', m⟩ := p
  exact Safe.pure hp.1

theorem protect_safe (X : Ctx) (hX : NoClassDnc X) (r : Ref) :
    Safe n₀ W (protect X r) (FreshRef n₀) := by
  unfold protect
  cases r with
  | sc s => exact Safe.pure (freshRef_sc s)
  | obj i => exact deepcopy_safe X hX _

end SpecVerif.Heap

namespace SpecVerif.Heap
open SpecVerif.Py

variable {α β : Type} {n₀ : Nat} {W : Nat → Prop}

/-! ## Accessors, thaw window, rollback -/

theorem getInst_safe (r : Ref) :
    Safe n₀ W (getInst r) (fun p => r = .obj p.1) := by
  unfold getInst
  cases r with
  | sc s => exact Safe.throwPy _
  | obj i =>
    refine (Safe.getNode i).bind (fun node _ => ?_)
    cases node with
    | inst c t fs => exact Safe.pure rfl
    | list _ => exact Safe.throwPy _
    | dict _ => exact Safe.throwPy _
    | set _ => exact Safe.throwPy _

theorem getAttrD_safe (r : Ref) (a : Nat) : Safe n₀ W (getAttrD r a) (fun _ => True) := by
  unfold getAttrD
  cases r with
  | sc s => exact Safe.pure trivial
  | obj i =>
    refine (Safe.getNode i).bind (fun node _ => ?_)
    cases node <;> exact Safe.pure trivial

theorem rawSet_safe {r : Ref} (a : Nat) (v : Ref) (hr : Writable n₀ W r) :
    Safe n₀ W (rawSet r a v) (fun _ => True) := by
  unfold rawSet
  refine (getInst_safe r).bind (fun p hp => ?_)
  obtain ⟨i, c, t, fs⟩ := p
  exact Safe.write _ (hr i hp)

theorem setThaw_safe {i : Nat} (b : Bool) (hi : W i ∨ n₀ ≤ i) :
    Safe n₀ W (setThaw i b) (fun _ => True) := by
  unfold setThaw
  refine (Safe.getNode i).bind (fun node _ => ?_)
  cases node with
  | inst c t fs => exact Safe.write _ hi
  | list _ => exact Safe.pure trivial
  | dict _ => exact Safe.pure trivial
  | set _ => exact Safe.pure trivial

theorem thawed_safe (X : Ctx) {r : Ref} {body : M α} {Q : α → Prop}
    (hr : Writable n₀ W r) (hb : Safe n₀ W body Q) : Safe n₀ W (thawed X r body) Q := by
  unfold thawed
  cases r with
  | sc s => exact hb
  | obj i =>
    refine (Safe.getNode i).bind (fun node _ => ?_)
    cases node with
    | inst c t fs =>
      simp only
      refine Safe.ite (fun _ => ?_) (fun _ => hb)
      exact (setThaw_safe true (hr i rfl)).bind (fun _ _ =>
        Safe.tryFinally hb (setThaw_safe false (hr i rfl)))
    | list _ => exact hb
    | dict _ => exact hb
    | set _ => exact hb

theorem rollbackOnError_safe {r : Ref} {body : M α} {Q : α → Prop}
    (hr : Writable n₀ W r) (hb : Safe n₀ W body Q) : Safe n₀ W (rollbackOnError r body) Q := by
  unfold rollbackOnError
  cases r with
  | sc s => exact hb
  | obj i =>
    refine (Safe.getNode i).bind (fun node _ => ?_)
    cases node with
    | inst c t fs => exact Safe.onError hb (Safe.write _ (hr i rfl))
    | list _ => exact hb
    | dict _ => exact hb
    | set _ => exact hb

end SpecVerif.Heap
