import SpecVerif.Proofs.HeapFrame
/-!
# Atomicity logic for the heap model (helper lemmas of C04)

`Tri P m Q E` is a Hoare triple with an exceptional postcondition: from every
state satisfying `P`, a normal result `a` of `m` ends in a state satisfying
`Q a`, a raise ends in a state satisfying `E`.

C04 ("an operation that raises leaves every pre-existing object unchanged") is
`Tri (Start H) (runOp X op) (fun _ _ => True) (Inv H)`: started on heap `H`
without crash budget, a raise ends in a state whose objects `< H.length` are
those of `H` (`Inv H`).  The `Safe` judgement of `Proofs/Heap.lean` with the
empty write set embeds into `Tri (Inv H) · · (Inv H)` (`Safe.tri`), which
covers every validation step; what is proved here is the commit part of each
in-place operation:

* validate-then-commit (`mutateAttr … inplace := true`, `setAttr`, `delAttr`,
  the scalar helpers): the single write is the last step that could raise;
* rollback (`update` / `transform` / `reset` in place): the body writes the
  receiver only and the handler restores the saved node;
* element helpers in place: the single write targets a collection node, no
  instance is changed by it, and the final `mutate_attr` on the receiver cannot
  raise because its guards were already passed by `getCollection`.
-/
set_option linter.unusedSectionVars false
set_option linter.unusedVariables false
namespace SpecVerif.Heap
open SpecVerif.Py

variable {α β : Type}

/-! ## Running the primitives without a crash budget -/

theorem tick_run {s : MS} (hb : s.budget = none) : tick s = (.ok (), s) := by
  unfold tick
  rw [hb]

theorem write_run (i : Nat) (n : Node) {s : MS} (hb : s.budget = none) :
    write i n s = (.ok (), { s with heap := s.heap.set i n, trace := .write i :: s.trace }) := by
  unfold write
  rw [run_bind_ok (tick_run hb)]
  rfl

theorem getNode_run_some {i : Nat} {n : Node} {s : MS} (h : s.heap[i]? = some n) :
    getNode i s = (.ok n, s) := by
  unfold getNode
  rw [h]

theorem getNode_run_none {i : Nat} {s : MS} (h : s.heap[i]? = none) :
    getNode i s = (.error (.py .runtimeError), s) := by
  unfold getNode
  rw [h]

/-! ## Triples -/

def Tri (P : MS → Prop) (m : M α) (Q : α → MS → Prop) (E : MS → Prop) : Prop :=
  ∀ s, P s → (∀ a, (m s).1 = .ok a → Q a (m s).2) ∧ (∀ e, (m s).1 = .error e → E (m s).2)

theorem Tri.bind {P : MS → Prop} {m : M α} {f : α → M β} {Q : α → MS → Prop}
    {R : β → MS → Prop} {E : MS → Prop}
    (hm : Tri P m Q E) (hf : ∀ a, Tri (Q a) (f a) R E) : Tri P (m >>= f) R E := by
  intro s hs
  obtain ⟨hq, he⟩ := hm s hs
  rw [run_bind]
  match hms : m s with
  | (.ok a, s') =>
    rw [hms] at hq
    simp only
    exact hf a s' (hq a rfl)
  | (.error e, s') =>
    rw [hms] at he
    simp only
    exact ⟨fun a ha => (by cases ha), fun e' he' => by cases he'; exact he e rfl⟩

theorem Tri.conseq {P P' : MS → Prop} {m : M α} {Q Q' : α → MS → Prop} {E E' : MS → Prop}
    (h : Tri P m Q E) (hP : ∀ s, P' s → P s) (hQ : ∀ a s, Q a s → Q' a s)
    (hE : ∀ s, E s → E' s) : Tri P' m Q' E' := by
  intro s hs
  obtain ⟨hq, he⟩ := h s (hP s hs)
  exact ⟨fun a ha => hQ a _ (hq a ha), fun e h' => hE _ (he e h')⟩

theorem Tri.pre {P P' : MS → Prop} {m : M α} {Q : α → MS → Prop} {E : MS → Prop}
    (h : Tri P m Q E) (hP : ∀ s, P' s → P s) : Tri P' m Q E :=
  h.conseq hP (fun _ _ h => h) (fun _ h => h)

theorem Tri.post {P : MS → Prop} {m : M α} {Q Q' : α → MS → Prop} {E : MS → Prop}
    (h : Tri P m Q E) (hQ : ∀ a s, Q a s → Q' a s) : Tri P m Q' E :=
  h.conseq (fun _ h => h) hQ (fun _ h => h)

theorem Tri.false_pre {m : M α} {Q : α → MS → Prop} {E : MS → Prop} :
    Tri (fun _ => False) m Q E := fun _ h => h.elim

theorem Tri.pure {P : MS → Prop} {a : α} {Q : α → MS → Prop} {E : MS → Prop}
    (h : ∀ s, P s → Q a s) : Tri P (pure a : M α) Q E := by
  intro s hs
  exact ⟨fun b hb => (by cases hb; exact h s hs), fun e he => by cases he⟩

theorem Tri.throwPy {P : MS → Prop} {Q : α → MS → Prop} {E : MS → Prop} (e : Err)
    (h : ∀ s, P s → E s) : Tri P (throwPy e : M α) Q E := by
  intro s hs
  exact ⟨fun b hb => (by cases hb), fun e he => h s hs⟩

theorem Tri.ite {c : Prop} [Decidable c] {P : MS → Prop} {m₁ m₂ : M α} {Q : α → MS → Prop}
    {E : MS → Prop} (h₁ : c → Tri P m₁ Q E) (h₂ : ¬ c → Tri P m₂ Q E) :
    Tri P (if c then m₁ else m₂) Q E := by
  split
  · exact h₁ ‹_›
  · exact h₂ ‹_›

theorem Tri.getHeap {P : MS → Prop} {Q : Heap → MS → Prop} {E : MS → Prop}
    (h : ∀ s, P s → Q s.heap s) : Tri P getHeap Q E := by
  intro s hs
  exact ⟨fun b hb => (by cases hb; exact h s hs), fun e he => by cases he⟩

theorem Tri.getNode {P : MS → Prop} {Q : Node → MS → Prop} {E : MS → Prop} (i : Nat)
    (hok : ∀ s n, P s → s.heap[i]? = some n → Q n s)
    (herr : ∀ s, P s → s.heap[i]? = none → E s) : Tri P (getNode i) Q E := by
  intro s hs
  cases hn : s.heap[i]? with
  | some n =>
    rw [getNode_run_some hn]
    exact ⟨fun a ha => (by cases ha; exact hok s n hs hn), fun e he => by cases he⟩
  | none =>
    rw [getNode_run_none hn]
    exact ⟨fun a ha => (by cases ha), fun e he => herr s hs hn⟩

/-- `guardM`: passes exactly when the condition is false; no state change. -/
theorem Tri.guardM {P : MS → Prop} {Q : Unit → MS → Prop} {E : MS → Prop} (c : Bool) (e : Err)
    (hok : ∀ s, P s → c = false → Q () s) (herr : ∀ s, P s → c = true → E s) :
    Tri P (guardM c e) Q E := by
  unfold SpecVerif.Heap.guardM
  exact Tri.ite (fun hc => Tri.throwPy _ (fun s hs => herr s hs hc))
    (fun hc => Tri.pure (fun s hs => hok s hs (by simpa using hc)))

/-- A write cannot raise without a crash budget. -/
theorem Tri.write {P : MS → Prop} {Q : Unit → MS → Prop} {E : MS → Prop} (i : Nat) (n : Node)
    (hb : ∀ s, P s → s.budget = none)
    (h : ∀ s, P s → Q () { s with heap := s.heap.set i n, trace := .write i :: s.trace }) :
    Tri P (write i n) Q E := by
  intro s hs
  rw [write_run i n (hb s hs)]
  exact ⟨fun a ha => h s hs, fun e he => by cases he⟩

theorem Tri.getInst {P : MS → Prop} {Q : Nat × Nat × Bool × List (Nat × Ref) → MS → Prop}
    {E : MS → Prop} (r : Ref)
    (hok : ∀ s i c t fs, P s → r = .obj i → s.heap[i]? = some (.inst c t fs) → Q (i, c, t, fs) s)
    (herr : ∀ s, P s → (∀ i c t fs, r = .obj i → s.heap[i]? ≠ some (.inst c t fs)) → E s) :
    Tri P (getInst r) Q E := by
  unfold SpecVerif.Heap.getInst
  cases r with
  | sc sc => exact Tri.throwPy _ (fun s hs => herr s hs (fun i c t fs h => by cases h))
  | obj i =>
    refine Tri.bind (Q := fun n s => P s ∧ s.heap[i]? = some n)
      (Tri.getNode i (fun s n hs hn => ⟨hs, hn⟩) (fun s hs hn => herr s hs (fun j c t fs hj => by
        cases hj; rw [hn]; exact fun h => by cases h))) (fun node => ?_)
    have hne : ∀ s, (P s ∧ s.heap[i]? = some node) → (∀ c t fs, node ≠ .inst c t fs) → E s :=
      fun s hs hn => herr s hs.1 (fun j c t fs hj => by
        cases hj; rw [hs.2]; intro h; cases h; exact hn _ _ _ rfl)
    cases node with
    | inst c t fs => exact Tri.pure (fun s hs => hok s i c t fs hs.1 rfl hs.2)
    | list _ => exact Tri.throwPy _ (fun s hs => hne s hs (fun _ _ _ h => by cases h))
    | dict _ => exact Tri.throwPy _ (fun s hs => hne s hs (fun _ _ _ h => by cases h))
    | set _ => exact Tri.throwPy _ (fun s hs => hne s hs (fun _ _ _ h => by cases h))

theorem Tri.getAttrD {P : MS → Prop} {E : MS → Prop} (r : Ref) (a : Nat) (hE : ∀ s, P s → E s) :
    Tri P (getAttrD r a) (fun _ => P) E := by
  unfold SpecVerif.Heap.getAttrD
  cases r with
  | sc sc => exact Tri.pure (fun s hs => hs)
  | obj i =>
    refine Tri.bind (Q := fun _ s => P s) (Tri.getNode i (fun s n hs _ => hs) (fun s hs _ => hE s hs))
      (fun node => ?_)
    cases node <;> exact Tri.pure (fun s hs => hs)

/-! ## The invariants: "objects of the start heap `H` are as in `H`" -/

/-- No crash budget, the heap extends `H` and agrees with it on every object of `H`. -/
structure Inv (H : Heap) (s : MS) : Prop where
  budget : s.budget = none
  len : H.length ≤ s.heap.length
  frame : ∀ i, i < H.length → s.heap[i]? = H[i]?

/-- The state at the start of the operation (up to the trace / fault plan). -/
structure Start (H : Heap) (s : MS) : Prop where
  budget : s.budget = none
  heap : s.heap = H

theorem Start.inv {H : Heap} {s : MS} (h : Start H s) : Inv H s :=
  ⟨h.budget, by rw [h.heap]; exact Nat.le_refl _, fun i _ => by rw [h.heap]⟩

/-- No crash budget and every instance of `H` is still the same instance node. -/
structure InvI (H : Heap) (s : MS) : Prop where
  budget : s.budget = none
  keep : ∀ (k c : Nat) (t : Bool) (fs : List (Nat × Ref)), H[k]? = some (Node.inst c t fs) → s.heap[k]? = some (Node.inst c t fs)

theorem lt_of_getElem?_eq_some {H : Heap} {k : Nat} {n : Node} (h : H[k]? = some n) :
    k < H.length := by
  apply Classical.byContradiction
  intro hk
  rw [List.getElem?_eq_none (by omega)] at h
  cases h

theorem Inv.invI {H : Heap} {s : MS} (h : Inv H s) : InvI H s :=
  ⟨h.budget, fun k c t fs hk => by rw [h.frame k (lt_of_getElem?_eq_some hk)]; exact hk⟩

/-- `Safe` with the empty write set keeps `Inv H`, whether it returns or raises. -/
theorem Safe.tri {H : Heap} {m : M α} {Q : α → Prop}
    (h : Safe H.length (fun _ => False) m Q) :
    Tri (Inv H) m (fun a s => Q a ∧ Inv H s) (Inv H) := by
  intro s hs
  obtain ⟨hp, hq⟩ := h s hs.len
  have hi : Inv H (m s).2 :=
    ⟨hp.budget hs.budget, hp.le₀, fun i hi => (hp.frame i hi id).trans (hs.frame i hi)⟩
  exact ⟨fun a ha => ⟨hq a ha, hi⟩, fun _ _ => hi⟩

/-- Sequencing after a validation step that writes nothing pre-existing. -/
theorem Tri.bind_safe {H : Heap} {m : M α} {f : α → M β} {Q : α → Prop} {R : β → MS → Prop}
    (hm : Safe H.length (fun _ => False) m Q)
    (hf : ∀ a, Q a → Tri (Inv H) (f a) R (Inv H)) : Tri (Inv H) (m >>= f) R (Inv H) :=
  Tri.bind (Safe.tri hm) (fun a s hs => hf a hs.1 s hs.2)

/-- `m` is atomic w.r.t. `H`: if it raises, the objects of `H` are unchanged. -/
abbrev Atomic (H : Heap) (m : M α) : Prop := Tri (Inv H) m (fun _ _ => True) (Inv H)

theorem Safe.atomic {H : Heap} {m : M α} {Q : α → Prop}
    (h : Safe H.length (fun _ => False) m Q) : Atomic H m :=
  (Safe.tri h).post (fun _ _ _ => trivial)

/-- A tail that cannot raise. -/
theorem Tri.pure_tail {P : MS → Prop} {a : α} {E : MS → Prop} :
    Tri P (Pure.pure a : M α) (fun _ _ => True) E := Tri.pure (fun _ _ => trivial)

/-- `m; pure b` is atomic when `m` is. -/
theorem Atomic.then_pure {H : Heap} {m : M α} {b : β} (h : Atomic H m) :
    Atomic H (m >>= fun _ => (Pure.pure b : M β)) :=
  Tri.bind h (fun _ => Tri.pure_tail)

/-! ## Validate, then commit: `mutate_attr` in place and what is built on it -/

section commit
variable {H : Heap} (X : Ctx) (hX : NoClassDnc X)
  (hM : ∀ W, MakeSafe H.length W X)
include hX hM

theorem rawSet_atomic (obj : Ref) (a : Nat) (v : Ref) : Atomic H (rawSet obj a v) := by
  unfold rawSet
  refine Tri.bind_safe (getInst_safe obj) (fun p _ => ?_)
  obtain ⟨i, c, t, fs⟩ := p
  exact Tri.write _ _ (fun s hs => hs.budget) (fun _ _ => trivial)

theorem mutateAttr_atomic (obj : Ref) (a : Nat) (v : Ref) (typeCheck force : Bool) :
    Atomic H (mutateAttr X obj a v true typeCheck force) := by
  unfold mutateAttr
  refine Tri.ite (fun _ => Tri.pure_tail) (fun _ => ?_)
  refine Tri.bind_safe (getInst_safe obj) (fun p _ => ?_)
  refine Tri.bind_safe (guardM_safe _ _) (fun _ _ => ?_)
  refine Tri.bind_safe Safe.getHeap (fun h _ => ?_)
  refine Tri.bind_safe (guardM_safe _ _) (fun _ _ => ?_)
  refine Tri.ite (fun hc => ?_) (fun _ => (rawSet_atomic X hX hM obj a v).then_pure)
  simp at hc

theorem setAttr_atomic (obj : Ref) (a : Nat) (v : Ref) (force : Bool) :
    Atomic H (setAttr X obj a v force) := by
  unfold setAttr
  refine Tri.bind_safe (getInst_safe obj) (fun p _ => ?_)
  have h1 : Safe H.length (fun _ => False)
      (match (X.cd p.2.1).attr? a with
        | some d => prepareAttrValue0 X d v
        | none => pure v) (fun _ => True) := by
    split
    · exact prepareAttrValue0_safe X (hM _) _ _
    · exact Safe.pure trivial
  refine Tri.bind_safe h1 (fun v' _ => ?_)
  exact (mutateAttr_atomic X hX hM obj a v' true force).then_pure

theorem delAttr_atomic (obj : Ref) (a : Nat) (force : Bool) :
    Atomic H (delAttr X obj a force) := by
  unfold delAttr
  refine Tri.bind_safe (getInst_safe obj) (fun p _ => ?_)
  refine Tri.bind_safe (guardM_safe _ _) (fun _ _ => ?_)
  have h1 : Safe H.length (fun _ => False)
      (match (X.cd p.2.1).attr? a with
        | some d => if (!force) = true then lookupDefaultFor X d p.2.1 else pure (.sc .missing)
        | none => pure (.sc .missing)) (fun _ => True) := by
    split
    · exact Safe.ite (fun _ => (lookupDefaultFor_safe X hX (hM _) _ _).true)
        (fun _ => Safe.pure trivial)
    · exact Safe.pure trivial
  refine Tri.bind_safe h1 (fun dflt _ => ?_)
  refine Tri.ite (fun _ => ?_) (fun _ => ?_)
  · refine Tri.bind_safe (getInst_safe obj) (fun q _ => ?_)
    exact Tri.ite (fun _ => Tri.write _ _ (fun s hs => hs.budget) (fun _ _ => trivial))
      (fun _ => Tri.throwPy _ (fun s hs => hs))
  · split
    · refine Tri.bind_safe (prepareAttrValue_safe X hX (hM _) _ _ _) (fun v _ => ?_)
      exact (mutateAttr_atomic X hX hM obj a v true true).then_pure
    · exact Tri.pure_tail

theorem withAttr_atomic (self : Ref) (a : Nat) (v : Ref) (kw : List (Nat × Ref)) :
    Atomic H (withAttr X self a v kw true) := by
  unfold withAttr
  refine Tri.bind_safe (getInst_safe self) (fun p _ => ?_)
  split
  · exact Tri.throwPy _ (fun s hs => hs)
  · refine Tri.bind_safe (prepareAttrValue_safe X hX (hM _) _ _ _) (fun v' _ => ?_)
    exact mutateAttr_atomic X hX hM self a v' true false

theorem updateAttr_atomic (self : Ref) (a : Nat) (v : Ref) (kw : List (Nat × Ref)) :
    Atomic H (updateAttr X self a v kw true) := by
  rw [updateAttr_eq_core hX]; unfold updateAttrCore
  refine Tri.bind_safe (getInst_safe self) (fun p _ => ?_)
  split
  · exact Tri.throwPy _ (fun s hs => hs)
  · refine Tri.bind_safe (getAttrD_safe _ _) (fun old _ => ?_)
    refine Tri.bind_safe (mutateValue_safe X hX (hM _) _ (fun h => by simp at h)) (fun v1 _ => ?_)
    refine Tri.bind_safe (protectIfUnchanged_safe X hX _ _ _ _ _) (fun v2 _ => ?_)
    exact withAttr_atomic X hX hM self a v2 []

theorem transformAttr_atomic (self : Ref) (a : Nat) (f : Option Cb) (kwf : List (Nat × Cb)) :
    Atomic H (transformAttr X self a f kwf true) := by
  rw [transformAttr_eq_core hX]; unfold transformAttrCore
  refine Tri.bind_safe (getInst_safe self) (fun p _ => ?_)
  split
  · exact Tri.throwPy _ (fun s hs => hs)
  · refine Tri.bind_safe (getAttrD_safe _ _) (fun old _ => ?_)
    refine Tri.bind_safe (mutateValue_safe X hX (hM _) _ (fun h => by simp at h)) (fun v1 _ => ?_)
    refine Tri.bind_safe (protectIfUnchanged_safe X hX _ _ _ _ _) (fun v2 _ => ?_)
    exact withAttr_atomic X hX hM self a v2 []

theorem resetAttr_atomic (self : Ref) (a : Nat) : Atomic H (resetAttr X self a true) := by
  unfold resetAttr
  refine Tri.ite (fun hc => by simp at hc) (fun _ => ?_)
  exact (delAttr_atomic X hX hM self a false).then_pure

end commit

/-! ## Rollback: `update` / `transform` / `reset` in place -/

/-- `getInst r` fails in every state that agrees with `H`. -/
def DeadRef (H : Heap) (r : Ref) : Prop :=
  ∀ i, r = .obj i → i < H.length ∧ ∀ c t fs, H[i]? ≠ some (Node.inst c t fs)

theorem Tri.pre_pure {A : Prop} {P : MS → Prop} {m : M α} {Q : α → MS → Prop} {E : MS → Prop}
    (h : A → Tri P m Q E) : Tri (fun s => A ∧ P s) m Q E :=
  fun s hs => h hs.1 s hs.2

section rollback
variable {H : Heap} (X : Ctx) (hX : NoClassDnc X)
  (hM : ∀ W, MakeSafe H.length W X)
include hX hM

omit hX hM in
theorem getInst_dead {r : Ref} (hd : DeadRef H r) :
    Tri (Inv H) (getInst r) (fun _ _ => False) (Inv H) :=
  Tri.getInst r (fun s i c t fs hs hr hn => by
    obtain ⟨hi, hne⟩ := hd i hr
    rw [hs.frame i hi] at hn
    exact hne c t fs hn) (fun s hs _ => hs)

omit hX hM in
theorem setAttr_dead {r : Ref} (hd : DeadRef H r) (a : Nat) (v : Ref) (force : Bool) :
    Tri (Inv H) (setAttr X r a v force) (fun _ => Inv H) (Inv H) := by
  unfold setAttr
  exact Tri.bind (getInst_dead hd) (fun _ => Tri.false_pre)

omit hX hM in
theorem setAttrs_dead {r : Ref} (hd : DeadRef H r) :
    ∀ kw, Tri (Inv H) (setAttrs X r kw) (fun _ => Inv H) (Inv H) := by
  intro kw
  induction kw with
  | nil => exact Tri.pure (fun s hs => hs)
  | cons av rest ih =>
    obtain ⟨a, v⟩ := av
    unfold setAttrs
    refine Tri.bind (Q := fun _ => Inv H) ?_ (fun _ => ih)
    exact Tri.ite (fun _ => setAttr_dead X hd a v false) (fun _ => Tri.pure (fun s hs => hs))

omit hX hM in
theorem applyAttrTransforms_dead {r : Ref} (hd : DeadRef H r) :
    ∀ kwf, Tri (Inv H) (applyAttrTransforms X r kwf) (fun _ => Inv H) (Inv H) := by
  intro kwf
  induction kwf with
  | nil => exact Tri.pure (fun s hs => hs)
  | cons af rest ih =>
    obtain ⟨a, f⟩ := af
    unfold applyAttrTransforms
    refine Tri.bind_safe (getAttrD_safe r a) (fun cur _ => ?_)
    refine Tri.bind_safe (invoke_safe _ _ _) (fun tv _ => ?_)
    refine Tri.bind (Q := fun _ => Inv H) ?_ (fun _ => ih)
    exact Tri.ite (fun _ => setAttr_dead X hd a tv false) (fun _ => Tri.pure (fun s hs => hs))

omit hX hM in
/-- `with _rollback_on_error(self): body`, started on `H`: if it raises, `H` is
restored -- the body writes the receiver only, the handler puts its node back. -/
theorem rollbackOnError_tri {self : Ref} {body : M α}
    (hsafe : ∀ i, self = .obj i → Safe H.length (fun k => k = i) body (fun _ => True))
    (hdead : DeadRef H self → Atomic H body) :
    Tri (Start H) (rollbackOnError self body) (fun _ _ => True) (Inv H) := by
  unfold rollbackOnError
  cases self with
  | sc sc => exact (hdead (fun i h => by cases h)).pre (fun s hs => hs.inv)
  | obj i =>
    refine Tri.bind (Q := fun n s => Start H s ∧ H[i]? = some n)
      (Tri.getNode i (fun s n hs hn => ⟨hs, by rw [← hs.heap]; exact hn⟩) (fun s hs _ => hs.inv))
      (fun node => ?_)
    have hdd : (∀ c t fs, node ≠ .inst c t fs) →
        Tri (fun s => Start H s ∧ H[i]? = some node) body (fun _ _ => True) (Inv H) := by
      intro hne s hs
      refine hdead (fun j hj => ?_) s hs.1.inv
      cases hj
      exact ⟨lt_of_getElem?_eq_some hs.2, fun c t fs h' => by
        rw [hs.2] at h'; cases h'; exact hne _ _ _ rfl⟩
    cases node with
    | inst c t fs =>
      show Tri _ (onError body (write i (.inst c t fs))) _ _
      intro s hs0
      obtain ⟨hs, hH⟩ := hs0
      have hi : i < H.length := lt_of_getElem?_eq_some hH
      obtain ⟨hp, _⟩ := hsafe i rfl s (by rw [hs.heap]; exact Nat.le_refl _)
      unfold onError
      match hb : body s with
      | (.ok a, s') =>
        simp only
        exact ⟨fun _ _ => trivial, fun e he => by cases he⟩
      | (.error e, s₁) =>
        rw [hb] at hp
        have hb1 : s₁.budget = none := hp.budget hs.budget
        simp only [write_run i _ hb1]
        refine ⟨fun a ha => (by cases ha), fun e' _ => ⟨hb1, ?_, ?_⟩⟩
        · simp only [List.length_set]; exact hp.le₀
        · intro j hj
          by_cases hji : j = i
          · subst hji
            have hlt : j < s₁.heap.length := Nat.lt_of_lt_of_le hi hp.le₀
            simp only [List.getElem?_set_self hlt]
            exact hH.symm
          · simp only [List.getElem?_set_ne (Ne.symm hji)]
            rw [hp.frame j hj hji, hs.heap]
    | list _ => exact hdd (fun _ _ _ h => by cases h)
    | dict _ => exact hdd (fun _ _ _ h => by cases h)
    | set _ => exact hdd (fun _ _ _ h => by cases h)

theorem reset_tri (self : Ref) :
    Tri (Start H) (reset X self true) (fun _ _ => True) (Inv H) := by
  unfold reset
  refine Tri.bind
    (Q := fun p s => (self = .obj p.1 ∧ H[p.1]? = some (.inst p.2.1 p.2.2.1 p.2.2.2)) ∧ Start H s)
    (Tri.getInst self (fun s i c t fs hs hr hn => ⟨⟨hr, by rw [← hs.heap]; exact hn⟩, hs⟩)
      (fun s hs _ => hs.inv)) (fun p => ?_)
  refine Tri.ite (fun hc => by simp at hc) (fun _ => ?_)
  refine Tri.pre_pure (fun hp => ?_)
  refine Tri.bind (rollbackOnError_tri ?_ ?_) (fun _ => Tri.pure_tail)
  · intro i hi
    exact resetLoop_safe X hX (hM _) (fun j hj => Or.inl (by rw [hi] at hj; cases hj; rfl)) _
  · intro hd
    exact ((hd p.1 hp.1).2 _ _ _ hp.2).elim

end rollback

section toplevel
variable {H : Heap} (X : Ctx) (hX : NoClassDnc X)
  (hM : ∀ W, MakeSafe H.length W X)
include hX hM

omit hX hM in
theorem mvApply_none (v : Ref) : mvApply none v = pure v := rfl

omit hX hM in
/-- Without a constructor, steps 3/4 of `mutate_value` only read. -/
theorem mvConstruct_noctor {P : MS → Prop} {E : MS → Prop} (p : MV) (value : Ref)
    (hctor : p.ctor = none) :
    Tri P (mvConstruct X p value) (fun r s => r = (value, p.inplace, false) ∧ P s) E := by
  unfold mvConstruct dictAsCtorArgs
  rw [hctor]
  refine Tri.bind (Q := fun o s => o = none ∧ P s) ?_ (fun o => Tri.pre_pure (fun ho => ?_))
  · exact Tri.bind (Q := fun _ s => P s) (Tri.getHeap (fun s hs => hs))
      (fun h => Tri.pure (fun s hs => ⟨rfl, hs⟩))
  · subst ho
    simp only
    refine Tri.ite (fun _ => Tri.pure (fun s hs => ⟨rfl, hs⟩)) (fun _ => Tri.pure (fun s hs => ⟨rfl, hs⟩))

omit hX hM in
/-- The in-place guarded block of `mutate_value` steps 5 / 7. -/
theorem guarded_inplace_tri {self : Ref} {body : M α}
    (hsafe : ∀ i, self = .obj i → Safe H.length (fun k => k = i) body (fun _ => True))
    (hdead : DeadRef H self → Atomic H body) :
    Tri (Start H) (guarded X true self body) (fun _ _ => True) (Inv H) := by
  unfold guarded
  exact Tri.ite (fun _ => rollbackOnError_tri hsafe hdead) (fun hc => by simp at hc)

omit hX hM in
theorem writable_self {n₀ : Nat} {self : Ref} {i : Nat} (hi : self = .obj i) :
    Writable n₀ (fun k => k = i) self :=
  fun j hj => Or.inl (by rw [hi] at hj; cases hj; rfl)

/-- `mutate_value(self, attrs=kw, inplace=True)`: the body of `update`. -/
theorem mutateValue_update_tri (p : MV) (hnew : p.new = .sc .missing) (hrep : p.replace = false)
    (hctor : p.ctor = none) (htr : p.transform = none) (hat : p.attrTransforms = [])
    (hip : p.inplace = true) :
    Tri (Start H) (mutateValue X p) (fun _ _ => True) (Inv H) := by
  have hch : mvChoose p = (p.old, none) := by simp [mvChoose, hnew, hrep]
  unfold mutateValue
  rw [hch, htr]
  refine Tri.bind (Q := fun v s => v = p.old ∧ Start H s) (Tri.pure (fun s hs => ⟨rfl, hs⟩))
    (fun v1 => Tri.pre_pure (fun hv1 => ?_))
  refine Tri.bind ((mvConstruct_noctor X p v1 hctor).conseq (fun s hs => hs) (fun _ _ h => h)
    (fun s (hs : Start H s) => hs.inv)) (fun r2 => Tri.pre_pure (fun hr2 => ?_))
  subst hr2
  simp only [hip]
  -- step 5 with `safe = true`, `used = false`; what follows cannot raise
  refine Tri.bind (Q := fun _ _ => True) ?_ (fun r3 => ?_)
  · unfold mvAttrs
    refine Tri.ite (fun _ => ?_)
      (fun _ => Tri.ite (fun _ => Tri.throwPy _ (fun s hs => hs.inv)) (fun _ => Tri.pure_tail))
    refine Tri.bind (Q := fun v s => v = v1 ∧ Start H s)
      (Tri.ite (fun _ => Tri.pure (fun s hs => ⟨rfl, hs⟩)) (fun hc => by simp at hc))
      (fun v => Tri.pre_pure (fun hv => ?_))
    subst hv
    refine Tri.bind (Q := fun _ _ => True) ?_ (fun _ => Tri.pure_tail)
    rw [hip]
    exact guarded_inplace_tri X
      (fun i hi => setAttrs_safe X hX (hM _) (writable_self hi) _)
      (fun hd => (setAttrs_dead X hd _).post (fun _ _ _ => trivial))
  · refine Tri.bind (Q := fun _ _ => True) Tri.pure_tail (fun v4 => ?_)
    unfold mvAttrTransforms
    rw [hat]
    exact Tri.ite (fun hc => by simp at hc) (fun _ => Tri.pure_tail)

/-- `mutate_value(self, attr_transforms=kwf, inplace=True)`: the body of `transform`. -/
theorem mutateValue_transform_tri (p : MV) (hnew : p.new = .sc .missing) (hrep : p.replace = false)
    (hctor : p.ctor = none) (htr : p.transform = none) (hat : p.attrs = [])
    (hip : p.inplace = true) :
    Tri (Start H) (mutateValue X p) (fun _ _ => True) (Inv H) := by
  have hch : mvChoose p = (p.old, none) := by simp [mvChoose, hnew, hrep]
  unfold mutateValue
  rw [hch, htr]
  refine Tri.bind (Q := fun v s => v = p.old ∧ Start H s) (Tri.pure (fun s hs => ⟨rfl, hs⟩))
    (fun v1 => Tri.pre_pure (fun hv1 => ?_))
  refine Tri.bind ((mvConstruct_noctor X p v1 hctor).conseq (fun s hs => hs) (fun _ _ h => h)
    (fun s (hs : Start H s) => hs.inv)) (fun r2 => Tri.pre_pure (fun hr2 => ?_))
  subst hr2
  simp only [hip]
  -- step 5 does nothing (no keyword attributes)
  refine Tri.bind (Q := fun r3 s => r3 = (v1, true) ∧ Start H s) ?_
    (fun r3 => Tri.pre_pure (fun hr3 => ?_))
  · unfold mvAttrs
    rw [hat]
    refine Tri.ite (fun hc => by simp at hc)
      (fun _ => Tri.ite (fun hc => by simp at hc) (fun _ => Tri.pure (fun s hs => ⟨rfl, hs⟩)))
  · subst hr3
    refine Tri.bind (Q := fun v s => v = v1 ∧ Start H s) (Tri.pure (fun s hs => ⟨rfl, hs⟩))
      (fun v4 => Tri.pre_pure (fun hv4 => ?_))
    subst hv4
    unfold mvAttrTransforms
    refine Tri.ite (fun _ => ?_) (fun _ => Tri.pure_tail)
    refine Tri.bind (Q := fun v s => v = v4 ∧ Start H s)
      (Tri.ite (fun _ => Tri.pure (fun s hs => ⟨rfl, hs⟩)) (fun hc => by simp at hc))
      (fun v => Tri.pre_pure (fun hv => ?_))
    subst hv
    refine Tri.bind (Q := fun _ _ => True) ?_ (fun _ => Tri.pure_tail)
    rw [hip]
    exact guarded_inplace_tri X
      (fun i hi => applyAttrTransforms_safe X hX (hM _) (writable_self hi) _)
      (fun hd => (applyAttrTransforms_dead X hd _).post (fun _ _ _ => trivial))

theorem update_tri (self : Ref) (kw : List (Nat × Ref)) :
    Tri (Start H) (update X self kw true) (fun _ _ => True) (Inv H) := by
  unfold update
  exact mutateValue_update_tri X hX hM _ rfl rfl rfl rfl rfl rfl

theorem transform_tri (self : Ref) (kwf : List (Nat × Cb)) :
    Tri (Start H) (transform X self kwf true) (fun _ _ => True) (Inv H) := by
  unfold transform
  exact mutateValue_transform_tri X hX hM _ rfl rfl rfl rfl rfl rfl

end toplevel

/-! ## Element helpers in place -/

section elem
variable {H : Heap} (X : Ctx) (hX : NoClassDnc X)
  (hM : ∀ W, MakeSafe H.length W X)

/-- A write to a node that is not an instance keeps every instance of `H`. -/
theorem write_coll_tri {E : MS → Prop} (j : Nat) (n : Node) :
    Tri (fun s => Inv H s ∧ ∀ c t fs, s.heap[j]? ≠ some (Node.inst c t fs)) (write j n)
      (fun _ => InvI H) E := by
  refine Tri.write j n (fun s hs => hs.1.budget) (fun s hs => ⟨hs.1.budget, fun k c t fs hk => ?_⟩)
  have hk' : s.heap[k]? = some (.inst c t fs) := hs.1.invI.keep k c t fs hk
  have hne : j ≠ k := by
    rintro rfl
    exact hs.2 _ _ _ hk'
  simp only [List.getElem?_set_ne hne]
  exact hk'

theorem getList_tri {P : MS → Prop} {E : MS → Prop} (coll : Ref) (hE : ∀ s, P s → E s) :
    Tri P (getList coll) (fun p s => P s ∧ ∀ c t fs, s.heap[p.1]? ≠ some (Node.inst c t fs)) E := by
  unfold getList
  cases coll with
  | sc sc => exact Tri.throwPy _ hE
  | obj i =>
    refine Tri.bind (Q := fun n s => P s ∧ s.heap[i]? = some n)
      (Tri.getNode i (fun s n hs hn => ⟨hs, hn⟩) (fun s hs _ => hE s hs)) (fun node => ?_)
    cases node with
    | list xs => exact Tri.pure (fun s hs => ⟨hs.1, fun c t fs h => by rw [hs.2] at h; cases h⟩)
    | dict _ => exact Tri.throwPy _ (fun s hs => hE s hs.1)
    | set _ => exact Tri.throwPy _ (fun s hs => hE s hs.1)
    | inst _ _ _ => exact Tri.throwPy _ (fun s hs => hE s hs.1)

theorem getDict_tri {P : MS → Prop} {E : MS → Prop} (coll : Ref) (hE : ∀ s, P s → E s) :
    Tri P (getDict coll) (fun p s => P s ∧ ∀ c t fs, s.heap[p.1]? ≠ some (Node.inst c t fs)) E := by
  unfold getDict
  cases coll with
  | sc sc => exact Tri.throwPy _ hE
  | obj i =>
    refine Tri.bind (Q := fun n s => P s ∧ s.heap[i]? = some n)
      (Tri.getNode i (fun s n hs hn => ⟨hs, hn⟩) (fun s hs _ => hE s hs)) (fun node => ?_)
    cases node with
    | dict xs => exact Tri.pure (fun s hs => ⟨hs.1, fun c t fs h => by rw [hs.2] at h; cases h⟩)
    | list _ => exact Tri.throwPy _ (fun s hs => hE s hs.1)
    | set _ => exact Tri.throwPy _ (fun s hs => hE s hs.1)
    | inst _ _ _ => exact Tri.throwPy _ (fun s hs => hE s hs.1)

theorem getSet_tri {P : MS → Prop} {E : MS → Prop} (coll : Ref) (hE : ∀ s, P s → E s) :
    Tri P (getSet coll) (fun p s => P s ∧ ∀ c t fs, s.heap[p.1]? ≠ some (Node.inst c t fs)) E := by
  unfold getSet
  cases coll with
  | sc sc => exact Tri.throwPy _ hE
  | obj i =>
    refine Tri.bind (Q := fun n s => P s ∧ s.heap[i]? = some n)
      (Tri.getNode i (fun s n hs hn => ⟨hs, hn⟩) (fun s hs _ => hE s hs)) (fun node => ?_)
    cases node with
    | set xs => exact Tri.pure (fun s hs => ⟨hs.1, fun c t fs h => by rw [hs.2] at h; cases h⟩)
    | list _ => exact Tri.throwPy _ (fun s hs => hE s hs.1)
    | dict _ => exact Tri.throwPy _ (fun s hs => hE s hs.1)
    | inst _ _ _ => exact Tri.throwPy _ (fun s hs => hE s hs.1)

/-- What an in-place edit of a collection guarantees: a raise leaves `H` as it
was; a normal return leaves every instance of `H` as it was. -/
abbrev CollEdit (H : Heap) (m : M α) : Prop := Tri (Inv H) m (fun _ => InvI H) (Inv H)

theorem seqInsert_tri (ik : Kind) (coll : Ref) (idx : Option Ref) (item : Ref) (insert : Bool) :
    CollEdit H (seqInsert X ik coll idx item insert) := by
  unfold seqInsert
  refine Tri.bind_safe Safe.getHeap (fun h _ => ?_)
  refine Tri.bind_safe (guardM_safe _ _) (fun _ _ => ?_)
  refine Tri.bind (getList_tri coll (fun s hs => hs)) (fun p => ?_)
  split
  · exact write_coll_tri _ _
  · refine Tri.ite (fun _ => write_coll_tri _ _) (fun _ => ?_)
    split
    · exact write_coll_tri _ _
    · exact Tri.throwPy _ (fun s hs => hs.1)
  · exact Tri.throwPy _ (fun s hs => hs.1)

theorem mapInsert_tri (ik : Kind) (coll key item : Ref) :
    CollEdit H (mapInsert X ik coll key item) := by
  unfold mapInsert
  refine Tri.bind_safe Safe.getHeap (fun h _ => ?_)
  refine Tri.bind_safe (guardM_safe _ _) (fun _ _ => ?_)
  split
  · refine Tri.bind_safe (guardM_safe _ _) (fun _ _ => ?_)
    refine Tri.bind (getDict_tri coll (fun s hs => hs)) (fun p => ?_)
    exact write_coll_tri _ _
  · exact Tri.throwPy _ (fun s hs => hs)

theorem setInsert_tri (ik : Kind) (coll idx item : Ref) (replace : Bool) :
    CollEdit H (setInsert X ik coll idx item replace) := by
  unfold setInsert
  refine Tri.bind_safe Safe.getHeap (fun h _ => ?_)
  refine Tri.bind_safe (guardM_safe _ _) (fun _ _ => ?_)
  refine Tri.bind (getSet_tri coll (fun s hs => hs)) (fun p => ?_)
  split
  · exact write_coll_tri _ _
  · exact Tri.throwPy _ (fun s hs => hs.1)

include hX hM

theorem elemSeq_tri (d : AttrDecl) (coll : Ref) (op : ElemOp) :
    CollEdit H (elemSeq X d coll op) := by
  unfold elemSeq
  cases op with
  | rm key byIndex =>
    simp only
    refine Tri.bind_safe (seqExtract_safe _ _ _ _ _ _) (fun e _ => ?_)
    split
    · refine Tri.bind (getList_tri coll (fun s hs => hs)) (fun p => ?_)
      split
      · exact write_coll_tri _ _
      · exact Tri.throwPy _ (fun s hs => hs.1)
    · exact Tri.pure (fun s hs => hs.invI)
  | add item key insert attrs =>
    simp only
    refine Tri.bind_safe (seqExtract_safe _ _ _ _ _ _) (fun e _ => ?_)
    refine Tri.bind_safe (mutateValue_safe X hX (hM _) _ (fun h => by simp at h)) (fun v _ => ?_)
    exact seqInsert_tri X _ _ _ _ _
  | upd key item byIndex attrs =>
    simp only
    refine Tri.bind_safe (seqExtract_safe _ _ _ _ _ _) (fun e _ => ?_)
    refine Tri.bind_safe (mutateValue_safe X hX (hM _) _ (fun h => by simp at h)) (fun v _ => ?_)
    exact seqInsert_tri X _ _ _ _ _
  | tr key f byIndex kwf =>
    simp only
    refine Tri.bind_safe (seqExtract_safe _ _ _ _ _ _) (fun e _ => ?_)
    refine Tri.bind_safe (mutateValue_safe X hX (hM _) _ (fun h => by simp at h)) (fun v _ => ?_)
    exact seqInsert_tri X _ _ _ _ _

theorem elemMap_tri (d : AttrDecl) (coll : Ref) (op : ElemOp) :
    CollEdit H (elemMap X d coll op) := by
  unfold elemMap
  cases op with
  | rm key byIndex =>
    simp only
    refine Tri.bind_safe (mapExtract_safe _ _ _) (fun e _ => ?_)
    refine Tri.bind (getDict_tri coll (fun s hs => hs)) (fun p => ?_)
    split
    · exact write_coll_tri _ _
    · exact Tri.pure (fun s hs => hs.1.invI)
  | add item key insert attrs =>
    simp only
    refine Tri.bind_safe (mapExtract_safe _ _ _) (fun e _ => ?_)
    refine Tri.bind_safe (mutateValue_safe X hX (hM _) _ (fun h => by simp at h)) (fun v _ => ?_)
    exact mapInsert_tri X _ _ _ _
  | upd key item byIndex attrs =>
    simp only
    refine Tri.bind_safe (mapExtract_safe _ _ _) (fun e _ => ?_)
    refine Tri.bind_safe (mutateValue_safe X hX (hM _) _ (fun h => by simp at h)) (fun v _ => ?_)
    exact mapInsert_tri X _ _ _ _
  | tr key f byIndex kwf =>
    simp only
    refine Tri.bind_safe (mapExtract_safe _ _ _) (fun e _ => ?_)
    refine Tri.bind_safe (mutateValue_safe X hX (hM _) _ (fun h => by simp at h)) (fun v _ => ?_)
    exact mapInsert_tri X _ _ _ _

theorem elemSet_tri (d : AttrDecl) (coll : Ref) (op : ElemOp) :
    CollEdit H (elemSet X d coll op) := by
  unfold elemSet
  cases op with
  | rm key byIndex =>
    simp only
    refine Tri.bind_safe (setExtract_safe _ _ _) (fun e _ => ?_)
    refine Tri.bind (getSet_tri coll (fun s hs => hs)) (fun p => ?_)
    split
    · exact write_coll_tri _ _
    · exact Tri.pure (fun s hs => hs.1.invI)
  | add item key insert attrs =>
    simp only
    refine Tri.bind_safe (mutateValue_safe X hX (hM _) _ (fun h => by simp at h)) (fun v _ => ?_)
    exact setInsert_tri X _ _ _ _ _
  | upd key item byIndex attrs =>
    simp only
    refine Tri.bind_safe (setExtract_safe _ _ _) (fun e _ => ?_)
    refine Tri.bind_safe (mutateValue_safe X hX (hM _) _ (fun h => by simp at h)) (fun v _ => ?_)
    exact setInsert_tri X _ _ _ _ _
  | tr key f byIndex kwf =>
    simp only
    refine Tri.bind_safe (setExtract_safe _ _ _) (fun e _ => ?_)
    refine Tri.bind_safe (mutateValue_safe X hX (hM _) _ (fun h => by simp at h)) (fun v _ => ?_)
    exact setInsert_tri X _ _ _ _ _

theorem mutateCollection_tri (d : AttrDecl) (fam : Fam) (coll : Ref) (op : ElemOp) :
    CollEdit H (mutateCollection X d fam coll op) := by
  unfold mutateCollection
  have h1 : Safe H.length (fun _ => False) (ensureColl fam coll) (fun _ => True) := by
    unfold ensureColl
    exact Safe.ite (fun _ => (createColl_safe fam).true) (fun _ => Safe.pure trivial)
  refine Tri.bind_safe h1 (fun coll' _ => ?_)
  refine Tri.bind (Q := fun _ => InvI H) ?_ (fun _ => Tri.pure (fun s hs => hs))
  cases fam with
  | seq => exact elemSeq_tri X hX hM d coll' op
  | map => exact elemMap_tri X hX hM d coll' op
  | set => exact elemSet_tri X hX hM d coll' op

omit hX hM in
/-- The final `mutate_attr(self, attr, coll, inplace=True, type_check=False)` of
an element helper cannot raise once `getCollection` has passed the frozen guard
and the receiver's node is still the one it was. -/
theorem mutateAttr_noraise {E : MS → Prop} (i c : Nat) (t : Bool) (fs : List (Nat × Ref))
    (a : Nat) (v : Ref) (hH : H[i]? = some (.inst c t fs))
    (hg : ((X.cd c).frozen && !t) = false) :
    Tri (InvI H) (mutateAttr X (.obj i) a v true false false) (fun _ _ => True) E := by
  have hget : Tri (InvI H) (getInst (.obj i))
      (fun p s => (p.2.1 = c ∧ p.2.2.1 = t) ∧ InvI H s) E :=
    Tri.getInst _ (fun s j c' t' fs' hs hj hn => by
      cases hj
      rw [hs.keep i c t fs hH] at hn
      cases hn
      exact ⟨⟨rfl, rfl⟩, hs⟩) (fun s hs hn => (hn i c t fs rfl (hs.keep i c t fs hH)).elim)
  unfold mutateAttr
  refine Tri.ite (fun _ => Tri.pure_tail) (fun _ => ?_)
  refine Tri.bind hget (fun p => Tri.pre_pure (fun hp => ?_))
  obtain ⟨j, c', t', fs'⟩ := p
  obtain ⟨hc, ht⟩ := hp
  simp only at hc ht
  subst hc ht
  refine Tri.bind (Q := fun _ => InvI H) (Tri.guardM _ _ (fun s hs _ => hs) (fun s hs hc => ?_))
    (fun _ => ?_)
  · exfalso
    revert hg hc
    cases (X.cd c').frozen <;> cases t' <;> simp
  refine Tri.bind (Q := fun _ => InvI H) (Tri.getHeap (fun s hs => hs)) (fun h => ?_)
  refine Tri.bind (Q := fun _ => InvI H) (Tri.guardM _ _ (fun s hs _ => hs) (fun s hs hc => ?_))
    (fun _ => ?_)
  · exfalso
    revert hc
    split <;> simp
  refine Tri.ite (fun hc => by simp at hc) (fun _ => ?_)
  refine Tri.bind (Q := fun _ _ => True) ?_ (fun _ => Tri.pure_tail)
  unfold rawSet
  refine Tri.bind hget (fun p => ?_)
  exact Tri.write _ _ (fun s hs => hs.2.budget) (fun _ _ => trivial)

omit hX hM in
/-- `getCollection … inplace := true` only reads; when it returns, the receiver
is an instance of `H` that is not frozen (or is thawed). -/
theorem getCollection_tri (self : Ref) (a : Nat) :
    Tri (Start H) (getCollection X self a true)
      (fun _ s => (∃ i c t fs, self = .obj i ∧ H[i]? = some (Node.inst c t fs) ∧
          ((X.cd c).frozen && !t) = false) ∧ Start H s)
      (Inv H) := by
  unfold getCollection
  refine Tri.bind
    (Q := fun p s => (self = .obj p.1 ∧ H[p.1]? = some (.inst p.2.1 p.2.2.1 p.2.2.2)) ∧ Start H s)
    (Tri.getInst self (fun s i c t fs hs hr hn => ⟨⟨hr, by rw [← hs.heap]; exact hn⟩, hs⟩)
      (fun s hs _ => hs.inv)) (fun p => Tri.pre_pure (fun hp => ?_))
  refine Tri.bind (Q := fun _ s => (((X.cd p.2.1).frozen && !p.2.2.1) = false) ∧ Start H s)
    (Tri.guardM _ _ (fun s hs hc => ⟨by simpa using hc, hs⟩) (fun s hs _ => hs.inv))
    (fun _ => Tri.pre_pure (fun hg => ?_))
  refine Tri.bind (Tri.getAttrD self a (fun s (hs : Start H s) => hs.inv)) (fun coll => ?_)
  refine Tri.ite (fun hc => by simp at hc) (fun _ => Tri.pure (fun s hs => ⟨?_, hs⟩))
  exact ⟨p.1, p.2.1, p.2.2.1, p.2.2.2, hp.1, hp.2, hg⟩

/-- `with_/update_/transform_/without_<item>(…, _inplace=True)`. -/
theorem elemHelper_tri (self : Ref) (a : Nat) (op : ElemOp) :
    Tri (Start H) (elemHelper X self a op true) (fun _ _ => True) (Inv H) := by
  unfold elemHelper
  refine Tri.bind (Q := fun _ => Start H)
    (Tri.getInst self (fun s _ _ _ _ hs _ _ => hs) (fun s hs _ => hs.inv)) (fun p => ?_)
  split
  · exact Tri.throwPy _ (fun s hs => hs.inv)
  · split
    · exact Tri.throwPy _ (fun s hs => hs.inv)
    · refine Tri.bind (getCollection_tri X self a) (fun coll0 => Tri.pre_pure (fun hself => ?_))
      obtain ⟨i, c, t, fs, hi, hH, hg⟩ := hself
      subst hi
      refine Tri.bind ((mutateCollection_tri X hX hM _ _ coll0 op).pre (fun s hs => hs.inv))
        (fun coll1 => ?_)
      exact mutateAttr_noraise X i c t fs a coll1 hH hg

end elem

/-! ## Every in-place public operation -/

section publicOps
variable {H : Heap} (X : Ctx) (hX : NoClassDnc X)
  (hM : ∀ W, MakeSafe H.length W X)
include hX hM

/-- **Atomicity of the public operations**: started on heap `H` without crash
budget, an operation that raises ends in a state where every object of `H` is
what it was. -/
theorem runOp_tri (op : Op) : Tri (Start H) (runOp X op) (fun _ _ => True) (Inv H) := by
  by_cases hop : op.inplace = false
  · exact (Safe.atomic (runOp_safe X hX (hM _) op
      (fun hc => by rw [hop] at hc; cases hc))).pre (fun s hs => hs.inv)
  unfold runOp
  refine Tri.bind (Q := fun _ => Start H) (Tri.getHeap (fun s hs => hs)) (fun h => ?_)
  refine Tri.bind (Q := fun _ => Start H)
    (Tri.guardM _ _ (fun s hs _ => hs) (fun s hs _ => hs.inv)) (fun _ => ?_)
  have hI : ∀ {m : M Ref}, Atomic H m → Tri (Start H) m (fun _ _ => True) (Inv H) :=
    fun h => h.pre (fun s hs => hs.inv)
  cases op with
  | construct c kw => exact (hop rfl).elim
  | deepcopy r => exact (hop rfl).elim
  | setattr r a v => exact hI (setAttr_atomic X hX hM r a v false).then_pure
  | delattr r a => exact hI (delAttr_atomic X hX hM r a false).then_pure
  | withAttr r a v kw ip =>
    cases ip with
    | false => exact (hop rfl).elim
    | true => exact hI (withAttr_atomic X hX hM r a v kw)
  | updateAttr r a v kw ip =>
    cases ip with
    | false => exact (hop rfl).elim
    | true => exact hI (updateAttr_atomic X hX hM r a v kw)
  | transformAttr r a f kwf ip =>
    cases ip with
    | false => exact (hop rfl).elim
    | true => exact hI (transformAttr_atomic X hX hM r a f kwf)
  | resetAttr r a ip =>
    cases ip with
    | false => exact (hop rfl).elim
    | true => exact hI (resetAttr_atomic X hX hM r a)
  | elem r a eop ip =>
    cases ip with
    | false => exact (hop rfl).elim
    | true => exact elemHelper_tri X hX hM r a eop
  | update r kw ip =>
    cases ip with
    | false => exact (hop rfl).elim
    | true => exact update_tri X hX hM r kw
  | transform r kwf ip =>
    cases ip with
    | false => exact (hop rfl).elim
    | true => exact transform_tri X hX hM r kwf
  | reset r ip =>
    cases ip with
    | false => exact (hop rfl).elim
    | true => exact reset_tri X hX hM r

end publicOps

end SpecVerif.Heap
