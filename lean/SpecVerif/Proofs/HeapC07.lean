import SpecVerif.Proofs.HeapFrame
/-!
# Helper lemmas of C07 (frozen instances: immutable, evolvable by copy)

* `Keep n₀ s s'`: the heap-only part of `Post` (no clause about the trace), which
  is what survives the rollback handler of an in-place `update` / `transform`.
* `FrozenAt X i s`: object `i` is a settled (`thaw = false`) instance of a frozen class.
* `SafeF X i n₀ m Q`: from every state where `i < n₀` is frozen, `m` keeps every
  pre-existing object; normal results satisfy `Q`.
-/
set_option linter.unusedSectionVars false
set_option linter.unusedVariables false
namespace SpecVerif.Heap
open SpecVerif.Py

variable {α β : Type} {n₀ : Nat} {W : Nat → Prop}

/-! ## `Keep` -/

structure Keep (n₀ : Nat) (s s' : MS) : Prop where
  le₀ : n₀ ≤ s'.heap.length
  frame : ∀ i, i < n₀ → s'.heap[i]? = s.heap[i]?

theorem Keep.refl {s : MS} (h : n₀ ≤ s.heap.length) : Keep n₀ s s := ⟨h, fun _ _ => rfl⟩

theorem Keep.trans {s₁ s₂ s₃ : MS} (h₁ : Keep n₀ s₁ s₂) (h₂ : Keep n₀ s₂ s₃) : Keep n₀ s₁ s₃ :=
  ⟨h₂.le₀, fun i hi => by rw [h₂.frame i hi, h₁.frame i hi]⟩

theorem Post.keep {s s' : MS} (h : Post n₀ (fun _ => False) s s') : Keep n₀ s s' :=
  ⟨h.le₀, fun i hi => h.frame i hi (fun hf => hf)⟩

/-! ## Frozen receivers -/

/-- Object `i` is an instance of a frozen class outside any thaw window. -/
def FrozenAt (X : Ctx) (i : Nat) (s : MS) : Prop :=
  ∃ c fs, s.heap[i]? = some (.inst c false fs) ∧ (X.cd c).frozen = true

theorem FrozenAt.keep {X : Ctx} {i : Nat} {s s' : MS} (h : FrozenAt X i s) (hi : i < n₀)
    (hk : Keep n₀ s s') : FrozenAt X i s' := by
  obtain ⟨c, fs, h1, h2⟩ := h
  exact ⟨c, fs, by rw [hk.frame i hi]; exact h1, h2⟩

def SafeF (X : Ctx) (i n₀ : Nat) (m : M α) (Q : α → Prop) : Prop :=
  i < n₀ → ∀ s, n₀ ≤ s.heap.length → FrozenAt X i s →
    Keep n₀ s (m s).2 ∧ ∀ a, (m s).1 = .ok a → Q a

variable {X : Ctx} {i : Nat}

theorem Safe.toF {m : M α} {Q : α → Prop} (h : Safe n₀ (fun _ => False) m Q) :
    SafeF X i n₀ m Q := by
  intro hi s hs _
  obtain ⟨hp, hq⟩ := h s hs
  exact ⟨hp.keep, hq⟩

theorem SafeF.bind {m : M α} {f : α → M β} {Q : α → Prop} {R : β → Prop}
    (hm : SafeF X i n₀ m Q) (hf : ∀ a, Q a → SafeF X i n₀ (f a) R) :
    SafeF X i n₀ (m >>= f) R := by
  intro hi s hs hfz
  obtain ⟨hp, hq⟩ := hm hi s hs hfz
  rw [run_bind]
  match hms : m s with
  | (.ok a, s') =>
    rw [hms] at hp hq
    simp only
    obtain ⟨hp', hq'⟩ := hf a (hq a rfl) hi s' hp.le₀ (hfz.keep hi hp)
    exact ⟨hp.trans hp', hq'⟩
  | (.error e, s') =>
    rw [hms] at hp
    simp only
    exact ⟨hp, fun b hb => by cases hb⟩

theorem SafeF.pure {a : α} {Q : α → Prop} (h : Q a) : SafeF X i n₀ (pure a : M α) Q :=
  (Safe.pure h).toF

theorem SafeF.throwPy {Q : α → Prop} (e : Err) : SafeF X i n₀ (throwPy e : M α) Q :=
  (Safe.throwPy e).toF

theorem SafeF.mono {m : M α} {Q Q' : α → Prop} (h : SafeF X i n₀ m Q) (hQ : ∀ a, Q a → Q' a) :
    SafeF X i n₀ m Q' := by
  intro hi s hs hfz
  obtain ⟨hp, hq⟩ := h hi s hs hfz
  exact ⟨hp, fun a ha => hQ a (hq a ha)⟩

theorem SafeF.ite {c : Prop} [Decidable c] {m₁ m₂ : M α} {Q : α → Prop}
    (h₁ : c → SafeF X i n₀ m₁ Q) (h₂ : ¬ c → SafeF X i n₀ m₂ Q) :
    SafeF X i n₀ (if c then m₁ else m₂) Q := by
  split
  · exact h₁ ‹_›
  · exact h₂ ‹_›

/-! ## Running the accessors on a known node -/

theorem getNode_run_of {s : MS} {i : Nat} {n : Node} (h : s.heap[i]? = some n) :
    getNode i s = (.ok n, s) := by
  unfold getNode; rw [h]

theorem getInst_run_of {s : MS} {i c : Nat} {t : Bool} {fs : List (Nat × Ref)}
    (h : s.heap[i]? = some (.inst c t fs)) :
    getInst (.obj i) s = (.ok (i, c, t, fs), s) := by
  unfold getInst
  simp only
  rw [run_bind_ok (getNode_run_of h)]
  rfl

/-- The frozen guard of `mutate_attr` fires (in place, not forced) before any effect. -/
theorem mutateAttr_frozen_run {s : MS} (hf : FrozenAt X i s) (a : Nat) (v : Ref) (tc : Bool) :
    mutateAttr X (.obj i) a v true tc false s =
      if v = .sc .missing then (.ok (.obj i), s) else (.error (.py .frozenInstanceError), s) := by
  obtain ⟨c, fs, h1, h2⟩ := hf
  unfold mutateAttr
  split
  · rfl
  · rw [run_bind_ok (getInst_run_of h1)]
    simp [guardM, h2, run_bind]

/-- The frozen guard of `__delattr__` fires before any effect. -/
theorem delAttr_frozen_run {s : MS} (hf : FrozenAt X i s) (a : Nat) :
    delAttr X (.obj i) a false s = (.error (.py .frozenInstanceError), s) := by
  obtain ⟨c, fs, h1, h2⟩ := hf
  unfold delAttr
  rw [run_bind_ok (getInst_run_of h1)]
  simp [guardM, h2, run_bind]

/-! ## In-place operations on a frozen receiver keep every old object -/

theorem mutateAttr_frozenF (a : Nat) (v : Ref) (tc : Bool) :
    SafeF X i n₀ (mutateAttr X (.obj i) a v true tc false) (fun r => r = .obj i) := by
  intro hi s hs hf
  rw [mutateAttr_frozen_run hf]
  split
  · exact ⟨Keep.refl hs, fun b hb => by cases hb; rfl⟩
  · exact ⟨Keep.refl hs, fun b hb => by cases hb⟩

theorem setAttr_frozenF (hX : NoClassDnc X) (hM : MakeSafe n₀ (fun _ => False) X) (a : Nat)
    (v : Ref) : SafeF X i n₀ (setAttr X (.obj i) a v false) (fun _ => True) := by
  unfold setAttr
  refine (getInst_safe _).toF.bind (fun p _ => ?_)
  have h1 : Safe n₀ (fun _ => False)
      (match (X.cd p.2.1).attr? a with
        | some d => prepareAttrValue0 X d v
        | none => pure v) (fun _ => True) := by
    split
    · exact prepareAttrValue0_safe X hM _ _
    · exact Safe.pure trivial
  refine h1.toF.bind (fun v' _ => ?_)
  exact (mutateAttr_frozenF a v' true).bind (fun _ _ => SafeF.pure trivial)

theorem setAttrs_frozenF (hX : NoClassDnc X) (hM : MakeSafe n₀ (fun _ => False) X) :
    ∀ kw, SafeF X i n₀ (setAttrs X (.obj i) kw) (fun _ => True) := by
  intro kw
  induction kw with
  | nil => exact SafeF.pure trivial
  | cons av rest ih =>
    obtain ⟨a, v⟩ := av
    unfold setAttrs
    have h1 : SafeF X i n₀ (if (v != .sc .missing) = true then setAttr X (.obj i) a v false else pure ())
        (fun _ => True) :=
      SafeF.ite (fun _ => setAttr_frozenF hX hM a v) (fun _ => SafeF.pure trivial)
    exact h1.bind (fun _ _ => ih)

theorem applyAttrTransforms_frozenF (hX : NoClassDnc X) (hM : MakeSafe n₀ (fun _ => False) X) :
    ∀ kwf, SafeF X i n₀ (applyAttrTransforms X (.obj i) kwf) (fun _ => True) := by
  intro kwf
  induction kwf with
  | nil => exact SafeF.pure trivial
  | cons af rest ih =>
    obtain ⟨a, f⟩ := af
    unfold applyAttrTransforms
    refine (getAttrD_safe _ a).toF.bind (fun cur _ => ?_)
    refine (invoke_safe _ _ _).toF.bind (fun tv _ => ?_)
    have h1 : SafeF X i n₀ (if (tv != .sc .missing) = true then setAttr X (.obj i) a tv false else pure ())
        (fun _ => True) :=
      SafeF.ite (fun _ => setAttr_frozenF hX hM a tv) (fun _ => SafeF.pure trivial)
    exact h1.bind (fun _ _ => ih)

/-- Writing back the node an object already has changes no object. -/
theorem set_same_getElem? (h : Heap) {j : Nat} {n : Node} (hj : h[j]? = some n) (k : Nat) :
    (h.set j n)[k]? = h[k]? := by
  by_cases hjk : j = k
  · subst hjk
    have hlt : j < h.length := by
      rcases Nat.lt_or_ge j h.length with h' | h'
      · exact h'
      · rw [List.getElem?_eq_none h'] at hj; cases hj
    rw [List.getElem?_set_self hlt, hj]
  · rw [List.getElem?_set_ne hjk]

theorem write_same_keep {s : MS} {j : Nat} {n : Node} (hs : n₀ ≤ s.heap.length)
    (hj : s.heap[j]? = some n) : Keep n₀ s (write j n s).2 := by
  obtain ⟨hp, tr, fa, bu⟩ := s
  simp only at hs hj
  cases bu with
  | none =>
    refine ⟨?_, fun k _ => ?_⟩
    · simp [write, run_bind, tick, writeRaw]; exact hs
    · simp [write, run_bind, tick, writeRaw, set_same_getElem? hp hj k]
  | some b =>
    cases b with
    | zero => exact ⟨hs, fun _ _ => rfl⟩
    | succ b =>
      refine ⟨?_, fun k _ => ?_⟩
      · simp [write, run_bind, tick, writeRaw]; exact hs
      · simp [write, run_bind, tick, writeRaw, set_same_getElem? hp hj k]

/-- `_rollback_on_error(obj)` around a body that keeps every old object. -/
theorem rollbackOnError_frozenF {body : M α} {Q : α → Prop} (hb : SafeF X i n₀ body Q) :
    SafeF X i n₀ (rollbackOnError (.obj i) body) Q := by
  intro hi s hs hf
  obtain ⟨c, fs, h1, h2⟩ := hf
  unfold rollbackOnError
  simp only
  rw [run_bind_ok (getNode_run_of h1)]
  simp only
  obtain ⟨hp, hq⟩ := hb hi s hs ⟨c, fs, h1, h2⟩
  unfold onError
  match hms : body s with
  | (.ok a, s') =>
    rw [hms] at hp hq
    exact ⟨hp, hq⟩
  | (.error e, s') =>
    rw [hms] at hp
    have hnode : s'.heap[i]? = some (.inst c false fs) := by rw [hp.frame i hi]; exact h1
    have hk := write_same_keep (n₀ := n₀) hp.le₀ hnode
    simp only
    match hhs : write i (.inst c false fs) s' with
    | (.ok _, s'') =>
      rw [hhs] at hk
      exact ⟨hp.trans hk, fun b hb => by cases hb⟩
    | (.error e', s'') =>
      rw [hhs] at hk
      exact ⟨hp.trans hk, fun b hb => by cases hb⟩


theorem withAttr_frozenF (hX : NoClassDnc X) (hM : MakeSafe n₀ (fun _ => False) X) (a : Nat)
    (v : Ref) (kw : List (Nat × Ref)) :
    SafeF X i n₀ (withAttr X (.obj i) a v kw true) (fun r => r = .obj i) := by
  unfold withAttr
  refine (getInst_safe _).toF.bind (fun p _ => ?_)
  split
  · exact SafeF.throwPy _
  · refine (prepareAttrValue_safe X hX hM _ _ _).toF.bind (fun v' _ => ?_)
    exact mutateAttr_frozenF a v' true

theorem updateAttr_frozenF (hX : NoClassDnc X) (hM : MakeSafe n₀ (fun _ => False) X) (a : Nat)
    (v : Ref) (kw : List (Nat × Ref)) :
    SafeF X i n₀ (updateAttr X (.obj i) a v kw true) (fun r => r = .obj i) := by
  rw [updateAttr_eq_core hX]; unfold updateAttrCore
  refine (getInst_safe _).toF.bind (fun p _ => ?_)
  split
  · exact SafeF.throwPy _
  · refine (getAttrD_safe _ _).toF.bind (fun old _ => ?_)
    refine (mutateValue_safe X hX hM _ (fun h => by simp at h)).toF.bind (fun v1 _ => ?_)
    refine (protectIfUnchanged_safe X hX _ _ _ _ _).toF.bind (fun v2 _ => ?_)
    exact withAttr_frozenF hX hM a v2 []

theorem transformAttr_frozenF (hX : NoClassDnc X) (hM : MakeSafe n₀ (fun _ => False) X) (a : Nat)
    (f : Option Cb) (kwf : List (Nat × Cb)) :
    SafeF X i n₀ (transformAttr X (.obj i) a f kwf true) (fun r => r = .obj i) := by
  rw [transformAttr_eq_core hX]; unfold transformAttrCore
  refine (getInst_safe _).toF.bind (fun p _ => ?_)
  split
  · exact SafeF.throwPy _
  · refine (getAttrD_safe _ _).toF.bind (fun old _ => ?_)
    refine (mutateValue_safe X hX hM _ (fun h => by simp at h)).toF.bind (fun v1 _ => ?_)
    refine (protectIfUnchanged_safe X hX _ _ _ _ _).toF.bind (fun v2 _ => ?_)
    exact withAttr_frozenF hX hM a v2 []

theorem mvConstruct_noctor_run (p : MV) (hc : p.ctor = none) (v : Ref) (s : MS) :
    mvConstruct X p v s = (.ok (v, p.inplace, false), s) := by
  unfold mvConstruct dictAsCtorArgs
  rw [hc]
  simp [run_bind]

/-- `mutate_value(old=self, inplace=True, attrs / attr_transforms)` on a frozen `self`. -/
theorem mutateValue_frozenF (hX : NoClassDnc X) (hM : MakeSafe n₀ (fun _ => False) X) (p : MV)
    (hold : p.old = .obj i) (hnew : p.new = .sc .missing) (hrep : p.replace = false)
    (hctor : p.ctor = none) (htr : p.transform = none) (hip : p.inplace = true) :
    SafeF X i n₀ (mutateValue X p) (fun r => r = .obj i) := by
  have hch : mvChoose p = (.obj i, none) := by
    unfold mvChoose; simp [hnew, hrep, hold]
  unfold mutateValue
  rw [hch, htr]
  simp only [mvApply]
  have h2 : SafeF X i n₀ (mvConstruct X p (.obj i)) (fun r => r = (.obj i, true, false)) := by
    intro hi s hs hf
    rw [mvConstruct_noctor_run p hctor, hip]
    exact ⟨Keep.refl hs, fun b hb => by cases hb; rfl⟩
  refine SafeF.bind (SafeF.pure (Q := fun r => r = Ref.obj i) rfl) (fun v1 hv1 => ?_)
  subst hv1
  refine h2.bind (fun r2 hr2 => ?_)
  subst hr2
  have h3 : SafeF X i n₀ (mvAttrs X p (.obj i) true false) (fun r => r = (.obj i, true)) := by
    unfold mvAttrs
    refine SafeF.ite (fun _ => ?_) (fun _ => ?_)
    · simp only [if_true, Bool.false_eq_true, if_false, hip]
      refine SafeF.bind (SafeF.pure (Q := fun r => r = Ref.obj i) rfl) (fun v hv => ?_)
      subst hv
      unfold guarded
      simp only [if_true]
      exact (rollbackOnError_frozenF (setAttrs_frozenF hX hM _)).bind (fun _ _ => SafeF.pure rfl)
    · exact SafeF.ite (fun _ => SafeF.throwPy _) (fun _ => SafeF.pure rfl)
  refine h3.bind (fun r3 hr3 => ?_)
  subst hr3
  refine SafeF.bind (SafeF.pure (Q := fun r => r = Ref.obj i) rfl) (fun v4 hv4 => ?_)
  subst hv4
  unfold mvAttrTransforms
  refine SafeF.ite (fun _ => ?_) (fun _ => SafeF.pure rfl)
  simp only [if_true, hip, Bool.true_and, beq_self_eq_true]
  refine SafeF.bind (SafeF.pure (Q := fun r => r = Ref.obj i) rfl) (fun v hv => ?_)
  subst hv
  unfold guarded
  simp only [if_true]
  exact (rollbackOnError_frozenF (applyAttrTransforms_frozenF hX hM _)).bind
    (fun _ _ => SafeF.pure rfl)

theorem update_frozenF (hX : NoClassDnc X) (hM : MakeSafe n₀ (fun _ => False) X)
    (kw : List (Nat × Ref)) :
    SafeF X i n₀ (update X (.obj i) kw true) (fun r => r = .obj i) := by
  unfold update
  exact mutateValue_frozenF hX hM _ rfl rfl rfl rfl rfl rfl

theorem transform_frozenF (hX : NoClassDnc X) (hM : MakeSafe n₀ (fun _ => False) X)
    (kwf : List (Nat × Cb)) :
    SafeF X i n₀ (transform X (.obj i) kwf true) (fun r => r = .obj i) := by
  unfold transform
  exact mutateValue_frozenF hX hM _ rfl rfl rfl rfl rfl rfl


/-! ## Exact outcomes: the guard fires before any effect -/

theorem resetAttr_frozen_run {s : MS} (hf : FrozenAt X i s) (a : Nat) :
    resetAttr X (.obj i) a true s = (.error (.py .frozenInstanceError), s) := by
  unfold resetAttr
  simp only [Bool.not_true, Bool.false_eq_true, if_false]
  rw [run_bind_err (delAttr_frozen_run hf a)]

theorem getCollection_frozen_run {s : MS} (hf : FrozenAt X i s) (a : Nat) :
    getCollection X (.obj i) a true s = (.error (.py .frozenInstanceError), s) := by
  obtain ⟨c, fs, h1, h2⟩ := hf
  unfold getCollection
  rw [run_bind_ok (getInst_run_of h1)]
  simp [guardM, h2, run_bind]

theorem elemHelper_frozen_run {s : MS} {c : Nat} {fs : List (Nat × Ref)}
    (h1 : s.heap[i]? = some (.inst c false fs)) (h2 : (X.cd c).frozen = true) (a : Nat)
    (op : ElemOp) :
    elemHelper X (.obj i) a op true s =
      (match (X.cd c).attr? a with
        | none => (.error (.py .attributeError), s)
        | some d => (match d.kind.fam? with
          | none => (.error (.py .attributeError), s)
          | some _ => (.error (.py .frozenInstanceError), s))) := by
  unfold elemHelper
  rw [run_bind_ok (getInst_run_of h1)]
  simp only
  cases (X.cd c).attr? a with
  | none => rfl
  | some d =>
    simp only
    cases d.kind.fam? with
    | none => rfl
    | some fam =>
      simp only
      rw [run_bind_err (getCollection_frozen_run ⟨c, fs, h1, h2⟩ a)]

theorem resetLoop_frozen_run {s : MS} (hf : FrozenAt X i s) (d : AttrDecl) (ds : List AttrDecl) :
    resetLoop X (.obj i) (d :: ds) s = (.error (.py .frozenInstanceError), s) := by
  unfold resetLoop
  have : tryCatch (delAttr X (.obj i) d.name false) (fun e => e == .py .attributeError) (pure ()) s
      = (.error (.py .frozenInstanceError), s) := by
    unfold tryCatch
    rw [delAttr_frozen_run hf]
    simp
  rw [run_bind_err this]

theorem reset_frozen_run {s : MS} {c : Nat} {fs : List (Nat × Ref)}
    (h1 : s.heap[i]? = some (.inst c false fs)) (h2 : (X.cd c).frozen = true)
    (hb : s.budget = none) (hne : (X.cd c).attrs ≠ []) :
    (reset X (.obj i) true s).1 = .error (.py .frozenInstanceError) ∧
    ∀ k : Nat, (reset X (.obj i) true s).2.heap[k]? = s.heap[k]? := by
  unfold reset
  rw [run_bind_ok (getInst_run_of h1)]
  simp only [Bool.not_true, Bool.false_eq_true, if_false]
  cases hattrs : (X.cd c).attrs with
  | nil => exact absurd hattrs hne
  | cons d ds =>
    have hrb : rollbackOnError (.obj i) (resetLoop X (.obj i) (d :: ds)) s =
        (.error (.py .frozenInstanceError),
          { s with heap := s.heap.set i (.inst c false fs), trace := .write i :: s.trace }) := by
      unfold rollbackOnError
      simp only
      rw [run_bind_ok (getNode_run_of h1)]
      simp only
      unfold onError
      rw [resetLoop_frozen_run ⟨c, fs, h1, h2⟩]
      simp [write, run_bind, tick, hb, writeRaw]
    rw [run_bind_err hrb]
    refine ⟨rfl, fun k => ?_⟩
    exact set_same_getElem? s.heap h1 k

theorem reset_frozen_noattrs_run {s : MS} {c : Nat} {fs : List (Nat × Ref)}
    (h1 : s.heap[i]? = some (.inst c false fs)) (hne : (X.cd c).attrs = []) :
    reset X (.obj i) true s = (.ok (.obj i), s) := by
  unfold reset
  rw [run_bind_ok (getInst_run_of h1)]
  simp only [Bool.not_true, Bool.false_eq_true, if_false, hne]
  unfold rollbackOnError
  simp only
  rw [run_bind, run_bind_ok (getNode_run_of h1)]
  simp [onError, resetLoop]

theorem resetLoop_frozenF : ∀ ds, SafeF X i n₀ (resetLoop X (.obj i) ds) (fun _ => True) := by
  intro ds
  cases ds with
  | nil => unfold resetLoop; exact SafeF.pure trivial
  | cons d ds =>
    intro hi s hs hf
    rw [resetLoop_frozen_run hf]
    exact ⟨Keep.refl hs, fun b hb => by cases hb⟩

theorem reset_frozenF : SafeF X i n₀ (reset X (.obj i) true) (fun r => r = .obj i) := by
  unfold reset
  refine (getInst_safe _).toF.bind (fun p _ => ?_)
  simp only [Bool.not_true, Bool.false_eq_true, if_false]
  exact (rollbackOnError_frozenF (resetLoop_frozenF _)).bind (fun _ _ => SafeF.pure rfl)

theorem SafeF.of_err {m : M α} {Q : α → Prop}
    (h : ∀ s, FrozenAt X i s → ∃ e, m s = (.error e, s)) : SafeF X i n₀ m Q := by
  intro hi s hs hf
  obtain ⟨e, he⟩ := h s hf
  rw [he]
  exact ⟨Keep.refl hs, fun b hb => by cases hb⟩

/-- Every in-place public operation on a frozen receiver keeps every old object,
and can only return the receiver itself. -/
theorem runOp_frozenF (hX : NoClassDnc X) (hM : MakeSafe n₀ (fun _ => False) X) (op : Op)
    (hip : op.inplace = true) (hr : op.receiver = .obj i) :
    SafeF X i n₀ (runOp X op) (fun r => r = .obj i) := by
  unfold runOp
  refine Safe.getHeap.toF.bind (fun h _ => ?_)
  refine (guardM_safe _ _).toF.bind (fun _ _ => ?_)
  cases op with
  | construct c kw => cases hip
  | deepcopy r => cases hip
  | setattr r a v =>
    cases hr
    exact (setAttr_frozenF hX hM a v).bind (fun _ _ => SafeF.pure rfl)
  | delattr r a =>
    cases hr
    exact SafeF.of_err (fun s hf => ⟨_, run_bind_err (delAttr_frozen_run hf a)⟩)
  | withAttr r a v kw ip => cases hr; cases hip; exact withAttr_frozenF hX hM a v kw
  | updateAttr r a v kw ip => cases hr; cases hip; exact updateAttr_frozenF hX hM a v kw
  | transformAttr r a f kwf ip => cases hr; cases hip; exact transformAttr_frozenF hX hM a f kwf
  | resetAttr r a ip =>
    cases hr; cases hip
    exact SafeF.of_err (fun s hf => ⟨_, resetAttr_frozen_run hf a⟩)
  | elem r a eop ip =>
    cases hr; cases hip
    refine SafeF.of_err (fun s hf => ?_)
    obtain ⟨c, fs, h1, h2⟩ := hf
    simp only
    rw [elemHelper_frozen_run h1 h2]
    cases (X.cd c).attr? a with
    | none => exact ⟨_, rfl⟩
    | some d =>
      simp only
      cases d.kind.fam? <;> exact ⟨_, rfl⟩
  | update r kw ip => cases hr; cases hip; exact update_frozenF hX hM kw
  | transform r kwf ip => cases hr; cases hip; exact transform_frozenF hX hM kwf
  | reset r ip => cases hr; cases hip; exact reset_frozenF

/-- Running `runOp` when the keyword check passes / fails. -/
theorem runOp_kw_false (op : Op) (s : MS) (h : kwOk X s.heap op.receiver op = false) :
    runOp X op s = (.error (.py .typeError), s) := by
  unfold runOp
  simp [run_bind, guardM, h]


/-! ## Copy-on-write results are new objects -/

theorem resetAttr_fresh (hX : NoClassDnc X) (hM : MakeSafe n₀ W X) (self : Ref) (a : Nat) :
    Safe n₀ W (resetAttr X self a false) (FreshRef n₀) := by
  unfold resetAttr
  simp only [Bool.not_false, if_true]
  refine (deepcopy_safe X hX self).bind (fun copy hc => ?_)
  exact (thawed_safe X hc.writable (delAttr_safe X hX hM a false hc.writable)).bind
    (fun _ _ => Safe.pure hc)

theorem reset_fresh (hX : NoClassDnc X) (hM : MakeSafe n₀ W X) (self : Ref) :
    Safe n₀ W (reset X self false) (FreshRef n₀) := by
  unfold reset
  refine (getInst_safe self).bind (fun p _ => ?_)
  simp only [Bool.not_false, if_true]
  refine (deepcopy_safe X hX self).bind (fun copy hc => ?_)
  exact (thawed_safe X hc.writable (resetLoop_safe X hX hM hc.writable _)).bind
    (fun _ _ => Safe.pure hc)

/-- `mutate_attr(..., inplace=False)`: the receiver itself when the value is
MISSING (nothing to do), a new object otherwise. -/
theorem mutateAttr_cow (hX : NoClassDnc X) (obj : Ref) (a : Nat) (v : Ref) (tc force : Bool) :
    Safe n₀ W (mutateAttr X obj a v false tc force)
      (fun r => (v = .sc .missing ∧ r = obj) ∨ (v ≠ .sc .missing ∧ FreshRef n₀ r)) := by
  unfold mutateAttr
  refine Safe.ite (fun hv => Safe.pure (Or.inl ⟨hv, rfl⟩)) (fun hv => ?_)
  refine (getInst_safe obj).bind (fun p hp => ?_)
  refine (guardM_safe _ _).bind (fun _ _ => ?_)
  refine Safe.getHeap.bind (fun h _ => ?_)
  refine (guardM_safe _ _).bind (fun _ _ => ?_)
  simp only [hX p.2.1, Bool.or_self, Bool.not_false, if_true]
  refine (deepcopy_safe X hX obj).bind (fun target ht => ?_)
  exact (thawed_safe X ht.writable (rawSet_safe a v ht.writable)).bind
    (fun _ _ => Safe.pure (Or.inr ⟨hv, ht⟩))

def SelfOrFresh (n₀ : Nat) (self r : Ref) : Prop := r = self ∨ FreshRef n₀ r

theorem withAttr_cow (hX : NoClassDnc X) (hM : MakeSafe n₀ W X) (self : Ref) (a : Nat)
    (v : Ref) (kw : List (Nat × Ref)) :
    Safe n₀ W (withAttr X self a v kw false) (SelfOrFresh n₀ self) := by
  unfold withAttr
  refine (getInst_safe self).bind (fun p _ => ?_)
  split
  · exact Safe.throwPy _
  · refine (prepareAttrValue_safe X hX hM _ _ _).bind (fun v' _ => ?_)
    exact (mutateAttr_cow hX self a v' true false).mono
      (fun r hr => hr.elim (fun h => Or.inl h.2) (fun h => Or.inr h.2))

theorem updateAttr_cow (hX : NoClassDnc X) (hM : MakeSafe n₀ W X) (self : Ref) (a : Nat)
    (v : Ref) (kw : List (Nat × Ref)) :
    Safe n₀ W (updateAttr X self a v kw false) (SelfOrFresh n₀ self) := by
  rw [updateAttr_eq_core hX]; unfold updateAttrCore
  refine (getInst_safe self).bind (fun p _ => ?_)
  split
  · exact Safe.throwPy _
  · refine (getAttrD_safe _ _).bind (fun old _ => ?_)
    refine (mutateValue_safe X hX hM _ (fun h => by simp at h)).bind (fun v1 _ => ?_)
    refine (protectIfUnchanged_safe X hX _ _ _ _ _).bind (fun v2 _ => ?_)
    exact withAttr_cow hX hM self a v2 []

theorem transformAttr_cow (hX : NoClassDnc X) (hM : MakeSafe n₀ W X) (self : Ref) (a : Nat)
    (f : Option Cb) (kwf : List (Nat × Cb)) :
    Safe n₀ W (transformAttr X self a f kwf false) (SelfOrFresh n₀ self) := by
  rw [transformAttr_eq_core hX]; unfold transformAttrCore
  refine (getInst_safe self).bind (fun p _ => ?_)
  split
  · exact Safe.throwPy _
  · refine (getAttrD_safe _ _).bind (fun old _ => ?_)
    refine (mutateValue_safe X hX hM _ (fun h => by simp at h)).bind (fun v1 _ => ?_)
    refine (protectIfUnchanged_safe X hX _ _ _ _ _).bind (fun v2 _ => ?_)
    exact withAttr_cow hX hM self a v2 []

theorem elemHelper_cow (hX : NoClassDnc X) (hM : MakeSafe n₀ W X) (self : Ref) (a : Nat)
    (op : ElemOp) : Safe n₀ W (elemHelper X self a op false) (SelfOrFresh n₀ self) := by
  unfold elemHelper
  refine (getInst_safe self).bind (fun p _ => ?_)
  split
  · exact Safe.throwPy _
  · split
    · exact Safe.throwPy _
    · refine (getCollection_safe X hX self a false).bind (fun coll0 h0 => ?_)
      refine (mutateCollection_safe X hX hM _ _ op (h0 rfl).writable).bind (fun coll1 _ => ?_)
      exact (mutateAttr_cow hX self a coll1 false false).mono
        (fun r hr => hr.elim (fun h => Or.inl h.2) (fun h => Or.inr h.2))

/-- `mutate_value(..., inplace=False)` returns the value it started from
(nothing to do) or a new object. -/
theorem mutateValue_cow (hX : NoClassDnc X) (hM : MakeSafe n₀ W X) (p : MV)
    (hip : p.inplace = false) :
    Safe n₀ W (mutateValue X p) (SelfOrFresh n₀ (mvChoose p).1) := by
  unfold mutateValue
  refine (mvApply_safe _ _).bind (fun v1 hv1 => ?_)
  refine (mvConstruct_safe X hM p v1).bind (fun r2 hr2 => ?_)
  have hsafe2 : r2.2.1 = true → Writable n₀ W r2.1 := by
    intro hs
    rcases hr2 with ⟨_, h2⟩ | h
    · rw [h2, hip] at hs; cases hs
    · exact h.writable
  have h2' : SelfOrFresh n₀ (mvChoose p).1 r2.1 := by
    rcases hr2 with ⟨h1, _⟩ | h
    · rw [h1]; exact hv1
    · exact Or.inr h
  refine (mvAttrs_safe X hX hM p r2.1 r2.2.1 r2.2.2 hsafe2).bind (fun r3 hr3 => ?_)
  have h3' : SelfOrFresh n₀ (mvChoose p).1 r3.1 := by
    rcases hr3.2 with h | h
    · rw [h]; exact h2'
    · exact Or.inr h
  have h4 : Safe n₀ W (mvApply p.transform r3.1)
      (fun r => (r3.2 = true → Writable n₀ W r) ∧ SelfOrFresh n₀ (mvChoose p).1 r) := by
    refine (mvApply_safe _ _).mono (fun r hr => ?_)
    rcases hr with rfl | h
    · exact ⟨hr3.1, h3'⟩
    · exact ⟨fun _ => h.writable, Or.inr h⟩
  refine h4.bind (fun v4 hv4 => ?_)
  refine (mvAttrTransforms_safe X hX hM p v4 (r3.2 && v4 == r3.1)
    (fun hs => hv4.1 (by simp only [Bool.and_eq_true] at hs; exact hs.1))).mono (fun r hr => ?_)
  rcases hr with rfl | h
  · exact hv4.2
  · exact Or.inr h

/-- The result of a public operation not called in place: a new object, except
that the scalar/top-level helpers hand back the receiver when there is nothing
to change (MISSING value, no keyword). -/
def CowResult (n₀ : Nat) : Op → Ref → Prop
  | .construct _ _, r => FreshRef n₀ r
  | .resetAttr _ _ _, r => FreshRef n₀ r
  | .reset _ _, r => FreshRef n₀ r
  | .deepcopy _, r => FreshRef n₀ r
  | op, r => SelfOrFresh n₀ op.receiver r

theorem runOp_cow (hX : NoClassDnc X) (hM : MakeSafe n₀ W X) (op : Op)
    (hip : op.inplace = false) : Safe n₀ W (runOp X op) (CowResult n₀ op) := by
  unfold runOp
  refine Safe.getHeap.bind (fun h _ => ?_)
  refine (guardM_safe _ _).bind (fun _ _ => ?_)
  cases op with
  | construct c kw => exact hM c kw
  | setattr r a v => cases hip
  | delattr r a => cases hip
  | withAttr r a v kw ip => cases hip; exact withAttr_cow hX hM r a v kw
  | updateAttr r a v kw ip => cases hip; exact updateAttr_cow hX hM r a v kw
  | transformAttr r a f kwf ip => cases hip; exact transformAttr_cow hX hM r a f kwf
  | resetAttr r a ip => cases hip; exact resetAttr_fresh hX hM r a
  | elem r a eop ip => cases hip; exact elemHelper_cow hX hM r a eop
  | update r kw ip =>
    cases hip
    exact mutateValue_cow hX hM _ rfl
  | transform r kwf ip =>
    cases hip
    exact mutateValue_cow hX hM _ rfl
  | reset r ip => cases hip; exact reset_fresh hX hM r
  | deepcopy r => exact deepcopy_safe X hX r


/-! ## The unfrozen twin table; `deepcopy` never consults `frozen` -/

/-- The same classes with `frozen=False`. -/
def unfreeze (T : List ClassDecl) : List ClassDecl := T.map (fun cd => { cd with frozen := false })

def Ctx.unfreeze (X : Ctx) : Ctx := { X with T := SpecVerif.Heap.unfreeze X.T }

theorem cd_unfreeze (X : Ctx) (c : Nat) : X.unfreeze.cd c = { X.cd c with frozen := false } := by
  unfold Ctx.cd Ctx.unfreeze SpecVerif.Heap.unfreeze
  simp only [List.getD_eq_getElem?_getD, List.getElem?_map]
  cases X.T[c]? <;> rfl

theorem cd_close (X : Ctx) (c : Nat) : X.close.cd c = X.cd c := rfl

/-- `Y` has the class table of `X` up to the `frozen` flags. -/
def SameButFrozen (X Y : Ctx) : Prop := ∀ c, Y.cd c = { X.cd c with frozen := false }

theorem sameButFrozen_twin (X₀ : Ctx) : SameButFrozen X₀.close X₀.unfreeze.close :=
  fun c => by rw [cd_close, cd_close, cd_unfreeze]

theorem copyFields_congr (f : Ref → Memo → M (Ref × Memo)) (cd cd' : ClassDecl)
    (h : ∀ a, cd'.attr? a = cd.attr? a) (j c : Nat) (thaw : Bool) :
    ∀ fs acc m, copyFields f cd' j c thaw acc fs m = copyFields f cd j c thaw acc fs m := by
  intro fs
  induction fs with
  | nil => intro acc m; rfl
  | cons av fs ih =>
    intro acc m
    obtain ⟨a, v⟩ := av
    unfold copyFields
    simp only [h a, ih]

theorem copyRef_congr {X Y : Ctx} (hXY : SameButFrozen X Y) :
    ∀ fuel r m, copyRef Y fuel r m = copyRef X fuel r m := by
  intro fuel
  induction fuel with
  | zero =>
    intro r m
    cases r <;> rfl
  | succ fuel ih =>
    intro r m
    have hfun : copyRef Y fuel = copyRef X fuel := funext (fun r => funext (fun m => ih r m))
    cases r with
    | sc s => rfl
    | obj i =>
      unfold copyRef
      rw [hfun]
      have hd : ∀ c, (Y.cd c).dnc = (X.cd c).dnc := fun c => by rw [hXY c]
      have hp : ∀ c, (Y.cd c).postCopy = (X.cd c).postCopy := fun c => by rw [hXY c]
      have hf : ∀ c j thaw acc fs m,
          copyFields (copyRef X fuel) (Y.cd c) j c thaw acc fs m =
          copyFields (copyRef X fuel) (X.cd c) j c thaw acc fs m := fun c j thaw acc fs m =>
        copyFields_congr _ _ _ (fun a => by rw [hXY c]; rfl) j c thaw fs acc m
      simp only [hd, hp, hf]

theorem deepcopy_congr {X Y : Ctx} (hXY : SameButFrozen X Y) (r : Ref) :
    deepcopy Y r = deepcopy X r := by
  unfold deepcopy
  simp only [copyRef_congr hXY]

/-! ## The thaw window: `deepcopy` of settled instances yields settled instances -/

/-- No stored instance is inside a thaw / initialisation window. -/
def AllSettled (h : Heap) : Prop :=
  ∀ (i c : Nat) (t : Bool) (fs : List (Nat × Ref)), h[i]? = some (Node.inst c t fs) → t = false

def NodeSettled (n : Node) : Prop :=
  ∀ (c : Nat) (t : Bool) (fs : List (Nat × Ref)), n = Node.inst c t fs → t = false

/-- `m` maps settled heaps to settled heaps (whether it returns or raises). -/
def Stl (m : M α) (Q : α → Prop) : Prop :=
  ∀ s, AllSettled s.heap → AllSettled (m s).2.heap ∧ ∀ a, (m s).1 = .ok a → Q a

theorem Stl.pure {a : α} {Q : α → Prop} (h : Q a) : Stl (pure a : M α) Q :=
  fun s hs => ⟨hs, fun b hb => by cases hb; exact h⟩

theorem Stl.throwPy {Q : α → Prop} (e : Err) : Stl (throwPy e : M α) Q :=
  fun s hs => ⟨hs, fun b hb => by cases hb⟩

theorem Stl.bind {m : M α} {f : α → M β} {Q : α → Prop} {R : β → Prop}
    (hm : Stl m Q) (hf : ∀ a, Q a → Stl (f a) R) : Stl (m >>= f) R := by
  intro s hs
  obtain ⟨hp, hq⟩ := hm s hs
  rw [run_bind]
  match hms : m s with
  | (.ok a, s') =>
    rw [hms] at hp hq
    exact hf a (hq a rfl) s' hp
  | (.error e, s') =>
    rw [hms] at hp
    exact ⟨hp, fun b hb => by cases hb⟩

theorem Stl.mono {m : M α} {Q Q' : α → Prop} (h : Stl m Q) (hQ : ∀ a, Q a → Q' a) : Stl m Q' :=
  fun s hs => ⟨(h s hs).1, fun a ha => hQ a ((h s hs).2 a ha)⟩

theorem Stl.ite {c : Prop} [Decidable c] {m₁ m₂ : M α} {Q : α → Prop}
    (h₁ : c → Stl m₁ Q) (h₂ : ¬ c → Stl m₂ Q) : Stl (if c then m₁ else m₂) Q := by
  split
  · exact h₁ ‹_›
  · exact h₂ ‹_›

theorem Stl.getHeap : Stl getHeap (fun _ => True) := fun s hs => ⟨hs, fun _ _ => trivial⟩

theorem Stl.getNode (i : Nat) : Stl (getNode i) NodeSettled := by
  intro s hs
  unfold SpecVerif.Heap.getNode
  cases h : s.heap[i]? with
  | none => exact ⟨hs, fun _ hb => by cases hb⟩
  | some n =>
    refine ⟨hs, fun a ha => ?_⟩
    cases ha
    intro c t fs hn
    exact hs i c t fs (by rw [h, hn])

theorem Stl.tick : Stl tick (fun _ => True) := by
  intro s hs
  unfold SpecVerif.Heap.tick
  split <;> exact ⟨hs, fun _ _ => trivial⟩

theorem Stl.callCb (k : CbKind) : Stl (callCb k) (fun _ => True) := by
  intro s hs
  unfold SpecVerif.Heap.callCb
  simp only
  split <;> exact ⟨hs, fun _ _ => trivial⟩

theorem Stl.alloc {n : Node} (hn : NodeSettled n) : Stl (alloc n) (fun _ => True) := by
  unfold SpecVerif.Heap.alloc
  refine Stl.tick.bind (fun _ _ s hs => ⟨?_, fun _ _ => trivial⟩)
  intro i c t fs hi
  simp only [allocRaw] at hi
  by_cases hlt : i < s.heap.length
  · rw [List.getElem?_append_left hlt] at hi
    exact hs i c t fs hi
  · rw [List.getElem?_append_right (by omega)] at hi
    cases hsub : i - s.heap.length with
    | zero =>
      rw [hsub] at hi
      simp at hi
      exact hn c t fs hi
    | succ k =>
      rw [hsub] at hi
      simp at hi

theorem Stl.write (j : Nat) {n : Node} (hn : NodeSettled n) : Stl (write j n) (fun _ => True) := by
  unfold SpecVerif.Heap.write
  refine Stl.tick.bind (fun _ _ s hs => ⟨?_, fun _ _ => trivial⟩)
  intro i c t fs hi
  simp only [writeRaw] at hi
  by_cases hji : j = i
  · subst hji
    by_cases hlt : j < s.heap.length
    · rw [List.getElem?_set_self hlt] at hi
      cases hi
      exact hn c t fs rfl
    · rw [List.getElem?_eq_none (by simp; omega)] at hi
      cases hi
  · rw [List.getElem?_set_ne hji] at hi
    exact hs i c t fs hi

theorem copyList_stl (f : Ref → Memo → M (Ref × Memo)) (hf : ∀ r m, Stl (f r m) (fun _ => True)) :
    ∀ rs m, Stl (copyList f rs m) (fun _ => True) := by
  intro rs
  induction rs with
  | nil => intro m; exact Stl.pure trivial
  | cons r rs ih =>
    intro m
    unfold copyList
    refine (hf r m).bind (fun p _ => ?_)
    exact (ih p.2).bind (fun q _ => Stl.pure trivial)

theorem copyKVs_stl (f : Ref → Memo → M (Ref × Memo)) (hf : ∀ r m, Stl (f r m) (fun _ => True)) :
    ∀ rs m, Stl (copyKVs f rs m) (fun _ => True) := by
  intro rs
  induction rs with
  | nil => intro m; exact Stl.pure trivial
  | cons kr rs ih =>
    intro m
    obtain ⟨k, r⟩ := kr
    unfold copyKVs
    refine (hf r m).bind (fun p _ => ?_)
    exact (ih p.2).bind (fun q _ => Stl.pure trivial)

theorem copyFields_stl (f : Ref → Memo → M (Ref × Memo)) (hf : ∀ r m, Stl (f r m) (fun _ => True))
    (cd : ClassDecl) (j c : Nat) :
    ∀ fs acc m, Stl (copyFields f cd j c false acc fs m) (fun _ => True) := by
  intro fs
  induction fs with
  | nil => intro acc m; exact Stl.pure trivial
  | cons av fs ih =>
    intro acc m
    obtain ⟨a, v⟩ := av
    unfold copyFields
    simp only
    have hstep : Stl
        (if (match cd.attr? a with | some d => d.dnc | none => false) = true
          then (pure (v, m) : M (Ref × Memo)) else f v m) (fun _ => True) :=
      Stl.ite (fun _ => Stl.pure trivial) (fun _ => hf v m)
    refine hstep.bind (fun p _ => ?_)
    exact (Stl.write j (fun _ _ _ h => by cases h; rfl)).bind (fun _ _ => ih _ _)

theorem copyRef_stl (X : Ctx) : ∀ fuel r m, Stl (copyRef X fuel r m) (fun _ => True) := by
  intro fuel
  induction fuel with
  | zero =>
    intro r m
    cases r with
    | sc s => unfold copyRef; exact Stl.pure trivial
    | obj i => unfold copyRef; exact Stl.throwPy _
  | succ fuel ih =>
    intro r m
    cases r with
    | sc s => unfold copyRef; exact Stl.pure trivial
    | obj i =>
      unfold copyRef
      split
      · exact Stl.pure trivial
      · refine (Stl.getNode i).bind (fun node hnode => ?_)
        cases node with
        | list xs =>
          refine (copyList_stl _ ih xs m).bind (fun p _ => ?_)
          exact (Stl.alloc (fun _ _ _ h => by cases h)).bind (fun _ _ => Stl.pure trivial)
        | dict kvs =>
          refine (copyKVs_stl _ ih kvs m).bind (fun p _ => ?_)
          exact (Stl.alloc (fun _ _ _ h => by cases h)).bind (fun _ _ => Stl.pure trivial)
        | set xs =>
          exact (Stl.alloc (fun _ _ _ h => by cases h)).bind (fun _ _ => Stl.pure trivial)
        | inst c thaw fs =>
          have ht : thaw = false := hnode c thaw fs rfl
          subst ht
          simp only
          refine Stl.ite (fun _ => Stl.pure trivial) (fun _ => ?_)
          refine (Stl.alloc (fun _ _ _ h => by cases h; rfl)).bind (fun j _ => ?_)
          refine (copyFields_stl _ ih (X.cd c) j c fs [] m).bind (fun m1 _ => ?_)
          have hpc : Stl (if (X.cd c).postCopy = true then callCb .postCopy else pure ())
              (fun _ => True) :=
            Stl.ite (fun _ => Stl.callCb _) (fun _ => Stl.pure trivial)
          exact hpc.bind (fun _ _ => Stl.pure trivial)

theorem deepcopy_stl (X : Ctx) (r : Ref) : Stl (deepcopy X r) (fun _ => True) := by
  unfold deepcopy
  refine Stl.getHeap.bind (fun h _ => ?_)
  exact (copyRef_stl X _ r []).bind (fun p _ => Stl.pure trivial)

/-- Preparing a scalar for a non-collection attribute without preparer is the identity. -/
theorem prepareAttrValue0_scalar_run (X : Ctx) (d : AttrDecl) (sc : Sc) (s : MS)
    (hp : d.prep = none) (hfam : d.kind.fam? = none) (hv : sc ≠ .missing) :
    prepareAttrValue0 X d (.sc sc) s = (.ok (.sc sc), s) := by
  have hne : (Ref.sc sc != Ref.sc Sc.missing) = true := by
    simp; exact hv
  have hne' : ¬ (Ref.sc sc = Ref.sc Sc.missing) := by
    intro h; cases h; exact hv rfl
  unfold prepareAttrValue0 mutateValue0
  simp [hp, mvChoose, hne, mvApply, run_bind, mvConstruct, dictAsCtorArgs, hne', hfam]

end SpecVerif.Heap
