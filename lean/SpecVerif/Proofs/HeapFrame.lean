import SpecVerif.Proofs.Heap
/-!
# `Safe` lemmas for every function of `Model/Inst.lean`

One lemma per model function: under `NoClassDnc` (no class-level
`do_not_copy=True`) and `MakeSafe` (the nested constructor is safe), the
function writes only the objects it is explicitly allowed to (`Writable`) or
objects allocated after the boundary.
-/
set_option linter.unusedSectionVars false
set_option linter.unusedVariables false
namespace SpecVerif.Heap
open SpecVerif.Py

variable {α β : Type} {n₀ : Nat} {W : Nat → Prop}

theorem guardM_safe (c : Bool) (e : Err) : Safe n₀ W (guardM c e) (fun _ => True) := by
  unfold guardM
  exact Safe.ite (fun _ => Safe.throwPy _) (fun _ => Safe.pure trivial)

/-- The constructor used for nested default construction is safe and returns a new object. -/
def MakeSafe (n₀ : Nat) (W : Nat → Prop) (X : Ctx) : Prop :=
  ∀ c kw, Safe n₀ W (X.make c kw) (FreshRef n₀)

/-! ## `mutate_attr` -/

theorem mutateAttr_safe (X : Ctx) (hX : NoClassDnc X) (obj : Ref) (a : Nat) (v : Ref)
    (inplace typeCheck force : Bool) (hobj : inplace = true → Writable n₀ W obj) :
    Safe n₀ W (mutateAttr X obj a v inplace typeCheck force) (fun _ => True) := by
  unfold mutateAttr
  refine Safe.ite (fun _ => Safe.pure trivial) (fun _ => ?_)
  refine (getInst_safe obj).bind (fun p hp => ?_)
  refine (guardM_safe _ _).bind (fun _ _ => ?_)
  refine Safe.getHeap.bind (fun h _ => ?_)
  refine (guardM_safe _ _).bind (fun _ _ => ?_)
  refine Safe.ite (fun hc => ?_) (fun hc => ?_)
  · refine (deepcopy_safe X hX obj).bind (fun target ht => ?_)
    exact (thawed_safe X ht.writable (rawSet_safe a v ht.writable)).bind
      (fun _ _ => Safe.pure trivial)
  · have hi : inplace = true := by
      simp [hX p.2.1] at hc
      exact hc
    exact (rawSet_safe a v (hobj hi)).bind (fun _ _ => Safe.pure trivial)

/-! ## Collections -/

theorem createColl_safe (fam : Fam) : Safe n₀ W (createColl fam) (FreshRef n₀) := by
  unfold createColl
  exact (Safe.alloc _).bind (fun j hj => Safe.pure (freshRef_obj hj))

theorem getList_safe (coll : Ref) : Safe n₀ W (getList coll) (fun p => coll = .obj p.1) := by
  unfold getList
  cases coll with
  | sc s => exact Safe.throwPy _
  | obj i =>
    refine (Safe.getNode i).bind (fun node _ => ?_)
    cases node with
    | list xs => exact Safe.pure rfl
    | dict _ => exact Safe.throwPy _
    | set _ => exact Safe.throwPy _
    | inst _ _ _ => exact Safe.throwPy _

theorem getDict_safe (coll : Ref) : Safe n₀ W (getDict coll) (fun p => coll = .obj p.1) := by
  unfold getDict
  cases coll with
  | sc s => exact Safe.throwPy _
  | obj i =>
    refine (Safe.getNode i).bind (fun node _ => ?_)
    cases node with
    | dict xs => exact Safe.pure rfl
    | list _ => exact Safe.throwPy _
    | set _ => exact Safe.throwPy _
    | inst _ _ _ => exact Safe.throwPy _

theorem getSet_safe (coll : Ref) : Safe n₀ W (getSet coll) (fun p => coll = .obj p.1) := by
  unfold getSet
  cases coll with
  | sc s => exact Safe.throwPy _
  | obj i =>
    refine (Safe.getNode i).bind (fun node _ => ?_)
    cases node with
    | set xs => exact Safe.pure rfl
    | list _ => exact Safe.throwPy _
    | dict _ => exact Safe.throwPy _
    | inst _ _ _ => exact Safe.throwPy _

theorem seqExtract_safe (X : Ctx) (ik : Kind) (coll idx : Ref) (raise : Bool) (by' : Option Bool) :
    Safe n₀ W (seqExtract X ik coll idx raise by') (fun _ => True) := by
  unfold seqExtract
  refine Safe.ite (fun _ => Safe.pure trivial) (fun _ => ?_)
  refine Safe.getHeap.bind (fun h _ => ?_)
  refine (getList_safe coll).bind (fun p _ => ?_)
  simp only
  refine Safe.ite (fun _ => ?_) (fun _ => ?_)
  · split
    · split
      · exact Safe.pure trivial
      · exact Safe.ite (fun _ => Safe.throwPy _) (fun _ => Safe.pure trivial)
    · exact Safe.throwPy _
  · split
    · exact Safe.pure trivial
    · exact Safe.ite (fun _ => Safe.throwPy _) (fun _ => Safe.pure trivial)

theorem seqInsert_safe (X : Ctx) (ik : Kind) {coll : Ref} (idx : Option Ref) (item : Ref)
    (insert : Bool) (hc : Writable n₀ W coll) :
    Safe n₀ W (seqInsert X ik coll idx item insert) (fun _ => True) := by
  unfold seqInsert
  refine Safe.getHeap.bind (fun h _ => ?_)
  refine (guardM_safe _ _).bind (fun _ _ => ?_)
  refine (getList_safe coll).bind (fun p hp => ?_)
  have hw := hc p.1 hp
  split
  · exact Safe.write _ hw
  · refine Safe.ite (fun _ => Safe.write _ hw) (fun _ => ?_)
    split
    · exact Safe.write _ hw
    · exact Safe.throwPy _
  · exact Safe.throwPy _

theorem mapExtract_safe (coll key : Ref) (raise : Bool) :
    Safe n₀ W (mapExtract coll key raise) (fun _ => True) := by
  unfold mapExtract
  refine (getDict_safe coll).bind (fun p _ => ?_)
  split
  · split
    · exact Safe.pure trivial
    · exact Safe.ite (fun _ => Safe.throwPy _) (fun _ => Safe.pure trivial)
  · exact Safe.throwPy _

theorem mapInsert_safe (X : Ctx) (ik : Kind) {coll : Ref} (key item : Ref)
    (hc : Writable n₀ W coll) :
    Safe n₀ W (mapInsert X ik coll key item) (fun _ => True) := by
  unfold mapInsert
  refine Safe.getHeap.bind (fun h _ => ?_)
  refine (guardM_safe _ _).bind (fun _ _ => ?_)
  split
  · refine (guardM_safe _ _).bind (fun _ _ => ?_)
    refine (getDict_safe coll).bind (fun p hp => ?_)
    exact Safe.write _ (hc p.1 hp)
  · exact Safe.throwPy _

theorem setExtract_safe (coll v : Ref) (raise : Bool) :
    Safe n₀ W (setExtract coll v raise) (fun _ => True) := by
  unfold setExtract
  refine (getSet_safe coll).bind (fun p _ => ?_)
  split
  · refine Safe.ite (fun _ => Safe.pure trivial) (fun _ => ?_)
    exact Safe.ite (fun _ => Safe.throwPy _) (fun _ => Safe.pure trivial)
  · exact Safe.throwPy _

theorem setInsert_safe (X : Ctx) (ik : Kind) {coll : Ref} (idx item : Ref) (replace : Bool)
    (hc : Writable n₀ W coll) :
    Safe n₀ W (setInsert X ik coll idx item replace) (fun _ => True) := by
  unfold setInsert
  refine Safe.getHeap.bind (fun h _ => ?_)
  refine (guardM_safe _ _).bind (fun _ _ => ?_)
  refine (getSet_safe coll).bind (fun p hp => ?_)
  split
  · exact Safe.write _ (hc p.1 hp)
  · exact Safe.throwPy _

/-! ## `mutate_value` without attribute steps -/

theorem defaultConstruct_safe (X : Ctx) (hM : MakeSafe n₀ W X) (k : Kind)
    (attrs : List (Nat × Ref)) :
    Safe n₀ W (defaultConstruct X k attrs) (fun p => FreshRef n₀ p.1) := by
  unfold defaultConstruct
  cases k with
  | int => exact Safe.pure (freshRef_sc _)
  | str => exact Safe.pure (freshRef_sc _)
  | listInt => exact (createColl_safe _).bind (fun r hr => Safe.pure hr)
  | listSpec c => exact (createColl_safe _).bind (fun r hr => Safe.pure hr)
  | dictStrInt => exact (createColl_safe _).bind (fun r hr => Safe.pure hr)
  | setInt => exact (createColl_safe _).bind (fun r hr => Safe.pure hr)
  | spec c => exact (hM c _).bind (fun r hr => Safe.pure hr)

theorem dictAsCtorArgs_safe (X : Ctx) (hM : MakeSafe n₀ W X) (ctor : Option Kind) (value : Ref)
    (attrs : List (Nat × Ref)) :
    Safe n₀ W (dictAsCtorArgs X ctor value attrs) (fun o => ∀ r, o = some r → FreshRef n₀ r) := by
  unfold dictAsCtorArgs
  refine Safe.getHeap.bind (fun h _ => ?_)
  have hnone : Safe n₀ W (pure none : M (Option Ref)) (fun o => ∀ r, o = some r → FreshRef n₀ r) :=
    Safe.pure (fun r hr => by cases hr)
  split
  · split
    · refine Safe.ite (fun _ => hnone) (fun _ => ?_)
      refine Safe.ite (fun _ => Safe.throwPy _) (fun _ => ?_)
      split
      · exact Safe.ite (fun _ => Safe.pure (fun r hr => by cases hr; exact freshRef_sc _))
          (fun _ => Safe.throwPy _)
      · exact Safe.ite (fun _ => Safe.pure (fun r hr => by cases hr; exact freshRef_sc _))
          (fun _ => Safe.throwPy _)
      · exact (hM _ _).bind (fun r hr => Safe.pure (fun r' hr' => by cases hr'; exact hr))
      · exact Safe.throwPy _
    · exact hnone
  · exact hnone

theorem mvApply_safe (cb : Option (CbKind × Cb)) (v : Ref) :
    Safe n₀ W (mvApply cb v) (fun r => r = v ∨ FreshRef n₀ r) := by
  unfold mvApply
  split
  · exact invoke_safe _ _ _
  · exact Safe.pure (Or.inl rfl)

theorem mvApply_writable (cb : Option (CbKind × Cb)) {v : Ref} (hv : Writable n₀ W v) :
    Safe n₀ W (mvApply cb v) (Writable n₀ W) :=
  (mvApply_safe cb v).mono (fun r hr => by
    rcases hr with rfl | h
    · exact hv
    · exact h.writable)

/-- After steps 3/4: either the value is the incoming one and `safe = p.inplace`,
or it is a new object. -/
theorem mvConstruct_safe (X : Ctx) (hM : MakeSafe n₀ W X) (p : MV) (value : Ref) :
    Safe n₀ W (mvConstruct X p value)
      (fun r => (r.1 = value ∧ r.2.1 = p.inplace) ∨ FreshRef n₀ r.1) := by
  unfold mvConstruct
  refine (dictAsCtorArgs_safe X hM _ _ _).bind (fun o ho => ?_)
  split
  · exact Safe.pure (Or.inr (ho _ rfl))
  · refine Safe.ite (fun _ => ?_) (fun _ => Safe.pure (Or.inl ⟨rfl, rfl⟩))
    split
    · exact (defaultConstruct_safe X hM _ _).bind (fun r hr => Safe.pure (Or.inr hr))
    · exact Safe.pure (Or.inl ⟨rfl, rfl⟩)

theorem mutateValue0_safe (X : Ctx) (hM : MakeSafe n₀ W X) (p : MV) :
    Safe n₀ W (mutateValue0 X p) (fun _ => True) := by
  unfold mutateValue0
  refine (mvApply_safe _ _).bind (fun v1 _ => ?_)
  refine (mvConstruct_safe X hM _ _).bind (fun r _ => ?_)
  exact (mvApply_safe _ _).true

/-! ## Preparing a whole collection -/

theorem seqAddAll_safe (X : Ctx) (hM : MakeSafe n₀ W X) (d : AttrDecl) {coll : Ref}
    (hc : Writable n₀ W coll) :
    ∀ items, Safe n₀ W (seqAddAll X d coll items) (fun _ => True) := by
  intro items
  induction items with
  | nil => exact Safe.pure trivial
  | cons item rest ih =>
    unfold seqAddAll
    refine (mutateValue0_safe X hM _).bind (fun v _ => ?_)
    exact (seqInsert_safe X _ _ _ _ hc).bind (fun _ _ => ih)

theorem mapAddAll_safe (X : Ctx) (hM : MakeSafe n₀ W X) (d : AttrDecl) {coll : Ref}
    (hc : Writable n₀ W coll) :
    ∀ items, Safe n₀ W (mapAddAll X d coll items) (fun _ => True) := by
  intro items
  induction items with
  | nil => exact Safe.pure trivial
  | cons item rest ih =>
    obtain ⟨k, item⟩ := item
    unfold mapAddAll
    refine (mapExtract_safe _ _ _).bind (fun e _ => ?_)
    refine (mutateValue0_safe X hM _).bind (fun v _ => ?_)
    exact (mapInsert_safe X _ _ _ hc).bind (fun _ _ => ih)

theorem setAddAll_safe (X : Ctx) (hM : MakeSafe n₀ W X) (d : AttrDecl) {coll : Ref}
    (hc : Writable n₀ W coll) :
    ∀ items, Safe n₀ W (setAddAll X d coll items) (fun _ => True) := by
  intro items
  induction items with
  | nil => exact Safe.pure trivial
  | cons item rest ih =>
    unfold setAddAll
    refine (mutateValue0_safe X hM _).bind (fun v _ => ?_)
    exact (setInsert_safe X _ _ _ _ hc).bind (fun _ _ => ih)

theorem addItems_safe (X : Ctx) (hM : MakeSafe n₀ W X) (d : AttrDecl) (fam : Fam) {coll : Ref}
    (items : Ref) (hc : Writable n₀ W coll) :
    Safe n₀ W (addItems X d fam coll items) (fun _ => True) := by
  unfold addItems
  refine Safe.getHeap.bind (fun h _ => ?_)
  cases fam with
  | map =>
    simp only
    split
    · split
      · exact mapAddAll_safe X hM d hc _
      · exact Safe.throwPy _
    · exact Safe.throwPy _
  | seq =>
    simp only
    split
    · exact seqAddAll_safe X hM d hc _
    · exact Safe.throwPy _
  | set =>
    simp only
    split
    · exact setAddAll_safe X hM d hc _
    · exact Safe.throwPy _

theorem collPrepare_safe (X : Ctx) (hM : MakeSafe n₀ W X) (d : AttrDecl) (fam : Fam) (coll : Ref) :
    Safe n₀ W (collPrepare X d fam coll) (fun _ => True) := by
  unfold collPrepare
  have h1 : Safe n₀ W
      (if (coll = .sc .none || coll = .sc .missing) = true then createColl fam else pure coll)
      (fun _ => True) :=
    Safe.ite (fun _ => (createColl_safe fam).true) (fun _ => Safe.pure trivial)
  refine h1.bind (fun coll' _ => ?_)
  refine Safe.getHeap.bind (fun h _ => ?_)
  refine Safe.ite (fun _ => ?_) (fun _ => Safe.pure trivial)
  refine (createColl_safe fam).bind (fun fresh hf => ?_)
  exact (addItems_safe X hM d fam _ hf.writable).bind (fun _ _ => Safe.pure trivial)

theorem prepareAttrValue0_safe (X : Ctx) (hM : MakeSafe n₀ W X) (d : AttrDecl) (v : Ref) :
    Safe n₀ W (prepareAttrValue0 X d v) (fun _ => True) := by
  unfold prepareAttrValue0
  refine (mutateValue0_safe X hM _).bind (fun v1 _ => ?_)
  split
  · exact collPrepare_safe X hM d _ _
  · exact Safe.pure trivial

/-! ## `__setattr__` and the attribute steps of `mutate_value` -/

theorem setAttr_safe (X : Ctx) (hX : NoClassDnc X) (hM : MakeSafe n₀ W X) {obj : Ref} (a : Nat)
    (v : Ref) (force : Bool) (ho : Writable n₀ W obj) :
    Safe n₀ W (setAttr X obj a v force) (fun _ => True) := by
  unfold setAttr
  refine (getInst_safe obj).bind (fun p _ => ?_)
  have h1 : Safe n₀ W
      (match (X.cd p.2.1).attr? a with
        | some d => prepareAttrValue0 X d v
        | none => pure v) (fun _ => True) := by
    split
    · exact prepareAttrValue0_safe X hM _ _
    · exact Safe.pure trivial
  refine h1.bind (fun v' _ => ?_)
  exact (mutateAttr_safe X hX obj a v' true true force (fun _ => ho)).bind
    (fun _ _ => Safe.pure trivial)

theorem setAttrs_safe (X : Ctx) (hX : NoClassDnc X) (hM : MakeSafe n₀ W X) {obj : Ref}
    (ho : Writable n₀ W obj) :
    ∀ kw, Safe n₀ W (setAttrs X obj kw) (fun _ => True) := by
  intro kw
  induction kw with
  | nil => exact Safe.pure trivial
  | cons av rest ih =>
    obtain ⟨a, v⟩ := av
    unfold setAttrs
    have h1 : Safe n₀ W (if (v != .sc .missing) = true then setAttr X obj a v false else pure ())
        (fun _ => True) :=
      Safe.ite (fun _ => setAttr_safe X hX hM a v false ho) (fun _ => Safe.pure trivial)
    exact h1.bind (fun _ _ => ih)

theorem applyAttrTransforms_safe (X : Ctx) (hX : NoClassDnc X) (hM : MakeSafe n₀ W X) {obj : Ref}
    (ho : Writable n₀ W obj) :
    ∀ kwf, Safe n₀ W (applyAttrTransforms X obj kwf) (fun _ => True) := by
  intro kwf
  induction kwf with
  | nil => exact Safe.pure trivial
  | cons af rest ih =>
    obtain ⟨a, f⟩ := af
    unfold applyAttrTransforms
    refine (getAttrD_safe obj a).bind (fun cur _ => ?_)
    refine (invoke_safe _ _ _).bind (fun tv _ => ?_)
    have h1 : Safe n₀ W (if (tv != .sc .missing) = true then setAttr X obj a tv false else pure ())
        (fun _ => True) :=
      Safe.ite (fun _ => setAttr_safe X hX hM a tv false ho) (fun _ => Safe.pure trivial)
    exact h1.bind (fun _ _ => ih)

theorem guarded_safe (X : Ctx) (inplace : Bool) {v : Ref} {body : M α} {Q : α → Prop}
    (hv : Writable n₀ W v) (hb : Safe n₀ W body Q) : Safe n₀ W (guarded X inplace v body) Q := by
  unfold guarded
  exact Safe.ite (fun _ => rollbackOnError_safe hv hb)
    (fun _ => thawed_safe X hv (rollbackOnError_safe hv hb))

theorem mvAttrs_safe (X : Ctx) (hX : NoClassDnc X) (hM : MakeSafe n₀ W X) (p : MV) (value : Ref)
    (safe used : Bool) (hv : safe = true → Writable n₀ W value) :
    Safe n₀ W (mvAttrs X p value safe used)
      (fun r => (r.2 = true → Writable n₀ W r.1) ∧ (r.1 = value ∨ FreshRef n₀ r.1)) := by
  unfold mvAttrs
  refine Safe.ite (fun _ => ?_) (fun _ => ?_)
  · have h1 : Safe n₀ W (if safe = true then pure value else protect X value)
        (fun r => Writable n₀ W r ∧ (r = value ∨ FreshRef n₀ r)) :=
      Safe.ite (fun hs => Safe.pure ⟨hv hs, Or.inl rfl⟩)
        (fun _ => (protect_safe X hX value).mono (fun r hr => ⟨hr.writable, Or.inr hr⟩))
    refine h1.bind (fun value' hv' => ?_)
    exact (guarded_safe X _ hv'.1 (setAttrs_safe X hX hM hv'.1 _)).bind
      (fun _ _ => Safe.pure ⟨fun _ => hv'.1, hv'.2⟩)
  · exact Safe.ite (fun _ => Safe.throwPy _) (fun _ => Safe.pure ⟨hv, Or.inl rfl⟩)

theorem mvAttrTransforms_safe (X : Ctx) (hX : NoClassDnc X) (hM : MakeSafe n₀ W X) (p : MV)
    (value : Ref) (safe : Bool) (hv : safe = true → Writable n₀ W value) :
    Safe n₀ W (mvAttrTransforms X p value safe) (fun r => r = value ∨ FreshRef n₀ r) := by
  unfold mvAttrTransforms
  refine Safe.ite (fun _ => ?_) (fun _ => Safe.pure (Or.inl rfl))
  have h1 : Safe n₀ W (if safe = true then pure value else protect X value)
      (fun r => Writable n₀ W r ∧ (r = value ∨ FreshRef n₀ r)) :=
    Safe.ite (fun hs => Safe.pure ⟨hv hs, Or.inl rfl⟩)
      (fun _ => (protect_safe X hX value).mono (fun r hr => ⟨hr.writable, Or.inr hr⟩))
  refine h1.bind (fun value' hv' => ?_)
  exact (guarded_safe X _ hv'.1 (applyAttrTransforms_safe X hX hM hv'.1 _)).bind
    (fun _ _ => Safe.pure hv'.2)

theorem mvChoose_writable (p : MV) (hp : p.inplace = true → Writable n₀ W p.old ∧ Writable n₀ W p.new) :
    p.inplace = true → Writable n₀ W (mvChoose p).1 := by
  intro hi
  unfold mvChoose
  split
  · exact (hp hi).2
  · split
    · exact (hp hi).1
    · exact writable_sc _

/-- `mutate_value`: when `inplace`, the old and new values must be writable;
otherwise it writes only objects it created. -/
theorem mutateValue_safe (X : Ctx) (hX : NoClassDnc X) (hM : MakeSafe n₀ W X) (p : MV)
    (hp : p.inplace = true → Writable n₀ W p.old ∧ Writable n₀ W p.new) :
    Safe n₀ W (mutateValue X p) (fun _ => True) := by
  unfold mutateValue
  have h1 : Safe n₀ W (mvApply (mvChoose p).2 (mvChoose p).1)
      (fun r => p.inplace = true → Writable n₀ W r) := by
    refine (mvApply_safe _ _).mono (fun r hr hi => ?_)
    rcases hr with rfl | h
    · exact mvChoose_writable p hp hi
    · exact h.writable
  refine h1.bind (fun v1 hv1 => ?_)
  refine (mvConstruct_safe X hM p v1).bind (fun r2 hr2 => ?_)
  have hsafe2 : r2.2.1 = true → Writable n₀ W r2.1 := by
    intro hs
    rcases hr2 with ⟨h1, h2⟩ | h
    · rw [h1]; exact hv1 (by rw [← h2]; exact hs)
    · exact h.writable
  refine (mvAttrs_safe X hX hM p r2.1 r2.2.1 r2.2.2 hsafe2).bind (fun r3 hr3 => ?_)
  have h4 : Safe n₀ W (mvApply p.transform r3.1) (fun r => r3.2 = true → Writable n₀ W r) := by
    refine (mvApply_safe _ _).mono (fun r hr hs => ?_)
    rcases hr with rfl | h
    · exact hr3.1 hs
    · exact h.writable
  refine h4.bind (fun v4 hv4 => ?_)
  exact (mvAttrTransforms_safe X hX hM p v4 (r3.2 && v4 == r3.1)
    (fun hs => hv4 (by simp only [Bool.and_eq_true] at hs; exact hs.1))).true

theorem prepareAttrValue_safe (X : Ctx) (hX : NoClassDnc X) (hM : MakeSafe n₀ W X) (d : AttrDecl)
    (v : Ref) (attrs : List (Nat × Ref)) :
    Safe n₀ W (prepareAttrValue X d v attrs) (fun _ => True) := by
  unfold prepareAttrValue
  refine (mutateValue_safe X hX hM _ (fun h => by simp at h)).bind (fun v1 _ => ?_)
  split
  · exact collPrepare_safe X hM d _ _
  · exact Safe.pure trivial

/-! ## Defaults -/

theorem makeN_safe (X : Ctx) (hM : MakeSafe n₀ W X) (c : Nat) :
    ∀ n, Safe n₀ W (makeN X c n) (fun _ => True) := by
  intro n
  induction n with
  | zero => exact Safe.pure trivial
  | succ n ih =>
    unfold makeN
    exact (hM c []).bind (fun r _ => ih.bind (fun rs _ => Safe.pure trivial))

theorem instantiate_safe (X : Ctx) (hM : MakeSafe n₀ W X) (lit : Lit) :
    Safe n₀ W (instantiate X lit) (FreshRef n₀) := by
  unfold instantiate
  cases lit with
  | sc s => exact Safe.pure (freshRef_sc s)
  | list xs => exact (Safe.alloc _).bind (fun j hj => Safe.pure (freshRef_obj hj))
  | dict kvs => exact (Safe.alloc _).bind (fun j hj => Safe.pure (freshRef_obj hj))
  | set xs => exact (Safe.alloc _).bind (fun j hj => Safe.pure (freshRef_obj hj))
  | newInst c => exact hM c []
  | listInst c n =>
    exact (makeN_safe X hM c n).bind (fun xs _ =>
      (Safe.alloc _).bind (fun j hj => Safe.pure (freshRef_obj hj)))

theorem defaultValue_safe (X : Ctx) (hX : NoClassDnc X) (hM : MakeSafe n₀ W X) (d : AttrDecl) :
    Safe n₀ W (defaultValue X d) (FreshRef n₀) := by
  unfold defaultValue
  split
  · exact Safe.pure (freshRef_sc _)
  · exact instantiate_safe X hM _
  · exact instantiate_safe X hM _
  · split
    · exact protect_safe X hX _
    · exact Safe.pure (freshRef_sc _)

theorem lookupDefault_safe (X : Ctx) (hX : NoClassDnc X) (hM : MakeSafe n₀ W X) (d : AttrDecl) :
    ∀ fuel c, Safe n₀ W (lookupDefault X d fuel c) (FreshRef n₀) := by
  intro fuel
  induction fuel with
  | zero => intro c; unfold lookupDefault; exact Safe.pure (freshRef_sc _)
  | succ fuel ih =>
    intro c
    unfold lookupDefault
    refine Safe.ite (fun _ => defaultValue_safe X hX hM d) (fun _ => ?_)
    simp only
    refine Safe.ite (fun _ => ?_) (fun _ => ?_)
    · split
      · exact protect_safe X hX _
      · exact Safe.pure (freshRef_sc _)
    · split
      · exact ih _
      · exact Safe.pure (freshRef_sc _)

theorem lookupDefaultFor_safe (X : Ctx) (hX : NoClassDnc X) (hM : MakeSafe n₀ W X) (d : AttrDecl)
    (c : Nat) : Safe n₀ W (lookupDefaultFor X d c) (FreshRef n₀) :=
  lookupDefault_safe X hX hM d _ c

/-! ## `__delattr__` -/

theorem delAttr_safe (X : Ctx) (hX : NoClassDnc X) (hM : MakeSafe n₀ W X) {obj : Ref} (a : Nat)
    (force : Bool) (ho : Writable n₀ W obj) :
    Safe n₀ W (delAttr X obj a force) (fun _ => True) := by
  unfold delAttr
  refine (getInst_safe obj).bind (fun p _ => ?_)
  refine (guardM_safe _ _).bind (fun _ _ => ?_)
  have h1 : Safe n₀ W
      (match (X.cd p.2.1).attr? a with
        | some d => if (!force) = true then lookupDefaultFor X d p.2.1 else pure (.sc .missing)
        | none => pure (.sc .missing)) (fun _ => True) := by
    split
    · exact Safe.ite (fun _ => (lookupDefaultFor_safe X hX hM _ _).true) (fun _ => Safe.pure trivial)
    · exact Safe.pure trivial
  refine h1.bind (fun dflt _ => ?_)
  refine Safe.ite (fun _ => ?_) (fun _ => ?_)
  · refine (getInst_safe obj).bind (fun q hq => ?_)
    exact Safe.ite (fun _ => Safe.write _ (ho q.1 hq)) (fun _ => Safe.throwPy _)
  · split
    · refine (prepareAttrValue_safe X hX hM _ _ _).bind (fun v _ => ?_)
      exact (mutateAttr_safe X hX obj a v true true true (fun _ => ho)).bind
        (fun _ _ => Safe.pure trivial)
    · exact Safe.pure trivial

/-! ## `__init__` -/

theorem parentKwargs_safe (X : Ctx) (hX : NoClassDnc X) (hM : MakeSafe n₀ W X) (c specC : Nat)
    (kw : List (Nat × Ref)) :
    ∀ ds, Safe n₀ W (parentKwargs X c specC kw ds) (fun _ => True) := by
  intro ds
  induction ds with
  | nil => exact Safe.pure trivial
  | cons d ds ih =>
    unfold parentKwargs
    refine Safe.ite (fun _ => ih) (fun _ => ?_)
    have h1 : Safe n₀ W
        (match alGet d.name kw with
          | some v => if d.dnc = true then pure v else protect X v
          | none => lookupDefaultFor X d c) (fun _ => True) := by
      split
      · exact Safe.ite (fun _ => Safe.pure trivial) (fun _ => (protect_safe X hX _).true)
      · exact (lookupDefaultFor_safe X hX hM _ _).true
    refine h1.bind (fun v _ => ?_)
    exact ih.bind (fun rest _ => Safe.pure trivial)

theorem initAttrs_safe (X : Ctx) (hX : NoClassDnc X) (hM : MakeSafe n₀ W X) {self : Ref} (c : Nat)
    (kw : List (Nat × Ref)) (copyArgs : Bool) (sel : AttrDecl → Bool)
    (hs : Writable n₀ W self) :
    ∀ ds, Safe n₀ W (initAttrs X self c kw copyArgs sel ds) (fun _ => True) := by
  intro ds
  induction ds with
  | nil => exact Safe.pure trivial
  | cons d ds ih =>
    unfold initAttrs
    refine Safe.bind (Q := fun _ => True) ?_ (fun _ _ => ih)
    refine Safe.ite (fun _ => ?_) (fun _ => Safe.pure trivial)
    simp only
    have h1 : Safe n₀ W
        (if ((alGet d.name kw).getD (.sc .missing) != .sc .missing) = true then
            (if (copyArgs && !d.dnc) = true then protect X ((alGet d.name kw).getD (.sc .missing))
             else pure ((alGet d.name kw).getD (.sc .missing)))
          else lookupDefaultFor X d c) (fun _ => True) :=
      Safe.ite
        (fun _ => Safe.ite (fun _ => (protect_safe X hX _).true) (fun _ => Safe.pure trivial))
        (fun _ => (lookupDefaultFor_safe X hX hM _ _).true)
    refine h1.bind (fun v _ => ?_)
    exact Safe.ite (fun _ => setAttr_safe X hX hM _ _ _ hs) (fun _ => Safe.pure trivial)

theorem constructBody_safe (X : Ctx) (hX : NoClassDnc X) (hM : MakeSafe n₀ W X) (c : Nat)
    (kw : List (Nat × Ref)) : Safe n₀ W (constructBody X c kw) (FreshRef n₀) := by
  unfold constructBody
  simp only
  refine (guardM_safe _ _).bind (fun _ _ => ?_)
  refine (Safe.alloc _).bind (fun i hi => ?_)
  have hw : Writable n₀ W (.obj i) := (freshRef_obj hi).writable
  refine (setThaw_safe true (Or.inr hi)).bind (fun _ _ => ?_)
  refine Safe.bind (Q := fun _ => True) ?_ (fun _ _ => ?_)
  · refine Safe.ite (fun _ => ?_) (fun _ => Safe.pure trivial)
    refine (parentKwargs_safe X hX hM _ _ _ _).bind (fun pk _ => ?_)
    exact initAttrs_safe X hX hM _ _ _ _ hw _
  · refine (initAttrs_safe X hX hM _ _ _ _ hw _).bind (fun _ _ => ?_)
    exact (setThaw_safe false (Or.inr hi)).bind (fun _ _ => Safe.pure (freshRef_obj hi))

theorem noClassDnc_with_make (X : Ctx) (hX : NoClassDnc X) (mk : Nat → List (Nat × Ref) → M Ref) :
    NoClassDnc { X with make := mk } := hX

theorem construct_safe (X : Ctx) (hX : NoClassDnc X) :
    ∀ fuel c kw, Safe n₀ W (construct X fuel c kw) (FreshRef n₀) := by
  intro fuel
  induction fuel with
  | zero => intro c kw; unfold construct; exact Safe.throwPy _
  | succ fuel ih =>
    intro c kw
    unfold construct
    exact constructBody_safe _ (noClassDnc_with_make X hX _) (fun c' kw' => ih c' kw') c kw

/-- A closed context satisfies `MakeSafe` (for every boundary and write set). -/
theorem makeSafe_close (X : Ctx) (hX : NoClassDnc X) : MakeSafe n₀ W X.close :=
  fun c kw => construct_safe X hX _ c kw

theorem noClassDnc_close (X : Ctx) (hX : NoClassDnc X) : NoClassDnc X.close := hX

/-! ## Scalar helpers -/

theorem withAttr_safe (X : Ctx) (hX : NoClassDnc X) (hM : MakeSafe n₀ W X) (self : Ref) (a : Nat)
    (v : Ref) (kw : List (Nat × Ref)) (inplace : Bool)
    (hs : inplace = true → Writable n₀ W self) :
    Safe n₀ W (withAttr X self a v kw inplace) (fun _ => True) := by
  unfold withAttr
  refine (getInst_safe self).bind (fun p _ => ?_)
  split
  · exact Safe.throwPy _
  · refine (prepareAttrValue_safe X hX hM _ _ _).bind (fun v' _ => ?_)
    exact mutateAttr_safe X hX self a v' inplace true false hs

theorem protectIfUnchanged_safe (X : Ctx) (hX : NoClassDnc X) (d : AttrDecl) (self : Ref)
    (cdnc : Bool) (v : Ref) (inplace : Bool) :
    Safe n₀ W (protectIfUnchanged X d self cdnc v inplace) (fun _ => True) := by
  unfold protectIfUnchanged
  refine (getAttrD_safe _ _).bind (fun cur _ => ?_)
  exact Safe.ite (fun _ => Safe.pure trivial) (fun _ => (protect_safe X hX v).true)

theorem updateAttr_safe (X : Ctx) (hX : NoClassDnc X) (hM : MakeSafe n₀ W X) (self : Ref) (a : Nat)
    (v : Ref) (kw : List (Nat × Ref)) (inplace : Bool)
    (hs : inplace = true → Writable n₀ W self) :
    Safe n₀ W (updateAttr X self a v kw inplace) (fun _ => True) := by
  rw [updateAttr_eq_core hX]; unfold updateAttrCore
  refine (getInst_safe self).bind (fun p _ => ?_)
  split
  · exact Safe.throwPy _
  · refine (getAttrD_safe _ _).bind (fun old _ => ?_)
    refine (mutateValue_safe X hX hM _ (fun h => by simp at h)).bind (fun v1 _ => ?_)
    refine (protectIfUnchanged_safe X hX _ _ _ _ _).bind (fun v2 _ => ?_)
    exact withAttr_safe X hX hM self a v2 [] inplace hs

theorem transformAttr_safe (X : Ctx) (hX : NoClassDnc X) (hM : MakeSafe n₀ W X) (self : Ref)
    (a : Nat) (f : Option Cb) (kwf : List (Nat × Cb)) (inplace : Bool)
    (hs : inplace = true → Writable n₀ W self) :
    Safe n₀ W (transformAttr X self a f kwf inplace) (fun _ => True) := by
  rw [transformAttr_eq_core hX]; unfold transformAttrCore
  refine (getInst_safe self).bind (fun p _ => ?_)
  split
  · exact Safe.throwPy _
  · refine (getAttrD_safe _ _).bind (fun old _ => ?_)
    refine (mutateValue_safe X hX hM _ (fun h => by simp at h)).bind (fun v1 _ => ?_)
    refine (protectIfUnchanged_safe X hX _ _ _ _ _).bind (fun v2 _ => ?_)
    exact withAttr_safe X hX hM self a v2 [] inplace hs

theorem resetAttr_safe (X : Ctx) (hX : NoClassDnc X) (hM : MakeSafe n₀ W X) (self : Ref) (a : Nat)
    (inplace : Bool) (hs : inplace = true → Writable n₀ W self) :
    Safe n₀ W (resetAttr X self a inplace) (fun _ => True) := by
  unfold resetAttr
  refine Safe.ite (fun _ => ?_) (fun hi => ?_)
  · refine (deepcopy_safe X hX self).bind (fun copy hc => ?_)
    exact (thawed_safe X hc.writable (delAttr_safe X hX hM a false hc.writable)).bind
      (fun _ _ => Safe.pure trivial)
  · have : inplace = true := by simpa using hi
    exact (delAttr_safe X hX hM a false (hs this)).bind (fun _ _ => Safe.pure trivial)

/-! ## Top-level helpers -/

theorem update_safe (X : Ctx) (hX : NoClassDnc X) (hM : MakeSafe n₀ W X) (self : Ref)
    (kw : List (Nat × Ref)) (inplace : Bool) (hs : inplace = true → Writable n₀ W self) :
    Safe n₀ W (update X self kw inplace) (fun _ => True) := by
  unfold update
  exact mutateValue_safe X hX hM _ (fun h => ⟨hs h, writable_sc _⟩)

theorem transform_safe (X : Ctx) (hX : NoClassDnc X) (hM : MakeSafe n₀ W X) (self : Ref)
    (kwf : List (Nat × Cb)) (inplace : Bool) (hs : inplace = true → Writable n₀ W self) :
    Safe n₀ W (transform X self kwf inplace) (fun _ => True) := by
  unfold transform
  exact mutateValue_safe X hX hM _ (fun h => ⟨hs h, writable_sc _⟩)

theorem resetLoop_safe (X : Ctx) (hX : NoClassDnc X) (hM : MakeSafe n₀ W X) {self : Ref}
    (hs : Writable n₀ W self) :
    ∀ ds, Safe n₀ W (resetLoop X self ds) (fun _ => True) := by
  intro ds
  induction ds with
  | nil => exact Safe.pure trivial
  | cons d ds ih =>
    unfold resetLoop
    exact (Safe.tryCatch (delAttr_safe X hX hM _ _ hs) (Safe.pure trivial)).bind (fun _ _ => ih)

theorem reset_safe (X : Ctx) (hX : NoClassDnc X) (hM : MakeSafe n₀ W X) (self : Ref)
    (inplace : Bool) (hs : inplace = true → Writable n₀ W self) :
    Safe n₀ W (reset X self inplace) (fun _ => True) := by
  unfold reset
  refine (getInst_safe self).bind (fun p _ => ?_)
  refine Safe.ite (fun _ => ?_) (fun hi => ?_)
  · refine (deepcopy_safe X hX self).bind (fun copy hc => ?_)
    exact (thawed_safe X hc.writable (resetLoop_safe X hX hM hc.writable _)).bind
      (fun _ _ => Safe.pure trivial)
  · have : inplace = true := by simpa using hi
    exact (rollbackOnError_safe (hs this) (resetLoop_safe X hX hM (hs this) _)).bind
      (fun _ _ => Safe.pure trivial)

/-! ## Element helpers -/

theorem getCollection_safe (X : Ctx) (hX : NoClassDnc X) (self : Ref) (a : Nat) (inplace : Bool) :
    Safe n₀ W (getCollection X self a inplace) (fun coll => inplace = false → FreshRef n₀ coll) := by
  unfold getCollection
  refine (getInst_safe self).bind (fun p _ => ?_)
  refine (guardM_safe _ _).bind (fun _ _ => ?_)
  refine (getAttrD_safe _ _).bind (fun coll _ => ?_)
  refine Safe.ite (fun _ => (protect_safe X hX coll).mono (fun r hr _ => hr)) (fun hc => ?_)
  refine Safe.pure (fun hi => ?_)
  subst hi
  simp at hc
  rw [hc]; exact freshRef_sc _

theorem ensureColl_safe (fam : Fam) {coll : Ref} (hc : Writable n₀ W coll) :
    Safe n₀ W (ensureColl fam coll) (Writable n₀ W) := by
  unfold ensureColl
  exact Safe.ite (fun _ => (createColl_safe fam).mono (fun r hr => hr.writable))
    (fun _ => Safe.pure hc)

theorem elemSeq_safe (X : Ctx) (hX : NoClassDnc X) (hM : MakeSafe n₀ W X) (d : AttrDecl)
    {coll : Ref} (op : ElemOp) (hc : Writable n₀ W coll) :
    Safe n₀ W (elemSeq X d coll op) (fun _ => True) := by
  unfold elemSeq
  cases op with
  | rm key byIndex =>
    simp only
    refine (seqExtract_safe _ _ _ _ _ _).bind (fun e _ => ?_)
    split
    · refine (getList_safe coll).bind (fun p hp => ?_)
      split
      · exact Safe.write _ (hc p.1 hp)
      · exact Safe.throwPy _
    · exact Safe.pure trivial
  | add item key insert attrs =>
    simp only
    refine (seqExtract_safe _ _ _ _ _ _).bind (fun e _ => ?_)
    refine (mutateValue_safe X hX hM _ (fun h => by simp at h)).bind (fun v _ => ?_)
    exact seqInsert_safe X _ _ _ _ hc
  | upd key item byIndex attrs =>
    simp only
    refine (seqExtract_safe _ _ _ _ _ _).bind (fun e _ => ?_)
    refine (mutateValue_safe X hX hM _ (fun h => by simp at h)).bind (fun v _ => ?_)
    exact seqInsert_safe X _ _ _ _ hc
  | tr key f byIndex kwf =>
    simp only
    refine (seqExtract_safe _ _ _ _ _ _).bind (fun e _ => ?_)
    refine (mutateValue_safe X hX hM _ (fun h => by simp at h)).bind (fun v _ => ?_)
    exact seqInsert_safe X _ _ _ _ hc

theorem elemMap_safe (X : Ctx) (hX : NoClassDnc X) (hM : MakeSafe n₀ W X) (d : AttrDecl)
    {coll : Ref} (op : ElemOp) (hc : Writable n₀ W coll) :
    Safe n₀ W (elemMap X d coll op) (fun _ => True) := by
  unfold elemMap
  cases op with
  | rm key byIndex =>
    simp only
    refine (mapExtract_safe _ _ _).bind (fun e _ => ?_)
    refine (getDict_safe coll).bind (fun p hp => ?_)
    split
    · exact Safe.write _ (hc p.1 hp)
    · exact Safe.pure trivial
  | add item key insert attrs =>
    simp only
    refine (mapExtract_safe _ _ _).bind (fun e _ => ?_)
    refine (mutateValue_safe X hX hM _ (fun h => by simp at h)).bind (fun v _ => ?_)
    exact mapInsert_safe X _ _ _ hc
  | upd key item byIndex attrs =>
    simp only
    refine (mapExtract_safe _ _ _).bind (fun e _ => ?_)
    refine (mutateValue_safe X hX hM _ (fun h => by simp at h)).bind (fun v _ => ?_)
    exact mapInsert_safe X _ _ _ hc
  | tr key f byIndex kwf =>
    simp only
    refine (mapExtract_safe _ _ _).bind (fun e _ => ?_)
    refine (mutateValue_safe X hX hM _ (fun h => by simp at h)).bind (fun v _ => ?_)
    exact mapInsert_safe X _ _ _ hc

theorem elemSet_safe (X : Ctx) (hX : NoClassDnc X) (hM : MakeSafe n₀ W X) (d : AttrDecl)
    {coll : Ref} (op : ElemOp) (hc : Writable n₀ W coll) :
    Safe n₀ W (elemSet X d coll op) (fun _ => True) := by
  unfold elemSet
  cases op with
  | rm key byIndex =>
    simp only
    refine (setExtract_safe _ _ _).bind (fun e _ => ?_)
    refine (getSet_safe coll).bind (fun p hp => ?_)
    split
    · exact Safe.write _ (hc p.1 hp)
    · exact Safe.pure trivial
  | add item key insert attrs =>
    simp only
    refine (mutateValue_safe X hX hM _ (fun h => by simp at h)).bind (fun v _ => ?_)
    exact setInsert_safe X _ _ _ _ hc
  | upd key item byIndex attrs =>
    simp only
    refine (setExtract_safe _ _ _).bind (fun e _ => ?_)
    refine (mutateValue_safe X hX hM _ (fun h => by simp at h)).bind (fun v _ => ?_)
    exact setInsert_safe X _ _ _ _ hc
  | tr key f byIndex kwf =>
    simp only
    refine (setExtract_safe _ _ _).bind (fun e _ => ?_)
    refine (mutateValue_safe X hX hM _ (fun h => by simp at h)).bind (fun v _ => ?_)
    exact setInsert_safe X _ _ _ _ hc

theorem mutateCollection_safe (X : Ctx) (hX : NoClassDnc X) (hM : MakeSafe n₀ W X) (d : AttrDecl)
    (fam : Fam) {coll : Ref} (op : ElemOp) (hc : Writable n₀ W coll) :
    Safe n₀ W (mutateCollection X d fam coll op) (fun _ => True) := by
  unfold mutateCollection
  refine (ensureColl_safe fam hc).bind (fun coll' hc' => ?_)
  refine Safe.bind (Q := fun _ => True) ?_ (fun _ _ => Safe.pure trivial)
  cases fam with
  | seq => exact elemSeq_safe X hX hM d op hc'
  | map => exact elemMap_safe X hX hM d op hc'
  | set => exact elemSet_safe X hX hM d op hc'

/-- Element helpers: not in place, they write only what they allocate; in place
they may write the receiver and the collection it holds (`hW`). -/
theorem elemHelper_safe (X : Ctx) (hX : NoClassDnc X) (hM : MakeSafe n₀ W X) (self : Ref) (a : Nat)
    (op : ElemOp) (inplace : Bool) (hW : inplace = true → ∀ i, W i) :
    Safe n₀ W (elemHelper X self a op inplace) (fun _ => True) := by
  unfold elemHelper
  refine (getInst_safe self).bind (fun p _ => ?_)
  split
  · exact Safe.throwPy _
  · split
    · exact Safe.throwPy _
    · refine (getCollection_safe X hX self a inplace).bind (fun coll0 h0 => ?_)
      have hc0 : Writable n₀ W coll0 := by
        cases hi : inplace with
        | false => exact (h0 hi).writable
        | true => exact fun j _ => Or.inl (hW hi j)
      refine (mutateCollection_safe X hX hM _ _ op hc0).bind (fun coll1 _ => ?_)
      exact mutateAttr_safe X hX self a coll1 inplace false false
        (fun hi j _ => Or.inl (hW hi j))

/-! ## The public operations -/

/-- Every public operation is safe with respect to the objects it may write:
nothing pre-existing when it is not in place (`W` arbitrary, e.g. empty). -/
theorem runOp_safe (X : Ctx) (hX : NoClassDnc X) (hM : MakeSafe n₀ W X) (op : Op)
    (hW : op.inplace = true → ∀ i, W i) :
    Safe n₀ W (runOp X op) (fun _ => True) := by
  unfold runOp
  refine Safe.getHeap.bind (fun h _ => ?_)
  refine (guardM_safe _ _).bind (fun _ _ => ?_)
  have hall : ∀ {ip : Bool} {r : Ref}, (ip = true → ∀ i, W i) → ip = true → Writable n₀ W r :=
    fun h hi j _ => Or.inl (h hi j)
  cases op with
  | construct c kw => exact (hM c kw).true
  | setattr r a v =>
    exact (setAttr_safe X hX hM a v false (fun j _ => Or.inl (hW rfl j))).bind
      (fun _ _ => Safe.pure trivial)
  | delattr r a =>
    exact (delAttr_safe X hX hM a false (fun j _ => Or.inl (hW rfl j))).bind
      (fun _ _ => Safe.pure trivial)
  | withAttr r a v kw ip => exact withAttr_safe X hX hM r a v kw ip (hall hW)
  | updateAttr r a v kw ip => exact updateAttr_safe X hX hM r a v kw ip (hall hW)
  | transformAttr r a f kwf ip => exact transformAttr_safe X hX hM r a f kwf ip (hall hW)
  | resetAttr r a ip => exact resetAttr_safe X hX hM r a ip (hall hW)
  | elem r a eop ip => exact elemHelper_safe X hX hM r a eop ip hW
  | update r kw ip => exact update_safe X hX hM r kw ip (hall hW)
  | transform r kwf ip => exact transform_safe X hX hM r kwf ip (hall hW)
  | reset r ip => exact reset_safe X hX hM r ip (hall hW)
  | deepcopy r => exact (deepcopy_safe X hX r).true

end SpecVerif.Heap
